import JoblibProofs.Lemmas.StoreRm
/-! Rely/guarantee derivations, continued: `clearFunc`, `clearItem`, `checkPrevious`, `isInCacheAndValid`, `loadItem`,
`safeWrite`, `dumpItem`, `storeMetadata`, `computeAndStore`, `cachedCall`, `callProc`; `reduceProc`, `clearProc`. -/
namespace JoblibModel.Store

section
variable {π : Par} {s : Bool} {lvl : Level} {me : Nat} {R : FS → FS → Prop} {strong : Prop}

theorem dir_keep_unlink {fs : FS} {q t : Path} {g : Option Nat} (h : IsDirAt q fs) : IsDirAt q (apply (.unlink t g) fs).2 := by
  obtain ⟨j, hj⟩ := h
  rcases unlink_spec t _ fs with ⟨e, _⟩ | ⟨i0, c0, ht, _, _, _, _, hg⟩
  · rw [e]; exact ⟨j, hj⟩
  · by_cases h0 : q = []
    · subst h0; exact ⟨0, by simp⟩
    · exact ⟨j, by rw [hg, getUpd_ne h0 (by rintro rfl; rw [hj] at ht; cases ht)]; exact hj⟩

theorem dir_keep_rmdir {fs : FS} {q t : Path} {g : Option Nat} (h : IsDirAt q fs) (hne : q ≠ t) :
    IsDirAt q (apply (.rmdir t g) fs).2 := by
  obtain ⟨j, hj⟩ := h
  rcases rmdir_spec t _ fs with ⟨e, _⟩ | ⟨_, _, _, _, _, _, _, hg⟩
  · rw [e]; exact ⟨j, hj⟩
  · by_cases h0 : q = []
    · subst h0; exact ⟨0, by simp⟩
    · exact ⟨j, by rw [hg, getUpd_ne h0 hne]; exact hj⟩

theorem func_below : Below pLoc pFunc := ⟨⟨[.mod, .func], rfl⟩, by simp [pLoc, pFunc]⟩
theorem entry_below (a : Nat) : Below pLoc (pEntry a) := ⟨⟨[.mod, .func, .entry a], rfl⟩, by simp [pLoc, pEntry]⟩

theorem rmGood_inv_func (hW : World π s lvl me R) : RmGood (R := R) (OwnG π me strong) (Inv π s) pFunc :=
  ⟨stable_sub hW inv_stable_env,
   fun fs t g h ht => ⟨inv_apply h (own_unlink (π := π) (me := me) (strong := strong) func_below ht).1,
                     inv_apply h (own_rmdir (π := π) (me := me) (strong := strong) func_below ht).1⟩,
   fun fs o hw e => own_obs hw e,
   fun fs t g _ ht => own_unlink func_below ht,
   fun fs t g _ ht => own_rmdir func_below ht⟩

/-- the standing assertion of a call once the function directory is known -/
def Sf (π : Par) (s : Bool) (lvl : Level) (fs : FS) : Prop := Inv π s fs ∧ DK lvl pFunc fs

theorem good_sf (hW : World π s lvl me R) : Good π s me R (Sf π s lvl) := (good_inv hW).and_dk hW pFunc

theorem ownFull_sf : OwnFull π me (Sf π s lvl) := ownFull_inv.and_dk pFunc

theorem rmGood_sf_entry (hW : World π s lvl me R) (a : Nat) :
    RmGood (R := R) (OwnG π me strong) (Sf π s lvl) (pEntry a) := by
  refine ⟨(good_sf hW).stable, fun fs t g h ht => ?_, fun fs o hw e => own_obs hw e,
    fun fs t g _ ht => own_unlink (entry_below a) ht, fun fs t g _ ht => own_rmdir (entry_below a) ht⟩
  have hne : pFunc ≠ t := by
    rintro rfl
    have := ht.length_le
    simp [pEntry, pFunc] at this
  exact ⟨⟨inv_apply h.1 (own_unlink (π := π) (me := me) (strong := strong) (entry_below a) ht).1, fun hp => dir_keep_unlink (h.2 hp)⟩,
         ⟨inv_apply h.1 (own_rmdir (π := π) (me := me) (strong := strong) (entry_below a) ht).1, fun hp => dir_keep_rmdir (h.2 hp) hne⟩⟩

theorem liveOut_of_inv_true {fs : FS} (h : Inv π true fs) : LiveOut π fs := by
  intro a i d hg
  obtain ⟨v, g, hv, hs⟩ := h.out a i d hg
  exact ⟨g, by rw [hv, hs rfl]⟩

/-- what a participant that is alone with a possibly stale cache (`s = false`) additionally knows -/
def Lv (π : Par) (s : Bool) (fs : FS) : Prop := s = false → Inv π true fs

theorem good_inv_lv (hW : World π s lvl me R) : Good π s me R (fun fs => Inv π s fs ∧ Lv π s fs) :=
  ⟨(good_inv hW).stable.and fun fs fs' h hR hs => absurd hR (hW.alone hs _ _),
   fun fs o h ha _ => ⟨inv_apply h.1 ha, fun hs => inv_apply (h.2 hs) ha⟩, fun fs h => h.1⟩

theorem ownFull_inv_lv : OwnFull π me (fun fs => Inv π s fs ∧ Lv π s fs) :=
  fun fs o h ha => ⟨inv_apply h.1 ha, fun hs => inv_apply (h.2 hs) ha⟩

theorem live_of_inv_lv {fs : FS} (h : Inv π s fs ∧ Lv π s fs) : LiveOut π fs := by
  cases hs : s with
  | true => subst hs; exact liveOut_of_inv_true h.1
  | false => exact liveOut_of_inv_true (h.2 hs)

theorem run_rmtree_absent (rank : Name → Nat) (fs : FS) (h : fs.get pFunc = none) :
    run (rmtree rank false pFunc) fs = (.ok (), fs) := by
  simp [rmtree, run, apply, h]

theorem Prog.bind_assoc {α β γ : Type} (p : Prog α) (f : α → Prog β) (g : β → Prog γ) :
    (p.bind f).bind g = p.bind (fun a => (f a).bind g) := by
  induction p with
  | ret a => rfl
  | raise e => rfl
  | op o k ih => simp only [Prog.bind]; congr; funext r; exact ih r

/-- `clear_path`: alone, it leaves no result file behind -/
theorem clearPath_noOut (rank : Name → Nat) (fs : FS) (hi : Inv π s fs) :
    NoOut (run ((exists_ pFunc).bind fun e => if e then rmtree rank false pFunc else Prog.ret ()) fs).2 := by
  have h0 := rmtree_func_noOut rank fs hi
  unfold exists_
  simp only [Prog.bind, run]
  cases hf : fs.get pFunc with
  | none =>
    rw [run_rmtree_absent rank fs hf] at h0
    simp [apply, hf, run]
    exact h0
  | some nd =>
    simp [apply, hf]
    exact h0

/-- `MemorizedFunc.clear()`: when alone (`s = false`), afterwards no result of another source is left -/
theorem clearFunc_sat (hW : World π s lvl me R) (c : Cfg) (hc : CfgOK π me c) :
    Sat R (OwnG π me strong) (Inv π s) (clearFunc c) (fun _ fs => Sf π s lvl fs ∧ Lv π s fs) (EL lvl) := by
  have tail : Sat R (OwnG π me strong) (fun fs => Inv π s fs ∧ Lv π s fs) (writeFuncCode c)
      (fun _ fs => Sf π s lvl fs ∧ Lv π s fs) (EL lvl) :=
    (writeFuncCode_sat hW (good_inv_lv hW) ownFull_inv_lv c hc (fun _ fs h => live_of_inv_lv h)).post
      (fun _ fs h => ⟨⟨h.1.1, h.2⟩, h.1.2⟩) (fun _ _ h => h.2)
  have first : Sat R (OwnG π me strong) (Inv π s)
      ((exists_ pFunc).bind fun e => if e then rmtree c.rank false pFunc else Prog.ret ())
      (fun _ fs => Inv π s fs) (EL lvl) := by
    refine Sat.bind (exists_sat own_up' (good_inv hW).stable pFunc) fun e => ?_
    cases e with
    | true => exact (rmtree_sat (rmGood_inv_func hW) c.rank false).post (fun _ _ h => h) (fun _ _ h => by simp at h)
    | false => exact .ret fun fs h => h
  have first' : Sat R (OwnG π me strong) (Inv π s)
      ((exists_ pFunc).bind fun e => if e then rmtree c.rank false pFunc else Prog.ret ())
      (fun _ fs => Inv π s fs ∧ Lv π s fs) (EL lvl) := by
    cases hs : s with
    | true => subst hs; exact first.post (fun _ _ h => ⟨h, fun e => by cases e⟩) (fun _ _ h => h)
    | false =>
      have := Sat.solo_post (F := fun _ fs => NoOut fs) (hW.alone hs) first (fun fs hi => clearPath_noOut c.rank fs hi)
      subst hs
      exact this.post (fun _ fs h => ⟨h.1, fun _ => inv_true_of_noOut h.1 h.2⟩) (fun _ _ h => h.1)
  have e : clearFunc c = (((exists_ pFunc).bind fun e => if e then rmtree c.rank false pFunc else Prog.ret ()).bind
      fun _ => writeFuncCode c) := by
    rw [Prog.bind_assoc]; rfl
  rw [e]
  exact Sat.bind first' fun _ => tail

/-- `clear_item(call_id)` -/
theorem clearItem_sat (hW : World π s lvl me R) (c : Cfg) (a : Nat) :
    Sat R (OwnG π me strong) (Sf π s lvl) (clearItem c a) (fun _ fs => Sf π s lvl fs) (EL lvl) := by
  unfold clearItem
  refine Sat.bind (exists_sat own_up' (good_sf hW).stable (pEntry a)) fun e => ?_
  cases e with
  | true => exact (rmtree_sat (rmGood_sf_entry hW a) c.rank false).post (fun _ _ h => h) (fun _ _ h => by simp at h)
  | false => exact .ret fun fs h => h


/-! ### Environments smaller than `Env` -/

theorem Sat.mono_R {α : Type} {R R' : FS → FS → Prop} {G : FS → Op → Prop} {P : FS → Prop} {p : Prog α}
    {Q : α → FS → Prop} {E : Err → FS → Prop} (h : Sat R G P p Q E) (hR : ∀ fs fs', R' fs fs' → R fs fs') :
    Sat R' G P p Q E := by
  induction h with
  | ret h => exact .ret h
  | raise h => exact .raise h
  | op M h1 h2 _ ih => exact .op M h1 (fun r fs fs' hm hr => h2 r fs fs' hm (hR _ _ hr)) ih

theorem inv_weaken {fs : FS} (h : Inv π true fs) : Inv π s fs :=
  ⟨h.wf, h.typD, h.typF, fun a i d hg => by
    obtain ⟨v, g, hv, hs⟩ := h.out a i d hg
    exact ⟨v, g, hv, fun _ => hs rfl⟩, h.metaOk, h.up⟩

theorem sf_weaken {fs : FS} (h : Sf π true lvl fs) : Sf π s lvl fs := ⟨inv_weaken h.1, h.2⟩

/-- trust: when `func_code.py` compares equal to the live source, every result file is of the live version -/
def TrustK (π : Par) (s : Bool) (fs : FS) : Prop :=
  s = false → ∀ i d, fs.get pCode = some (.file i d) → π.cd.checkCode π.ver d = .same → Inv π true fs

theorem trust_stable (hW : World π s lvl me R) : Stable R (TrustK π s) := by
  intro fs fs' h hR hs
  exact absurd hR (hW.alone hs _ _)

theorem openr_noop (p : Path) (fs : FS) : (apply (.openr p) fs).2 = fs := by
  simp only [apply]; split <;> rfl

theorem read_noop (p : Path) (i : Nat) (fs : FS) : (apply (.read p i) fs).2 = fs := rfl

/-- absence of `func_code.py` in a possibly stale cache (`s = false`): then no result of another source is present
(the state of a cache nobody was killed in: F24 is the failure of this for crash states) -/
def AbsK (π : Par) (s : Bool) (fs : FS) : Prop := s = false → fs.get pCode = none → Inv π true fs

/-- knowledge carried, when `strong`, into the branch that writes `func_code.py` because it was missing -/
def Lvs (π : Par) (s : Bool) (strong : Prop) (fs : FS) : Prop := strong → s = false → Inv π true fs

theorem good_sf_lvs (hW : World π s lvl me R) : Good π s me R (fun fs => Sf π s lvl fs ∧ Lvs π s strong fs) :=
  ⟨(good_sf hW).stable.and fun fs fs' h hR _ hs => absurd hR (hW.alone hs _ _),
   fun fs o h ha hcode => ⟨(good_sf hW).own fs o h.1 ha hcode, fun h1 h2 => inv_apply (h.2 h1 h2) ha⟩,
   fun fs h => h.1.1⟩

theorem ownFull_sf_lvs : OwnFull π me (fun fs => Sf π s lvl fs ∧ Lvs π s strong fs) :=
  fun fs o h ha => ⟨ownFull_sf fs o h.1 ha, fun h1 h2 => inv_apply (h.2 h1 h2) ha⟩

/-- `_check_previous_func_code`: answers `true` only when every result file is of the live version -/
theorem checkPrevious_sat (hW : World π s lvl me R) (c : Cfg) (hc : CfgOK π me c) :
    Sat R (OwnG π me strong) (fun fs => Sf π s lvl fs ∧ TrustK π s fs ∧ (strong → AbsK π s fs)) (checkPrevious c)
      (fun b fs => Sf π s lvl fs ∧ (b = true → Inv π true fs) ∧ (b = false → Lvs π s strong fs)) (EL lvl) := by
  unfold checkPrevious
  have hS : Stable R (fun fs => Sf π s lvl fs ∧ TrustK π s fs ∧ (strong → AbsK π s fs)) :=
    (good_sf hW).stable.and ((trust_stable hW).and fun fs fs' _ hR _ hs => absurd hR (hW.alone hs _ _))
  have clr : Sat R (OwnG π me strong) (fun fs => Sf π s lvl fs) ((clearFunc c).bind fun _ => Prog.ret false)
      (fun b fs => Sf π s lvl fs ∧ (b = true → Inv π true fs) ∧ (b = false → Lvs π s strong fs)) (EL lvl) := by
    refine Sat.bind ((clearFunc_sat hW c hc).pre fun fs h => h.1) fun _ => ?_
    exact .ret fun fs h => ⟨h.1, fun e => absurd e (by decide), fun _ _ hs => h.2 hs⟩
  have wfc : Sat R (OwnG π me strong) (fun fs => Sf π s lvl fs ∧ Lvs π s strong fs)
      ((writeFuncCode c).bind fun _ => Prog.ret false)
      (fun b fs => Sf π s lvl fs ∧ (b = true → Inv π true fs) ∧ (b = false → Lvs π s strong fs)) (EL lvl) := by
    have hlive : strong → ∀ fs, (Sf π s lvl fs ∧ Lvs π s strong fs) → LiveOut π fs := by
      intro hst fs h
      cases hs : s with
      | true => subst hs; exact liveOut_of_inv_true h.1.1
      | false => exact liveOut_of_inv_true (h.2 hst hs)
    refine Sat.bind ((writeFuncCode_sat hW (good_sf_lvs hW) ownFull_sf_lvs c hc hlive).post (fun _ _ h => h.1)
      (E' := EL lvl) (fun _ _ h => h.2)) fun _ => ?_
    exact .ret fun fs h => ⟨h.1, fun e => absurd e (by decide), fun _ => h.2⟩
  refine Sat.obs (fun r fs => (∀ i, r = .fd i → s = false → ∀ d, fs.readData pCode i = d →
        π.cd.checkCode π.ver d = .same → Inv π true fs) ∧ ((∀ i, r ≠ .fd i) → Lvs π s strong fs))
    (fun fs _ => own_obs (by intro _ _ _ e; cases e) (openr_noop _ fs)) (openr_noop _) ?_
    hS ?_ ?_
  · rintro fs ⟨hsf, htr, habs⟩
    refine ⟨?_, ?_⟩
    · intro i hr hs d hd hsame
      simp only [apply] at hr
      split at hr
      · cases hr
      · cases hr
      · rename_i j c0 hg
        cases hr
        have : fs.readData pCode i = c0 := by unfold FS.readData; rw [hg]; simp
        rw [this] at hd; subst hd
        exact htr hs i _ hg hsame
    · intro hno hst hs
      cases hg : fs.get pCode with
      | none => exact habs hst hs hg
      | some nd =>
        cases nd with
        | dir j => exact absurd (Or.inr (Or.inl rfl)) (hsf.1.typD _ _ hg)
        | file i c0 => exact absurd (by simp [apply, hg]) (hno i)
  · intro r fs fs' h hR
    exact ⟨fun i _ hs => absurd hR (hW.alone hs _ _), fun hno _ hs => absurd hR (hW.alone hs _ _)⟩
  · intro r
    cases r with
    | fd i =>
      refine Sat.obs (fun r fs => (∃ d, r = .data d) ∧
          ∀ d, r = .data d → π.cd.checkCode π.ver d = .same → Inv π true fs)
        (fun fs _ => own_obs (by intro _ _ _ e; cases e) rfl) (read_noop _ _) ?_
        (hS.and ?_) ?_ ?_
      · rintro fs ⟨⟨hsf, _⟩, hk, _⟩
        refine ⟨⟨_, rfl⟩, fun d hr hsame => ?_⟩
        simp only [apply] at hr
        cases hr
        cases hs : s with
        | true => subst hs; exact hsf.1
        | false => exact hk i rfl hs _ rfl hsame
      · intro fs fs' _ hR
        exact ⟨fun i _ hs => absurd hR (hW.alone hs _ _), fun hno _ hs => absurd hR (hW.alone hs _ _)⟩
      · intro r fs fs' h hR
        exact ⟨h.1, fun d hr hsame => inv_stable_env _ _ (h.2 d hr hsame) (hW.sub _ _ hR)⟩
      · intro r
        cases r with
        | data d =>
          simp only
          rw [hc.cd, hc.ver]
          cases hcc : π.cd.checkCode π.ver d with
          | same => exact .ret fun fs h => ⟨h.1.1.1, fun _ => h.2.2 d rfl hcc, fun e => absurd e (by decide)⟩
          | differs => exact clr.pre fun fs h => h.1.1.1
          | valueError => rw [hc.legacy]; exact clr.pre fun fs h => h.1.1.1
        | ok => exact .raise fun fs h => by obtain ⟨d, hd⟩ := h.2.1; cases hd
        | yes => exact .raise fun fs h => by obtain ⟨d, hd⟩ := h.2.1; cases hd
        | no => exact .raise fun fs h => by obtain ⟨d, hd⟩ := h.2.1; cases hd
        | enoent => exact .raise fun fs h => by obtain ⟨d, hd⟩ := h.2.1; cases hd
        | eexist => exact .raise fun fs h => by obtain ⟨d, hd⟩ := h.2.1; cases hd
        | enotempty => exact .raise fun fs h => by obtain ⟨d, hd⟩ := h.2.1; cases hd
        | eisdir => exact .raise fun fs h => by obtain ⟨d, hd⟩ := h.2.1; cases hd
        | enotdir => exact .raise fun fs h => by obtain ⟨d, hd⟩ := h.2.1; cases hd
        | fd _ => exact .raise fun fs h => by obtain ⟨d, hd⟩ := h.2.1; cases hd
        | names _ => exact .raise fun fs h => by obtain ⟨d, hd⟩ := h.2.1; cases hd
    | ok => exact wfc.pre fun fs h => ⟨h.1.1, h.2.2 (by simp)⟩
    | yes => exact wfc.pre fun fs h => ⟨h.1.1, h.2.2 (by simp)⟩
    | no => exact wfc.pre fun fs h => ⟨h.1.1, h.2.2 (by simp)⟩
    | enoent => exact wfc.pre fun fs h => ⟨h.1.1, h.2.2 (by simp)⟩
    | eexist => exact wfc.pre fun fs h => ⟨h.1.1, h.2.2 (by simp)⟩
    | enotempty => exact wfc.pre fun fs h => ⟨h.1.1, h.2.2 (by simp)⟩
    | eisdir => exact wfc.pre fun fs h => ⟨h.1.1, h.2.2 (by simp)⟩
    | enotdir => exact wfc.pre fun fs h => ⟨h.1.1, h.2.2 (by simp)⟩
    | data _ => exact wfc.pre fun fs h => ⟨h.1.1, h.2.2 (by simp)⟩
    | names _ => exact wfc.pre fun fs h => ⟨h.1.1, h.2.2 (by simp)⟩


/-- `get_metadata`: two observing calls; whatever it answers, nothing changed -/
theorem getMetadata_sat {R : FS → FS → Prop} {P : FS → Prop} {E : Err → FS → Prop} (hP : Stable R P) (c : Cfg) (a : Nat) :
    Sat R (OwnG π me strong) P (getMetadata c a) (fun _ fs => P fs) E := by
  unfold getMetadata
  refine Sat.obs (fun _ _ => True) (fun fs _ => own_obs (by intro _ _ _ e; cases e) (openr_noop _ fs)) (openr_noop _)
    (fun _ _ => trivial) hP (fun _ _ _ _ _ => trivial) fun r => ?_
  cases r with
  | fd i =>
    refine Sat.obs (fun _ _ => True) (fun fs _ => own_obs (by intro _ _ _ e; cases e) rfl) (read_noop _ _)
      (fun _ _ => trivial) (hP.and fun _ _ _ _ => trivial) (fun _ _ _ _ _ => trivial) fun r => ?_
    cases r <;> exact .ret fun fs h => h.1.1
  | ok => exact .ret fun fs h => h.1
  | yes => exact .ret fun fs h => h.1
  | no => exact .ret fun fs h => h.1
  | enoent => exact .ret fun fs h => h.1
  | eexist => exact .ret fun fs h => h.1
  | enotempty => exact .ret fun fs h => h.1
  | eisdir => exact .ret fun fs h => h.1
  | enotdir => exact .ret fun fs h => h.1
  | data _ => exact .ret fun fs h => h.1
  | names _ => exact .ret fun fs h => h.1

/-- `load_item`: in a directory whose result files are all of the live version, a successful load returns `f(a)`;
a failure leaves everything as it was (the caller recomputes). -/
theorem loadItem_sat (hW : World π true lvl me R) (c : Cfg) (hc : CfgOK π me c) (a : Nat)
    (hU : ∀ v, π.cd.unpickle (π.cd.pickle v) = some v) :
    Sat R (OwnG π me strong) (Sf π true lvl) (loadItem c a)
      (fun v fs => Sf π true lvl fs ∧ ∃ g, v = ⟨π.ver, a, g⟩) (fun _ fs => Sf π true lvl fs) := by
  unfold loadItem
  have hS : Stable R (Sf π true lvl) := (good_sf hW).stable
  refine Sat.bind (exists_sat own_up' hS (pOut a)) fun e => ?_
  cases e with
  | false => exact .raise fun fs h => h
  | true =>
    simp only [Bool.not_true, Bool.false_eq_true, if_false]
    refine Sat.obs (fun r fs => ∀ i, r = .fd i → ∃ g, WF fs ∧ ReadK (pOut a) i (π.cd.pickle ⟨π.ver, a, g⟩) fs)
      (fun fs _ => own_obs (by intro _ _ _ e; cases e) (openr_noop _ fs)) (openr_noop _) ?_ hS ?_ ?_
    · intro fs hsf i hr
      simp only [apply] at hr
      split at hr
      · cases hr
      · cases hr
      · rename_i j d hg
        cases hr
        obtain ⟨v, g, hv, hs⟩ := hsf.1.out a _ d hg
        have := hs rfl
        subst this
        exact ⟨g, hsf.1.wf, Or.inl (by rw [hg, hv])⟩
    · intro r fs fs' h hR i hr
      obtain ⟨g, hg⟩ := h i hr
      exact ⟨g, readK_stable ⟨a, Or.inl rfl⟩ _ _ hg (hW.sub _ _ hR)⟩
    · intro r
      cases r with
      | fd i =>
        refine Sat.obs (fun r fs => ∃ g, r = .data (π.cd.pickle ⟨π.ver, a, g⟩))
          (fun fs _ => own_obs (by intro _ _ _ e; cases e) rfl) (read_noop _ _) ?_ (hS.and ?_)
          (fun _ _ _ h _ => h) ?_
        · intro fs h
          simp only [apply]
          obtain ⟨g, hg⟩ := h.2 i rfl
          exact ⟨g, by rw [readK_read hg.2]⟩
        · intro fs fs' h hR j hr
          obtain ⟨g, hg⟩ := h j hr
          exact ⟨g, readK_stable ⟨a, Or.inl rfl⟩ _ _ hg (hW.sub _ _ hR)⟩
        · intro r
          cases r with
          | data d =>
            simp only
            rw [hc.cd]
            cases hu : π.cd.unpickle d with
            | some v =>
              refine .ret fun fs h => ⟨h.1.1, ?_⟩
              obtain ⟨g, hg⟩ := h.2
              have hd : d = π.cd.pickle ⟨π.ver, a, g⟩ := by
                simpa using hg
              rw [hd, hU] at hu; cases hu; exact ⟨g, rfl⟩
            | none => exact .raise fun fs h => h.1.1
          | ok => exact .raise fun fs h => h.1.1
          | yes => exact .raise fun fs h => h.1.1
          | no => exact .raise fun fs h => h.1.1
          | enoent => exact .raise fun fs h => h.1.1
          | eexist => exact .raise fun fs h => h.1.1
          | enotempty => exact .raise fun fs h => h.1.1
          | eisdir => exact .raise fun fs h => h.1.1
          | enotdir => exact .raise fun fs h => h.1.1
          | fd _ => exact .raise fun fs h => h.1.1
          | names _ => exact .raise fun fs h => h.1.1
      | ok => exact .raise fun fs h => h.1
      | yes => exact .raise fun fs h => h.1
      | no => exact .raise fun fs h => h.1
      | enoent => exact .raise fun fs h => h.1
      | eexist => exact .raise fun fs h => h.1
      | enotempty => exact .raise fun fs h => h.1
      | eisdir => exact .raise fun fs h => h.1
      | enotdir => exact .raise fun fs h => h.1
      | data _ => exact .raise fun fs h => h.1
      | names _ => exact .raise fun fs h => h.1


/-- `_concurrency_safe_write`: the temporary is private, so the rename installs exactly what was written — or fails -/
theorem safeWrite_sat {P : FS → Prop} (hW : World π s lvl me R) (hP : Good π s me R P) (hF : OwnFull π me P)
    (a : Nat) (tmp final : Path) (d : Bytes)
    (g : Nat)
    (hk : (tmp = pTmpOut a me ∧ final = pOut a ∧ d = π.cd.pickle ⟨π.ver, a, g⟩) ∨
          (tmp = pTmpMeta a me ∧ final = pMeta a ∧ d = π.cd.metaText g)) :
    Sat R (OwnG π me strong) P (safeWrite tmp final d) (fun _ fs => P fs) (fun _ fs => P fs) := by
  have htmp : IsTmp (fun x => x = me) tmp := by
    rcases hk with ⟨rfl, _, _⟩ | ⟨rfl, _, _⟩
    · exact ⟨a, me, rfl, Or.inl rfl⟩
    · exact ⟨a, me, rfl, Or.inr rfl⟩
  have hmine : Mine me tmp := Or.inl htmp
  have hnc : tmp ≠ pCode := by
    rcases hk with ⟨rfl, _, _⟩ | ⟨rfl, _, _⟩ <;> simp [pTmpOut, pTmpMeta, pCode]
  unfold safeWrite
  refine .op (fun r fs => P fs ∧ ∀ i, r = .fd i → LocOnly i tmp fs ∧ TmpData tmp i [] fs) ?_ ?_ ?_
  · intro fs h
    have ha : Allowed π .calls (fun x => x = me) fs (.creat tmp) := .creat tmp (Or.inl htmp)
    refine ⟨own_up (by intro _ _ _ e; cases e) ha, hF _ _ h ha, fun i hr => ?_⟩
    obtain ⟨h1, h2⟩ := own_creat (hP.inv _ h).wf hr
    exact ⟨h1, Or.inr h2⟩
  · rintro r fs fs' ⟨h1, h2⟩ hR
    refine ⟨hP.stable _ _ h1 hR, fun i hr => ?_⟩
    exact ⟨locOnly_stable hmine _ _ (h2 i hr).1 (hW.sub _ _ hR), tmpData_stable htmp _ _ (h2 i hr).2 (hW.sub _ _ hR)⟩
  · intro r
    cases r with
    | fd i =>
      refine .op (fun _ fs => P fs ∧ TmpData tmp i d fs) ?_ ?_ ?_
      · intro fs ⟨h1, h2⟩
        have ha : Allowed π .calls (fun x => x = me) fs (.write tmp i d) :=
          own_write_allowed hmine (h2 i rfl).1 (fun e => absurd e hnc)
        refine ⟨own_write_other (h2 i rfl).1 hnc ha, hF _ _ h1 ha, ?_⟩
        have := tmpData_write (p' := tmp) (d := d) (h2 i rfl).2
        rwa [overwrite_nil] at this
      · rintro _ fs fs' ⟨h1, h2⟩ hR
        exact ⟨hP.stable _ _ h1 hR, tmpData_stable htmp _ _ h2 (hW.sub _ _ hR)⟩
      · intro _
        refine .op (fun _ fs => P fs) ?_ (fun _ => hP.stable) ?_
        · intro fs ⟨h1, h2⟩
          have ha : Allowed π .calls (fun x => x = me) fs (.rename tmp final) := by
            rcases h2 with h2 | h2
            · exact .noop _ (by intro _ _ _ e; cases e) (by simp [apply, h2])
            · have hdat : fs.dataAt tmp = some d := by unfold FS.dataAt; rw [h2]
              rcases hk with ⟨rfl, rfl, rfl⟩ | ⟨rfl, rfl, rfl⟩
              · exact .renameOut a me g rfl hdat
              · exact .renameMeta a me g rfl hdat
          exact ⟨own_up (by intro _ _ _ e; cases e) ha, hF _ _ h1 ha⟩
        · intro r
          cases r <;> first | exact .ret fun fs h => h | exact .raise fun fs h => h
    | ok => exact .raise fun fs h => h.1
    | yes => exact .raise fun fs h => h.1
    | no => exact .raise fun fs h => h.1
    | enoent => exact .raise fun fs h => h.1
    | eexist => exact .raise fun fs h => h.1
    | enotempty => exact .raise fun fs h => h.1
    | eisdir => exact .raise fun fs h => h.1
    | enotdir => exact .raise fun fs h => h.1
    | data _ => exact .raise fun fs h => h.1
    | names _ => exact .raise fun fs h => h.1

/-- `dump_item`: never raises -/
theorem dumpItem_sat (hW : World π s lvl me R) (c : Cfg) (hc : CfgOK π me c) (a : Nat) :
    Sat R (OwnG π me strong) (Sf π s lvl) (dumpItem c a ⟨c.ver, a, c.gen⟩) (fun _ fs => Sf π s lvl fs) (fun _ _ => False) := by
  unfold dumpItem
  have hS : Stable R (Sf π s lvl) := (good_sf hW).stable
  refine Sat.tryCatch (E1 := fun _ fs => Sf π s lvl fs) ?_ (fun _ => .ret fun fs h => h)
  refine Sat.bind (exists_sat own_up' hS (pEntry a)) fun e => ?_
  refine Sat.bind (Q' := fun _ fs => Sf π s lvl fs) ?_ fun _ => ?_
  · cases e with
    | true => exact .ret fun fs h => h
    | false =>
      have := mkdirp_sat (G := OwnG π me strong) own_up' hW (good_sf hW) (pEntry a) (Or.inr (Or.inr (Or.inr (Or.inr ⟨a, rfl⟩))))
        (Or.inr (Or.inr (Or.inr (Or.inr rfl))))
      exact this.post (fun _ _ h => h.1) (fun _ _ h => h.1)
  · rw [hc.me, hc.cd, hc.ver]
    exact safeWrite_sat hW (good_sf hW) ownFull_sf a _ _ _ c.gen (Or.inl ⟨rfl, rfl, rfl⟩)

/-- `store_metadata`: never raises -/
theorem storeMetadata_sat (hW : World π s lvl me R) (c : Cfg) (hc : CfgOK π me c) (a : Nat) :
    Sat R (OwnG π me strong) (Sf π s lvl) (storeMetadata c a) (fun _ fs => Sf π s lvl fs) (fun _ _ => False) := by
  unfold storeMetadata
  refine Sat.tryCatch (E1 := fun _ fs => Sf π s lvl fs) ?_ (fun _ => .ret fun fs h => h)
  refine Sat.bind (Q' := fun _ fs => Sf π s lvl fs) ?_ fun _ => ?_
  · have := mkdirp_sat (G := OwnG π me strong) own_up' hW (good_sf hW) (pEntry a) (Or.inr (Or.inr (Or.inr (Or.inr ⟨a, rfl⟩))))
      (Or.inr (Or.inr (Or.inr (Or.inr rfl))))
    exact this.post (fun _ _ h => h.1) (fun _ _ h => h.1)
  · rw [hc.me, hc.cd]
    exact safeWrite_sat hW (good_sf hW) ownFull_sf a _ _ _ c.gen (Or.inr ⟨rfl, rfl, rfl⟩)


/-! ### The cached call -/

theorem world_true (hW : World π s lvl me R) : World π true lvl me R :=
  ⟨hW.sub, fun h => by cases h⟩

theorem good_init (hW : World π s lvl me R) :
    Good π s me R (fun fs => Inv π s fs ∧ TrustK π s fs ∧ (strong → AbsK π s fs)) :=
  ⟨(good_inv hW).stable.and ((trust_stable hW).and fun fs fs' _ hR _ hs => absurd hR (hW.alone hs _ _)),
   fun fs o h ha hcode => ⟨inv_apply h.1 ha, fun hs i d hg hsame => by
      rw [hcode] at hg
      exact inv_apply (h.2.1 hs i d hg hsame) ha, fun hst hs hg => by
      rw [hcode] at hg
      exact inv_apply (h.2.2 hst hs hg) ha⟩,
   fun fs h => h.1⟩

/-- `_is_in_cache_and_valid`: answers `true` only when every result file is of the live version -/
theorem isInCacheAndValid_sat (hW : World π s lvl me R) (c : Cfg) (hc : CfgOK π me c) (a : Nat) :
    Sat R (OwnG π me strong) (fun fs => Sf π s lvl fs ∧ TrustK π s fs ∧ (strong → AbsK π s fs)) (isInCacheAndValid c a)
      (fun b fs => Sf π s lvl fs ∧ Lvs π s strong fs ∧ (b = true → Sf π true lvl fs)) (EL lvl) := by
  unfold isInCacheAndValid
  refine Sat.bind (checkPrevious_sat hW c hc) fun okc => ?_
  cases okc with
  | false => exact .ret fun fs h => ⟨h.1, h.2.2 rfl, fun e => by cases e⟩
  | true =>
    simp only [Bool.not_true, Bool.false_eq_true, if_false]
    have hW' := world_true hW
    have hS : Stable R (Sf π true lvl) := (good_sf hW').stable
    have toT : ∀ fs, Sf π s lvl fs ∧ (True → Inv π true fs) ∧ (true = false → Lvs π s strong fs) → Sf π true lvl fs :=
      fun fs h => ⟨h.2.1 trivial, h.1.2⟩
    have fromT : ∀ fs, Sf π true lvl fs → Sf π s lvl fs ∧ Lvs π s strong fs :=
      fun fs h => ⟨sf_weaken h, fun _ _ => h.1⟩
    have clr : Sat R (OwnG π me strong) (Sf π true lvl) ((clearItem c a).bind fun _ => Prog.ret false)
        (fun b fs => Sf π s lvl fs ∧ Lvs π s strong fs ∧ (b = true → Sf π true lvl fs)) (EL lvl) :=
      Sat.bind (clearItem_sat hW' c a) fun _ => .ret fun fs h => ⟨(fromT fs h).1, (fromT fs h).2, fun e => by cases e⟩
    refine (Sat.bind (exists_sat own_up' hS (pOut a)) fun e => ?_).pre toT
    cases e with
    | false => exact .ret fun fs h => ⟨(fromT fs h).1, (fromT fs h).2, fun e => by cases e⟩
    | true =>
      simp only [Bool.not_true, Bool.false_eq_true, if_false]
      simp only [hc.skipcb, hc.keeprej, hc.legacy, Bool.false_and, Bool.false_eq_true, if_false]
      refine Sat.bind (getMetadata_sat hS c a) fun stamp => ?_
      have acc : Sat R (OwnG π me strong) (Sf π true lvl) (Prog.ret true)
          (fun b fs => Sf π s lvl fs ∧ Lvs π s strong fs ∧ (b = true → Sf π true lvl fs)) (EL lvl) :=
        .ret fun fs h => ⟨(fromT fs h).1, (fromT fs h).2, fun _ => h⟩
      cases hcb : c.callback with
      | none => exact acc
      | expires fresh =>
        cases stamp with
        | none => exact clr
        | some t =>
          simp only
          by_cases hacc : (Callback.expires fresh).accepts t = true
          · rw [if_pos hacc]; exact acc
          · rw [if_neg hacc]; exact clr
      | since g0 =>
        cases stamp with
        | none => exact clr
        | some t =>
          simp only
          by_cases hacc : (Callback.since g0).accepts t = true
          · rw [if_pos hacc]; exact acc
          · rw [if_neg hacc]; exact clr

theorem obsOnly_loadItem (c : Cfg) (a : Nat) : ObsOnly (loadItem c a) := by
  unfold loadItem exists_
  refine .op _ _ (Or.inl ⟨_, rfl⟩) fun r => ?_
  simp only [Prog.bind]
  by_cases h : (!(r == Res.yes)) = true
  · rw [if_pos h]; exact .raise _
  · rw [if_neg h]
    refine .op _ _ (Or.inr (Or.inl ⟨_, rfl⟩)) fun r => ?_
    cases r with
    | fd i =>
      refine .op _ _ (Or.inr (Or.inr (Or.inl ⟨_, _, rfl⟩))) fun r => ?_
      cases r with
      | data d =>
        simp only
        cases c.codec.unpickle d with
        | some v => exact .ret _
        | none => exact .raise _
      | _ => exact .raise _
    | _ => exact .raise _

theorem ObsOnly.tryCatch {α : Type} {p : Prog α} {h : Err → Prog α} (hp : ObsOnly p) (hh : ∀ e, ObsOnly (h e)) :
    ObsOnly (p.tryCatch h) := by
  induction hp with
  | ret a => exact .ret _
  | raise e => exact hh e
  | op o k ho _ ih => exact .op o _ ho ih

theorem obsOnly_resultGet (c : Cfg) (a : Nat) : ObsOnly (resultGet c a) := by
  unfold resultGet
  refine (obsOnly_loadItem c a).tryCatch fun e => ?_
  by_cases h : e = .valueError
  · rw [if_pos h]; exact .raise _
  · rw [if_neg h]; exact .raise _

/-- exceptions excused for a cached call: the environment may clear the cache, or the call is `call_and_shelve(...).get()`
(whose `get` is documented to raise `KeyError` for a vanished entry) -/
def EC (lvl : Level) (c : Cfg) : Err → FS → Prop := fun _ _ => lvl = .clear ∨ c.shelve = true

/-- `_call` + `_after_call` + `_persist_input`: stores and returns `f(a)`; storing never raises -/
theorem computeAndStore_sat (hW : World π s lvl me R) (c : Cfg) (hc : CfgOK π me c) (a : Nat) :
    Sat R (OwnG π me strong) (Sf π s lvl) (computeAndStore c a)
      (fun v fs => Sf π s lvl fs ∧ (c.shelve = false → ∃ g, v = ⟨π.ver, a, g⟩)) (EC lvl c) := by
  unfold computeAndStore
  simp only [hc.mfirst, Bool.false_eq_true, if_false]
  refine Sat.bind (Q' := fun _ fs => Sf π s lvl fs) ?_ fun _ => ?_
  · refine Sat.bind ((dumpItem_sat hW c hc a).post (fun _ _ h => h) (fun _ _ h => h.elim)) fun _ => ?_
    exact (storeMetadata_sat hW c hc a).post (fun _ _ h => h) (fun _ _ h => h.elim)
  by_cases hsh : c.shelve = true
  · rw [if_pos hsh]
    exact (obsOnly_sat (fun fs o hw e => own_obs hw e) (good_sf hW).stable (obsOnly_resultGet c a)).post
      (fun _ fs h => ⟨h, fun e => by rw [hsh] at e; cases e⟩) (fun _ _ _ => Or.inr hsh)
  · rw [if_neg hsh]
    exact .ret fun fs h => ⟨h, fun _ => ⟨c.gen, by rw [hc.ver]⟩⟩

/-- the same, keeping what a strong participant knows -/
theorem computeAndStore_sat_lvs (hW : World π s lvl me R) (c : Cfg) (hc : CfgOK π me c) (a : Nat) :
    Sat R (OwnG π me strong) (fun fs => Sf π s lvl fs ∧ Lvs π s strong fs) (computeAndStore c a)
      (fun v fs => Inv π s fs ∧ Lvs π s strong fs ∧ (c.shelve = false → ∃ g, v = ⟨π.ver, a, g⟩)) (EC lvl c) := by
  by_cases hk : strong ∧ s = false
  · -- every result present is of the live source: work with the strict invariant
    have h1 := (computeAndStore_sat (strong := strong) (world_true hW) c hc a)
    refine (h1.pre fun fs h => (⟨h.2 hk.1 hk.2, h.1.2⟩ : Sf π true lvl fs)).post ?_ (fun _ _ h => h)
    exact fun v fs h => ⟨inv_weaken h.1.1, fun _ _ => h.1.1, h.2⟩
  · have h1 := (computeAndStore_sat (strong := strong) hW c hc a)
    refine (h1.pre fun fs h => h.1).post ?_ (fun _ _ h => h)
    exact fun v fs h => ⟨h.1.1, fun h1 h2 => absurd ⟨h1, h2⟩ hk, h.2⟩

/-- `MemorizedFunc._cached_call` -/
theorem cachedCall_sat (hW : World π s lvl me R) (c : Cfg) (hc : CfgOK π me c) (a : Nat)
    (hU : ∀ v, π.cd.unpickle (π.cd.pickle v) = some v) :
    Sat R (OwnG π me strong) (fun fs => Sf π s lvl fs ∧ TrustK π s fs ∧ (strong → AbsK π s fs)) (cachedCall c a)
      (fun v fs => Inv π s fs ∧ Lvs π s strong fs ∧ (c.shelve = false → ∃ g, v = ⟨π.ver, a, g⟩)) (EC lvl c) := by
  unfold cachedCall
  refine Sat.bind ((isInCacheAndValid_sat hW c hc a).post (fun _ _ h => h) (fun _ _ h => Or.inl h)) fun valid => ?_
  have cs := computeAndStore_sat_lvs (strong := strong) hW c hc a
  have hW' := world_true hW
  have csT : Sat R (OwnG π me strong) (Sf π true lvl) (computeAndStore c a)
      (fun v fs => Inv π s fs ∧ Lvs π s strong fs ∧ (c.shelve = false → ∃ g, v = ⟨π.ver, a, g⟩)) (EC lvl c) :=
    (computeAndStore_sat (strong := strong) hW' c hc a).post
      (fun v fs h => ⟨inv_weaken h.1.1, fun _ _ => h.1.1, h.2⟩) (fun _ _ h => h)
  cases valid with
  | false => exact cs.pre fun fs h => ⟨h.1, h.2.1⟩
  | true =>
    simp only [if_true]
    have hST : Stable R (Sf π true lvl) := (good_sf hW').stable
    by_cases hsh : c.shelve = true
    · rw [if_pos hsh]
      refine (Sat.bind (getMetadata_sat hST c a) fun _ => ?_).pre fun fs h => h.2.2 (by simp)
      exact (obsOnly_sat (fun fs o hw e => own_obs hw e) hST (obsOnly_resultGet c a)).post
        (fun _ fs h => ⟨inv_weaken h.1, fun _ _ => h.1, fun e => by rw [hsh] at e; cases e⟩)
        (fun _ _ _ => Or.inr hsh)
    · rw [if_neg hsh]
      refine Sat.bind (Q' := fun r fs => Sf π true lvl fs ∧ ∀ v, r = some v → ∃ g, v = ⟨π.ver, a, g⟩) ?_ fun r => ?_
      · refine Sat.tryCatch (E1 := fun _ fs => Sf π true lvl fs) ?_ (fun _ => .ret fun fs h => ⟨h, fun v e => by cases e⟩)
        refine (Sat.bind (loadItem_sat hW' c hc a hU) fun v => ?_).pre fun fs h => h.2.2 (by simp)
        exact .ret fun fs h => ⟨h.1, fun v' e => by cases e; exact h.2⟩
      · cases r with
        | some v => exact .ret fun fs h => ⟨inv_weaken h.1.1, fun _ _ => h.1.1, fun _ => h.2 v rfl⟩
        | none => exact csT.pre fun fs h => h.1

/-- A fresh process: `Memory(location)`, `memory.cache(f)`, one call (`f(a)` or `f.call_and_shelve(a).get()`). -/
theorem callProc_sat (hW : World π s lvl me R) (c : Cfg) (hc : CfgOK π me c) (a : Nat)
    (hU : ∀ v, π.cd.unpickle (π.cd.pickle v) = some v) :
    Sat R (OwnG π me strong) (fun fs => Inv π s fs ∧ TrustK π s fs ∧ (strong → AbsK π s fs)) (callProc c a)
      (fun v fs => Inv π s fs ∧ Lvs π s strong fs ∧ (c.shelve = false → ∃ g, v = ⟨π.ver, a, g⟩)) (EC lvl c) := by
  unfold callProc
  refine Sat.bind ((configure_sat (G := OwnG π me strong) own_up'
    (fun fs i d hl ha => own_write_other hl (by simp [pGit, pCode]) ha) hW (good_init hW) c).post (fun _ _ h => h.1)
    (E' := EC lvl c) (fun _ _ h => Or.inl h.2)) fun _ => ?_
  refine Sat.bind ((ensureFuncDir_sat hW (good_init hW)).post (fun _ _ h => h) (E' := EC lvl c) (fun _ _ h => Or.inl h.2))
    fun _ => ?_
  exact (cachedCall_sat hW c hc a hU).pre fun fs h => ⟨⟨h.1.1, h.2⟩, h.1.2⟩

/-! ### `reduce_size` and `clear` -/

/-- what an evicting participant (`Memory.reduce_size`) guarantees -/
abbrev EvictG (π : Par) (me : Nat) : FS → Op → Prop :=
  fun fs o => Allowed π .evict (fun x => x = me) fs o ∧ CodeSafe π fs o

theorem codeSafe_nw {fs : FS} {o : Op} (hnw : ∀ p i d, o ≠ .write p i d) : CodeSafe π fs o :=
  fun p i d _ e => absurd e (hnw p i d)

theorem evict_up : ∀ fs o, (∀ p i d, o ≠ .write p i d) → Allowed π .calls (fun x => x = me) fs o → EvictG π me fs o :=
  fun _ _ hnw ha => ⟨ha.mono_level (Or.inl rfl), codeSafe_nw hnw⟩

theorem rmGood_inv_entry_evict (hW : World π s lvl me R) (a : Nat) :
    RmGood (R := R) (EvictG π me) (Inv π s) (pEntry a) := by
  refine ⟨(good_inv hW).stable, fun fs t g h ht => ?_, fun fs o hw e => ⟨.noop o hw e, codeSafe_nw hw⟩,
    fun fs t g h ht => ⟨?_, codeSafe_nw (by intro _ _ _ e; cases e)⟩,
    fun fs t g _ ht => ⟨.rmdirE a t g (by decide) ht, codeSafe_nw (by intro _ _ _ e; cases e)⟩⟩
  · have hb := below_trans (entry_below a) ht
    exact ⟨inv_apply h (Allowed.unlinkC (π := π) (who := fun x => x = me) t g rfl hb),
           inv_apply h (Allowed.rmdirC (π := π) (who := fun x => x = me) t g rfl hb)⟩
  · by_cases hte : t = pEntry a
    · subst hte
      -- the entry directory itself is never a file: `unlink` on it changes nothing
      refine .noop _ (by intro _ _ _ e; cases e) ?_
      cases hg : fs.get (pEntry a) with
      | none => simp only [apply, hg]; split <;> rfl
      | some nd =>
        cases nd with
        | dir j => simp only [apply, hg]; split <;> rfl
        | file i c => exact absurd (Or.inr (Or.inr (Or.inr (Or.inr ⟨a, rfl⟩)))) (h.typF _ _ _ hg)
    · exact .unlinkE a t g (by decide) ⟨ht, hte⟩

/-- `Memory.reduce_size`: every call it makes is one an evicting participant may make; the invariant is kept -/
theorem reduceProc_sat (hW : World π s lvl me R) (c : Cfg) (victims : List Nat) :
    Sat R (EvictG π me) (Inv π s) (reduceProc c victims) (fun _ fs => Inv π s fs) (fun _ fs => Inv π s fs) := by
  unfold reduceProc
  have hst := (good_inv hW).stable
  refine Sat.bind ((configure_sat evict_up (fun fs i d hl ha => ⟨ha.mono_level (Or.inl rfl), codeSafe_other hl (by simp [pGit, pCode])⟩)
    hW (good_inv hW) c).post (fun _ _ h => h.1) (fun _ _ h => h.1)) fun _ => ?_
  refine Sat.bind (obsOnly_sat (fun fs o hw e => ⟨.noop o hw e, codeSafe_nw hw⟩) hst (obsOnly_walk c.rank 6 pLoc)) fun found => ?_
  generalize (victims.filter fun x => found.contains x) = vs
  induction vs with
  | nil => exact .ret fun fs h => h
  | cons a rest ih =>
    refine Sat.bind (Q' := fun _ fs => Inv π s fs) ?_ fun _ => ih
    refine Sat.tryCatch (E1 := fun _ fs => Inv π s fs)
      ((rmtree_sat (rmGood_inv_entry_evict hW a) c.rank false).post (fun _ _ h => h) (fun _ _ h => h.2)) fun e => ?_
    by_cases he : e.isOSError = true
    · rw [if_pos he]; exact .ret fun fs h => h
    · rw [if_neg he]; exact .raise fun fs h => h

theorem rmGood_inv_clear (hW : World π s lvl me R) (p0 : Path) (hb : Below pLoc p0) :
    RmGood (R := R) (OwnG π me strong) (Inv π s) p0 :=
  ⟨(good_inv hW).stable,
   fun fs t g h ht => ⟨inv_apply h (own_unlink (π := π) (me := me) (strong := strong) hb ht).1,
                     inv_apply h (own_rmdir (π := π) (me := me) (strong := strong) hb ht).1⟩,
   fun fs o hw e => own_obs hw e,
   fun fs t g _ ht => own_unlink hb ht,
   fun fs t g _ ht => own_rmdir hb ht⟩

/-- `disk.delete_folder` -/
theorem deleteFolder_sat (hW : World π s lvl me R) (c : Cfg) (p0 : Path) (hb : Below pLoc p0) :
    ∀ fuel, Sat R (OwnG π me strong) (Inv π s) (deleteFolder c p0 fuel) (fun _ fs => Inv π s fs) (fun _ fs => Inv π s fs) := by
  have hst := (good_inv hW).stable
  intro fuel
  induction fuel with
  | zero => exact .raise fun fs h => h
  | succ fuel ih =>
    unfold deleteFolder
    refine Sat.obs (fun _ _ => True) (fun fs _ => own_obs (by intro _ _ _ e; cases e) (opendir_noop _ _ fs))
      (opendir_noop _ _) (fun _ _ => trivial) hst (fun _ _ _ _ _ => trivial) fun r => ?_
    cases r with
    | fd i =>
      unfold scandir
      refine Sat.obs (fun _ _ => True) (fun fs _ => own_obs (by intro _ _ _ e; cases e) rfl)
        (readdir_noop _ _) (fun _ _ => trivial) (hst.and fun _ _ _ _ => trivial) (fun _ _ _ _ _ => trivial) fun r => ?_
      have body : Sat R (OwnG π me strong) (fun fs => (Inv π s fs ∧ True) ∧ True)
          ((rmtree c.rank true p0).tryCatch fun e =>
            if e.isOSError then (if fuel = 0 then Prog.raise e else deleteFolder c p0 fuel) else Prog.raise e)
          (fun _ fs => Inv π s fs) (fun _ fs => Inv π s fs) := by
        refine Sat.tryCatch (E1 := fun _ fs => Inv π s fs)
          (((rmtree_sat (rmGood_inv_clear hW p0 hb) c.rank true).post (fun _ _ h => h) (fun _ _ h => h.2)).pre
            fun fs h => h.1.1) fun e => ?_
        by_cases he : e.isOSError = true
        · rw [if_pos he]
          by_cases hf : fuel = 0
          · rw [if_pos hf]; exact .raise fun fs h => h
          · rw [if_neg hf]; exact ih
        · rw [if_neg he]; exact .raise fun fs h => h
      cases r <;> exact body
    | ok => exact .raise fun fs h => h.1
    | yes => exact .raise fun fs h => h.1
    | no => exact .raise fun fs h => h.1
    | enoent => exact .raise fun fs h => h.1
    | eexist => exact .raise fun fs h => h.1
    | enotempty => exact .raise fun fs h => h.1
    | eisdir => exact .raise fun fs h => h.1
    | enotdir => exact .raise fun fs h => h.1
    | data _ => exact .raise fun fs h => h.1
    | names _ => exact .raise fun fs h => h.1

theorem below_loc_snoc (n : Name) : Below pLoc (pLoc ++ [n]) :=
  ⟨List.prefix_append _ _, by simp [pLoc]⟩

/-- `Memory.clear()`: every call it makes is one a clearing participant may make; the invariant is kept -/
theorem clearProc_sat (hW : World π s lvl me R) (c : Cfg) :
    Sat R (OwnG π me strong) (Inv π s) (clearProc c) (fun _ fs => Inv π s fs) (fun _ fs => Inv π s fs) := by
  unfold clearProc
  have hst := (good_inv hW).stable
  refine Sat.bind ((configure_sat (G := OwnG π me strong) own_up'
    (fun fs i d hl ha => own_write_other hl (by simp [pGit, pCode]) ha) hW (good_inv hW) c).post (fun _ _ h => h.1)
    (fun _ _ h => h.1)) fun _ => ?_
  refine Sat.obs (fun _ _ => True) (fun fs _ => own_obs (by intro _ _ _ e; cases e) (opendir_noop _ _ fs))
    (opendir_noop _ _) (fun _ _ => trivial) hst (fun _ _ _ _ _ => trivial) fun r => ?_
  cases r with
  | fd i =>
    unfold scandir
    refine Sat.obs (fun _ _ => True) (fun fs _ => own_obs (by intro _ _ _ e; cases e) rfl)
      (readdir_noop _ _) (fun _ _ => trivial) (hst.and fun _ _ _ _ => trivial) (fun _ _ _ _ _ => trivial) fun r => ?_
    have body : ∀ l : List (Name × Bool), Sat R (OwnG π me strong) (Inv π s)
        (l.foldr (fun n acc =>
          Prog.op (.stat (pLoc ++ [n.1])) fun r =>
            (if r == .yes && n.2 then deleteFolder c (pLoc ++ [n.1]) 11 else Prog.ret ()).bind fun _ => acc) (Prog.ret ()))
        (fun _ fs => Inv π s fs) (fun _ fs => Inv π s fs) := by
      intro l
      induction l with
      | nil => exact .ret fun fs h => h
      | cons n rest ihl =>
        refine Sat.obs (fun _ _ => True) (fun fs _ => own_obs (by intro _ _ _ e; cases e) rfl) (stat_noop _)
          (fun _ _ => trivial) hst (fun _ _ _ _ _ => trivial) fun r => ?_
        refine Sat.bind (Q' := fun _ fs => Inv π s fs) ?_ fun _ => ihl
        by_cases hc : (r == Res.yes && n.2) = true
        · rw [if_pos hc]
          exact (deleteFolder_sat hW c _ (below_loc_snoc n.1) 11).pre fun fs h => h.1
        · rw [if_neg hc]; exact .ret fun fs h => h.1
    cases r with
    | names l => exact (body _).pre fun fs h => h.1.1
    | _ => exact (body []).pre fun fs h => h.1.1
  | ok => exact .raise fun fs h => h.1
  | yes => exact .raise fun fs h => h.1
  | no => exact .raise fun fs h => h.1
  | enoent => exact .raise fun fs h => h.1
  | eexist => exact .raise fun fs h => h.1
  | enotempty => exact .raise fun fs h => h.1
  | eisdir => exact .raise fun fs h => h.1
  | enotdir => exact .raise fun fs h => h.1
  | data _ => exact .raise fun fs h => h.1
  | names _ => exact .raise fun fs h => h.1

end
end JoblibModel.Store
