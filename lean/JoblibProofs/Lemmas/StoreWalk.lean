import JoblibProofs.Lemmas.StoreFacts
/-! Rely/guarantee derivations (`Sat`) for the procedures of `JoblibModel.Store`, bottom-up:
`exists_`, `mkdir1`, `makedirs`/`mkdirp`, `configure`, `ensureFuncDir`, `writeFuncCode`, `rmtree`, `clearFunc`,
`checkPrevious`, `getMetadata`, `clearItem`, `isInCacheAndValid`, `loadItem`, `safeWrite`, `dumpItem`, `storeMetadata`,
`computeAndStore`, `cachedCall`, `callProc`; and `reduceProc`, `clearProc` (guarantee only). -/
namespace JoblibModel.Store

section
variable (π : Par) (s : Bool) (lvl : Level) (me : Nat) (R : FS → FS → Prop) (strong : Prop)

/-- every result file present holds the value of the live source -/
def LiveOut (fs : FS) : Prop := ∀ a i d, fs.get (pOut a) = some (.file i d) → ∃ g, d = π.cd.pickle ⟨π.ver, a, g⟩

/-- `func_code.py` is only completed (made equal to the text of the live source) when every result present is of the
live source; otherwise only a strict prefix is written onto the empty file (a torn write) -/
def CodeSafe (fs : FS) (o : Op) : Prop :=
  ∀ p i d c, o = .write p i d → fs.get pCode = some (.file i c) →
    LiveOut π fs ∨ (c = [] ∧ d <+: π.cd.codeText π.ver ∧ d ≠ π.cd.codeText π.ver)

/-- own calls are judged at level `clear` (a call whose `func_code.py` does not match empties the function directory);
`strong`: additionally the participant never completes `func_code.py` next to results of another source -/
abbrev OwnG : FS → Op → Prop := fun fs o => Allowed π .clear (fun x => x = me) fs o ∧ (strong → CodeSafe π fs o)

/-- knowledge of a directory, where the environment cannot take it away -/
def DK (q : Path) (fs : FS) : Prop := Protected lvl q → IsDirAt q fs

/-- An environment `R` no larger than `Env`; when the directory may hold results of an older source (`s = false`) the
participant is alone (this is the crash-recovery setting of C05). -/
structure World : Prop where
  sub : ∀ fs fs', R fs fs' → Env π lvl me fs fs'
  alone : s = false → ∀ fs fs', ¬ R fs fs'

/-- a standing assertion: stable under the environment, kept by the participant's own calls that remove nothing and
leave `func_code.py` alone, implies the invariant -/
structure Good (P : FS → Prop) : Prop where
  stable : Stable R P
  own : ∀ fs o, P fs → Allowed π .calls (fun x => x = me) fs o → (apply o fs).2.get pCode = fs.get pCode →
    P (apply o fs).2
  inv : ∀ fs, P fs → Inv π s fs

/-- … and also by own calls that rewrite `func_code.py` -/
def OwnFull (P : FS → Prop) : Prop := ∀ fs o, P fs → Allowed π .calls (fun x => x = me) fs o → P (apply o fs).2

/-- exceptions are only excused when the environment may clear the cache -/
def EL : Err → FS → Prop := fun _ _ => lvl = .clear

variable {π s lvl me R strong}

theorem stable_sub {P : FS → Prop} (hW : World π s lvl me R) (h : Stable (Env π lvl me) P) :
    Stable R P := fun fs fs' hp hR => h _ _ hp (hW.sub _ _ hR)

theorem dk_stable (hW : World π s lvl me R) (q : Path) : Stable R (DK lvl q) := by
  intro fs fs' h hR hp
  exact dir_stable_env hp _ _ (h hp) (hW.sub _ _ hR)

theorem good_inv (hW : World π s lvl me R) : Good π s me R (Inv π s) :=
  ⟨stable_sub hW inv_stable_env, fun _ _ h ha _ => inv_apply h ha, fun _ h => h⟩

theorem ownFull_inv : OwnFull π me (Inv π s) := fun _ _ h ha => inv_apply h ha

theorem Good.and_dk {P : FS → Prop} (hW : World π s lvl me R) (hP : Good π s me R P) (q : Path) :
    Good π s me R (fun fs => P fs ∧ DK lvl q fs) :=
  ⟨fun fs fs' h hR => ⟨hP.stable _ _ h.1 hR, dk_stable hW _ _ _ h.2 hR⟩,
   fun fs o h ha hc => ⟨hP.own fs o h.1 ha hc, fun hp => dir_stable (h.2 hp) ha trivial⟩,
   fun fs h => hP.inv fs h.1⟩

theorem OwnFull.and_dk {P : FS → Prop} (hP : OwnFull π me P) (q : Path) :
    OwnFull π me (fun fs => P fs ∧ DK lvl q fs) :=
  fun fs o h ha => ⟨hP fs o h.1 ha, fun hp => dir_stable (h.2 hp) ha trivial⟩

theorem Stable.and {R : FS → FS → Prop} {P Q : FS → Prop} (hp : Stable R P) (hq : Stable R Q) :
    Stable R (fun fs => P fs ∧ Q fs) := fun fs fs' h hR => ⟨hp _ _ h.1 hR, hq _ _ h.2 hR⟩

/-- a call that does not change the state -/
theorem Sat.obs {α : Type} {R : FS → FS → Prop} {G : FS → Op → Prop} {P : FS → Prop} {o : Op} {k : Res → Prog α}
    {Q : α → FS → Prop} {E : Err → FS → Prop} (Post : Res → FS → Prop)
    (hG : ∀ fs, P fs → G fs o) (hobs : ∀ fs, (apply o fs).2 = fs)
    (hpost : ∀ fs, P fs → Post (apply o fs).1 fs) (hP : Stable R P) (hPost : ∀ r, Stable R (Post r))
    (hk : ∀ r, Sat R G (fun fs => P fs ∧ Post r fs) (k r) Q E) : Sat R G P (.op o k) Q E := by
  refine .op (fun r fs => P fs ∧ Post r fs) (fun fs h => ⟨hG fs h, ?_⟩) (fun r => (hP.and (hPost r))) hk
  rw [hobs]; exact ⟨h, hpost fs h⟩

theorem own_noop {lvl' : Level} {fs : FS} {o : Op} (hw : ∀ p i d, o ≠ .write p i d) (h : (apply o fs).2 = fs) :
    Allowed π lvl' (fun x => x = me) fs o := .noop o hw h

theorem stat_noop (p : Path) (fs : FS) : (apply (.stat p) fs).2 = fs := rfl

theorem own_up {fs : FS} {o : Op} (hnw : ∀ p i d, o ≠ .write p i d) (ha : Allowed π .calls (fun x => x = me) fs o) :
    OwnG π me strong fs o :=
  ⟨ha.mono_level (Or.inl rfl), fun _ p i d _ e => absurd e (hnw p i d)⟩

theorem own_up' : ∀ fs o, (∀ p i d, o ≠ .write p i d) → Allowed π .calls (fun x => x = me) fs o → OwnG π me strong fs o :=
  fun _ _ hnw ha => own_up hnw ha

theorem own_obs {fs : FS} {o : Op} (hw : ∀ p i d, o ≠ .write p i d) (h : (apply o fs).2 = fs) : OwnG π me strong fs o :=
  ⟨.noop o hw h, fun _ p i d _ e => absurd e (hw p i d)⟩

theorem own_write_other {fs : FS} {p p' : Path} {i : Nat} {d : Bytes} (hl : LocOnly i p fs) (hne : p ≠ pCode)
    (ha : Allowed π .calls (fun x => x = me) fs (.write p' i d)) : OwnG π me strong fs (.write p' i d) :=
  ⟨ha.mono_level (Or.inl rfl), fun _ p1 i1 d1 c e hg => by
    cases e
    exact absurd (hl.2 pCode (Or.inl ⟨c, hg⟩)).symm hne⟩

/-- a write through an inode located only at `p ≠ func_code.py` cannot touch `func_code.py` -/
theorem codeSafe_other {fs : FS} {p p' : Path} {i : Nat} {d : Bytes} (hl : LocOnly i p fs) (hne : p ≠ pCode) :
    CodeSafe π fs (.write p' i d) := by
  intro p1 i1 d1 c e hg
  cases e
  exact absurd (hl.2 pCode (Or.inl ⟨c, hg⟩)).symm hne

/-- `os.path.exists(p)`: nothing changes, nothing is learnt -/
theorem exists_sat {R : FS → FS → Prop} {G : FS → Op → Prop} {P : FS → Prop} {E : Err → FS → Prop}
    (hG : ∀ fs o, (∀ p i d, o ≠ .write p i d) → Allowed π .calls (fun x => x = me) fs o → G fs o) (hP : Stable R P) (p : Path) :
    Sat R G P (exists_ p) (fun _ fs => P fs) E := by
  unfold exists_
  refine Sat.obs (fun _ _ => True) (fun fs _ => hG _ _ (by intro _ _ _ e; cases e) (.noop _ (by intro _ _ _ e; cases e) rfl)) (stat_noop p)
    (fun _ _ => trivial) hP (fun _ _ _ _ _ => trivial) (fun r => .ret fun fs h => h.1)

theorem dirShaped_get {fs : FS} {p : Path} (hi : Inv π s fs) (hd : DirShaped p) (h : (fs.get p).isSome = true) :
    IsDirAt p fs := by
  cases hg : fs.get p with
  | none => rw [hg] at h; cases h
  | some nd =>
    cases nd with
    | dir j => exact ⟨j, hg⟩
    | file i c => exact absurd hd (hi.typF _ _ _ hg)

/-- `os.path.exists(p)` for a directory-shaped path: a positive answer is knowledge (where protected) -/
theorem exists_dir_sat {G : FS → Op → Prop} {P : FS → Prop} {E : Err → FS → Prop}
    (hG : ∀ fs o, (∀ p i d, o ≠ .write p i d) → Allowed π .calls (fun x => x = me) fs o → G fs o) (hW : World π s lvl me R) (hP : Stable R P)
    (hI : ∀ fs, P fs → Inv π s fs) (p : Path) (hd : DirShaped p) :
    Sat R G P (exists_ p) (fun b fs => P fs ∧ (b = true → DK lvl p fs)) E := by
  unfold exists_
  refine Sat.obs (fun r fs => r = .yes → DK lvl p fs) (fun fs _ => hG _ _ (by intro _ _ _ e; cases e) (.noop _ (by intro _ _ _ e; cases e) rfl)) (stat_noop p)
    ?_ hP ?_ (fun r => .ret fun fs h => ⟨h.1, fun hb => h.2 (by simpa using hb)⟩)
  · intro fs hp hr _
    simp only [apply] at hr
    split at hr
    · rename_i hsome; exact dirShaped_get (hI fs hp) hd hsome
    · cases hr
  · intro r fs fs' h hR hr
    exact dk_stable hW _ _ _ (h hr) hR

/-- the directories above the entry directories -/
def Core (q : Path) : Prop := q = [] ∨ q = pCache ∨ q = pLoc ∨ q = pMod ∨ q = pFunc

theorem core_protected {q : Path} (hq : Core q) (hl : lvl ≠ .clear) : Protected lvl q := by
  cases lvl with
  | calls => trivial
  | clear => exact absurd rfl hl
  | evict =>
    intro a hpre
    have := hpre.length_le
    rcases hq with rfl | rfl | rfl | rfl | rfl <;> simp [pEntry, pCache, pLoc, pMod, pFunc] at this

theorem core_shape {q : Path} (hq : Core q) : q = [] ∨ DirShaped q := by
  rcases hq with h | h | h | h | h
  · exact Or.inl h
  · exact Or.inr (Or.inl h)
  · exact Or.inr (Or.inr (Or.inl h))
  · exact Or.inr (Or.inr (Or.inr (Or.inl h)))
  · exact Or.inr (Or.inr (Or.inr (Or.inr (Or.inl h))))

theorem mk_err {P : FS → Prop} {e : Err} {p : Path} {fs : FS} (hs : P fs) (hne : e ≠ .fileExists) (hc : lvl = .clear) :
    P fs ∧ (e = .fileExists → DK lvl p fs) ∧ (e ≠ .fileExists → lvl = .clear) :=
  ⟨hs, fun h => absurd h hne, fun _ => hc⟩

theorem mkdir_keeps_code (p : Path) (hd : DirShaped p) (fs : FS) :
    (apply (.mkdir p) fs).2.get pCode = fs.get pCode := by
  rcases mkdir_spec p fs with ⟨e, _⟩ | ⟨_, _, _, _, _, hg⟩
  · rw [e]
  · rw [hg]
    exact getUpd_ne (by simp [pCode]) (by
      rintro rfl
      exact dir_not_file hd (Or.inr (Or.inl rfl)))

/-- `os.mkdir(p)` below a core directory -/
theorem mkdir1_sat {G : FS → Op → Prop} {P : FS → Prop} (hG : ∀ fs o, (∀ p i d, o ≠ .write p i d) → Allowed π .calls (fun x => x = me) fs o → G fs o)
    (hW : World π s lvl me R) (hP : Good π s me R P) (p : Path) (hd : DirShaped p) (hpar : Core (parent p)) :
    Sat R G (fun fs => P fs ∧ DK lvl (parent p) fs) (mkdir1 p)
      (fun _ fs => P fs ∧ DK lvl p fs)
      (fun e fs => P fs ∧ (e = .fileExists → DK lvl p fs) ∧ (e ≠ .fileExists → lvl = .clear)) := by
  unfold mkdir1
  refine .op (fun r fs => P fs ∧ ((r = .ok ∨ r = .eexist) → DK lvl p fs) ∧
      (r ≠ .ok → r ≠ .eexist → lvl = .clear)) ?_ ?_ ?_
  · intro fs ⟨hs, hdk⟩
    have ha : Allowed π .calls (fun x => x = me) fs (.mkdir p) := .mkdir p hd
    refine ⟨hG _ _ (by intro _ _ _ e; cases e) ha, hP.own _ _ hs ha (mkdir_keeps_code p hd fs), ?_, ?_⟩
    · intro hr _
      rcases mkdir_spec p fs with ⟨e, hne⟩ | ⟨_, _, _, _, _, hg⟩
      · rw [e]
        rcases hr with hr | hr
        · exact absurd hr hne
        · -- EEXIST: something is there; it is a directory
          simp only [apply] at hr
          split at hr
          · rename_i v hv
            exact dirShaped_get (hP.inv _ hs) hd (by rw [hv]; rfl)
          · split at hr <;> cases hr
      · have hp0 : p ≠ [] := by
          rcases hd with rfl | rfl | rfl | rfl | ⟨a, rfl⟩ <;> simp [pCache, pLoc, pMod, pFunc, pEntry]
        exact ⟨fs.next, by rw [hg]; unfold getUpd; rw [if_neg hp0]; simp⟩
    · intro h1 h2
      -- ENOENT / ENOTDIR: the parent is not a directory, so it was not protected
      cases hgp : fs.get p with
      | some v => simp [apply, hgp] at h2
      | none =>
        cases hgq : fs.get (parent p) with
        | some nd =>
          cases nd with
          | dir j => simp [apply, hgp, hgq] at h1
          | file j c =>
            rcases core_shape hpar with e | e
            · rw [e] at hgq; simp at hgq
            · exact absurd e ((hP.inv _ hs).typF _ _ _ hgq)
        | none =>
          cases hl : lvl with
          | clear => rfl
          | calls =>
            have := hdk (core_protected hpar (by rw [hl]; decide))
            obtain ⟨j, hj⟩ := this; rw [hj] at hgq; cases hgq
          | evict =>
            have := hdk (core_protected hpar (by rw [hl]; decide))
            obtain ⟨j, hj⟩ := this; rw [hj] at hgq; cases hgq
  · rintro r fs fs' ⟨h1, h2, h3⟩ hR
    exact ⟨hP.stable _ _ h1 hR, fun hr => dk_stable hW _ _ _ (h2 hr) hR, h3⟩
  · intro r
    cases r with
    | ok => exact .ret fun fs h => ⟨h.1, h.2.1 (Or.inl rfl)⟩
    | eexist => exact .raise fun fs h => ⟨h.1, fun _ => h.2.1 (Or.inr rfl), fun hne => absurd rfl hne⟩
    | enoent => exact .raise fun fs h => mk_err h.1 (by decide) (h.2.2 (by decide) (by decide))
    | enotdir => exact .raise fun fs h => mk_err h.1 (by decide) (h.2.2 (by decide) (by decide))
    | yes => exact .raise fun fs h => mk_err h.1 (by decide) (h.2.2 (by decide) (by decide))
    | no => exact .raise fun fs h => mk_err h.1 (by decide) (h.2.2 (by decide) (by decide))
    | enotempty => exact .raise fun fs h => mk_err h.1 (by decide) (h.2.2 (by decide) (by decide))
    | eisdir => exact .raise fun fs h => mk_err h.1 (by decide) (h.2.2 (by decide) (by decide))
    | fd i => exact .raise fun fs h => mk_err h.1 (by decide) (h.2.2 (by simp) (by simp))
    | data d => exact .raise fun fs h => mk_err h.1 (by decide) (h.2.2 (by simp) (by simp))
    | names l => exact .raise fun fs h => mk_err h.1 (by decide) (h.2.2 (by simp) (by simp))


theorem core_parent {q : Path} (hq : Core q) : Core (parent q) := by
  rcases hq with rfl | rfl | rfl | rfl | rfl
  · exact Or.inl rfl
  · exact Or.inl rfl
  · exact Or.inr (Or.inl rfl)
  · exact Or.inr (Or.inr (Or.inl rfl))
  · exact Or.inr (Or.inr (Or.inr (Or.inl rfl)))

theorem dk_root (fs : FS) : DK lvl [] fs := fun _ => ⟨0, by simp⟩

theorem parent_length (p : Path) : (parent p).length = p.length - 1 := by simp [parent]

/-- `os.makedirs(p)` -/
theorem makedirs_sat {G : FS → Op → Prop} {P : FS → Prop} (hG : ∀ fs o, (∀ p i d, o ≠ .write p i d) → Allowed π .calls (fun x => x = me) fs o → G fs o)
    (hW : World π s lvl me R) (hP : Good π s me R P) (fuel : Nat) :
    ∀ (p : Path), DirShaped p → Core (parent p) → p.length ≤ fuel + 1 →
    Sat R G P (makedirs fuel p)
      (fun _ fs => P fs ∧ DK lvl p fs)
      (fun e fs => P fs ∧ (e = .fileExists → DK lvl p fs) ∧ (e ≠ .fileExists → lvl = .clear)) := by
  induction fuel with
  | zero =>
    intro p hd hc hlen
    unfold makedirs
    have : parent p = [] := by
      have := parent_length p
      exact List.eq_nil_of_length_eq_zero (by omega)
    exact (mkdir1_sat hG hW hP p hd hc).pre fun fs h => ⟨h, by rw [this]; exact dk_root fs⟩
  | succ fuel ih =>
    intro p hd hc hlen
    unfold makedirs
    by_cases hp : parent p = []
    · rw [if_pos hp]
      exact (mkdir1_sat hG hW hP p hd hc).pre fun fs h => ⟨h, by rw [hp]; exact dk_root fs⟩
    · rw [if_neg hp]
      have hpd : DirShaped (parent p) := (core_shape hc).resolve_left hp
      refine Sat.obs (fun r fs => r = .yes → DK lvl (parent p) fs)
        (fun fs _ => hG _ _ (by intro _ _ _ e; cases e) (.noop _ (by intro _ _ _ e; cases e) rfl)) (stat_noop _) ?_ hP.stable ?_ ?_
      · intro fs hs hr _
        simp only [apply] at hr
        split at hr
        · rename_i hsome; exact dirShaped_get (hP.inv _ hs) hpd hsome
        · cases hr
      · intro r fs fs' h hR hr
        exact dk_stable hW _ _ _ (h hr) hR
      · intro r
        by_cases hr : r = .yes
        · subst hr
          simp only [beq_self_eq_true, if_true]
          exact (mkdir1_sat hG hW hP p hd hc).pre fun fs h => ⟨h.1, h.2 (by simp)⟩
        · have : (r == Res.yes) = false := by simpa using hr
          rw [this]
          simp only [Bool.false_eq_true, if_false]
          have hrec := ih (parent p) hpd (core_parent hc) (by rw [parent_length]; omega)
          refine Sat.bind (Q' := fun _ fs => P fs ∧ DK lvl (parent p) fs) ?_
            (fun _ => mkdir1_sat hG hW hP p hd hc)
          refine Sat.tryCatch (hrec.pre fun fs h => h.1) ?_
          intro e
          by_cases he : e = .fileExists
          · subst he
            simp only [if_true]
            exact .ret fun fs h => ⟨h.1, h.2.1 (by simp)⟩
          · rw [if_neg he]
            exact .raise fun fs h => ⟨h.1, fun e' => absurd e' he, fun _ => h.2.2 he⟩

/-- `joblib.disk.mkdirp(p)` -/
theorem mkdirp_sat {G : FS → Op → Prop} {P : FS → Prop} (hG : ∀ fs o, (∀ p i d, o ≠ .write p i d) → Allowed π .calls (fun x => x = me) fs o → G fs o)
    (hW : World π s lvl me R) (hP : Good π s me R P) (p : Path) (hd : DirShaped p) (hc : Core (parent p)) :
    Sat R G P (mkdirp p)
      (fun _ fs => P fs ∧ DK lvl p fs) (fun _ fs => P fs ∧ lvl = .clear) := by
  unfold mkdirp
  refine Sat.tryCatch (makedirs_sat hG hW hP p.length p hd hc (by omega)) ?_
  intro e
  by_cases he : e = .fileExists
  · subst he
    simp only [if_true]
    exact .ret fun fs h => ⟨h.1, h.2.1 (by simp)⟩
  · rw [if_neg he]
    exact .raise fun fs h => ⟨h.1, h.2.2 he⟩


/-- `with open(p, 'wb') as f: f.write(d)` for `p` = `.gitignore` or `func_code.py` (written in place) -/
def inplace (p : Path) (d : Bytes) : Prog Unit :=
  .op (.creat p) fun r =>
    match r with
    | .fd i => .op (.write p i d) fun _ => .ret ()
    | .eisdir => .raise .isADirectory
    | .enotdir => .raise .notADirectory
    | _ => .raise .fileNotFound

theorem creat_keeps_code (p : Path) (hne : p ≠ pCode) (fs : FS) :
    (apply (.creat p) fs).2.get pCode = fs.get pCode := by
  have h0 : pCode ≠ [] := by simp [pCode]
  rcases creat_spec p fs with ⟨e, _⟩ | ⟨_, _, _, _, _, _, hg⟩ | ⟨_, _, _, _, _, hg⟩
  · rw [e]
  · rw [hg]; exact getUpd_ne h0 (fun e => hne e.symm)
  · rw [hg]; exact getUpd_ne h0 (fun e => hne e.symm)

theorem write_keeps_code {fs : FS} {p p' : Path} {i : Nat} {d : Bytes} (hl : LocOnly i p fs) (hne : p ≠ pCode) :
    (apply (.write p' i d) fs).2.get pCode = fs.get pCode := by
  rw [(write_spec p' i d fs).2.2.2]
  cases hg : fs.get pCode with
  | none => rfl
  | some nd =>
    cases nd with
    | dir j => rfl
    | file j c =>
      by_cases hji : j = i
      · subst hji
        exact absurd (hl.2 pCode (Or.inl ⟨c, hg⟩)).symm hne
      · simp [wr, hji]

theorem inplace_sat {G : FS → Op → Prop} {P : FS → Prop} (hG : ∀ fs o, (∀ p i d, o ≠ .write p i d) → Allowed π .calls (fun x => x = me) fs o → G fs o)
    (hW : World π s lvl me R) (hP : Good π s me R P) (p : Path)
    (hp : p = pGit ∨ p = pCode) (d : Bytes)
    (hd : p = pCode → d <+: π.cd.codeText π.ver) (hfull : p = pCode → OwnFull π me P)
    (hGw : ∀ fs i, P fs → LocOnly i p fs → Allowed π .calls (fun x => x = me) fs (.write p i d) → G fs (.write p i d)) :
    Sat R G (fun fs => P fs ∧ DK lvl (parent p) fs) (inplace p d)
      (fun _ fs => P fs ∧ DK lvl (parent p) fs) (fun _ fs => P fs ∧ lvl = .clear) := by
  have hmine : Mine me p := by rcases hp with rfl | rfl; exact Or.inr (Or.inr rfl); exact Or.inr (Or.inl rfl)
  have hcore : Core (parent p) := by
    rcases hp with rfl | rfl
    · exact Or.inr (Or.inl rfl)
    · exact Or.inr (Or.inr (Or.inr (Or.inr rfl)))
  have hpd : DirShaped (parent p) := by
    rcases hp with rfl | rfl
    · exact Or.inl rfl
    · exact Or.inr (Or.inr (Or.inr (Or.inl rfl)))
  have hfile : FileShaped p := by
    rcases hp with rfl | rfl
    · exact Or.inl rfl
    · exact Or.inr (Or.inl rfl)
  have step : ∀ fs o, P fs → Allowed π .calls (fun x => x = me) fs o →
      (p = pGit → (apply o fs).2.get pCode = fs.get pCode) → P (apply o fs).2 := by
    intro fs o h ha hk
    rcases hp with rfl | rfl
    · exact hP.own _ _ h ha (hk rfl)
    · exact hfull rfl _ _ h ha
  unfold inplace
  refine .op (fun r fs => P fs ∧ DK lvl (parent p) fs ∧ (∀ i, r = .fd i → LocOnly i p fs) ∧
      ((∀ i, r ≠ .fd i) → lvl = .clear)) ?_ ?_ ?_
  · intro fs ⟨h1, h2⟩
    have ha : Allowed π .calls (fun x => x = me) fs (.creat p) :=
      .creat p (by rcases hp with rfl | rfl; exact Or.inr (Or.inl rfl); exact Or.inr (Or.inr rfl))
    refine ⟨hG _ _ (by intro _ _ _ e; cases e) ha, step _ _ h1 ha (fun e => creat_keeps_code p (by rw [e]; simp [pGit, pCode]) fs),
      fun hpr => dir_stable (h2 hpr) ha trivial, ?_, ?_⟩
    · intro i hr
      exact (own_creat (hP.inv _ h1).wf hr).1
    · intro hno
      have hinv := hP.inv _ h1
      cases hgp : fs.get p with
      | some nd =>
        cases nd with
        | dir j => exact absurd hfile (hinv.typD _ _ hgp)
        | file i c => exact absurd (by simp [apply, hgp]) (hno i)
      | none =>
        cases hgq : fs.get (parent p) with
        | some nd =>
          cases nd with
          | dir j => exact absurd (by simp [apply, hgp, hgq]) (hno fs.next)
          | file j c => exact absurd hpd (hinv.typF _ _ _ hgq)
        | none =>
          cases hl : lvl with
          | clear => rfl
          | calls =>
            obtain ⟨j, hj⟩ := h2 (core_protected hcore (by rw [hl]; decide)); rw [hj] at hgq; cases hgq
          | evict =>
            obtain ⟨j, hj⟩ := h2 (core_protected hcore (by rw [hl]; decide)); rw [hj] at hgq; cases hgq
  · rintro r fs fs' ⟨h1, h2, h3, h4⟩ hR
    exact ⟨hP.stable _ _ h1 hR, dk_stable hW _ _ _ h2 hR,
      fun i hr => locOnly_stable hmine _ _ (h3 i hr) (hW.sub _ _ hR), h4⟩
  · intro r
    have fail : ∀ (e : Err), (∀ i, r ≠ .fd i) →
        Sat R G (fun fs => P fs ∧ DK lvl (parent p) fs ∧ (∀ i, r = .fd i → LocOnly i p fs) ∧
          ((∀ i, r ≠ .fd i) → lvl = .clear)) (.raise e : Prog Unit)
          (fun _ fs => P fs ∧ DK lvl (parent p) fs) (fun _ fs => P fs ∧ lvl = .clear) :=
      fun e hno => .raise fun fs h => ⟨h.1, h.2.2.2 hno⟩
    cases r with
    | fd i =>
      refine .op (fun _ fs => P fs ∧ DK lvl (parent p) fs) ?_ ?_ (fun _ => .ret fun fs h => h)
      · intro fs ⟨h1, h2, h3, _⟩
        have ha : Allowed π .calls (fun x => x = me) fs (.write p i d) := own_write_allowed hmine (h3 i rfl) hd
        exact ⟨hGw _ _ h1 (h3 i rfl) ha, step _ _ h1 ha (fun e => write_keeps_code (h3 i rfl) (by rw [e]; simp [pGit, pCode])),
          fun hpr => dir_stable (h2 hpr) ha trivial⟩
      · rintro _ fs fs' ⟨h1, h2⟩ hR
        exact ⟨hP.stable _ _ h1 hR, dk_stable hW _ _ _ h2 hR⟩
    | ok => exact fail _ (by simp)
    | yes => exact fail _ (by simp)
    | no => exact fail _ (by simp)
    | enoent => exact fail _ (by simp)
    | eexist => exact fail _ (by simp)
    | enotempty => exact fail _ (by simp)
    | eisdir => exact fail _ (by simp)
    | enotdir => exact fail _ (by simp)
    | data _ => exact fail _ (by simp)
    | names _ => exact fail _ (by simp)


/-- the configuration of the participant agrees with the parameters of the invariant (repaired code) -/
structure CfgOK (π : Par) (me : Nat) (c : Cfg) : Prop where
  cd : c.codec = π.cd
  ver : c.ver = π.ver
  me : c.me = me
  legacy : c.legacy = false
  /-- … and is the code, not one of the seeded variants -/
  mfirst : c.metadataFirst = false
  keeprej : c.keepRejected = false
  skipcb : c.skipCallbackWithoutMetadata = false

theorem configure_eq (c : Cfg) : configure c =
    (exists_ pLoc).bind fun e => (if e then Prog.ret () else mkdirp pLoc).bind fun _ => inplace pGit c.codec.gitText := rfl

theorem writeFuncCode_eq (c : Cfg) : writeFuncCode c =
    ensureFuncDir.bind fun _ => inplace pCode (c.codec.codeText c.ver) := rfl

theorem loc_protected : Protected lvl pLoc := by
  cases lvl with
  | calls => trivial
  | evict => intro a h; have := h.length_le; simp [pEntry, pLoc] at this
  | clear =>
    refine ⟨fun h => h.2 rfl, fun a h => ?_⟩
    have := h.length_le; simp [pEntry, pLoc] at this

theorem dirAt_parent {fs : FS} {p : Path} (hi : Inv π s fs) (hp : p ≠ []) (h : IsDirAt p fs) : IsDirAt (parent p) fs := by
  obtain ⟨j, hj⟩ := h
  exact hi.up p hp (by rw [hj]; rfl)

theorem el_of {P P' : FS → Prop} {α : Type} {p : Prog α} {Q : α → FS → Prop} {R : FS → FS → Prop} {G : FS → Op → Prop}
    (h : Sat R G P p Q (fun _ fs => P' fs ∧ lvl = .clear)) : Sat R G P p Q (EL lvl) :=
  h.post (fun _ _ h => h) (fun _ _ h => h.2)

/-- `FileSystemStoreBackend.configure` -/
theorem configure_sat {G : FS → Op → Prop} {P : FS → Prop} (hG : ∀ fs o, (∀ p i d, o ≠ .write p i d) → Allowed π .calls (fun x => x = me) fs o → G fs o)
    (hGw : ∀ fs i d, LocOnly i pGit fs → Allowed π .calls (fun x => x = me) fs (.write pGit i d) → G fs (.write pGit i d))
    (hW : World π s lvl me R) (hP : Good π s me R P) (c : Cfg) :
    Sat R G P (configure c) (fun _ fs => P fs ∧ DK lvl pLoc fs) (fun _ fs => P fs ∧ lvl = .clear) := by
  rw [configure_eq]
  have hd : DirShaped pLoc := Or.inr (Or.inl rfl)
  refine Sat.bind (exists_dir_sat hG hW hP.stable hP.inv pLoc hd) fun e => ?_
  refine Sat.bind (Q' := fun _ fs => P fs ∧ DK lvl pLoc fs) ?_ fun _ => ?_
  · cases e with
    | true => exact .ret fun fs h => ⟨h.1, h.2 rfl⟩
    | false =>
      exact ((mkdirp_sat hG hW hP pLoc hd (Or.inr (Or.inl rfl))).pre fun fs h => h.1)
  · have := inplace_sat hG hW (hP.and_dk hW pLoc) pGit (Or.inl rfl) c.codec.gitText (by intro e; cases e)
      (by intro e; simp [pGit, pCode] at e) (fun fs i _ hl ha => hGw fs i _ hl ha)
    refine (this.pre ?_).post (fun _ fs h => h.1) (fun _ _ h => ⟨h.1.1, h.2⟩)
    intro fs h
    refine ⟨h, fun _ => ?_⟩
    exact dirAt_parent (p := pLoc) (hP.inv _ h.1) (by simp [pLoc]) (h.2 loc_protected)

/-- `store_cached_func_code([func_id])` (no code): make sure the function directory exists -/
theorem ensureFuncDir_sat {P : FS → Prop} (hW : World π s lvl me R) (hP : Good π s me R P) :
    Sat R (OwnG π me strong) P ensureFuncDir (fun _ fs => P fs ∧ DK lvl pFunc fs) (fun _ fs => P fs ∧ lvl = .clear) := by
  unfold ensureFuncDir
  have hd : DirShaped pFunc := Or.inr (Or.inr (Or.inr (Or.inl rfl)))
  refine Sat.bind (exists_dir_sat own_up' hW hP.stable hP.inv pFunc hd) fun e => ?_
  cases e with
  | true => exact .ret fun fs h => ⟨h.1, h.2 rfl⟩
  | false => exact ((mkdirp_sat own_up' hW hP pFunc hd (Or.inr (Or.inr (Or.inr (Or.inl rfl))))).pre fun fs h => h.1)

/-- `_write_func_code` → `store_cached_func_code([func_id], code)` -/
theorem writeFuncCode_sat {P : FS → Prop} (hW : World π s lvl me R) (hP : Good π s me R P) (hF : OwnFull π me P)
    (c : Cfg) (hc : CfgOK π me c) (hlive : strong → ∀ fs, P fs → LiveOut π fs) :
    Sat R (OwnG π me strong) P (writeFuncCode c) (fun _ fs => P fs ∧ DK lvl pFunc fs) (fun _ fs => P fs ∧ lvl = .clear) := by
  rw [writeFuncCode_eq]
  refine Sat.bind (ensureFuncDir_sat hW hP) fun _ => ?_
  have := inplace_sat own_up' hW hP pCode (Or.inr rfl) (c.codec.codeText c.ver)
    (by intro _; rw [hc.cd, hc.ver]; exact List.prefix_refl _) (fun _ => hF)
    (fun fs i hp _ ha => ⟨ha.mono_level (Or.inl rfl), fun hs p1 i1 d1 c1 e hg => Or.inl (hlive hs fs hp)⟩)
  exact this


/-! ### Programs that only observe; `reduce_size` and `clear` -/

def IsObs (o : Op) : Prop :=
  (∃ p, o = .stat p) ∨ (∃ p, o = .openr p) ∨ (∃ p i, o = .read p i) ∨ (∃ p g, o = .opendir p g) ∨ (∃ p i, o = .readdir p i)

inductive ObsOnly {α : Type} : Prog α → Prop
  | ret (a : α) : ObsOnly (.ret a)
  | raise (e : Err) : ObsOnly (.raise e)
  | op (o : Op) (k : Res → Prog α) : IsObs o → (∀ r, ObsOnly (k r)) → ObsOnly (.op o k)

theorem ObsOnly.bind {α β : Type} {p : Prog α} {f : α → Prog β} (hp : ObsOnly p) (hf : ∀ a, ObsOnly (f a)) :
    ObsOnly (p.bind f) := by
  induction hp with
  | ret a => exact hf a
  | raise e => exact .raise e
  | op o k ho _ ih => exact .op o _ ho ih

theorem isObs_not_write {o : Op} (h : IsObs o) : ∀ p i d, o ≠ .write p i d := by
  intro p i d e
  rcases h with ⟨_, rfl⟩ | ⟨_, rfl⟩ | ⟨_, _, rfl⟩ | ⟨_, _, rfl⟩ | ⟨_, _, rfl⟩ <;> cases e

theorem obsOnly_sat {α : Type} {G : FS → Op → Prop} {P : FS → Prop} {p : Prog α}
    (hG : ∀ fs o, (∀ p i d, o ≠ .write p i d) → (apply o fs).2 = fs → G fs o) (hP : Stable R P) (h : ObsOnly p) :
    Sat R G P p (fun _ fs => P fs) (fun _ fs => P fs) := by
  induction h with
  | ret a => exact .ret fun fs h => h
  | raise e => exact .raise fun fs h => h
  | op o k ho _ ih =>
    refine .op (fun _ fs => P fs) (fun fs h => ?_) (fun _ => hP) ih
    have := observer_noop o fs ho
    exact ⟨hG fs o (isObs_not_write ho) this, by rw [this]; exact h⟩

theorem obsOnly_foldr_stat {α : Type} (l : List α) (f : α → Path) (tl : Prog Unit) (ht : ObsOnly tl) :
    ObsOnly (l.foldr (fun d acc => Prog.op (.stat (f d)) fun _ => acc) tl) := by
  induction l with
  | nil => exact ht
  | cons x r ih => exact .op _ _ (Or.inl ⟨_, rfl⟩) fun _ => ih

theorem obsOnly_itemStats (a : Nat) (files : List (Name × Bool)) : ObsOnly (itemStats a files) := by
  unfold itemStats
  have sizes : ∀ fl : List (Name × Bool), ObsOnly (fl.foldr (fun nf acc =>
      Prog.op (.stat (pEntry a ++ [nf.1])) fun r => if r == .yes then acc else Prog.ret false) (Prog.ret true)) := by
    intro fl
    induction fl with
    | nil => exact .ret _
    | cons x r ih =>
      refine .op _ _ (Or.inl ⟨_, rfl⟩) fun res => ?_
      by_cases h : (res == Res.yes) = true
      · rw [if_pos h]; exact ih
      · rw [if_neg h]; exact .ret _
  refine .op _ _ (Or.inl ⟨_, rfl⟩) fun r => ?_
  by_cases h : (r == Res.yes) = true
  · simp only [h, if_true]; exact sizes files
  · simp only [h, if_false]
    refine .op _ _ (Or.inl ⟨_, rfl⟩) fun r' => ?_
    by_cases h' : (r' == Res.yes) = true
    · simp only [h', if_true]; exact sizes files
    · simp only [h', if_false]; exact .ret _

theorem obsOnly_walk (rank : Name → Nat) : ∀ (fuel : Nat) (p : Path), ObsOnly (walk rank fuel p) := by
  intro fuel
  induction fuel with
  | zero => intro p; exact .ret _
  | succ fuel ih =>
    intro p
    unfold walk
    refine .op _ _ (Or.inr (Or.inr (Or.inr (Or.inl ⟨_, _, rfl⟩)))) fun r => ?_
    cases r with
    | fd i =>
      unfold scandir
      refine .op _ _ (Or.inr (Or.inr (Or.inr (Or.inr ⟨_, _, rfl⟩)))) fun r => ?_
      have body : ∀ l : List (Name × Bool), ObsOnly (
          (fun l : List (Name × Bool) =>
            let dirs := l.filter (·.2)
            let files := l.filter (fun x => !x.2)
            let here : Prog (List Nat) :=
              match p.getLast? with
              | some (.entry a) => if p = pEntry a then (itemStats a files).bind fun b => Prog.ret (if b then [a] else []) else Prog.ret []
              | _ => Prog.ret []
            here.bind fun found =>
            (dirs.reverse.foldr (fun d acc => Prog.op (.stat (p ++ [d.1])) fun _ => acc) (Prog.ret ())).bind fun _ =>
            (dirs.foldr (fun d acc => (walk rank fuel (p ++ [d.1])).bind fun f1 => acc.bind fun f2 => Prog.ret (f1 ++ f2))
              (Prog.ret [])).bind fun sub => Prog.ret (found ++ sub)) l) := by
        intro l
        simp only []
        refine ObsOnly.bind ?_ fun found => ?_
        · split
          · split
            · exact (obsOnly_itemStats _ _).bind fun _ => .ret _
            · exact .ret _
          · exact .ret _
        · refine ObsOnly.bind (obsOnly_foldr_stat _ _ _ (.ret _)) fun _ => ?_
          refine ObsOnly.bind ?_ fun _ => .ret _
          generalize (l.filter (·.2)) = dl
          induction dl with
          | nil => exact .ret _
          | cons x r ihl => exact (ih _).bind fun _ => ihl.bind fun _ => .ret _
      cases r with
      | names l => exact body _
      | _ => exact body []
    | _ => exact .ret _


/-! ### Removing a directory tree -/

/-- an own call after which `P'` holds whatever it returns -/
theorem Sat.ownop {α : Type} {R : FS → FS → Prop} {G : FS → Op → Prop} {P P' : FS → Prop} {o : Op} {k : Res → Prog α}
    {Q : α → FS → Prop} {E : Err → FS → Prop}
    (hG : ∀ fs, P fs → G fs o) (hpres : ∀ fs, P fs → P' (apply o fs).2) (hst : Stable R P')
    (hk : ∀ r, Sat R G P' (k r) Q E) : Sat R G P (.op o k) Q E :=
  .op (fun _ fs => P' fs) (fun fs h => ⟨hG fs h, hpres fs h⟩) (fun _ => hst) hk

/-- an assertion that survives the participant's own removals at and below `p0` -/
structure RmGood (G : FS → Op → Prop) (P : FS → Prop) (p0 : Path) : Prop where
  stable : Stable R P
  rm : ∀ fs t g, P fs → p0 <+: t → P (apply (.unlink t g) fs).2 ∧ P (apply (.rmdir t g) fs).2
  obs : ∀ fs o, (∀ p i d, o ≠ .write p i d) → (apply o fs).2 = fs → G fs o
  allowU : ∀ fs t g, P fs → p0 <+: t → G fs (.unlink t g)
  allowR : ∀ fs t g, P fs → p0 <+: t → G fs (.rmdir t g)

theorem below_trans {p0 t : Path} (h : Below pLoc p0) (ht : p0 <+: t) : Below pLoc t := by
  refine ⟨h.1.trans ht, ?_⟩
  rintro rfl
  have l1 := h.1.length_le
  have l2 := ht.length_le
  exact h.2 (ht.eq_of_length (by omega))

theorem own_unlink {p0 t : Path} {g : Option Nat} {fs : FS} (h : Below pLoc p0) (ht : p0 <+: t) :
    OwnG π me strong fs (.unlink t g) :=
  ⟨.unlinkC t g rfl (below_trans h ht), fun _ p i d _ e => by cases e⟩

theorem own_rmdir {p0 t : Path} {g : Option Nat} {fs : FS} (h : Below pLoc p0) (ht : p0 <+: t) :
    OwnG π me strong fs (.rmdir t g) :=
  ⟨.rmdirC t g rfl (below_trans h ht), fun _ p i d _ e => by cases e⟩

theorem opendir_noop (p : Path) (g : Option Nat) (fs : FS) : (apply (.opendir p g) fs).2 = fs := by
  simp only [apply]; split
  · rfl
  · split <;> rfl

theorem prefix_snoc {p0 p : Path} (n : Name) (h : p0 <+: p) : p0 <+: p ++ [n] :=
  h.trans (List.prefix_append p [n])

theorem rmLoop_sat {G : FS → Op → Prop} {P : FS → Prop} {p0 : Path} (hP : RmGood (R := R) G P p0) (strict : Bool)
    (recur : Path → Nat → Prog Unit)
    (hrec : ∀ q j, p0 <+: q → Sat R G P (recur q j) (fun _ fs => P fs)
      (fun _ fs => strict = true ∧ P fs))
    (p : Path) (hp : p0 <+: p) (di : Nat) :
    ∀ l, Sat R G P (rmLoop strict recur p di l) (fun _ fs => P fs)
      (fun _ fs => strict = true ∧ P fs) := by
  intro l
  induction l with
  | nil => exact .ret fun fs h => h
  | cons x rest ih =>
    obtain ⟨n, isDir⟩ := x
    have skip : ∀ (e : Err), Sat R G P
        (if strict then (Prog.raise e : Prog Unit) else rmLoop strict recur p di rest) (fun _ fs => P fs)
        (fun _ fs => strict = true ∧ P fs) := by
      intro e
      cases strict with
      | true => exact .raise fun fs h => ⟨by simp, h⟩
      | false => exact ih
    cases isDir with
    | true =>
      unfold rmLoop
      refine Sat.obs (fun _ _ => True) (fun fs _ => hP.obs fs _ (by intro _ _ _ e; cases e) (lstat_noop _ _ fs)) (lstat_noop _ _)
        (fun _ _ => trivial) hP.stable (fun _ _ _ _ _ => trivial) fun r0 => ?_
      by_cases hr : (r0 == Res.no) = true
      · rw [if_pos hr]
        exact (skip _).pre fun fs h => h.1
      · rw [if_neg hr]
        refine Sat.obs (fun _ _ => True) (fun fs _ => hP.obs fs _ (by intro _ _ _ e; cases e) (opendir_noop _ _ fs))
          (opendir_noop _ _) (fun _ _ => trivial) (hP.stable.and (fun _ _ _ _ => trivial))
          (fun _ _ _ _ _ => trivial) fun r => ?_
        have cont : ∀ j, Sat R G (fun fs => (P fs ∧ True) ∧ True)
            ((recur (p ++ [n]) j).bind fun _ =>
              Prog.op (.rmdir (p ++ [n]) (some di)) fun r => if (strict && r != .ok) = true then Prog.raise .osError
                else rmLoop strict recur p di rest) (fun _ fs => P fs) (fun _ fs => strict = true ∧ P fs) := by
          intro j
          refine Sat.bind ((hrec _ j (prefix_snoc n hp)).pre fun fs h => h.1.1) fun _ => ?_
          refine Sat.ownop (fun fs h => hP.allowR fs _ _ h (prefix_snoc n hp))
            (fun fs h => (hP.rm fs _ _ h (prefix_snoc n hp)).2) hP.stable fun r => ?_
          cases strict with
          | true =>
            by_cases hr : r = .ok
            · subst hr; simpa using ih
            · have : (r != Res.ok) = true := by simpa using hr
              simp only [Bool.true_and, this, if_true]
              exact .raise fun fs h => ⟨by simp, h⟩
          | false => simpa using ih
        cases r with
        | fd j =>
          simp only
          by_cases hs : (r0 == Res.fd j) = true
          · rw [if_pos hs]; exact cont j
          · rw [if_neg hs]; exact (skip _).pre fun fs h => h.1.1
        | ok => exact (skip _).pre fun fs h => h.1.1
        | yes => exact (skip _).pre fun fs h => h.1.1
        | no => exact (skip _).pre fun fs h => h.1.1
        | enoent => exact (skip _).pre fun fs h => h.1.1
        | eexist => exact (skip _).pre fun fs h => h.1.1
        | enotempty => exact (skip _).pre fun fs h => h.1.1
        | eisdir => exact (skip _).pre fun fs h => h.1.1
        | enotdir => exact (skip _).pre fun fs h => h.1.1
        | data _ => exact (skip _).pre fun fs h => h.1.1
        | names _ => exact (skip _).pre fun fs h => h.1.1
    | false =>
      unfold rmLoop
      refine Sat.ownop (fun fs h => hP.allowU fs _ _ h (prefix_snoc n hp))
        (fun fs h => (hP.rm fs _ _ h (prefix_snoc n hp)).1) hP.stable fun r => ?_
      cases strict with
      | true =>
        by_cases hr : r = .ok
        · subst hr; simpa using ih
        · have : (r != Res.ok) = true := by simpa using hr
          simp only [Bool.true_and, this, if_true]
          exact .raise fun fs h => ⟨by simp, h⟩
      | false => simpa using ih


theorem readdir_noop (p : Path) (i : Nat) (fs : FS) : (apply (.readdir p i) fs).2 = fs := rfl

theorem rmSafeFd_sat {G : FS → Op → Prop} {P : FS → Prop} {p0 : Path} (hP : RmGood (R := R) G P p0)
    (rank : Name → Nat) (strict : Bool) :
    ∀ (fuel : Nat) (p : Path) (i : Nat), p0 <+: p →
      Sat R G P (rmSafeFd rank strict fuel p i) (fun _ fs => P fs)
        (fun _ fs => strict = true ∧ P fs) := by
  intro fuel
  induction fuel with
  | zero => intro p i _; exact .ret fun fs h => h
  | succ fuel ih =>
    intro p i hp
    unfold rmSafeFd scandir
    refine Sat.obs (fun _ _ => True) (fun fs _ => hP.obs fs _ (by intro _ _ _ e; cases e) rfl) (readdir_noop p i)
      (fun _ _ => trivial) hP.stable (fun _ _ _ _ _ => trivial) fun r => ?_
    have := fun l => (rmLoop_sat hP strict (rmSafeFd rank strict fuel) (fun q j hq => ih q j hq) p hp i l).pre
      (P' := fun fs => P fs ∧ True) fun fs h => h.1
    cases r <;> exact this _

/-- `shutil.rmtree(p0, ignore_errors = !strict)` -/
theorem rmtree_sat {G : FS → Op → Prop} {P : FS → Prop} {p0 : Path} (hP : RmGood (R := R) G P p0)
    (rank : Name → Nat) (strict : Bool) :
    Sat R G P (rmtree rank strict p0) (fun _ fs => P fs) (fun _ fs => strict = true ∧ P fs) := by
  unfold rmtree
  have skip : ∀ (e : Err), Sat R G P
      (if strict then (Prog.raise e : Prog Unit) else Prog.ret ()) (fun _ fs => P fs)
      (fun _ fs => strict = true ∧ P fs) := by
    intro e
    cases strict with
    | true => exact .raise fun fs h => ⟨by simp, h⟩
    | false => exact .ret fun fs h => h
  refine Sat.obs (fun _ _ => True) (fun fs _ => hP.obs fs _ (by intro _ _ _ e; cases e) (lstat_noop _ _ fs)) (lstat_noop _ _)
    (fun _ _ => trivial) hP.stable (fun _ _ _ _ _ => trivial) fun r0 => ?_
  by_cases hr : (r0 == Res.no) = true
  · rw [if_pos hr]
    exact (skip _).pre fun fs h => h.1
  · rw [if_neg hr]
    refine Sat.obs (fun _ _ => True) (fun fs _ => hP.obs fs _ (by intro _ _ _ e; cases e) (opendir_noop _ _ fs))
      (opendir_noop _ _) (fun _ _ => trivial) (hP.stable.and (fun _ _ _ _ => trivial))
      (fun _ _ _ _ _ => trivial) fun r => ?_
    cases r with
    | fd i =>
      simp only
      by_cases hs : (r0 == Res.fd i) = true
      · rw [if_pos hs]
        refine Sat.bind ((rmSafeFd_sat hP rank strict 5 p0 i (List.prefix_refl _)).pre fun fs h => h.1.1) fun _ => ?_
        refine Sat.ownop (fun fs h => hP.allowR fs _ _ h (List.prefix_refl _))
          (fun fs h => (hP.rm fs _ _ h (List.prefix_refl _)).2) hP.stable fun r => ?_
        cases strict with
        | true =>
          by_cases hr : r = .ok
          · subst hr; exact .ret fun fs h => h
          · have : (r != Res.ok) = true := by simpa using hr
            simp only [Bool.true_and, this, if_true]
            exact .raise fun fs h => ⟨by simp, h⟩
        | false => exact .ret fun fs h => h
      · rw [if_neg hs]; exact (skip _).pre fun fs h => h.1.1
    | ok => exact (skip _).pre fun fs h => h.1.1
    | yes => exact (skip _).pre fun fs h => h.1.1
    | no => exact (skip _).pre fun fs h => h.1.1
    | enoent => exact (skip _).pre fun fs h => h.1.1
    | eexist => exact (skip _).pre fun fs h => h.1.1
    | enotempty => exact (skip _).pre fun fs h => h.1.1
    | eisdir => exact (skip _).pre fun fs h => h.1.1
    | enotdir => exact (skip _).pre fun fs h => h.1.1
    | data _ => exact (skip _).pre fun fs h => h.1.1
    | names _ => exact (skip _).pre fun fs h => h.1.1

end
end JoblibModel.Store
