import JoblibProofs.Lemmas.StoreFacts
/-! Rely/guarantee derivations (`Sat`) for the procedures of `JoblibModel.Store`, bottom-up:
`exists_`, `mkdir1`, `makedirs`/`mkdirp`, `configure`, `ensureFuncDir`, `writeFuncCode`, `rmtree`, `clearFunc`,
`checkPrevious`, `getMetadata`, `clearItem`, `isInCacheAndValid`, `loadItem`, `safeWrite`, `dumpItem`, `storeMetadata`,
`computeAndStore`, `cachedCall`, `callProc`; and `reduceProc`, `clearProc` (guarantee only). -/
namespace JoblibModel.Store

section
variable (π : Par) (s : Bool) (lvl : Level) (me : Nat) (R : FS → FS → Prop)

/-- own calls are judged at level `clear` (a call whose `func_code.py` does not match empties the function directory) -/
abbrev OwnG : FS → Op → Prop := fun fs o => Allowed π .clear (fun x => x = me) fs o

/-- knowledge of a directory, where the environment cannot take it away -/
def DK (q : Path) (fs : FS) : Prop := Protected lvl q → IsDirAt q fs

/-- An environment `R` no larger than `Env`; when the directory may hold results of an older source (`s = false`) the
participant is alone (this is the crash-recovery setting of C05). -/
structure World : Prop where
  sub : ∀ fs fs', R fs fs' → Env π lvl me fs fs'
  alone : s = false → ∀ fs fs', ¬ R fs fs'

/-- a standing assertion: stable under the environment, kept by the participant's own calls that remove nothing and
leave `func_code.py` alone, implies the invariant -/
structure Good (P : FS → Prop) : Prop where
  stable : Stable R P
  own : ∀ fs o, P fs → Allowed π .calls (fun x => x = me) fs o → (apply o fs).2.get pCode = fs.get pCode →
    P (apply o fs).2
  inv : ∀ fs, P fs → Inv π s fs

/-- … and also by own calls that rewrite `func_code.py` -/
def OwnFull (P : FS → Prop) : Prop := ∀ fs o, P fs → Allowed π .calls (fun x => x = me) fs o → P (apply o fs).2

/-- exceptions are only excused when the environment may clear the cache -/
def EL : Err → FS → Prop := fun _ _ => lvl = .clear

variable {π s lvl me R}

theorem stable_sub {P : FS → Prop} (hW : World π s lvl me R) (h : Stable (Env π lvl me) P) :
    Stable R P := fun fs fs' hp hR => h _ _ hp (hW.sub _ _ hR)

theorem dk_stable (hW : World π s lvl me R) (q : Path) : Stable R (DK lvl q) := by
  intro fs fs' h hR hp
  exact dir_stable_env hp _ _ (h hp) (hW.sub _ _ hR)

theorem good_inv (hW : World π s lvl me R) : Good π s me R (Inv π s) :=
  ⟨stable_sub hW inv_stable_env, fun _ _ h ha _ => inv_apply h ha, fun _ h => h⟩

theorem ownFull_inv : OwnFull π me (Inv π s) := fun _ _ h ha => inv_apply h ha

theorem Good.and_dk {P : FS → Prop} (hW : World π s lvl me R) (hP : Good π s me R P) (q : Path) :
    Good π s me R (fun fs => P fs ∧ DK lvl q fs) :=
  ⟨fun fs fs' h hR => ⟨hP.stable _ _ h.1 hR, dk_stable hW _ _ _ h.2 hR⟩,
   fun fs o h ha hc => ⟨hP.own fs o h.1 ha hc, fun hp => dir_stable (h.2 hp) ha trivial⟩,
   fun fs h => hP.inv fs h.1⟩

theorem OwnFull.and_dk {P : FS → Prop} (hP : OwnFull π me P) (q : Path) :
    OwnFull π me (fun fs => P fs ∧ DK lvl q fs) :=
  fun fs o h ha => ⟨hP fs o h.1 ha, fun hp => dir_stable (h.2 hp) ha trivial⟩

theorem Stable.and {R : FS → FS → Prop} {P Q : FS → Prop} (hp : Stable R P) (hq : Stable R Q) :
    Stable R (fun fs => P fs ∧ Q fs) := fun fs fs' h hR => ⟨hp _ _ h.1 hR, hq _ _ h.2 hR⟩

/-- a call that does not change the state -/
theorem Sat.obs {α : Type} {R : FS → FS → Prop} {G : FS → Op → Prop} {P : FS → Prop} {o : Op} {k : Res → Prog α}
    {Q : α → FS → Prop} {E : Err → FS → Prop} (Post : Res → FS → Prop)
    (hG : ∀ fs, P fs → G fs o) (hobs : ∀ fs, (apply o fs).2 = fs)
    (hpost : ∀ fs, P fs → Post (apply o fs).1 fs) (hP : Stable R P) (hPost : ∀ r, Stable R (Post r))
    (hk : ∀ r, Sat R G (fun fs => P fs ∧ Post r fs) (k r) Q E) : Sat R G P (.op o k) Q E := by
  refine .op (fun r fs => P fs ∧ Post r fs) (fun fs h => ⟨hG fs h, ?_⟩) (fun r => (hP.and (hPost r))) hk
  rw [hobs]; exact ⟨h, hpost fs h⟩

theorem own_noop {lvl' : Level} {fs : FS} {o : Op} (hw : ∀ p i d, o ≠ .write p i d) (h : (apply o fs).2 = fs) :
    Allowed π lvl' (fun x => x = me) fs o := .noop o hw h

theorem stat_noop (p : Path) (fs : FS) : (apply (.stat p) fs).2 = fs := rfl

theorem own_up {fs : FS} {o : Op} (ha : Allowed π .calls (fun x => x = me) fs o) : OwnG π me fs o :=
  ha.mono_level (Or.inl rfl)

theorem own_up' : ∀ fs o, Allowed π .calls (fun x => x = me) fs o → OwnG π me fs o := fun _ _ ha => own_up ha

/-- `os.path.exists(p)`: nothing changes, nothing is learnt -/
theorem exists_sat {R : FS → FS → Prop} {G : FS → Op → Prop} {P : FS → Prop} {E : Err → FS → Prop}
    (hG : ∀ fs o, Allowed π .calls (fun x => x = me) fs o → G fs o) (hP : Stable R P) (p : Path) :
    Sat R G P (exists_ p) (fun _ fs => P fs) E := by
  unfold exists_
  refine Sat.obs (fun _ _ => True) (fun fs _ => hG _ _ (.noop _ (by intro _ _ _ e; cases e) rfl)) (stat_noop p)
    (fun _ _ => trivial) hP (fun _ _ _ _ _ => trivial) (fun r => .ret fun fs h => h.1)

theorem dirShaped_get {fs : FS} {p : Path} (hi : Inv π s fs) (hd : DirShaped p) (h : (fs.get p).isSome = true) :
    IsDirAt p fs := by
  cases hg : fs.get p with
  | none => rw [hg] at h; cases h
  | some nd =>
    cases nd with
    | dir j => exact ⟨j, hg⟩
    | file i c => exact absurd hd (hi.typF _ _ _ hg)

/-- `os.path.exists(p)` for a directory-shaped path: a positive answer is knowledge (where protected) -/
theorem exists_dir_sat {G : FS → Op → Prop} {P : FS → Prop} {E : Err → FS → Prop}
    (hG : ∀ fs o, Allowed π .calls (fun x => x = me) fs o → G fs o) (hW : World π s lvl me R) (hP : Stable R P)
    (hI : ∀ fs, P fs → Inv π s fs) (p : Path) (hd : DirShaped p) :
    Sat R G P (exists_ p) (fun b fs => P fs ∧ (b = true → DK lvl p fs)) E := by
  unfold exists_
  refine Sat.obs (fun r fs => r = .yes → DK lvl p fs) (fun fs _ => hG _ _ (.noop _ (by intro _ _ _ e; cases e) rfl)) (stat_noop p)
    ?_ hP ?_ (fun r => .ret fun fs h => ⟨h.1, fun hb => h.2 (by simpa using hb)⟩)
  · intro fs hp hr _
    simp only [apply] at hr
    split at hr
    · rename_i hsome; exact dirShaped_get (hI fs hp) hd hsome
    · cases hr
  · intro r fs fs' h hR hr
    exact dk_stable hW _ _ _ (h hr) hR

/-- the directories above the entry directories -/
def Core (q : Path) : Prop := q = [] ∨ q = pCache ∨ q = pLoc ∨ q = pMod ∨ q = pFunc

theorem core_protected {q : Path} (hq : Core q) (hl : lvl ≠ .clear) : Protected lvl q := by
  cases lvl with
  | calls => trivial
  | clear => exact absurd rfl hl
  | evict =>
    intro a hpre
    have := hpre.length_le
    rcases hq with rfl | rfl | rfl | rfl | rfl <;> simp [pEntry, pCache, pLoc, pMod, pFunc] at this

theorem core_shape {q : Path} (hq : Core q) : q = [] ∨ DirShaped q := by
  rcases hq with h | h | h | h | h
  · exact Or.inl h
  · exact Or.inr (Or.inl h)
  · exact Or.inr (Or.inr (Or.inl h))
  · exact Or.inr (Or.inr (Or.inr (Or.inl h)))
  · exact Or.inr (Or.inr (Or.inr (Or.inr (Or.inl h))))

theorem mk_err {P : FS → Prop} {e : Err} {p : Path} {fs : FS} (hs : P fs) (hne : e ≠ .fileExists) (hc : lvl = .clear) :
    P fs ∧ (e = .fileExists → DK lvl p fs) ∧ (e ≠ .fileExists → lvl = .clear) :=
  ⟨hs, fun h => absurd h hne, fun _ => hc⟩

theorem mkdir_keeps_code (p : Path) (hd : DirShaped p) (fs : FS) :
    (apply (.mkdir p) fs).2.get pCode = fs.get pCode := by
  rcases mkdir_spec p fs with ⟨e, _⟩ | ⟨_, _, _, _, _, hg⟩
  · rw [e]
  · rw [hg]
    exact getUpd_ne (by simp [pCode]) (by
      rintro rfl
      exact dir_not_file hd (Or.inr (Or.inl rfl)))

/-- `os.mkdir(p)` below a core directory -/
theorem mkdir1_sat {G : FS → Op → Prop} {P : FS → Prop} (hG : ∀ fs o, Allowed π .calls (fun x => x = me) fs o → G fs o)
    (hW : World π s lvl me R) (hP : Good π s me R P) (p : Path) (hd : DirShaped p) (hpar : Core (parent p)) :
    Sat R G (fun fs => P fs ∧ DK lvl (parent p) fs) (mkdir1 p)
      (fun _ fs => P fs ∧ DK lvl p fs)
      (fun e fs => P fs ∧ (e = .fileExists → DK lvl p fs) ∧ (e ≠ .fileExists → lvl = .clear)) := by
  unfold mkdir1
  refine .op (fun r fs => P fs ∧ ((r = .ok ∨ r = .eexist) → DK lvl p fs) ∧
      (r ≠ .ok → r ≠ .eexist → lvl = .clear)) ?_ ?_ ?_
  · intro fs ⟨hs, hdk⟩
    have ha : Allowed π .calls (fun x => x = me) fs (.mkdir p) := .mkdir p hd
    refine ⟨hG _ _ ha, hP.own _ _ hs ha (mkdir_keeps_code p hd fs), ?_, ?_⟩
    · intro hr _
      rcases mkdir_spec p fs with ⟨e, hne⟩ | ⟨_, _, _, _, _, hg⟩
      · rw [e]
        rcases hr with hr | hr
        · exact absurd hr hne
        · -- EEXIST: something is there; it is a directory
          simp only [apply] at hr
          split at hr
          · rename_i v hv
            exact dirShaped_get (hP.inv _ hs) hd (by rw [hv]; rfl)
          · split at hr <;> cases hr
      · have hp0 : p ≠ [] := by
          rcases hd with rfl | rfl | rfl | rfl | ⟨a, rfl⟩ <;> simp [pCache, pLoc, pMod, pFunc, pEntry]
        exact ⟨fs.next, by rw [hg]; unfold getUpd; rw [if_neg hp0]; simp⟩
    · intro h1 h2
      -- ENOENT / ENOTDIR: the parent is not a directory, so it was not protected
      cases hgp : fs.get p with
      | some v => simp [apply, hgp] at h2
      | none =>
        cases hgq : fs.get (parent p) with
        | some nd =>
          cases nd with
          | dir j => simp [apply, hgp, hgq] at h1
          | file j c =>
            rcases core_shape hpar with e | e
            · rw [e] at hgq; simp at hgq
            · exact absurd e ((hP.inv _ hs).typF _ _ _ hgq)
        | none =>
          cases hl : lvl with
          | clear => rfl
          | calls =>
            have := hdk (core_protected hpar (by rw [hl]; decide))
            obtain ⟨j, hj⟩ := this; rw [hj] at hgq; cases hgq
          | evict =>
            have := hdk (core_protected hpar (by rw [hl]; decide))
            obtain ⟨j, hj⟩ := this; rw [hj] at hgq; cases hgq
  · rintro r fs fs' ⟨h1, h2, h3⟩ hR
    exact ⟨hP.stable _ _ h1 hR, fun hr => dk_stable hW _ _ _ (h2 hr) hR, h3⟩
  · intro r
    cases r with
    | ok => exact .ret fun fs h => ⟨h.1, h.2.1 (Or.inl rfl)⟩
    | eexist => exact .raise fun fs h => ⟨h.1, fun _ => h.2.1 (Or.inr rfl), fun hne => absurd rfl hne⟩
    | enoent => exact .raise fun fs h => mk_err h.1 (by decide) (h.2.2 (by decide) (by decide))
    | enotdir => exact .raise fun fs h => mk_err h.1 (by decide) (h.2.2 (by decide) (by decide))
    | yes => exact .raise fun fs h => mk_err h.1 (by decide) (h.2.2 (by decide) (by decide))
    | no => exact .raise fun fs h => mk_err h.1 (by decide) (h.2.2 (by decide) (by decide))
    | enotempty => exact .raise fun fs h => mk_err h.1 (by decide) (h.2.2 (by decide) (by decide))
    | eisdir => exact .raise fun fs h => mk_err h.1 (by decide) (h.2.2 (by decide) (by decide))
    | fd i => exact .raise fun fs h => mk_err h.1 (by decide) (h.2.2 (by simp) (by simp))
    | data d => exact .raise fun fs h => mk_err h.1 (by decide) (h.2.2 (by simp) (by simp))
    | names l => exact .raise fun fs h => mk_err h.1 (by decide) (h.2.2 (by simp) (by simp))


theorem core_parent {q : Path} (hq : Core q) : Core (parent q) := by
  rcases hq with rfl | rfl | rfl | rfl | rfl
  · exact Or.inl rfl
  · exact Or.inl rfl
  · exact Or.inr (Or.inl rfl)
  · exact Or.inr (Or.inr (Or.inl rfl))
  · exact Or.inr (Or.inr (Or.inr (Or.inl rfl)))

theorem dk_root (fs : FS) : DK lvl [] fs := fun _ => ⟨0, by simp⟩

theorem parent_length (p : Path) : (parent p).length = p.length - 1 := by simp [parent]

/-- `os.makedirs(p)` -/
theorem makedirs_sat {G : FS → Op → Prop} {P : FS → Prop} (hG : ∀ fs o, Allowed π .calls (fun x => x = me) fs o → G fs o)
    (hW : World π s lvl me R) (hP : Good π s me R P) (fuel : Nat) :
    ∀ (p : Path), DirShaped p → Core (parent p) → p.length ≤ fuel + 1 →
    Sat R G P (makedirs fuel p)
      (fun _ fs => P fs ∧ DK lvl p fs)
      (fun e fs => P fs ∧ (e = .fileExists → DK lvl p fs) ∧ (e ≠ .fileExists → lvl = .clear)) := by
  induction fuel with
  | zero =>
    intro p hd hc hlen
    unfold makedirs
    have : parent p = [] := by
      have := parent_length p
      exact List.eq_nil_of_length_eq_zero (by omega)
    exact (mkdir1_sat hG hW hP p hd hc).pre fun fs h => ⟨h, by rw [this]; exact dk_root fs⟩
  | succ fuel ih =>
    intro p hd hc hlen
    unfold makedirs
    by_cases hp : parent p = []
    · rw [if_pos hp]
      exact (mkdir1_sat hG hW hP p hd hc).pre fun fs h => ⟨h, by rw [hp]; exact dk_root fs⟩
    · rw [if_neg hp]
      have hpd : DirShaped (parent p) := (core_shape hc).resolve_left hp
      refine Sat.obs (fun r fs => r = .yes → DK lvl (parent p) fs)
        (fun fs _ => hG _ _ (.noop _ (by intro _ _ _ e; cases e) rfl)) (stat_noop _) ?_ hP.stable ?_ ?_
      · intro fs hs hr _
        simp only [apply] at hr
        split at hr
        · rename_i hsome; exact dirShaped_get (hP.inv _ hs) hpd hsome
        · cases hr
      · intro r fs fs' h hR hr
        exact dk_stable hW _ _ _ (h hr) hR
      · intro r
        by_cases hr : r = .yes
        · subst hr
          simp only [beq_self_eq_true, if_true]
          exact (mkdir1_sat hG hW hP p hd hc).pre fun fs h => ⟨h.1, h.2 (by simp)⟩
        · have : (r == Res.yes) = false := by simpa using hr
          rw [this]
          simp only [Bool.false_eq_true, if_false]
          have hrec := ih (parent p) hpd (core_parent hc) (by rw [parent_length]; omega)
          refine Sat.bind (Q' := fun _ fs => P fs ∧ DK lvl (parent p) fs) ?_
            (fun _ => mkdir1_sat hG hW hP p hd hc)
          refine Sat.tryCatch (hrec.pre fun fs h => h.1) ?_
          intro e
          by_cases he : e = .fileExists
          · subst he
            simp only [if_true]
            exact .ret fun fs h => ⟨h.1, h.2.1 (by simp)⟩
          · rw [if_neg he]
            exact .raise fun fs h => ⟨h.1, fun e' => absurd e' he, fun _ => h.2.2 he⟩

/-- `joblib.disk.mkdirp(p)` -/
theorem mkdirp_sat {G : FS → Op → Prop} {P : FS → Prop} (hG : ∀ fs o, Allowed π .calls (fun x => x = me) fs o → G fs o)
    (hW : World π s lvl me R) (hP : Good π s me R P) (p : Path) (hd : DirShaped p) (hc : Core (parent p)) :
    Sat R G P (mkdirp p)
      (fun _ fs => P fs ∧ DK lvl p fs) (fun _ fs => P fs ∧ lvl = .clear) := by
  unfold mkdirp
  refine Sat.tryCatch (makedirs_sat hG hW hP p.length p hd hc (by omega)) ?_
  intro e
  by_cases he : e = .fileExists
  · subst he
    simp only [if_true]
    exact .ret fun fs h => ⟨h.1, h.2.1 (by simp)⟩
  · rw [if_neg he]
    exact .raise fun fs h => ⟨h.1, h.2.2 he⟩


/-- `with open(p, 'wb') as f: f.write(d)` for `p` = `.gitignore` or `func_code.py` (written in place) -/
def inplace (p : Path) (d : Bytes) : Prog Unit :=
  .op (.creat p) fun r =>
    match r with
    | .fd i => .op (.write p i d) fun _ => .ret ()
    | .eisdir => .raise .isADirectory
    | .enotdir => .raise .notADirectory
    | _ => .raise .fileNotFound

theorem creat_keeps_code (p : Path) (hne : p ≠ pCode) (fs : FS) :
    (apply (.creat p) fs).2.get pCode = fs.get pCode := by
  have h0 : pCode ≠ [] := by simp [pCode]
  rcases creat_spec p fs with ⟨e, _⟩ | ⟨_, _, _, _, _, _, hg⟩ | ⟨_, _, _, _, _, hg⟩
  · rw [e]
  · rw [hg]; exact getUpd_ne h0 (fun e => hne e.symm)
  · rw [hg]; exact getUpd_ne h0 (fun e => hne e.symm)

theorem write_keeps_code {fs : FS} {p p' : Path} {i : Nat} {d : Bytes} (hl : LocOnly i p fs) (hne : p ≠ pCode) :
    (apply (.write p' i d) fs).2.get pCode = fs.get pCode := by
  rw [(write_spec p' i d fs).2.2.2]
  cases hg : fs.get pCode with
  | none => rfl
  | some nd =>
    cases nd with
    | dir j => rfl
    | file j c =>
      by_cases hji : j = i
      · subst hji
        exact absurd (hl.2 pCode (Or.inl ⟨c, hg⟩)).symm hne
      · simp [wr, hji]

theorem inplace_sat {G : FS → Op → Prop} {P : FS → Prop} (hG : ∀ fs o, Allowed π .calls (fun x => x = me) fs o → G fs o)
    (hW : World π s lvl me R) (hP : Good π s me R P) (p : Path)
    (hp : p = pGit ∨ p = pCode) (d : Bytes)
    (hd : p = pCode → d <+: π.cd.codeText π.ver) (hfull : p = pCode → OwnFull π me P) :
    Sat R G (fun fs => P fs ∧ DK lvl (parent p) fs) (inplace p d)
      (fun _ fs => P fs ∧ DK lvl (parent p) fs) (fun _ fs => P fs ∧ lvl = .clear) := by
  have hmine : Mine me p := by rcases hp with rfl | rfl; exact Or.inr (Or.inr rfl); exact Or.inr (Or.inl rfl)
  have hcore : Core (parent p) := by
    rcases hp with rfl | rfl
    · exact Or.inr (Or.inl rfl)
    · exact Or.inr (Or.inr (Or.inr (Or.inr rfl)))
  have hpd : DirShaped (parent p) := by
    rcases hp with rfl | rfl
    · exact Or.inl rfl
    · exact Or.inr (Or.inr (Or.inr (Or.inl rfl)))
  have hfile : FileShaped p := by
    rcases hp with rfl | rfl
    · exact Or.inl rfl
    · exact Or.inr (Or.inl rfl)
  have step : ∀ fs o, P fs → Allowed π .calls (fun x => x = me) fs o →
      (p = pGit → (apply o fs).2.get pCode = fs.get pCode) → P (apply o fs).2 := by
    intro fs o h ha hk
    rcases hp with rfl | rfl
    · exact hP.own _ _ h ha (hk rfl)
    · exact hfull rfl _ _ h ha
  unfold inplace
  refine .op (fun r fs => P fs ∧ DK lvl (parent p) fs ∧ (∀ i, r = .fd i → LocOnly i p fs) ∧
      ((∀ i, r ≠ .fd i) → lvl = .clear)) ?_ ?_ ?_
  · intro fs ⟨h1, h2⟩
    have ha : Allowed π .calls (fun x => x = me) fs (.creat p) :=
      .creat p (by rcases hp with rfl | rfl; exact Or.inr (Or.inl rfl); exact Or.inr (Or.inr rfl))
    refine ⟨hG _ _ ha, step _ _ h1 ha (fun e => creat_keeps_code p (by rw [e]; simp [pGit, pCode]) fs),
      fun hpr => dir_stable (h2 hpr) ha trivial, ?_, ?_⟩
    · intro i hr
      exact (own_creat (hP.inv _ h1).wf hr).1
    · intro hno
      have hinv := hP.inv _ h1
      cases hgp : fs.get p with
      | some nd =>
        cases nd with
        | dir j => exact absurd hfile (hinv.typD _ _ hgp)
        | file i c => exact absurd (by simp [apply, hgp]) (hno i)
      | none =>
        cases hgq : fs.get (parent p) with
        | some nd =>
          cases nd with
          | dir j => exact absurd (by simp [apply, hgp, hgq]) (hno fs.next)
          | file j c => exact absurd hpd (hinv.typF _ _ _ hgq)
        | none =>
          cases hl : lvl with
          | clear => rfl
          | calls =>
            obtain ⟨j, hj⟩ := h2 (core_protected hcore (by rw [hl]; decide)); rw [hj] at hgq; cases hgq
          | evict =>
            obtain ⟨j, hj⟩ := h2 (core_protected hcore (by rw [hl]; decide)); rw [hj] at hgq; cases hgq
  · rintro r fs fs' ⟨h1, h2, h3, h4⟩ hR
    exact ⟨hP.stable _ _ h1 hR, dk_stable hW _ _ _ h2 hR,
      fun i hr => locOnly_stable hmine _ _ (h3 i hr) (hW.sub _ _ hR), h4⟩
  · intro r
    have fail : ∀ (e : Err), (∀ i, r ≠ .fd i) →
        Sat R G (fun fs => P fs ∧ DK lvl (parent p) fs ∧ (∀ i, r = .fd i → LocOnly i p fs) ∧
          ((∀ i, r ≠ .fd i) → lvl = .clear)) (.raise e : Prog Unit)
          (fun _ fs => P fs ∧ DK lvl (parent p) fs) (fun _ fs => P fs ∧ lvl = .clear) :=
      fun e hno => .raise fun fs h => ⟨h.1, h.2.2.2 hno⟩
    cases r with
    | fd i =>
      refine .op (fun _ fs => P fs ∧ DK lvl (parent p) fs) ?_ ?_ (fun _ => .ret fun fs h => h)
      · intro fs ⟨h1, h2, h3, _⟩
        have ha : Allowed π .calls (fun x => x = me) fs (.write p i d) := own_write_allowed hmine (h3 i rfl) hd
        exact ⟨hG _ _ ha, step _ _ h1 ha (fun e => write_keeps_code (h3 i rfl) (by rw [e]; simp [pGit, pCode])),
          fun hpr => dir_stable (h2 hpr) ha trivial⟩
      · rintro _ fs fs' ⟨h1, h2⟩ hR
        exact ⟨hP.stable _ _ h1 hR, dk_stable hW _ _ _ h2 hR⟩
    | ok => exact fail _ (by simp)
    | yes => exact fail _ (by simp)
    | no => exact fail _ (by simp)
    | enoent => exact fail _ (by simp)
    | eexist => exact fail _ (by simp)
    | enotempty => exact fail _ (by simp)
    | eisdir => exact fail _ (by simp)
    | enotdir => exact fail _ (by simp)
    | data _ => exact fail _ (by simp)
    | names _ => exact fail _ (by simp)


/-- the configuration of the participant agrees with the parameters of the invariant (repaired code) -/
structure CfgOK (π : Par) (me : Nat) (c : Cfg) : Prop where
  cd : c.codec = π.cd
  ver : c.ver = π.ver
  me : c.me = me
  legacy : c.legacy = false

theorem configure_eq (c : Cfg) : configure c =
    (exists_ pLoc).bind fun e => (if e then Prog.ret () else mkdirp pLoc).bind fun _ => inplace pGit c.codec.gitText := rfl

theorem writeFuncCode_eq (c : Cfg) : writeFuncCode c =
    ensureFuncDir.bind fun _ => inplace pCode (c.codec.codeText c.ver) := rfl

theorem loc_protected : Protected lvl pLoc := by
  cases lvl with
  | calls => trivial
  | evict => intro a h; have := h.length_le; simp [pEntry, pLoc] at this
  | clear =>
    refine ⟨fun h => h.2 rfl, fun a h => ?_⟩
    have := h.length_le; simp [pEntry, pLoc] at this

theorem dirAt_parent {fs : FS} {p : Path} (hi : Inv π s fs) (hp : p ≠ []) (h : IsDirAt p fs) : IsDirAt (parent p) fs := by
  obtain ⟨j, hj⟩ := h
  exact hi.up p hp (by rw [hj]; rfl)

theorem el_of {P P' : FS → Prop} {α : Type} {p : Prog α} {Q : α → FS → Prop} {R : FS → FS → Prop} {G : FS → Op → Prop}
    (h : Sat R G P p Q (fun _ fs => P' fs ∧ lvl = .clear)) : Sat R G P p Q (EL lvl) :=
  h.post (fun _ _ h => h) (fun _ _ h => h.2)

/-- `FileSystemStoreBackend.configure` -/
theorem configure_sat {G : FS → Op → Prop} {P : FS → Prop} (hG : ∀ fs o, Allowed π .calls (fun x => x = me) fs o → G fs o)
    (hW : World π s lvl me R) (hP : Good π s me R P) (c : Cfg) :
    Sat R G P (configure c) (fun _ fs => P fs ∧ DK lvl pLoc fs) (fun _ fs => P fs ∧ lvl = .clear) := by
  rw [configure_eq]
  have hd : DirShaped pLoc := Or.inr (Or.inl rfl)
  refine Sat.bind (exists_dir_sat hG hW hP.stable hP.inv pLoc hd) fun e => ?_
  refine Sat.bind (Q' := fun _ fs => P fs ∧ DK lvl pLoc fs) ?_ fun _ => ?_
  · cases e with
    | true => exact .ret fun fs h => ⟨h.1, h.2 rfl⟩
    | false =>
      exact ((mkdirp_sat hG hW hP pLoc hd (Or.inr (Or.inl rfl))).pre fun fs h => h.1)
  · have := inplace_sat hG hW (hP.and_dk hW pLoc) pGit (Or.inl rfl) c.codec.gitText (by intro e; cases e)
      (by intro e; simp [pGit, pCode] at e)
    refine (this.pre ?_).post (fun _ fs h => h.1) (fun _ _ h => ⟨h.1.1, h.2⟩)
    intro fs h
    refine ⟨h, fun _ => ?_⟩
    exact dirAt_parent (p := pLoc) (hP.inv _ h.1) (by simp [pLoc]) (h.2 loc_protected)

/-- `store_cached_func_code([func_id])` (no code): make sure the function directory exists -/
theorem ensureFuncDir_sat {P : FS → Prop} (hW : World π s lvl me R) (hP : Good π s me R P) :
    Sat R (OwnG π me) P ensureFuncDir (fun _ fs => P fs ∧ DK lvl pFunc fs) (fun _ fs => P fs ∧ lvl = .clear) := by
  unfold ensureFuncDir
  have hd : DirShaped pFunc := Or.inr (Or.inr (Or.inr (Or.inl rfl)))
  refine Sat.bind (exists_dir_sat own_up' hW hP.stable hP.inv pFunc hd) fun e => ?_
  cases e with
  | true => exact .ret fun fs h => ⟨h.1, h.2 rfl⟩
  | false => exact ((mkdirp_sat own_up' hW hP pFunc hd (Or.inr (Or.inr (Or.inr (Or.inl rfl))))).pre fun fs h => h.1)

/-- `_write_func_code` → `store_cached_func_code([func_id], code)` -/
theorem writeFuncCode_sat {P : FS → Prop} (hW : World π s lvl me R) (hP : Good π s me R P) (hF : OwnFull π me P)
    (c : Cfg) (hc : CfgOK π me c) :
    Sat R (OwnG π me) P (writeFuncCode c) (fun _ fs => P fs ∧ DK lvl pFunc fs) (fun _ fs => P fs ∧ lvl = .clear) := by
  rw [writeFuncCode_eq]
  refine Sat.bind (ensureFuncDir_sat hW hP) fun _ => ?_
  have := inplace_sat own_up' hW hP pCode (Or.inr rfl) (c.codec.codeText c.ver)
    (by intro _; rw [hc.cd, hc.ver]; exact List.prefix_refl _) (fun _ => hF)
  exact this


/-! ### Removing a directory tree -/

/-- an own call after which `P'` holds whatever it returns -/
theorem Sat.ownop {α : Type} {R : FS → FS → Prop} {G : FS → Op → Prop} {P P' : FS → Prop} {o : Op} {k : Res → Prog α}
    {Q : α → FS → Prop} {E : Err → FS → Prop}
    (hG : ∀ fs, P fs → G fs o) (hpres : ∀ fs, P fs → P' (apply o fs).2) (hst : Stable R P')
    (hk : ∀ r, Sat R G P' (k r) Q E) : Sat R G P (.op o k) Q E :=
  .op (fun _ fs => P' fs) (fun fs h => ⟨hG fs h, hpres fs h⟩) (fun _ => hst) hk

/-- an assertion that survives the participant's own removals at and below `p0` -/
structure RmGood (G : FS → Op → Prop) (P : FS → Prop) (p0 : Path) : Prop where
  stable : Stable R P
  rm : ∀ fs t, P fs → p0 <+: t → P (apply (.unlink t) fs).2 ∧ P (apply (.rmdir t) fs).2
  obs : ∀ fs o, (∀ p i d, o ≠ .write p i d) → (apply o fs).2 = fs → G fs o
  allowU : ∀ fs t, P fs → p0 <+: t → G fs (.unlink t)
  allowR : ∀ fs t, P fs → p0 <+: t → G fs (.rmdir t)

theorem below_trans {p0 t : Path} (h : Below pLoc p0) (ht : p0 <+: t) : Below pLoc t := by
  refine ⟨h.1.trans ht, ?_⟩
  rintro rfl
  have l1 := h.1.length_le
  have l2 := ht.length_le
  exact h.2 (ht.eq_of_length (by omega))

theorem own_unlink {p0 t : Path} {fs : FS} (h : Below pLoc p0) (ht : p0 <+: t) : OwnG π me fs (.unlink t) :=
  .unlinkC t rfl (below_trans h ht)

theorem own_rmdir {p0 t : Path} {fs : FS} (h : Below pLoc p0) (ht : p0 <+: t) : OwnG π me fs (.rmdir t) :=
  .rmdirC t rfl (below_trans h ht)

theorem opendir_noop (p : Path) (fs : FS) : (apply (.opendir p) fs).2 = fs := by
  simp only [apply]; split <;> rfl

theorem prefix_snoc {p0 p : Path} (n : Name) (h : p0 <+: p) : p0 <+: p ++ [n] :=
  h.trans (List.prefix_append p [n])

theorem rmLoop_sat {G : FS → Op → Prop} {P : FS → Prop} {p0 : Path} (hP : RmGood (R := R) G P p0) (strict : Bool)
    (recur : Path → Nat → Prog Unit)
    (hrec : ∀ q j, p0 <+: q → Sat R G P (recur q j) (fun _ fs => P fs)
      (fun _ fs => strict = true ∧ P fs))
    (p : Path) (hp : p0 <+: p) :
    ∀ l, Sat R G P (rmLoop strict recur p l) (fun _ fs => P fs)
      (fun _ fs => strict = true ∧ P fs) := by
  intro l
  induction l with
  | nil => exact .ret fun fs h => h
  | cons x rest ih =>
    obtain ⟨n, isDir⟩ := x
    have skip : ∀ (e : Err), Sat R G P
        (if strict then (Prog.raise e : Prog Unit) else rmLoop strict recur p rest) (fun _ fs => P fs)
        (fun _ fs => strict = true ∧ P fs) := by
      intro e
      cases strict with
      | true => exact .raise fun fs h => ⟨by simp, h⟩
      | false => exact ih
    cases isDir with
    | true =>
      unfold rmLoop
      refine Sat.obs (fun _ _ => True) (fun fs _ => hP.obs fs _ (by intro _ _ _ e; cases e) rfl) (stat_noop _)
        (fun _ _ => trivial) hP.stable (fun _ _ _ _ _ => trivial) fun r => ?_
      by_cases hr : r = .yes
      · subst hr
        simp only [bne_self_eq_false, Bool.false_eq_true, if_false]
        refine Sat.obs (fun _ _ => True) (fun fs _ => hP.obs fs _ (by intro _ _ _ e; cases e) (opendir_noop _ fs))
          (opendir_noop _) (fun _ _ => trivial) (hP.stable.and (fun _ _ _ _ => trivial))
          (fun _ _ _ _ _ => trivial) fun r => ?_
        have cont : ∀ j, Sat R G (fun fs => (P fs ∧ True) ∧ True)
            ((recur (p ++ [n]) j).bind fun _ =>
              Prog.op (.rmdir (p ++ [n])) fun r => if (strict && r != .ok) = true then Prog.raise .osError
                else rmLoop strict recur p rest) (fun _ fs => P fs) (fun _ fs => strict = true ∧ P fs) := by
          intro j
          refine Sat.bind ((hrec _ j (prefix_snoc n hp)).pre fun fs h => h.1.1) fun _ => ?_
          refine Sat.ownop (fun fs h => hP.allowR fs _ h (prefix_snoc n hp))
            (fun fs h => (hP.rm fs _ h (prefix_snoc n hp)).2) hP.stable fun r => ?_
          cases strict with
          | true =>
            by_cases hr : r = .ok
            · subst hr; simpa using ih
            · have : (r != Res.ok) = true := by simpa using hr
              simp only [Bool.true_and, this, if_true]
              exact .raise fun fs h => ⟨by simp, h⟩
          | false => simpa using ih
        cases r with
        | fd j => exact cont j
        | ok => exact (skip _).pre fun fs h => h.1.1
        | yes => exact (skip _).pre fun fs h => h.1.1
        | no => exact (skip _).pre fun fs h => h.1.1
        | enoent => exact (skip _).pre fun fs h => h.1.1
        | eexist => exact (skip _).pre fun fs h => h.1.1
        | enotempty => exact (skip _).pre fun fs h => h.1.1
        | eisdir => exact (skip _).pre fun fs h => h.1.1
        | enotdir => exact (skip _).pre fun fs h => h.1.1
        | data _ => exact (skip _).pre fun fs h => h.1.1
        | names _ => exact (skip _).pre fun fs h => h.1.1
      · have : (r != Res.yes) = true := by simpa using hr
        simp only [this, if_true]
        exact (skip _).pre fun fs h => h.1
    | false =>
      unfold rmLoop
      refine Sat.ownop (fun fs h => hP.allowU fs _ h (prefix_snoc n hp))
        (fun fs h => (hP.rm fs _ h (prefix_snoc n hp)).1) hP.stable fun r => ?_
      cases strict with
      | true =>
        by_cases hr : r = .ok
        · subst hr; simpa using ih
        · have : (r != Res.ok) = true := by simpa using hr
          simp only [Bool.true_and, this, if_true]
          exact .raise fun fs h => ⟨by simp, h⟩
      | false => simpa using ih


theorem readdir_noop (p : Path) (i : Nat) (fs : FS) : (apply (.readdir p i) fs).2 = fs := rfl

theorem rmSafeFd_sat {G : FS → Op → Prop} {P : FS → Prop} {p0 : Path} (hP : RmGood (R := R) G P p0)
    (rank : Name → Nat) (strict : Bool) :
    ∀ (fuel : Nat) (p : Path) (i : Nat), p0 <+: p →
      Sat R G P (rmSafeFd rank strict fuel p i) (fun _ fs => P fs)
        (fun _ fs => strict = true ∧ P fs) := by
  intro fuel
  induction fuel with
  | zero => intro p i _; exact .ret fun fs h => h
  | succ fuel ih =>
    intro p i hp
    unfold rmSafeFd scandir
    refine Sat.obs (fun _ _ => True) (fun fs _ => hP.obs fs _ (by intro _ _ _ e; cases e) rfl) (readdir_noop p i)
      (fun _ _ => trivial) hP.stable (fun _ _ _ _ _ => trivial) fun r => ?_
    have := fun l => (rmLoop_sat hP strict (rmSafeFd rank strict fuel) (fun q j hq => ih q j hq) p hp l).pre
      (P' := fun fs => P fs ∧ True) fun fs h => h.1
    cases r <;> exact this _

/-- `shutil.rmtree(p0, ignore_errors = !strict)` -/
theorem rmtree_sat {G : FS → Op → Prop} {P : FS → Prop} {p0 : Path} (hP : RmGood (R := R) G P p0)
    (rank : Name → Nat) (strict : Bool) :
    Sat R G P (rmtree rank strict p0) (fun _ fs => P fs) (fun _ fs => strict = true ∧ P fs) := by
  unfold rmtree
  have skip : ∀ (e : Err), Sat R G P
      (if strict then (Prog.raise e : Prog Unit) else Prog.ret ()) (fun _ fs => P fs)
      (fun _ fs => strict = true ∧ P fs) := by
    intro e
    cases strict with
    | true => exact .raise fun fs h => ⟨by simp, h⟩
    | false => exact .ret fun fs h => h
  refine Sat.obs (fun _ _ => True) (fun fs _ => hP.obs fs _ (by intro _ _ _ e; cases e) rfl) (stat_noop _)
    (fun _ _ => trivial) hP.stable (fun _ _ _ _ _ => trivial) fun r => ?_
  by_cases hr : r = .yes
  · subst hr
    simp only [bne_self_eq_false, Bool.false_eq_true, if_false]
    refine Sat.obs (fun _ _ => True) (fun fs _ => hP.obs fs _ (by intro _ _ _ e; cases e) (opendir_noop _ fs))
      (opendir_noop _) (fun _ _ => trivial) (hP.stable.and (fun _ _ _ _ => trivial))
      (fun _ _ _ _ _ => trivial) fun r => ?_
    cases r with
    | fd i =>
      refine Sat.bind ((rmSafeFd_sat hP rank strict 5 p0 i (List.prefix_refl _)).pre fun fs h => h.1.1) fun _ => ?_
      refine Sat.ownop (fun fs h => hP.allowR fs _ h (List.prefix_refl _))
        (fun fs h => (hP.rm fs _ h (List.prefix_refl _)).2) hP.stable fun r => ?_
      cases strict with
      | true =>
        by_cases hr : r = .ok
        · subst hr; exact .ret fun fs h => h
        · have : (r != Res.ok) = true := by simpa using hr
          simp only [Bool.true_and, this, if_true]
          exact .raise fun fs h => ⟨by simp, h⟩
      | false => exact .ret fun fs h => h
    | ok => exact (skip _).pre fun fs h => h.1.1
    | yes => exact (skip _).pre fun fs h => h.1.1
    | no => exact (skip _).pre fun fs h => h.1.1
    | enoent => exact (skip _).pre fun fs h => h.1.1
    | eexist => exact (skip _).pre fun fs h => h.1.1
    | enotempty => exact (skip _).pre fun fs h => h.1.1
    | eisdir => exact (skip _).pre fun fs h => h.1.1
    | enotdir => exact (skip _).pre fun fs h => h.1.1
    | data _ => exact (skip _).pre fun fs h => h.1.1
    | names _ => exact (skip _).pre fun fs h => h.1.1
  · have : (r != Res.yes) = true := by simpa using hr
    simp only [this, if_true]
    exact (skip _).pre fun fs h => h.1


theorem dir_keep_unlink {fs : FS} {q t : Path} (h : IsDirAt q fs) : IsDirAt q (apply (.unlink t) fs).2 := by
  obtain ⟨j, hj⟩ := h
  rcases unlink_spec t fs with ⟨e, _⟩ | ⟨i0, c0, ht, _, _, _, hg⟩
  · rw [e]; exact ⟨j, hj⟩
  · by_cases h0 : q = []
    · subst h0; exact ⟨0, by simp⟩
    · exact ⟨j, by rw [hg, getUpd_ne h0 (by rintro rfl; rw [hj] at ht; cases ht)]; exact hj⟩

theorem dir_keep_rmdir {fs : FS} {q t : Path} (h : IsDirAt q fs) (hne : q ≠ t) : IsDirAt q (apply (.rmdir t) fs).2 := by
  obtain ⟨j, hj⟩ := h
  rcases rmdir_spec t fs with ⟨e, _⟩ | ⟨_, _, _, _, _, _, _, hg⟩
  · rw [e]; exact ⟨j, hj⟩
  · by_cases h0 : q = []
    · subst h0; exact ⟨0, by simp⟩
    · exact ⟨j, by rw [hg, getUpd_ne h0 hne]; exact hj⟩

theorem func_below : Below pLoc pFunc := ⟨⟨[.mod, .func], rfl⟩, by simp [pLoc, pFunc]⟩
theorem entry_below (a : Nat) : Below pLoc (pEntry a) := ⟨⟨[.mod, .func, .entry a], rfl⟩, by simp [pLoc, pEntry]⟩

theorem rmGood_inv_func (hW : World π s lvl me R) : RmGood (R := R) (OwnG π me) (Inv π s) pFunc :=
  ⟨stable_sub hW inv_stable_env,
   fun fs t h ht => ⟨inv_apply h (own_unlink (π := π) (me := me) func_below ht),
                     inv_apply h (own_rmdir (π := π) (me := me) func_below ht)⟩,
   fun fs o hw e => own_noop hw e,
   fun fs t _ ht => own_unlink func_below ht,
   fun fs t _ ht => own_rmdir func_below ht⟩

/-- the standing assertion of a call once the function directory is known -/
def Sf (π : Par) (s : Bool) (lvl : Level) (fs : FS) : Prop := Inv π s fs ∧ DK lvl pFunc fs

theorem good_sf (hW : World π s lvl me R) : Good π s me R (Sf π s lvl) := (good_inv hW).and_dk hW pFunc

theorem ownFull_sf : OwnFull π me (Sf π s lvl) := ownFull_inv.and_dk pFunc

theorem rmGood_sf_entry (hW : World π s lvl me R) (a : Nat) :
    RmGood (R := R) (OwnG π me) (Sf π s lvl) (pEntry a) := by
  refine ⟨(good_sf hW).stable, fun fs t h ht => ?_, fun fs o hw e => own_noop hw e,
    fun fs t _ ht => own_unlink (entry_below a) ht, fun fs t _ ht => own_rmdir (entry_below a) ht⟩
  have hne : pFunc ≠ t := by
    rintro rfl
    have := ht.length_le
    simp [pEntry, pFunc] at this
  exact ⟨⟨inv_apply h.1 (own_unlink (π := π) (me := me) (entry_below a) ht), fun hp => dir_keep_unlink (h.2 hp)⟩,
         ⟨inv_apply h.1 (own_rmdir (π := π) (me := me) (entry_below a) ht), fun hp => dir_keep_rmdir (h.2 hp) hne⟩⟩

/-- `MemorizedFunc.clear()` -/
theorem clearFunc_sat (hW : World π s lvl me R) (c : Cfg) (hc : CfgOK π me c) :
    Sat R (OwnG π me) (Inv π s) (clearFunc c) (fun _ fs => Sf π s lvl fs) (EL lvl) := by
  unfold clearFunc
  refine Sat.bind (exists_sat own_up' (good_inv hW).stable pFunc) fun e => ?_
  refine Sat.bind (Q' := fun _ fs => Inv π s fs) ?_ fun _ =>
    (writeFuncCode_sat hW (good_inv hW) ownFull_inv c hc).post (fun _ _ h => h) (fun _ _ h => h.2)
  cases e with
  | true => exact (rmtree_sat (rmGood_inv_func hW) c.rank false).post (fun _ _ h => h) (fun _ _ h => by simp at h)
  | false => exact .ret fun fs h => h

/-- `clear_item(call_id)` -/
theorem clearItem_sat (hW : World π s lvl me R) (c : Cfg) (a : Nat) :
    Sat R (OwnG π me) (Sf π s lvl) (clearItem c a) (fun _ fs => Sf π s lvl fs) (EL lvl) := by
  unfold clearItem
  refine Sat.bind (exists_sat own_up' (good_sf hW).stable (pEntry a)) fun e => ?_
  cases e with
  | true => exact (rmtree_sat (rmGood_sf_entry hW a) c.rank false).post (fun _ _ h => h) (fun _ _ h => by simp at h)
  | false => exact .ret fun fs h => h


/-! ### Environments smaller than `Env` -/

theorem Sat.mono_R {α : Type} {R R' : FS → FS → Prop} {G : FS → Op → Prop} {P : FS → Prop} {p : Prog α}
    {Q : α → FS → Prop} {E : Err → FS → Prop} (h : Sat R G P p Q E) (hR : ∀ fs fs', R' fs fs' → R fs fs') :
    Sat R' G P p Q E := by
  induction h with
  | ret h => exact .ret h
  | raise h => exact .raise h
  | op M h1 h2 _ ih => exact .op M h1 (fun r fs fs' hm hr => h2 r fs fs' hm (hR _ _ hr)) ih

theorem inv_weaken {fs : FS} (h : Inv π true fs) : Inv π s fs :=
  ⟨h.wf, h.typD, h.typF, fun a i d hg => by
    obtain ⟨v, hv, hs⟩ := h.out a i d hg
    exact ⟨v, hv, fun _ => hs rfl⟩, h.metaOk, h.up⟩

theorem sf_weaken {fs : FS} (h : Sf π true lvl fs) : Sf π s lvl fs := ⟨inv_weaken h.1, h.2⟩

/-- trust: when `func_code.py` compares equal to the live source, every result file is of the live version -/
def TrustK (π : Par) (s : Bool) (fs : FS) : Prop :=
  s = false → ∀ i d, fs.get pCode = some (.file i d) → π.cd.checkCode π.ver d = .same → Inv π true fs

theorem trust_stable (hW : World π s lvl me R) : Stable R (TrustK π s) := by
  intro fs fs' h hR hs
  exact absurd hR (hW.alone hs _ _)

theorem openr_noop (p : Path) (fs : FS) : (apply (.openr p) fs).2 = fs := by
  simp only [apply]; split <;> rfl

theorem read_noop (p : Path) (i : Nat) (fs : FS) : (apply (.read p i) fs).2 = fs := rfl

/-- `_check_previous_func_code`: answers `true` only when every result file is of the live version -/
theorem checkPrevious_sat (hW : World π s lvl me R) (c : Cfg) (hc : CfgOK π me c) :
    Sat R (OwnG π me) (fun fs => Sf π s lvl fs ∧ TrustK π s fs) (checkPrevious c)
      (fun b fs => Sf π s lvl fs ∧ (b = true → Inv π true fs)) (EL lvl) := by
  unfold checkPrevious
  have hS : Stable R (Sf π s lvl) := (good_sf hW).stable
  have clr : Sat R (OwnG π me) (fun fs => Sf π s lvl fs) ((clearFunc c).bind fun _ => Prog.ret false)
      (fun b fs => Sf π s lvl fs ∧ (b = true → Inv π true fs)) (EL lvl) := by
    refine Sat.bind ((clearFunc_sat hW c hc).pre fun fs h => h.1) fun _ => ?_
    exact .ret fun fs h => ⟨h, fun e => by cases e⟩
  have wfc : Sat R (OwnG π me) (fun fs => Sf π s lvl fs) ((writeFuncCode c).bind fun _ => Prog.ret false)
      (fun b fs => Sf π s lvl fs ∧ (b = true → Inv π true fs)) (EL lvl) := by
    refine Sat.bind (((writeFuncCode_sat hW (good_inv hW) ownFull_inv c hc).post (fun _ _ h => h) (E' := EL lvl)
      (fun _ _ h => h.2)).pre fun fs h => h.1) fun _ => ?_
    exact .ret fun fs h => ⟨h, fun e => by cases e⟩
  refine Sat.obs (fun r fs => ∀ i, r = .fd i → s = false → ∀ d, fs.readData pCode i = d →
        π.cd.checkCode π.ver d = .same → Inv π true fs)
    (fun fs _ => own_noop (by intro _ _ _ e; cases e) (openr_noop _ fs)) (openr_noop _) ?_
    (hS.and (trust_stable hW)) ?_ ?_
  · rintro fs ⟨_, htr⟩ i hr hs d hd hsame
    simp only [apply] at hr
    split at hr
    · cases hr
    · cases hr
    · rename_i j c0 hg
      cases hr
      have : fs.readData pCode i = c0 := by unfold FS.readData; rw [hg]; simp
      rw [this] at hd; subst hd
      exact htr hs i _ hg hsame
  · intro r fs fs' _ hR i _ hs
    exact absurd hR (hW.alone hs _ _)
  · intro r
    cases r with
    | fd i =>
      refine Sat.obs (fun r fs => (∃ d, r = .data d) ∧
          ∀ d, r = .data d → π.cd.checkCode π.ver d = .same → Inv π true fs)
        (fun fs _ => own_noop (by intro _ _ _ e; cases e) rfl) (read_noop _ _) ?_
        ((hS.and (trust_stable hW)).and ?_) ?_ ?_
      · rintro fs ⟨⟨hsf, _⟩, hk⟩
        refine ⟨⟨_, rfl⟩, fun d hr hsame => ?_⟩
        simp only [apply] at hr
        cases hr
        cases hs : s with
        | true => subst hs; exact hsf.1
        | false => exact hk i rfl hs _ rfl hsame
      · intro fs fs' _ hR i _ hs
        exact absurd hR (hW.alone hs _ _)
      · intro r fs fs' h hR
        exact ⟨h.1, fun d hr hsame => inv_stable_env _ _ (h.2 d hr hsame) (hW.sub _ _ hR)⟩
      · intro r
        cases r with
        | data d =>
          simp only
          rw [hc.cd, hc.ver]
          cases hcc : π.cd.checkCode π.ver d with
          | same => exact .ret fun fs h => ⟨h.1.1.1, fun _ => h.2.2 d rfl hcc⟩
          | differs => exact clr.pre fun fs h => h.1.1.1
          | valueError => rw [hc.legacy]; exact clr.pre fun fs h => h.1.1.1
        | ok => exact .raise fun fs h => by obtain ⟨d, hd⟩ := h.2.1; cases hd
        | yes => exact .raise fun fs h => by obtain ⟨d, hd⟩ := h.2.1; cases hd
        | no => exact .raise fun fs h => by obtain ⟨d, hd⟩ := h.2.1; cases hd
        | enoent => exact .raise fun fs h => by obtain ⟨d, hd⟩ := h.2.1; cases hd
        | eexist => exact .raise fun fs h => by obtain ⟨d, hd⟩ := h.2.1; cases hd
        | enotempty => exact .raise fun fs h => by obtain ⟨d, hd⟩ := h.2.1; cases hd
        | eisdir => exact .raise fun fs h => by obtain ⟨d, hd⟩ := h.2.1; cases hd
        | enotdir => exact .raise fun fs h => by obtain ⟨d, hd⟩ := h.2.1; cases hd
        | fd _ => exact .raise fun fs h => by obtain ⟨d, hd⟩ := h.2.1; cases hd
        | names _ => exact .raise fun fs h => by obtain ⟨d, hd⟩ := h.2.1; cases hd
    | ok => exact wfc.pre fun fs h => h.1.1
    | yes => exact wfc.pre fun fs h => h.1.1
    | no => exact wfc.pre fun fs h => h.1.1
    | enoent => exact wfc.pre fun fs h => h.1.1
    | eexist => exact wfc.pre fun fs h => h.1.1
    | enotempty => exact wfc.pre fun fs h => h.1.1
    | eisdir => exact wfc.pre fun fs h => h.1.1
    | enotdir => exact wfc.pre fun fs h => h.1.1
    | data _ => exact wfc.pre fun fs h => h.1.1
    | names _ => exact wfc.pre fun fs h => h.1.1


/-- `get_metadata`: two observing calls; whatever it answers, nothing changed -/
theorem getMetadata_sat {R : FS → FS → Prop} {P : FS → Prop} {E : Err → FS → Prop} (hP : Stable R P) (c : Cfg) (a : Nat) :
    Sat R (OwnG π me) P (getMetadata c a) (fun _ fs => P fs) E := by
  unfold getMetadata
  refine Sat.obs (fun _ _ => True) (fun fs _ => own_noop (by intro _ _ _ e; cases e) (openr_noop _ fs)) (openr_noop _)
    (fun _ _ => trivial) hP (fun _ _ _ _ _ => trivial) fun r => ?_
  cases r with
  | fd i =>
    refine Sat.obs (fun _ _ => True) (fun fs _ => own_noop (by intro _ _ _ e; cases e) rfl) (read_noop _ _)
      (fun _ _ => trivial) (hP.and fun _ _ _ _ => trivial) (fun _ _ _ _ _ => trivial) fun r => ?_
    cases r <;> exact .ret fun fs h => h.1.1
  | ok => exact .ret fun fs h => h.1
  | yes => exact .ret fun fs h => h.1
  | no => exact .ret fun fs h => h.1
  | enoent => exact .ret fun fs h => h.1
  | eexist => exact .ret fun fs h => h.1
  | enotempty => exact .ret fun fs h => h.1
  | eisdir => exact .ret fun fs h => h.1
  | enotdir => exact .ret fun fs h => h.1
  | data _ => exact .ret fun fs h => h.1
  | names _ => exact .ret fun fs h => h.1

/-- `load_item`: in a directory whose result files are all of the live version, a successful load returns `f(a)`;
a failure leaves everything as it was (the caller recomputes). -/
theorem loadItem_sat (hW : World π true lvl me R) (c : Cfg) (hc : CfgOK π me c) (a : Nat)
    (hU : ∀ v, π.cd.unpickle (π.cd.pickle v) = some v) :
    Sat R (OwnG π me) (Sf π true lvl) (loadItem c a)
      (fun v fs => Sf π true lvl fs ∧ v = ⟨π.ver, a⟩) (fun _ fs => Sf π true lvl fs) := by
  unfold loadItem
  have hS : Stable R (Sf π true lvl) := (good_sf hW).stable
  refine Sat.bind (exists_sat own_up' hS (pOut a)) fun e => ?_
  cases e with
  | false => exact .raise fun fs h => h
  | true =>
    simp only [Bool.not_true, Bool.false_eq_true, if_false]
    refine Sat.obs (fun r fs => ∀ i, r = .fd i → WF fs ∧ ReadK (pOut a) i (π.cd.pickle ⟨π.ver, a⟩) fs)
      (fun fs _ => own_noop (by intro _ _ _ e; cases e) (openr_noop _ fs)) (openr_noop _) ?_ hS ?_ ?_
    · intro fs hsf i hr
      simp only [apply] at hr
      split at hr
      · cases hr
      · cases hr
      · rename_i j d hg
        cases hr
        obtain ⟨v, hv, hs⟩ := hsf.1.out a _ d hg
        have := hs rfl
        subst this
        exact ⟨hsf.1.wf, Or.inl (by rw [hg, hv])⟩
    · intro r fs fs' h hR i hr
      exact readK_stable ⟨a, Or.inl rfl⟩ _ _ (h i hr) (hW.sub _ _ hR)
    · intro r
      cases r with
      | fd i =>
        refine Sat.obs (fun r fs => r = .data (π.cd.pickle ⟨π.ver, a⟩))
          (fun fs _ => own_noop (by intro _ _ _ e; cases e) rfl) (read_noop _ _) ?_ (hS.and ?_)
          (fun _ _ _ h _ => h) ?_
        · intro fs h
          simp only [apply]
          rw [readK_read (h.2 i rfl).2]
        · intro fs fs' h hR j hr
          exact readK_stable ⟨a, Or.inl rfl⟩ _ _ (h j hr) (hW.sub _ _ hR)
        · intro r
          cases r with
          | data d =>
            simp only
            rw [hc.cd]
            cases hu : π.cd.unpickle d with
            | some v =>
              refine .ret fun fs h => ⟨h.1.1, ?_⟩
              have hd : d = π.cd.pickle ⟨π.ver, a⟩ := by
                have := h.2; simpa using this
              rw [hd, hU] at hu; cases hu; rfl
            | none => exact .raise fun fs h => h.1.1
          | ok => exact .raise fun fs h => h.1.1
          | yes => exact .raise fun fs h => h.1.1
          | no => exact .raise fun fs h => h.1.1
          | enoent => exact .raise fun fs h => h.1.1
          | eexist => exact .raise fun fs h => h.1.1
          | enotempty => exact .raise fun fs h => h.1.1
          | eisdir => exact .raise fun fs h => h.1.1
          | enotdir => exact .raise fun fs h => h.1.1
          | fd _ => exact .raise fun fs h => h.1.1
          | names _ => exact .raise fun fs h => h.1.1
      | ok => exact .raise fun fs h => h.1
      | yes => exact .raise fun fs h => h.1
      | no => exact .raise fun fs h => h.1
      | enoent => exact .raise fun fs h => h.1
      | eexist => exact .raise fun fs h => h.1
      | enotempty => exact .raise fun fs h => h.1
      | eisdir => exact .raise fun fs h => h.1
      | enotdir => exact .raise fun fs h => h.1
      | data _ => exact .raise fun fs h => h.1
      | names _ => exact .raise fun fs h => h.1


/-- `_concurrency_safe_write`: the temporary is private, so the rename installs exactly what was written — or fails -/
theorem safeWrite_sat {P : FS → Prop} (hW : World π s lvl me R) (hP : Good π s me R P) (hF : OwnFull π me P)
    (a : Nat) (tmp final : Path) (d : Bytes)
    (hk : (tmp = pTmpOut a me ∧ final = pOut a ∧ d = π.cd.pickle ⟨π.ver, a⟩) ∨
          (tmp = pTmpMeta a me ∧ final = pMeta a ∧ d = π.cd.metaText)) :
    Sat R (OwnG π me) P (safeWrite tmp final d) (fun _ fs => P fs) (fun _ fs => P fs) := by
  have htmp : IsTmp (fun x => x = me) tmp := by
    rcases hk with ⟨rfl, _, _⟩ | ⟨rfl, _, _⟩
    · exact ⟨a, me, rfl, Or.inl rfl⟩
    · exact ⟨a, me, rfl, Or.inr rfl⟩
  have hmine : Mine me tmp := Or.inl htmp
  have hnc : tmp ≠ pCode := by
    rcases hk with ⟨rfl, _, _⟩ | ⟨rfl, _, _⟩ <;> simp [pTmpOut, pTmpMeta, pCode]
  unfold safeWrite
  refine .op (fun r fs => P fs ∧ ∀ i, r = .fd i → LocOnly i tmp fs ∧ TmpData tmp i [] fs) ?_ ?_ ?_
  · intro fs h
    have ha : Allowed π .calls (fun x => x = me) fs (.creat tmp) := .creat tmp (Or.inl htmp)
    refine ⟨own_up ha, hF _ _ h ha, fun i hr => ?_⟩
    obtain ⟨h1, h2⟩ := own_creat (hP.inv _ h).wf hr
    exact ⟨h1, Or.inr h2⟩
  · rintro r fs fs' ⟨h1, h2⟩ hR
    refine ⟨hP.stable _ _ h1 hR, fun i hr => ?_⟩
    exact ⟨locOnly_stable hmine _ _ (h2 i hr).1 (hW.sub _ _ hR), tmpData_stable htmp _ _ (h2 i hr).2 (hW.sub _ _ hR)⟩
  · intro r
    cases r with
    | fd i =>
      refine .op (fun _ fs => P fs ∧ TmpData tmp i d fs) ?_ ?_ ?_
      · intro fs ⟨h1, h2⟩
        have ha : Allowed π .calls (fun x => x = me) fs (.write tmp i d) :=
          own_write_allowed hmine (h2 i rfl).1 (fun e => absurd e hnc)
        refine ⟨own_up ha, hF _ _ h1 ha, ?_⟩
        have := tmpData_write (p' := tmp) (d := d) (h2 i rfl).2
        rwa [overwrite_nil] at this
      · rintro _ fs fs' ⟨h1, h2⟩ hR
        exact ⟨hP.stable _ _ h1 hR, tmpData_stable htmp _ _ h2 (hW.sub _ _ hR)⟩
      · intro _
        refine .op (fun _ fs => P fs) ?_ (fun _ => hP.stable) ?_
        · intro fs ⟨h1, h2⟩
          have ha : Allowed π .calls (fun x => x = me) fs (.rename tmp final) := by
            rcases h2 with h2 | h2
            · exact .noop _ (by intro _ _ _ e; cases e) (by simp [apply, h2])
            · have hdat : fs.dataAt tmp = some d := by unfold FS.dataAt; rw [h2]
              rcases hk with ⟨rfl, rfl, rfl⟩ | ⟨rfl, rfl, rfl⟩
              · exact .renameOut a me rfl hdat
              · exact .renameMeta a me rfl hdat
          exact ⟨own_up ha, hF _ _ h1 ha⟩
        · intro r
          cases r <;> first | exact .ret fun fs h => h | exact .raise fun fs h => h
    | ok => exact .raise fun fs h => h.1
    | yes => exact .raise fun fs h => h.1
    | no => exact .raise fun fs h => h.1
    | enoent => exact .raise fun fs h => h.1
    | eexist => exact .raise fun fs h => h.1
    | enotempty => exact .raise fun fs h => h.1
    | eisdir => exact .raise fun fs h => h.1
    | enotdir => exact .raise fun fs h => h.1
    | data _ => exact .raise fun fs h => h.1
    | names _ => exact .raise fun fs h => h.1

/-- `dump_item`: never raises -/
theorem dumpItem_sat (hW : World π s lvl me R) (c : Cfg) (hc : CfgOK π me c) (a : Nat) :
    Sat R (OwnG π me) (Sf π s lvl) (dumpItem c a ⟨c.ver, a⟩) (fun _ fs => Sf π s lvl fs) (fun _ _ => False) := by
  unfold dumpItem
  have hS : Stable R (Sf π s lvl) := (good_sf hW).stable
  refine Sat.tryCatch (E1 := fun _ fs => Sf π s lvl fs) ?_ (fun _ => .ret fun fs h => h)
  refine Sat.bind (exists_sat own_up' hS (pEntry a)) fun e => ?_
  refine Sat.bind (Q' := fun _ fs => Sf π s lvl fs) ?_ fun _ => ?_
  · cases e with
    | true => exact .ret fun fs h => h
    | false =>
      have := mkdirp_sat own_up' hW (good_sf hW) (pEntry a) (Or.inr (Or.inr (Or.inr (Or.inr ⟨a, rfl⟩))))
        (Or.inr (Or.inr (Or.inr (Or.inr rfl))))
      exact this.post (fun _ _ h => h.1) (fun _ _ h => h.1)
  · rw [hc.me, hc.cd, hc.ver]
    exact safeWrite_sat hW (good_sf hW) ownFull_sf a _ _ _ (Or.inl ⟨rfl, rfl, rfl⟩)

/-- `store_metadata`: never raises -/
theorem storeMetadata_sat (hW : World π s lvl me R) (c : Cfg) (hc : CfgOK π me c) (a : Nat) :
    Sat R (OwnG π me) (Sf π s lvl) (storeMetadata c a) (fun _ fs => Sf π s lvl fs) (fun _ _ => False) := by
  unfold storeMetadata
  refine Sat.tryCatch (E1 := fun _ fs => Sf π s lvl fs) ?_ (fun _ => .ret fun fs h => h)
  refine Sat.bind (Q' := fun _ fs => Sf π s lvl fs) ?_ fun _ => ?_
  · have := mkdirp_sat own_up' hW (good_sf hW) (pEntry a) (Or.inr (Or.inr (Or.inr (Or.inr ⟨a, rfl⟩))))
      (Or.inr (Or.inr (Or.inr (Or.inr rfl))))
    exact this.post (fun _ _ h => h.1) (fun _ _ h => h.1)
  · rw [hc.me, hc.cd]
    exact safeWrite_sat hW (good_sf hW) ownFull_sf a _ _ _ (Or.inr ⟨rfl, rfl, rfl⟩)


/-! ### The cached call -/

theorem world_true (hW : World π s lvl me R) : World π true lvl me R :=
  ⟨hW.sub, fun h => by cases h⟩

theorem good_init (hW : World π s lvl me R) : Good π s me R (fun fs => Inv π s fs ∧ TrustK π s fs) :=
  ⟨(good_inv hW).stable.and (trust_stable hW),
   fun fs o h ha hcode => ⟨inv_apply h.1 ha, fun hs i d hg hsame => by
      rw [hcode] at hg
      exact inv_apply (h.2 hs i d hg hsame) ha⟩,
   fun fs h => h.1⟩

/-- `_is_in_cache_and_valid`: answers `true` only when every result file is of the live version -/
theorem isInCacheAndValid_sat (hW : World π s lvl me R) (c : Cfg) (hc : CfgOK π me c) (a : Nat) :
    Sat R (OwnG π me) (fun fs => Sf π s lvl fs ∧ TrustK π s fs) (isInCacheAndValid c a)
      (fun b fs => Sf π s lvl fs ∧ (b = true → Sf π true lvl fs)) (EL lvl) := by
  unfold isInCacheAndValid
  refine Sat.bind (checkPrevious_sat hW c hc) fun okc => ?_
  cases okc with
  | false => exact .ret fun fs h => ⟨h.1, fun e => by cases e⟩
  | true =>
    simp only [Bool.not_true, Bool.false_eq_true, if_false]
    have hW' := world_true hW
    have hS : Stable R (Sf π true lvl) := (good_sf hW').stable
    have toT : ∀ fs, Sf π s lvl fs ∧ (True → Inv π true fs) → Sf π true lvl fs :=
      fun fs h => ⟨h.2 trivial, h.1.2⟩
    have clr : Sat R (OwnG π me) (Sf π true lvl) ((clearItem c a).bind fun _ => Prog.ret false)
        (fun b fs => Sf π s lvl fs ∧ (b = true → Sf π true lvl fs)) (EL lvl) :=
      Sat.bind (clearItem_sat hW' c a) fun _ => .ret fun fs h => ⟨sf_weaken h, fun e => by cases e⟩
    refine (Sat.bind (exists_sat own_up' hS (pOut a)) fun e => ?_).pre toT
    cases e with
    | false => exact .ret fun fs h => ⟨sf_weaken h, fun e => by cases e⟩
    | true =>
      simp only [Bool.not_true, Bool.false_eq_true, if_false]
      refine Sat.bind (getMetadata_sat hS c a) fun hasTime => ?_
      cases hcb : c.callback with
      | none => exact .ret fun fs h => ⟨sf_weaken h, fun _ => h⟩
      | expires fresh =>
        simp only
        cases hasTime with
        | false =>
          simp only [Bool.not_false, if_true]
          rw [hc.legacy]
          exact clr
        | true =>
          simp only [Bool.not_true, Bool.false_eq_true, if_false]
          cases fresh with
          | true => exact .ret fun fs h => ⟨sf_weaken h, fun _ => h⟩
          | false => exact clr

/-- `_call` + `_after_call` + `_persist_input` of `__call__`: stores and returns `f(a)`; storing never raises -/
theorem computeAndStore_sat (hW : World π s lvl me R) (c : Cfg) (hc : CfgOK π me c) (hsh : c.shelve = false) (a : Nat) :
    Sat R (OwnG π me) (Sf π s lvl) (computeAndStore c a) (fun v fs => Sf π s lvl fs ∧ v = ⟨π.ver, a⟩) (EL lvl) := by
  unfold computeAndStore
  refine Sat.bind ((dumpItem_sat hW c hc a).post (fun _ _ h => h) (fun _ _ h => h.elim)) fun _ => ?_
  refine Sat.bind ((storeMetadata_sat hW c hc a).post (fun _ _ h => h) (fun _ _ h => h.elim)) fun _ => ?_
  rw [hsh]
  exact .ret fun fs h => ⟨h, by rw [hc.ver]⟩

/-- `MemorizedFunc.__call__` -/
theorem cachedCall_sat (hW : World π s lvl me R) (c : Cfg) (hc : CfgOK π me c) (hsh : c.shelve = false) (a : Nat)
    (hU : ∀ v, π.cd.unpickle (π.cd.pickle v) = some v) :
    Sat R (OwnG π me) (fun fs => Sf π s lvl fs ∧ TrustK π s fs) (cachedCall c a)
      (fun v fs => Inv π s fs ∧ v = ⟨π.ver, a⟩) (EL lvl) := by
  unfold cachedCall
  refine Sat.bind (isInCacheAndValid_sat hW c hc a) fun valid => ?_
  have cs : Sat R (OwnG π me) (Sf π s lvl) (computeAndStore c a) (fun v fs => Inv π s fs ∧ v = ⟨π.ver, a⟩) (EL lvl) :=
    (computeAndStore_sat hW c hc hsh a).post (fun _ _ h => ⟨h.1.1, h.2⟩) (fun _ _ h => h)
  cases valid with
  | false => exact cs.pre fun fs h => h.1
  | true =>
    simp only [if_true]
    rw [hsh]
    simp only [Bool.false_eq_true, if_false]
    have hW' := world_true hW
    refine Sat.bind (Q' := fun r fs => Sf π true lvl fs ∧ ∀ v, r = some v → v = ⟨π.ver, a⟩) ?_ fun r => ?_
    · refine Sat.tryCatch (E1 := fun _ fs => Sf π true lvl fs) ?_ (fun _ => .ret fun fs h => ⟨h, fun v e => by cases e⟩)
      refine (Sat.bind (loadItem_sat hW' c hc a hU) fun v => ?_).pre fun fs h => h.2 (by simp)
      exact .ret fun fs h => ⟨h.1, fun v' e => by cases e; exact h.2⟩
    · cases r with
      | some v => exact .ret fun fs h => ⟨inv_weaken h.1.1, h.2 v rfl⟩
      | none => exact cs.pre fun fs h => sf_weaken h.1

/-- A fresh process: `Memory(location)`, `memory.cache(f)`, `f(a)`. -/
theorem callProc_sat (hW : World π s lvl me R) (c : Cfg) (hc : CfgOK π me c) (hsh : c.shelve = false) (a : Nat)
    (hU : ∀ v, π.cd.unpickle (π.cd.pickle v) = some v) :
    Sat R (OwnG π me) (fun fs => Inv π s fs ∧ TrustK π s fs) (callProc c a)
      (fun v fs => Inv π s fs ∧ v = ⟨π.ver, a⟩) (EL lvl) := by
  unfold callProc
  refine Sat.bind ((configure_sat own_up' hW (good_init hW) c).post (fun _ _ h => h.1) (E' := EL lvl) (fun _ _ h => h.2))
    fun _ => ?_
  refine Sat.bind ((ensureFuncDir_sat hW (good_init hW)).post (fun _ _ h => h) (E' := EL lvl) (fun _ _ h => h.2)) fun _ => ?_
  exact (cachedCall_sat hW c hc hsh a hU).pre fun fs h => ⟨⟨h.1.1, h.2⟩, h.1.2⟩


/-! ### Programs that only observe; `reduce_size` and `clear` -/

def IsObs (o : Op) : Prop :=
  (∃ p, o = .stat p) ∨ (∃ p, o = .openr p) ∨ (∃ p i, o = .read p i) ∨ (∃ p, o = .opendir p) ∨ (∃ p i, o = .readdir p i)

inductive ObsOnly {α : Type} : Prog α → Prop
  | ret (a : α) : ObsOnly (.ret a)
  | raise (e : Err) : ObsOnly (.raise e)
  | op (o : Op) (k : Res → Prog α) : IsObs o → (∀ r, ObsOnly (k r)) → ObsOnly (.op o k)

theorem ObsOnly.bind {α β : Type} {p : Prog α} {f : α → Prog β} (hp : ObsOnly p) (hf : ∀ a, ObsOnly (f a)) :
    ObsOnly (p.bind f) := by
  induction hp with
  | ret a => exact hf a
  | raise e => exact .raise e
  | op o k ho _ ih => exact .op o _ ho ih

theorem isObs_not_write {o : Op} (h : IsObs o) : ∀ p i d, o ≠ .write p i d := by
  intro p i d e
  rcases h with ⟨_, rfl⟩ | ⟨_, rfl⟩ | ⟨_, _, rfl⟩ | ⟨_, rfl⟩ | ⟨_, _, rfl⟩ <;> cases e

theorem obsOnly_sat {α : Type} {G : FS → Op → Prop} {P : FS → Prop} {p : Prog α}
    (hG : ∀ fs o, (∀ p i d, o ≠ .write p i d) → (apply o fs).2 = fs → G fs o) (hP : Stable R P) (h : ObsOnly p) :
    Sat R G P p (fun _ fs => P fs) (fun _ fs => P fs) := by
  induction h with
  | ret a => exact .ret fun fs h => h
  | raise e => exact .raise fun fs h => h
  | op o k ho _ ih =>
    refine .op (fun _ fs => P fs) (fun fs h => ?_) (fun _ => hP) ih
    have := observer_noop o fs ho
    exact ⟨hG fs o (isObs_not_write ho) this, by rw [this]; exact h⟩

theorem obsOnly_foldr_stat {α : Type} (l : List α) (f : α → Path) (tl : Prog Unit) (ht : ObsOnly tl) :
    ObsOnly (l.foldr (fun d acc => Prog.op (.stat (f d)) fun _ => acc) tl) := by
  induction l with
  | nil => exact ht
  | cons x r ih => exact .op _ _ (Or.inl ⟨_, rfl⟩) fun _ => ih

theorem obsOnly_itemStats (a : Nat) (files : List (Name × Bool)) : ObsOnly (itemStats a files) := by
  unfold itemStats
  have sizes : ∀ fl : List (Name × Bool), ObsOnly (fl.foldr (fun nf acc =>
      Prog.op (.stat (pEntry a ++ [nf.1])) fun r => if r == .yes then acc else Prog.ret false) (Prog.ret true)) := by
    intro fl
    induction fl with
    | nil => exact .ret _
    | cons x r ih =>
      refine .op _ _ (Or.inl ⟨_, rfl⟩) fun res => ?_
      by_cases h : (res == Res.yes) = true
      · rw [if_pos h]; exact ih
      · rw [if_neg h]; exact .ret _
  refine .op _ _ (Or.inl ⟨_, rfl⟩) fun r => ?_
  by_cases h : (r == Res.yes) = true
  · simp only [h, if_true]; exact sizes files
  · simp only [h, if_false]
    refine .op _ _ (Or.inl ⟨_, rfl⟩) fun r' => ?_
    by_cases h' : (r' == Res.yes) = true
    · simp only [h', if_true]; exact sizes files
    · simp only [h', if_false]; exact .ret _

theorem obsOnly_walk (rank : Name → Nat) : ∀ (fuel : Nat) (p : Path), ObsOnly (walk rank fuel p) := by
  intro fuel
  induction fuel with
  | zero => intro p; exact .ret _
  | succ fuel ih =>
    intro p
    unfold walk
    refine .op _ _ (Or.inr (Or.inr (Or.inr (Or.inl ⟨_, rfl⟩)))) fun r => ?_
    cases r with
    | fd i =>
      unfold scandir
      refine .op _ _ (Or.inr (Or.inr (Or.inr (Or.inr ⟨_, _, rfl⟩)))) fun r => ?_
      have body : ∀ l : List (Name × Bool), ObsOnly (
          (fun l : List (Name × Bool) =>
            let dirs := l.filter (·.2)
            let files := l.filter (fun x => !x.2)
            let here : Prog (List Nat) :=
              match p.getLast? with
              | some (.entry a) => if p = pEntry a then (itemStats a files).bind fun b => Prog.ret (if b then [a] else []) else Prog.ret []
              | _ => Prog.ret []
            here.bind fun found =>
            (dirs.reverse.foldr (fun d acc => Prog.op (.stat (p ++ [d.1])) fun _ => acc) (Prog.ret ())).bind fun _ =>
            (dirs.foldr (fun d acc => (walk rank fuel (p ++ [d.1])).bind fun f1 => acc.bind fun f2 => Prog.ret (f1 ++ f2))
              (Prog.ret [])).bind fun sub => Prog.ret (found ++ sub)) l) := by
        intro l
        simp only []
        refine ObsOnly.bind ?_ fun found => ?_
        · split
          · split
            · exact (obsOnly_itemStats _ _).bind fun _ => .ret _
            · exact .ret _
          · exact .ret _
        · refine ObsOnly.bind (obsOnly_foldr_stat _ _ _ (.ret _)) fun _ => ?_
          refine ObsOnly.bind ?_ fun _ => .ret _
          generalize (l.filter (·.2)) = dl
          induction dl with
          | nil => exact .ret _
          | cons x r ihl => exact (ih _).bind fun _ => ihl.bind fun _ => .ret _
      cases r with
      | names l => exact body _
      | _ => exact body []
    | _ => exact .ret _


/-- what an evicting participant (`Memory.reduce_size`) guarantees -/
abbrev EvictG (π : Par) (me : Nat) : FS → Op → Prop := fun fs o => Allowed π .evict (fun x => x = me) fs o

theorem evict_up : ∀ fs o, Allowed π .calls (fun x => x = me) fs o → EvictG π me fs o :=
  fun _ _ ha => ha.mono_level (Or.inl rfl)

theorem rmGood_inv_entry_evict (hW : World π s lvl me R) (a : Nat) :
    RmGood (R := R) (EvictG π me) (Inv π s) (pEntry a) := by
  refine ⟨(good_inv hW).stable, fun fs t h ht => ?_, fun fs o hw e => .noop o hw e, fun fs t h ht => ?_,
    fun fs t _ ht => .rmdirE a t (by decide) ht⟩
  · have hb := below_trans (entry_below a) ht
    exact ⟨inv_apply h (Allowed.unlinkC (π := π) (who := fun x => x = me) t rfl hb),
           inv_apply h (Allowed.rmdirC (π := π) (who := fun x => x = me) t rfl hb)⟩
  · by_cases hte : t = pEntry a
    · subst hte
      -- the entry directory itself is never a file: `unlink` on it changes nothing
      refine .noop _ (by intro _ _ _ e; cases e) ?_
      cases hg : fs.get (pEntry a) with
      | none => simp [apply, hg]
      | some nd =>
        cases nd with
        | dir j => simp [apply, hg]
        | file i c => exact absurd (Or.inr (Or.inr (Or.inr (Or.inr ⟨a, rfl⟩)))) (h.typF _ _ _ hg)
    · exact .unlinkE a t (by decide) ⟨ht, hte⟩

/-- `Memory.reduce_size`: every call it makes is one an evicting participant may make; the invariant is kept -/
theorem reduceProc_sat (hW : World π s lvl me R) (c : Cfg) (victims : List Nat) :
    Sat R (EvictG π me) (Inv π s) (reduceProc c victims) (fun _ fs => Inv π s fs) (fun _ fs => Inv π s fs) := by
  unfold reduceProc
  have hst := (good_inv hW).stable
  refine Sat.bind ((configure_sat evict_up hW (good_inv hW) c).post (fun _ _ h => h.1) (fun _ _ h => h.1)) fun _ => ?_
  refine Sat.bind (obsOnly_sat (fun fs o hw e => .noop o hw e) hst (obsOnly_walk c.rank 6 pLoc)) fun found => ?_
  generalize (victims.filter fun x => found.contains x) = vs
  induction vs with
  | nil => exact .ret fun fs h => h
  | cons a rest ih =>
    refine Sat.bind (Q' := fun _ fs => Inv π s fs) ?_ fun _ => ih
    refine Sat.tryCatch (E1 := fun _ fs => Inv π s fs)
      ((rmtree_sat (rmGood_inv_entry_evict hW a) c.rank false).post (fun _ _ h => h) (fun _ _ h => h.2)) fun e => ?_
    by_cases he : e.isOSError = true
    · rw [if_pos he]; exact .ret fun fs h => h
    · rw [if_neg he]; exact .raise fun fs h => h

theorem rmGood_inv_clear (hW : World π s lvl me R) (p0 : Path) (hb : Below pLoc p0) :
    RmGood (R := R) (OwnG π me) (Inv π s) p0 :=
  ⟨(good_inv hW).stable,
   fun fs t h ht => ⟨inv_apply h (own_unlink (π := π) (me := me) hb ht), inv_apply h (own_rmdir (π := π) (me := me) hb ht)⟩,
   fun fs o hw e => own_noop hw e,
   fun fs t _ ht => own_unlink hb ht,
   fun fs t _ ht => own_rmdir hb ht⟩

/-- `disk.delete_folder` -/
theorem deleteFolder_sat (hW : World π s lvl me R) (c : Cfg) (p0 : Path) (hb : Below pLoc p0) :
    ∀ fuel, Sat R (OwnG π me) (Inv π s) (deleteFolder c p0 fuel) (fun _ fs => Inv π s fs) (fun _ fs => Inv π s fs) := by
  have hst := (good_inv hW).stable
  intro fuel
  induction fuel with
  | zero => exact .raise fun fs h => h
  | succ fuel ih =>
    unfold deleteFolder
    refine Sat.obs (fun _ _ => True) (fun fs _ => own_noop (by intro _ _ _ e; cases e) (opendir_noop _ fs))
      (opendir_noop _) (fun _ _ => trivial) hst (fun _ _ _ _ _ => trivial) fun r => ?_
    cases r with
    | fd i =>
      unfold scandir
      refine Sat.obs (fun _ _ => True) (fun fs _ => own_noop (by intro _ _ _ e; cases e) rfl)
        (readdir_noop _ _) (fun _ _ => trivial) (hst.and fun _ _ _ _ => trivial) (fun _ _ _ _ _ => trivial) fun r => ?_
      have body : Sat R (OwnG π me) (fun fs => (Inv π s fs ∧ True) ∧ True)
          ((rmtree c.rank true p0).tryCatch fun e =>
            if e.isOSError then (if fuel = 0 then Prog.raise e else deleteFolder c p0 fuel) else Prog.raise e)
          (fun _ fs => Inv π s fs) (fun _ fs => Inv π s fs) := by
        refine Sat.tryCatch (E1 := fun _ fs => Inv π s fs)
          (((rmtree_sat (rmGood_inv_clear hW p0 hb) c.rank true).post (fun _ _ h => h) (fun _ _ h => h.2)).pre
            fun fs h => h.1.1) fun e => ?_
        by_cases he : e.isOSError = true
        · rw [if_pos he]
          by_cases hf : fuel = 0
          · rw [if_pos hf]; exact .raise fun fs h => h
          · rw [if_neg hf]; exact ih
        · rw [if_neg he]; exact .raise fun fs h => h
      cases r <;> exact body
    | ok => exact .raise fun fs h => h.1
    | yes => exact .raise fun fs h => h.1
    | no => exact .raise fun fs h => h.1
    | enoent => exact .raise fun fs h => h.1
    | eexist => exact .raise fun fs h => h.1
    | enotempty => exact .raise fun fs h => h.1
    | eisdir => exact .raise fun fs h => h.1
    | enotdir => exact .raise fun fs h => h.1
    | data _ => exact .raise fun fs h => h.1
    | names _ => exact .raise fun fs h => h.1

theorem below_loc_snoc (n : Name) : Below pLoc (pLoc ++ [n]) :=
  ⟨List.prefix_append _ _, by simp [pLoc]⟩

/-- `Memory.clear()`: every call it makes is one a clearing participant may make; the invariant is kept -/
theorem clearProc_sat (hW : World π s lvl me R) (c : Cfg) :
    Sat R (OwnG π me) (Inv π s) (clearProc c) (fun _ fs => Inv π s fs) (fun _ fs => Inv π s fs) := by
  unfold clearProc
  have hst := (good_inv hW).stable
  refine Sat.bind ((configure_sat own_up' hW (good_inv hW) c).post (fun _ _ h => h.1) (fun _ _ h => h.1)) fun _ => ?_
  refine Sat.obs (fun _ _ => True) (fun fs _ => own_noop (by intro _ _ _ e; cases e) (opendir_noop _ fs))
    (opendir_noop _) (fun _ _ => trivial) hst (fun _ _ _ _ _ => trivial) fun r => ?_
  cases r with
  | fd i =>
    unfold scandir
    refine Sat.obs (fun _ _ => True) (fun fs _ => own_noop (by intro _ _ _ e; cases e) rfl)
      (readdir_noop _ _) (fun _ _ => trivial) (hst.and fun _ _ _ _ => trivial) (fun _ _ _ _ _ => trivial) fun r => ?_
    have body : ∀ l : List (Name × Bool), Sat R (OwnG π me) (Inv π s)
        (l.foldr (fun n acc =>
          Prog.op (.stat (pLoc ++ [n.1])) fun r =>
            (if r == .yes && n.2 then deleteFolder c (pLoc ++ [n.1]) 11 else Prog.ret ()).bind fun _ => acc) (Prog.ret ()))
        (fun _ fs => Inv π s fs) (fun _ fs => Inv π s fs) := by
      intro l
      induction l with
      | nil => exact .ret fun fs h => h
      | cons n rest ihl =>
        refine Sat.obs (fun _ _ => True) (fun fs _ => own_noop (by intro _ _ _ e; cases e) rfl) (stat_noop _)
          (fun _ _ => trivial) hst (fun _ _ _ _ _ => trivial) fun r => ?_
        refine Sat.bind (Q' := fun _ fs => Inv π s fs) ?_ fun _ => ihl
        by_cases hc : (r == Res.yes && n.2) = true
        · rw [if_pos hc]
          exact (deleteFolder_sat hW c _ (below_loc_snoc n.1) 11).pre fun fs h => h.1
        · rw [if_neg hc]; exact .ret fun fs h => h.1
    cases r with
    | names l => exact (body _).pre fun fs h => h.1.1
    | _ => exact (body []).pre fun fs h => h.1.1
  | ok => exact .raise fun fs h => h.1
  | yes => exact .raise fun fs h => h.1
  | no => exact .raise fun fs h => h.1
  | enoent => exact .raise fun fs h => h.1
  | eexist => exact .raise fun fs h => h.1
  | enotempty => exact .raise fun fs h => h.1
  | eisdir => exact .raise fun fs h => h.1
  | enotdir => exact .raise fun fs h => h.1
  | data _ => exact .raise fun fs h => h.1
  | names _ => exact .raise fun fs h => h.1

end
end JoblibModel.Store
