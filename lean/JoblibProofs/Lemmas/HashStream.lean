import JoblibModel.HashStream
/-! Helper lemmas for C08 (kept apart from the property theorems): the order `cmpK` is a strict
total order wherever it answers, insertion sort is unique up to permutation under it, and the
`Reorder` relation ("same value, dict/set/frozenset parts listed in another order"). -/
namespace JoblibModel.HashStream

/-! ## `cmpInt`, `cmpKey`, `cmpBs` -/

theorem cmpInt_lt {a b : Int} : cmpInt a b = .lt ↔ a < b := by
  unfold cmpInt
  split
  · simp [*]
  · split <;> simp [*]

theorem cmpInt_eq {a b : Int} : cmpInt a b = .eq ↔ a = b := by
  unfold cmpInt
  split
  · simp; omega
  · split <;> simp [*]

theorem cmpInt_gt {a b : Int} : cmpInt a b = .gt ↔ b < a := by
  unfold cmpInt
  split
  · simp; omega
  · split
    · simp; omega
    · simp; omega

theorem cmpInt_swap (a b : Int) : cmpInt b a = (cmpInt a b).swap := by
  cases h : cmpInt a b
  · rw [cmpInt_lt] at h; simp [Ordering.swap, cmpInt_gt, h]
  · rw [cmpInt_eq] at h; simp [Ordering.swap, cmpInt_eq, h]
  · rw [cmpInt_gt] at h; simp [Ordering.swap, cmpInt_lt, h]

theorem cmpKey_swap (a b : Int × Int) : cmpKey b a = (cmpKey a b).swap := by
  unfold cmpKey
  rw [cmpInt_swap a.1 b.1, cmpInt_swap a.2 b.2]
  cases cmpInt a.1 b.1 <;> simp [Ordering.swap]

theorem cmpKey_eq {a b : Int × Int} : cmpKey a b = .eq ↔ a = b := by
  unfold cmpKey
  cases h : cmpInt a.1 b.1 <;> simp
  · intro e; rw [e] at h; have := cmpInt_eq.mpr (rfl : b.1 = b.1); rw [this] at h; cases h
  · rw [cmpInt_eq] at h ⊢
    constructor
    · intro h2; exact Prod.ext h h2
    · intro e; rw [e]
  · intro e; rw [e] at h; have := cmpInt_eq.mpr (rfl : b.1 = b.1); rw [this] at h; cases h

theorem cmpKey_lt {a b : Int × Int} : cmpKey a b = .lt ↔ (a.1 < b.1 ∨ (a.1 = b.1 ∧ a.2 < b.2)) := by
  unfold cmpKey
  cases h : cmpInt a.1 b.1 <;> simp
  · left; exact cmpInt_lt.mp h
  · have := cmpInt_eq.mp h
    rw [cmpInt_lt]; omega
  · have h1 : ¬ a.1 < b.1 := by intro hl; rw [cmpInt_lt.mpr hl] at h; cases h
    have h2 : ¬ a.1 = b.1 := by intro hl; rw [cmpInt_eq.mpr hl] at h; cases h
    omega

theorem cmpKey_trans {a b c : Int × Int} (h1 : cmpKey a b = .lt) (h2 : cmpKey b c = .lt) :
    cmpKey a c = .lt := by
  rw [cmpKey_lt] at *; omega

theorem cmpBs_cons (x y : Nat) (xs ys : Bs) :
    cmpBs (x :: xs) (y :: ys) = if x < y then .lt else if x = y then cmpBs xs ys else .gt := rfl

theorem cmpBs_swap : ∀ (a b : Bs), cmpBs b a = (cmpBs a b).swap
  | [], [] => rfl
  | [], _ :: _ => rfl
  | _ :: _, [] => rfl
  | x :: xs, y :: ys => by
    rw [cmpBs_cons, cmpBs_cons]
    rcases Nat.lt_trichotomy x y with h | h | h
    · have h1 : ¬ y < x := by omega
      have h2 : ¬ y = x := by omega
      simp [h, h1, h2, Ordering.swap]
    · subst h; simp [cmpBs_swap xs ys]
    · have h1 : ¬ x < y := by omega
      have h2 : ¬ x = y := by omega
      simp [h, h1, h2, Ordering.swap]

theorem cmpBs_eq : ∀ {a b : Bs}, cmpBs a b = .eq ↔ a = b
  | [], [] => by simp [cmpBs]
  | [], _ :: _ => by simp [cmpBs]
  | _ :: _, [] => by simp [cmpBs]
  | x :: xs, y :: ys => by
    rw [cmpBs_cons]
    rcases Nat.lt_trichotomy x y with h | h | h
    · have h2 : ¬ x = y := by omega
      simp [h, h2]
    · subst h; simp [@cmpBs_eq xs ys]
    · have h1 : ¬ x < y := by omega
      have h2 : ¬ x = y := by omega
      simp [h1, h2]

theorem cmpBs_trans : ∀ {a b c : Bs}, cmpBs a b = .lt → cmpBs b c = .lt → cmpBs a c = .lt
  | [], [], _, h, _ => by simp [cmpBs] at h
  | [], _ :: _, [], _, h => by simp [cmpBs] at h
  | [], _ :: _, _ :: _, _, _ => by simp [cmpBs]
  | _ :: _, [], _, h, _ => by simp [cmpBs] at h
  | _ :: _, _ :: _, [], _, h => by simp [cmpBs] at h
  | x :: xs, y :: ys, z :: zs, h1, h2 => by
    rw [cmpBs_cons] at *
    rcases Nat.lt_trichotomy x y with a | a | a
    · rcases Nat.lt_trichotomy y z with b | b | b
      · have : x < z := by omega
        simp [this]
      · subst b; simp [a]
      · have b1 : ¬ y < z := by omega
        have b2 : ¬ y = z := by omega
        simp [b1, b2] at h2
    · subst a
      rcases Nat.lt_trichotomy x z with b | b | b
      · simp [b]
      · subst b
        simp at h1 h2 ⊢
        exact cmpBs_trans h1 h2
      · have b1 : ¬ x < z := by omega
        have b2 : ¬ x = z := by omega
        simp [b1, b2] at h2
    · have a1 : ¬ x < y := by omega
      have a2 : ¬ x = y := by omega
      simp [a1, a2] at h1

/-! ## `cmpK` -/

mutual
theorem cmpK_swap : ∀ (a b : SortKey), cmpK b a = (cmpK a b).map Ordering.swap
  | .none, .none => by simp [cmpK, Ordering.swap]
  | .num t s, .num t' s' => by simp [cmpK, cmpKey_swap (t, s) (t', s')]
  | .str a, .str b => by simp [cmpK, cmpBs_swap a b]
  | .bytes a, .bytes b => by simp [cmpK, cmpBs_swap a b]
  | .tuple a, .tuple b => by simp only [cmpK]; exact cmpKList_swap a b
  | .none, .num .. | .none, .str _ | .none, .bytes _ | .none, .tuple _ | .none, .unorderable
  | .num .., .none | .num .., .str _ | .num .., .bytes _ | .num .., .tuple _ | .num .., .unorderable
  | .str _, .none | .str _, .num .. | .str _, .bytes _ | .str _, .tuple _ | .str _, .unorderable
  | .bytes _, .none | .bytes _, .num .. | .bytes _, .str _ | .bytes _, .tuple _ | .bytes _, .unorderable
  | .tuple _, .none | .tuple _, .num .. | .tuple _, .str _ | .tuple _, .bytes _ | .tuple _, .unorderable
  | .unorderable, .none | .unorderable, .num .. | .unorderable, .str _ | .unorderable, .bytes _
  | .unorderable, .tuple _ | .unorderable, .unorderable => by simp [cmpK]
theorem cmpKList_swap : ∀ (a b : List SortKey), cmpKList b a = (cmpKList a b).map Ordering.swap
  | [], [] => by simp [cmpKList, Ordering.swap]
  | [], _ :: _ => by simp [cmpKList, Ordering.swap]
  | _ :: _, [] => by simp [cmpKList, Ordering.swap]
  | x :: xs, y :: ys => by
    simp only [cmpKList]
    rw [cmpK_swap x y]
    cases h : cmpK x y with
    | none => simp
    | some o => cases o <;> simp [Ordering.swap, cmpKList_swap xs ys]
end

mutual
/-- `==` on sort keys is identity. -/
theorem cmpK_eq (a b : SortKey) (h : cmpK a b = some .eq) : a = b := by
  cases a <;> cases b <;> simp [cmpK] at h
  · rfl
  · have := cmpKey_eq.mp h; simp at this; simp [this]
  · simp [cmpBs_eq.mp h]
  · simp [cmpBs_eq.mp h]
  · rename_i la lb
    simp [cmpKList_eq la lb h]
termination_by sizeOf a
theorem cmpKList_eq (a b : List SortKey) (h : cmpKList a b = some .eq) : a = b := by
  cases a <;> cases b <;> simp [cmpKList] at h
  · rfl
  · rename_i x xs y ys
    cases h1 : cmpK x y with
    | none => simp [h1] at h
    | some o =>
      cases o <;> simp [h1] at h
      rw [cmpK_eq x y h1, cmpKList_eq xs ys h]
termination_by sizeOf a
end

theorem cmpK_refl_of_some {a b : SortKey} {o : Ordering} (h : cmpK a b = some o) :
    cmpK a b = some .eq ↔ a = b := by
  constructor
  · exact cmpK_eq a b
  · intro e; subst e
    have := cmpK_swap a a
    rw [h] at this
    cases o <;> simp [Ordering.swap] at this
    exact h

mutual
theorem cmpK_trans (a b c : SortKey) (h1 : cmpK a b = some .lt) (h2 : cmpK b c = some .lt) :
    cmpK a c = some .lt := by
  cases a <;> cases b <;> simp [cmpK] at h1 <;> cases c <;> simp [cmpK] at h2 ⊢
  · exact cmpKey_trans h1 h2
  · exact cmpBs_trans h1 h2
  · exact cmpBs_trans h1 h2
  · rename_i la lb lc
    exact cmpKList_trans la lb lc h1 h2
termination_by sizeOf a
theorem cmpKList_trans (a b c : List SortKey) (h1 : cmpKList a b = some .lt)
    (h2 : cmpKList b c = some .lt) : cmpKList a c = some .lt := by
  cases a <;> cases b <;> simp [cmpKList] at h1 <;> cases c <;> simp [cmpKList] at h2 ⊢
  rename_i x xs y ys z zs
  cases e1 : cmpK x y with
  | none => simp [e1] at h1
  | some o1 =>
    cases e2 : cmpK y z with
    | none => simp [e2] at h2
    | some o2 =>
      cases o1 <;> simp [e1] at h1 <;> cases o2 <;> simp [e2] at h2
      · simp [cmpK_trans x y z e1 e2]
      · have := cmpK_eq y z e2; subst this; simp [e1]
      · have := cmpK_eq x y e1; subst this; simp [e2]
      · have := cmpK_eq x y e1; subst this
        simp [e2]
        exact cmpKList_trans xs ys zs h1 h2
termination_by sizeOf a
end

/-! ## `pyCmp` -/

theorem pyCmp_swap (a b : PyVal) : pyCmp b a = (pyCmp a b).map Ordering.swap := cmpK_swap _ _

theorem pyCmp_trans {a b c : PyVal} (h1 : pyCmp a b = some .lt) (h2 : pyCmp b c = some .lt) :
    pyCmp a c = some .lt := cmpK_trans _ _ _ h1 h2

theorem pyCmp_gt_iff {a b : PyVal} : pyCmp a b = some .gt ↔ pyCmp b a = some .lt := by
  rw [pyCmp_swap a b]
  cases pyCmp a b with
  | none => simp
  | some o => cases o <;> simp [Ordering.swap]

/-- The two keys are comparable and not equal: what `sorted` needs of every pair. -/
def StrictPair (a b : PyVal) : Prop := pyCmp a b = some .lt ∨ pyCmp a b = some .gt

theorem StrictPair.symm {a b : PyVal} (h : StrictPair a b) : StrictPair b a := by
  rcases h with h | h
  · right; exact pyCmp_gt_iff.mpr h
  · left; exact pyCmp_gt_iff.mp h

/-! ## insertion sort -/

section sort
variable {α : Type} (key : α → PyVal)

theorem insertOn_perm (x : α) : ∀ l : List α, (insertOn key x l).Perm (x :: l)
  | [] => by simp [insertOn]
  | y :: ys => by
    simp only [insertOn]
    split
    · exact List.Perm.refl _
    · exact ((insertOn_perm x ys).cons y).trans (List.Perm.swap x y ys)

theorem sortOn_perm : ∀ l : List α, (sortOn key l).Perm l
  | [] => by simp [sortOn]
  | x :: xs => by
    simp only [sortOn]
    exact (insertOn_perm key x _).trans ((sortOn_perm xs).cons x)

/-- The keys of `l` are pairwise comparable and different. -/
def StrictOn (l : List α) : Prop := l.Pairwise fun a b => StrictPair (key a) (key b)

theorem StrictOn.perm {l l' : List α} (h : StrictOn key l) (p : l.Perm l') : StrictOn key l' :=
  List.Pairwise.perm h p (fun h => h.symm)

def SortedOn (l : List α) : Prop := l.Pairwise fun a b => pyCmp (key a) (key b) = some .lt

theorem insertOn_sorted (x : α) : ∀ l : List α, SortedOn key l → (∀ y ∈ l, StrictPair (key x) (key y)) →
    SortedOn key (insertOn key x l)
  | [], _, _ => by simp [insertOn, SortedOn]
  | y :: ys, hs, hx => by
    simp only [insertOn]
    have hs' := List.pairwise_cons.mp hs
    split
    · rename_i hlt
      refine List.pairwise_cons.mpr ⟨?_, hs⟩
      intro z hz
      rcases List.mem_cons.mp hz with rfl | hz
      · exact hlt
      · exact pyCmp_trans hlt (hs'.1 z hz)
    · rename_i hnlt
      have hgt : pyCmp (key y) (key x) = some .lt := by
        rcases hx y (List.mem_cons_self) with h | h
        · exact absurd h hnlt
        · exact pyCmp_gt_iff.mp h
      refine List.pairwise_cons.mpr ⟨?_, insertOn_sorted x ys hs'.2 (fun z hz => hx z (List.mem_cons_of_mem _ hz))⟩
      intro z hz
      rcases List.mem_cons.mp ((insertOn_perm key x ys).subset hz) with rfl | hz
      · exact hgt
      · exact hs'.1 z hz

theorem sortOn_sorted : ∀ l : List α, StrictOn key l → SortedOn key (sortOn key l)
  | [], _ => by simp [sortOn, SortedOn]
  | x :: xs, h => by
    simp only [sortOn]
    have h' := List.pairwise_cons.mp h
    refine insertOn_sorted key x _ (sortOn_sorted xs h'.2) ?_
    intro y hy
    exact h'.1 y ((sortOn_perm key xs).subset hy)

/-- `sorted` does not depend on the order of its input when the keys are strictly ordered. -/
theorem sortOn_perm_eq {l l' : List α} (p : l.Perm l') (h : StrictOn key l) :
    sortOn key l = sortOn key l' := by
  refine List.Perm.eq_of_pairwise (le := fun a b => pyCmp (key a) (key b) = some .lt) ?_
    (sortOn_sorted key l h) (sortOn_sorted key l' (h.perm key p))
    ((sortOn_perm key l).trans (p.trans (sortOn_perm key l').symm))
  intro a b _ _ h1 h2
  rw [pyCmp_gt_iff.mpr h2] at h1; cases h1

end sort

/-! ## `Reorder`: the same Python value, its dict / set / frozenset parts listed in another order -/

mutual
/-- `Reorder v w`: `w` is `v` with the parts of any of its dicts, sets and frozensets (at any depth)
listed in another order — what rebuilding them in another insertion order, or iterating them
under another string-hash seed, does to the model's input. -/
inductive Reorder : PyVal → PyVal → Prop
  | none : Reorder .none .none
  | bool (b : Bool) : Reorder (.bool b) (.bool b)
  | int (i : Int) : Reorder (.int i) (.int i)
  | float (x : Nat) : Reorder (.float x) (.float x)
  | str (s : Bs) : Reorder (.str s) (.str s)
  | bytes (s : Bs) : Reorder (.bytes s) (.bytes s)
  | list {l l' : List PyVal} : ReorderL l l' → Reorder (.list l) (.list l')
  | tuple {l l' : List PyVal} : ReorderL l l' → Reorder (.tuple l) (.tuple l')
  | set {l l' l'' : List PyVal} : ReorderL l l' → l'.Perm l'' → Reorder (.set l) (.set l'')
  | frozenset {l l' l'' : List PyVal} : ReorderL l l' → l'.Perm l'' → Reorder (.frozenset l) (.frozenset l'')
  | dict {l l' l'' : List (PyVal × PyVal)} : ReorderD l l' → l'.Perm l'' → Reorder (.dict l) (.dict l'')
inductive ReorderL : List PyVal → List PyVal → Prop
  | nil : ReorderL [] []
  | cons {a b : PyVal} {as bs : List PyVal} : Reorder a b → ReorderL as bs → ReorderL (a :: as) (b :: bs)
inductive ReorderD : List (PyVal × PyVal) → List (PyVal × PyVal) → Prop
  | nil : ReorderD [] []
  | cons {k k' v v' : PyVal} {xs ys : List (PyVal × PyVal)} :
      Reorder k k' → Reorder v v' → ReorderD xs ys → ReorderD ((k, v) :: xs) ((k', v') :: ys)
end

mutual
theorem Reorder.refl : ∀ v : PyVal, Reorder v v
  | .none => .none
  | .bool b => .bool b
  | .int i => .int i
  | .float x => .float x
  | .str s => .str s
  | .bytes s => .bytes s
  | .list l => .list (ReorderL.refl l)
  | .tuple l => .tuple (ReorderL.refl l)
  | .set l => .set (ReorderL.refl l) (List.Perm.refl _)
  | .frozenset l => .frozenset (ReorderL.refl l) (List.Perm.refl _)
  | .dict l => .dict (ReorderD.refl l) (List.Perm.refl _)
theorem ReorderL.refl : ∀ l : List PyVal, ReorderL l l
  | [] => .nil
  | x :: xs => .cons (Reorder.refl x) (ReorderL.refl xs)
theorem ReorderD.refl : ∀ l : List (PyVal × PyVal), ReorderD l l
  | [] => .nil
  | (k, v) :: xs => .cons (Reorder.refl k) (Reorder.refl v) (ReorderD.refl xs)
end

theorem ReorderL.length_eq : ∀ {l l' : List PyVal}, ReorderL l l' → l.length = l'.length
  | _, _, .nil => rfl
  | _, _, .cons _ h => by simp [ReorderL.length_eq h]

mutual
theorem Reorder.toK_eq : ∀ (a b : PyVal), Reorder a b → toK a = toK b
  | .tuple l, b, h => by
    cases h with
    | tuple hl => simp [toK, ReorderL.toKList_eq _ _ hl]
  | .none, b, h => by cases h; rfl
  | .bool _, b, h => by cases h; rfl
  | .int _, b, h => by cases h; rfl
  | .float _, b, h => by cases h; rfl
  | .str _, b, h => by cases h; rfl
  | .bytes _, b, h => by cases h; rfl
  | .list _, b, h => by cases h; rfl
  | .set _, b, h => by cases h; rfl
  | .frozenset _, b, h => by cases h; rfl
  | .dict _, b, h => by cases h; rfl
theorem ReorderL.toKList_eq : ∀ (l l' : List PyVal), ReorderL l l' → toKList l = toKList l'
  | [], _, h => by cases h; rfl
  | x :: xs, _, h => by
    cases h with
    | cons h1 h2 => simp [toKList, Reorder.toK_eq _ _ h1, ReorderL.toKList_eq _ _ h2]
end

theorem Reorder.pyCmp_eq {a a' b b' : PyVal} (ha : Reorder a a') (hb : Reorder b b') :
    pyCmp a b = pyCmp a' b' := by
  unfold pyCmp; rw [ha.toK_eq, hb.toK_eq]

mutual
theorem Reorder.holdsFrozenset_eq : ∀ (a b : PyVal), Reorder a b → holdsFrozenset a = holdsFrozenset b
  | .tuple l, b, h => by
    cases h with
    | tuple hl => simp [holdsFrozenset, ReorderL.holdsFrozensetList_eq _ _ hl]
  | .none, b, h => by cases h; rfl
  | .bool _, b, h => by cases h; rfl
  | .int _, b, h => by cases h; rfl
  | .float _, b, h => by cases h; rfl
  | .str _, b, h => by cases h; rfl
  | .bytes _, b, h => by cases h; rfl
  | .list _, b, h => by cases h; rfl
  | .set _, b, h => by cases h; rfl
  | .frozenset _, b, h => by cases h; rfl
  | .dict _, b, h => by cases h; rfl
theorem ReorderL.holdsFrozensetList_eq : ∀ (l l' : List PyVal), ReorderL l l' →
    holdsFrozensetList l = holdsFrozensetList l'
  | [], _, h => by cases h; rfl
  | x :: xs, _, h => by
    cases h with
    | cons h1 h2 =>
      simp [holdsFrozensetList, Reorder.holdsFrozenset_eq _ _ h1, ReorderL.holdsFrozensetList_eq _ _ h2]
end

/-! ### depth is not affected -/

theorem depthList_perm {l l' : List PyVal} (p : l.Perm l') : depthList l = depthList l' := by
  induction p with
  | nil => rfl
  | cons x _ ih => simp [depthList, ih]
  | swap x y l => simp only [depthList]; omega
  | trans _ _ ih1 ih2 => exact ih1.trans ih2

theorem depthItems_perm {l l' : List (PyVal × PyVal)} (p : l.Perm l') : depthItems l = depthItems l' := by
  induction p with
  | nil => rfl
  | cons x _ ih => obtain ⟨k, v⟩ := x; simp [depthItems, ih]
  | swap x y l => obtain ⟨k, v⟩ := x; obtain ⟨k', v'⟩ := y; simp only [depthItems]; omega
  | trans _ _ ih1 ih2 => exact ih1.trans ih2

mutual
theorem Reorder.depth_eq : ∀ (a b : PyVal), Reorder a b → depth a = depth b
  | .none, b, h => by cases h; rfl
  | .bool _, b, h => by cases h; rfl
  | .int _, b, h => by cases h; rfl
  | .float _, b, h => by cases h; rfl
  | .str _, b, h => by cases h; rfl
  | .bytes _, b, h => by cases h; rfl
  | .list l, b, h => by cases h with | list hl => simp [depth, ReorderL.depthList_eq _ _ hl]
  | .tuple l, b, h => by cases h with | tuple hl => simp [depth, ReorderL.depthList_eq _ _ hl]
  | .set l, b, h => by
    cases h with | set hl hp => simp [depth, ReorderL.depthList_eq _ _ hl, depthList_perm hp]
  | .frozenset l, b, h => by
    cases h with | frozenset hl hp => simp [depth, ReorderL.depthList_eq _ _ hl, depthList_perm hp]
  | .dict l, b, h => by
    cases h with | dict hl hp => simp [depth, ReorderD.depthItems_eq _ _ hl, depthItems_perm hp]
theorem ReorderL.depthList_eq : ∀ (l l' : List PyVal), ReorderL l l' → depthList l = depthList l'
  | [], _, h => by cases h; rfl
  | x :: xs, _, h => by
    cases h with
    | cons h1 h2 => simp [depthList, Reorder.depth_eq _ _ h1, ReorderL.depthList_eq _ _ h2]
theorem ReorderD.depthItems_eq : ∀ (l l' : List (PyVal × PyVal)), ReorderD l l' → depthItems l = depthItems l'
  | [], _, h => by cases h; rfl
  | (k, v) :: xs, _, h => by
    cases h with
    | cons h1 h2 h3 =>
      simp [depthItems, Reorder.depth_eq _ _ h1, Reorder.depth_eq _ _ h2, ReorderD.depthItems_eq _ _ h3]
end

/-! ### `orderable` is not affected -/

theorem allPairs_iff {α : Type} (p : α → α → Bool) : ∀ l : List α,
    allPairs p l = true ↔ l.Pairwise (fun a b => p a b = true)
  | [] => by simp [allPairs]
  | x :: xs => by simp [allPairs, allPairs_iff p xs, List.pairwise_cons]

def comparable (a b : PyVal) : Bool := (pyCmp a b).isSome

theorem comparable_symm {a b : PyVal} (h : comparable a b = true) : comparable b a = true := by
  unfold comparable at *
  rw [pyCmp_swap a b]
  cases h' : pyCmp a b with
  | none => simp [h'] at h
  | some o => simp

theorem orderable_eq (ver : Version) (l : List PyVal) :
    orderable ver l = ((ver = .old || !(l.any holdsFrozenset)) && allPairs comparable l) := rfl

theorem orderable_perm (ver : Version) {l l' : List PyVal} (p : l.Perm l') :
    orderable ver l = orderable ver l' := by
  rw [orderable_eq, orderable_eq]
  have h1 : l.any holdsFrozenset = l'.any holdsFrozenset := by
    rw [Bool.eq_iff_iff]; simp only [List.any_eq_true]
    constructor
    · rintro ⟨x, hx, h⟩; exact ⟨x, p.subset hx, h⟩
    · rintro ⟨x, hx, h⟩; exact ⟨x, p.symm.subset hx, h⟩
  have h2 : allPairs comparable l = allPairs comparable l' := by
    rw [Bool.eq_iff_iff, allPairs_iff, allPairs_iff]
    exact p.pairwise_iff (fun h => comparable_symm h)
  rw [h1, h2]

theorem ReorderL.any_holdsFrozenset : ∀ {l l' : List PyVal}, ReorderL l l' →
    l.any holdsFrozenset = l'.any holdsFrozenset
  | _, _, .nil => rfl
  | _, _, .cons h1 h2 => by simp [List.any_cons, h1.holdsFrozenset_eq, ReorderL.any_holdsFrozenset h2]

theorem ReorderL.all_comparable {x y : PyVal} (hx : Reorder x y) : ∀ {l l' : List PyVal}, ReorderL l l' →
    l.all (comparable x) = l'.all (comparable y)
  | _, _, .nil => rfl
  | _, _, .cons h1 h2 => by
    simp [List.all_cons, comparable, hx.pyCmp_eq h1, ReorderL.all_comparable hx h2]

theorem ReorderL.allPairs_comparable : ∀ {l l' : List PyVal}, ReorderL l l' →
    allPairs comparable l = allPairs comparable l'
  | _, _, .nil => rfl
  | _, _, .cons h1 h2 => by
    simp only [allPairs]
    rw [ReorderL.all_comparable h1 h2, ReorderL.allPairs_comparable h2]

theorem ReorderL.orderable_eq (ver : Version) {l l' : List PyVal} (h : ReorderL l l') :
    orderable ver l = orderable ver l' := by
  rw [JoblibModel.HashStream.orderable_eq, JoblibModel.HashStream.orderable_eq,
    h.any_holdsFrozenset, h.allPairs_comparable]

/-! ### sorting related lists -/

theorem ReorderL.mem_left : ∀ {l l' : List PyVal}, ReorderL l l' → ∀ b ∈ l', ∃ a ∈ l, Reorder a b
  | _, _, .nil, b, hb => by simp at hb
  | _, _, .cons (a := a) h1 h2, b, hb => by
    rcases List.mem_cons.mp hb with rfl | hb
    · exact ⟨a, List.mem_cons_self, h1⟩
    · obtain ⟨a', ha', h'⟩ := ReorderL.mem_left h2 b hb
      exact ⟨a', List.mem_cons_of_mem _ ha', h'⟩

theorem ReorderL.insertOn {x y : PyVal} (hx : Reorder x y) : ∀ {l l' : List PyVal}, ReorderL l l' →
    ReorderL (insertOn id x l) (insertOn id y l')
  | _, _, .nil => .cons hx .nil
  | _, _, .cons (a := a) (b := b) h1 h2 => by
    simp only [JoblibModel.HashStream.insertOn, id]
    have e := hx.pyCmp_eq h1
    by_cases c : pyCmp y b = some .lt
    · have c' : pyCmp x a = some .lt := e ▸ c
      simp only [c, c', if_true]
      exact .cons hx (.cons h1 h2)
    · have c' : ¬ pyCmp x a = some .lt := e ▸ c
      simp only [c, c', if_false]
      exact .cons h1 (ReorderL.insertOn hx h2)

theorem ReorderL.sortOn : ∀ {l l' : List PyVal}, ReorderL l l' → ReorderL (sortOn id l) (sortOn id l')
  | _, _, .nil => .nil
  | _, _, .cons h1 h2 => by
    simp only [JoblibModel.HashStream.sortOn]
    exact ReorderL.insertOn h1 (ReorderL.sortOn h2)

theorem ReorderL.strictOn : ∀ {l l' : List PyVal}, ReorderL l l' → StrictOn id l → StrictOn id l'
  | _, _, .nil, _ => List.Pairwise.nil
  | _, _, .cons (a := a) h1 h2, hs => by
    have hs' := List.pairwise_cons.mp hs
    refine List.pairwise_cons.mpr ⟨?_, ReorderL.strictOn h2 hs'.2⟩
    intro b hb
    obtain ⟨a', ha', h'⟩ := ReorderL.mem_left h2 b hb
    have := hs'.1 a' ha'
    simp only [id, StrictPair] at this ⊢
    rw [← h1.pyCmp_eq h']
    exact this

theorem ReorderD.mem_left : ∀ {l l' : List (PyVal × PyVal)}, ReorderD l l' →
    ∀ b ∈ l', ∃ a ∈ l, Reorder a.1 b.1 ∧ Reorder a.2 b.2
  | _, _, .nil, b, hb => by simp at hb
  | _, _, .cons (k := k) (v := v) h1 h2 h3, b, hb => by
    rcases List.mem_cons.mp hb with rfl | hb
    · exact ⟨(k, v), List.mem_cons_self, h1, h2⟩
    · obtain ⟨a', ha', h'⟩ := ReorderD.mem_left h3 b hb
      exact ⟨a', List.mem_cons_of_mem _ ha', h'⟩

theorem ReorderD.insertOn {x y : PyVal × PyVal} (hk : Reorder x.1 y.1) (hv : Reorder x.2 y.2) :
    ∀ {l l' : List (PyVal × PyVal)}, ReorderD l l' →
    ReorderD (insertOn Prod.fst x l) (insertOn Prod.fst y l')
  | _, _, .nil => by obtain ⟨a, b⟩ := x; obtain ⟨c, d⟩ := y; exact .cons hk hv .nil
  | _, _, .cons h1 h2 h3 => by
    obtain ⟨a, b⟩ := x; obtain ⟨c, d⟩ := y
    rename_i k k' v v' xs ys
    simp only [JoblibModel.HashStream.insertOn]
    have e := Reorder.pyCmp_eq hk h1
    simp only at e hk hv
    by_cases q : pyCmp c k' = some .lt
    · have q' : pyCmp a k = some .lt := e ▸ q
      simp only [q, q', if_true]
      exact .cons hk hv (.cons h1 h2 h3)
    · have q' : ¬ pyCmp a k = some .lt := e ▸ q
      simp only [q, q', if_false]
      exact .cons h1 h2 (ReorderD.insertOn (x := (a, b)) (y := (c, d)) hk hv h3)

theorem ReorderD.sortOn : ∀ {l l' : List (PyVal × PyVal)}, ReorderD l l' →
    ReorderD (sortOn Prod.fst l) (sortOn Prod.fst l')
  | _, _, .nil => .nil
  | _, _, .cons (k := k) (k' := k') (v := v) (v' := v') h1 h2 h3 => by
    simp only [JoblibModel.HashStream.sortOn]
    exact ReorderD.insertOn (x := (k, v)) (y := (k', v')) h1 h2 (ReorderD.sortOn h3)

theorem ReorderD.strictOn : ∀ {l l' : List (PyVal × PyVal)}, ReorderD l l' →
    StrictOn Prod.fst l → StrictOn Prod.fst l'
  | _, _, .nil, _ => List.Pairwise.nil
  | _, _, .cons h1 h2 h3, hs => by
    have hs' := List.pairwise_cons.mp hs
    refine List.pairwise_cons.mpr ⟨?_, ReorderD.strictOn h3 hs'.2⟩
    intro b hb
    obtain ⟨a', ha', h', _⟩ := ReorderD.mem_left h3 b hb
    have := hs'.1 a' ha'
    simp only [StrictPair] at this ⊢
    rw [← h1.pyCmp_eq h']
    exact this

theorem ReorderD.map_fst : ∀ {l l' : List (PyVal × PyVal)}, ReorderD l l' →
    ReorderL (l.map Prod.fst) (l'.map Prod.fst)
  | _, _, .nil => .nil
  | _, _, .cons h1 _ h3 => .cons h1 (ReorderD.map_fst h3)

/-! ### the encoder on related inputs -/

section congr
variable (e : PyVal → Memo → Bs × Memo)

theorem seqM_congr : ∀ {l l' : List PyVal}, ReorderL l l' →
    (∀ a ∈ l, ∀ b m, Reorder a b → e a m = e b m) → ∀ m, seqM e l m = seqM e l' m
  | _, _, .nil, _, _ => rfl
  | _, _, .cons (a := a) (as := as) h1 h2, he, m => by
    simp only [seqM]
    rw [he a List.mem_cons_self _ m h1,
      seqM_congr h2 (fun x hx => he x (List.mem_cons_of_mem _ hx))]

theorem seqKV_congr : ∀ {l l' : List (PyVal × PyVal)}, ReorderD l l' →
    (∀ kv ∈ l, ∀ b m, (Reorder kv.1 b → e kv.1 m = e b m) ∧ (Reorder kv.2 b → e kv.2 m = e b m)) →
    ∀ m, seqKV e l m = seqKV e l' m
  | _, _, .nil, _, _ => rfl
  | _, _, .cons (k := k) (v := v) h1 h2 h3, he, m => by
    simp only [seqKV]
    rw [(he (k, v) List.mem_cons_self _ m).1 h1, (he (k, v) List.mem_cons_self _ _).2 h2,
      seqKV_congr h3 (fun x hx => he x (List.mem_cons_of_mem _ hx))]

theorem saveList_congr {l l' : List PyVal} (h : ReorderL l l')
    (he : ∀ a ∈ l, ∀ b m, Reorder a b → e a m = e b m) (m : Memo) :
    saveList e l m = saveList e l' m := by
  simp only [saveList]; rw [seqM_congr e h he]

theorem saveTuple_congr {l l' : List PyVal} (h : ReorderL l l')
    (he : ∀ a ∈ l, ∀ b m, Reorder a b → e a m = e b m) (m : Memo) :
    saveTuple e l m = saveTuple e l' m := by
  have hlen := h.length_eq
  have hemp : l.isEmpty = l'.isEmpty := by
    cases h <;> rfl
  simp only [saveTuple]; rw [seqM_congr e h he, hlen, hemp]

theorem wrapper_congr (c : Cls) {l l' : List PyVal} (h : ReorderL l l')
    (he : ∀ a ∈ l, ∀ b m, Reorder a b → e a m = e b m) (m : Memo) :
    wrapper e c l m = wrapper e c l' m := by
  simp only [wrapper]; rw [saveList_congr e h he]

variable (H : Bs → Bs) (ver : Version)

theorem map_topOf_congr : ∀ {l l' : List PyVal}, ReorderL l l' →
    (∀ a ∈ l, ∀ b m, Reorder a b → e a m = e b m) → l.map (topOf H e) = l'.map (topOf H e)
  | _, _, .nil, _ => rfl
  | _, _, .cons (a := a) h1 h2, he => by
    simp only [List.map_cons]
    rw [map_topOf_congr h2 (fun x hx => he x (List.mem_cons_of_mem _ hx))]
    simp only [topOf]
    rw [he a List.mem_cons_self _ _ h1]

theorem keysOf_rel {l l' : List PyVal} (h : ReorderL l l')
    (he : ∀ a ∈ l, ∀ b m, Reorder a b → e a m = e b m) :
    ReorderL (keysOf H ver e l) (keysOf H ver e l') := by
  simp only [keysOf]
  rw [← h.orderable_eq ver]
  split
  · exact h
  · rw [map_topOf_congr e H h he]; exact ReorderL.refl _

theorem keysOf_perm {l l' : List PyVal} (p : l.Perm l') :
    (keysOf H ver e l).Perm (keysOf H ver e l') := by
  simp only [keysOf]
  rw [← orderable_perm ver p]
  split
  · exact p
  · exact p.map _

theorem keysOf_mem {l : List PyVal} {a : PyVal} (h : a ∈ keysOf H ver e l) :
    a ∈ l ∨ ∃ s, a = .str s := by
  simp only [keysOf] at h
  split at h
  · exact Or.inl h
  · obtain ⟨x, _, rfl⟩ := List.mem_map.mp h
    exact Or.inr ⟨_, rfl⟩

theorem map_item_congr : ∀ {l l' : List (PyVal × PyVal)}, ReorderD l l' →
    (∀ kv ∈ l, ∀ b m, Reorder kv.1 b → e kv.1 m = e b m) →
    ReorderD (l.map fun kv => (topOf H e kv.1, kv.2)) (l'.map fun kv => (topOf H e kv.1, kv.2))
  | _, _, .nil, _ => .nil
  | _, _, .cons (k := k) (v := v) h1 h2 h3, he => by
    simp only [List.map_cons]
    refine .cons ?_ h2 (map_item_congr h3 (fun x hx => he x (List.mem_cons_of_mem _ hx)))
    simp only [topOf]
    rw [he (k, v) List.mem_cons_self _ _ h1]
    exact Reorder.refl _

theorem itemsOf_rel {l l' : List (PyVal × PyVal)} (h : ReorderD l l')
    (he : ∀ kv ∈ l, ∀ b m, Reorder kv.1 b → e kv.1 m = e b m) :
    ReorderD (itemsOf H ver e l) (itemsOf H ver e l') := by
  simp only [itemsOf]
  rw [← h.map_fst.orderable_eq ver]
  split
  · exact h
  · exact map_item_congr e H h he

theorem itemsOf_perm {l l' : List (PyVal × PyVal)} (p : l.Perm l') :
    (itemsOf H ver e l).Perm (itemsOf H ver e l') := by
  simp only [itemsOf]
  rw [← orderable_perm ver (p.map Prod.fst)]
  split
  · exact p
  · exact p.map _

theorem itemsOf_mem {l : List (PyVal × PyVal)} {a : PyVal × PyVal} (h : a ∈ itemsOf H ver e l) :
    a ∈ l ∨ ∃ s, a.1 = .str s ∧ ∃ kv ∈ l, a.2 = kv.2 := by
  simp only [itemsOf] at h
  split at h
  · exact Or.inl h
  · obtain ⟨x, hx, rfl⟩ := List.mem_map.mp h
    exact Or.inr ⟨_, rfl, x, hx, rfl⟩

end congr

/-- `sorted` is well defined at every dict / set / frozenset node of the value (looked at `f` levels
deep): the things it sorts — the keys themselves, or their digests on the fallback path — are
pairwise comparable and pairwise different.  For a real Python value this says: on the fallback
path no two keys of one container have the same digest (no md5 collision among them); on the
direct path it always holds (keys of a dict / elements of a set are pairwise `!=`). -/
def KeysStrict (H : Bs → Bs) : Nat → PyVal → Prop
  | 0, _ => True
  | f + 1, v =>
    match v with
    | .list l => ∀ x ∈ l, KeysStrict H f x
    | .tuple l => ∀ x ∈ l, KeysStrict H f x
    | .set l => StrictOn id (keysOf H .fixed (encF H .fixed f) l) ∧ ∀ x ∈ l, KeysStrict H f x
    | .frozenset l => StrictOn id (keysOf H .fixed (encF H .fixed f) l) ∧ ∀ x ∈ l, KeysStrict H f x
    | .dict items => StrictOn Prod.fst (itemsOf H .fixed (encF H .fixed f) items) ∧
        ∀ kv ∈ items, KeysStrict H f kv.1 ∧ KeysStrict H f kv.2
    | _ => True

theorem str_reorder {s : Bs} {b : PyVal} (h : Reorder (.str s) b) : b = .str s := by cases h; rfl

/-- Main lemma: related values have the same stream (and leave the same memo), at every fuel. -/
theorem encF_reorder (H : Bs → Bs) : ∀ (f : Nat) (v w : PyVal) (m : Memo), Reorder v w →
    KeysStrict H f v → encF H .fixed f v m = encF H .fixed f w m := by
  intro f
  induction f with
  | zero => intro v w m _ _; simp [encF]
  | succ f ih =>
    intro v w m h hk
    have key : ∀ (l : List PyVal), (∀ x ∈ l, KeysStrict H f x) →
        ∀ a ∈ l, ∀ b m, Reorder a b → encF H .fixed f a m = encF H .fixed f b m :=
      fun l hl a ha b m hab => ih a b m hab (hl a ha)
    cases h with
    | none => rfl
    | bool b => rfl
    | int i => rfl
    | float x => rfl
    | str s => rfl
    | bytes s => rfl
    | list hl =>
      simp only [encF]
      exact saveList_congr _ hl (key _ hk) m
    | tuple hl =>
      simp only [encF]
      exact saveTuple_congr _ hl (key _ hk) m
    | @set l l' l'' hl hp =>
      simp only [encF]
      obtain ⟨hs, hmem⟩ := hk
      have he := key _ hmem
      have r1 := keysOf_rel (encF H .fixed f) H .fixed hl he
      have r2 := keysOf_perm (encF H .fixed f) H .fixed hp
      rw [← sortOn_perm_eq id r2 (r1.strictOn hs)]
      refine wrapper_congr _ _ r1.sortOn ?_ m
      intro a ha b m' hab
      rcases keysOf_mem _ H .fixed ((sortOn_perm id _).subset ha) with h1 | ⟨s, rfl⟩
      · exact he a h1 b m' hab
      · rw [str_reorder hab]
    | @frozenset l l' l'' hl hp =>
      simp only [encF]
      obtain ⟨hs, hmem⟩ := hk
      have he := key _ hmem
      have r1 := keysOf_rel (encF H .fixed f) H .fixed hl he
      have r2 := keysOf_perm (encF H .fixed f) H .fixed hp
      rw [← sortOn_perm_eq id r2 (r1.strictOn hs)]
      refine wrapper_congr _ _ r1.sortOn ?_ m
      intro a ha b m' hab
      rcases keysOf_mem _ H .fixed ((sortOn_perm id _).subset ha) with h1 | ⟨s, rfl⟩
      · exact he a h1 b m' hab
      · rw [str_reorder hab]
    | @dict l l' l'' hl hp =>
      simp only [encF]
      obtain ⟨hs, hmem⟩ := hk
      have hek : ∀ kv ∈ l, ∀ b m, Reorder kv.1 b → encF H .fixed f kv.1 m = encF H .fixed f b m :=
        fun kv hkv b m hab => ih _ b m hab (hmem kv hkv).1
      have r1 := itemsOf_rel (encF H .fixed f) H .fixed hl hek
      have r2 := itemsOf_perm (encF H .fixed f) H .fixed hp
      rw [← sortOn_perm_eq Prod.fst r2 (r1.strictOn hs)]
      rw [seqKV_congr _ r1.sortOn]
      intro kv hkv b m'
      rcases itemsOf_mem _ H .fixed ((sortOn_perm Prod.fst _).subset hkv) with h1 | ⟨s, hs1, kv', hkv', hs2⟩
      · exact ⟨fun hab => ih _ b m' hab (hmem kv h1).1, fun hab => ih _ b m' hab (hmem kv h1).2⟩
      · refine ⟨fun hab => ?_, fun hab => ?_⟩
        · rw [hs1] at hab ⊢; rw [str_reorder hab]
        · rw [hs2] at hab ⊢; exact ih _ b m' hab (hmem kv' hkv').2

/-! ## iteration orders (for `C08.encode_seed_free`) -/

mutual
/-- The value as another interpreter sees it: every set and frozenset iterates in the order
`iter` (a function of the string-hash seed and of the hash table's history) puts its elements. -/
def reiter (iter : List PyVal → List PyVal) : PyVal → PyVal
  | .list l => .list (reiterL iter l)
  | .tuple l => .tuple (reiterL iter l)
  | .set l => .set (iter (reiterL iter l))
  | .frozenset l => .frozenset (iter (reiterL iter l))
  | .dict l => .dict (reiterD iter l)
  | .none => .none
  | .bool b => .bool b
  | .int i => .int i
  | .float x => .float x
  | .str s => .str s
  | .bytes s => .bytes s
def reiterL (iter : List PyVal → List PyVal) : List PyVal → List PyVal
  | [] => []
  | x :: xs => reiter iter x :: reiterL iter xs
def reiterD (iter : List PyVal → List PyVal) : List (PyVal × PyVal) → List (PyVal × PyVal)
  | [] => []
  | (k, v) :: xs => (reiter iter k, reiter iter v) :: reiterD iter xs
end

mutual
theorem reorder_reiter (iter : List PyVal → List PyVal) (hit : ∀ l, (iter l).Perm l) :
    ∀ v : PyVal, Reorder v (reiter iter v)
  | .list l => by simp only [reiter]; exact .list (reorderL_reiter iter hit l)
  | .tuple l => by simp only [reiter]; exact .tuple (reorderL_reiter iter hit l)
  | .set l => by simp only [reiter]; exact .set (reorderL_reiter iter hit l) (hit _).symm
  | .frozenset l => by simp only [reiter]; exact .frozenset (reorderL_reiter iter hit l) (hit _).symm
  | .dict l => by simp only [reiter]; exact .dict (reorderD_reiter iter hit l) (List.Perm.refl _)
  | .none => .none
  | .bool b => .bool b
  | .int i => .int i
  | .float x => .float x
  | .str s => .str s
  | .bytes s => .bytes s
theorem reorderL_reiter (iter : List PyVal → List PyVal) (hit : ∀ l, (iter l).Perm l) :
    ∀ l : List PyVal, ReorderL l (reiterL iter l)
  | [] => .nil
  | x :: xs => by simp only [reiterL]; exact .cons (reorder_reiter iter hit x) (reorderL_reiter iter hit xs)
theorem reorderD_reiter (iter : List PyVal → List PyVal) (hit : ∀ l, (iter l).Perm l) :
    ∀ l : List (PyVal × PyVal), ReorderD l (reiterD iter l)
  | [] => .nil
  | (k, v) :: xs => by
    simp only [reiterD]
    exact .cons (reorder_reiter iter hit k) (reorder_reiter iter hit v) (reorderD_reiter iter hit xs)
end

/-- Number of objects the pickler memoises while hashing `v`. -/
def memoCount (H : Bs → Bs) (v : PyVal) : Nat := (encF H .fixed (depth v) v Memo.init).2.next

end JoblibModel.HashStream
