import JoblibModel.DumpLoad
/-! Helper lemmas for C03 (kept apart from the property theorems): list-prefix facts that lift the
finite table checks (`decide` over `Generated.Tables`) to every payload. -/
namespace JoblibModel.DumpLoad
open JoblibModel.Generated

/-- Two byte strings are comparable when one is a prefix of the other: exactly when some file starts with both. -/
def comparable (p q : Bytes) : Bool := p.isPrefixOf q || q.isPrefixOf p

theorem isPrefixOf_iff {p b : Bytes} : p.isPrefixOf b = true ↔ p <+: b := by
  simp

theorem isPrefixOf_take (p b : Bytes) (n : Nat) (h : p.length ≤ n) :
    p.isPrefixOf (b.take n) = p.isPrefixOf b := by
  induction p generalizing b n with
  | nil => simp
  | cons x xs ih =>
    cases b with
    | nil => simp
    | cons y ys =>
      cases n with
      | zero => simp at h
      | succ n =>
        simp only [List.take_succ_cons, List.isPrefixOf]
        rw [ih ys n (by simpa using h)]

/-- Two prefixes of one string are comparable. -/
theorem comparable_of_common {p q b : Bytes} (hp : p.isPrefixOf b = true) (hq : q.isPrefixOf b = true) :
    comparable p q = true := by
  rw [isPrefixOf_iff] at hp hq
  unfold comparable
  rcases List.prefix_or_prefix_of_prefix hp hq with h | h
  · simp [isPrefixOf_iff.mpr h]
  · simp [isPrefixOf_iff.mpr h]

theorem isPrefixOf_append_self (p rest : Bytes) : p.isPrefixOf (p ++ rest) = true := by
  rw [isPrefixOf_iff]; exact List.prefix_append p rest

/-- The sniffing loop returns the (name of the) only entry whose prefix the file starts with. -/
theorem detectIn_unique (L : List CompressorEntry) (b : Bytes) (c : CompressorEntry) (hc : c ∈ L)
    (hstart : startsWith b c.pfx = true)
    (honly : ∀ c' ∈ L, startsWith b c'.pfx = true → c'.name = c.name) :
    detectIn b L = .method c.name := by
  induction L with
  | nil => simp at hc
  | cons d ds ih =>
    unfold detectIn
    by_cases hd : startsWith b d.pfx = true
    · simp [hd, honly d (by simp) hd]
    · simp only [hd]
      rcases List.mem_cons.mp hc with rfl | hc'
      · exact absurd hstart hd
      · exact ih hc' (fun c' hc'' h => honly c' (List.mem_cons_of_mem _ hc'') h)

/-- The sniffing loop finds nothing when the file starts with no prefix of the table. -/
theorem detectIn_none (L : List CompressorEntry) (b : Bytes)
    (hno : ∀ c' ∈ L, startsWith b c'.pfx = false) : detectIn b L = .notCompressed := by
  induction L with
  | nil => rfl
  | cons d ds ih =>
    unfold detectIn
    simp only [hno d (by simp)]
    exact ih (fun c' hc' => hno c' (List.mem_cons_of_mem _ hc'))

/-- A file that starts like a pickle and with byte string `p`: then `p` is flagged by the table-level test. -/
theorem mayStart_of_prefix (p b : Bytes) (hb : isPickleStart b = true) (hp : p.isPrefixOf b = true) :
    prefixMayStartPickle p = true := by
  cases p with
  | nil => rfl
  | cons p0 ps =>
    cases b with
    | nil => simp at hp
    | cons b0 bs =>
      simp only [List.isPrefixOf, Bool.and_eq_true, beq_iff_eq] at hp
      obtain ⟨h0, hps⟩ := hp
      subst h0
      cases ps with
      | nil =>
        cases bs with
        | nil => simp [isPickleStart] at hb; simp [prefixMayStartPickle, hb]
        | cons b1 bs' =>
          simp only [isPickleStart, Bool.or_eq_true, Bool.and_eq_true] at hb
          simp only [prefixMayStartPickle, Bool.or_eq_true, Bool.and_eq_true, and_true]
          rcases hb with (h | h) | h
          · exact Or.inl (Or.inl h.1)
          · exact Or.inl (Or.inr h)
          · exact Or.inr h.1
      | cons p1 ps' =>
        cases bs with
        | nil => simp at hps
        | cons b1 bs' =>
          simp only [List.isPrefixOf, Bool.and_eq_true, beq_iff_eq] at hps
          obtain ⟨h1, _⟩ := hps
          subst h1
          simpa [isPickleStart, prefixMayStartPickle] using hb

/-- `max` over a list bounds every member. -/
theorem le_foldl_max (l : List Nat) (a x : Nat) (h : x ∈ l ∨ x ≤ a) : x ≤ l.foldl max a := by
  induction l generalizing a with
  | nil => simpa using h
  | cons y ys ih =>
    simp only [List.foldl_cons]
    apply ih
    rcases h with h | h
    · rcases List.mem_cons.mp h with rfl | h'
      · exact Or.inr (Nat.le_max_right _ _)
      · exact Or.inl h'
    · exact Or.inr (Nat.le_trans h (Nat.le_max_left _ _))

/-- Every table prefix, and the compat prefix, fits in the `max_prefix_len` bytes that are read. -/
theorem pfx_le_max (c : CompressorEntry) (hc : c ∈ compressors) : c.pfx.length ≤ maxPrefixLen := by
  unfold maxPrefixLen
  apply le_foldl_max
  left
  simp only [List.mem_append, List.mem_map]
  exact Or.inl ⟨c, hc, rfl⟩

theorem zf_le_max : zfilePrefix.length ≤ maxPrefixLen := by
  unfold maxPrefixLen
  apply le_foldl_max
  left
  simp

theorem detectIn_take (L : List CompressorEntry) (b : Bytes) (n : Nat)
    (h : ∀ c ∈ L, c.pfx.length ≤ n) : detectIn (b.take n) L = detectIn b L := by
  induction L with
  | nil => rfl
  | cons d ds ih =>
    unfold detectIn startsWith
    rw [isPrefixOf_take d.pfx b n (h d (by simp)), ih (fun c hc => h c (List.mem_cons_of_mem _ hc))]

/-- Reading `max_prefix_len` bytes (or peeking more) is the same as testing the prefixes on the whole file. -/
theorem detect_eq (file : Bytes) :
    detect file = if startsWith file zfilePrefix then .compat else detectIn file compressors := by
  unfold detect startsWith
  simp only []
  rw [isPrefixOf_take zfilePrefix file maxPrefixLen zf_le_max,
    detectIn_take compressors file maxPrefixLen pfx_le_max]

theorem lookup_some_of_registered (s : String) (h : registered s = true) :
    ∃ c, lookup s = some c ∧ c ∈ compressors ∧ c.name = s := by
  unfold registered at h
  unfold lookup
  rw [List.any_eq_true] at h
  obtain ⟨c, hc, hn⟩ := h
  cases hf : compressors.find? (fun c => c.name == s) with
  | none =>
    rw [List.find?_eq_none] at hf
    exact absurd hn (hf c hc)
  | some d =>
    refine ⟨d, rfl, List.mem_of_find?_eq_some hf, ?_⟩
    have := List.find?_some hf
    simpa using this

theorem lookup_mem (s : String) (c : CompressorEntry) (h : lookup s = some c) :
    c ∈ compressors ∧ c.name = s := by
  unfold lookup at h
  exact ⟨List.mem_of_find?_eq_some h, by simpa using List.find?_some h⟩

/-- The extension loop only ever yields registered names (or what it started from). -/
theorem extLoop_mem (fname : String) (L : List CompressorEntry) (acc : Option String) (m : String)
    (h : extLoop fname L acc = some m) : acc = some m ∨ ∃ c ∈ L, c.name = m ∧ endsWith fname c.ext = true := by
  induction L generalizing acc with
  | nil => left; simpa [extLoop] using h
  | cons d ds ih =>
    unfold extLoop at h
    rcases ih _ h with h' | ⟨c, hc, hn, he⟩
    · by_cases hd : endsWith fname d.ext = true
      · simp only [hd, if_true] at h'
        right; exact ⟨d, by simp, by simpa using h', hd⟩
      · simp only [hd] at h'
        left; simpa using h'
    · right; exact ⟨c, List.mem_cons_of_mem _ hc, hn, he⟩

theorem registered_of_mem (c : CompressorEntry) (hc : c ∈ compressors) : registered c.name = true := by
  unfold registered
  rw [List.any_eq_true]
  exact ⟨c, hc, by simp⟩

theorem extMethod_registered (fname m : String) (h : extMethod fname = some m) : registered m = true := by
  unfold extMethod at h
  rcases extLoop_mem fname compressors none m h with h' | ⟨c, hc, hn, _⟩
  · simp at h'
  · rw [← hn]; exact registered_of_mem c hc

/-- If exactly the entries named `n` match the file name, the loop returns `n`. -/
theorem extLoop_unique (fname : String) (L : List CompressorEntry) (acc : Option String) (n : String)
    (hex : (∃ c ∈ L, endsWith fname c.ext = true) ∨ acc = some n)
    (honly : ∀ c ∈ L, endsWith fname c.ext = true → c.name = n) :
    extLoop fname L acc = some n := by
  induction L generalizing acc with
  | nil =>
    rcases hex with ⟨c, hc, _⟩ | h
    · simp at hc
    · simpa [extLoop] using h
  | cons d ds ih =>
    unfold extLoop
    apply ih
    · by_cases hd : endsWith fname d.ext = true
      · right; simp [hd, honly d (by simp) hd]
      · rcases hex with ⟨c, hc, he⟩ | h
        · rcases List.mem_cons.mp hc with rfl | hc'
          · exact absurd he hd
          · left; exact ⟨c, hc', he⟩
        · right; simp [hd, h]
    · exact fun c hc he => honly c (List.mem_cons_of_mem _ hc) he

theorem extLoop_none (fname : String) (L : List CompressorEntry)
    (hno : ∀ c ∈ L, endsWith fname c.ext = false) : extLoop fname L none = none := by
  induction L with
  | nil => rfl
  | cons d ds ih =>
    unfold extLoop
    simp only [hno d (by simp)]
    exact ih (fun c hc => hno c (List.mem_cons_of_mem _ hc))

/-! ### acceptance specification of `dump`'s compress argument (used by `C03.resolve_total`) and the
pieces of the ladder -/

/-- Whatever `dump` ends up writing through is a registered, available compressor. -/
theorem writer_codec_registered (r : Resolved) (n : String) (l : Option Nat)
    (h : writer r = .ok (.codec n l)) : ∃ c ∈ compressors, c.name = n ∧ c.available = true := by
  unfold writer at h
  split at h
  · cases h
  · simp only [] at h
    split at h
    · cases h
    · rename_i c hl
      obtain ⟨hmem, hname⟩ := lookup_mem _ c hl
      split at h
      · cases h
      · rename_i hav
        have hav' : c.available = true := by simpa using hav
        refine ⟨c, hmem, ?_, hav'⟩
        split at h
        · cases h; exact hname
        · cases h; exact hname
        · cases h; exact hname
        · split at h
          · cases h
          · cases h; exact hname
        · cases h

/-- Level values `dump` accepts: `None`, a bool, an integer 0…9 (an integral float 0.0…9.0 passes `dump`'s
own test too — `3.0 in range(10)` — and is rejected later by the codec's file object, see `writer_float`). -/
def LevelOK : PyLevel → Bool
  | .none => true
  | .bool _ => true
  | .int n => decide (0 ≤ n) && decide (n < 10)
  | .float n => decide (0 ≤ n) && decide (n < 10)
  | .other => false

/-- Method names `dump` accepts: registered, and not `"lz4"` while the lz4 package is missing. -/
def MethodOK (s : String) : Bool := registered s && !(s == "lz4" && !lz4Installed)

/-- The compress arguments `dump` accepts. -/
def ArgOK : CompressArg → Bool
  | .val l => LevelOK l
  | .str s => MethodOK s
  | .tuple2 (.str s) l => MethodOK s && LevelOK l
  | .tuple2 _ _ => false
  | .tupleN _ => false

theorem levelBad_eq (l : PyLevel) : levelBad l = !LevelOK l := by
  cases l with
  | bool b => cases b <;> simp [levelBad, LevelOK, PyLevel.inRange10]
  | _ => simp [levelBad, LevelOK, PyLevel.inRange10]

theorem finish_ok (name : String) (l : PyLevel) (t : Bool) (filename : Target) :
    (∃ r, finish name l t filename = .ok r) ↔ filename ≠ .other := by
  cases filename with
  | other => simp [finish]
  | fileobj => simp [finish]
  | path f =>
    simp only [finish, ne_eq, reduceCtorEq, not_false_eq_true, iff_true]
    split
    · exact ⟨_, rfl⟩
    · split <;> exact ⟨_, rfl⟩

theorem finish_error (name : String) (l : PyLevel) (t : Bool) (filename : Target) (e : Err)
    (hf : finish name l t filename = .error e) : e = .valueError := by
  cases filename with
  | other => simp [finish] at hf; exact hf.symm
  | fileobj => simp [finish] at hf
  | path f =>
    simp only [finish] at hf
    split at hf
    · cases hf
    · split at hf <;> cases hf

theorem str_beq (s : String) : (PyMethod.str s == PyMethod.str "lz4") = (s == "lz4") := by
  by_cases h : s = "lz4"
  · subst h; rfl
  · have h1 : (PyMethod.str s == PyMethod.str "lz4") = false := by
      rw [beq_eq_false_iff_ne]; intro hh; cases hh; exact h rfl
    have h2 : (s == "lz4") = false := by rw [beq_eq_false_iff_ne]; exact h
    rw [h1, h2]

/-- the tail of the ladder for a method STRING -/
theorem resolveTail_str_ok (s : String) (l : PyLevel) (t : Bool) (filename : Target) :
    (∃ r, resolveTail (.str s) l t filename = .ok r)
    ↔ (MethodOK s = true ∧ LevelOK l = true ∧ filename ≠ .other) := by
  unfold resolveTail
  rw [str_beq, levelBad_eq]
  unfold MethodOK checkMethod
  by_cases h4 : (s == "lz4" && !lz4Installed) = true
  · simp [h4]
  · by_cases hl : LevelOK l = true
    · by_cases hr : registered s = true
      · have h4' : (s == "lz4" && !lz4Installed) = false := by simpa using h4
        simp only [h4', hl, hr, Bool.not_true, Bool.false_eq_true, if_false, if_true, Bool.not_false,
          Bool.and_self, true_and]
        exact finish_ok _ _ _ _
      · simp [h4, hl, hr]
    · simp [h4, hl]

theorem resolveTail_str_error (s : String) (l : PyLevel) (t : Bool) (filename : Target) (e : Err)
    (ht : resolveTail (.str s) l t filename = .error e) : e = .valueError := by
  unfold resolveTail at ht
  split at ht
  · cases ht; rfl
  · split at ht
    · cases ht; rfl
    · simp only [checkMethod] at ht
      by_cases hr : registered s = true
      · simp only [hr, if_true] at ht
        exact finish_error _ _ _ _ _ ht
      · simp only [hr, Bool.false_eq_true, if_false] at ht
        cases ht; rfl

theorem resolve_val (l : PyLevel) (filename : Target) :
    resolve (.val l) filename
      = resolveTail (.str "zlib") (if l = .bool true then .none else l) false filename := by
  cases l with
  | bool b => cases b <;> simp [resolve, parseArg]
  | _ => simp [resolve, parseArg]

theorem resolveTail_level (m : PyMethod) (l : PyLevel) (tgt : Target) (r : Resolved)
    (hr : resolveTail m l true tgt = .ok r) : r.level = l := by
  unfold resolveTail at hr
  split at hr
  · cases hr
  · split at hr
    · cases hr
    · split at hr
      · cases hr
      · cases tgt with
        | other => simp [finish] at hr
        | fileobj => simp [finish] at hr; rw [← hr]
        | path f => simp [finish] at hr; rw [← hr]

end JoblibModel.DumpLoad
