import JoblibModel.ZFileLegacy
/-! Helper lemmas for the legacy Z-file reader (`readZfile`), used by `JoblibProofs/C14.lean`. -/
namespace JoblibModel.ZFileLegacy
open JoblibModel.ZlibFile (Bytes LoadClass)

/-- The law of `zlib.decompress` on the zlib stream `z` of the data `p` (HYPOTHESIS about CPython's zlib, probed):
the whole stream, whatever follows it, gives `p`; a strict prefix (the empty one included) raises `zlib.error`;
the first byte of a zlib stream is never a space (RFC 6713 §2.1, what `read_zfile` relies on). -/
structure ZValid (D : Bytes → Option Bytes) (z p : Bytes) : Prop where
  whole : ∀ t, D (z ++ t) = some p
  prefix_raises : ∀ k, k < z.length → D (z.take k) = none
  nonempty : z ≠ []
  not_space : z.head? ≠ some 0x20

/-- The bytes between the prefix and the zlib stream: the length field, followed by one more space in the
wide header of python 2 / joblib <= 0.8.4. -/
def pad (wide : Bool) : Bytes := if wide then [0x20] else []

/-- A legacy file: `b"ZF" ++ field ++ [b" "] ++ z`. -/
def legacyFile (field : Bytes) (wide : Bool) (z : Bytes) : Bytes :=
  (ZFILE_PREFIX ++ field) ++ (pad wide ++ z)

theorem header_len {field : Bytes} (hf : field.length = MAX_LEN) :
    (ZFILE_PREFIX ++ field).length = HEADER_LENGTH := by
  simp [ZFILE_PREFIX, hf, MAX_LEN, HEADER_LENGTH]

/-- `read_zfile` on a file that holds the complete header followed by `rest`. -/
theorem readZfile_full_header (D : Bytes → Option Bytes) {field : Bytes} (hf : field.length = MAX_LEN)
    (n : Nat) (hp : pyIntHex field = some (n : Int)) (rest : Bytes) :
    readZfile D ((ZFILE_PREFIX ++ field) ++ rest) =
      match D (rest.drop (if rest.take 1 = [0x20] then 1 else 0)) with
      | none => .error .zlibError
      | some data => if data.length = n then .ok data else .error .assertionError := by
  have hl := header_len hf
  have h1 : ((ZFILE_PREFIX ++ field) ++ rest).take HEADER_LENGTH = ZFILE_PREFIX ++ field := by
    rw [← hl]; exact List.take_left
  have h2 : ((ZFILE_PREFIX ++ field) ++ rest).drop HEADER_LENGTH = rest := by
    rw [← hl]; exact List.drop_left
  have h3 : (ZFILE_PREFIX ++ field).drop ZFILE_PREFIX.length = field := List.drop_left
  have h4 : ((ZFILE_PREFIX ++ field) ++ rest).drop (HEADER_LENGTH + 1) = rest.drop 1 := by
    rw [← List.drop_drop, h2]
  unfold readZfile
  simp only [h1, h2, h3, hp]
  have hn : ¬ ((n : Int) < 0) := by omega
  simp only [hn, if_false]
  by_cases hs : rest.take 1 = [0x20]
  · simp only [hs, if_true, h4]
    cases D (rest.drop 1) <;> simp [Int.natCast_inj]
  · simp only [hs, if_false, h2, List.drop_zero]
    cases D rest <;> simp [Int.natCast_inj]

/-- `read_zfile` on a file cut inside (or right after) the header: whatever the cut length field parses to,
the zlib payload is empty and the call raises. -/
theorem readZfile_short (D : Bytes → Option Bytes) (hD : D [] = none) (file : Bytes)
    (hlen : file.length ≤ HEADER_LENGTH) : ∃ e, readZfile D file = .error e := by
  have h2 : file.drop HEADER_LENGTH = [] := List.drop_eq_nil_of_le hlen
  have h3 : file.drop (HEADER_LENGTH + 1) = [] := List.drop_eq_nil_of_le (by omega)
  have hne : ¬ (([] : Bytes) = [0x20]) := by simp
  simp only [readZfile, h2, List.take_nil, hne, if_false, hD]
  split
  · exact ⟨_, rfl⟩
  · split
    · exact ⟨_, rfl⟩
    · exact ⟨_, rfl⟩

theorem take_one_of_head {z : Bytes} (hne : z ≠ []) (hns : z.head? ≠ some 0x20) (m : Nat) (hm : 0 < m) :
    (z.take m).take 1 ≠ [0x20] := by
  cases z with
  | nil => exact absurd rfl hne
  | cons a r =>
    cases m with
    | zero => omega
    | succ m =>
      simp only [List.take_succ_cons, List.take_zero]
      intro h
      apply hns
      simp only [List.head?_cons]
      have : a = 0x20 := by simpa using h
      rw [this]

end JoblibModel.ZFileLegacy
