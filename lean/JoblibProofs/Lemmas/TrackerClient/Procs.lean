import JoblibProofs.Lemmas.TrackerClient.Leaves
/-! Preservation of the invariants by what the worker processes do (finalizers, exit, kill, lost pickles) and by the
shutdown of an executor. -/
set_option linter.unusedSimpArgs false
set_option linter.unusedVariables false
namespace JoblibModel.TrackerClient
open JoblibModel.Tracker

attribute [local irreducible] send

/-! ### pending finalizers -/

/-- The files whose `MAYBE_UNLINK` the finalizers of `l` will send. -/
def pendOf (l : List Holding) : List FileKey := (l.filter (·.tracked)).map (·.f)

/-- `Inv` while finalizers are pending: the memmaps are gone already, their references not yet given back. -/
structure InvP (cfg : Cfg) (s : State) (pend : List FileKey) : Prop where
  wire : Wire s
  fold : Fold s
  users : Users s.toClient
  cnt : s.dup = false →
    (∀ f, lookup (s.reg.get .file) f.name = enc (trackedUsers s.toClient f + pend.count f)) ∧ s.bad = []
  fix : cfg.fix = true → Fix s

theorem InvP.toInv {cfg : Cfg} {s : State} (h : InvP cfg s []) : Inv cfg s :=
  ⟨h.wire, h.fold, h.users, fun hd => ⟨by simpa using (h.cnt hd).1, (h.cnt hd).2⟩, h.fix⟩

theorem invP_send_mu {cfg : Cfg} {s : State} {pend : List FileKey} (f : FileKey) (h : InvP cfg s (f :: pend)) :
    InvP cfg (send s .maybeUnlink .file f.name) pend := by
  refine ⟨wire_sendFile h.wire _ f, fold_send_file h.fold _ f, by rw [send_toClient]; exact h.users, ?_, ?_⟩
  · intro hd
    obtain ⟨hj, hb⟩ := h.cnt (by simpa using hd)
    have hlk : lookup (s.reg.get .file) f.name = enc (trackedUsers s.toClient f + pend.count f + 1) := by
      rw [hj f]; simp [List.count_cons]; rfl
    refine ⟨?_, ?_⟩
    · intro g
      rw [send_toClient]
      by_cases hg : g = f
      · subst hg
        rw [send_lookup_same _ _ _ _ g.name_ascii h.wire.distinct, hlk, execAt_mu_enc_succ]
      · rw [send_lookup_other _ _ _ _ f.name_ascii _ _ (by simp; exact fun e => hg (FileKey.name_inj e)), hj g]
        have : (f :: pend).count g = pend.count g := by
          rw [List.count_cons]; simp [Ne.symm hg]
        rw [this]
    · rw [(send_mu_file s f.name f.name_ascii).2]
      split
      · rename_i h1
        rw [hlk, enc_eq_some_one'] at h1
        rw [hb, List.nil_append, List.filter_eq_nil_iff]
        intro g _
        simp only [Bool.and_eq_true, decide_eq_true_eq, not_and, Nat.not_lt, Nat.le_zero]
        intro e
        have := FileKey.name_inj e
        subst this
        have := liveUsers_le_tracked s.toClient g
        omega
      · exact hb
  · intro hfx
    have hF := h.fix hfx
    refine ⟨?_, ?_, ?_⟩
    · intro g hg
      rw [send_toClient]
      exact hF.x1 g (send_files_sub s _ _ f.name_ascii g hg)
    · intro W hW hsd g hg
      rw [send_toClient] at hW ⊢
      exact hF.x2 W hW hsd g hg
    · simpa using hF.x0

theorem invP_finalizers {cfg : Cfg} (l : List Holding) :
    ∀ s : State, InvP cfg s (pendOf l) → Inv cfg (l.foldl sendFinalizer s) := by
  induction l with
  | nil => intro s h; exact h.toInv
  | cons a r ih =>
    intro s h
    simp only [List.foldl_cons]
    apply ih
    unfold sendFinalizer
    by_cases ht : a.tracked = true
    · rw [if_pos ht]
      apply invP_send_mu
      have : pendOf (a :: r) = a.f :: pendOf r := by simp [pendOf, List.filter_cons, ht]
      rw [← this]; exact h
    · rw [if_neg ht]
      have : pendOf (a :: r) = pendOf r := by simp [pendOf, List.filter_cons, ht]
      rw [← this]; exact h

theorem frame_sendFinalizer (s : State) (a : Holding) : Frame s (sendFinalizer s a) := by
  unfold sendFinalizer
  split
  · refine ⟨by simp, by simp, by simp, by simp, by simp, fun m => by simp, by simp, by simp, ?_, ?_,
      fun m g hg => by simpa using hg, by simp, by simp, by simp⟩
    · rw [send_dirs_file _ _ _ a.f.name_ascii]
    · intro g hg; exact send_files_sub s _ _ a.f.name_ascii g hg
  · exact Frame.refl s

theorem frame_finalizers (l : List Holding) (s : State) : Frame s (l.foldl sendFinalizer s) := by
  induction l generalizing s with
  | nil => exact Frame.refl s
  | cons a r ih => exact (frame_sendFinalizer s a).trans (ih _)

/-! ### counting users when a worker leaves -/

/-- The registered worker-side users split between what stays and what a leaving set takes away. -/
theorem holdings_split (l : List Holding) (q : Holding → Bool) (f : FileKey) :
    (l.filter (fun h => !q h)).countP (fun h => decide (h.f = f) && h.tracked)
      + ((l.filter (fun h => q h && h.tracked)).map (·.f)).count f
      = l.countP (fun h => decide (h.f = f) && h.tracked) := by
  rw [count_map_filter, ← countP_split l q (fun h => decide (h.f = f) && h.tracked)]
  congr 1
  apply List.countP_congr
  intro h _
  simp only [Bool.and_eq_true, decide_eq_true_eq]
  constructor
  · rintro ⟨⟨a, b⟩, c⟩; exact ⟨a, c, b⟩
  · rintro ⟨a, c, b⟩; exact ⟨⟨a, b⟩, c⟩

theorem inflight_split (l : List Pickle) (q : Pickle → Bool) (f : FileKey) :
    (l.filter (fun h => !q h)).countP (fun h => decide (h.f = f) && h.tracked)
      + ((l.filter (fun h => q h && h.tracked)).map (·.f)).count f
      = l.countP (fun h => decide (h.f = f) && h.tracked) := by
  rw [count_map_filter, ← countP_split l q (fun h => decide (h.f = f) && h.tracked)]
  congr 1
  apply List.countP_congr
  intro h _
  simp only [Bool.and_eq_true, decide_eq_true_eq]
  constructor
  · rintro ⟨⟨a, b⟩, c⟩; exact ⟨a, c, b⟩
  · rintro ⟨a, c, b⟩; exact ⟨⟨a, b⟩, c⟩

/-- Marking child `c` dead keeps `held` for the memmaps of the other children. -/
theorem held_after_leave {c : Client} (h : Users c) (k : Nat) :
    ∀ x ∈ c.holdings.filter (fun h => h.child ≠ k), ∃ ch,
      (updAt c.children k (fun ch => { ch with alive := false }))[x.child]? = some ch ∧ ch.alive = true ∧
        ch.mgr = x.f.m := by
  intro x hx
  rw [List.mem_filter] at hx
  obtain ⟨ch, h1, h2, h3⟩ := h.held x hx.1
  refine ⟨ch, ?_, h2, h3⟩
  rw [getElem?_updAt, if_neg (by simpa using hx.2)]
  exact h1

/-! ### a worker exits, is killed; pickles are lost -/

/-- The state of `exitChild` before the finalizers run. -/
def preExit (s : State) (c : Nat) : State :=
  { s with holdings := s.holdings.filter (fun h => h.child ≠ c),
           children := updAt s.children c (fun ch => { ch with alive := false }) }

theorem exitChild_eq (s : State) (c : Nat) :
    exitChild s c = (s.holdings.filter (fun h => h.child = c)).foldl sendFinalizer (preExit s c) := rfl

theorem ne_filter_eq (l : List Holding) (c : Nat) :
    l.filter (fun h => h.child ≠ c) = l.filter (fun h => !decide (h.child = c)) := by
  congr 1; funext h; simp

theorem inv_exitChild {cfg : Cfg} {s : State} (h : Inv cfg s) (c : Nat) : Inv cfg (exitChild s c) := by
  rw [exitChild_eq]
  apply invP_finalizers
  refine ⟨wire_of_eq h.wire rfl rfl, fold_of_eq h.fold rfl rfl rfl (fun m => rfl) rfl, ?_, ?_, ?_⟩
  · exact ⟨held_after_leave h.users c, h.users.i4, h.users.i4b, h.users.x3⟩
  · intro hd
    have hc := h.cnt hd
    refine ⟨?_, hc.b⟩
    intro f
    show lookup (s.reg.get .file) f.name = _
    rw [hc.j1 f]
    congr 1
    have := holdings_split s.holdings (fun h => decide (h.child = c)) f
    simp only [trackedUsers, trackedWorkerUsers, preExit, pendOf, ne_filter_eq, List.filter_filter]
    simp only [Bool.and_comm] at this ⊢
    omega
  · intro hf
    exact fix_of_eq (h.fix hf) rfl rfl (fun m => rfl) rfl rfl

theorem frame_exitChild (s : State) (c : Nat) :
    (exitChild s c).inflight = s.inflight ∧ (exitChild s c).workers = s.workers ∧
    (exitChild s c).managers = s.managers ∧ (exitChild s c).parentAlive = s.parentAlive ∧
    (exitChild s c).atexit = s.atexit ∧ (exitChild s c).executor = s.executor ∧
    (exitChild s c).backend = s.backend ∧ (exitChild s c).executorArgs = s.executorArgs ∧
    (exitChild s c).children = updAt s.children c (fun ch => { ch with alive := false }) ∧
    (exitChild s c).holdings = s.holdings.filter (fun h => h.child ≠ c) := by
  rw [exitChild_eq]
  have hf := frame_finalizers (s.holdings.filter (fun h => h.child = c)) (preExit s c)
  refine ⟨hf.inflight, hf.workers, ?_, hf.pa, hf.atexit, hf.executor, hf.backend, hf.executorArgs, hf.children,
    hf.holdings⟩
  generalize (s.holdings.filter (fun h => h.child = c)) = l
  generalize hp : preExit s c = t
  have : t.managers = s.managers := by subst hp; rfl
  rw [← this]
  clear hp this hf
  induction l generalizing t with
  | nil => rfl
  | cons a r ih =>
    simp only [List.foldl_cons]
    rw [ih]
    unfold sendFinalizer; split <;> simp

theorem inv_killChild {cfg : Cfg} {s : State} (h : Inv cfg s) (c : Nat) : Inv cfg (killChild s c) := by
  unfold killChild
  refine ⟨wire_of_eq h.wire rfl rfl, fold_of_eq h.fold rfl rfl rfl (fun m => rfl) rfl, ?_, ?_, ?_⟩
  · exact ⟨held_after_leave h.users c, h.users.i4, h.users.i4b, h.users.x3⟩
  · intro hd
    have hc := h.cnt hd
    refine ⟨?_, hc.b⟩
    intro f
    show lookup (s.reg.get .file) f.name = _
    rw [hc.j1 f]
    congr 1
    have := holdings_split s.holdings (fun h => decide (h.child = c)) f
    simp only [trackedUsers, trackedWorkerUsers, ne_filter_eq, List.count_append]
    have e : (s.holdings.filter (fun h => decide (h.child = c ∧ h.tracked = true)))
        = s.holdings.filter (fun h => decide (h.child = c) && h.tracked) := by
      congr 1; funext h; simp
    rw [e]
    omega
  · intro hf
    exact fix_of_eq (h.fix hf) rfl rfl (fun m => rfl) rfl rfl

theorem inv_endChild {cfg : Cfg} {s : State} (h : Inv cfg s) (c : Nat) (kill : Bool) :
    Inv cfg (endChild s c kill) := by
  unfold endChild
  split
  · exact inv_killChild h c
  · exact inv_exitChild h c

theorem inv_endChildren {cfg : Cfg} {s : State} (h : Inv cfg s) (cs : List Nat) (kill : Bool) :
    Inv cfg (endChildren s cs kill) := by
  unfold endChildren
  exact foldl_inv (P := Inv cfg) _ _ _ (fun s c _ hs => inv_endChild hs c kill) h

theorem inv_dropInflight {cfg : Cfg} {s : State} (h : Inv cfg s) (p : Pickle → Bool) :
    Inv cfg (dropInflight s p) := by
  unfold dropInflight
  refine ⟨wire_of_eq h.wire rfl rfl, fold_of_eq h.fold rfl rfl rfl (fun m => rfl) rfl, ?_, ?_, ?_⟩
  · exact ⟨h.users.held, h.users.i4, h.users.i4b, h.users.x3⟩
  · intro hd
    have hc := h.cnt hd
    refine ⟨?_, hc.b⟩
    intro f
    show lookup (s.reg.get .file) f.name = _
    rw [hc.j1 f]
    congr 1
    have := inflight_split s.inflight p f
    simp only [trackedUsers, trackedWorkerUsers, List.count_append]
    have e : (s.inflight.filter (fun q => decide (p q = true ∧ q.tracked = true)))
        = s.inflight.filter (fun q => p q && q.tracked) := by
      congr 1; funext h; simp
    rw [e]
    omega
  · intro hf
    exact fix_of_eq (h.fix hf) rfl rfl (fun m => rfl) rfl rfl

/-! ### the workers of an executor leave -/

def markDead (ch : Child) : Child := { ch with alive := false }

theorem endChild_children (s : State) (c : Nat) (kill : Bool) :
    (endChild s c kill).children = updAt s.children c markDead := by
  unfold endChild
  split
  · rfl
  · exact (frame_exitChild s c).2.2.2.2.2.2.2.2.1

theorem endChildren_children (cs : List Nat) (s : State) (kill : Bool) :
    (endChildren s cs kill).children = cs.foldl (fun l c => updAt l c markDead) s.children := by
  unfold endChildren
  induction cs generalizing s with
  | nil => rfl
  | cons a r ih => simp only [List.foldl_cons]; rw [ih, endChild_children]

theorem children_after (cs : List Nat) (l : List Child) (j : Nat) (ch : Child)
    (h : (cs.foldl (fun l c => updAt l c markDead) l)[j]? = some ch) :
    (j ∈ cs → ch.alive = false) ∧ ∃ ch0, l[j]? = some ch0 ∧ ch0.mgr = ch.mgr ∧ (ch.alive = true → ch0.alive = true) := by
  induction cs generalizing l with
  | nil => exact ⟨by simp, ch, h, rfl, id⟩
  | cons a r ih =>
    simp only [List.foldl_cons] at h
    obtain ⟨h1, ch1, h2, h3, h4⟩ := ih _ h
    rw [getElem?_updAt] at h2
    by_cases e : j = a
    · subst e
      simp only [if_true] at h2
      cases hl : l[j]? with
      | none => simp [hl] at h2
      | some c0 =>
        simp only [hl, Option.map_some, Option.some.injEq] at h2
        subst h2
        refine ⟨fun _ => ?_, c0, rfl, h3, fun ha => ?_⟩
        · cases hb : ch.alive with
          | false => rfl
          | true => have := h4 hb; simp [markDead] at this
        · have := h4 ha; simp [markDead] at this
    · simp only [e, if_false] at h2
      refine ⟨fun hm => ?_, ch1, h2, h3, h4⟩
      rcases List.mem_cons.mp hm with hm | hm
      · exact absurd hm e
      · exact h1 hm

theorem mem_liveChildren {c : Client} {p : Child → Bool} {j : Nat} :
    j ∈ liveChildren c p ↔ ∃ ch, c.children[j]? = some ch ∧ ch.alive = true ∧ p ch = true := by
  unfold liveChildren
  rw [List.mem_filter, List.mem_range]
  constructor
  · rintro ⟨hj, hm⟩
    cases hc : c.children[j]? with
    | none => simp [hc] at hm
    | some ch => simp only [hc, Bool.and_eq_true] at hm; exact ⟨ch, rfl, hm.1, hm.2⟩
  · rintro ⟨ch, hc, ha, hp⟩
    refine ⟨(List.getElem?_eq_some_iff.mp hc).1, ?_⟩
    simp [hc, ha, hp]

theorem frame_endChild (s : State) (c : Nat) (kill : Bool) :
    (endChild s c kill).inflight = s.inflight ∧ (endChild s c kill).workers = s.workers ∧
    (endChild s c kill).managers = s.managers ∧ (endChild s c kill).parentAlive = s.parentAlive ∧
    (endChild s c kill).atexit = s.atexit ∧ (endChild s c kill).executor = s.executor ∧
    (endChild s c kill).backend = s.backend ∧ (endChild s c kill).executorArgs = s.executorArgs := by
  unfold endChild
  split
  · exact ⟨rfl, rfl, rfl, rfl, rfl, rfl, rfl, rfl⟩
  · obtain ⟨a, b, c1, d, e, f, g, h, _, _⟩ := frame_exitChild s c
    exact ⟨a, b, c1, d, e, f, g, h⟩

theorem frame_endChildren (cs : List Nat) (s : State) (kill : Bool) :
    (endChildren s cs kill).inflight = s.inflight ∧ (endChildren s cs kill).workers = s.workers ∧
    (endChildren s cs kill).managers = s.managers ∧ (endChildren s cs kill).parentAlive = s.parentAlive ∧
    (endChildren s cs kill).atexit = s.atexit ∧ (endChildren s cs kill).executor = s.executor ∧
    (endChildren s cs kill).backend = s.backend ∧ (endChildren s cs kill).executorArgs = s.executorArgs := by
  unfold endChildren
  induction cs generalizing s with
  | nil => exact ⟨rfl, rfl, rfl, rfl, rfl, rfl, rfl, rfl⟩
  | cons a r ih =>
    simp only [List.foldl_cons]
    obtain ⟨a1, a2, a3, a4, a5, a6, a7, a8⟩ := ih (endChild s a kill)
    obtain ⟨b1, b2, b3, b4, b5, b6, b7, b8⟩ := frame_endChild s a kill
    exact ⟨a1.trans b1, a2.trans b2, a3.trans b3, a4.trans b4, a5.trans b5, a6.trans b6, a7.trans b7, a8.trans b8⟩

theorem inv_endWorkers {cfg : Cfg} {s : State} (h : Inv cfg s) (m : Nat) (kill : Bool) :
    Inv cfg (endWorkers s m kill) := inv_dropInflight (inv_endChildren h _ kill) _

/-- After the workers of manager `m` have left, nobody on the worker side uses a file of `m`. -/
theorem noUsers_endWorkers {cfg : Cfg} {s : State} (h : Inv cfg s) (m : Nat) (kill : Bool) :
    NoUsers (endWorkers s m kill).toClient m := by
  unfold endWorkers
  generalize hcs : liveChildren s.toClient (fun ch => decide (ch.mgr = m)) = cs
  have hinv := inv_endChildren h cs kill
  have hch := endChildren_children cs s kill
  generalize endChildren s cs kill = t at hinv hch
  refine ⟨?_, ?_⟩
  · intro p hp
    have : p ∈ t.inflight.filter (fun q => !decide (q.f.m = m)) := hp
    simpa using (List.mem_filter.mp this).2
  · intro x hx
    have hx' : x ∈ t.holdings := hx
    obtain ⟨ch, h1, h2, h3⟩ := hinv.users.held x hx'
    intro e
    rw [hch] at h1
    obtain ⟨g1, ch0, g2, g3, g4⟩ := children_after cs s.children x.child ch h1
    have : x.child ∈ cs := by
      rw [← hcs, mem_liveChildren]
      exact ⟨ch0, g2, g4 h2, by simp [g3, h3, e]⟩
    have := g1 this
    rw [h2] at this; exact absurd this (by simp)

theorem frame_endWorkers (s : State) (m : Nat) (kill : Bool) :
    (endWorkers s m kill).workers = s.workers ∧ (endWorkers s m kill).managers = s.managers ∧
    (endWorkers s m kill).parentAlive = s.parentAlive ∧ (endWorkers s m kill).atexit = s.atexit ∧
    (endWorkers s m kill).executor = s.executor ∧ (endWorkers s m kill).backend = s.backend ∧
    (endWorkers s m kill).executorArgs = s.executorArgs := by
  unfold endWorkers
  obtain ⟨_, a2, a3, a4, a5, a6, a7, a8⟩ := frame_endChildren (liveChildren s.toClient fun ch => decide (ch.mgr = m)) s kill
  exact ⟨a2, a3, a4, a5, a6, a7, a8⟩

/-! ### the shutdown flag; new executors and pools -/

theorem map_updAt_preserve {α β : Type} (l : List α) (i : Nat) (f : α → α) (g : α → β) (h : ∀ x, g (f x) = g x) :
    (updAt l i f).map g = l.map g := by
  induction l generalizing i with
  | nil => rfl
  | cons a r ih => cases i <;> simp [updAt, h, ih]

theorem nodup_map_index {α β : Type} (l : List α) (g : α → β) (hn : (l.map g).Nodup) (i j : Nat) (a b : α)
    (hi : l[i]? = some a) (hj : l[j]? = some b) (e : g a = g b) : i = j := by
  induction l generalizing i j with
  | nil => simp at hi
  | cons x r ih =>
    rw [List.map_cons, List.nodup_cons] at hn
    cases i with
    | zero =>
      cases j with
      | zero => rfl
      | succ j =>
        simp at hi hj; subst hi
        exact absurd (List.mem_map.mpr ⟨b, List.mem_of_getElem? hj, e.symm⟩) hn.1
    | succ i =>
      cases j with
      | zero =>
        simp at hi hj; subst hj
        exact absurd (List.mem_map.mpr ⟨a, List.mem_of_getElem? hi, e⟩) hn.1
      | succ j =>
        simp at hi hj
        rw [ih hn.2 i j hi hj]

def setShutdown (W : Workers) : Workers := { W with shutdown := true }

theorem inv_setShutdown {cfg : Cfg} {s : State} (h : Inv cfg s) (w : Nat) :
    Inv cfg { s with workers := updAt s.workers w setShutdown } := by
  refine ⟨wire_of_eq h.wire rfl rfl, fold_of_eq h.fold rfl rfl rfl (fun m => rfl) rfl, ⟨h.users.held, ?_, ?_, ?_⟩, ?_, ?_⟩
  · show ((updAt s.workers w setShutdown).map (·.mgr)).Nodup
    rw [map_updAt_preserve s.workers w setShutdown (·.mgr) (fun x => rfl)]; exact h.users.i4
  · intro W hW
    rcases mem_updAt hW with hW | ⟨y, hy, rfl⟩
    · exact h.users.i4b W hW
    · exact h.users.i4b y (List.mem_of_getElem? hy)
  · intro W hW f hf
    rcases mem_updAt hW with hW | ⟨y, hy, rfl⟩
    · exact h.users.x3 W hW f hf
    · exact h.users.x3 y (List.mem_of_getElem? hy) f hf
  · intro hd
    exact cnt_of_eq (h.cnt hd) (fun f => rfl) (fun f => trackedUsers_congr rfl rfl rfl rfl f) rfl
  · intro hf
    have hF := h.fix hf
    refine ⟨hF.x1, ?_, hF.x0⟩
    intro W hW hsd f hf
    rcases mem_updAt hW with hW | ⟨y, hy, rfl⟩
    · exact hF.x2 W hW hsd f hf
    · simp [setShutdown] at hsd

theorem shutdownWorkers_eq (s : State) (w : Nat) (kill : Bool) :
    shutdownWorkers s w kill =
      match s.workers[w]? with
      | none => s
      | some W => { (endWorkers s W.mgr kill) with workers := updAt (endWorkers s W.mgr kill).workers w setShutdown } :=
  rfl

theorem inv_shutdownWorkers {cfg : Cfg} {s : State} (h : Inv cfg s) (w : Nat) (kill : Bool) :
    Inv cfg (shutdownWorkers s w kill) := by
  rw [shutdownWorkers_eq]
  split
  · exact h
  · exact inv_setShutdown (inv_endWorkers h _ kill) w

theorem noUsers_shutdownWorkers {cfg : Cfg} {s : State} (h : Inv cfg s) (w : Nat) (kill : Bool) (W : Workers)
    (hW : s.workers[w]? = some W) : NoUsers (shutdownWorkers s w kill).toClient W.mgr := by
  rw [shutdownWorkers_eq, hW]
  exact noUsers_endWorkers h W.mgr kill

theorem mgrDown_shutdownWorkers {cfg : Cfg} {s : State} (h : Inv cfg s) (w : Nat) (kill : Bool) (W : Workers)
    (hW : s.workers[w]? = some W) : MgrDown (shutdownWorkers s w kill).toClient W.mgr := by
  rw [shutdownWorkers_eq, hW]
  intro W' hW' hm
  have hw : (endWorkers s W.mgr kill).workers = s.workers := (frame_endWorkers s W.mgr kill).1
  have hW'' : W' ∈ updAt s.workers w setShutdown := by rw [← hw]; exact hW'
  obtain ⟨j, hj⟩ := List.getElem?_of_mem hW''
  rw [getElem?_updAt] at hj
  by_cases e : j = w
  · subst e; simp [hW] at hj; subst hj; rfl
  · simp only [e, if_false] at hj
    exact absurd (nodup_map_index s.workers (·.mgr) h.users.i4 j w W' W hj hW hm) e

theorem frame_shutdownWorkers (s : State) (w : Nat) (kill : Bool) :
    (shutdownWorkers s w kill).managers = s.managers ∧
    (shutdownWorkers s w kill).parentAlive = s.parentAlive ∧ (shutdownWorkers s w kill).atexit = s.atexit ∧
    (shutdownWorkers s w kill).executor = s.executor ∧ (shutdownWorkers s w kill).backend = s.backend ∧
    (shutdownWorkers s w kill).executorArgs = s.executorArgs ∧
    (shutdownWorkers s w kill).workers.length = s.workers.length := by
  rw [shutdownWorkers_eq]
  split
  · exact ⟨rfl, rfl, rfl, rfl, rfl, rfl, rfl⟩
  · rename_i W hW
    obtain ⟨a1, a2, a3, a4, a5, a6, a7⟩ := frame_endWorkers s W.mgr kill
    exact ⟨a2, a3, a4, a5, a6, a7, by simp [updAt_length, a1]⟩

end JoblibModel.TrackerClient
