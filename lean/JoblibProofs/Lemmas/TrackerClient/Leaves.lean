import JoblibProofs.Lemmas.TrackerClient.Inv
/-! Preservation of the invariants by the small functions of the client model, one by one. -/
set_option linter.unusedSimpArgs false
set_option linter.unusedVariables false
namespace JoblibModel.TrackerClient
open JoblibModel.Tracker

attribute [local irreducible] send

/-- Whatever keeps the tracker, the disk, the pipe and the fields the invariants look at keeps the invariants
(the manager list may grow). -/
theorem inv_congr {cfg : Cfg} {s t : State} (h : Inv cfg s) (hreg : t.reg = s.reg) (hdisk : t.disk = s.disk)
    (hsent : t.sent = s.sent) (hbad : t.bad = s.bad) (hpa : t.parentAlive = s.parentAlive)
    (hc : ∀ m, cachedOf t.toClient m = cachedOf s.toClient m)
    (hr : ∀ m, releasedOf t.toClient m = releasedOf s.toClient m) (hat : t.atexit = s.atexit)
    (hh : t.holdings = s.holdings) (hch : t.children = s.children) (hw : t.workers = s.workers)
    (hml : s.managers.length ≤ t.managers.length) (he : t.extra = s.extra) (hi : t.inflight = s.inflight)
    (hl : t.leaked = s.leaked) (hdup : t.dup = s.dup) : Inv cfg t := by
  refine ⟨wire_of_eq h.wire hreg hsent, ⟨?_, ?_, ?_, ?_, ?_⟩, ⟨?_, ?_, ?_, ?_⟩, ?_, ?_⟩
  · intro hp m ctx hcx; rw [hreg]; exact h.fold.f1 (hpa ▸ hp) m ctx (hc m ▸ hcx)
  · intro d hd; rw [hreg]; exact h.fold.f2 d (hdisk ▸ hd)
  · intro f hf; rw [hdisk]; exact h.fold.f3 f (hdisk ▸ hf)
  · intro hp d hd; rw [hat]; exact h.fold.f4 (hpa ▸ hp) d (hdisk ▸ hd)
  · intro hp m ctx hcx; rw [hat]; exact h.fold.f5 (hpa ▸ hp) m ctx (hc m ▸ hcx)
  · rw [hh, hch]; exact h.users.held
  · rw [hw]; exact h.users.i4
  · rw [hw]; intro W hW; exact Nat.lt_of_lt_of_le (h.users.i4b W hW) hml
  · rw [hw]; exact h.users.x3
  · intro hd
    exact cnt_of_eq (h.cnt (hdup ▸ hd)) (fun f => by rw [hreg]) (fun f => trackedUsers_congr he hi hh hl f) hbad
  · intro hf
    exact fix_of_eq (h.fix hf) (by rw [hdisk]) he hr hw hdup

/-! ### `register_new_context`, `set_current_context`, a new manager -/

theorem lookup_register_ne_none (s : State) (d : FolderKey) (hd : s.reg.Distinct) (n : Name)
    (h : lookup (s.reg.get .folder) n ≠ none ∨ n = d.name) :
    lookup ((send s .register .folder d.name).reg.get .folder) n ≠ none := by
  by_cases e : n = d.name
  · subst e
    rw [send_lookup_same _ _ _ _ d.name_ascii hd]
    cases lookup (s.reg.get .folder) d.name <;> simp [execAt]
  · rw [send_lookup_other _ _ _ _ d.name_ascii _ _ (by simp [e])]
    rcases h with h | h
    · exact h
    · exact absurd h e

theorem inv_registerNewContext {cfg : Cfg} {s : State} (h : Inv cfg s) (m ctx : Nat) :
    Inv cfg (registerNewContext s m ctx) := by
  unfold registerNewContext
  split
  · exact h
  · rename_i hnc
    have e := send_folder_disk s .register (FolderKey.mk m ctx).name (FolderKey.mk m ctx).name_ascii (by simp)
    refine ⟨?_, ⟨?_, ?_, ?_, ?_, ?_⟩, ?_, ?_, ?_⟩
    · exact wire_of_eq (wire_sendFolder h.wire .register ⟨m, ctx⟩) rfl rfl
    · intro hp m' ctx' hc
      apply lookup_register_ne_none s ⟨m, ctx⟩ h.wire.distinct
      simp only [cachedOf_eq, send_toClient] at hc
      rcases mem_cachedL_updAt_append hc with h1 | ⟨rfl, rfl⟩
      · exact Or.inl (h.fold.f1 (by simpa using hp) m' ctx' h1)
      · exact Or.inr rfl
    · intro x hx
      apply lookup_register_ne_none s ⟨m, ctx⟩ h.wire.distinct
      have : x ∈ s.disk.dirs := by
        have : x ∈ (send s .register .folder (FolderKey.mk m ctx).name).disk.dirs := hx
        rwa [e] at this
      exact Or.inl (h.fold.f2 x this)
    · intro f hf
      have hf' : f ∈ (send s .register .folder (FolderKey.mk m ctx).name).disk.files := hf
      rw [e] at hf'
      show f.folder ∈ (send s .register .folder (FolderKey.mk m ctx).name).disk.dirs
      rw [e]; exact h.fold.f3 f hf'
    · intro hp x hx
      have hx' : x ∈ (send s .register .folder (FolderKey.mk m ctx).name).disk.dirs := hx
      rw [e] at hx'
      have := h.fold.f4 (by simpa using hp) x hx'
      show x ∈ (send s .register .folder (FolderKey.mk m ctx).name).atexit ++ [⟨m, ctx⟩]
      exact List.mem_append_left _ (by simpa using this)
    · intro hp m' ctx' hc
      show FolderKey.mk m' ctx' ∈ (send s .register .folder (FolderKey.mk m ctx).name).atexit ++ [⟨m, ctx⟩]
      simp only [cachedOf_eq, send_toClient] at hc
      rcases mem_cachedL_updAt_append hc with h1 | ⟨rfl, rfl⟩
      · have := h.fold.f5 (by simpa using hp) m' ctx' h1
        exact List.mem_append_left _ (by simpa using this)
      · exact List.mem_append_right _ (List.mem_singleton.mpr rfl)
    · exact users_of_eq h.users (by simp) (by simp) (by simp) (by simp [updAt_length])
    · intro hd
      exact cnt_of_eq (cnt_send_folder (h.cnt (by simpa using hd)) .register ⟨m, ctx⟩ (by simp)) (fun f => rfl)
        (fun f => trackedUsers_congr rfl rfl rfl rfl f) rfl
    · intro hf
      refine fix_of_eq (fix_send_folder (h.fix hf) .register ⟨m, ctx⟩ (by simp)) rfl rfl ?_ rfl rfl
      intro m'
      simp only [releasedOf_eq, send_toClient]
      exact releasedL_updAt_same _ m (fun M => { M with cached := M.cached ++ [ctx] }) (fun M => rfl) m'

theorem inv_setCurrentContext {cfg : Cfg} {s : State} (h : Inv cfg s) (m ctx : Nat) :
    Inv cfg (setCurrentContext s m ctx) := by
  unfold setCurrentContext
  apply inv_registerNewContext
  refine inv_congr h rfl rfl rfl rfl rfl ?_ ?_ rfl rfl rfl rfl ?_ rfl rfl rfl rfl
  · intro m'; simp only [cachedOf_eq]
    exact cachedL_updAt_same _ m (fun M => { M with current := ctx }) (fun M => rfl) m'
  · intro m'; simp only [releasedOf_eq]
    exact releasedL_updAt_same _ m (fun M => { M with current := ctx }) (fun M => rfl) m'
  · simp [updAt_length]

theorem inv_newManager {cfg : Cfg} {s : State} (h : Inv cfg s) : Inv cfg (newManager s) := by
  unfold newManager
  apply inv_setCurrentContext
  refine inv_congr h rfl rfl rfl rfl rfl ?_ ?_ rfl rfl rfl rfl ?_ rfl rfl rfl rfl
  · intro m'; simp only [cachedOf_eq]
    rw [cachedL_append_new]
    split
    · rename_i e; subst e; simp [cachedL]
    · rfl
  · intro m'; simp only [releasedOf_eq]
    rw [releasedL_append_new]
    split
    · rename_i e; subst e; simp [releasedL]
    · rfl
  · simp

/-! ### the clean-up's `maybe_unlink` of one file -/

theorem execAt_mu_enc_succ (k : Nat) : execAt .maybeUnlink (enc (k + 1)) = enc k := by
  rw [execAt_enc]; simp [absAt]

theorem enc_eq_some_one' (k : Nat) : enc k = some 1 ↔ k = 1 := enc_eq_some_one k

/-- The state just before `releaseExtra` writes its request. -/
def preRelease (s : State) (m : Nat) (f : FileKey) : State :=
  { s with dup := s.dup || decide (f ∉ s.extra), extra := s.extra.erase f,
           managers := updAt s.managers m (fun M => { M with released := f :: M.released }) }

theorem releaseExtra_eq (cfg : Cfg) (s : State) (m : Nat) (f : FileKey) :
    releaseExtra cfg s m f =
      if cfg.fix && decide (f ∈ releasedOf s.toClient m) then s
      else send (preRelease s m f) .maybeUnlink .file f.name := rfl

theorem inv_releaseExtra {cfg : Cfg} {s : State} (h : Inv cfg s) (m : Nat) (f : FileKey) (hm : f.m = m)
    (hlen : m < s.managers.length)
    (hdisk : cfg.fix = true → f ∈ s.disk.files ∨ f ∈ releasedOf s.toClient m) :
    Inv cfg (releaseExtra cfg s m f) := by
  rw [releaseExtra_eq]
  split
  · exact h
  · rename_i hskip
    generalize hs' : preRelease s m f = s'
    unfold preRelease at hs'
    have hreg : s'.reg = s.reg := by subst hs'; rfl
    have hdisk' : s'.disk = s.disk := by subst hs'; rfl
    have hbad' : s'.bad = s.bad := by subst hs'; rfl
    have hextra : s'.extra = s.extra.erase f := by subst hs'; rfl
    have hdup : s'.dup = (s.dup || decide (f ∉ s.extra)) := by subst hs'; rfl
    have hcached : ∀ m', cachedOf s'.toClient m' = cachedOf s.toClient m' := by
      subst hs'; intro m'; simp only [cachedOf_eq]
      exact cachedL_updAt_same _ m (fun M => { M with released := f :: M.released }) (fun M => rfl) m'
    have hrel_sup : ∀ m' g, g ∈ releasedOf s.toClient m' → g ∈ releasedOf s'.toClient m' := by
      subst hs'; intro m' g hg; simp only [releasedOf_eq] at hg ⊢; exact mem_releasedL_updAt_cons hg
    have hrel_self : f ∈ releasedOf s'.toClient m := by
      subst hs'; simp only [releasedOf_eq]; exact releasedL_updAt_cons_self hlen
    have hwire : Wire s' := wire_of_eq h.wire hreg (by subst hs'; rfl)
    have hfold : Fold s' := fold_of_eq h.fold hreg hdisk' (by subst hs'; rfl) hcached (by subst hs'; rfl)
    have husers : Users s'.toClient :=
      users_of_eq h.users (by subst hs'; rfl) (by subst hs'; rfl) (by subst hs'; rfl)
        (by subst hs'; simp [updAt_length])
    have htu : ∀ g, g ≠ f → trackedUsers s'.toClient g = trackedUsers s.toClient g := by
      intro g hg
      have : (s.extra.erase f).count g = s.extra.count g := List.count_erase_of_ne hg
      subst hs'; simp [trackedUsers, trackedWorkerUsers, this]
    have htf : f ∈ s.extra → trackedUsers s'.toClient f + 1 = trackedUsers s.toClient f := by
      intro hf
      have h1 : (s.extra.erase f).count f = s.extra.count f - 1 := by simp [List.count_erase_self]
      have h2 : 0 < s.extra.count f := List.count_pos_iff.mpr hf
      subst hs'; simp only [trackedUsers, trackedWorkerUsers, h1]; omega
    refine ⟨wire_sendFile hwire _ f, fold_send_file hfold _ f, ?_, ?_, ?_⟩
    · rw [send_toClient]; exact husers
    · intro hd
      rw [show (send s' .maybeUnlink .file f.name).dup = s'.dup by simp, hdup] at hd
      simp only [Bool.or_eq_false_iff, decide_eq_false_iff_not, Decidable.not_not] at hd
      obtain ⟨hd0, hfe⟩ := hd
      have hc := h.cnt hd0
      have hlk : lookup (s'.reg.get .file) f.name = enc (trackedUsers s'.toClient f + 1) := by
        rw [hreg, hc.j1 f, htf hfe]
      refine ⟨?_, ?_⟩
      · intro g
        rw [send_toClient]
        by_cases hg : g = f
        · subst hg
          rw [send_lookup_same _ _ _ _ g.name_ascii hwire.distinct, hlk, execAt_mu_enc_succ]
        · rw [send_lookup_other _ _ _ _ f.name_ascii _ _ (by simp; exact fun e => hg (FileKey.name_inj e)),
            hreg, hc.j1 g, htu g hg]
      · rw [(send_mu_file s' f.name f.name_ascii).2]
        split
        · rename_i h1
          rw [hlk, enc_eq_some_one'] at h1
          have h0 : trackedUsers s'.toClient f = 0 := by omega
          rw [hbad', hc.b, List.nil_append, List.filter_eq_nil_iff]
          intro g _
          simp only [Bool.and_eq_true, decide_eq_true_eq, not_and, Nat.not_lt, Nat.le_zero]
          intro e
          have := FileKey.name_inj e
          subst this
          have := liveUsers_le_tracked s'.toClient g
          omega
        · rw [hbad', hc.b]
    · intro hfx
      have hF := h.fix hfx
      have hnr : f ∉ releasedOf s.toClient m := by
        intro hr; apply hskip; simp [hfx, hr]
      have hfd : f ∈ s.disk.files := by
        rcases hdisk hfx with h1 | h1
        · exact h1
        · exact absurd h1 hnr
      have hfe : f ∈ s.extra := by
        rcases hF.x1 f hfd with h1 | h1
        · exact h1
        · rw [hm] at h1; exact absurd h1 hnr
      have key : ∀ g, (g ∈ s.extra ∨ g ∈ releasedOf s.toClient g.m) →
          (g ∈ s'.extra ∨ g ∈ releasedOf s'.toClient g.m) := by
        intro g hg
        by_cases e : g = f
        · subst e; rw [hm]; exact Or.inr hrel_self
        · rcases hg with hg | hg
          · left; rw [hextra]; exact (List.mem_erase_of_ne e).mpr hg
          · right; exact hrel_sup _ _ hg
      refine ⟨?_, ?_, ?_⟩
      · intro g hg
        rw [send_toClient]
        have : g ∈ s.disk.files := by
          have := send_files_sub s' _ _ f.name_ascii g hg
          rwa [hdisk'] at this
        exact key g (hF.x1 g this)
      · intro W hW hsd g hg
        rw [send_toClient] at hW ⊢
        have hW' : W ∈ s.workers := by subst hs'; exact hW
        exact key g (hF.x2 W hW' hsd g hg)
      · rw [show (send s' .maybeUnlink .file f.name).dup = s'.dup by simp, hdup, hF.x0]
        simp [hfe]

/-! ### what the clean-up loop leaves alone -/

/-- `t` differs from `s` only by requests about files and what they entail (ghost fields, `released`, files removed). -/
structure Frame (s t : State) : Prop where
  inflight : t.inflight = s.inflight
  holdings : t.holdings = s.holdings
  children : t.children = s.children
  workers : t.workers = s.workers
  mlen : t.managers.length = s.managers.length
  cached : ∀ m, cachedOf t.toClient m = cachedOf s.toClient m
  pa : t.parentAlive = s.parentAlive
  atexit : t.atexit = s.atexit
  dirs : t.disk.dirs = s.disk.dirs
  files : ∀ g ∈ t.disk.files, g ∈ s.disk.files
  released : ∀ m g, g ∈ releasedOf s.toClient m → g ∈ releasedOf t.toClient m
  executor : t.executor = s.executor
  backend : t.backend = s.backend
  executorArgs : t.executorArgs = s.executorArgs

theorem Frame.refl (s : State) : Frame s s :=
  ⟨rfl, rfl, rfl, rfl, rfl, fun _ => rfl, rfl, rfl, rfl, fun _ h => h, fun _ _ h => h, rfl, rfl, rfl⟩

theorem Frame.trans {s t u : State} (h1 : Frame s t) (h2 : Frame t u) : Frame s u :=
  ⟨h2.inflight.trans h1.inflight, h2.holdings.trans h1.holdings, h2.children.trans h1.children,
   h2.workers.trans h1.workers, h2.mlen.trans h1.mlen, fun m => (h2.cached m).trans (h1.cached m),
   h2.pa.trans h1.pa, h2.atexit.trans h1.atexit, h2.dirs.trans h1.dirs,
   fun g hg => h1.files g (h2.files g hg), fun m g hg => h2.released m g (h1.released m g hg),
   h2.executor.trans h1.executor, h2.backend.trans h1.backend, h2.executorArgs.trans h1.executorArgs⟩

theorem Frame.noUsers {s t : State} (h : Frame s t) {m : Nat} (hn : NoUsers s.toClient m) : NoUsers t.toClient m := by
  unfold NoUsers; rw [h.inflight, h.holdings]; exact hn

theorem Frame.mgrDown {s t : State} (h : Frame s t) {m : Nat} (hn : MgrDown s.toClient m) : MgrDown t.toClient m := by
  unfold MgrDown; rw [h.workers]; exact hn

theorem frame_releaseExtra (cfg : Cfg) (s : State) (m : Nat) (f : FileKey) : Frame s (releaseExtra cfg s m f) := by
  rw [releaseExtra_eq]
  split
  · exact Frame.refl s
  · refine ⟨by simp [preRelease], by simp [preRelease], by simp [preRelease], by simp [preRelease],
      by simp [preRelease, updAt_length], ?_, by simp [preRelease], by simp [preRelease], ?_, ?_, ?_,
      by simp [preRelease], by simp [preRelease], by simp [preRelease]⟩
    · intro m'; simp only [cachedOf_eq, send_toClient, preRelease]
      exact cachedL_updAt_same _ m (fun M => { M with released := f :: M.released }) (fun M => rfl) m'
    · rw [send_dirs_file _ _ _ f.name_ascii]; rfl
    · intro g hg; exact send_files_sub (preRelease s m f) _ _ f.name_ascii g hg
    · intro m' g hg; simp only [releasedOf_eq, send_toClient, preRelease] at hg ⊢
      exact mem_releasedL_updAt_cons hg

theorem frame_forceUnregister (s : State) (f : FileKey) : Frame s (forceUnregister s f) := by
  unfold forceUnregister
  refine ⟨by simp, by simp, by simp, by simp, by simp, fun m => by simp [cachedOf_eq], by simp, by simp, ?_, ?_,
    fun m g hg => by simpa [releasedOf_eq] using hg, by simp, by simp, by simp⟩
  · rw [send_dirs_file _ _ _ f.name_ascii]
  · intro g hg
    exact send_files_sub { s with extra := s.extra.filter (fun g => g ≠ f), leaked := s.leaked.filter (fun g => g ≠ f) }
      _ _ f.name_ascii g hg

theorem frame_cleanFile (cfg : Cfg) (m : Nat) (force : Bool) (s : State) (f : FileKey) :
    Frame s (cleanFile cfg m force s f) := by
  unfold cleanFile
  split
  · exact frame_forceUnregister s f
  · exact frame_releaseExtra cfg s m f

theorem frame_foldl_cleanFile (cfg : Cfg) (m : Nat) (force : Bool) (l : List FileKey) (s : State) :
    Frame s (l.foldl (cleanFile cfg m force) s) := by
  induction l generalizing s with
  | nil => exact Frame.refl s
  | cons a r ih => exact (frame_cleanFile cfg m force s a).trans (ih _)

/-- A file listed for the loop is still there (or already released) when its turn comes. -/
theorem releaseExtra_keeps (cfg : Cfg) (s : State) (m : Nat) (g f : FileKey) (hlen : m < s.managers.length)
    (h : f ∈ s.disk.files ∨ f ∈ releasedOf s.toClient m) :
    f ∈ (releaseExtra cfg s m g).disk.files ∨ f ∈ releasedOf (releaseExtra cfg s m g).toClient m := by
  rw [releaseExtra_eq]
  split
  · exact h
  · by_cases e : f = g
    · subst e; right
      simp only [releasedOf_eq, send_toClient, preRelease]
      exact releasedL_updAt_cons_self hlen
    · rcases h with h | h
      · left
        exact send_files_keep (preRelease s m g) _ _ g.name_ascii f (fun hn => e (FileKey.name_inj hn)) h
      · right
        simp only [releasedOf_eq, send_toClient, preRelease] at h ⊢
        exact mem_releasedL_updAt_cons h

theorem inv_releaseLoop {cfg : Cfg} (m : Nat) (l : List FileKey) :
    ∀ s : State, Inv cfg s → m < s.managers.length →
      (∀ f ∈ l, f.m = m ∧ (f ∈ s.disk.files ∨ f ∈ releasedOf s.toClient m)) →
      Inv cfg (l.foldl (cleanFile cfg m false) s) := by
  induction l with
  | nil => intro s h _ _; exact h
  | cons a r ih =>
    intro s h hlen hl
    simp only [List.foldl_cons]
    have ha := hl a (List.mem_cons_self ..)
    have e : cleanFile cfg m false s a = releaseExtra cfg s m a := by simp [cleanFile]
    rw [e]
    apply ih
    · exact inv_releaseExtra h m a ha.1 hlen (fun _ => ha.2)
    · rw [(frame_releaseExtra cfg s m a).mlen]; exact hlen
    · intro f hf
      have := hl f (List.mem_cons_of_mem _ hf)
      exact ⟨this.1, releaseExtra_keeps cfg s m a f hlen this.2⟩

/-! ### `delete_folder` succeeded: the folder is removed and forgotten -/

theorem mem_rmtree_dirs {d : Disk} {n : Name} {x : FolderKey} : x ∈ (d.rmtree n).dirs ↔ x ∈ d.dirs ∧ x.name ≠ n := by
  simp [Disk.rmtree, List.mem_filter]

theorem mem_rmtree_files {d : Disk} {n : Name} {g : FileKey} :
    g ∈ (d.rmtree n).files ↔ g ∈ d.files ∧ g.folder.name ≠ n := by
  simp [Disk.rmtree, List.mem_filter]

theorem workerUsers_zero_of_noUsers {c : Client} {m : Nat} (hn : NoUsers c m) (g : FileKey) (hg : g.m = m) :
    workerUsers c g = 0 := by
  unfold workerUsers
  have h1 : c.inflight.countP (fun p => decide (p.f = g)) = 0 := by
    rw [List.countP_eq_zero]; intro p hp; simp only [decide_eq_true_eq]; intro e
    exact hn.1 p hp (by rw [e, hg])
  have h2 : c.holdings.countP (fun h => decide (h.f = g)) = 0 := by
    rw [List.countP_eq_zero]; intro p hp; simp only [decide_eq_true_eq]; intro e
    exact hn.2 p hp (by rw [e, hg])
  omega

theorem trackedWorkerUsers_le (c : Client) (g : FileKey) : trackedWorkerUsers c g ≤ workerUsers c g := by
  unfold trackedWorkerUsers workerUsers
  have h1 : c.inflight.countP (fun p => decide (p.f = g) && p.tracked) ≤ c.inflight.countP (fun p => decide (p.f = g)) :=
    List.countP_mono_left (fun p _ hp => by simp at hp ⊢; exact hp.1)
  have h2 : c.holdings.countP (fun p => decide (p.f = g) && p.tracked) ≤ c.holdings.countP (fun p => decide (p.f = g)) :=
    List.countP_mono_left (fun p _ hp => by simp at hp ⊢; exact hp.1)
  omega

/-- The state just before `forgetFolder` writes its request (the folder has been removed). -/
def preForget (s : State) (m ctx : Nat) : State :=
  { (clientRmtree s ⟨m, ctx⟩) with
    managers := updAt s.managers m (fun M => { M with cached := M.cached.filter (fun c => c ≠ ctx) }) }

theorem forgetFolder_eq (s : State) (m ctx : Nat) :
    forgetFolder (clientRmtree s ⟨m, ctx⟩) m ctx =
      { (send (preForget s m ctx) .unregister .folder (FolderKey.mk m ctx).name) with
        atexit := (send (preForget s m ctx) .unregister .folder (FolderKey.mk m ctx).name).atexit.filter
          (fun x => x ≠ ⟨m, ctx⟩) } := rfl

theorem inv_deleteAndForget {cfg : Cfg} {s : State} (h : Inv cfg s) (m ctx : Nat)
    (hsafe : ∀ g ∈ s.disk.files, g.folder = ⟨m, ctx⟩ → workerUsers s.toClient g = 0) :
    Inv cfg (forgetFolder (clientRmtree s ⟨m, ctx⟩) m ctx) := by
  rw [forgetFolder_eq]
  generalize hs' : preForget s m ctx = s'
  unfold preForget at hs'
  have hreg : s'.reg = s.reg := by subst hs'; rfl
  have hdisk' : s'.disk = s.disk.rmtree (FolderKey.mk m ctx).name := by subst hs'; rfl
  have hbad' : s'.bad = s.bad := by
    subst hs'
    show s.bad ++ _ = s.bad
    rw [List.append_right_eq_self, List.filter_eq_nil_iff]
    intro g hg
    simp only [Bool.and_eq_true, decide_eq_true_eq, not_and, Nat.not_lt, Nat.le_zero]
    intro e
    exact hsafe g hg (FolderKey.name_inj e)
  have hpa : s'.parentAlive = s.parentAlive := by subst hs'; rfl
  have hat : s'.atexit = s.atexit := by subst hs'; rfl
  have hdup : s'.dup = s.dup := by subst hs'; rfl
  have hwk : s'.workers = s.workers := by subst hs'; rfl
  have hex : s'.extra = s.extra := by subst hs'; rfl
  have hcached : ∀ m' ctx', ctx' ∈ cachedL s'.managers m' →
      ctx' ∈ cachedOf s.toClient m' ∧ ¬ (m' = m ∧ ctx' = ctx) := by
    intro m' ctx' hc
    subst hs'
    simp only [cachedOf_eq] at hc ⊢
    exact mem_cachedL_updAt_filter hc
  have hrel : ∀ m', releasedL s'.managers m' = releasedOf s.toClient m' := by
    intro m'; subst hs'; simp only [releasedOf_eq]
    exact releasedL_updAt_same _ m (fun M => { M with cached := M.cached.filter (fun c => c ≠ ctx) }) (fun M => rfl) m'
  have hwire : Wire s' := wire_of_eq h.wire hreg (by subst hs'; rfl)
  have hne : (Cmd.unregister) ≠ .maybeUnlink := by simp
  have e := send_folder_disk s' .unregister (FolderKey.mk m ctx).name (FolderKey.mk m ctx).name_ascii hne
  have hlk : ∀ x : FolderKey, x ≠ ⟨m, ctx⟩ →
      lookup ((send s' .unregister .folder (FolderKey.mk m ctx).name).reg.get .folder) x.name
        = lookup (s.reg.get .folder) x.name := by
    intro x hx
    rw [send_lookup_other _ _ _ _ (FolderKey.mk m ctx).name_ascii _ _
      (by simp; exact fun e => hx (FolderKey.name_inj e)), hreg]
  refine ⟨?_, ⟨?_, ?_, ?_, ?_, ?_⟩, ?_, ?_, ?_⟩
  · exact wire_of_eq (wire_sendFolder hwire .unregister ⟨m, ctx⟩) rfl rfl
  · intro hp m' ctx' hc
    have hc' : ctx' ∈ cachedL s'.managers m' := by simpa [cachedOf_eq] using hc
    obtain ⟨h1, h2⟩ := hcached m' ctx' hc'
    have hx : FolderKey.mk m' ctx' ≠ ⟨m, ctx⟩ := by
      intro e; injection e with e1 e2; exact h2 ⟨e1, e2⟩
    show lookup ((send s' .unregister .folder (FolderKey.mk m ctx).name).reg.get .folder) _ ≠ none
    rw [hlk _ hx]
    have hp' : s.parentAlive = true := by
      have : s'.parentAlive = true := by simpa using hp
      rw [hpa] at this; exact this
    exact h.fold.f1 hp' m' ctx' h1
  · intro x hx
    have hx' : x ∈ (send s' .unregister .folder (FolderKey.mk m ctx).name).disk.dirs := hx
    rw [e, hdisk', mem_rmtree_dirs] at hx'
    show lookup ((send s' .unregister .folder (FolderKey.mk m ctx).name).reg.get .folder) _ ≠ none
    rw [hlk x (fun e => hx'.2 (by rw [e]))]
    exact h.fold.f2 x hx'.1
  · intro g hg
    have hg' : g ∈ (send s' .unregister .folder (FolderKey.mk m ctx).name).disk.files := hg
    show g.folder ∈ (send s' .unregister .folder (FolderKey.mk m ctx).name).disk.dirs
    rw [e, hdisk'] at hg' ⊢
    rw [mem_rmtree_files] at hg'
    exact mem_rmtree_dirs.mpr ⟨h.fold.f3 g hg'.1, hg'.2⟩
  · intro hp x hx
    have hx' : x ∈ (send s' .unregister .folder (FolderKey.mk m ctx).name).disk.dirs := hx
    rw [e, hdisk', mem_rmtree_dirs] at hx'
    have hp' : s.parentAlive = true := by
      have : s'.parentAlive = true := by simpa using hp
      rw [hpa] at this; exact this
    have h4 := h.fold.f4 hp' x hx'.1
    show x ∈ (send s' .unregister .folder (FolderKey.mk m ctx).name).atexit.filter (fun x => x ≠ ⟨m, ctx⟩)
    rw [List.mem_filter]
    refine ⟨?_, by simp; exact fun e => hx'.2 (by rw [e])⟩
    have : (send s' .unregister .folder (FolderKey.mk m ctx).name).atexit = s.atexit := by
      simp; rw [hat]
    rw [this]; exact h4
  · intro hp m' ctx' hc
    have hc' : ctx' ∈ cachedL s'.managers m' := by simpa [cachedOf_eq] using hc
    obtain ⟨h1, h2⟩ := hcached m' ctx' hc'
    have hp' : s.parentAlive = true := by
      have : s'.parentAlive = true := by simpa using hp
      rw [hpa] at this; exact this
    have h5 := h.fold.f5 hp' m' ctx' h1
    show FolderKey.mk m' ctx' ∈
      (send s' .unregister .folder (FolderKey.mk m ctx).name).atexit.filter (fun x => x ≠ ⟨m, ctx⟩)
    rw [List.mem_filter]
    refine ⟨?_, by simp; omega⟩
    have : (send s' .unregister .folder (FolderKey.mk m ctx).name).atexit = s.atexit := by
      simp; rw [hat]
    rw [this]; exact h5
  · refine users_of_eq h.users ?_ ?_ ?_ ?_ <;> simp <;> subst hs' <;> simp [updAt_length]
  · intro hd
    have hd0 : s.dup = false := by
      have : s'.dup = false := by simpa using hd
      rw [hdup] at this; exact this
    have hc := h.cnt hd0
    refine ⟨?_, ?_⟩
    · intro g
      show lookup ((send s' .unregister .folder (FolderKey.mk m ctx).name).reg.get .file) g.name = _
      rw [send_folder_lookup_file, hreg, hc.j1 g]
      congr 1
      simp; subst hs'
      exact trackedUsers_congr rfl rfl rfl rfl g
    · show (send s' .unregister .folder (FolderKey.mk m ctx).name).bad = []
      rw [send_folder_bad _ _ _ (FolderKey.mk m ctx).name_ascii hne, hbad', hc.b]
  · intro hf
    have hF := h.fix hf
    refine ⟨?_, ?_, ?_⟩
    · intro g hg
      have hg' : g ∈ (send s' .unregister .folder (FolderKey.mk m ctx).name).disk.files := hg
      rw [e, hdisk', mem_rmtree_files] at hg'
      have := hF.x1 g hg'.1
      simp [releasedOf_eq]; rw [hrel, hex]; exact this
    · intro W hW hsd g hg
      have hW' : W ∈ s.workers := by
        have : W ∈ s'.workers := by simpa using hW
        rw [hwk] at this; exact this
      have := hF.x2 W hW' hsd g hg
      simp [releasedOf_eq]; rw [hrel, hex]; exact this
    · simp; rw [hdup]; exact hF.x0

/-! ### the forced clean-up (`unregister` every file, remove the folder whatever it holds) -/

/-- The configuration without the repair: `Inv` at it is `Inv` without the `Fix` part. -/
def noFix (cfg : Cfg) : Cfg := { cfg with fix := false }

theorem Inv.weaken {cfg : Cfg} {s : State} (h : Inv cfg s) : Inv (noFix cfg) s :=
  ⟨h.wire, h.fold, h.users, h.cnt, fun hf => by simp [noFix] at hf⟩

theorem Inv.strengthen {cfg : Cfg} {s : State} (h : Inv (noFix cfg) s) (hf : cfg.fix = true → Fix s) : Inv cfg s :=
  ⟨h.wire, h.fold, h.users, h.cnt, hf⟩

theorem trackedWorkerUsers_zero_of_noUsers {c : Client} {m : Nat} (hn : NoUsers c m) (g : FileKey) (hg : g.m = m) :
    trackedWorkerUsers c g = 0 := by
  have := trackedWorkerUsers_le c g
  have := workerUsers_zero_of_noUsers hn g hg
  omega

theorem count_filter_ne_self {α : Type} [DecidableEq α] (l : List α) (f : α) :
    (l.filter (fun g => g ≠ f)).count f = 0 := by
  rw [List.count_eq_zero]; intro h; simpa using (List.mem_filter.mp h).2

theorem count_filter_ne_other {α : Type} [DecidableEq α] (l : List α) (f g : α) (h : g ≠ f) :
    (l.filter (fun x => x ≠ f)).count g = l.count g := by
  induction l with
  | nil => rfl
  | cons a r ih =>
    simp only [ne_eq, decide_not] at ih ⊢
    by_cases e : a = f
    · subst e
      have : ¬ a = g := fun e => h e.symm
      simp [List.filter_cons, List.count_cons, ih, this]
    · simp [List.filter_cons, e, List.count_cons, ih]

/-- The state just before `forceUnregister` writes its request. -/
def preForce (s : State) (f : FileKey) : State :=
  { s with extra := s.extra.filter (fun g => g ≠ f), leaked := s.leaked.filter (fun g => g ≠ f) }

theorem forceUnregister_eq (s : State) (f : FileKey) :
    forceUnregister s f = send (preForce s f) .unregister .file f.name := rfl

theorem inv_forceUnregister {cfg : Cfg} {s : State} (hfix : cfg.fix = false) (h : Inv cfg s) (f : FileKey)
    (hn : NoUsers s.toClient f.m) : Inv cfg (forceUnregister s f) := by
  rw [forceUnregister_eq]
  generalize hs' : preForce s f = s'
  unfold preForce at hs'
  have hreg : s'.reg = s.reg := by subst hs'; rfl
  have hwire : Wire s' := wire_of_eq h.wire hreg (by subst hs'; rfl)
  have hfold : Fold s' := fold_of_eq h.fold hreg (by subst hs'; rfl) (by subst hs'; rfl) (fun m => by subst hs'; rfl)
    (by subst hs'; rfl)
  have hne : (Cmd.unregister) ≠ .maybeUnlink := by simp
  refine ⟨wire_sendFile hwire _ f, fold_send_file hfold _ f, ?_, ?_, fun hf => by rw [hfix] at hf; simp at hf⟩
  · rw [send_toClient]; subst hs'; exact users_of_eq h.users rfl rfl rfl rfl
  · intro hd
    have hc := h.cnt (by subst hs'; simpa using hd)
    refine ⟨?_, ?_⟩
    · intro g
      rw [send_toClient]
      by_cases hg : g = f
      · subst hg
        rw [send_lookup_same _ _ _ _ g.name_ascii hwire.distinct]
        have h0 : trackedUsers s'.toClient g = 0 := by
          have h1 := trackedWorkerUsers_zero_of_noUsers hn g rfl
          subst hs'
          simp only [trackedUsers, trackedWorkerUsers] at h1 ⊢
          rw [count_filter_ne_self, count_filter_ne_self]; omega
        rw [h0]; simp [execAt, enc]
      · rw [send_lookup_other _ _ _ _ f.name_ascii _ _ (by simp; exact fun e => hg (FileKey.name_inj e)),
          hreg, hc.j1 g]
        congr 1
        subst hs'
        simp only [trackedUsers, trackedWorkerUsers]
        rw [count_filter_ne_other _ _ _ hg, count_filter_ne_other _ _ _ hg]
    · rw [(send_disk_of_ne_mu s' _ _ _ f.name_ascii hne).2]; subst hs'; exact hc.b

theorem forceUnregister_proj (s : State) (f : FileKey) :
    (forceUnregister s f).disk = s.disk ∧ (forceUnregister s f).extra = s.extra.filter (fun g => g ≠ f) ∧
    (forceUnregister s f).managers = s.managers ∧ (forceUnregister s f).dup = s.dup := by
  unfold forceUnregister
  refine ⟨?_, by simp, by simp, by simp⟩
  exact (send_disk_of_ne_mu _ _ _ _ f.name_ascii (by simp)).1

theorem forceLoop_proj (l : List FileKey) (s : State) :
    (l.foldl forceUnregister s).disk = s.disk ∧
    (l.foldl forceUnregister s).extra = s.extra.filter (fun g => g ∉ l) ∧
    (l.foldl forceUnregister s).managers = s.managers ∧ (l.foldl forceUnregister s).dup = s.dup := by
  induction l generalizing s with
  | nil => simp; exact (List.filter_eq_self.mpr (fun _ _ => rfl)).symm
  | cons a r ih =>
    obtain ⟨h1, h2, h3, h4⟩ := ih (forceUnregister s a)
    obtain ⟨g1, g2, g3, g4⟩ := forceUnregister_proj s a
    simp only [List.foldl_cons]
    refine ⟨h1.trans g1, ?_, h3.trans g3, h4.trans g4⟩
    rw [h2, g2, List.filter_filter]
    congr 1
    funext g
    simp [not_or, Bool.and_comm]

theorem inv_forceLoop {cfg : Cfg} (hfix : cfg.fix = false) (m : Nat) (l : List FileKey) :
    ∀ s : State, Inv cfg s → NoUsers s.toClient m → (∀ f ∈ l, f.m = m) → Inv cfg (l.foldl forceUnregister s) := by
  induction l with
  | nil => intro s h _ _; exact h
  | cons a r ih =>
    intro s h hn hl
    simp only [List.foldl_cons]
    have ha := hl a (List.mem_cons_self ..)
    apply ih
    · exact inv_forceUnregister hfix h a (ha ▸ hn)
    · exact (frame_forceUnregister s a).noUsers hn
    · exact fun f hf => hl f (List.mem_cons_of_mem _ hf)

/-! ### `_clean_temporary_resources` -/

/-- What a clean-up leaves alone in the processes. -/
structure PFrame (s t : State) : Prop where
  inflight : t.inflight = s.inflight
  holdings : t.holdings = s.holdings
  children : t.children = s.children
  workers : t.workers = s.workers
  mlen : t.managers.length = s.managers.length
  pa : t.parentAlive = s.parentAlive
  executor : t.executor = s.executor
  backend : t.backend = s.backend
  executorArgs : t.executorArgs = s.executorArgs

theorem PFrame.refl (s : State) : PFrame s s := ⟨rfl, rfl, rfl, rfl, rfl, rfl, rfl, rfl, rfl⟩

theorem PFrame.trans {s t u : State} (h1 : PFrame s t) (h2 : PFrame t u) : PFrame s u :=
  ⟨h2.inflight.trans h1.inflight, h2.holdings.trans h1.holdings, h2.children.trans h1.children,
   h2.workers.trans h1.workers, h2.mlen.trans h1.mlen, h2.pa.trans h1.pa, h2.executor.trans h1.executor,
   h2.backend.trans h1.backend, h2.executorArgs.trans h1.executorArgs⟩

theorem Frame.toP {s t : State} (h : Frame s t) : PFrame s t :=
  ⟨h.inflight, h.holdings, h.children, h.workers, h.mlen, h.pa, h.executor, h.backend, h.executorArgs⟩

theorem PFrame.noUsers {s t : State} (h : PFrame s t) {m : Nat} (hn : NoUsers s.toClient m) :
    NoUsers t.toClient m := by
  unfold NoUsers; rw [h.inflight, h.holdings]; exact hn

theorem PFrame.mgrDown {s t : State} (h : PFrame s t) {m : Nat} (hn : MgrDown s.toClient m) :
    MgrDown t.toClient m := by
  unfold MgrDown; rw [h.workers]; exact hn

theorem pframe_deleteAndForget (s : State) (m ctx : Nat) : PFrame s (forgetFolder (clientRmtree s ⟨m, ctx⟩) m ctx) := by
  rw [forgetFolder_eq]
  refine ⟨?_, ?_, ?_, ?_, ?_, ?_, ?_, ?_, ?_⟩ <;> simp [preForget, updAt_length]

theorem pframe_tryDeleteFolder (s : State) (m ctx : Nat) (allow : Bool) : PFrame s (tryDeleteFolder s m ctx allow) := by
  unfold tryDeleteFolder
  split
  · exact pframe_deleteAndForget s m ctx
  · exact PFrame.refl s

theorem pframe_cleanContext (cfg : Cfg) (s : State) (m ctx : Nat) (force allow : Bool) :
    PFrame s (cleanContext cfg s m ctx force allow) := by
  unfold cleanContext
  split
  · exact PFrame.refl s
  · split
    · exact PFrame.refl s
    · exact (frame_foldl_cleanFile cfg m force _ s).toP.trans (pframe_tryDeleteFolder _ m ctx _)

theorem pframe_cleanAll (cfg : Cfg) (s : State) (m : Nat) (force allow : Bool) :
    PFrame s (cleanAll cfg s m force allow) := by
  unfold cleanAll
  generalize cachedOf s.toClient m = l
  induction l generalizing s with
  | nil => exact PFrame.refl s
  | cons a r ih => exact (pframe_cleanContext cfg s m a force allow).trans (ih _)

theorem mem_listdir {d : Disk} {x : FolderKey} {g : FileKey} : g ∈ d.listdir x ↔ g ∈ d.files ∧ g.folder = x := by
  simp [Disk.listdir, List.mem_filter]

theorem cachedL_pos_length {ms : List Manager} {m ctx : Nat} (h : ctx ∈ cachedL ms m) : m < ms.length := by
  unfold cachedL at h
  cases hM : ms[m]? with
  | none => simp [hM] at h
  | some M => exact (List.getElem?_eq_some_iff.mp hM).1

theorem forgetFolder_proj (s : State) (m ctx : Nat) :
    (forgetFolder (clientRmtree s ⟨m, ctx⟩) m ctx).disk = s.disk.rmtree (FolderKey.mk m ctx).name ∧
    (forgetFolder (clientRmtree s ⟨m, ctx⟩) m ctx).extra = s.extra ∧
    (forgetFolder (clientRmtree s ⟨m, ctx⟩) m ctx).workers = s.workers ∧
    (forgetFolder (clientRmtree s ⟨m, ctx⟩) m ctx).dup = s.dup ∧
    (∀ m', releasedL (forgetFolder (clientRmtree s ⟨m, ctx⟩) m ctx).managers m' = releasedL s.managers m') := by
  rw [forgetFolder_eq]
  refine ⟨?_, by simp [preForget], by simp [preForget], by simp [preForget], ?_⟩
  · show (send (preForget s m ctx) .unregister .folder (FolderKey.mk m ctx).name).disk = _
    rw [send_folder_disk _ _ _ (FolderKey.mk m ctx).name_ascii (by simp)]; rfl
  · intro m'
    simp only [send_toClient, preForget]
    exact releasedL_updAt_same _ m (fun M => { M with cached := M.cached.filter (fun c => c ≠ ctx) }) (fun M => rfl) m'

theorem inv_cleanContext {cfg : Cfg} {s : State} (h : Inv cfg s) (m ctx : Nat) (force allow : Bool)
    (hforce : force = true → NoUsers s.toClient m ∧ MgrDown s.toClient m)
    (hallow : allow = true → NoUsers s.toClient m) : Inv cfg (cleanContext cfg s m ctx force allow) := by
  unfold cleanContext
  split
  · exact h
  rename_i hc
  split
  · exact h
  rename_i hd
  have hlen : m < s.managers.length := by
    have : ctx ∈ cachedOf s.toClient m := Decidable.not_not.mp hc
    exact cachedL_pos_length this
  cases force with
  | false =>
    have hinv : Inv cfg ((s.disk.listdir ⟨m, ctx⟩).foldl (cleanFile cfg m false) s) := by
      apply inv_releaseLoop m _ s h hlen
      intro f hf
      rw [mem_listdir] at hf
      exact ⟨by have := congrArg FolderKey.m hf.2; simpa [FileKey.folder] using this, Or.inl hf.1⟩
    have hfr := frame_foldl_cleanFile cfg m false (s.disk.listdir ⟨m, ctx⟩) s
    generalize (s.disk.listdir ⟨m, ctx⟩).foldl (cleanFile cfg m false) s = t0 at hinv hfr
    unfold tryDeleteFolder
    split
    · rename_i hcond
      apply inv_deleteAndForget hinv
      intro g hg hgf
      simp only [Bool.or_false, Bool.or_eq_true, List.isEmpty_iff] at hcond
      rcases hcond with he | ha
      · have : g ∈ t0.disk.listdir ⟨m, ctx⟩ := mem_listdir.mpr ⟨hg, hgf⟩
        rw [he] at this; simp at this
      · exact workerUsers_zero_of_noUsers (hfr.noUsers (hallow ha)) g
          (by have := congrArg FolderKey.m hgf; simpa [FileKey.folder] using this)
    · exact hinv
  | true =>
    obtain ⟨hn, hmd⟩ := hforce rfl
    have hcf : cleanFile cfg m true = forceUnregister := by funext s f; simp [cleanFile]
    rw [hcf]
    have hL : ∀ f ∈ s.disk.listdir ⟨m, ctx⟩, f.m = m := by
      intro f hf
      have := congrArg FolderKey.m (mem_listdir.mp hf).2; simpa [FileKey.folder] using this
    have hinv : Inv (noFix cfg) ((s.disk.listdir ⟨m, ctx⟩).foldl forceUnregister s) :=
      inv_forceLoop (by simp [noFix]) m _ s h.weaken hn hL
    have hfr := frame_foldl_cleanFile cfg m true (s.disk.listdir ⟨m, ctx⟩) s
    rw [hcf] at hfr
    obtain ⟨p1, p2, p3, p4⟩ := forceLoop_proj (s.disk.listdir ⟨m, ctx⟩) s
    generalize (s.disk.listdir ⟨m, ctx⟩).foldl forceUnregister s = t0 at hinv hfr p1 p2 p3 p4
    have hcond : ((t0.disk.listdir ⟨m, ctx⟩).isEmpty || (allow || true)) = true := by simp
    unfold tryDeleteFolder
    rw [if_pos hcond]
    have hn0 := hfr.noUsers hn
    have hsafe : ∀ g ∈ t0.disk.files, g.folder = ⟨m, ctx⟩ → workerUsers t0.toClient g = 0 := by
      intro g _ hgf
      exact workerUsers_zero_of_noUsers hn0 g (by have := congrArg FolderKey.m hgf; simpa [FileKey.folder] using this)
    apply (inv_deleteAndForget hinv m ctx hsafe).strengthen
    intro hfx
    have hF := h.fix hfx
    obtain ⟨q1, q2, q3, q4, q5⟩ := forgetFolder_proj t0 m ctx
    have hnotL : ∀ g ∈ s.disk.files, g.folder.name ≠ (FolderKey.mk m ctx).name → g ∉ s.disk.listdir ⟨m, ctx⟩ := by
      intro g _ hne hmem
      exact hne (by rw [(mem_listdir.mp hmem).2])
    have key : ∀ g, g ∉ s.disk.listdir ⟨m, ctx⟩ → (g ∈ s.extra ∨ g ∈ releasedOf s.toClient g.m) →
        (g ∈ (forgetFolder (clientRmtree t0 ⟨m, ctx⟩) m ctx).extra ∨
          g ∈ releasedOf (forgetFolder (clientRmtree t0 ⟨m, ctx⟩) m ctx).toClient g.m) := by
      intro g hg hor
      rcases hor with hor | hor
      · left; rw [q2, p2]; exact List.mem_filter.mpr ⟨hor, by simpa using hg⟩
      · right; rw [releasedOf_eq, q5, p3]; exact hor
    refine ⟨?_, ?_, ?_⟩
    · intro g hg
      rw [q1, mem_rmtree_files, p1] at hg
      exact key g (hnotL g hg.1 hg.2) (hF.x1 g hg.1)
    · intro W hW hsd g hg
      rw [q3, hfr.workers] at hW
      apply key g _ (hF.x2 W hW hsd g hg)
      intro hmem
      have h1 : g.m = m := hL g hmem
      have h2 : g.m = W.mgr := h.users.x3 W hW g hg
      have := hmd W hW (by rw [← h2, h1])
      rw [hsd] at this; exact absurd this (by simp)
    · rw [q4, p4]; exact hF.x0

theorem inv_cleanAll {cfg : Cfg} {s : State} (h : Inv cfg s) (m : Nat) (force allow : Bool)
    (hforce : force = true → NoUsers s.toClient m ∧ MgrDown s.toClient m)
    (hallow : allow = true → NoUsers s.toClient m) : Inv cfg (cleanAll cfg s m force allow) := by
  unfold cleanAll
  generalize cachedOf s.toClient m = l
  induction l generalizing s with
  | nil => exact h
  | cons a r ih =>
    simp only [List.foldl_cons]
    have hp := pframe_cleanContext cfg s m a force allow
    exact ih (inv_cleanContext h m a force allow hforce hallow)
      (fun hf => ⟨hp.noUsers (hforce hf).1, hp.mgrDown (hforce hf).2⟩) (fun ha => hp.noUsers (hallow ha))

end JoblibModel.TrackerClient
