import JoblibModel.TrackerClient
import JoblibProofs.Lemmas.Tracker
/-! Helper lemmas for the client part of C20 (`JoblibModel.TrackerClient`), kept apart from the property theorems:
the parser on `reqLine`, the symbolic names, `send` as one `exec` of the tracker, frame lemmas (which fields a
function leaves alone), and the invariants of the composed system. -/
set_option linter.unusedSimpArgs false
set_option linter.unusedVariables false
namespace JoblibModel.TrackerClient
open JoblibModel.Tracker

/-! ### the parser on `reqLine` (same proof as `C20.parse_send_format`, needed below the theorem file) -/

theorem classify_reqLine (c : Cmd) (rt : RType) (name : Name) (hascii : ∀ b ∈ name, b < 128) :
    classify (reqLine c rt name) = .req c rt name := by
  unfold reqLine
  have hparse : ∀ (c0 : Nat) (cs : Name) (ri : Name) (rl : Nat),
      isSpace c0 = false → isSpace rl = false → 58 ∉ (c0 :: cs) → 58 ∉ (ri ++ [rl]) →
      (∀ b ∈ c0 :: cs, b < 128) → (∀ b ∈ ri ++ [rl], b < 128) →
      parse ((c0 :: cs) ++ 58 :: name ++ 58 :: (ri ++ [rl]) ++ [10]) = some (c0 :: cs, name, ri ++ [rl]) := by
    intro c0 cs ri rl h0 hl hc hr hac har
    have e : (c0 :: cs) ++ 58 :: name ++ 58 :: (ri ++ [rl]) ++ [10]
        = (c0 :: (cs ++ 58 :: name ++ 58 :: ri) ++ [rl]) ++ [10] := by simp
    unfold parse
    rw [e, strip_line _ _ _ h0 hl]
    have hall : decodeAscii (c0 :: (cs ++ 58 :: name ++ 58 :: ri) ++ [rl])
        = some (c0 :: (cs ++ 58 :: name ++ 58 :: ri) ++ [rl]) := by
      unfold decodeAscii
      rw [if_pos]
      simp only [List.all_eq_true, decide_eq_true_eq]
      intro b hb
      simp only [List.cons_append, List.mem_cons, List.mem_append, List.append_assoc] at hb
      rcases hb with rfl | hb | rfl | hb | rfl | hb | hb
      · exact hac _ (by simp)
      · exact hac _ (by simp [hb])
      · omega
      · exact hascii _ hb
      · omega
      · exact har _ (by simp [hb])
      · exact har _ (by simp at hb; simp [hb])
    rw [hall]
    have e2 : c0 :: (cs ++ 58 :: name ++ 58 :: ri) ++ [rl] = (c0 :: cs) ++ 58 :: (name ++ 58 :: (ri ++ [rl])) := by
      simp
    have hf : fields ((c0 :: cs) ++ 58 :: (name ++ 58 :: (ri ++ [rl])))
        = (c0 :: cs) :: (fields name ++ [ri ++ [rl]]) := by
      rw [fields_append _ _ hc, fields_snoc _ _ hr]
    rw [e2]
    simp only [fields, List.cons.injEq] at hf
    simp only [hf.1, hf.2, List.dropLast_concat, Option.some.injEq, Prod.mk.injEq, true_and]
    exact ⟨joinColon_fields name, lastField_append _ _ _⟩
  have hcmd : ∀ c : Cmd, ∃ c0 cs, cmdStr c = c0 :: cs ∧ isSpace c0 = false ∧ 58 ∉ (c0 :: cs) ∧
      ∀ b ∈ c0 :: cs, b < 128 := by
    intro c; cases c <;> exact ⟨_, _, rfl, by decide, by decide, by decide⟩
  have hrt : ∀ rt : RType, ∃ ri rl, rt.str = ri ++ [rl] ∧ isSpace rl = false ∧ 58 ∉ (ri ++ [rl]) ∧
      ∀ b ∈ ri ++ [rl], b < 128 := by
    intro rt; cases rt
    · exact ⟨[102, 111, 108, 100, 101], 114, rfl, by decide, by decide, by decide⟩
    · exact ⟨[102, 105, 108], 101, rfl, by decide, by decide, by decide⟩
    · exact ⟨[115, 101, 109, 108, 111, 99], 107, rfl, by decide, by decide, by decide⟩
  have hp : parse (cmdStr c ++ 58 :: name ++ 58 :: rt.str ++ [10]) = some (cmdStr c, name, rt.str) := by
    obtain ⟨c0, cs, e1, h0, hc, hac⟩ := hcmd c
    obtain ⟨ri, rl, e2, hl, hr, har⟩ := hrt rt
    rw [e1, e2]
    exact hparse c0 cs ri rl h0 hl hc hr hac har
  simp only [classify, hp]
  cases c <;> cases rt <;>
    simp [cmdStr, sPROBE, sREGISTER, sUNREGISTER, sMAYBE_UNLINK, rtypeOf, RType.str]

/-! ### the symbolic names -/

theorem replicate_append_cons_inj {a b : Nat} (hab : a ≠ b) :
    ∀ (m m' : Nat) (t t' : List Nat), List.replicate m a ++ b :: t = List.replicate m' a ++ b :: t' →
      m = m' ∧ t = t'
  | 0, 0, t, t', h => by simpa using h
  | 0, m' + 1, t, t', h => by simp [List.replicate_succ] at h; exact absurd h.1.symm hab
  | m + 1, 0, t, t', h => by simp [List.replicate_succ] at h; exact absurd h.1 hab
  | m + 1, m' + 1, t, t', h => by
    simp only [List.replicate_succ, List.cons_append, List.cons.injEq, true_and] at h
    have := replicate_append_cons_inj hab m m' t t' h
    exact ⟨by omega, this.2⟩

theorem FolderKey.name_inj {d d' : FolderKey} (h : d.name = d'.name) : d = d' := by
  cases d with | mk m c => cases d' with | mk m' c' =>
  simp only [FolderKey.name, List.cons.injEq, true_and] at h
  obtain ⟨hm, hc⟩ := replicate_append_cons_inj (by decide) _ _ _ _ h
  have : c = c' := by simpa using congrArg List.length hc
  subst hm; subst this; rfl

theorem FileKey.name_inj {f f' : FileKey} (h : f.name = f'.name) : f = f' := by
  cases f with | mk m c a => cases f' with | mk m' c' a' =>
  simp only [FileKey.name, FileKey.folder, FolderKey.name, List.cons_append, List.append_assoc,
    List.cons.injEq, true_and] at h
  obtain ⟨hm, h2⟩ := replicate_append_cons_inj (by decide) _ _ _ _ h
  obtain ⟨hc, h3⟩ := replicate_append_cons_inj (by decide) _ _ _ _ h2
  have : a = a' := by simpa using congrArg List.length h3
  subst hm; subst hc; subst this; rfl

theorem FolderKey.name_ascii (d : FolderKey) : ∀ b ∈ d.name, b < 128 := by
  intro b hb
  simp only [FolderKey.name, List.mem_cons, List.mem_append, List.mem_replicate] at hb
  omega

theorem FileKey.name_ascii (f : FileKey) : ∀ b ∈ f.name, b < 128 := by
  intro b hb
  simp only [FileKey.name, List.mem_append, List.mem_cons, List.mem_replicate] at hb
  rcases hb with hb | hb | hb
  · exact FolderKey.name_ascii _ b hb
  · omega
  · omega

/-! ### `send` = one `exec` of the tracker + what its action does to the disk -/

/-- The only action of `execActs` that `applyAction` does not ignore. -/
def cleanupOf (c : Cmd) (rt : RType) (name : Name) (old : Option Int) : Option Action :=
  match c, old with
  | .maybeUnlink, some n => if n - 1 = 0 then some (.cleanup rt name) else none
  | _, _ => none

theorem foldl_applyAction_execActs (s : State) (c : Cmd) (rt : RType) (name : Name) (old : Option Int) :
    (execActs c rt name old).foldl applyAction s =
      match cleanupOf c rt name old with
      | some a => applyAction s a
      | none => s := by
  cases c <;> cases old <;> try (simp [execActs, cleanupOf, applyAction]; done)
  rename_i n
  by_cases h : n - 1 = 0 <;> simp [execActs, cleanupOf, h]

theorem send_eq (s : State) (c : Cmd) (rt : RType) (name : Name) (hascii : ∀ b ∈ name, b < 128) :
    send s c rt name =
      match cleanupOf c rt name (lookup (s.reg.get rt) name) with
      | some a => applyAction { s with reg := (exec s.reg c rt name).1, sent := reqLine c rt name :: s.sent } a
      | none => { s with reg := (exec s.reg c rt name).1, sent := reqLine c rt name :: s.sent } := by
  unfold send
  simp only [step_req _ _ _ _ _ (classify_reqLine c rt name hascii), exec_acts, foldl_applyAction_execActs]

/-! ### frame lemmas: the pipe and the disk do not touch what the processes hold -/

@[simp] theorem applyAction_toClient (s : State) (a : Action) : (applyAction s a).toClient = s.toClient := by
  cases a with
  | cleanup rt n => cases rt <;> rfl
  | report e => rfl
  | leakWarning rt n => rfl

@[simp] theorem applyAction_reg (s : State) (a : Action) : (applyAction s a).reg = s.reg := by
  cases a with
  | cleanup rt n => cases rt <;> rfl
  | report e => rfl
  | leakWarning rt n => rfl

@[simp] theorem applyAction_sent (s : State) (a : Action) : (applyAction s a).sent = s.sent := by
  cases a with
  | cleanup rt n => cases rt <;> rfl
  | report e => rfl
  | leakWarning rt n => rfl

@[simp] theorem foldl_applyAction_toClient (l : List Action) (s : State) :
    (l.foldl applyAction s).toClient = s.toClient := by
  induction l generalizing s with
  | nil => rfl
  | cons a r ih => simp [ih]

@[simp] theorem foldl_applyAction_reg (l : List Action) (s : State) : (l.foldl applyAction s).reg = s.reg := by
  induction l generalizing s with
  | nil => rfl
  | cons a r ih => simp [ih]

@[simp] theorem foldl_applyAction_sent (l : List Action) (s : State) : (l.foldl applyAction s).sent = s.sent := by
  induction l generalizing s with
  | nil => rfl
  | cons a r ih => simp [ih]

@[simp] theorem send_toClient (s : State) (c : Cmd) (rt : RType) (name : Name) :
    (send s c rt name).toClient = s.toClient := by simp [send]

@[simp] theorem send_sent (s : State) (c : Cmd) (rt : RType) (name : Name) :
    (send s c rt name).sent = reqLine c rt name :: s.sent := by simp [send]

theorem send_reg (s : State) (c : Cmd) (rt : RType) (name : Name) :
    (send s c rt name).reg = (step s.reg (reqLine c rt name)).1 := by simp [send]

theorem send_reg_exec (s : State) (c : Cmd) (rt : RType) (name : Name) (ha : ∀ b ∈ name, b < 128) :
    (send s c rt name).reg = (exec s.reg c rt name).1 := by
  rw [send_reg, step_req _ _ _ _ _ (classify_reqLine c rt name ha)]

@[simp] theorem clientRmtree_toClient (s : State) (d : FolderKey) : (clientRmtree s d).toClient = s.toClient := rfl
@[simp] theorem clientRmtree_reg (s : State) (d : FolderKey) : (clientRmtree s d).reg = s.reg := rfl
@[simp] theorem clientRmtree_sent (s : State) (d : FolderKey) : (clientRmtree s d).sent = s.sent := rfl

/-- A request that is not a `MAYBE_UNLINK` makes the tracker do nothing on disk. -/
theorem send_disk_of_ne_mu (s : State) (c : Cmd) (rt : RType) (name : Name) (ha : ∀ b ∈ name, b < 128)
    (hc : c ≠ .maybeUnlink) : (send s c rt name).disk = s.disk ∧ (send s c rt name).bad = s.bad := by
  rw [send_eq s c rt name ha]
  cases c <;> simp [cleanupOf] at hc ⊢

/-- `MAYBE_UNLINK` of a file: the disk and the monitor. -/
theorem send_mu_file (s : State) (name : Name) (ha : ∀ b ∈ name, b < 128) :
    ((send s .maybeUnlink .file name).disk =
        if lookup (s.reg.get .file) name = some 1 then s.disk.unlink name else s.disk) ∧
    ((send s .maybeUnlink .file name).bad =
        if lookup (s.reg.get .file) name = some 1 then
          s.bad ++ s.disk.files.filter (fun f => f.name = name ∧ 0 < liveUsers s.toClient f)
        else s.bad) := by
  rw [send_eq s _ _ name ha]
  cases h : lookup (s.reg.get .file) name with
  | none => simp [cleanupOf]
  | some n =>
    by_cases h1 : n = 1
    · subst h1; simp [cleanupOf, applyAction]
    · have : ¬ n - 1 = 0 := by omega
      simp [cleanupOf, this, h1]

/-! ### the registry after a request -/

theorem send_distinct (s : State) (c : Cmd) (rt : RType) (name : Name) (hd : s.reg.Distinct) :
    (send s c rt name).reg.Distinct := by
  rw [send_reg]; exact step_distinct _ _ hd

theorem send_lookup_same (s : State) (c : Cmd) (rt : RType) (name : Name) (ha : ∀ b ∈ name, b < 128)
    (hd : s.reg.Distinct) :
    lookup ((send s c rt name).reg.get rt) name = execAt c (lookup (s.reg.get rt) name) := by
  rw [send_reg_exec _ _ _ _ ha]; exact exec_get_same _ _ _ _ hd

theorem send_lookup_other (s : State) (c : Cmd) (rt : RType) (name : Name) (ha : ∀ b ∈ name, b < 128)
    (t : RType) (m : Name) (h : ¬ (t = rt ∧ m = name)) :
    lookup ((send s c rt name).reg.get t) m = lookup (s.reg.get t) m := by
  rw [send_reg_exec _ _ _ _ ha]; exact exec_get_other _ _ _ _ _ _ h

/-! ### list helpers -/

theorem updAt_length {α : Type} (l : List α) (i : Nat) (f : α → α) : (updAt l i f).length = l.length := by
  induction l generalizing i with
  | nil => rfl
  | cons x r ih => cases i <;> simp [updAt, ih]

theorem getElem?_updAt {α : Type} (l : List α) (i j : Nat) (f : α → α) :
    (updAt l i f)[j]? = if j = i then (l[i]?).map f else l[j]? := by
  induction l generalizing i j with
  | nil => simp [updAt]
  | cons x r ih =>
    cases i with
    | zero => cases j <;> simp [updAt]
    | succ i =>
      cases j with
      | zero => simp [updAt]
      | succ j => simp [updAt, ih]

theorem mem_updAt {α : Type} {l : List α} {i : Nat} {f : α → α} {x : α} (h : x ∈ updAt l i f) :
    x ∈ l ∨ ∃ y, l[i]? = some y ∧ x = f y := by
  induction l generalizing i with
  | nil => simp [updAt] at h
  | cons a r ih =>
    cases i with
    | zero =>
      simp only [updAt, List.mem_cons] at h
      rcases h with rfl | h
      · exact Or.inr ⟨a, by simp, rfl⟩
      · exact Or.inl (List.mem_cons_of_mem _ h)
    | succ i =>
      simp only [updAt, List.mem_cons] at h
      rcases h with rfl | h
      · exact Or.inl (List.mem_cons_self ..)
      · rcases ih h with h | ⟨y, hy, rfl⟩
        · exact Or.inl (List.mem_cons_of_mem _ h)
        · exact Or.inr ⟨y, by simpa using hy, rfl⟩

theorem mem_removeAt {α : Type} {l : List α} {i : Nat} {x : α} (h : x ∈ removeAt l i) : x ∈ l := by
  induction l generalizing i with
  | nil => simp [removeAt] at h
  | cons a r ih =>
    cases i with
    | zero => exact List.mem_cons_of_mem _ (by simpa [removeAt] using h)
    | succ i =>
      simp only [removeAt, List.mem_cons] at h
      rcases h with rfl | h
      · exact List.mem_cons_self ..
      · exact List.mem_cons_of_mem _ (ih h)

theorem countP_removeAt {α : Type} (l : List α) (i : Nat) (x : α) (p : α → Bool) (h : l[i]? = some x) :
    (removeAt l i).countP p + (if p x then 1 else 0) = l.countP p := by
  induction l generalizing i with
  | nil => simp at h
  | cons a r ih =>
    cases i with
    | zero =>
      simp only [List.getElem?_cons_zero, Option.some.injEq] at h
      subst h
      by_cases hp : p a <;> simp [removeAt, List.countP_cons, hp]
    | succ i =>
      simp only [List.getElem?_cons_succ] at h
      have := ih i h
      by_cases hp : p a <;> simp [removeAt, List.countP_cons, hp] <;> omega

/-- Splitting a list by `q`: what satisfies `p` is found in exactly one of the two parts. -/
theorem countP_split {α : Type} (l : List α) (q p : α → Bool) :
    (l.filter (fun x => !q x)).countP p + l.countP (fun x => q x && p x) = l.countP p := by
  induction l with
  | nil => rfl
  | cons a r ih =>
    by_cases hq : q a <;> by_cases hp : p a <;>
      simp only [List.filter_cons, List.countP_cons, hq, hp, Bool.not_true, Bool.not_false, Bool.and_true,
        Bool.and_false, Bool.true_and, Bool.false_and, if_true, if_false, Bool.false_eq_true] <;> omega

theorem count_map_filter {α β : Type} [DecidableEq β] (l : List α) (q : α → Bool) (g : α → β) (b : β) :
    ((l.filter q).map g).count b = l.countP (fun x => q x && decide (g x = b)) := by
  induction l with
  | nil => rfl
  | cons a r ih =>
    by_cases hq : q a <;> by_cases hg : g a = b <;>
      simp [List.filter_cons, hq, hg, List.count_cons, List.countP_cons, ih]

/-! ### invariant group "wire": the registry is the tracker's run over what was written; every line is a request -/

/-- A line `_send` can have written for joblib: a known command, type "file" or "folder", an ASCII name. -/
def WfLine (l : Line) : Prop :=
  ∃ c rt name, l = reqLine c rt name ∧ (∀ b ∈ name, b < 128) ∧ (rt = .file ∨ rt = .folder)

structure Wire (s : State) : Prop where
  distinct : s.reg.Distinct
  isRun : s.reg = (run Registry.empty s.sent.reverse).1
  lines : ∀ l ∈ s.sent, WfLine l

theorem wire_init : Wire State.init :=
  ⟨empty_distinct, rfl, by simp [State.init]⟩

theorem run_snoc (reg : Registry) (ls : List Line) (l : Line) :
    (run reg (ls ++ [l])).1 = (step (run reg ls).1 l).1 := by
  rw [run_append]; simp [run]

theorem wire_send {s : State} (h : Wire s) (c : Cmd) (rt : RType) (name : Name) (ha : ∀ b ∈ name, b < 128)
    (hrt : rt = .file ∨ rt = .folder) : Wire (send s c rt name) := by
  refine ⟨send_distinct _ _ _ _ h.distinct, ?_, ?_⟩
  · rw [send_reg, send_sent, List.reverse_cons, run_snoc, ← h.isRun]
  · intro l hl
    rw [send_sent] at hl
    rcases List.mem_cons.mp hl with rfl | hl
    · exact ⟨c, rt, name, rfl, ha, hrt⟩
    · exact h.lines l hl

theorem wire_sendFile {s : State} (h : Wire s) (c : Cmd) (f : FileKey) : Wire (send s c .file f.name) :=
  wire_send h c .file _ f.name_ascii (Or.inl rfl)

theorem wire_sendFolder {s : State} (h : Wire s) (c : Cmd) (d : FolderKey) : Wire (send s c .folder d.name) :=
  wire_send h c .folder _ d.name_ascii (Or.inr rfl)

/-- Anything that leaves `reg` and `sent` alone keeps the group. -/
theorem wire_of_eq {s t : State} (h : Wire s) (hr : t.reg = s.reg) (hs : t.sent = s.sent) : Wire t :=
  ⟨hr ▸ h.distinct, by rw [hr, hs]; exact h.isRun, by rw [hs]; exact h.lines⟩

theorem foldl_inv {α : Type} {P : State → Prop} (f : State → α → State) (l : List α) (s : State)
    (hf : ∀ s x, x ∈ l → P s → P (f s x)) (h : P s) : P (l.foldl f s) := by
  induction l generalizing s with
  | nil => exact h
  | cons a r ih =>
    exact ih (f s a) (fun s x hx => hf s x (List.mem_cons_of_mem _ hx)) (hf s a (List.mem_cons_self ..) h)

theorem wire_registerNewContext {s : State} (h : Wire s) (m ctx : Nat) : Wire (registerNewContext s m ctx) := by
  unfold registerNewContext
  split
  · exact h
  · exact wire_of_eq (wire_sendFolder h .register ⟨m, ctx⟩) rfl rfl

theorem wire_setCurrentContext {s : State} (h : Wire s) (m ctx : Nat) : Wire (setCurrentContext s m ctx) := by
  unfold setCurrentContext
  apply wire_registerNewContext
  exact wire_of_eq h rfl rfl

theorem wire_newManager {s : State} (h : Wire s) : Wire (newManager s) := by
  unfold newManager
  apply wire_setCurrentContext
  exact wire_of_eq h rfl rfl

theorem wire_releaseExtra (cfg : Cfg) {s : State} (h : Wire s) (m : Nat) (f : FileKey) :
    Wire (releaseExtra cfg s m f) := by
  unfold releaseExtra
  split
  · exact h
  · dsimp only
    apply wire_sendFile
    exact wire_of_eq h rfl rfl

theorem wire_forceUnregister {s : State} (h : Wire s) (f : FileKey) : Wire (forceUnregister s f) := by
  unfold forceUnregister
  apply wire_sendFile
  exact wire_of_eq h rfl rfl

theorem wire_clientRmtree {s : State} (h : Wire s) (d : FolderKey) : Wire (clientRmtree s d) :=
  wire_of_eq h rfl rfl

end JoblibModel.TrackerClient
