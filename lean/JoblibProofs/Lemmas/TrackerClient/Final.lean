import JoblibProofs.Lemmas.TrackerClient.Ops
/-! What is left on disk after the main process ran its atexit callbacks, and after the tracker read EOF. -/
set_option linter.unusedSimpArgs false
set_option linter.unusedVariables false
namespace JoblibModel.TrackerClient
open JoblibModel.Tracker

attribute [local irreducible] send

theorem disk_eq_empty {d : Disk} (h1 : d.dirs = []) (h2 : d.files = []) : d = ⟨[], []⟩ := by
  cases d; simp_all

/-! ### the atexit callbacks -/

theorem atexitCleanup_dirs (s : State) (d x : FolderKey) (hx : x ∈ (atexitCleanup s d).disk.dirs) :
    x ∈ s.disk.dirs ∧ x ≠ d := by
  unfold atexitCleanup at hx
  rw [send_folder_disk _ _ _ d.name_ascii (by simp)] at hx
  split at hx
  · have := mem_rmtree_dirs.mp hx
    exact ⟨this.1, fun e => this.2 (by rw [e])⟩
  · rename_i hnd
    exact ⟨hx, fun e => hnd (e ▸ hx)⟩

theorem atexitLoop_dirs (l : List FolderKey) (s : State) (x : FolderKey)
    (hx : x ∈ (l.foldl atexitCleanup s).disk.dirs) : x ∈ s.disk.dirs ∧ x ∉ l := by
  induction l generalizing s with
  | nil => exact ⟨hx, by simp⟩
  | cons a r ih =>
    simp only [List.foldl_cons] at hx
    obtain ⟨h1, h2⟩ := ih _ hx
    obtain ⟨h3, h4⟩ := atexitCleanup_dirs s a x h1
    exact ⟨h3, by simp [h4, h2]⟩

theorem frame_dropInflight_disk (s : State) (p : Pickle → Bool) :
    (dropInflight s p).disk = s.disk ∧ (dropInflight s p).atexit = s.atexit ∧
    (dropInflight s p).parentAlive = s.parentAlive := ⟨rfl, rfl, rfl⟩

/-- After `exitParent` (the workers have left, the atexit callbacks have run) nothing is left under the temp root. -/
theorem exitParent_disk_empty {cfg : Cfg} {s : State} (h : Inv cfg s) (hpa : s.parentAlive = true) :
    (exitParent s).disk = ⟨[], []⟩ := by
  have hfin := inv_exitParent h
  rw [exitParent_eq] at hfin ⊢
  -- the state before the parent is marked dead still has every folder on disk among the callbacks
  have h0 := inv_dropInflight (inv_endChildren h (liveChildren s.toClient (fun _ => true)) false) (fun _ => true)
  have hpa0 : (dropInflight (endChildren s (liveChildren s.toClient (fun _ => true)) false)
      (fun _ => true)).parentAlive = true := by
    show (endChildren s (liveChildren s.toClient (fun _ => true)) false).parentAlive = true
    rw [(frame_endChildren _ s false).2.2.2.1]; exact hpa
  have hf4 : ∀ d ∈ (preAtexit s).disk.dirs, d ∈ (preAtexit s).atexit := h0.fold.f4 hpa0
  generalize preAtexit s = s1 at hfin hf4
  have hd : (List.foldl atexitCleanup s1 s1.atexit.reverse).disk.dirs = [] := by
    rw [List.eq_nil_iff_forall_not_mem]
    intro x hx
    obtain ⟨h1, h2⟩ := atexitLoop_dirs _ _ x hx
    exact h2 (List.mem_reverse.mpr (hf4 x h1))
  apply disk_eq_empty
  · exact hd
  · rw [List.eq_nil_iff_forall_not_mem]
    intro g hg
    have := hfin.fold.f3 g hg
    rw [show ({ (List.foldl atexitCleanup s1 s1.atexit.reverse) with atexit := [] } : State).disk.dirs
      = (List.foldl atexitCleanup s1 s1.atexit.reverse).disk.dirs from rfl, hd] at this
    simp at this

/-! ### EOF -/

theorem applyAction_dirs (s : State) (a : Action) (x : FolderKey) (hx : x ∈ (applyAction s a).disk.dirs) :
    x ∈ s.disk.dirs ∧ a ≠ .cleanup .folder x.name := by
  cases a with
  | cleanup rt n =>
    cases rt with
    | folder =>
      have := mem_rmtree_dirs.mp hx
      exact ⟨this.1, by simp; exact fun e => this.2 e.symm⟩
    | file => exact ⟨hx, by simp⟩
    | semlock => exact ⟨hx, by simp⟩
  | report e => exact ⟨hx, by simp⟩
  | leakWarning rt n => exact ⟨hx, by simp⟩

theorem applyActions_dirs (l : List Action) (s : State) (x : FolderKey)
    (hx : x ∈ (l.foldl applyAction s).disk.dirs) : x ∈ s.disk.dirs ∧ Action.cleanup .folder x.name ∉ l := by
  induction l generalizing s with
  | nil => exact ⟨hx, by simp⟩
  | cons a r ih =>
    simp only [List.foldl_cons] at hx
    obtain ⟨h1, h2⟩ := ih _ hx
    obtain ⟨h3, h4⟩ := applyAction_dirs s a x h1
    exact ⟨h3, by simp [h2]; exact fun e => h4 e.symm⟩

theorem applyAction_files (s : State) (a : Action) (g : FileKey) (hg : g ∈ (applyAction s a).disk.files) :
    g ∈ s.disk.files ∧ a ≠ .cleanup .folder g.folder.name := by
  cases a with
  | cleanup rt n =>
    cases rt with
    | folder =>
      have := mem_rmtree_files.mp hg
      exact ⟨this.1, by simp; exact fun e => this.2 e.symm⟩
    | file => exact ⟨(List.mem_filter.mp hg).1, by simp⟩
    | semlock => exact ⟨hg, by simp⟩
  | report e => exact ⟨hg, by simp⟩
  | leakWarning rt n => exact ⟨hg, by simp⟩

theorem applyActions_files (l : List Action) (s : State) (g : FileKey)
    (hg : g ∈ (l.foldl applyAction s).disk.files) :
    g ∈ s.disk.files ∧ Action.cleanup .folder g.folder.name ∉ l := by
  induction l generalizing s with
  | nil => exact ⟨hg, by simp⟩
  | cons a r ih =>
    simp only [List.foldl_cons] at hg
    obtain ⟨h1, h2⟩ := ih _ hg
    obtain ⟨h3, h4⟩ := applyAction_files s a g h1
    exact ⟨h3, by simp [h2]; exact fun e => h4 e.symm⟩

theorem cleanup_folder_mem_finish (reg : Registry) (n : Name) (h : lookup (reg.get .folder) n ≠ none) :
    Action.cleanup .folder n ∈ finish reg := by
  rw [finish_eq]
  have hk : n ∈ keys (reg.get .folder) := by
    apply Classical.byContradiction
    intro hn; exact h ((lookup_eq_none_iff _ _).mpr hn)
  exact List.mem_append_right _ ((mem_unlinkResources_cleanup _ _ _ _).mpr ⟨rfl, hk⟩)

/-- The state of `eof` when the tracker starts its `finally:` clean-up. -/
def preEof (s : State) : State :=
  { (dropInflight (endChildren s (liveChildren s.toClient (fun _ => true)) true) (fun _ => true)) with
    parentAlive := false }

theorem eof_eq (s : State) : eof s = (finish (preEof s).reg).foldl applyAction (preEof s) := rfl

theorem inv_preEof {cfg : Cfg} {s : State} (h : Inv cfg s) : Inv cfg (preEof s) :=
  inv_parentDead (inv_dropInflight (inv_endChildren h (liveChildren s.toClient (fun _ => true)) true) (fun _ => true))

/-- After EOF (the last process is gone, the tracker ran its clean-up) nothing is left under the temp root. -/
theorem eof_disk_empty {cfg : Cfg} {s : State} (h : Inv cfg s) : (eof s).disk = ⟨[], []⟩ := by
  rw [eof_eq]
  have h1 := inv_preEof h
  generalize preEof s = s1 at h1
  apply disk_eq_empty
  · rw [List.eq_nil_iff_forall_not_mem]
    intro x hx
    obtain ⟨g1, g2⟩ := applyActions_dirs _ _ x hx
    exact g2 (cleanup_folder_mem_finish _ _ (h1.fold.f2 x g1))
  · rw [List.eq_nil_iff_forall_not_mem]
    intro g hg
    obtain ⟨g1, g2⟩ := applyActions_files _ _ g hg
    exact g2 (cleanup_folder_mem_finish _ _ (h1.fold.f2 _ (h1.fold.f3 g g1)))

end JoblibModel.TrackerClient
