import JoblibProofs.Lemmas.TrackerClient.Procs
/-! Preservation of the invariants by the operations of the client model. -/
set_option linter.unusedSimpArgs false
set_option linter.unusedVariables false
namespace JoblibModel.TrackerClient
open JoblibModel.Tracker

attribute [local irreducible] send

/-! ### executors and pools -/

theorem inv_createWorkers {cfg : Cfg} {s : State} (h : Inv cfg s) (m : Nat) (pool : Bool) (limit : Option Nat)
    (hm : m < s.managers.length) (hfresh : ∀ W ∈ s.workers, W.mgr < m) :
    Inv cfg (createWorkers s m pool limit) := by
  unfold createWorkers
  refine ⟨wire_of_eq h.wire rfl rfl, fold_of_eq h.fold rfl rfl rfl (fun m => rfl) rfl, ⟨h.users.held, ?_, ?_, ?_⟩, ?_, ?_⟩
  · show ((s.workers ++ [(⟨m, pool, false, limit, []⟩ : Workers)]).map (·.mgr)).Nodup
    rw [List.map_append, List.nodup_append]
    refine ⟨h.users.i4, by simp, ?_⟩
    intro a ha b hb
    simp only [List.map_cons, List.map_nil, List.mem_singleton] at hb
    obtain ⟨W, hW, rfl⟩ := List.mem_map.mp ha
    have := hfresh W hW
    subst hb; exact Nat.ne_of_lt this
  · intro W hW
    rcases List.mem_append.mp hW with hW | hW
    · exact h.users.i4b W hW
    · simp only [List.mem_singleton] at hW; subst hW; exact hm
  · intro W hW f hf
    rcases List.mem_append.mp hW with hW | hW
    · exact h.users.x3 W hW f hf
    · simp only [List.mem_singleton] at hW; subst hW; simp at hf
  · intro hd
    exact cnt_of_eq (h.cnt hd) (fun f => rfl) (fun f => trackedUsers_congr rfl rfl rfl rfl f) rfl
  · intro hf
    have hF := h.fix hf
    refine ⟨hF.x1, ?_, hF.x0⟩
    intro W hW hsd f hf
    rcases List.mem_append.mp hW with hW | hW
    · exact hF.x2 W hW hsd f hf
    · simp only [List.mem_singleton] at hW; subst hW; simp at hf

/-- A change of the fields the invariants do not look at. -/
theorem inv_control {cfg : Cfg} {s t : State} (h : Inv cfg s) (hreg : t.reg = s.reg) (hdisk : t.disk = s.disk)
    (hsent : t.sent = s.sent) (hbad : t.bad = s.bad) (hpa : t.parentAlive = s.parentAlive)
    (hm : t.managers = s.managers) (hat : t.atexit = s.atexit) (hh : t.holdings = s.holdings)
    (hch : t.children = s.children) (hw : t.workers = s.workers) (he : t.extra = s.extra)
    (hi : t.inflight = s.inflight) (hl : t.leaked = s.leaked) (hdup : t.dup = s.dup) : Inv cfg t :=
  inv_congr h hreg hdisk hsent hbad hpa (fun m => by simp only [cachedOf_eq, hm])
    (fun m => by simp only [releasedOf_eq, hm]) hat hh hch hw (by rw [hm]; exact Nat.le_refl _) he hi hl hdup

theorem inv_createExecutor {cfg : Cfg} {s : State} (h : Inv cfg s) (m : Nat) (limit : Option Nat)
    (hm : m < s.managers.length) (hfresh : ∀ W ∈ s.workers, W.mgr < m) : Inv cfg (createExecutor s m limit) := by
  unfold createExecutor
  exact inv_control (inv_createWorkers h m false limit hm hfresh) rfl rfl rfl rfl rfl rfl rfl rfl rfl rfl rfl rfl rfl rfl

theorem fresh_shutdownWorkers {s : State} {m : Nat} (hfresh : ∀ W ∈ s.workers, W.mgr < m) (w : Nat) (kill : Bool) :
    ∀ W ∈ (shutdownWorkers s w kill).workers, W.mgr < m := by
  rw [shutdownWorkers_eq]
  split
  · exact hfresh
  · rename_i W0 hW0
    intro W hW
    have hw : (endWorkers s W0.mgr kill).workers = s.workers := (frame_endWorkers s W0.mgr kill).1
    have hW' : W ∈ updAt s.workers w setShutdown := by rw [← hw]; exact hW
    rcases mem_updAt hW' with hW' | ⟨y, hy, rfl⟩
    · exact hfresh W hW'
    · exact hfresh y (List.mem_of_getElem? hy)

theorem inv_reusableExecutor {cfg : Cfg} {s : State} (h : Inv cfg s) (reuse : Bool) (m : Nat) (limit : Option Nat)
    (hm : m < s.managers.length) (hfresh : ∀ W ∈ s.workers, W.mgr < m) :
    Inv cfg (reusableExecutor s reuse m limit) := by
  unfold reusableExecutor
  split
  · exact inv_createExecutor h m limit hm hfresh
  · split
    · apply inv_createExecutor (inv_shutdownWorkers h _ false) m limit
      · rw [(frame_shutdownWorkers s _ false).1]; exact hm
      · exact fresh_shutdownWorkers hfresh _ false
    · exact h

theorem inv_bindContext {cfg : Cfg} {s : State} (h : Inv cfg s) (k : Nat) : Inv cfg (bindContext s k) := by
  unfold bindContext
  split
  · exact h
  · split
    · exact h
    · exact inv_control (inv_registerNewContext h _ _) rfl rfl rfl rfl rfl rfl rfl rfl rfl rfl rfl rfl rfl rfl

theorem pframe_registerNewContext (s : State) (m ctx : Nat) : PFrame s (registerNewContext s m ctx) := by
  unfold registerNewContext
  split
  · exact PFrame.refl s
  · refine ⟨?_, ?_, ?_, ?_, ?_, ?_, ?_, ?_, ?_⟩ <;> simp [updAt_length]

theorem pframe_setCurrentContext (s : State) (m ctx : Nat) : PFrame s (setCurrentContext s m ctx) := by
  unfold setCurrentContext
  have := pframe_registerNewContext { s with managers := updAt s.managers m (fun M => { M with current := ctx }) } m ctx
  exact ⟨this.inflight, this.holdings, this.children, this.workers, by rw [this.mlen]; simp [updAt_length], this.pa,
    this.executor, this.backend, this.executorArgs⟩

theorem newManager_frame (s : State) :
    (newManager s).workers = s.workers ∧ (newManager s).managers.length = s.managers.length + 1 ∧
    (newManager s).parentAlive = s.parentAlive ∧ (newManager s).backend = s.backend ∧
    (newManager s).executor = s.executor := by
  unfold newManager
  have := pframe_setCurrentContext { s with managers := s.managers ++ [⟨[], 0, []⟩] } s.managers.length 0
  exact ⟨this.workers, by rw [this.mlen]; simp, this.pa, this.backend, this.executor⟩

theorem inv_getExecutor {cfg : Cfg} {s : State} (h : Inv cfg s) (args : Args) (limit : Option Nat) (k : Nat) :
    Inv cfg (getExecutor s args limit k) := by
  unfold getExecutor
  apply inv_bindContext
  have h0 : Inv cfg { s with executorArgs := some args } :=
    inv_control h rfl rfl rfl rfl rfl rfl rfl rfl rfl rfl rfl rfl rfl rfl
  obtain ⟨f1, f2, _, _, _⟩ := newManager_frame { s with executorArgs := some args }
  apply inv_reusableExecutor (inv_newManager h0)
  · rw [f2]; exact Nat.lt_succ_self _
  · rw [f1]; exact h.users.i4b

theorem inv_terminateExecutor {cfg : Cfg} {s : State} (h : Inv cfg s) (w : Nat) (kill : Bool) :
    Inv cfg (terminateExecutor cfg s w kill) := by
  unfold terminateExecutor
  split
  · exact h
  · rename_i W hW
    have hn := noUsers_shutdownWorkers h w kill W hW
    exact inv_cleanAll (inv_shutdownWorkers h w kill) W.mgr kill true
      (fun _ => ⟨hn, mgrDown_shutdownWorkers h w kill W hW⟩) (fun _ => hn)

/-! ### `ArrayMemmapForwardReducer.__call__` -/

theorem inv_mkdir {cfg : Cfg} {s : State} (h : Inv cfg s) (d : FolderKey) (hpa : s.parentAlive = true)
    (hc : d.c ∈ cachedOf s.toClient d.m) : Inv cfg (mkdir s d) := by
  unfold mkdir
  split
  · exact h
  · refine ⟨wire_of_eq h.wire rfl rfl, ⟨h.fold.f1, ?_, ?_, ?_, h.fold.f5⟩, h.users, ?_, ?_⟩
    · intro x hx
      rcases List.mem_append.mp hx with hx | hx
      · exact h.fold.f2 x hx
      · simp only [List.mem_singleton] at hx; subst hx
        exact h.fold.f1 hpa x.m x.c hc
    · intro g hg
      exact List.mem_append_left _ (h.fold.f3 g hg)
    · intro hp x hx
      rcases List.mem_append.mp hx with hx | hx
      · exact h.fold.f4 hp x hx
      · simp only [List.mem_singleton] at hx; subst hx
        exact h.fold.f5 hpa x.m x.c hc
    · intro hd
      exact cnt_of_eq (h.cnt hd) (fun f => rfl) (fun f => trackedUsers_congr rfl rfl rfl rfl f) rfl
    · intro hf
      exact fix_of_eq (h.fix hf) rfl rfl (fun m => rfl) rfl rfl

def addTemp (f : FileKey) (W : Workers) : Workers := { W with temporary := f :: W.temporary }

theorem inv_addTemp {cfg : Cfg} {s : State} (hfix : cfg.fix = false) (h : Inv cfg s) (w : Nat) (f : FileKey)
    (W : Workers) (hW : s.workers[w]? = some W) (hfm : f.m = W.mgr) :
    Inv cfg { s with workers := updAt s.workers w (addTemp f) } := by
  refine ⟨wire_of_eq h.wire rfl rfl, fold_of_eq h.fold rfl rfl rfl (fun m => rfl) rfl, ⟨h.users.held, ?_, ?_, ?_⟩, ?_,
    fun hf => by rw [hfix] at hf; simp at hf⟩
  · show ((updAt s.workers w (addTemp f)).map (·.mgr)).Nodup
    rw [map_updAt_preserve s.workers w (addTemp f) (·.mgr) (fun x => rfl)]; exact h.users.i4
  · intro W' hW'
    rcases mem_updAt hW' with hW' | ⟨y, hy, rfl⟩
    · exact h.users.i4b W' hW'
    · exact h.users.i4b y (List.mem_of_getElem? hy)
  · intro W' hW' g hg
    rcases mem_updAt hW' with hW' | ⟨y, hy, rfl⟩
    · exact h.users.x3 W' hW' g hg
    · rw [hW] at hy; simp only [Option.some.injEq] at hy; subst hy
      simp only [addTemp, List.mem_cons] at hg
      rcases hg with rfl | hg
      · exact hfm
      · exact h.users.x3 W (List.mem_of_getElem? hW) g hg
  · intro hd
    exact cnt_of_eq (h.cnt hd) (fun f => rfl) (fun f => trackedUsers_congr rfl rfl rfl rfl f) rfl

theorem execAt_reg_enc (k : Nat) : execAt .register (enc k) = enc (k + 1) := by
  rw [execAt_enc]; simp [absAt]

/-- A `REGISTER` of a file together with one more registered user of it. -/
theorem inv_register_file {cfg : Cfg} {s s' : State} (h : Inv cfg s) (f : FileKey)
    (hreg : s'.reg = s.reg) (hdisk : s'.disk = s.disk) (hsent : s'.sent = s.sent) (hbad : s'.bad = s.bad)
    (hpa : s'.parentAlive = s.parentAlive) (hm : s'.managers = s.managers) (hat : s'.atexit = s.atexit)
    (hh : s'.holdings = s.holdings) (hch : s'.children = s.children) (hw : s'.workers = s.workers)
    (hdup : s'.dup = s.dup) (hex : ∀ g ∈ s.extra, g ∈ s'.extra)
    (htu : ∀ g, trackedUsers s'.toClient g = trackedUsers s.toClient g + (if g = f then 1 else 0)) :
    Inv cfg (send s' .register .file f.name) := by
  have hwire : Wire s' := wire_of_eq h.wire hreg hsent
  have hfold : Fold s' := fold_of_eq h.fold hreg hdisk hpa (fun m => by simp only [cachedOf_eq, hm]) hat
  have hne : (Cmd.register) ≠ .maybeUnlink := by simp
  refine ⟨wire_sendFile hwire _ f, fold_send_file hfold _ f, ?_, ?_, ?_⟩
  · rw [send_toClient]
    exact users_of_eq h.users hh hch hw (by rw [hm])
  · intro hd
    have hc := h.cnt (by rw [← hdup]; simpa using hd)
    refine ⟨?_, ?_⟩
    · intro g
      rw [send_toClient, htu g]
      by_cases hg : g = f
      · subst hg
        rw [send_lookup_same _ _ _ _ g.name_ascii hwire.distinct, hreg, hc.j1 g, execAt_reg_enc]; simp
      · rw [send_lookup_other _ _ _ _ f.name_ascii _ _ (by simp; exact fun e => hg (FileKey.name_inj e)),
          hreg, hc.j1 g]; simp [hg]
    · rw [(send_disk_of_ne_mu s' _ _ _ f.name_ascii hne).2, hbad]; exact hc.b
  · intro hf
    have hF := h.fix hf
    refine ⟨?_, ?_, ?_⟩
    · intro g hg
      rw [(send_disk_of_ne_mu s' _ _ _ f.name_ascii hne).1, hdisk] at hg
      rw [send_toClient]
      rcases hF.x1 g hg with h1 | h1
      · exact Or.inl (hex g h1)
      · right; simpa only [releasedOf_eq, hm] using h1
    · intro W hW hsd g hg
      rw [send_toClient] at hW ⊢
      rw [hw] at hW
      rcases hF.x2 W hW hsd g hg with h1 | h1
      · exact Or.inl (hex g h1)
      · right; simpa only [releasedOf_eq, hm] using h1
    · simp; rw [hdup]; exact hF.x0

theorem inv_registerExtra {cfg : Cfg} {s : State} (h : Inv cfg s) (f : FileKey) : Inv cfg (registerExtra s f) := by
  unfold registerExtra
  refine inv_register_file (s' := { s with extra := f :: s.extra }) h f rfl rfl rfl rfl rfl rfl rfl rfl rfl rfl rfl ?_ ?_
  · intro g hg; exact List.mem_cons_of_mem _ hg
  · intro g
    simp only [trackedUsers, trackedWorkerUsers, List.count_cons]
    by_cases e : g = f
    · subst e; simp; omega
    · have : ¬ f = g := fun e' => e e'.symm
      simp [e, this]

theorem inv_appendInflight {cfg : Cfg} {s : State} (h : Inv cfg s) (f : FileKey) :
    Inv cfg { s with inflight := s.inflight ++ [⟨f, false⟩] } := by
  refine ⟨wire_of_eq h.wire rfl rfl, fold_of_eq h.fold rfl rfl rfl (fun m => rfl) rfl, ?_, ?_, ?_⟩
  · exact ⟨h.users.held, h.users.i4, h.users.i4b, h.users.x3⟩
  · intro hd
    refine cnt_of_eq (h.cnt hd) (fun f => rfl) ?_ rfl
    intro g
    simp [trackedUsers, trackedWorkerUsers, List.countP_append]
  · intro hf
    exact fix_of_eq (h.fix hf) rfl rfl (fun m => rfl) rfl rfl

theorem inv_pickleFor {cfg : Cfg} {s : State} (h : Inv cfg s) (f : FileKey) (tracked : Bool) :
    Inv cfg (pickleFor s f tracked) := by
  unfold pickleFor
  cases tracked with
  | false => exact inv_appendInflight h f
  | true =>
    simp only [if_true]
    -- the pickle is created after the request: nothing looks at it in between
    have e : ({ (send s .register .file f.name) with
        inflight := (send s .register .file f.name).inflight ++ [⟨f, true⟩] } : State)
        = send { s with inflight := s.inflight ++ [⟨f, true⟩] } .register .file f.name := by
      have h1 := send_eq s .register .file f.name f.name_ascii
      have h2 := send_eq { s with inflight := s.inflight ++ [⟨f, true⟩] } .register .file f.name f.name_ascii
      simp only [cleanupOf] at h1 h2
      rw [h1, h2]
    rw [e]
    refine inv_register_file (s' := { s with inflight := s.inflight ++ [⟨f, true⟩] }) h f
      rfl rfl rfl rfl rfl rfl rfl rfl rfl rfl rfl ?_ ?_
    · intro g hg; exact hg
    · intro g
      simp only [trackedUsers, trackedWorkerUsers, List.countP_append, List.countP_cons, List.countP_nil]
      by_cases e : g = f
      · subst e; simp; omega
      · have : ¬ f = g := fun e' => e e'.symm
        simp [e, this]

theorem inv_dumpFile {cfg : Cfg} {s : State} (h : Inv cfg s) (f : FileKey) (hd : f.folder ∈ s.disk.dirs)
    (hx : cfg.fix = true → f ∈ s.extra ∨ f ∈ releasedOf s.toClient f.m) : Inv cfg (dumpFile s f) := by
  unfold dumpFile
  split
  · exact h
  · refine ⟨wire_of_eq h.wire rfl rfl, ⟨h.fold.f1, h.fold.f2, ?_, h.fold.f4, h.fold.f5⟩, h.users, ?_, ?_⟩
    · intro g hg
      rcases List.mem_append.mp hg with hg | hg
      · exact h.fold.f3 g hg
      · simp only [List.mem_singleton] at hg; subst hg; exact hd
    · intro hd'
      exact cnt_of_eq (h.cnt hd') (fun f => rfl) (fun f => trackedUsers_congr rfl rfl rfl rfl f) rfl
    · intro hf
      have hF := h.fix hf
      refine ⟨?_, hF.x2, hF.x0⟩
      intro g hg
      rcases List.mem_append.mp hg with hg | hg
      · exact hF.x1 g hg
      · simp only [List.mem_singleton] at hg; subst hg; exact hx hf

theorem pickleFor_proj (s : State) (f : FileKey) (tracked : Bool) :
    (pickleFor s f tracked).disk = s.disk ∧ (pickleFor s f tracked).extra = s.extra ∧
    (pickleFor s f tracked).managers = s.managers ∧ (pickleFor s f tracked).workers = s.workers ∧
    (pickleFor s f tracked).dup = s.dup ∧ (pickleFor s f tracked).parentAlive = s.parentAlive := by
  unfold pickleFor
  cases tracked with
  | false => simp
  | true =>
    simp only [if_true]
    exact ⟨(send_disk_of_ne_mu s _ _ _ f.name_ascii (by simp)).1, by simp, by simp, by simp, by simp, by simp⟩

theorem registerExtra_proj (s : State) (f : FileKey) :
    (registerExtra s f).disk = s.disk ∧ (registerExtra s f).extra = f :: s.extra ∧
    (registerExtra s f).managers = s.managers ∧ (registerExtra s f).workers = s.workers ∧
    (registerExtra s f).dup = s.dup ∧ (registerExtra s f).parentAlive = s.parentAlive := by
  unfold registerExtra
  exact ⟨(send_disk_of_ne_mu _ _ _ _ f.name_ascii (by simp)).1, by simp, by simp, by simp, by simp, by simp⟩

theorem mem_mkdir_dirs (s : State) (d : FolderKey) : d ∈ (mkdir s d).disk.dirs := by
  unfold mkdir; split
  · assumption
  · exact List.mem_append_right _ (List.mem_singleton.mpr rfl)

theorem mkdir_proj (s : State) (d : FolderKey) :
    (mkdir s d).disk.files = s.disk.files ∧ (mkdir s d).toClient = s.toClient := by
  unfold mkdir; split <;> exact ⟨rfl, rfl⟩

theorem mem_dumpFile_files (s : State) (f g : FileKey) (hg : g ∈ (dumpFile s f).disk.files) :
    g ∈ s.disk.files ∨ g = f := by
  unfold dumpFile at hg; split at hg
  · exact Or.inl hg
  · rcases List.mem_append.mp hg with hg | hg
    · exact Or.inl hg
    · exact Or.inr (List.mem_singleton.mp hg)

theorem dumpFile_toClient (s : State) (f : FileKey) : (dumpFile s f).toClient = s.toClient := by
  unfold dumpFile; split <;> rfl

theorem inv_memmapArray {cfg : Cfg} {s : State} (h : Inv cfg s) (w : Nat) (f : FileKey) (W : Workers)
    (hW : s.workers[w]? = some W) (hfm : f.m = W.mgr) (hpa : s.parentAlive = true)
    (hc : f.c ∈ cachedOf s.toClient f.m) (hlive : W.shutdown = false) :
    Inv cfg (memmapArray s w f W.pool (decide (f ∈ W.temporary))) := by
  unfold memmapArray
  -- step by step without the `Fix` part (the reducer knows the file before its extra reference is taken) …
  have h1 : Inv cfg (mkdir s f.folder) := inv_mkdir h f.folder hpa hc
  obtain ⟨m1, m2⟩ := mkdir_proj s f.folder
  have hd1 := mem_mkdir_dirs s f.folder
  generalize mkdir s f.folder = s1 at h1 m1 m2 hd1
  have hW1 : s1.workers[w]? = some W := by rw [show s1.workers = s.workers from congrArg Client.workers m2]; exact hW
  have h2 : Inv (noFix cfg) { s1 with workers := updAt s1.workers w (addTemp f) } :=
    inv_addTemp (by simp [noFix]) h1.weaken w f W hW1 hfm
  have e2 : ({ s1 with workers := updAt s1.workers w (fun W => { W with temporary := f :: W.temporary }) } : State)
      = { s1 with workers := updAt s1.workers w (addTemp f) } := rfl
  simp only [e2]
  generalize hs2 : ({ s1 with workers := updAt s1.workers w (addTemp f) } : State) = s2 at h2
  have w2 : s2.workers = updAt s.workers w (addTemp f) := by
    subst hs2; show updAt s1.workers w (addTemp f) = _
    rw [show s1.workers = s.workers from congrArg Client.workers m2]
  have d2 : s2.disk = s1.disk := by subst hs2; rfl
  have x2 : s2.extra = s.extra := by subst hs2; exact (congrArg Client.extra m2 : s1.extra = s.extra)
  have g2 : s2.managers = s.managers := by subst hs2; exact (congrArg Client.managers m2 : s1.managers = s.managers)
  have u2 : s2.dup = s.dup := by subst hs2; exact (congrArg Client.dup m2 : s1.dup = s.dup)
  have h3 := inv_pickleFor h2 f (!W.pool)
  obtain ⟨p1, p2, p3, p4, p5, _⟩ := pickleFor_proj s2 f (!W.pool)
  generalize pickleFor s2 f (!W.pool) = s3 at h3 p1 p2 p3 p4 p5
  have h4 : Inv (noFix cfg) (if decide (f ∈ W.temporary) = true then s3 else registerExtra s3 f) := by
    split
    · exact h3
    · exact inv_registerExtra h3 f
  have q : (if decide (f ∈ W.temporary) = true then s3 else registerExtra s3 f).disk = s3.disk ∧
      (∀ g ∈ s3.extra, g ∈ (if decide (f ∈ W.temporary) = true then s3 else registerExtra s3 f).extra) ∧
      (f ∉ W.temporary → f ∈ (if decide (f ∈ W.temporary) = true then s3 else registerExtra s3 f).extra) ∧
      (if decide (f ∈ W.temporary) = true then s3 else registerExtra s3 f).managers = s3.managers ∧
      (if decide (f ∈ W.temporary) = true then s3 else registerExtra s3 f).workers = s3.workers ∧
      (if decide (f ∈ W.temporary) = true then s3 else registerExtra s3 f).dup = s3.dup := by
    obtain ⟨r1, r2, r3, r4, r5, _⟩ := registerExtra_proj s3 f
    split
    · rename_i hk
      exact ⟨rfl, fun g hg => hg, fun hn => absurd (by simpa using hk) hn, rfl, rfl, rfl⟩
    · exact ⟨r1, fun g hg => by rw [r2]; exact List.mem_cons_of_mem _ hg, fun _ => by rw [r2]; simp, r3, r4, r5⟩
  obtain ⟨q1, q2, q3, q4, q5, q6⟩ := q
  generalize (if decide (f ∈ W.temporary) = true then s3 else registerExtra s3 f) = s4 at h4 q1 q2 q3 q4 q5 q6
  have hd4 : f.folder ∈ s4.disk.dirs := by rw [q1, p1, d2]; exact hd1
  apply (inv_dumpFile h4 f hd4 (fun hf => by simp [noFix] at hf)).strengthen
  -- … and the `Fix` part at the end
  intro hfx
  have hF := h.fix hfx
  have hrel : ∀ m', releasedOf (dumpFile s4 f).toClient m' = releasedOf s.toClient m' := by
    intro m'; rw [dumpFile_toClient]; simp only [releasedOf_eq, q4, p3, g2]
  have hext : ∀ g ∈ s.extra, g ∈ (dumpFile s4 f).extra := by
    intro g hg; rw [dumpFile_toClient]; exact q2 g (by rw [p2, x2]; exact hg)
  have hf_ok : f ∈ (dumpFile s4 f).extra ∨ f ∈ releasedOf (dumpFile s4 f).toClient f.m := by
    by_cases hk : f ∈ W.temporary
    · rcases hF.x2 W (List.mem_of_getElem? hW) hlive f hk with h1 | h1
      · exact Or.inl (hext f h1)
      · right; rw [hrel]; exact h1
    · left; rw [dumpFile_toClient]; exact q3 hk
  refine ⟨?_, ?_, ?_⟩
  · intro g hg
    rcases mem_dumpFile_files s4 f g hg with hg | rfl
    · rw [q1, p1, d2, m1] at hg
      rcases hF.x1 g hg with h1 | h1
      · exact Or.inl (hext g h1)
      · right; rw [hrel]; exact h1
    · exact hf_ok
  · intro W' hW' hsd g hg
    rw [dumpFile_toClient, q5, p4, w2] at hW'
    have old : ∀ W0 ∈ s.workers, W0.shutdown = false → ∀ g ∈ W0.temporary,
        g ∈ (dumpFile s4 f).extra ∨ g ∈ releasedOf (dumpFile s4 f).toClient g.m := by
      intro W0 hW0 hs0 g hg
      rcases hF.x2 W0 hW0 hs0 g hg with h1 | h1
      · exact Or.inl (hext g h1)
      · right; rw [hrel]; exact h1
    rcases mem_updAt hW' with hW' | ⟨y, hy, rfl⟩
    · exact old W' hW' hsd g hg
    · rw [hW] at hy; simp only [Option.some.injEq] at hy; subst hy
      simp only [addTemp, List.mem_cons] at hg
      rcases hg with rfl | hg
      · exact hf_ok
      · exact old W (List.mem_of_getElem? hW) hlive g hg
  · rw [dumpFile_toClient, q6, p5, u2]; exact hF.x0

theorem inv_reduceArray {cfg : Cfg} {s : State} (h : Inv cfg s) (k w : Nat) (a : ArrayDesc)
    (hpa : s.parentAlive = true) (hlive : ∀ W, s.workers[w]? = some W → W.shutdown = false) :
    Inv cfg (reduceArray s k w a) := by
  unfold reduceArray
  split
  · exact h
  · rename_i W hW
    have h1 : Inv cfg (if W.pool = true then s else setCurrentContext s W.mgr (k + 1)) := by
      split
      · exact h
      · exact inv_setCurrentContext h _ _
    have f1 : PFrame s (if W.pool = true then s else setCurrentContext s W.mgr (k + 1)) := by
      split
      · exact PFrame.refl s
      · exact pframe_setCurrentContext s _ _
    generalize (if W.pool = true then s else setCurrentContext s W.mgr (k + 1)) = s1 at h1 f1
    dsimp only
    generalize bigEnough W.limit a.nbytes = big
    by_cases hb : (a.memmapBacked || a.hasobject || !big) = true
    · rw [if_pos hb]; exact h1
    · rw [if_neg hb]
      generalize currentOf s1.toClient W.mgr = ctx
      by_cases hc : ctx ∉ cachedOf s1.toClient W.mgr
      · rw [if_pos hc]; exact h1
      · rw [if_neg hc]
        exact inv_memmapArray h1 w ⟨W.mgr, ctx, a.id⟩ W (by rw [f1.workers]; exact hW) rfl (by rw [f1.pa]; exact hpa)
          (Decidable.not_not.mp hc) (hlive W hW)

/-! ### the operations of the workers -/

theorem inv_load_ok {cfg : Cfg} {s : State} (h : Inv cfg s) (c i : Nat) (ch : Child) (p : Pickle)
    (hch : s.children[c]? = some ch) (hp : s.inflight[i]? = some p) (halive : ch.alive = true)
    (hm : p.f.m = ch.mgr) :
    Inv cfg { s with inflight := removeAt s.inflight i, holdings := s.holdings ++ [⟨c, p.f, p.tracked⟩] } := by
  refine ⟨wire_of_eq h.wire rfl rfl, fold_of_eq h.fold rfl rfl rfl (fun m => rfl) rfl, ⟨?_, h.users.i4, h.users.i4b, h.users.x3⟩, ?_, ?_⟩
  · intro x hx
    rcases List.mem_append.mp hx with hx | hx
    · exact h.users.held x hx
    · simp only [List.mem_singleton] at hx; subst hx
      exact ⟨ch, hch, halive, hm.symm⟩
  · intro hd
    refine cnt_of_eq (h.cnt hd) (fun f => rfl) ?_ rfl
    intro g
    have := countP_removeAt s.inflight i p (fun q => decide (q.f = g) && q.tracked) hp
    simp only [trackedUsers, trackedWorkerUsers, List.countP_append, List.countP_cons, List.countP_nil]
    split at this <;> rename_i hq <;> simp [hq] <;> omega
  · intro hf
    exact fix_of_eq (h.fix hf) rfl rfl (fun m => rfl) rfl rfl

theorem inv_load_fail {cfg : Cfg} {s : State} (h : Inv cfg s) (i : Nat) (p : Pickle)
    (hp : s.inflight[i]? = some p) :
    Inv cfg { s with inflight := removeAt s.inflight i,
                     leaked := if p.tracked then s.leaked ++ [p.f] else s.leaked } := by
  refine ⟨wire_of_eq h.wire rfl rfl, fold_of_eq h.fold rfl rfl rfl (fun m => rfl) rfl, ⟨h.users.held, h.users.i4, h.users.i4b, h.users.x3⟩, ?_, ?_⟩
  · intro hd
    refine cnt_of_eq (h.cnt hd) (fun f => rfl) ?_ rfl
    intro g
    have := countP_removeAt s.inflight i p (fun q => decide (q.f = g) && q.tracked) hp
    simp only [trackedUsers, trackedWorkerUsers]
    cases ht : p.tracked with
    | false => simp [ht] at this ⊢; omega
    | true =>
      simp only [ht, if_true, List.count_append, Bool.and_true] at this ⊢
      by_cases e : p.f = g
      · simp [e] at this ⊢; omega
      · simp [e] at this ⊢; omega
  · intro hf
    exact fix_of_eq (h.fix hf) rfl rfl (fun m => rfl) rfl rfl

theorem inv_drop {cfg : Cfg} {s : State} (h : Inv cfg s) (i : Nat) (x : Holding) (hx : s.holdings[i]? = some x) :
    Inv cfg (sendFinalizer { s with holdings := removeAt s.holdings i } x) := by
  have : sendFinalizer { s with holdings := removeAt s.holdings i } x
      = [x].foldl sendFinalizer { s with holdings := removeAt s.holdings i } := rfl
  rw [this]
  apply invP_finalizers
  refine ⟨wire_of_eq h.wire rfl rfl, fold_of_eq h.fold rfl rfl rfl (fun m => rfl) rfl, ⟨?_, h.users.i4, h.users.i4b, h.users.x3⟩, ?_, ?_⟩
  · intro y hy; exact h.users.held y (mem_removeAt hy)
  · intro hd
    have hc := h.cnt hd
    refine ⟨?_, hc.b⟩
    intro g
    show lookup (s.reg.get .file) g.name = _
    rw [hc.j1 g]
    congr 1
    have := countP_removeAt s.holdings i x (fun q => decide (q.f = g) && q.tracked) hx
    simp only [trackedUsers, trackedWorkerUsers, pendOf]
    cases ht : x.tracked with
    | false => simp [ht, List.filter_cons] at this ⊢; omega
    | true =>
      simp only [ht, Bool.and_true] at this
      by_cases e : x.f = g
      · simp [e, ht, List.filter_cons] at this ⊢; omega
      · simp [e, ht, List.filter_cons] at this ⊢; omega
  · intro hf
    exact fix_of_eq (h.fix hf) rfl rfl (fun m => rfl) rfl rfl

theorem inv_workerStep {cfg : Cfg} {s : State} (h : Inv cfg s) (op : Op) : Inv cfg (workerStep s op).1 := by
  unfold workerStep
  split
  · split
    · rename_i ch p hch hp
      split
      · rename_i hg
        simp only [Bool.and_eq_true, decide_eq_true_eq] at hg
        split
        · exact inv_load_ok h _ _ ch p hch hp hg.1 hg.2
        · exact inv_load_fail h _ p hp
      · exact h
    · exact h
  · split
    · rename_i x hx; exact inv_drop h _ x hx
    · exact h
  · split
    · split
      · exact inv_exitChild h _
      · exact h
    · exact h
  · split
    · split
      · exact inv_killChild h _
      · exact h
    · exact h
  · exact h

/-! ### the main process leaves -/

theorem inv_parentDead {cfg : Cfg} {s : State} (h : Inv cfg s) : Inv cfg { s with parentAlive := false } := by
  refine ⟨wire_of_eq h.wire rfl rfl, ⟨?_, h.fold.f2, h.fold.f3, ?_, ?_⟩, ⟨h.users.held, h.users.i4, h.users.i4b, h.users.x3⟩, ?_, ?_⟩
  · intro hp; simp at hp
  · intro hp; simp at hp
  · intro hp; simp at hp
  · intro hd
    exact cnt_of_eq (h.cnt hd) (fun f => rfl) (fun f => trackedUsers_congr rfl rfl rfl rfl f) rfl
  · intro hf
    exact fix_of_eq (h.fix hf) rfl rfl (fun m => rfl) rfl rfl

/-- Nobody is left on the worker side. -/
def AllGone (c : Client) : Prop := c.inflight = [] ∧ c.holdings = []

theorem workerUsers_zero_of_allGone {c : Client} (h : AllGone c) (g : FileKey) : workerUsers c g = 0 := by
  simp [workerUsers, h.1, h.2]

theorem inv_atexitCleanup {cfg : Cfg} {s : State} (h : Inv cfg s) (d : FolderKey) (hpa : s.parentAlive = false)
    (hg : AllGone s.toClient) : Inv cfg (atexitCleanup s d) := by
  unfold atexitCleanup
  generalize hs1 : (if d ∈ s.disk.dirs then clientRmtree s d else s) = s1
  have hcl : s1.toClient = s.toClient := by subst hs1; split <;> rfl
  have hreg : s1.reg = s.reg := by subst hs1; split <;> rfl
  have hsent : s1.sent = s.sent := by subst hs1; split <;> rfl
  have hbad : s1.bad = s.bad := by
    subst hs1; split
    · show s.bad ++ _ = s.bad
      rw [List.append_right_eq_self, List.filter_eq_nil_iff]
      intro g _
      simp [workerUsers_zero_of_allGone hg g]
    · rfl
  have hdirs : ∀ x ∈ s1.disk.dirs, x ∈ s.disk.dirs ∧ x.name ≠ d.name := by
    subst hs1; intro x hx; split at hx
    · exact mem_rmtree_dirs.mp hx
    · rename_i hnd
      exact ⟨hx, fun e => hnd (by rw [← FolderKey.name_inj e]; exact hx)⟩
  have hfiles : ∀ g ∈ s1.disk.files, g ∈ s.disk.files ∧ g.folder ∈ s1.disk.dirs := by
    subst hs1; intro g hg'; split at hg' <;> rename_i hdd
    · rw [if_pos hdd]
      have := mem_rmtree_files.mp hg'
      exact ⟨this.1, mem_rmtree_dirs.mpr ⟨h.fold.f3 g this.1, this.2⟩⟩
    · rw [if_neg hdd]
      exact ⟨hg', h.fold.f3 g hg'⟩
  have hpa1 : s1.parentAlive = false := by rw [show s1.parentAlive = s.parentAlive from congrArg Client.parentAlive hcl]; exact hpa
  have hne : (Cmd.unregister) ≠ .maybeUnlink := by simp
  have e := send_folder_disk s1 .unregister d.name d.name_ascii hne
  have hwire : Wire s1 := wire_of_eq h.wire hreg hsent
  refine ⟨wire_sendFolder hwire _ d, ⟨?_, ?_, ?_, ?_, ?_⟩, ?_, ?_, ?_⟩
  · intro hp; simp [hpa1] at hp
  · intro x hx
    rw [e] at hx
    obtain ⟨hx1, hx2⟩ := hdirs x hx
    rw [send_lookup_other _ _ _ _ d.name_ascii _ _ (by simp [hx2]), hreg]
    exact h.fold.f2 x hx1
  · intro g hg'
    rw [e] at hg' ⊢
    exact (hfiles g hg').2
  · intro hp; simp [hpa1] at hp
  · intro hp; simp [hpa1] at hp
  · rw [send_toClient, hcl]; exact h.users
  · intro hd
    have hc := h.cnt (by have : s1.dup = s.dup := congrArg Client.dup hcl; rw [← this]; simpa using hd)
    refine ⟨?_, ?_⟩
    · intro g
      rw [send_folder_lookup_file, hreg, hc.j1 g, send_toClient, hcl]
    · rw [send_folder_bad _ _ _ d.name_ascii hne, hbad]; exact hc.b
  · intro hf
    have hF := h.fix hf
    refine ⟨?_, ?_, ?_⟩
    · intro g hg'
      rw [e] at hg'
      rw [send_toClient, hcl]
      exact hF.x1 g (hfiles g hg').1
    · intro W hW hsd g hg'
      rw [send_toClient, hcl] at hW ⊢
      exact hF.x2 W hW hsd g hg'
    · have : s1.dup = s.dup := congrArg Client.dup hcl
      simp; rw [this]; exact hF.x0

theorem atexitCleanup_toClient (s : State) (d : FolderKey) : (atexitCleanup s d).toClient = s.toClient := by
  unfold atexitCleanup; rw [send_toClient]; split <;> rfl

theorem inv_atexitLoop {cfg : Cfg} (l : List FolderKey) :
    ∀ s : State, Inv cfg s → s.parentAlive = false → AllGone s.toClient → Inv cfg (l.foldl atexitCleanup s) := by
  induction l with
  | nil => intro s h _ _; exact h
  | cons a r ih =>
    intro s h hpa hg
    simp only [List.foldl_cons]
    apply ih _ (inv_atexitCleanup h a hpa hg)
    · rw [show (atexitCleanup s a).parentAlive = s.parentAlive from congrArg Client.parentAlive (atexitCleanup_toClient s a)]
      exact hpa
    · rw [atexitCleanup_toClient]; exact hg

/-- After every live worker has left, nobody holds a memmap. -/
theorem holdings_nil_endAll {cfg : Cfg} {s : State} (h : Inv cfg s) (kill : Bool) :
    (endChildren s (liveChildren s.toClient (fun _ => true)) kill).holdings = [] := by
  generalize hcs : liveChildren s.toClient (fun _ => true) = cs
  have hinv := inv_endChildren h cs kill
  have hch := endChildren_children cs s kill
  generalize endChildren s cs kill = t at hinv hch
  rw [List.eq_nil_iff_forall_not_mem]
  intro x hx
  obtain ⟨ch, h1, h2, h3⟩ := hinv.users.held x hx
  rw [hch] at h1
  obtain ⟨g1, ch0, g2, g3, g4⟩ := children_after cs s.children x.child ch h1
  have : x.child ∈ cs := by
    rw [← hcs, mem_liveChildren]
    exact ⟨ch0, g2, g4 h2, rfl⟩
  have := g1 this
  rw [h2] at this; exact absurd this (by simp)

theorem allGone_afterLeaving {cfg : Cfg} {s : State} (h : Inv cfg s) (kill : Bool) :
    AllGone (dropInflight (endChildren s (liveChildren s.toClient (fun _ => true)) kill) (fun _ => true)).toClient := by
  refine ⟨?_, ?_⟩
  · show List.filter (fun q => !true) _ = []
    simp
  · exact holdings_nil_endAll h kill

theorem inv_clearAtexit {cfg : Cfg} {s : State} (h : Inv cfg s) (hpa : s.parentAlive = false) :
    Inv cfg { s with atexit := [] } := by
  refine ⟨wire_of_eq h.wire rfl rfl, ⟨h.fold.f1, h.fold.f2, h.fold.f3, ?_, ?_⟩, ⟨h.users.held, h.users.i4, h.users.i4b, h.users.x3⟩, ?_, ?_⟩
  · intro hp; rw [show ({ s with atexit := [] } : State).parentAlive = s.parentAlive from rfl, hpa] at hp; simp at hp
  · intro hp; rw [show ({ s with atexit := [] } : State).parentAlive = s.parentAlive from rfl, hpa] at hp; simp at hp
  · intro hd
    exact cnt_of_eq (h.cnt hd) (fun f => rfl) (fun f => trackedUsers_congr rfl rfl rfl rfl f) rfl
  · intro hf
    exact fix_of_eq (h.fix hf) rfl rfl (fun m => rfl) rfl rfl

theorem atexitLoop_toClient (l : List FolderKey) (s : State) : (l.foldl atexitCleanup s).toClient = s.toClient := by
  induction l generalizing s with
  | nil => rfl
  | cons a r ih => simp only [List.foldl_cons]; rw [ih, atexitCleanup_toClient]

/-- The state of `exitParent` when the atexit callbacks start. -/
def preAtexit (s : State) : State :=
  { (dropInflight (endChildren s (liveChildren s.toClient (fun _ => true)) false) (fun _ => true)) with
    parentAlive := false }

theorem exitParent_eq (s : State) :
    exitParent s = { ((preAtexit s).atexit.reverse.foldl atexitCleanup (preAtexit s)) with atexit := [] } := rfl

theorem inv_exitParent {cfg : Cfg} {s : State} (h : Inv cfg s) : Inv cfg (exitParent s) := by
  rw [exitParent_eq]
  have hg : AllGone (preAtexit s).toClient := allGone_afterLeaving h false
  have h2 : Inv cfg (preAtexit s) :=
    inv_parentDead (inv_dropInflight (inv_endChildren h (liveChildren s.toClient (fun _ => true)) false) (fun _ => true))
  have hpa : (preAtexit s).parentAlive = false := rfl
  generalize preAtexit s = s1 at hg h2 hpa
  have h3 := inv_atexitLoop s1.atexit.reverse _ h2 hpa hg
  apply inv_clearAtexit h3
  rw [show (List.foldl atexitCleanup s1 s1.atexit.reverse).parentAlive = s1.parentAlive from
    congrArg Client.parentAlive (atexitLoop_toClient _ _)]
  exact hpa

/-! ### one operation, a program -/

theorem liveWorkers_live {c : Client} {k w : Nat} (h : liveWorkers c k = some w) :
    ∀ W, c.workers[w]? = some W → W.shutdown = false := by
  unfold liveWorkers at h
  split at h
  · simp at h
  · rename_i w' _
    split at h
    · simp at h
    · rename_i W' hW'
      split at h
      · simp at h
      · rename_i hs
        simp only [Option.some.injEq] at h; subst h
        intro W hW; rw [hW'] at hW; simp only [Option.some.injEq] at hW; subst hW
        simpa using hs

theorem inv_spawn {cfg : Cfg} {s : State} (h : Inv cfg s) (ch : Child) :
    Inv cfg { s with children := s.children ++ [ch] } := by
  refine ⟨wire_of_eq h.wire rfl rfl, fold_of_eq h.fold rfl rfl rfl (fun m => rfl) rfl, ⟨?_, h.users.i4, h.users.i4b, h.users.x3⟩, ?_, ?_⟩
  · intro x hx
    obtain ⟨c0, h1, h2, h3⟩ := h.users.held x hx
    refine ⟨c0, ?_, h2, h3⟩
    show (s.children ++ [ch])[x.child]? = some c0
    rw [List.getElem?_append_left (List.getElem?_eq_some_iff.mp h1).1]; exact h1
  · intro hd
    exact cnt_of_eq (h.cnt hd) (fun f => rfl) (fun f => trackedUsers_congr rfl rfl rfl rfl f) rfl
  · intro hf
    exact fix_of_eq (h.fix hf) rfl rfl (fun m => rfl) rfl rfl

theorem inv_parentStep {cfg : Cfg} {s : State} (h : Inv cfg s) (hpa : s.parentAlive = true) (op : Op) :
    Inv cfg (parentStep cfg s op).1 := by
  unfold parentStep
  split
  · -- configure
    split
    · obtain ⟨f1, f2, _, _, _⟩ := newManager_frame s
      refine inv_control (inv_createWorkers (inv_newManager h) s.managers.length true cfg.maxNbytes ?_ ?_)
        rfl rfl rfl rfl rfl rfl rfl rfl rfl rfl rfl rfl rfl rfl
      · rw [f2]; exact Nat.lt_succ_self _
      · rw [f1]; exact h.users.i4b
    · exact inv_getExecutor h _ _ _
  · -- spawn
    split
    · exact h
    · split
      · exact h
      · exact inv_spawn h _
  · -- reduce
    split
    · exact h
    · rename_i w hw
      exact inv_reduceArray h _ w _ hpa (liveWorkers_live hw)
  · -- terminate
    split
    · exact h
    · split
      · exact h
      · rename_i W hW
        refine inv_control (s := if W.pool = true then cleanAll cfg (endWorkers s W.mgr true) W.mgr false false
          else cleanContext cfg s W.mgr _ false false) ?_ rfl rfl rfl rfl rfl rfl rfl rfl rfl rfl rfl rfl rfl rfl
        split
        · exact inv_cleanAll (inv_endWorkers h _ true) _ false false (fun hf => by simp at hf) (fun hf => by simp at hf)
        · exact inv_cleanContext h _ _ false false (fun hf => by simp at hf) (fun hf => by simp at hf)
  · -- abort
    split
    · exact h
    · split
      · exact h
      · split
        · exact h
        · rename_i k er _ w hw _ W hW hnp
          have h1 : Inv cfg { (terminateExecutor cfg s w true) with backend := assocDel (terminateExecutor cfg s w true).backend k } :=
            inv_control (inv_terminateExecutor h w true) rfl rfl rfl rfl rfl rfl rfl rfl rfl rfl rfl rfl rfl rfl
          split
          · exact inv_getExecutor h1 _ _ _
          · exact h1
  · -- execTerminate
    split
    · exact h
    · exact inv_terminateExecutor h _ _
  · exact inv_exitParent h
  · exact inv_parentDead (inv_dropInflight h _)
  · exact h

theorem inv_stepOp {cfg : Cfg} {s : State} (h : Inv cfg s) (op : Op) : Inv cfg (stepOp cfg s op).1 := by
  unfold stepOp
  split
  · exact inv_workerStep h op
  · split
    · rename_i hpa; exact inv_parentStep h hpa op
    · exact h

theorem inv_runOps {cfg : Cfg} (ops : List Op) : ∀ s : State, Inv cfg s → Inv cfg (runOps cfg s ops) := by
  induction ops with
  | nil => intro s h; exact h
  | cons op r ih => intro s h; exact ih _ (inv_stepOp h op)

end JoblibModel.TrackerClient
