import JoblibProofs.Lemmas.TrackerClient.Basic
/-! The invariants of the composed system (client + tracker + disk) and their preservation by the small functions
of `JoblibModel.TrackerClient`. -/
set_option linter.unusedSimpArgs false
set_option linter.unusedVariables false
namespace JoblibModel.TrackerClient
open JoblibModel.Tracker

/-! ### the invariants -/

/-- Nobody on the worker side uses a file of manager `m`. -/
def NoUsers (c : Client) (m : Nat) : Prop :=
  (∀ p ∈ c.inflight, p.f.m ≠ m) ∧ (∀ h ∈ c.holdings, h.f.m ≠ m)

/-- Every executor / pool built around manager `m` has been shut down. -/
def MgrDown (c : Client) (m : Nat) : Prop := ∀ W ∈ c.workers, W.mgr = m → W.shutdown = true

/-- Folders: what is cached is registered and has its atexit callback; what is on disk is registered (and, while the
parent lives, has its callback); files sit in folders. -/
structure Fold (s : State) : Prop where
  f1 : s.parentAlive = true → ∀ m ctx, ctx ∈ cachedOf s.toClient m →
    lookup (s.reg.get .folder) (FolderKey.mk m ctx).name ≠ none
  f2 : ∀ d ∈ s.disk.dirs, lookup (s.reg.get .folder) d.name ≠ none
  f3 : ∀ f ∈ s.disk.files, f.folder ∈ s.disk.dirs
  f4 : s.parentAlive = true → ∀ d ∈ s.disk.dirs, d ∈ s.atexit
  f5 : s.parentAlive = true → ∀ m ctx, ctx ∈ cachedOf s.toClient m → FolderKey.mk m ctx ∈ s.atexit

/-- Processes: a memmap is held by a live worker of the executor that owns the file; one manager per executor /
pool; a reducer only knows files of its own manager. -/
structure Users (c : Client) : Prop where
  held : ∀ x ∈ c.holdings, ∃ ch, c.children[x.child]? = some ch ∧ ch.alive = true ∧ ch.mgr = x.f.m
  i4 : (c.workers.map (·.mgr)).Nodup
  i4b : ∀ W ∈ c.workers, W.mgr < c.managers.length
  x3 : ∀ W ∈ c.workers, ∀ f ∈ W.temporary, f.m = W.mgr

/-- Counts (as long as no clean-up has released an extra reference that was not held): the tracker's count of a
file is the number of its registered users, and no file was deleted while in use. -/
structure Cnt (s : State) : Prop where
  j1 : ∀ f, lookup (s.reg.get .file) f.name = enc (trackedUsers s.toClient f)
  b : s.bad = []

/-- With the repair: a file on disk, and a file a live reducer knows, has its extra reference held or already
released; no clean-up has released a reference that was not held. -/
structure Fix (s : State) : Prop where
  x1 : ∀ f ∈ s.disk.files, f ∈ s.extra ∨ f ∈ releasedOf s.toClient f.m
  x2 : ∀ W ∈ s.workers, W.shutdown = false → ∀ f ∈ W.temporary, f ∈ s.extra ∨ f ∈ releasedOf s.toClient f.m
  x0 : s.dup = false

structure Inv (cfg : Cfg) (s : State) : Prop where
  wire : Wire s
  fold : Fold s
  users : Users s.toClient
  cnt : s.dup = false → Cnt s
  fix : cfg.fix = true → Fix s

theorem inv_init (cfg : Cfg) : Inv cfg State.init := by
  refine ⟨wire_init, ⟨?_, ?_, ?_, ?_, ?_⟩, ⟨?_, ?_, ?_, ?_⟩, fun _ => ⟨?_, rfl⟩, fun _ => ⟨?_, ?_, rfl⟩⟩ <;>
    simp [State.init, cachedOf, trackedUsers, trackedWorkerUsers, enc, Registry.empty, Registry.get, lookup]

/-! ### `cachedOf` / `releasedOf` under the updates of the manager list -/

/-- `cachedOf` as a function of the manager list alone. -/
def cachedL (ms : List Manager) (m : Nat) : List Nat :=
  match ms[m]? with
  | some M => M.cached
  | none => []

def releasedL (ms : List Manager) (m : Nat) : List FileKey :=
  match ms[m]? with
  | some M => M.released
  | none => []

theorem cachedOf_eq (c : Client) (m : Nat) : cachedOf c m = cachedL c.managers m := rfl
theorem releasedOf_eq (c : Client) (m : Nat) : releasedOf c m = releasedL c.managers m := rfl

theorem getElem?_append_new {α : Type} (l : List α) (x : α) (m : Nat) :
    (l ++ [x])[m]? = if m = l.length then some x else l[m]? := by
  by_cases h : m = l.length
  · subst h; simp
  · by_cases h2 : m < l.length
    · simp [h, List.getElem?_append_left h2]
    · have h3 : l.length < m := by omega
      rw [List.getElem?_eq_none (by simp; omega), if_neg h, List.getElem?_eq_none (by omega)]

theorem cachedL_append_new (ms : List Manager) (M : Manager) (m : Nat) :
    cachedL (ms ++ [M]) m = if m = ms.length then M.cached else cachedL ms m := by
  unfold cachedL
  rw [getElem?_append_new]
  by_cases h : m = ms.length <;> simp [h]

theorem releasedL_append_new (ms : List Manager) (M : Manager) (m : Nat) :
    releasedL (ms ++ [M]) m = if m = ms.length then M.released else releasedL ms m := by
  unfold releasedL
  rw [getElem?_append_new]
  by_cases h : m = ms.length <;> simp [h]

theorem cachedL_updAt (ms : List Manager) (m : Nat) (g : Manager → Manager) (m' : Nat) :
    cachedL (updAt ms m g) m' =
      if m' = m then (match ms[m]? with
        | some M => (g M).cached
        | none => []) else cachedL ms m' := by
  unfold cachedL
  simp only [getElem?_updAt]
  by_cases h : m' = m
  · subst h; simp; cases ms[m']? <;> rfl
  · simp [h]

theorem releasedL_updAt (ms : List Manager) (m : Nat) (g : Manager → Manager) (m' : Nat) :
    releasedL (updAt ms m g) m' =
      if m' = m then (match ms[m]? with
        | some M => (g M).released
        | none => []) else releasedL ms m' := by
  unfold releasedL
  simp only [getElem?_updAt]
  by_cases h : m' = m
  · subst h; simp; cases ms[m']? <;> rfl
  · simp [h]

/-- An update that leaves `cached` alone leaves `cachedL` alone. -/
theorem cachedL_updAt_same (ms : List Manager) (m : Nat) (g : Manager → Manager)
    (hg : ∀ M, (g M).cached = M.cached) (m' : Nat) : cachedL (updAt ms m g) m' = cachedL ms m' := by
  rw [cachedL_updAt]
  by_cases h : m' = m
  · subst h; simp only [if_true, cachedL]; cases ms[m']? <;> simp [hg]
  · simp [h]

theorem releasedL_updAt_same (ms : List Manager) (m : Nat) (g : Manager → Manager)
    (hg : ∀ M, (g M).released = M.released) (m' : Nat) : releasedL (updAt ms m g) m' = releasedL ms m' := by
  rw [releasedL_updAt]
  by_cases h : m' = m
  · subst h; simp only [if_true, releasedL]; cases ms[m']? <;> simp [hg]
  · simp [h]

/-- `cached` grows by `ctx` at manager `m`. -/
theorem mem_cachedL_updAt_append {ms : List Manager} {m ctx m' ctx' : Nat}
    (h : ctx' ∈ cachedL (updAt ms m (fun M => { M with cached := M.cached ++ [ctx] })) m') :
    ctx' ∈ cachedL ms m' ∨ (m' = m ∧ ctx' = ctx) := by
  rw [cachedL_updAt] at h
  by_cases e : m' = m
  · subst e
    simp only [if_true] at h
    unfold cachedL
    cases hM : ms[m']? with
    | none => simp [hM] at h
    | some M =>
      simp only [hM, List.mem_append, List.mem_singleton] at h
      rcases h with h | h
      · exact Or.inl h
      · exact Or.inr ⟨rfl, h⟩
  · simp only [e, if_false] at h
    exact Or.inl h

/-- `cached` loses `ctx` at manager `m`. -/
theorem mem_cachedL_updAt_filter {ms : List Manager} {m ctx m' ctx' : Nat}
    (h : ctx' ∈ cachedL (updAt ms m (fun M => { M with cached := M.cached.filter (fun c => c ≠ ctx) })) m') :
    ctx' ∈ cachedL ms m' ∧ ¬ (m' = m ∧ ctx' = ctx) := by
  rw [cachedL_updAt] at h
  by_cases e : m' = m
  · subst e
    simp only [if_true] at h
    unfold cachedL
    cases hM : ms[m']? with
    | none => simp [hM] at h
    | some M =>
      simp only [hM, List.mem_filter, decide_eq_true_eq] at h
      exact ⟨h.1, fun hh => h.2 hh.2⟩
  · simp only [e, if_false] at h
    exact ⟨h, fun hh => e hh.1⟩

/-! ### transport: a group only looks at some fields -/

theorem trackedUsers_congr {c c' : Client} (h1 : c'.extra = c.extra) (h2 : c'.inflight = c.inflight)
    (h3 : c'.holdings = c.holdings) (h4 : c'.leaked = c.leaked) (f : FileKey) :
    trackedUsers c' f = trackedUsers c f := by
  simp [trackedUsers, trackedWorkerUsers, h1, h2, h3, h4]

theorem users_of_eq {c c' : Client} (h : Users c) (h1 : c'.holdings = c.holdings) (h2 : c'.children = c.children)
    (h3 : c'.workers = c.workers) (h4 : c'.managers.length = c.managers.length) : Users c' :=
  ⟨by rw [h1, h2]; exact h.held, by rw [h3]; exact h.i4, by rw [h3, h4]; exact h.i4b, by rw [h3]; exact h.x3⟩

theorem fold_of_eq {s t : State} (h : Fold s) (hreg : t.reg = s.reg) (hdisk : t.disk = s.disk)
    (hpa : t.parentAlive = s.parentAlive) (hc : ∀ m, cachedOf t.toClient m = cachedOf s.toClient m)
    (hat : t.atexit = s.atexit) : Fold t := by
  refine ⟨?_, ?_, ?_, ?_, ?_⟩
  · intro hp m ctx hcx; rw [hreg]; exact h.f1 (hpa ▸ hp) m ctx (hc m ▸ hcx)
  · intro d hd; rw [hreg]; exact h.f2 d (hdisk ▸ hd)
  · intro f hf; rw [hdisk]; exact h.f3 f (hdisk ▸ hf)
  · intro hp d hd; rw [hat]; exact h.f4 (hpa ▸ hp) d (hdisk ▸ hd)
  · intro hp m ctx hcx; rw [hat]; exact h.f5 (hpa ▸ hp) m ctx (hc m ▸ hcx)

theorem liveUsers_le_tracked (c : Client) (f : FileKey) : liveUsers c f ≤ trackedUsers c f := by
  unfold liveUsers trackedUsers
  split <;> omega

/-- `released` grows by `f` at manager `m`. -/
theorem mem_releasedL_updAt_cons {ms : List Manager} {m m' : Nat} {f g : FileKey}
    (h : g ∈ releasedL ms m') : g ∈ releasedL (updAt ms m (fun M => { M with released := f :: M.released })) m' := by
  rw [releasedL_updAt]
  by_cases e : m' = m
  · subst e
    simp only [if_true]
    unfold releasedL at h
    cases hM : ms[m']? with
    | none => simp [hM] at h
    | some M => simp only [hM] at h; exact List.mem_cons_of_mem _ h
  · simp only [e, if_false]; exact h

theorem releasedL_updAt_cons_self {ms : List Manager} {m : Nat} {f : FileKey} (hm : m < ms.length) :
    f ∈ releasedL (updAt ms m (fun M => { M with released := f :: M.released })) m := by
  rw [releasedL_updAt]
  simp only [if_true]
  cases hM : ms[m]? with
  | none => rw [List.getElem?_eq_none_iff] at hM; omega
  | some M => simp

theorem cnt_of_eq {s t : State} (h : Cnt s)
    (h1 : ∀ f : FileKey, lookup (t.reg.get .file) f.name = lookup (s.reg.get .file) f.name)
    (h2 : ∀ f, trackedUsers t.toClient f = trackedUsers s.toClient f) (h3 : t.bad = s.bad) : Cnt t :=
  ⟨fun f => by rw [h1, h2]; exact h.j1 f, by rw [h3]; exact h.b⟩

theorem fix_of_eq {s t : State} (h : Fix s) (h1 : t.disk.files = s.disk.files) (h2 : t.extra = s.extra)
    (h3 : ∀ m, releasedOf t.toClient m = releasedOf s.toClient m) (h4 : t.workers = s.workers)
    (h5 : t.dup = s.dup) : Fix t :=
  ⟨by rw [h1, h2]; intro f hf; rw [h3]; exact h.x1 f hf,
   by rw [h4, h2]; intro W hW hs f hf; rw [h3]; exact h.x2 W hW hs f hf, by rw [h5]; exact h.x0⟩

/-! ### what a request does to the disk -/

theorem send_dirs_file (s : State) (c : Cmd) (name : Name) (ha : ∀ b ∈ name, b < 128) :
    (send s c .file name).disk.dirs = s.disk.dirs := by
  cases c
  · rw [(send_disk_of_ne_mu s _ _ name ha (by simp)).1]
  · rw [(send_disk_of_ne_mu s _ _ name ha (by simp)).1]
  · rw [(send_mu_file s name ha).1]; split <;> rfl

theorem send_files_sub (s : State) (c : Cmd) (name : Name) (ha : ∀ b ∈ name, b < 128) (g : FileKey)
    (hg : g ∈ (send s c .file name).disk.files) : g ∈ s.disk.files := by
  cases c
  · rwa [(send_disk_of_ne_mu s _ _ name ha (by simp)).1] at hg
  · rwa [(send_disk_of_ne_mu s _ _ name ha (by simp)).1] at hg
  · rw [(send_mu_file s name ha).1] at hg
    split at hg
    · exact (List.mem_filter.mp hg).1
    · exact hg

/-- A request about another name does not remove the file. -/
theorem send_files_keep (s : State) (c : Cmd) (name : Name) (ha : ∀ b ∈ name, b < 128) (g : FileKey)
    (hn : g.name ≠ name) (hg : g ∈ s.disk.files) : g ∈ (send s c .file name).disk.files := by
  cases c
  · rwa [(send_disk_of_ne_mu s _ _ name ha (by simp)).1]
  · rwa [(send_disk_of_ne_mu s _ _ name ha (by simp)).1]
  · rw [(send_mu_file s name ha).1]
    split
    · exact List.mem_filter.mpr ⟨hg, by simpa using hn⟩
    · exact hg

theorem send_folder_disk (s : State) (c : Cmd) (name : Name) (ha : ∀ b ∈ name, b < 128) (hc : c ≠ .maybeUnlink) :
    (send s c .folder name).disk = s.disk := (send_disk_of_ne_mu s c .folder name ha hc).1

theorem send_folder_bad (s : State) (c : Cmd) (name : Name) (ha : ∀ b ∈ name, b < 128) (hc : c ≠ .maybeUnlink) :
    (send s c .folder name).bad = s.bad := (send_disk_of_ne_mu s c .folder name ha hc).2

theorem send_folder_lookup_file (s : State) (c : Cmd) (d : FolderKey) (f : FileKey) :
    lookup ((send s c .folder d.name).reg.get .file) f.name = lookup (s.reg.get .file) f.name :=
  send_lookup_other s c .folder d.name d.name_ascii .file f.name (by simp)

theorem send_file_lookup_folder (s : State) (c : Cmd) (f : FileKey) (n : Name) :
    lookup ((send s c .file f.name).reg.get .folder) n = lookup (s.reg.get .folder) n :=
  send_lookup_other s c .file f.name f.name_ascii .folder n (by simp)

/-! ### requests about a file keep the folder group; requests about a folder keep the other groups -/

theorem fold_send_file {s : State} (h : Fold s) (c : Cmd) (f : FileKey) : Fold (send s c .file f.name) := by
  refine ⟨?_, ?_, ?_, ?_, ?_⟩
  · intro hp m ctx hc
    rw [send_file_lookup_folder]
    exact h.f1 (by simpa using hp) m ctx (by simpa using hc)
  · intro d hd
    rw [send_file_lookup_folder]
    exact h.f2 d (by rwa [send_dirs_file _ _ _ f.name_ascii] at hd)
  · intro g hg
    rw [send_dirs_file _ _ _ f.name_ascii]
    exact h.f3 g (send_files_sub _ _ _ f.name_ascii g hg)
  · intro hp d hd
    rw [send_dirs_file _ _ _ f.name_ascii] at hd
    simpa using h.f4 (by simpa using hp) d hd
  · intro hp m ctx hc
    simpa using h.f5 (by simpa using hp) m ctx (by simpa using hc)

theorem cnt_send_folder {s : State} (h : Cnt s) (c : Cmd) (d : FolderKey) (hc : c ≠ .maybeUnlink) :
    Cnt (send s c .folder d.name) :=
  cnt_of_eq h (fun f => send_folder_lookup_file s c d f) (fun f => by simp)
    (send_folder_bad s c _ d.name_ascii hc)

theorem fix_send_folder {s : State} (h : Fix s) (c : Cmd) (d : FolderKey) (hc : c ≠ .maybeUnlink) :
    Fix (send s c .folder d.name) :=
  fix_of_eq h (by rw [send_folder_disk s c _ d.name_ascii hc]) (by simp) (fun m => by simp) (by simp) (by simp)

end JoblibModel.TrackerClient
