import JoblibProofs.Lemmas.StoreLogic
/-! Knowledge a participant has about the shared directory, and its stability under the other participants' allowed
calls (C11; C05 is the special case of no other participant). -/
namespace JoblibModel.Store

/-- one step of the environment of participant `me`: a call some other participant is allowed to make -/
def Env (π : Par) (lvl : Level) (me : Nat) (fs fs' : FS) : Prop :=
  ∃ o, Allowed π lvl (fun x => x ≠ me) fs o ∧ fs' = (apply o fs).2

def IsDirAt (p : Path) (fs : FS) : Prop := ∃ j, fs.get p = some (.dir j)

/-- directories the environment never removes at a level -/
def Protected : Level → Path → Prop
  | .calls, _ => True
  | .evict, p => ∀ a, ¬ pEntry a <+: p
  | .clear, p => ¬ Below pLoc p ∧ ∀ a, ¬ pEntry a <+: p

theorem getMove_dir {fs : FS} {p q : Path} {i : Nat} {c : Bytes} {x : Path} {j : Nat}
    (h : fs.get x = some (.dir j)) (hp : fs.get p = some (.file i c))
    (hq : fs.get q = none ∨ ∃ j' c', fs.get q = some (.file j' c')) :
    getMove fs p q i c x = some (.dir j) ∨ x = [] := by
  unfold getMove
  by_cases h0 : x = []
  · exact Or.inr h0
  · left
    rw [if_neg h0]
    by_cases h1 : x = q
    · subst h1
      rcases hq with hq | ⟨j', c', hq⟩ <;> rw [hq] at h <;> cases h
    · rw [if_neg h1]
      by_cases h2 : x = p
      · subst h2; rw [hp] at h; cases h
      · rw [if_neg h2]; exact h

theorem dir_stable {π : Par} {lvl : Level} {who : Nat → Prop} {fs : FS} {o : Op} {p : Path}
    (h : IsDirAt p fs) (ha : Allowed π lvl who fs o) (hpr : Protected lvl p) : IsDirAt p (apply o fs).2 := by
  obtain ⟨j, hj⟩ := h
  by_cases h0 : p = []
  · subst h0; exact ⟨0, by simp⟩
  have upd : ∀ (fs' : FS) (p' : Path) (n : Option Node), p' ≠ p → (∀ q, fs'.get q = getUpd fs p' n q) → IsDirAt p fs' := by
    intro fs' p' n hne hg
    refine ⟨j, ?_⟩
    rw [hg]; unfold getUpd
    rw [if_neg h0, if_neg (fun e => hne e.symm)]; exact hj
  cases ha with
  | noop o _ e => rw [e]; exact ⟨j, hj⟩
  | mkdir p' _ =>
    rcases mkdir_spec p' fs with ⟨e, _⟩ | ⟨_, hp', _, _, _, hg⟩
    · rw [e]; exact ⟨j, hj⟩
    · exact upd _ p' _ (by rintro rfl; rw [hj] at hp'; cases hp') hg
  | creat p' _ =>
    rcases creat_spec p' fs with ⟨e, _⟩ | ⟨i0, c0, hp', _, _, _, hg⟩ | ⟨hp', _, _, _, _, hg⟩
    · rw [e]; exact ⟨j, hj⟩
    · exact upd _ p' _ (by rintro rfl; rw [hj] at hp'; cases hp') hg
    · exact upd _ p' _ (by rintro rfl; rw [hj] at hp'; cases hp') hg
  | write p' i d _ =>
    obtain ⟨_, _, _, hg⟩ := write_spec p' i d fs
    exact ⟨j, by rw [hg, hj]; rfl⟩
  | renameOut a o _ _ _ =>
    rcases rename_spec (pTmpOut a o) (pOut a) fs with e | ⟨i0, c0, hp', _, _, _, _, hor, hg⟩
    · rw [e]; exact ⟨j, hj⟩
    · have hq : fs.get (pOut a) = none ∨ ∃ j' c', fs.get (pOut a) = some (.file j' c') := by
        rcases hor with ⟨h1, _⟩ | ⟨j', c', h1, _⟩
        · exact Or.inl h1
        · exact Or.inr ⟨j', c', h1⟩
      rcases getMove_dir hj hp' hq with h1 | h1
      · exact ⟨j, by rw [hg]; exact h1⟩
      · exact absurd h1 h0
  | renameMeta a o _ _ _ =>
    rcases rename_spec (pTmpMeta a o) (pMeta a) fs with e | ⟨i0, c0, hp', _, _, _, _, hor, hg⟩
    · rw [e]; exact ⟨j, hj⟩
    · have hq : fs.get (pMeta a) = none ∨ ∃ j' c', fs.get (pMeta a) = some (.file j' c') := by
        rcases hor with ⟨h1, _⟩ | ⟨j', c', h1, _⟩
        · exact Or.inl h1
        · exact Or.inr ⟨j', c', h1⟩
      rcases getMove_dir hj hp' hq with h1 | h1
      · exact ⟨j, by rw [hg]; exact h1⟩
      · exact absurd h1 h0
  | unlinkE a p' g _ _ =>
    rcases unlink_spec p' _ fs with ⟨e, _⟩ | ⟨i0, c0, hp', _, _, _, _, hg⟩
    · rw [e]; exact ⟨j, hj⟩
    · exact upd _ p' _ (by rintro rfl; rw [hj] at hp'; cases hp') hg
  | unlinkC p' g _ _ =>
    rcases unlink_spec p' _ fs with ⟨e, _⟩ | ⟨i0, c0, hp', _, _, _, _, hg⟩
    · rw [e]; exact ⟨j, hj⟩
    · exact upd _ p' _ (by rintro rfl; rw [hj] at hp'; cases hp') hg
  | rmdirE a p' g hl hb =>
    rcases rmdir_spec p' _ fs with ⟨e, _⟩ | ⟨_, _, _, _, _, _, _, hg⟩
    · rw [e]; exact ⟨j, hj⟩
    · refine upd _ p' _ ?_ hg
      rintro rfl
      cases lvl with
      | calls => exact hl rfl
      | evict => exact hpr a hb
      | clear => exact hpr.2 a hb
  | rmdirC p' g hl hb =>
    rcases rmdir_spec p' _ fs with ⟨e, _⟩ | ⟨_, _, _, _, _, _, _, hg⟩
    · rw [e]; exact ⟨j, hj⟩
    · refine upd _ p' _ ?_ hg
      rintro rfl
      subst hl
      exact hpr.1 hb

theorem dir_stable_env {π : Par} {lvl : Level} {me : Nat} {p : Path} (hpr : Protected lvl p) :
    Stable (Env π lvl me) (IsDirAt p) := by
  rintro fs fs' h ⟨o, ha, rfl⟩
  exact dir_stable h ha hpr

theorem inv_stable_env {π : Par} {s : Bool} {lvl : Level} {me : Nat} : Stable (Env π lvl me) (Inv π s) := by
  rintro fs fs' h ⟨o, ha, rfl⟩
  exact inv_apply h ha


/-! ### Inodes a participant holds open for writing -/

/-- names only participant `me` (or everybody, in place) writes through: its temporaries, `func_code.py`, `.gitignore` -/
def Mine (me : Nat) (p : Path) : Prop := IsTmp (fun x => x = me) p ∨ p = pCode ∨ p = pGit

/-- inode `i` has no location other than `p` -/
def LocOnly (i : Nat) (p : Path) (fs : FS) : Prop := i < fs.next ∧ ∀ q, Loc fs i q → q = p

/-- my temporary `p` is gone or is inode `i` with content `c` -/
def TmpData (p : Path) (i : Nat) (c : Bytes) (fs : FS) : Prop :=
  fs.get p = none ∨ fs.get p = some (.file i c)

theorem tmp_owner {me : Nat} {p : Path} (h : IsTmp (fun x => x = me) p) : ¬ IsTmp (fun x => x ≠ me) p := by
  obtain ⟨a, o, rfl, e⟩ := h
  rintro ⟨a', o', hne, e'⟩
  rcases e with rfl | rfl <;> rcases e' with e' | e' <;>
    simp [pTmpOut, pTmpMeta] at e' <;> exact hne e'.2.symm

theorem mine_not_other {me : Nat} {p : Path} (h : Mine me p) : ¬ IsTmp (fun x => x ≠ me) p := by
  rcases h with h | rfl | rfl
  · exact tmp_owner h
  · rintro ⟨a, o, _, e | e⟩ <;> simp [pCode, pTmpOut, pTmpMeta] at e
  · rintro ⟨a, o, _, e | e⟩ <;> simp [pGit, pTmpOut, pTmpMeta] at e

theorem next_mono (fs : FS) (o : Op) :
    fs.next ≤ (apply o fs).2.next := by
  cases o with
  | stat p => rw [observer_noop _ _ (Or.inl ⟨p, rfl⟩)]; exact Nat.le_refl _
  | lstat p g => rw [lstat_noop]; exact Nat.le_refl _
  | openr p => rw [observer_noop _ _ (Or.inr (Or.inl ⟨p, rfl⟩))]; exact Nat.le_refl _
  | read p i => rw [observer_noop _ _ (Or.inr (Or.inr (Or.inl ⟨p, i, rfl⟩)))]; exact Nat.le_refl _
  | opendir p g => rw [observer_noop _ _ (Or.inr (Or.inr (Or.inr (Or.inl ⟨p, g, rfl⟩))))]; exact Nat.le_refl _
  | readdir p i => rw [observer_noop _ _ (Or.inr (Or.inr (Or.inr (Or.inr ⟨p, i, rfl⟩))))]; exact Nat.le_refl _
  | mkdir p =>
    rcases mkdir_spec p fs with ⟨e, _⟩ | ⟨_, _, _, hn, _, _⟩
    · rw [e]; exact Nat.le_refl _
    · rw [hn]; omega
  | creat p =>
    rcases creat_spec p fs with ⟨e, _⟩ | ⟨_, _, _, _, hn, _, _⟩ | ⟨_, _, _, hn, _, _⟩
    · rw [e]; exact Nat.le_refl _
    · rw [hn]; exact Nat.le_refl _
    · rw [hn]; omega
  | write p i d => rw [(write_spec p i d fs).2.1]; exact Nat.le_refl _
  | rename p q =>
    rcases rename_spec p q fs with e | ⟨_, _, _, _, _, _, hn, _, _⟩
    · rw [e]; exact Nat.le_refl _
    · rw [hn]; exact Nat.le_refl _
  | unlink p g =>
    rcases unlink_spec p _ fs with ⟨e, _⟩ | ⟨_, _, _, _, _, hn, _, _⟩
    · rw [e]; exact Nat.le_refl _
    · rw [hn]; exact Nat.le_refl _
  | rmdir p g =>
    rcases rmdir_spec p _ fs with ⟨e, _⟩ | ⟨_, _, _, _, _, hn, _, _⟩
    · rw [e]; exact Nat.le_refl _
    · rw [hn]; exact Nat.le_refl _

/-- Where the locations of an inode can come from after one call. -/
theorem loc_after (fs : FS) (o : Op) (i : Nat) (q : Path) (h : Loc (apply o fs).2 i q) :
    Loc fs i q ∨ (i = fs.next ∧ ∃ p, o = .creat p) ∨ (∃ p, o = .rename p q ∧ Loc fs i p ∧ q ≠ p) := by
  cases o with
  | stat p => rw [observer_noop _ _ (Or.inl ⟨p, rfl⟩)] at h; exact Or.inl h
  | lstat p g => rw [lstat_noop] at h; exact Or.inl h
  | openr p => rw [observer_noop _ _ (Or.inr (Or.inl ⟨p, rfl⟩))] at h; exact Or.inl h
  | read p j => rw [observer_noop _ _ (Or.inr (Or.inr (Or.inl ⟨p, j, rfl⟩)))] at h; exact Or.inl h
  | opendir p g => rw [observer_noop _ _ (Or.inr (Or.inr (Or.inr (Or.inl ⟨p, g, rfl⟩))))] at h; exact Or.inl h
  | readdir p j => rw [observer_noop _ _ (Or.inr (Or.inr (Or.inr (Or.inr ⟨p, j, rfl⟩))))] at h; exact Or.inl h
  | mkdir p =>
    rcases mkdir_spec p fs with ⟨e, _⟩ | ⟨_, _, _, _, ho, hg⟩
    · rw [e] at h; exact Or.inl h
    · rcases h with ⟨c, h⟩ | ⟨c, h⟩
      · rw [hg] at h
        rcases getUpd_file h with ⟨_, e⟩ | ⟨_, h⟩
        · cases e
        · exact Or.inl (Or.inl ⟨c, h⟩)
      · rw [ho] at h; exact Or.inl (Or.inr ⟨c, h⟩)
  | creat p =>
    rcases creat_spec p fs with ⟨e, _⟩ | ⟨i0, c0, hp, _, _, ho, hg⟩ | ⟨_, _, _, _, ho, hg⟩
    · rw [e] at h; exact Or.inl h
    · rcases h with ⟨c, h⟩ | ⟨c, h⟩
      · rw [hg] at h
        rcases getUpd_file h with ⟨rfl, e⟩ | ⟨_, h⟩
        · cases e; exact Or.inl (Or.inl ⟨c0, hp⟩)
        · exact Or.inl (Or.inl ⟨c, h⟩)
      · rw [ho] at h; exact Or.inl (Or.inr ⟨c, h⟩)
    · rcases h with ⟨c, h⟩ | ⟨c, h⟩
      · rw [hg] at h
        rcases getUpd_file h with ⟨_, e⟩ | ⟨_, h⟩
        · cases e; exact Or.inr (Or.inl ⟨rfl, _, rfl⟩)
        · exact Or.inl (Or.inl ⟨c, h⟩)
      · rw [ho] at h; exact Or.inl (Or.inr ⟨c, h⟩)
  | write p j d =>
    obtain ⟨_, _, ho, hg⟩ := write_spec p j d fs
    rcases h with ⟨c, h⟩ | ⟨c, h⟩
    · rw [hg] at h
      obtain ⟨c0, h0, _⟩ := wr_file h
      exact Or.inl (Or.inl ⟨c0, h0⟩)
    · rw [ho] at h
      obtain ⟨c0, h0⟩ := mem_writeOrphans h
      exact Or.inl (Or.inr ⟨c0, h0⟩)
  | unlink p g =>
    rcases unlink_spec p _ fs with ⟨e, _⟩ | ⟨i0, c0, hp, _, _, _, ho, hg⟩
    · rw [e] at h; exact Or.inl h
    · rcases h with ⟨c, h⟩ | ⟨c, h⟩
      · rw [hg] at h
        rcases getUpd_file h with ⟨_, e⟩ | ⟨_, h⟩
        · cases e
        · exact Or.inl (Or.inl ⟨c, h⟩)
      · rw [ho] at h
        rcases List.mem_cons.mp h with e | h
        · cases e; exact Or.inl (Or.inl ⟨c0, hp⟩)
        · exact Or.inl (Or.inr ⟨c, h⟩)
  | rmdir p g =>
    rcases rmdir_spec p _ fs with ⟨e, _⟩ | ⟨_, _, _, _, _, _, ho, hg⟩
    · rw [e] at h; exact Or.inl h
    · rcases h with ⟨c, h⟩ | ⟨c, h⟩
      · rw [hg] at h
        rcases getUpd_file h with ⟨_, e⟩ | ⟨_, h⟩
        · cases e
        · exact Or.inl (Or.inl ⟨c, h⟩)
      · rw [ho] at h; exact Or.inl (Or.inr ⟨c, h⟩)
  | rename p q' =>
    rcases rename_spec p q' fs with e | ⟨i0, c0, hp, hne, _, _, _, hor, hg⟩
    · rw [e] at h; exact Or.inl h
    · rcases h with ⟨c, h⟩ | ⟨c, h⟩
      · rw [hg] at h
        unfold getMove at h
        split at h
        · cases h
        · split at h
          · rename_i hq; cases h; subst hq
            exact Or.inr (Or.inr ⟨p, rfl, Or.inl ⟨c0, hp⟩, hne⟩)
          · split at h
            · cases h
            · exact Or.inl (Or.inl ⟨c, h⟩)
      · rcases hor with ⟨_, ho⟩ | ⟨j, c', hq, ho⟩
        · rw [ho] at h; exact Or.inl (Or.inr ⟨c, h⟩)
        · rw [ho] at h
          rcases List.mem_cons.mp h with e | h
          · cases e; exact Or.inl (Or.inl ⟨_, hq⟩)
          · exact Or.inl (Or.inr ⟨c, h⟩)

theorem locOnly_stable {π : Par} {lvl : Level} {me : Nat} {i : Nat} {p : Path} (hp : Mine me p) :
    Stable (Env π lvl me) (LocOnly i p) := by
  rintro fs fs' ⟨hlt, hl⟩ ⟨o, ha, rfl⟩
  refine ⟨Nat.lt_of_lt_of_le hlt (next_mono fs o), fun q hq => ?_⟩
  rcases loc_after fs o i q hq with h | ⟨e, _⟩ | ⟨p', rfl, hl', _⟩
  · exact hl q h
  · omega
  · have : p' = p := hl p' hl'
    subst this
    exfalso
    cases ha with
    | noop o hno e =>
      -- the rename changed nothing, so `q` already was a location
      rw [e] at hq
      have := hl q hq
      rename_i hne
      exact hne this
    | renameOut a o _ ho _ => exact mine_not_other hp ⟨a, o, ho, Or.inl rfl⟩
    | renameMeta a o _ ho _ => exact mine_not_other hp ⟨a, o, ho, Or.inr rfl⟩


theorem tmp_ne_nil {who : Nat → Prop} {p : Path} (h : IsTmp who p) : p ≠ [] := by
  obtain ⟨a, o, _, rfl | rfl⟩ := h <;> simp [pTmpOut, pTmpMeta]

theorem getUpd_ne {fs : FS} {p' : Path} {n : Option Node} {p : Path} (h0 : p ≠ []) (hne : p ≠ p') :
    getUpd fs p' n p = fs.get p := by
  unfold getUpd; rw [if_neg h0, if_neg hne]

theorem tmp_not_writable_by_others {π : Par} {me : Nat} {d : Bytes} {p : Path} (hp : IsTmp (fun x => x = me) p) :
    ¬ Writable π (fun x => x ≠ me) d p := by
  rintro (h | h | ⟨h, _⟩)
  · exact tmp_owner hp h
  · obtain ⟨a, o, _, e | e⟩ := hp <;> rw [e] at h <;> simp [pGit, pTmpOut, pTmpMeta] at h
  · obtain ⟨a, o, _, e | e⟩ := hp <;> rw [e] at h <;> simp [pCode, pTmpOut, pTmpMeta] at h

theorem tmpData_stable {π : Par} {lvl : Level} {me : Nat} {p : Path} {i : Nat} {c : Bytes}
    (hp : IsTmp (fun x => x = me) p) : Stable (Env π lvl me) (TmpData p i c) := by
  rintro fs fs' h ⟨o, ha, rfl⟩
  have h0 := tmp_ne_nil hp
  have hfile := isTmp_file hp
  have keep : ∀ fs' : FS, fs'.get p = fs.get p → TmpData p i c fs' := by
    intro fs' e; unfold TmpData; rw [e]; exact h
  cases ha with
  | noop o _ e => rw [e]; exact h
  | mkdir p' hd =>
    rcases mkdir_spec p' fs with ⟨e, _⟩ | ⟨_, _, _, _, _, hg⟩
    · rw [e]; exact h
    · refine keep _ ?_
      rw [hg]; exact getUpd_ne h0 (by rintro rfl; exact dir_not_file hd hfile)
  | creat p' hc =>
    have hne : p ≠ p' := by
      rintro rfl
      rcases hc with hc | rfl | rfl
      · exact tmp_owner hp hc
      · obtain ⟨a, o, _, e | e⟩ := hp <;> simp [pGit, pTmpOut, pTmpMeta] at e
      · obtain ⟨a, o, _, e | e⟩ := hp <;> simp [pCode, pTmpOut, pTmpMeta] at e
    rcases creat_spec p' fs with ⟨e, _⟩ | ⟨_, _, _, _, _, _, hg⟩ | ⟨_, _, _, _, _, hg⟩
    · rw [e]; exact h
    · exact keep _ (by rw [hg]; exact getUpd_ne h0 hne)
    · exact keep _ (by rw [hg]; exact getUpd_ne h0 hne)
  | write p' j d hw =>
    obtain ⟨_, _, _, hg⟩ := write_spec p' j d fs
    rcases h with h | h
    · left; rw [hg, h]; rfl
    · right
      rw [hg, h]
      by_cases hji : i = j
      · subst hji
        exact absurd (hw p (Or.inl ⟨c, h⟩)) (tmp_not_writable_by_others hp)
      · simp [wr, hji]
  | renameOut a o _ ho _ =>
    have h1 : p ≠ pTmpOut a o := by rintro rfl; exact tmp_owner hp ⟨a, o, ho, Or.inl rfl⟩
    have h2 : p ≠ pOut a := by rintro rfl; exact not_creatable_out (who := fun x => x = me) a (Or.inl hp)
    rcases rename_spec (pTmpOut a o) (pOut a) fs with e | ⟨_, _, _, _, _, _, _, _, hg⟩
    · rw [e]; exact h
    · refine keep _ ?_
      rw [hg]; unfold getMove; rw [if_neg h0, if_neg h2, if_neg h1]
  | renameMeta a o _ ho _ =>
    have h1 : p ≠ pTmpMeta a o := by rintro rfl; exact tmp_owner hp ⟨a, o, ho, Or.inr rfl⟩
    have h2 : p ≠ pMeta a := by rintro rfl; exact not_creatable_meta (who := fun x => x = me) a (Or.inl hp)
    rcases rename_spec (pTmpMeta a o) (pMeta a) fs with e | ⟨_, _, _, _, _, _, _, _, hg⟩
    · rw [e]; exact h
    · refine keep _ ?_
      rw [hg]; unfold getMove; rw [if_neg h0, if_neg h2, if_neg h1]
  | unlinkE a p' g _ _ =>
    rcases unlink_spec p' _ fs with ⟨e, _⟩ | ⟨_, _, _, _, _, _, _, hg⟩
    · rw [e]; exact h
    · by_cases hpp : p = p'
      · left; rw [hg, hpp]; unfold getUpd; rw [if_neg (hpp ▸ h0)]; simp
      · exact keep _ (by rw [hg]; exact getUpd_ne h0 hpp)
  | unlinkC p' g _ _ =>
    rcases unlink_spec p' _ fs with ⟨e, _⟩ | ⟨_, _, _, _, _, _, _, hg⟩
    · rw [e]; exact h
    · by_cases hpp : p = p'
      · left; rw [hg, hpp]; unfold getUpd; rw [if_neg (hpp ▸ h0)]; simp
      · exact keep _ (by rw [hg]; exact getUpd_ne h0 hpp)
  | rmdirE a p' g _ _ =>
    rcases rmdir_spec p' _ fs with ⟨e, _⟩ | ⟨_, _, _, _, _, _, _, hg⟩
    · rw [e]; exact h
    · by_cases hpp : p = p'
      · left; rw [hg, hpp]; unfold getUpd; rw [if_neg (hpp ▸ h0)]; simp
      · exact keep _ (by rw [hg]; exact getUpd_ne h0 hpp)
  | rmdirC p' g _ _ =>
    rcases rmdir_spec p' _ fs with ⟨e, _⟩ | ⟨_, _, _, _, _, _, _, hg⟩
    · rw [e]; exact h
    · by_cases hpp : p = p'
      · left; rw [hg, hpp]; unfold getUpd; rw [if_neg (hpp ▸ h0)]; simp
      · exact keep _ (by rw [hg]; exact getUpd_ne h0 hpp)

/-! ### Own calls: creating, writing and renaming a temporary (or writing `func_code.py` / `.gitignore` in place) -/

theorem mine_creatable {me : Nat} {p : Path} (h : Mine me p) : IsTmp (fun x => x = me) p ∨ p = pGit ∨ p = pCode := by
  rcases h with h | h | h
  · exact Or.inl h
  · exact Or.inr (Or.inr h)
  · exact Or.inr (Or.inl h)

/-- After `creat p` returned a descriptor, its inode is located at `p` only, and holds no data. -/
theorem own_creat {fs : FS} {p : Path} {i : Nat} (hwf : WF fs) (hr : (apply (.creat p) fs).1 = .fd i) :
    LocOnly i p (apply (.creat p) fs).2 ∧ (apply (.creat p) fs).2.get p = some (.file i []) := by
  rcases creat_spec p fs with ⟨_, hno⟩ | ⟨i0, c0, hp, hfd, hn, ho, hg⟩ | ⟨hp, _, hfd, hn, ho, hg⟩
  · exact absurd hr (hno i)
  · rw [hfd] at hr; cases hr
    have hp0 : p ≠ [] := by rintro rfl; simp at hp
    refine ⟨⟨by rw [hn]; exact hwf.fresh _ _ _ hp, fun q hq => ?_⟩, by rw [hg]; unfold getUpd; rw [if_neg hp0]; simp⟩
    rcases hq with ⟨c, hq⟩ | ⟨c, hq⟩
    · rw [hg] at hq
      rcases getUpd_file hq with ⟨e, _⟩ | ⟨_, hq⟩
      · exact e
      · exact hwf.distinct _ _ _ _ _ hq hp
    · rw [ho] at hq; exact (hwf.sep _ _ _ _ _ hp hq).elim
  · rw [hfd] at hr; cases hr
    have hp0 : p ≠ [] := by rintro rfl; simp at hp
    refine ⟨⟨by rw [hn]; omega, fun q hq => ?_⟩, by rw [hg]; unfold getUpd; rw [if_neg hp0]; simp⟩
    rcases hq with ⟨c, hq⟩ | ⟨c, hq⟩
    · rw [hg] at hq
      rcases getUpd_file hq with ⟨e, _⟩ | ⟨_, hq⟩
      · exact e
      · have := hwf.fresh _ _ _ hq; omega
    · rw [ho] at hq; have := hwf.orphFresh _ _ _ hq; omega

theorem own_write_allowed {π : Par} {lvl : Level} {me : Nat} {fs : FS} {p p' : Path} {i : Nat} {d : Bytes}
    (hp : Mine me p) (hl : LocOnly i p fs) (hd : p = pCode → d <+: π.cd.codeText π.ver) :
    Allowed π lvl (fun x => x = me) fs (.write p' i d) := by
  refine .write p' i d fun q hq => ?_
  have := hl.2 q hq
  subst this
  rcases hp with h | rfl | rfl
  · exact Or.inl h
  · exact Or.inr (Or.inr ⟨rfl, hd rfl⟩)
  · exact Or.inr (Or.inl rfl)

theorem locOnly_write {fs : FS} {p p' : Path} {i j : Nat} {d : Bytes} (hl : LocOnly i p fs) :
    LocOnly i p (apply (.write p' j d) fs).2 := by
  refine ⟨by rw [(write_spec p' j d fs).2.1]; exact hl.1, fun q hq => ?_⟩
  rcases loc_after fs (.write p' j d) i q hq with h | ⟨_, _, e⟩ | ⟨_, e, _⟩
  · exact hl.2 q h
  · cases e
  · cases e

theorem tmpData_write {fs : FS} {p p' : Path} {i : Nat} {c d : Bytes} (h : TmpData p i c fs) :
    TmpData p i (overwrite c d) (apply (.write p' i d) fs).2 := by
  obtain ⟨_, _, _, hg⟩ := write_spec p' i d fs
  rcases h with h | h
  · left; rw [hg, h]; rfl
  · right; rw [hg, h]; simp [wr]

theorem overwrite_nil (d : Bytes) : overwrite [] d = d := by simp [overwrite]


/-! ### A result file held open for reading -/

def Sealed (q : Path) : Prop := ∃ a, q = pOut a ∨ q = pMeta a

/-- The file opened at the final name `p` as inode `i` holds `D`: it is still there, or it was replaced / removed and
survives as an orphan nobody may write to. -/
def ReadK (p : Path) (i : Nat) (D : Bytes) (fs : FS) : Prop :=
  fs.get p = some (.file i D) ∨
  ((∀ q c, fs.get q ≠ some (.file i c)) ∧ inoInOrphans i fs.orphans = some D ∧ i < fs.next ∧
    ∀ q c, (q, i, c) ∈ fs.orphans → Sealed q)

theorem readK_read {p : Path} {i : Nat} {D : Bytes} {fs : FS} (h : ReadK p i D fs) : fs.readData p i = D := by
  unfold FS.readData
  rcases h with h | ⟨h1, h2, _, _⟩
  · rw [h]; simp
  · cases hg : fs.get p with
    | none => simp [h2]
    | some nd =>
      cases nd with
      | dir j => simp [h2]
      | file j c =>
        by_cases hji : j = i
        · subst hji; exact absurd hg (h1 p c)
        · simp [hji, h2]

theorem sealed_not_writable {π : Par} {who : Nat → Prop} {d : Bytes} {q : Path} (h : Sealed q) : ¬ Writable π who d q := by
  obtain ⟨a, rfl | rfl⟩ := h
  · exact not_writable_out a
  · exact not_writable_meta a

theorem inoInOrphans_mem {i : Nat} {l : List (Path × Nat × Bytes)} {D : Bytes} (h : inoInOrphans i l = some D) :
    ∃ q, (q, i, D) ∈ l := by
  induction l with
  | nil => cases h
  | cons x r ih =>
    obtain ⟨q, j, c⟩ := x
    unfold inoInOrphans at h
    split at h
    · rename_i hji; cases h; subst hji; exact ⟨q, List.mem_cons_self⟩
    · obtain ⟨q', hq'⟩ := ih h; exact ⟨q', List.mem_cons_of_mem _ hq'⟩

theorem inoInOrphans_write_ne {i j : Nat} (hne : j ≠ i) (d : Bytes) (l : List (Path × Nat × Bytes)) :
    inoInOrphans i (writeOrphans j d l) = inoInOrphans i l := by
  induction l with
  | nil => rfl
  | cons x r ih =>
    obtain ⟨q, k, c⟩ := x
    unfold writeOrphans inoInOrphans
    by_cases hki : k = i
    · subst hki
      have : ¬ k = j := fun e => hne e.symm
      simp [this]
    · simp [hki, ih]

/-- A file that is linked after a call was linked before it, or is the fresh inode of a `creat`. -/
theorem linked_after (fs : FS) (o : Op) (i : Nat) (q : Path) (c : Bytes)
    (h : (apply o fs).2.get q = some (.file i c)) : (∃ q' c', fs.get q' = some (.file i c')) ∨ i = fs.next := by
  cases o with
  | stat p => rw [observer_noop _ _ (Or.inl ⟨p, rfl⟩)] at h; exact Or.inl ⟨q, c, h⟩
  | lstat p g => rw [lstat_noop] at h; exact Or.inl ⟨q, c, h⟩
  | openr p => rw [observer_noop _ _ (Or.inr (Or.inl ⟨p, rfl⟩))] at h; exact Or.inl ⟨q, c, h⟩
  | read p j => rw [observer_noop _ _ (Or.inr (Or.inr (Or.inl ⟨p, j, rfl⟩)))] at h; exact Or.inl ⟨q, c, h⟩
  | opendir p g => rw [observer_noop _ _ (Or.inr (Or.inr (Or.inr (Or.inl ⟨p, g, rfl⟩))))] at h; exact Or.inl ⟨q, c, h⟩
  | readdir p j => rw [observer_noop _ _ (Or.inr (Or.inr (Or.inr (Or.inr ⟨p, j, rfl⟩))))] at h; exact Or.inl ⟨q, c, h⟩
  | mkdir p =>
    rcases mkdir_spec p fs with ⟨e, _⟩ | ⟨_, _, _, _, _, hg⟩
    · rw [e] at h; exact Or.inl ⟨q, c, h⟩
    · rw [hg] at h
      rcases getUpd_file h with ⟨_, e⟩ | ⟨_, h⟩
      · cases e
      · exact Or.inl ⟨q, c, h⟩
  | creat p =>
    rcases creat_spec p fs with ⟨e, _⟩ | ⟨i0, c0, hp, _, _, _, hg⟩ | ⟨_, _, _, _, _, hg⟩
    · rw [e] at h; exact Or.inl ⟨q, c, h⟩
    · rw [hg] at h
      rcases getUpd_file h with ⟨_, e⟩ | ⟨_, h⟩
      · cases e; exact Or.inl ⟨p, c0, hp⟩
      · exact Or.inl ⟨q, c, h⟩
    · rw [hg] at h
      rcases getUpd_file h with ⟨_, e⟩ | ⟨_, h⟩
      · cases e; exact Or.inr rfl
      · exact Or.inl ⟨q, c, h⟩
  | write p j d =>
    rw [(write_spec p j d fs).2.2.2] at h
    obtain ⟨c0, h0, _⟩ := wr_file h
    exact Or.inl ⟨q, c0, h0⟩
  | unlink p g =>
    rcases unlink_spec p _ fs with ⟨e, _⟩ | ⟨_, _, _, _, _, _, _, hg⟩
    · rw [e] at h; exact Or.inl ⟨q, c, h⟩
    · rw [hg] at h
      rcases getUpd_file h with ⟨_, e⟩ | ⟨_, h⟩
      · cases e
      · exact Or.inl ⟨q, c, h⟩
  | rmdir p g =>
    rcases rmdir_spec p _ fs with ⟨e, _⟩ | ⟨_, _, _, _, _, _, _, hg⟩
    · rw [e] at h; exact Or.inl ⟨q, c, h⟩
    · rw [hg] at h
      rcases getUpd_file h with ⟨_, e⟩ | ⟨_, h⟩
      · cases e
      · exact Or.inl ⟨q, c, h⟩
  | rename p q' =>
    rcases rename_spec p q' fs with e | ⟨i0, c0, hp, _, _, _, _, _, hg⟩
    · rw [e] at h; exact Or.inl ⟨q, c, h⟩
    · rw [hg] at h
      unfold getMove at h
      split at h
      · cases h
      · split at h
        · cases h; exact Or.inl ⟨p, _, hp⟩
        · split at h
          · cases h
          · exact Or.inl ⟨q, c, h⟩

/-- New orphan records come from files that were linked (under the same inode). -/
theorem orphans_after (fs : FS) (o : Op) :
    (∃ j d, (apply o fs).2.orphans = writeOrphans j d fs.orphans ∧ ∃ p, o = .write p j d) ∨
    (apply o fs).2.orphans = fs.orphans ∨
    (∃ q j c, (apply o fs).2.orphans = (q, j, c) :: fs.orphans ∧ fs.get q = some (.file j c)) := by
  cases o with
  | stat p => rw [observer_noop _ _ (Or.inl ⟨p, rfl⟩)]; exact Or.inr (Or.inl rfl)
  | lstat p g => rw [lstat_noop]; exact Or.inr (Or.inl rfl)
  | openr p => rw [observer_noop _ _ (Or.inr (Or.inl ⟨p, rfl⟩))]; exact Or.inr (Or.inl rfl)
  | read p j => rw [observer_noop _ _ (Or.inr (Or.inr (Or.inl ⟨p, j, rfl⟩)))]; exact Or.inr (Or.inl rfl)
  | opendir p g => rw [observer_noop _ _ (Or.inr (Or.inr (Or.inr (Or.inl ⟨p, g, rfl⟩))))]; exact Or.inr (Or.inl rfl)
  | readdir p j => rw [observer_noop _ _ (Or.inr (Or.inr (Or.inr (Or.inr ⟨p, j, rfl⟩))))]; exact Or.inr (Or.inl rfl)
  | mkdir p =>
    rcases mkdir_spec p fs with ⟨e, _⟩ | ⟨_, _, _, _, ho, _⟩
    · rw [e]; exact Or.inr (Or.inl rfl)
    · exact Or.inr (Or.inl ho)
  | creat p =>
    rcases creat_spec p fs with ⟨e, _⟩ | ⟨_, _, _, _, _, ho, _⟩ | ⟨_, _, _, _, ho, _⟩
    · rw [e]; exact Or.inr (Or.inl rfl)
    · exact Or.inr (Or.inl ho)
    · exact Or.inr (Or.inl ho)
  | write p j d => exact Or.inl ⟨j, d, (write_spec p j d fs).2.2.1, p, rfl⟩
  | unlink p g =>
    rcases unlink_spec p _ fs with ⟨e, _⟩ | ⟨i0, c0, hp, _, _, _, ho, _⟩
    · rw [e]; exact Or.inr (Or.inl rfl)
    · exact Or.inr (Or.inr ⟨p, i0, c0, ho, hp⟩)
  | rmdir p g =>
    rcases rmdir_spec p _ fs with ⟨e, _⟩ | ⟨_, _, _, _, _, _, ho, _⟩
    · rw [e]; exact Or.inr (Or.inl rfl)
    · exact Or.inr (Or.inl ho)
  | rename p q' =>
    rcases rename_spec p q' fs with e | ⟨_, _, _, _, _, _, _, hor, _⟩
    · rw [e]; exact Or.inr (Or.inl rfl)
    · rcases hor with ⟨_, ho⟩ | ⟨j, c', hq, ho⟩
      · exact Or.inr (Or.inl ho)
      · exact Or.inr (Or.inr ⟨q', j, c', ho, hq⟩)


theorem sealed_ne_nil {p : Path} (h : Sealed p) : p ≠ [] := by
  obtain ⟨a, rfl | rfl⟩ := h <;> simp [pOut, pMeta]

theorem sealed_not_creatable {who : Nat → Prop} {p : Path} (h : Sealed p) : ¬ (IsTmp who p ∨ p = pGit ∨ p = pCode) := by
  obtain ⟨a, rfl | rfl⟩ := h
  · exact not_creatable_out a
  · exact not_creatable_meta a

theorem readK_displaced {p : Path} {i : Nat} {D : Bytes} {fs fs' : FS} (hs : Sealed p) (hwf : WF fs)
    (hp : fs.get p = some (.file i D)) (hn : fs'.next = fs.next) (ho : fs'.orphans = (p, i, D) :: fs.orphans)
    (hgone : ∀ q c, fs'.get q ≠ some (.file i c)) : ReadK p i D fs' := by
  refine Or.inr ⟨hgone, ?_, ?_, ?_⟩
  · rw [ho]; simp [inoInOrphans]
  · rw [hn]; exact hwf.fresh _ _ _ hp
  · intro q c hq
    rw [ho] at hq
    rcases List.mem_cons.mp hq with e | hq
    · cases e; exact hs
    · exact (hwf.sep _ _ _ _ _ hp hq).elim

theorem readK_stable {π : Par} {lvl : Level} {me : Nat} {p : Path} {i : Nat} {D : Bytes} (hs : Sealed p) :
    Stable (Env π lvl me) (fun fs => WF fs ∧ ReadK p i D fs) := by
  rintro fs fs' ⟨hwf, h⟩ ⟨o, ha, rfl⟩
  refine ⟨wf_apply o fs hwf, ?_⟩
  have h0 := sealed_ne_nil hs
  rcases h with hp | ⟨hnl, hor, hlt, hsl⟩
  · -- still linked at `p`
    have keep : ∀ fs' : FS, fs'.get p = fs.get p → ReadK p i D fs' := fun fs' e => Or.inl (by rw [e]; exact hp)
    have rm : ∀ (p' : Path) (g : Option Nat), (∀ q, (apply (.unlink p' g) fs).2.get q = getUpd fs p' none q) →
        (∀ i0 c0, fs.get p' = some (.file i0 c0) → (apply (.unlink p' g) fs).2.orphans = (p', i0, c0) :: fs.orphans) →
        (apply (.unlink p' g) fs).2.next = fs.next → ReadK p i D (apply (.unlink p' g) fs).2 := by
      intro p' g hg ho hn
      by_cases hpp : p = p'
      · subst hpp
        refine readK_displaced hs hwf hp hn (ho _ _ hp) fun q c hq => ?_
        rw [hg] at hq
        rcases getUpd_file hq with ⟨_, e⟩ | ⟨hne, hq⟩
        · cases e
        · exact hne (hwf.distinct _ _ _ _ _ hq hp)
      · exact keep _ (by rw [hg]; exact getUpd_ne h0 hpp)
    have mv : ∀ (src q' : Path), ¬ Sealed src →
        ReadK p i D (apply (.rename src q') fs).2 := by
      intro src q' hsrc
      rcases rename_spec src q' fs with e | ⟨i0, c0, hsp, hne, _, _, hn, hor, hg⟩
      · rw [e]; exact Or.inl hp
      · have hps : p ≠ src := by rintro rfl; exact hsrc hs
        by_cases hpq : p = q'
        · subst hpq
          rcases hor with ⟨hnone, _⟩ | ⟨j, c', hq, ho⟩
          · rw [hp] at hnone; cases hnone
          · rw [hp] at hq; cases hq
            refine readK_displaced hs hwf hp hn ho fun q c hq => ?_
            rw [hg] at hq
            unfold getMove at hq
            split at hq
            · cases hq
            · split at hq
              · cases hq; exact hps (hwf.distinct _ _ _ _ _ hp hsp)
              · split at hq
                · cases hq
                · rename_i hq1 _
                  exact hq1 (hwf.distinct _ _ _ _ _ hq hp)
        · exact keep _ (by rw [hg]; unfold getMove; rw [if_neg h0, if_neg hpq, if_neg hps])
    cases ha with
    | noop o _ e => rw [e]; exact Or.inl hp
    | mkdir p' _ =>
      rcases mkdir_spec p' fs with ⟨e, _⟩ | ⟨_, hp', _, _, _, hg⟩
      · rw [e]; exact Or.inl hp
      · exact keep _ (by rw [hg]; exact getUpd_ne h0 (by rintro rfl; rw [hp] at hp'; cases hp'))
    | creat p' hc =>
      have hne : p ≠ p' := by rintro rfl; exact sealed_not_creatable hs hc
      rcases creat_spec p' fs with ⟨e, _⟩ | ⟨_, _, _, _, _, _, hg⟩ | ⟨_, _, _, _, _, hg⟩
      · rw [e]; exact Or.inl hp
      · exact keep _ (by rw [hg]; exact getUpd_ne h0 hne)
      · exact keep _ (by rw [hg]; exact getUpd_ne h0 hne)
    | write p' j d hw =>
      obtain ⟨_, _, _, hg⟩ := write_spec p' j d fs
      by_cases hji : i = j
      · subst hji
        exact absurd (hw p (Or.inl ⟨D, hp⟩)) (sealed_not_writable hs)
      · left; rw [hg, hp]; simp [wr, hji]
    | renameOut a o _ _ _ =>
      exact mv _ _ (by rintro ⟨b, e | e⟩ <;> simp [pTmpOut, pOut, pMeta] at e)
    | renameMeta a o _ _ _ =>
      exact mv _ _ (by rintro ⟨b, e | e⟩ <;> simp [pTmpMeta, pOut, pMeta] at e)
    | unlinkE a p' g _ _ =>
      rcases unlink_spec p' _ fs with ⟨e, _⟩ | ⟨i0, c0, hp', _, _, hn, ho, hg⟩
      · rw [e]; exact Or.inl hp
      · exact rm p' g hg (fun i1 c1 h1 => by rw [hp'] at h1; cases h1; exact ho) hn
    | unlinkC p' g _ _ =>
      rcases unlink_spec p' _ fs with ⟨e, _⟩ | ⟨i0, c0, hp', _, _, hn, ho, hg⟩
      · rw [e]; exact Or.inl hp
      · exact rm p' g hg (fun i1 c1 h1 => by rw [hp'] at h1; cases h1; exact ho) hn
    | rmdirE a p' g _ _ =>
      rcases rmdir_spec p' _ fs with ⟨e, _⟩ | ⟨_, hp', _, _, _, _, _, hg⟩
      · rw [e]; exact Or.inl hp
      · exact keep _ (by rw [hg]; exact getUpd_ne h0 (by rintro rfl; rw [hp] at hp'; cases hp'))
    | rmdirC p' g _ _ =>
      rcases rmdir_spec p' _ fs with ⟨e, _⟩ | ⟨_, hp', _, _, _, _, _, hg⟩
      · rw [e]; exact Or.inl hp
      · exact keep _ (by rw [hg]; exact getUpd_ne h0 (by rintro rfl; rw [hp] at hp'; cases hp'))
  · -- already an orphan
    obtain ⟨q0, hq0⟩ := inoInOrphans_mem hor
    have notwr : ∀ p' d, o = .write p' i d → False := by
      rintro p' d rfl
      cases ha with
      | noop _ hno _ => exact hno p' i d rfl
      | write _ _ _ hw => exact sealed_not_writable (hsl _ _ hq0) (hw q0 (Or.inr ⟨D, hq0⟩))
    refine Or.inr ⟨?_, ?_, Nat.lt_of_lt_of_le hlt (next_mono fs o), ?_⟩
    · intro q c hq
      rcases linked_after fs o i q c hq with ⟨q', c', h'⟩ | e
      · exact hnl q' c' h'
      · omega
    · rcases orphans_after fs o with ⟨j, d, ho, p', rfl⟩ | ho | ⟨q, j, c, ho, hq⟩
      · rw [ho, inoInOrphans_write_ne (fun e => notwr p' d (by rw [e])) d]; exact hor
      · rw [ho]; exact hor
      · rw [ho]
        have : j ≠ i := by rintro rfl; exact hnl q c hq
        simp [inoInOrphans, this, hor]
    · intro q c hq
      rcases orphans_after fs o with ⟨j, d, ho, _, _⟩ | ho | ⟨q1, j, c1, ho, hq1⟩
      · rw [ho] at hq
        obtain ⟨c0, h0'⟩ := mem_writeOrphans hq
        exact hsl _ _ h0'
      · rw [ho] at hq; exact hsl _ _ hq
      · rw [ho] at hq
        rcases List.mem_cons.mp hq with e | hq
        · cases e; exact (hnl q c hq1).elim
        · exact hsl _ _ hq

end JoblibModel.Store
