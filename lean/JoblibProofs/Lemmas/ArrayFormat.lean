import JoblibModel.ArrayFormat
/-! Helper lemmas for C19 (kept apart from the property theorems). -/
namespace JoblibModel.ArrayFormat
open JoblibModel.Generated

/-! ### padding -/

theorem padding_core (a pos : Nat) (ha : 0 < a) :
    (pos + 1 + paddingLength a pos) % a = 0 ∧ 1 ≤ paddingLength a pos ∧ paddingLength a pos ≤ a := by
  unfold paddingLength
  have hr : (pos + 1) % a < a := Nat.mod_lt _ ha
  have hq := Nat.div_add_mod (pos + 1) a
  refine ⟨?_, by omega, by omega⟩
  have : pos + 1 + (a - (pos + 1) % a) = a * ((pos + 1) / a + 1) := by
    rw [Nat.mul_add, Nat.mul_one]
    generalize a * ((pos + 1) / a) = aq at hq
    omega
  rw [this, Nat.mul_mod_right]

/-! ### the chunk loop -/

/-- `l` is a sequence of consecutive `(start, length)` pieces going from `i` to `j`. -/
def Tiles : List (Nat × Nat) → Nat → Nat → Prop
  | [], i, j => i = j
  | (s, c) :: r, i, j => s = i ∧ Tiles r (i + c) j

theorem chunks_tiles (m count i : Nat) (hm : 0 < m) (hi : i ≤ count) :
    Tiles (chunks m count i) i count := by
  induction h : count - i using Nat.strongRecOn generalizing i with
  | _ n ih =>
    subst h
    unfold chunks
    by_cases hlt : i < count
    · simp only [hlt, hm, and_self, dite_true, Tiles, true_and]
      by_cases hle : m ≤ count - i
      · rw [Nat.min_eq_left hle]
        exact ih (count - (i + m)) (by omega) (i + m) (by omega) rfl
      · have hmin : min m (count - i) = count - i := Nat.min_eq_right (by omega)
        rw [hmin]
        have : i + (count - i) = count := by omega
        rw [this]
        unfold chunks
        have : ¬ (i + m < count ∧ 0 < m) := by omega
        simp [this, Tiles]
    · have : i = count := by omega
      simp [Tiles, this]

theorem chunks_sum (m count i : Nat) (hm : 0 < m) :
    ((chunks m count i).map (·.2)).sum = count - i := by
  induction h : count - i using Nat.strongRecOn generalizing i with
  | _ n ih =>
    subst h
    unfold chunks
    by_cases hlt : i < count
    · simp only [hlt, hm, and_self, dite_true, List.map_cons, List.sum_cons]
      rw [ih (count - (i + m)) (by omega) (i + m) rfl]
      omega
    · simp [hlt]; omega

theorem chunks_bounds (m count i : Nat) (hm : 0 < m) :
    ∀ c ∈ chunks m count i, 1 ≤ c.2 ∧ c.2 ≤ m ∧ c.1 + c.2 ≤ count := by
  induction h : count - i using Nat.strongRecOn generalizing i with
  | _ n ih =>
    subst h
    unfold chunks
    by_cases hlt : i < count
    · simp only [hlt, hm, and_self, dite_true, List.mem_cons]
      intro c hc
      rcases hc with rfl | hc
      · simp only; omega
      · exact ih (count - (i + m)) (by omega) (i + m) rfl c hc
    · simp [hlt]

theorem chunks_length (m count i : Nat) (hm : 0 < m) :
    (chunks m count i).length = (count - i + m - 1) / m := by
  induction h : count - i using Nat.strongRecOn generalizing i with
  | _ n ih =>
    subst h
    unfold chunks
    by_cases hlt : i < count
    · simp only [hlt, hm, and_self, dite_true, List.length_cons]
      rw [ih (count - (i + m)) (by omega) (i + m) rfl]
      by_cases hle : m ≤ count - i
      · have e : count - i + m - 1 = (count - (i + m) + m - 1) + m := by omega
        rw [e, Nat.add_div_right _ hm]
      · have e1 : count - (i + m) + m - 1 = m - 1 := by omega
        rw [e1, Nat.div_eq_of_lt (by omega : m - 1 < m)]
        symm
        apply Nat.div_eq_of_lt_le
        · omega
        · omega
    · simp only [hlt, false_and, dite_false, List.length_nil]
      have : count - i + m - 1 = m - 1 := by omega
      rw [this]
      exact (Nat.div_eq_of_lt (by omega)).symm

/-! ### reading back -/

theorem read_append (d suf : Bytes) (q n : Nat) (hn : n ≤ d.length) :
    Handle.read ⟨d ++ suf, q⟩ n = (d.take n, ⟨d.drop n ++ suf, q + n⟩) := by
  unfold Handle.read
  simp only [Prod.mk.injEq, Handle.mk.injEq]
  refine ⟨?_, ?_, ?_⟩
  · rw [List.take_append_of_le_length hn]
  · rw [List.drop_append_of_le_length hn]
  · simp only [List.length_append]; omega

theorem readLoop_spec (itemsize m count : Nat) (hm : 0 < m) :
    ∀ (i : Nat) (d suf acc : Bytes) (q : Nat), d.length = (count - i) * itemsize →
      readLoop itemsize m count i ⟨d ++ suf, q⟩ acc = .ok (acc ++ d, ⟨suf, q + d.length⟩) := by
  intro i
  induction h : count - i using Nat.strongRecOn generalizing i with
  | _ n ih =>
    subst h
    intro d suf acc q hd
    unfold readLoop
    by_cases hlt : i < count
    · simp only [hlt, hm, and_self, dite_true]
      have hrc : min m (count - i) ≤ count - i := Nat.min_le_right _ _
      have hsz : min m (count - i) * itemsize ≤ d.length := by
        rw [hd]; exact Nat.mul_le_mul_right _ hrc
      have hrb : readBytes ⟨d ++ suf, q⟩ (min m (count - i) * itemsize)
          = .ok (d.take (min m (count - i) * itemsize),
              ⟨d.drop (min m (count - i) * itemsize) ++ suf, q + min m (count - i) * itemsize⟩) := by
        unfold readBytes
        rw [read_append d suf q _ hsz]
        simp [List.length_take, Nat.min_eq_left hsz]
      rw [hrb]
      simp only
      have hrem : (d.drop (min m (count - i) * itemsize)).length = (count - (i + m)) * itemsize := by
        rw [List.length_drop, hd, ← Nat.sub_mul]
        congr 1
        omega
      rw [ih (count - (i + m)) (by omega) (i + m) rfl _ suf _ _ hrem]
      simp only [List.append_assoc, List.take_append_drop, Except.ok.injEq, Prod.mk.injEq,
        Handle.mk.injEq, true_and]
      rw [List.length_drop]
      omega
    · have h0 : count - i = 0 := by omega
      rw [h0, Nat.zero_mul] at hd
      have : d = [] := List.eq_nil_of_length_eq_zero hd
      subst this
      simp [hlt]

/-! ### read_mmap -/

theorem readMmap_some (a p : Nat) (body suf : Bytes) (pos cnt itemsize : Nat)
    (hb : body.length = p + cnt * itemsize) :
    readMmap (some a) ⟨p :: (body ++ suf), pos⟩ cnt itemsize
      = ⟨pos + p + 1, ⟨suf, pos + p + 1 + cnt * itemsize⟩, false⟩ := by
  simp only [readMmap, Handle.read, List.take_succ_cons, List.take_zero, List.headD_cons,
    List.drop_succ_cons, List.drop_zero, List.length_cons, Handle.seekTo, Option.isNone_some,
    Bool.false_and, Mmap.mk.injEq, Handle.mk.injEq, and_true, true_and]
  have e : pos + p + 1 + cnt * itemsize - (pos + min 1 ((body ++ suf).length + 1)) = body.length := by
    rw [hb]; omega
  rw [e]
  exact List.drop_left' rfl

/-! ### index arithmetic -/

theorem cIndex_snoc (shape idx : List Nat) (d i : Nat) (h : shape.length = idx.length) :
    cIndex (shape ++ [d]) (idx ++ [i]) = cIndex shape idx * d + i := by
  unfold cIndex
  rw [List.zip_append h]
  simp [List.foldl_append]

theorem cIndex_reverse (shape idx : List Nat) (h : shape.length = idx.length) :
    cIndex shape.reverse idx.reverse = fIndex shape idx := by
  induction shape generalizing idx with
  | nil =>
    cases idx with
    | nil => simp [cIndex, fIndex]
    | cons _ _ => simp at h
  | cons d ds ih =>
    cases idx with
    | nil => simp at h
    | cons i is =>
      simp only [List.reverse_cons]
      rw [cIndex_snoc _ _ _ _ (by simpa using h), ih is (by simpa using h)]
      simp only [fIndex]
      rw [Nat.mul_comm]
      omega

/-! ### the reducer -/

theorem lowAdj_nonneg_strides (shape : List Nat) (strides : List Int) (h : ∀ s ∈ strides, 0 ≤ s) :
    lowAdj shape strides = 0 := by
  induction shape generalizing strides with
  | nil => simp [lowAdj]
  | cons n ns ih =>
    cases strides with
    | nil => simp [lowAdj]
    | cons s ss =>
      have hs : ¬ s < 0 := by have := h s (by simp); omega
      simp only [lowAdj, hs, if_false, Int.zero_add]
      exact ih ss (fun x hx => h x (List.mem_cons_of_mem _ hx))

theorem lowAdj_nonpos (shape : List Nat) (strides : List Int) (hpos : ∀ n ∈ shape, 1 ≤ n) :
    lowAdj shape strides ≤ 0 := by
  induction shape generalizing strides with
  | nil => simp [lowAdj]
  | cons n ns ih =>
    cases strides with
    | nil => simp [lowAdj]
    | cons s ss =>
      have hn : (1 : Int) ≤ n := by have := hpos n (by simp); omega
      have hrest := ih ss (fun x hx => hpos x (List.mem_cons_of_mem _ hx))
      simp only [lowAdj]
      by_cases hs : s < 0
      · simp only [hs, if_true]
        have : ((n : Int) - 1) * s ≤ 0 := Int.mul_nonpos_of_nonneg_of_nonpos (by omega) (by omega)
        omega
      · simp only [hs, if_false]; omega

theorem highAdj_nonneg (shape : List Nat) (strides : List Int) (hpos : ∀ n ∈ shape, 1 ≤ n) :
    0 ≤ highAdj shape strides := by
  induction shape generalizing strides with
  | nil => simp [highAdj]
  | cons n ns ih =>
    cases strides with
    | nil => simp [highAdj]
    | cons s ss =>
      have hn : (1 : Int) ≤ n := by have := hpos n (by simp); omega
      have hrest := ih ss (fun x hx => hpos x (List.mem_cons_of_mem _ hx))
      simp only [highAdj]
      by_cases hs : s < 0
      · simp only [hs, if_true]; omega
      · simp only [hs, if_false]
        have : 0 ≤ ((n : Int) - 1) * s := Int.mul_nonneg (by omega) (by omega)
        omega

theorem cStrides_nonneg (shape : List Nat) (itemsize : Nat) : ∀ s ∈ cStrides shape itemsize, 0 ≤ s := by
  induction shape with
  | nil => simp [cStrides]
  | cons d ds ih =>
    intro s hs
    simp only [cStrides, List.mem_cons] at hs
    rcases hs with rfl | hs
    · exact Int.natCast_nonneg _
    · exact ih s hs

theorem fStridesAux_nonneg (shape : List Nat) (acc : Nat) : ∀ s ∈ fStridesAux shape acc, 0 ≤ s := by
  induction shape generalizing acc with
  | nil => simp [fStridesAux]
  | cons d ds ih =>
    intro s hs
    simp only [fStridesAux, List.mem_cons] at hs
    rcases hs with rfl | hs
    · exact Int.natCast_nonneg _
    · exact ih _ s hs

/-! ### the temporary dumps over a history of calls -/

theorem dispatchStep_seen (fs : TempFiles) (d : Dispatch)
    (hfs : ∀ v, fs.lookup (d.ctx, d.obj) = some v → v = d.vals) : (dispatchStep fs d).2 = d.vals := by
  unfold dispatchStep
  cases hl : fs.lookup (d.ctx, d.obj) with
  | none => rfl
  | some v => exact hfs v hl

theorem dispatchStep_lookup (fs : TempFiles) (d : Dispatch) (k : Nat × Nat) (v : Nat)
    (h : (dispatchStep fs d).1.lookup k = some v) :
    fs.lookup k = some v ∨ (k = (d.ctx, d.obj) ∧ v = d.vals) := by
  unfold dispatchStep at h
  cases hl : fs.lookup (d.ctx, d.obj) with
  | some w =>
    simp only [hl] at h
    exact Or.inl h
  | none =>
    simp only [hl, List.lookup_cons] at h
    by_cases hk : k = (d.ctx, d.obj)
    · subst hk
      simp at h
      exact Or.inr ⟨rfl, h.symm⟩
    · have : (k == (d.ctx, d.obj)) = false := by simpa using hk
      simp only [this] at h
      exact Or.inl h

theorem runHistory_faithful (h : List Dispatch) : ∀ (fs : TempFiles),
    (∀ d ∈ h, ∀ v, fs.lookup (d.ctx, d.obj) = some v → v = d.vals) →
    (∀ d ∈ h, ∀ e ∈ h, d.ctx = e.ctx → d.obj = e.obj → d.vals = e.vals) →
    runHistory fs h = h.map (·.vals) := by
  induction h with
  | nil => intros; rfl
  | cons d rest ih =>
    intro fs hfs hconst
    have hd0 := hfs d (List.mem_cons_self ..)
    simp only [runHistory, List.map_cons]
    rw [dispatchStep_seen fs d hd0]
    congr 1
    apply ih
    · intro e he v hv
      rcases dispatchStep_lookup fs d (e.ctx, e.obj) v hv with h1 | ⟨hk, hv2⟩
      · exact hfs e (List.mem_cons_of_mem _ he) v h1
      · have hc : e.ctx = d.ctx := congrArg Prod.fst hk
        have ho : e.obj = d.obj := congrArg Prod.snd hk
        rw [hv2]
        exact hconst d (List.mem_cons_self ..) e (List.mem_cons_of_mem _ he) hc.symm ho.symm
    · intro e he f hf
      exact hconst e (List.mem_cons_of_mem _ he) f (List.mem_cons_of_mem _ hf)

theorem nodup_key_eq (h : List Dispatch) (hn : (h.map (fun d => (d.ctx, d.obj))).Nodup) :
    ∀ d ∈ h, ∀ e ∈ h, d.ctx = e.ctx → d.obj = e.obj → d = e := by
  induction h with
  | nil => intro d hd; cases hd
  | cons a rest ih =>
    rw [List.map_cons, List.nodup_cons] at hn
    intro d hd e he hc ho
    rcases List.mem_cons.1 hd with rfl | hd' <;> rcases List.mem_cons.1 he with rfl | he'
    · rfl
    · exact absurd (List.mem_map.2 ⟨e, he', by simp [hc, ho]⟩) hn.1
    · exact absurd (List.mem_map.2 ⟨d, hd', by simp [hc, ho]⟩) hn.1
    · exact ih hn.2 d hd' e he' hc ho

end JoblibModel.ArrayFormat
