import JoblibModel.FuncCodeText
/-! Helper lemmas for the text layer of `func_code.py` (`JoblibModel.FuncCodeText`). -/
namespace JoblibModel.FuncCodeText

/-! ### split / join -/

theorem splitNLAux_ne_nil (t cur : Text) : splitNLAux t cur ≠ [] := by
  induction t generalizing cur with
  | nil => simp [splitNLAux]
  | cons c cs ih => unfold splitNLAux; split <;> simp [ih]

theorem joinNL_cons (l : Text) (ls : List Text) (h : ls ≠ []) : joinNL (l :: ls) = l ++ NL :: joinNL ls := by
  cases ls with
  | nil => exact absurd rfl h
  | cons a as => rfl

/-- `"\n".join(t.split("\n")) == t`. -/
theorem joinNL_splitNLAux (t cur : Text) : joinNL (splitNLAux t cur) = cur.reverse ++ t := by
  induction t generalizing cur with
  | nil => simp [splitNLAux, joinNL]
  | cons c cs ih =>
    unfold splitNLAux
    split
    · rename_i h
      rw [joinNL_cons _ _ (splitNLAux_ne_nil _ _), ih]
      simp [h]
    · rw [ih]; simp

theorem joinNL_splitNL (t : Text) : joinNL (splitNL t) = t := by
  simpa [splitNL] using joinNL_splitNLAux t []

/-- A field without `"\n"` followed by `"\n"` and the rest: the first field is that field. -/
theorem splitNLAux_append (a b cur : Text) (ha : NL ∉ a) :
    splitNLAux (a ++ NL :: b) cur = (cur.reverse ++ a) :: splitNLAux b [] := by
  induction a generalizing cur with
  | nil => simp [splitNLAux]
  | cons c cs ih =>
    have hc : c ≠ NL := fun h => ha (by simp [h])
    have hcs : NL ∉ cs := fun h => ha (by simp [h])
    simp only [List.cons_append, splitNLAux, hc, if_false]
    rw [ih _ hcs]; simp

/-- A text without `"\n"` is one field. -/
theorem splitNLAux_single (a cur : Text) (ha : NL ∉ a) : splitNLAux a cur = [cur.reverse ++ a] := by
  induction a generalizing cur with
  | nil => simp [splitNLAux]
  | cons c cs ih =>
    have hc : c ≠ NL := fun h => ha (by simp [h])
    have hcs : NL ∉ cs := fun h => ha (by simp [h])
    simp only [splitNLAux, hc, if_false]
    rw [ih _ hcs]; simp

/-! ### `"%i"` and `int()` -/

/-- All characters are ASCII decimal digits. -/
def AllDigits (t : Text) : Prop := ∀ c ∈ t, isDigit c = true

theorem showNat_digits (n : Nat) : AllDigits (showNat n) := by
  fun_induction showNat n with
  | case1 n h => intro c hc; simp at hc; subst hc; simp [isDigit]; omega
  | case2 n h ih =>
    intro c hc
    rcases List.mem_append.1 hc with hc | hc
    · exact ih c hc
    · simp at hc; subst hc; simp [isDigit]; omega

theorem showNat_ne_nil (n : Nat) : showNat n ≠ [] := by
  unfold showNat; split <;> simp

/-- The value of a digit string read from the left with accumulator `acc`. -/
def valueOf (t : Text) (acc : Nat) : Nat := t.foldl (fun a c => a * 10 + (c - 48)) acc

theorem valueOf_append (a b : Text) (acc : Nat) : valueOf (a ++ b) acc = valueOf b (valueOf a acc) := by
  simp [valueOf, List.foldl_append]

theorem valueOf_showNat (n : Nat) : valueOf (showNat n) 0 = n := by
  fun_induction showNat n with
  | case1 n h => simp [valueOf]
  | case2 n h ih => rw [valueOf_append, ih]; simp [valueOf]; omega

/-- On a digit string `parseDigits` is the positional value (it accepts iff the string is non-empty or follows a digit). -/
theorem parseDigits_digits (t : Text) (acc : Nat) (p : Bool) (h : AllDigits t) (hne : t ≠ [] ∨ p = true) :
    parseDigits t acc p = some (valueOf t acc) := by
  induction t generalizing acc p with
  | nil => rcases hne with h' | h'; · exact absurd rfl h'
           · simp [parseDigits, h', valueOf]
  | cons c cs ih =>
    have hc : isDigit c = true := h c (by simp)
    simp only [parseDigits, hc, if_true]
    rw [ih _ _ (fun d hd => h d (by simp [hd])) (Or.inr rfl)]
    simp [valueOf]

theorem parseDigits_showNat (n : Nat) : parseDigits (showNat n) 0 false = some n := by
  rw [parseDigits_digits _ _ _ (showNat_digits n) (Or.inl (showNat_ne_nil n)), valueOf_showNat]

theorem digit_not_space {c : Nat} (h : isDigit c = true) : isSpace c = false := by
  simp [isDigit, isSpace] at *; omega

theorem digit_lt_128 {c : Nat} (h : isDigit c = true) : c < 128 := by
  simp [isDigit] at h; omega

theorem stripLeft_of_head {c : Nat} {cs : Text} (h : isSpace c = false) : stripLeft (c :: cs) = c :: cs := by
  simp [stripLeft, h]

/-- Every character of `"%i" % n` is `-` or a digit; the first is not white space, nor is the last. -/
theorem showInt_chars (n : Int) : ∀ c ∈ showInt n, c = MINUS ∨ isDigit c = true := by
  cases n with
  | ofNat k => intro c hc; exact Or.inr (showNat_digits k c hc)
  | negSucc k =>
    intro c hc
    simp only [showInt, List.mem_cons] at hc
    rcases hc with hc | hc
    · exact Or.inl hc
    · exact Or.inr (showNat_digits _ c hc)

theorem char_props {c : Nat} (h : c = MINUS ∨ isDigit c = true) : isSpace c = false ∧ c < 128 ∧ c ≠ NL := by
  rcases h with h | h
  · subst h; simp [MINUS, isSpace, NL]
  · simp [isDigit] at h; simp [isSpace, NL]; omega

theorem showInt_ne_nil (n : Int) : showInt n ≠ [] := by
  cases n with
  | ofNat k => exact showNat_ne_nil k
  | negSucc k => simp [showInt]

theorem stripLeft_nonspace (t : Text) (h : ∀ c ∈ t, isSpace c = false) : stripLeft t = t := by
  cases t with
  | nil => rfl
  | cons c cs => exact stripLeft_of_head (h c (by simp))

/-- A text without white space is its own `strip()`; one leading space is stripped. -/
theorem strip_nonspace (t : Text) (h : ∀ c ∈ t, isSpace c = false) : strip t = t ∧ strip (SP :: t) = t := by
  have hr : ∀ c ∈ t.reverse, isSpace c = false := fun c hc => h c (List.mem_reverse.1 hc)
  constructor
  · unfold strip; rw [stripLeft_nonspace t h, stripLeft_nonspace _ hr]; simp
  · unfold strip
    have : stripLeft (SP :: t) = t := by
      simp only [stripLeft, show isSpace SP = true by decide, if_true]; exact stripLeft_nonspace t h
    rw [this, stripLeft_nonspace _ hr]; simp

theorem pyInt_showInt_core (n : Int) (t : Text) (hs : strip t = showInt n)
    (ha : t.any (fun c => decide (128 ≤ c)) = false) (hl : ¬ 4000 < t.length) : pyInt t = .ok n := by
  unfold pyInt
  simp only [ha, hl, decide_false, Bool.or_false, Bool.false_eq_true, if_false, hs]
  cases n with
  | ofNat k =>
    have hne := showNat_ne_nil k
    have hd := showNat_digits k
    have hp := parseDigits_showNat k
    simp only [showInt]
    cases hsn : showNat k with
    | nil => exact absurd hsn hne
    | cons c cs =>
      have hc : isDigit c = true := hd c (by simp [hsn])
      have h1 : c ≠ MINUS := by simp [isDigit] at hc; simp [MINUS]; omega
      have h2 : c ≠ PLUS := by simp [isDigit] at hc; simp [PLUS]; omega
      simp only [h1, h2, if_false]
      rw [← hsn, hp]; rfl
  | negSucc k =>
    simp only [showInt, if_true]
    rw [parseDigits_showNat]
    simp [Int.negSucc_eq]

/-- `int(" %i" % n) == n` (and `int("%i" % n) == n`). -/
theorem pyInt_showInt (n : Int) (hl : (showInt n).length < 4000) :
    pyInt (SP :: showInt n) = .ok n ∧ pyInt (showInt n) = .ok n := by
  have hp := fun c hc => char_props (showInt_chars n c hc)
  have hs := strip_nonspace (showInt n) (fun c hc => (hp c hc).1)
  have hany : (showInt n).any (fun c => decide (128 ≤ c)) = false := by
    rw [List.any_eq_false]; intro c hc; have := (hp c hc).2.1; simp; omega
  constructor
  · apply pyInt_showInt_core n _ hs.2
    · simp [List.any_cons, hany, SP]
    · simp; omega
  · apply pyInt_showInt_core n _ hs.1 hany; omega

/-- `int()` of an ASCII text of moderate length answers: a value or `ValueError` (the model does not abstain). -/
theorem pyInt_tracked (t : Text) (ha : t.any (fun c => decide (128 ≤ c)) = false) (hl : ¬ 4000 < t.length) :
    pyInt t = .valueError ∨ ∃ m, pyInt t = .ok m := by
  unfold pyInt
  simp only [ha, hl, decide_false, Bool.or_false, Bool.false_eq_true, if_false]
  split
  · exact Or.inl rfl
  · split
    · split
      · exact Or.inr ⟨_, rfl⟩
      · exact Or.inl rfl
    · split
      · split
        · exact Or.inr ⟨_, rfl⟩
        · exact Or.inl rfl
      · split
        · exact Or.inr ⟨_, rfl⟩
        · exact Or.inl rfl

end JoblibModel.FuncCodeText
