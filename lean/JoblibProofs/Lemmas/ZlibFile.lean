import JoblibModel.ZlibFile
/-! Helper lemmas for C13 / C14 (kept apart from the property theorems).

Main notions
* `Yields S src cs`   : from source state `src`, the loop body of `_fill_buffer` delivers exactly the chunks `cs`
                        and then end of file (no codec error on the way);
* `Regular S p G N`   : `G` is an invariant of the source states under which a rewind makes the source deliver a
                        chunking (of at most `N` chunks) of the byte string `p`;
* `InvAt … s o cs`    : the file-object invariant: `_pos` = bytes consumed, i.e. the rest of the payload is exactly
                        the unread part of `_buffer` followed by the chunks still to come.
-/
namespace JoblibModel.ZlibFile

/-! ### Python slices with in-range, non-negative bounds -/

theorem pyIndex_nat (len n : Nat) : pyIndex len (n : Int) = min n len := by
  unfold pyIndex
  have : ¬ ((n : Int) < 0) := by omega
  simp [this]

theorem pySliceFrom_nat (b : Bytes) (o : Nat) : pySliceFrom b (o : Int) = b.drop o := by
  unfold pySliceFrom
  rw [pyIndex_nat]
  by_cases h : o ≤ b.length
  · rw [Nat.min_eq_left h]
  · have h' : b.length ≤ o := by omega
    rw [Nat.min_eq_right h', List.drop_eq_nil_iff.mpr (Nat.le_refl _), List.drop_eq_nil_iff.mpr h']

theorem pySlice_nat (b : Bytes) (o e : Nat) (h : o ≤ e) (he : e ≤ b.length) :
    pySlice b (o : Int) (e : Int) = (b.drop o).take (e - o) := by
  unfold pySlice
  rw [pyIndex_nat, pyIndex_nat, Nat.min_eq_left he, Nat.min_eq_left (Nat.le_trans h he)]

theorem drop_add_of_rem {p : Bytes} {n : Nat} {b r : Bytes} (h : p.drop n = b ++ r) :
    p.drop (n + b.length) = r := by
  rw [← List.drop_drop, h, List.drop_append_of_le_length (Nat.le_refl _)]
  simp

/-! ### What a source delivers -/

inductive Yields {σ : Type} (S : Source σ) : σ → List Bytes → Prop
  | eof {src : σ} : S.step src = .eof → Yields S src []
  | chunk {src src' : σ} {b : Bytes} {cs : List Bytes} :
      S.step src = .chunk b src' → Yields S src' cs → Yields S src (b :: cs)

structure Regular {σ : Type} (S : Source σ) (payload : Bytes) (G : σ → Prop) (N : Nat) : Prop where
  rewind_yields : ∀ src, G src →
    G (S.rewind src) ∧ ∃ cs, Yields S (S.rewind src) cs ∧ cs.flatten = payload ∧ cs.length ≤ N
  step_good : ∀ src b src', G src → S.step src = .chunk b src' → G src'

structure InvAt {σ : Type} (S : Source σ) (payload : Bytes) (G : σ → Prop) (N : Nat)
    (s : ZFile σ) (o : Nat) (cs : List Bytes) : Prop where
  mode : s.mode = .read ∨ s.mode = .readEof
  good : G s.src
  off : s.bufferOffset = (o : Int)
  off_le : o ≤ s.buffer.length
  yields : Yields S s.src cs
  len_le : cs.length ≤ N
  pos_le : s.pos ≤ payload.length
  rem : payload.drop s.pos = s.buffer.drop o ++ cs.flatten
  eof : s.mode = .readEof → o = s.buffer.length ∧ cs = [] ∧ s.size = (payload.length : Int)
  size : s.size = -1 ∨ s.size = (payload.length : Int)

section
variable {σ : Type} {S : Source σ} {payload : Bytes} {G : σ → Prop} {N : Nat}

theorem InvAt.rem_len {s : ZFile σ} {o : Nat} {cs : List Bytes} (h : InvAt S payload G N s o cs) :
    payload.length - s.pos = (s.buffer.length - o) + cs.flatten.length := by
  have := congrArg List.length h.rem
  simpa using this

/-- At end of stream the position is the payload length. -/
theorem InvAt.pos_of_nil {s : ZFile σ} {o : Nat} (h : InvAt S payload G N s o [])
    (ho : o = s.buffer.length) : s.pos = payload.length := by
  have := h.rem_len
  have := h.pos_le
  simp at *
  omega

theorem fillLoop_spec (hR : Regular S payload G N) :
    ∀ (cs : List Bytes) (fuel : Nat) (s : ZFile σ) (o : Nat),
      InvAt S payload G N s o cs → s.mode = .read → cs.length + 1 ≤ fuel →
      ∃ s' o' cs' b, fillLoop S fuel s = .ok (s', b) ∧ InvAt S payload G N s' o' cs' ∧
        s'.pos = s.pos ∧ cs'.length ≤ cs.length ∧
        (b = true → o' < s'.buffer.length ∧
          (o < s.buffer.length → s' = s ∧ o' = o ∧ cs' = cs) ∧
          (o = s.buffer.length → o' = 0 ∧ cs'.length < cs.length)) ∧
        (b = false → s'.mode = .readEof) := by
  intro cs
  induction cs with
  | nil =>
    intro fuel s o hI hm hf
    rw [fillLoop.eq_def]
    by_cases ho : o = s.buffer.length
    · have hoff : s.bufferOffset = (s.buffer.length : Int) := by rw [hI.off, ho]
      simp only [hoff, if_true]
      match fuel, hf with
      | fuel + 1, _ =>
        cases hy : S.step s.src with
        | eof =>
          have hp := hI.pos_of_nil ho
          refine ⟨{ s with mode := .readEof, size := s.pos }, o, [], false, by simp [hoff], ?_, rfl, by simp, by simp, by simp⟩
          exact { hI with
            mode := Or.inr rfl
            eof := fun _ => ⟨ho, rfl, by simp [hp]⟩
            size := Or.inr (by simp [hp]) }
        | err e =>
          cases hI.yields with
          | eof h => rw [hy] at h; cases h
        | chunk b src' =>
          cases hI.yields with
          | eof h => rw [hy] at h; cases h
    · have hoff : ¬ s.bufferOffset = (s.buffer.length : Int) := by rw [hI.off]; omega
      have hlt : o < s.buffer.length := by have := hI.off_le; omega
      simp only [hoff, if_false]
      exact ⟨s, o, [], true, rfl, hI, rfl, by simp, fun _ => ⟨hlt, fun _ => ⟨rfl, rfl, rfl⟩, fun h => absurd h ho⟩,
        by simp⟩
  | cons c cs ih =>
    intro fuel s o hI hm hf
    rw [fillLoop.eq_def]
    by_cases ho : o = s.buffer.length
    · have hoff : s.bufferOffset = (s.buffer.length : Int) := by rw [hI.off, ho]
      simp only [hoff, if_true]
      match fuel, hf with
      | fuel + 1, hf =>
        cases hy : hI.yields with
        | chunk hstep hrest =>
          rename_i src'
          simp only [hstep]
          have hI1 : InvAt S payload G N { s with buffer := c, bufferOffset := 0, src := src' } 0 cs :=
            { mode := hI.mode
              good := hR.step_good _ _ _ hI.good hstep
              off := rfl
              off_le := Nat.zero_le _
              yields := hrest
              len_le := by have := hI.len_le; simp at this; omega
              pos_le := hI.pos_le
              rem := by
                have := hI.rem
                rw [ho] at this
                simpa using this
              eof := fun h => by rw [hm] at h; cases h
              size := hI.size }
          obtain ⟨s', o', cs', b, h1, h2, h3, h4, h5, h6⟩ := ih fuel _ 0 hI1 hm (by simp at hf; omega)
          refine ⟨s', o', cs', b, h1, h2, h3, by simp; omega, ?_, h6⟩
          intro hb
          obtain ⟨g1, g2, g3⟩ := h5 hb
          refine ⟨g1, fun h => by omega, fun _ => ?_⟩
          by_cases hc : 0 < c.length
          · obtain ⟨_, e2, e3⟩ := g2 hc
            exact ⟨e2, by rw [e3]; simp⟩
          · obtain ⟨e2, e3⟩ := g3 (by simp at hc ⊢; simp [hc])
            exact ⟨e2, by simp; omega⟩
    · have hoff : ¬ s.bufferOffset = (s.buffer.length : Int) := by rw [hI.off]; omega
      have hlt : o < s.buffer.length := by have := hI.off_le; omega
      simp only [hoff, if_false]
      exact ⟨s, o, c :: cs, true, rfl, hI, rfl, Nat.le_refl _,
        fun _ => ⟨hlt, fun _ => ⟨rfl, rfl, rfl⟩, fun h => absurd h ho⟩, by simp⟩

theorem fillBuffer_spec (hR : Regular S payload G N) {fuel : Nat} {s : ZFile σ} {o : Nat} {cs : List Bytes}
    (hI : InvAt S payload G N s o cs) (hf : cs.length + 1 ≤ fuel) :
    ∃ s' o' cs' b, fillBuffer S fuel s = .ok (s', b) ∧ InvAt S payload G N s' o' cs' ∧
      s'.pos = s.pos ∧ cs'.length ≤ cs.length ∧
      (b = true → o' < s'.buffer.length ∧
        (o < s.buffer.length → s' = s ∧ o' = o ∧ cs' = cs) ∧
        (o = s.buffer.length → o' = 0 ∧ cs'.length < cs.length)) ∧
      (b = false → s'.mode = .readEof) := by
  unfold fillBuffer
  by_cases hm : s.mode = .readEof
  · simp only [hm, if_true]
    exact ⟨s, o, cs, false, rfl, hI, rfl, Nat.le_refl _, by simp, fun _ => hm⟩
  · simp only [hm, if_false]
    have hm' : s.mode = .read := by
      rcases hI.mode with h | h
      · exact h
      · exact absurd h hm
    exact fillLoop_spec hR cs fuel s o hI hm' hf

/-- In mode `readEof` nothing is left. -/
theorem InvAt.rem_nil_of_eof {s : ZFile σ} {o : Nat} {cs : List Bytes} (h : InvAt S payload G N s o cs)
    (hm : s.mode = .readEof) : payload.drop s.pos = [] := by
  obtain ⟨h1, h2, _⟩ := h.eof hm
  rw [h.rem, h1, h2]; simp

theorem readAllLoop_spec (hR : Regular S payload G N) (fuel : Nat) :
    ∀ (k : Nat) (s : ZFile σ) (cs : List Bytes) (acc : Bytes),
      InvAt S payload G N s 0 cs → cs.length + 1 ≤ fuel →
      cs.length + (if s.buffer = [] then 1 else 2) ≤ k →
      ∃ s' o', readAllLoop S fuel k s acc = .ok (s', acc ++ payload.drop s.pos) ∧
        InvAt S payload G N s' o' [] ∧ s'.mode = .readEof ∧ s'.pos = payload.length := by
  intro k
  induction k with
  | zero => intro s cs acc _ _ hk; split at hk <;> omega
  | succ k ih =>
    intro s cs acc hI hf hk
    rw [readAllLoop]
    obtain ⟨s1, o1, cs1, b, h1, hI1, hp, hl, hT, hF⟩ := fillBuffer_spec hR hI (by omega)
    rw [h1]
    cases b with
    | false =>
      have hm := hF rfl
      have hnil := hI1.rem_nil_of_eof hm
      obtain ⟨e1, e2, _⟩ := hI1.eof hm
      subst e2
      refine ⟨s1, o1, ?_, hI1, hm, hI1.pos_of_nil e1⟩
      simp only
      rw [← hp, hnil]; simp
    | true =>
      obtain ⟨g1, g2, g3⟩ := hT rfl
      have ho1 : o1 = 0 := by
        by_cases hb : 0 < s.buffer.length
        · exact (g2 hb).2.1
        · exact (g3 (by omega)).1
      subst ho1
      have hmode : s1.mode = .read := by
        rcases hI1.mode with h | h
        · exact h
        · have := (hI1.eof h).1; omega
      have hrem1 : payload.drop s1.pos = s1.buffer ++ cs1.flatten := by simpa using hI1.rem
      have hlen1 := hI1.rem_len
      have hI2 : InvAt S payload G N { s1 with pos := s1.pos + s1.buffer.length, buffer := [] } 0 cs1 :=
        { mode := Or.inl hmode
          good := hI1.good
          off := hI1.off
          off_le := Nat.zero_le _
          yields := hI1.yields
          len_le := hI1.len_le
          pos_le := by have := hI1.pos_le; simp at hlen1 ⊢; omega
          rem := by
            simp only [List.drop_nil, List.nil_append]
            exact drop_add_of_rem hrem1
          eof := fun h => by simp [hmode] at h
          size := hI1.size }
      have hk2 : cs1.length + 1 ≤ k := by
        by_cases hb : 0 < s.buffer.length
        · have e := (g2 hb).2.2
          have : s.buffer ≠ [] := by intro h; rw [h] at hb; simp at hb
          simp [this] at hk
          rw [e]; omega
        · have e := (g3 (by omega)).2
          split at hk <;> omega
      obtain ⟨s', o', h3, h4, h5, h6⟩ := ih _ cs1 (acc ++ s1.buffer) hI2 (by omega) (by simpa using hk2)
      refine ⟨s', o', ?_, h4, h5, h6⟩
      simp only
      rw [h3]
      simp only [List.append_assoc]
      rw [← hp, hrem1, drop_add_of_rem hrem1]

theorem readAll_spec (hR : Regular S payload G N) {fuel : Nat} {s : ZFile σ} {o : Nat} {cs : List Bytes}
    (hI : InvAt S payload G N s o cs) (hf : cs.length + 2 ≤ fuel) :
    ∃ s' o', readAll S fuel s = .ok (s', payload.drop s.pos) ∧
      InvAt S payload G N s' o' [] ∧ s'.mode = .readEof ∧ s'.pos = payload.length := by
  unfold readAll
  rw [hI.off, pySliceFrom_nat]
  have hI0 : InvAt S payload G N { s with buffer := s.buffer.drop o, bufferOffset := ((0 : Nat) : Int) } 0 cs :=
    { mode := hI.mode
      good := hI.good
      off := rfl
      off_le := Nat.zero_le _
      yields := hI.yields
      len_le := hI.len_le
      pos_le := hI.pos_le
      rem := by simpa using hI.rem
      eof := fun h => by
        obtain ⟨e1, e2, e3⟩ := hI.eof h
        exact ⟨by simp [e1], e2, e3⟩
      size := hI.size }
  obtain ⟨s', o', h1, h2, h3, h4⟩ := readAllLoop_spec hR fuel fuel _ cs [] hI0 (by omega)
    (by split <;> omega)
  exact ⟨s', o', by simpa using h1, h2, h3, h4⟩

theorem readBlockLoop_done (fuel k : Nat) (n : Int) (s : ZFile σ) (acc : Bytes) (hn : n ≤ 0) :
    readBlockLoop S fuel k n s acc = .ok (s, acc) := by
  rw [readBlockLoop.eq_def]
  have : ¬ n > 0 := by omega
  simp [this]

theorem take_of_rem {p : Bytes} {pos : Nat} {b r : Bytes} (h : p.drop pos = b ++ r) (m : Nat) :
    (p.drop pos).take m = b.take m ++ (p.drop (pos + b.length)).take (m - b.length) := by
  rw [drop_add_of_rem h, h, List.take_append]

theorem readBlockLoop_spec (hR : Regular S payload G N) (fuel : Nat) :
    ∀ (k : Nat) (n : Int) (s : ZFile σ) (cs : List Bytes) (acc : Bytes),
      InvAt S payload G N s 0 cs → 0 ≤ n → cs.length + 1 ≤ fuel →
      cs.length + (if s.buffer = [] then 1 else 2) ≤ k →
      ∃ s' o' cs', readBlockLoop S fuel k n s acc = .ok (s', acc ++ (payload.drop s.pos).take n.toNat) ∧
        InvAt S payload G N s' o' cs' ∧ cs'.length ≤ cs.length ∧
        s'.pos = s.pos + ((payload.drop s.pos).take n.toNat).length := by
  intro k
  induction k with
  | zero => intro n s cs acc _ _ _ hk; split at hk <;> omega
  | succ k ih =>
    intro n s cs acc hI hn hf hk
    by_cases hn0 : n ≤ 0
    · have : n = 0 := by omega
      subst this
      rw [readBlockLoop_done fuel _ 0 s acc (by omega)]
      exact ⟨s, 0, cs, by simp, hI, Nat.le_refl _, by simp⟩
    · rw [readBlockLoop.eq_def]
      have hpos : n > 0 := by omega
      simp only [hpos, if_true]
      obtain ⟨s1, o1, cs1, b, h1, hI1, hp, hl, hT, hF⟩ := fillBuffer_spec hR hI (by omega)
      rw [h1]
      cases b with
      | false =>
        have hm := hF rfl
        have hnil := hI1.rem_nil_of_eof hm
        refine ⟨s1, o1, cs1, ?_, hI1, hl, ?_⟩
        · simp only; rw [← hp, hnil]; simp
        · rw [← hp, hnil]; simp
      | true =>
        obtain ⟨g1, g2, g3⟩ := hT rfl
        have ho1 : o1 = 0 := by
          by_cases hb : 0 < s.buffer.length
          · exact (g2 hb).2.1
          · exact (g3 (by omega)).1
        subst ho1
        have hmode : s1.mode = .read := by
          rcases hI1.mode with h | h
          · exact h
          · have := (hI1.eof h).1; omega
        have hrem1 : payload.drop s1.pos = s1.buffer ++ cs1.flatten := by simpa using hI1.rem
        have hlen1 := hI1.rem_len
        have hnn : ((n.toNat : Nat) : Int) = n := Int.toNat_of_nonneg hn
        simp only
        by_cases hlt : n < (s1.buffer.length : Int)
        · -- the buffer holds more than is asked for
          simp only [hlt, if_true]
          have hm : n.toNat < s1.buffer.length := by omega
          have hsl : pySlice s1.buffer 0 n = s1.buffer.take n.toNat := by
            have := pySlice_nat s1.buffer 0 n.toNat (Nat.zero_le _) (by omega)
            rw [hnn] at this
            simpa using this
          rw [hsl]
          have hlen : (s1.buffer.take n.toNat).length = n.toNat := by
            rw [List.length_take]; omega
          rw [readBlockLoop_done _ _ _ _ _ (by rw [hlen]; omega)]
          have htake : (payload.drop s.pos).take n.toNat = s1.buffer.take n.toNat := by
            rw [← hp, hrem1, List.take_append_of_le_length (by omega)]
          refine ⟨_, n.toNat, cs1, by rw [htake], ?_, hl, by simp only; rw [htake, hp]⟩
          exact
            { mode := Or.inl hmode
              good := hI1.good
              off := by simp [hnn]
              off_le := by simp; omega
              yields := hI1.yields
              len_le := hI1.len_le
              pos_le := by have := hI1.pos_le; simp at hlen1 ⊢; omega
              rem := by
                simp only
                rw [hlen, ← List.drop_drop, hrem1, List.drop_append_of_le_length (by omega)]
              eof := fun h => by simp [hmode] at h
              size := hI1.size }
        · -- the whole buffer is consumed
          simp only [hlt, if_false]
          have hge : s1.buffer.length ≤ n.toNat := by omega
          have hI2 : InvAt S payload G N { s1 with buffer := [], pos := s1.pos + s1.buffer.length } 0 cs1 :=
            { mode := Or.inl hmode
              good := hI1.good
              off := hI1.off
              off_le := Nat.zero_le _
              yields := hI1.yields
              len_le := hI1.len_le
              pos_le := by have := hI1.pos_le; simp at hlen1 ⊢; omega
              rem := by
                simp only [List.drop_nil, List.nil_append]
                exact drop_add_of_rem hrem1
              eof := fun h => by simp [hmode] at h
              size := hI1.size }
          have hk2 : cs1.length + 1 ≤ k := by
            by_cases hb : 0 < s.buffer.length
            · have e := (g2 hb).2.2
              have : s.buffer ≠ [] := by intro h; rw [h] at hb; simp at hb
              simp [this] at hk
              rw [e]; omega
            · have e := (g3 (by omega)).2
              split at hk <;> omega
          obtain ⟨s', o', cs', h3, h4, h5, h6⟩ := ih (n - s1.buffer.length) _ cs1 (acc ++ s1.buffer) hI2
            (by omega) (by omega) (by simpa using hk2)
          have hsub : (n - (s1.buffer.length : Int)).toNat = n.toNat - s1.buffer.length := by omega
          have hsplit := take_of_rem hrem1 n.toNat
          rw [List.take_of_length_le hge] at hsplit
          refine ⟨s', o', cs', ?_, h4, by omega, ?_⟩
          · rw [h3, hsub, ← hp, hsplit]; simp
          · rw [h6, hsub, ← hp, hsplit]; simp; omega

theorem readBlock_spec (hR : Regular S payload G N) {fuel : Nat} {s : ZFile σ} {o : Nat} {cs : List Bytes}
    {n : Int} (hI : InvAt S payload G N s o cs) (hn : 0 ≤ n) (hf : cs.length + 2 ≤ fuel) :
    ∃ s' o' cs', readBlock S fuel n s = .ok (s', (payload.drop s.pos).take n.toNat) ∧
      InvAt S payload G N s' o' cs' ∧ cs'.length ≤ cs.length ∧
      s'.pos = s.pos + ((payload.drop s.pos).take n.toNat).length := by
  unfold readBlock
  have hnn : ((n.toNat : Nat) : Int) = n := Int.toNat_of_nonneg hn
  simp only
  by_cases hfast : s.bufferOffset + n ≤ (s.buffer.length : Int)
  · simp only [hfast, if_true]
    rw [hI.off] at hfast ⊢
    have hle : o + n.toNat ≤ s.buffer.length := by omega
    have hsl : pySlice s.buffer (o : Int) ((o : Int) + n) = (s.buffer.drop o).take n.toNat := by
      have := pySlice_nat s.buffer o (o + n.toNat) (by omega) hle
      rw [show ((o + n.toNat : Nat) : Int) = (o : Int) + n by omega] at this
      rw [this]; congr 1; omega
    rw [hsl]
    have hlen : ((s.buffer.drop o).take n.toNat).length = n.toNat := by
      rw [List.length_take, List.length_drop]; omega
    have htake : (payload.drop s.pos).take n.toNat = (s.buffer.drop o).take n.toNat := by
      rw [hI.rem, List.take_append_of_le_length (by rw [List.length_drop]; omega)]
    have hlen1 := hI.rem_len
    refine ⟨_, o + n.toNat, cs, by rw [htake], ?_, Nat.le_refl _, by simp only; rw [htake]⟩
    exact
      { mode := hI.mode
        good := hI.good
        off := by simp only; omega
        off_le := hle
        yields := hI.yields
        len_le := hI.len_le
        pos_le := by have := hI.pos_le; simp only [hlen]; omega
        rem := by
          simp only
          rw [hlen, ← List.drop_drop, hI.rem, List.drop_append_of_le_length (by rw [List.length_drop]; omega),
            List.drop_drop]
        eof := fun h => by
          obtain ⟨e1, e2, e3⟩ := hI.eof h
          exact ⟨by omega, e2, e3⟩
        size := hI.size }
  · simp only [hfast, if_false]
    rw [hI.off, pySliceFrom_nat]
    have hI0 : InvAt S payload G N { s with buffer := s.buffer.drop o, bufferOffset := ((0 : Nat) : Int) } 0 cs :=
      { mode := hI.mode
        good := hI.good
        off := rfl
        off_le := Nat.zero_le _
        yields := hI.yields
        len_le := hI.len_le
        pos_le := hI.pos_le
        rem := by simpa using hI.rem
        eof := fun h => by
          obtain ⟨e1, e2, e3⟩ := hI.eof h
          exact ⟨by simp [e1], e2, e3⟩
        size := hI.size }
    obtain ⟨s', o', cs', h1, h2, h3, h4⟩ := readBlockLoop_spec hR fuel fuel n _ cs [] hI0 hn (by omega)
      (by split <;> omega)
    exact ⟨s', o', cs', by simpa using h1, h2, h3, h4⟩

end

end JoblibModel.ZlibFile
