import JoblibModel.ZlibFile
/-! Helper lemmas for C13 / C14 (kept apart from the property theorems).

Main notions
* `Yields S src cs`   : from source state `src`, the loop body of `_fill_buffer` delivers exactly the chunks `cs`
                        and then end of file (no codec error on the way);
* `Regular S p G N`   : `G` is an invariant of the source states under which a rewind makes the source deliver a
                        chunking (of at most `N` chunks) of the byte string `p`;
* `InvAt … s o cs`    : the file-object invariant: `_pos` = bytes consumed, i.e. the rest of the payload is exactly
                        the unread part of `_buffer` followed by the chunks still to come.
-/
namespace JoblibModel.ZlibFile

/-! ### Python slices with in-range, non-negative bounds -/

theorem pyIndex_nat (len n : Nat) : pyIndex len (n : Int) = min n len := by
  unfold pyIndex
  have : ¬ ((n : Int) < 0) := by omega
  simp [this]

theorem pySliceFrom_nat (b : Bytes) (o : Nat) : pySliceFrom b (o : Int) = b.drop o := by
  unfold pySliceFrom
  rw [pyIndex_nat]
  by_cases h : o ≤ b.length
  · rw [Nat.min_eq_left h]
  · have h' : b.length ≤ o := by omega
    rw [Nat.min_eq_right h', List.drop_eq_nil_iff.mpr (Nat.le_refl _), List.drop_eq_nil_iff.mpr h']

theorem pySlice_nat (b : Bytes) (o e : Nat) (h : o ≤ e) (he : e ≤ b.length) :
    pySlice b (o : Int) (e : Int) = (b.drop o).take (e - o) := by
  unfold pySlice
  rw [pyIndex_nat, pyIndex_nat, Nat.min_eq_left he, Nat.min_eq_left (Nat.le_trans h he)]

theorem drop_add_of_rem {p : Bytes} {n : Nat} {b r : Bytes} (h : p.drop n = b ++ r) :
    p.drop (n + b.length) = r := by
  rw [← List.drop_drop, h, List.drop_append_of_le_length (Nat.le_refl _)]
  simp

/-! ### What a source delivers -/

inductive Yields {σ : Type} (S : Source σ) : σ → List Bytes → Prop
  | eof {src : σ} : S.step src = .eof → Yields S src []
  | chunk {src src' : σ} {b : Bytes} {cs : List Bytes} :
      S.step src = .chunk b src' → Yields S src' cs → Yields S src (b :: cs)

structure Regular {σ : Type} (S : Source σ) (payload : Bytes) (G : σ → Prop) (N : Nat) : Prop where
  rewind_yields : ∀ src, G src →
    G (S.rewind src) ∧ ∃ cs, Yields S (S.rewind src) cs ∧ cs.flatten = payload ∧ cs.length ≤ N
  step_good : ∀ src b src', G src → S.step src = .chunk b src' → G src'

structure InvAt {σ : Type} (S : Source σ) (payload : Bytes) (G : σ → Prop) (N : Nat)
    (s : ZFile σ) (o : Nat) (cs : List Bytes) : Prop where
  mode : s.mode = .read ∨ s.mode = .readEof
  good : G s.src
  off : s.bufferOffset = (o : Int)
  off_le : o ≤ s.buffer.length
  yields : Yields S s.src cs
  len_le : cs.length ≤ N
  pos_le : s.pos ≤ payload.length
  rem : payload.drop s.pos = s.buffer.drop o ++ cs.flatten
  eof : s.mode = .readEof → o = s.buffer.length ∧ cs = [] ∧ s.size = (payload.length : Int)
  size : s.size = -1 ∨ s.size = (payload.length : Int)

section
variable {σ : Type} {S : Source σ} {payload : Bytes} {G : σ → Prop} {N : Nat}

theorem InvAt.rem_len {s : ZFile σ} {o : Nat} {cs : List Bytes} (h : InvAt S payload G N s o cs) :
    payload.length - s.pos = (s.buffer.length - o) + cs.flatten.length := by
  have := congrArg List.length h.rem
  simpa using this

/-- At end of stream the position is the payload length. -/
theorem InvAt.pos_of_nil {s : ZFile σ} {o : Nat} (h : InvAt S payload G N s o [])
    (ho : o = s.buffer.length) : s.pos = payload.length := by
  have := h.rem_len
  have := h.pos_le
  simp at *
  omega

theorem fillLoop_spec (hR : Regular S payload G N) :
    ∀ (cs : List Bytes) (fuel : Nat) (s : ZFile σ) (o : Nat),
      InvAt S payload G N s o cs → s.mode = .read → cs.length + 1 ≤ fuel →
      ∃ s' o' cs' b, fillLoop S fuel s = .ok (s', b) ∧ InvAt S payload G N s' o' cs' ∧
        s'.pos = s.pos ∧ cs'.length ≤ cs.length ∧
        (b = true → o' < s'.buffer.length ∧
          (o < s.buffer.length → s' = s ∧ o' = o ∧ cs' = cs) ∧
          (o = s.buffer.length → o' = 0 ∧ cs'.length < cs.length)) ∧
        (b = false → s'.mode = .readEof) := by
  intro cs
  induction cs with
  | nil =>
    intro fuel s o hI hm hf
    rw [fillLoop.eq_def]
    by_cases ho : o = s.buffer.length
    · have hoff : s.bufferOffset = (s.buffer.length : Int) := by rw [hI.off, ho]
      simp only [hoff, if_true]
      match fuel, hf with
      | fuel + 1, _ =>
        cases hy : S.step s.src with
        | eof =>
          have hp := hI.pos_of_nil ho
          refine ⟨{ s with mode := .readEof, size := s.pos }, o, [], false, by simp [hoff], ?_, rfl, by simp, by simp, by simp⟩
          exact { hI with
            mode := Or.inr rfl
            eof := fun _ => ⟨ho, rfl, by simp [hp]⟩
            size := Or.inr (by simp [hp]) }
        | err e =>
          cases hI.yields with
          | eof h => rw [hy] at h; cases h
        | chunk b src' =>
          cases hI.yields with
          | eof h => rw [hy] at h; cases h
    · have hoff : ¬ s.bufferOffset = (s.buffer.length : Int) := by rw [hI.off]; omega
      have hlt : o < s.buffer.length := by have := hI.off_le; omega
      simp only [hoff, if_false]
      exact ⟨s, o, [], true, rfl, hI, rfl, by simp, fun _ => ⟨hlt, fun _ => ⟨rfl, rfl, rfl⟩, fun h => absurd h ho⟩,
        by simp⟩
  | cons c cs ih =>
    intro fuel s o hI hm hf
    rw [fillLoop.eq_def]
    by_cases ho : o = s.buffer.length
    · have hoff : s.bufferOffset = (s.buffer.length : Int) := by rw [hI.off, ho]
      simp only [hoff, if_true]
      match fuel, hf with
      | fuel + 1, hf =>
        cases hy : hI.yields with
        | chunk hstep hrest =>
          rename_i src'
          simp only [hstep]
          have hI1 : InvAt S payload G N { s with buffer := c, bufferOffset := 0, src := src' } 0 cs :=
            { mode := hI.mode
              good := hR.step_good _ _ _ hI.good hstep
              off := rfl
              off_le := Nat.zero_le _
              yields := hrest
              len_le := by have := hI.len_le; simp at this; omega
              pos_le := hI.pos_le
              rem := by
                have := hI.rem
                rw [ho] at this
                simpa using this
              eof := fun h => by rw [hm] at h; cases h
              size := hI.size }
          obtain ⟨s', o', cs', b, h1, h2, h3, h4, h5, h6⟩ := ih fuel _ 0 hI1 hm (by simp at hf; omega)
          refine ⟨s', o', cs', b, h1, h2, h3, by simp; omega, ?_, h6⟩
          intro hb
          obtain ⟨g1, g2, g3⟩ := h5 hb
          refine ⟨g1, fun h => by omega, fun _ => ?_⟩
          by_cases hc : 0 < c.length
          · obtain ⟨_, e2, e3⟩ := g2 hc
            exact ⟨e2, by rw [e3]; simp⟩
          · obtain ⟨e2, e3⟩ := g3 (by simp at hc ⊢; simp [hc])
            exact ⟨e2, by simp; omega⟩
    · have hoff : ¬ s.bufferOffset = (s.buffer.length : Int) := by rw [hI.off]; omega
      have hlt : o < s.buffer.length := by have := hI.off_le; omega
      simp only [hoff, if_false]
      exact ⟨s, o, c :: cs, true, rfl, hI, rfl, Nat.le_refl _,
        fun _ => ⟨hlt, fun _ => ⟨rfl, rfl, rfl⟩, fun h => absurd h ho⟩, by simp⟩

theorem fillBuffer_spec (hR : Regular S payload G N) {fuel : Nat} {s : ZFile σ} {o : Nat} {cs : List Bytes}
    (hI : InvAt S payload G N s o cs) (hf : cs.length + 1 ≤ fuel) :
    ∃ s' o' cs' b, fillBuffer S fuel s = .ok (s', b) ∧ InvAt S payload G N s' o' cs' ∧
      s'.pos = s.pos ∧ cs'.length ≤ cs.length ∧
      (b = true → o' < s'.buffer.length ∧
        (o < s.buffer.length → s' = s ∧ o' = o ∧ cs' = cs) ∧
        (o = s.buffer.length → o' = 0 ∧ cs'.length < cs.length)) ∧
      (b = false → s'.mode = .readEof) := by
  unfold fillBuffer
  by_cases hm : s.mode = .readEof
  · simp only [hm, if_true]
    exact ⟨s, o, cs, false, rfl, hI, rfl, Nat.le_refl _, by simp, fun _ => hm⟩
  · simp only [hm, if_false]
    have hm' : s.mode = .read := by
      rcases hI.mode with h | h
      · exact h
      · exact absurd h hm
    exact fillLoop_spec hR cs fuel s o hI hm' hf

/-- In mode `readEof` nothing is left. -/
theorem InvAt.rem_nil_of_eof {s : ZFile σ} {o : Nat} {cs : List Bytes} (h : InvAt S payload G N s o cs)
    (hm : s.mode = .readEof) : payload.drop s.pos = [] := by
  obtain ⟨h1, h2, _⟩ := h.eof hm
  rw [h.rem, h1, h2]; simp

theorem readAllLoop_spec (hR : Regular S payload G N) (fuel : Nat) :
    ∀ (k : Nat) (s : ZFile σ) (cs : List Bytes) (acc : Bytes),
      InvAt S payload G N s 0 cs → cs.length + 1 ≤ fuel →
      cs.length + (if s.buffer = [] then 1 else 2) ≤ k →
      ∃ s' o', readAllLoop S fuel k s acc = .ok (s', acc ++ payload.drop s.pos) ∧
        InvAt S payload G N s' o' [] ∧ s'.mode = .readEof ∧ s'.pos = payload.length := by
  intro k
  induction k with
  | zero => intro s cs acc _ _ hk; split at hk <;> omega
  | succ k ih =>
    intro s cs acc hI hf hk
    rw [readAllLoop]
    obtain ⟨s1, o1, cs1, b, h1, hI1, hp, hl, hT, hF⟩ := fillBuffer_spec hR hI (by omega)
    rw [h1]
    cases b with
    | false =>
      have hm := hF rfl
      have hnil := hI1.rem_nil_of_eof hm
      obtain ⟨e1, e2, _⟩ := hI1.eof hm
      subst e2
      refine ⟨s1, o1, ?_, hI1, hm, hI1.pos_of_nil e1⟩
      simp only
      rw [← hp, hnil]; simp
    | true =>
      obtain ⟨g1, g2, g3⟩ := hT rfl
      have ho1 : o1 = 0 := by
        by_cases hb : 0 < s.buffer.length
        · exact (g2 hb).2.1
        · exact (g3 (by omega)).1
      subst ho1
      have hmode : s1.mode = .read := by
        rcases hI1.mode with h | h
        · exact h
        · have := (hI1.eof h).1; omega
      have hrem1 : payload.drop s1.pos = s1.buffer ++ cs1.flatten := by simpa using hI1.rem
      have hlen1 := hI1.rem_len
      have hI2 : InvAt S payload G N { s1 with pos := s1.pos + s1.buffer.length, buffer := [] } 0 cs1 :=
        { mode := Or.inl hmode
          good := hI1.good
          off := hI1.off
          off_le := Nat.zero_le _
          yields := hI1.yields
          len_le := hI1.len_le
          pos_le := by have := hI1.pos_le; simp at hlen1 ⊢; omega
          rem := by
            simp only [List.drop_nil, List.nil_append]
            exact drop_add_of_rem hrem1
          eof := fun h => by simp [hmode] at h
          size := hI1.size }
      have hk2 : cs1.length + 1 ≤ k := by
        by_cases hb : 0 < s.buffer.length
        · have e := (g2 hb).2.2
          have : s.buffer ≠ [] := by intro h; rw [h] at hb; simp at hb
          simp [this] at hk
          rw [e]; omega
        · have e := (g3 (by omega)).2
          split at hk <;> omega
      obtain ⟨s', o', h3, h4, h5, h6⟩ := ih _ cs1 (acc ++ s1.buffer) hI2 (by omega) (by simpa using hk2)
      refine ⟨s', o', ?_, h4, h5, h6⟩
      simp only
      rw [h3]
      simp only [List.append_assoc]
      rw [← hp, hrem1, drop_add_of_rem hrem1]

theorem readAll_spec (hR : Regular S payload G N) {fuel : Nat} {s : ZFile σ} {o : Nat} {cs : List Bytes}
    (hI : InvAt S payload G N s o cs) (hf : cs.length + 2 ≤ fuel) :
    ∃ s' o', readAll S fuel s = .ok (s', payload.drop s.pos) ∧
      InvAt S payload G N s' o' [] ∧ s'.mode = .readEof ∧ s'.pos = payload.length := by
  unfold readAll
  rw [hI.off, pySliceFrom_nat]
  have hI0 : InvAt S payload G N { s with buffer := s.buffer.drop o, bufferOffset := ((0 : Nat) : Int) } 0 cs :=
    { mode := hI.mode
      good := hI.good
      off := rfl
      off_le := Nat.zero_le _
      yields := hI.yields
      len_le := hI.len_le
      pos_le := hI.pos_le
      rem := by simpa using hI.rem
      eof := fun h => by
        obtain ⟨e1, e2, e3⟩ := hI.eof h
        exact ⟨by simp [e1], e2, e3⟩
      size := hI.size }
  obtain ⟨s', o', h1, h2, h3, h4⟩ := readAllLoop_spec hR fuel fuel _ cs [] hI0 (by omega)
    (by split <;> omega)
  exact ⟨s', o', by simpa using h1, h2, h3, h4⟩

theorem readBlockLoop_done (fuel k : Nat) (n : Int) (s : ZFile σ) (acc : Bytes) (hn : n ≤ 0) :
    readBlockLoop S fuel k n s acc = .ok (s, acc) := by
  rw [readBlockLoop.eq_def]
  have : ¬ n > 0 := by omega
  simp [this]

theorem take_of_rem {p : Bytes} {pos : Nat} {b r : Bytes} (h : p.drop pos = b ++ r) (m : Nat) :
    (p.drop pos).take m = b.take m ++ (p.drop (pos + b.length)).take (m - b.length) := by
  rw [drop_add_of_rem h, h, List.take_append]

theorem readBlockLoop_spec (hR : Regular S payload G N) (fuel : Nat) :
    ∀ (k : Nat) (n : Int) (s : ZFile σ) (cs : List Bytes) (acc : Bytes),
      InvAt S payload G N s 0 cs → 0 ≤ n → cs.length + 1 ≤ fuel →
      cs.length + (if s.buffer = [] then 1 else 2) ≤ k →
      ∃ s' o' cs', readBlockLoop S fuel k n s acc = .ok (s', acc ++ (payload.drop s.pos).take n.toNat) ∧
        InvAt S payload G N s' o' cs' ∧ cs'.length ≤ cs.length ∧
        s'.pos = s.pos + ((payload.drop s.pos).take n.toNat).length := by
  intro k
  induction k with
  | zero => intro n s cs acc _ _ _ hk; split at hk <;> omega
  | succ k ih =>
    intro n s cs acc hI hn hf hk
    by_cases hn0 : n ≤ 0
    · have : n = 0 := by omega
      subst this
      rw [readBlockLoop_done fuel _ 0 s acc (by omega)]
      exact ⟨s, 0, cs, by simp, hI, Nat.le_refl _, by simp⟩
    · rw [readBlockLoop.eq_def]
      have hpos : n > 0 := by omega
      simp only [hpos, if_true]
      obtain ⟨s1, o1, cs1, b, h1, hI1, hp, hl, hT, hF⟩ := fillBuffer_spec hR hI (by omega)
      rw [h1]
      cases b with
      | false =>
        have hm := hF rfl
        have hnil := hI1.rem_nil_of_eof hm
        refine ⟨s1, o1, cs1, ?_, hI1, hl, ?_⟩
        · simp only; rw [← hp, hnil]; simp
        · rw [← hp, hnil]; simp
      | true =>
        obtain ⟨g1, g2, g3⟩ := hT rfl
        have ho1 : o1 = 0 := by
          by_cases hb : 0 < s.buffer.length
          · exact (g2 hb).2.1
          · exact (g3 (by omega)).1
        subst ho1
        have hmode : s1.mode = .read := by
          rcases hI1.mode with h | h
          · exact h
          · have := (hI1.eof h).1; omega
        have hrem1 : payload.drop s1.pos = s1.buffer ++ cs1.flatten := by simpa using hI1.rem
        have hlen1 := hI1.rem_len
        have hnn : ((n.toNat : Nat) : Int) = n := Int.toNat_of_nonneg hn
        simp only
        by_cases hlt : n < (s1.buffer.length : Int)
        · -- the buffer holds more than is asked for
          simp only [hlt, if_true]
          have hm : n.toNat < s1.buffer.length := by omega
          have hsl : pySlice s1.buffer 0 n = s1.buffer.take n.toNat := by
            have := pySlice_nat s1.buffer 0 n.toNat (Nat.zero_le _) (by omega)
            rw [hnn] at this
            simpa using this
          rw [hsl]
          have hlen : (s1.buffer.take n.toNat).length = n.toNat := by
            rw [List.length_take]; omega
          rw [readBlockLoop_done _ _ _ _ _ (by rw [hlen]; omega)]
          have htake : (payload.drop s.pos).take n.toNat = s1.buffer.take n.toNat := by
            rw [← hp, hrem1, List.take_append_of_le_length (by omega)]
          refine ⟨_, n.toNat, cs1, by rw [htake], ?_, hl, by simp only; rw [htake, hp]⟩
          exact
            { mode := Or.inl hmode
              good := hI1.good
              off := by simp [hnn]
              off_le := by simp; omega
              yields := hI1.yields
              len_le := hI1.len_le
              pos_le := by have := hI1.pos_le; simp at hlen1 ⊢; omega
              rem := by
                simp only
                rw [hlen, ← List.drop_drop, hrem1, List.drop_append_of_le_length (by omega)]
              eof := fun h => by simp [hmode] at h
              size := hI1.size }
        · -- the whole buffer is consumed
          simp only [hlt, if_false]
          have hge : s1.buffer.length ≤ n.toNat := by omega
          have hI2 : InvAt S payload G N { s1 with buffer := [], pos := s1.pos + s1.buffer.length } 0 cs1 :=
            { mode := Or.inl hmode
              good := hI1.good
              off := hI1.off
              off_le := Nat.zero_le _
              yields := hI1.yields
              len_le := hI1.len_le
              pos_le := by have := hI1.pos_le; simp at hlen1 ⊢; omega
              rem := by
                simp only [List.drop_nil, List.nil_append]
                exact drop_add_of_rem hrem1
              eof := fun h => by simp [hmode] at h
              size := hI1.size }
          have hk2 : cs1.length + 1 ≤ k := by
            by_cases hb : 0 < s.buffer.length
            · have e := (g2 hb).2.2
              have : s.buffer ≠ [] := by intro h; rw [h] at hb; simp at hb
              simp [this] at hk
              rw [e]; omega
            · have e := (g3 (by omega)).2
              split at hk <;> omega
          obtain ⟨s', o', cs', h3, h4, h5, h6⟩ := ih (n - s1.buffer.length) _ cs1 (acc ++ s1.buffer) hI2
            (by omega) (by omega) (by simpa using hk2)
          have hsub : (n - (s1.buffer.length : Int)).toNat = n.toNat - s1.buffer.length := by omega
          have hsplit := take_of_rem hrem1 n.toNat
          rw [List.take_of_length_le hge] at hsplit
          refine ⟨s', o', cs', ?_, h4, by omega, ?_⟩
          · rw [h3, hsub, ← hp, hsplit]; simp
          · rw [h6, hsub, ← hp, hsplit]; simp; omega

theorem readBlock_spec (hR : Regular S payload G N) {fuel : Nat} {s : ZFile σ} {o : Nat} {cs : List Bytes}
    {n : Int} (hI : InvAt S payload G N s o cs) (hn : 0 ≤ n) (hf : cs.length + 2 ≤ fuel) :
    ∃ s' o' cs', readBlock S fuel n s = .ok (s', (payload.drop s.pos).take n.toNat) ∧
      InvAt S payload G N s' o' cs' ∧ cs'.length ≤ cs.length ∧
      s'.pos = s.pos + ((payload.drop s.pos).take n.toNat).length := by
  unfold readBlock
  have hnn : ((n.toNat : Nat) : Int) = n := Int.toNat_of_nonneg hn
  simp only
  by_cases hfast : s.bufferOffset + n ≤ (s.buffer.length : Int)
  · simp only [hfast, if_true]
    rw [hI.off] at hfast ⊢
    have hle : o + n.toNat ≤ s.buffer.length := by omega
    have hsl : pySlice s.buffer (o : Int) ((o : Int) + n) = (s.buffer.drop o).take n.toNat := by
      have := pySlice_nat s.buffer o (o + n.toNat) (by omega) hle
      rw [show ((o + n.toNat : Nat) : Int) = (o : Int) + n by omega] at this
      rw [this]; congr 1; omega
    rw [hsl]
    have hlen : ((s.buffer.drop o).take n.toNat).length = n.toNat := by
      rw [List.length_take, List.length_drop]; omega
    have htake : (payload.drop s.pos).take n.toNat = (s.buffer.drop o).take n.toNat := by
      rw [hI.rem, List.take_append_of_le_length (by rw [List.length_drop]; omega)]
    have hlen1 := hI.rem_len
    refine ⟨_, o + n.toNat, cs, by rw [htake], ?_, Nat.le_refl _, by simp only; rw [htake]⟩
    exact
      { mode := hI.mode
        good := hI.good
        off := by simp only; omega
        off_le := hle
        yields := hI.yields
        len_le := hI.len_le
        pos_le := by have := hI.pos_le; simp only [hlen]; omega
        rem := by
          simp only
          rw [hlen, ← List.drop_drop, hI.rem, List.drop_append_of_le_length (by rw [List.length_drop]; omega),
            List.drop_drop]
        eof := fun h => by
          obtain ⟨e1, e2, e3⟩ := hI.eof h
          exact ⟨by simp only; omega, e2, e3⟩
        size := hI.size }
  · simp only [hfast, if_false]
    rw [hI.off, pySliceFrom_nat]
    have hI0 : InvAt S payload G N { s with buffer := s.buffer.drop o, bufferOffset := ((0 : Nat) : Int) } 0 cs :=
      { mode := hI.mode
        good := hI.good
        off := rfl
        off_le := Nat.zero_le _
        yields := hI.yields
        len_le := hI.len_le
        pos_le := hI.pos_le
        rem := by simpa using hI.rem
        eof := fun h => by
          obtain ⟨e1, e2, e3⟩ := hI.eof h
          exact ⟨by simp [e1], e2, e3⟩
        size := hI.size }
    obtain ⟨s', o', cs', h1, h2, h3, h4⟩ := readBlockLoop_spec hR fuel fuel n _ cs [] hI0 hn (by omega)
      (by split <;> omega)
    exact ⟨s', o', cs', by simpa using h1, h2, h3, h4⟩

theorem checkCanRead_ok {s : ZFile σ} {o : Nat} {cs : List Bytes} (hI : InvAt S payload G N s o cs) :
    checkCanRead s = .ok () := by
  unfold checkCanRead
  rcases hI.mode with h | h <;> rw [h]

/-- What `read(size)` returns on the reference stream. -/
def specRead (payload : Bytes) (pos : Nat) (size : Int) : Bytes :=
  if size < 0 then payload.drop pos else (payload.drop pos).take size.toNat

theorem read_spec (hR : Regular S payload G N) {fuel : Nat} {s : ZFile σ} {o : Nat} {cs : List Bytes}
    (hI : InvAt S payload G N s o cs) (hf : cs.length + 2 ≤ fuel) (size : Int) :
    ∃ s' o' cs', read S fuel size s = .ok (s', specRead payload s.pos size) ∧
      InvAt S payload G N s' o' cs' ∧ cs'.length ≤ cs.length ∧
      s'.pos = s.pos + (specRead payload s.pos size).length := by
  unfold read specRead
  rw [checkCanRead_ok hI]
  simp only
  by_cases h0 : size = 0
  · subst h0
    exact ⟨s, o, cs, by simp, hI, Nat.le_refl _, by simp⟩
  · simp only [h0, if_false]
    by_cases hneg : size < 0
    · simp only [hneg, if_true]
      obtain ⟨s', o', h1, h2, h3, h4⟩ := readAll_spec hR hI hf
      refine ⟨s', o', [], h1, h2, by simp, ?_⟩
      have := hI.pos_le
      rw [h4, List.length_drop]; omega
    · simp only [hneg, if_false]
      exact readBlock_spec hR hI (by omega) hf

theorem takeLine_cons_ne (b : UInt8) (r : Bytes) (h : b ≠ 10) :
    Spec.takeLine (b :: r) = b :: Spec.takeLine r := by
  simp [Spec.takeLine, h]

theorem readlineLoop_spec (hR : Regular S payload G N) (fuel : Nat) :
    ∀ (k : Nat) (s : ZFile σ) (o : Nat) (cs : List Bytes) (res : Bytes),
      InvAt S payload G N s o cs → cs.length + 2 ≤ fuel → payload.length - s.pos + 1 ≤ k →
      ∃ s' o' cs', readlineLoop S fuel k res s = .ok (s', res ++ Spec.takeLine (payload.drop s.pos)) ∧
        InvAt S payload G N s' o' cs' ∧ cs'.length ≤ cs.length ∧
        s'.pos = s.pos + (Spec.takeLine (payload.drop s.pos)).length := by
  intro k
  induction k with
  | zero => intro s o cs res _ _ hk; omega
  | succ k ih =>
    intro s o cs res hI hf hk
    rw [readlineLoop]
    obtain ⟨s1, o1, cs1, h1, hI1, hl, hp⟩ := read_spec hR hI hf 1
    rw [h1]
    have hsr : specRead payload s.pos 1 = (payload.drop s.pos).take 1 := by
      simp [specRead]
    rw [hsr] at hp ⊢
    simp only
    cases hd : payload.drop s.pos with
    | nil =>
      rw [hd] at hp
      refine ⟨s1, o1, cs1, by simp [Spec.takeLine], hI1, hl, by simpa [Spec.takeLine] using hp⟩
    | cons b r =>
      rw [hd] at hp
      have hdrop : payload.drop s1.pos = r := by
        rw [hp]
        have : payload.drop s.pos = [b] ++ r := by rw [hd]; rfl
        simpa using drop_add_of_rem this
      have hlenp : payload.length - s.pos = r.length + 1 := by
        have := congrArg List.length hd
        simpa using this
      by_cases hb : b = 10
      · subst hb
        refine ⟨s1, o1, cs1, by simp [Spec.takeLine], hI1, hl, by simpa [Spec.takeLine] using hp⟩
      · obtain ⟨s', o', cs', g1, g2, g3, g4⟩ := ih s1 o1 cs1 (res ++ [b]) hI1 (by omega)
          (by simp at hp; omega)
        refine ⟨s', o', cs', ?_, g2, by omega, ?_⟩
        · simp [hb]
          rw [g1, hdrop, takeLine_cons_ne b r hb]; simp
        · rw [g4, hdrop, takeLine_cons_ne b r hb]; simp at hp ⊢; omega

theorem rewind_inv (hR : Regular S payload G N) {s : ZFile σ} {o : Nat} {cs : List Bytes}
    (hI : InvAt S payload G N s o cs) :
    ∃ cs0, InvAt S payload G N (rewind S s) 0 cs0 := by
  obtain ⟨hg, cs0, hy, hfl, hlen⟩ := hR.rewind_yields s.src hI.good
  exact ⟨cs0,
    { mode := Or.inl rfl
      good := hg
      off := rfl
      off_le := Nat.zero_le _
      yields := hy
      len_le := hlen
      pos_le := Nat.zero_le _
      rem := by simp [rewind, hfl]
      eof := fun h => by simp [rewind] at h
      size := hI.size }⟩

theorem seekAbs_spec (hR : Regular S payload G N) {fuel : Nat} {s : ZFile σ} {o : Nat} {cs : List Bytes}
    (hI : InvAt S payload G N s o cs) (hf : N + 2 ≤ fuel) (t : Int) (h0 : 0 ≤ t) :
    ∃ s' o' cs', seekAbs S fuel t s = .ok (s', min t.toNat payload.length) ∧
      InvAt S payload G N s' o' cs' ∧ s'.pos = min t.toNat payload.length := by
  unfold seekAbs
  have hcs := hI.len_le
  have hpl := hI.pos_le
  by_cases hlt : t < (s.pos : Int)
  · simp only [hlt, if_true]
    obtain ⟨cs0, hI0⟩ := rewind_inv hR hI
    have := hI0.len_le
    obtain ⟨s', o', cs', h1, h2, _, h4⟩ := readBlock_spec (fuel := fuel) hR hI0 h0 (by omega)
    rw [h1]
    have hp : s'.pos = min t.toNat payload.length := by
      rw [h4]; simp [rewind, List.length_take]
    exact ⟨s', o', cs', by simp [hp], h2, hp⟩
  · simp only [hlt, if_false]
    obtain ⟨s', o', cs', h1, h2, _, h4⟩ := readBlock_spec (fuel := fuel) hR hI (n := t - s.pos) (by omega) (by omega)
    rw [h1]
    have hp : s'.pos = min t.toNat payload.length := by
      rw [h4, List.length_take, List.length_drop]; omega
    exact ⟨s', o', cs', by simp [hp], h2, hp⟩

/-- The absolute target of `seek(off, w)` on the reference stream. -/
def specTarget (payload : Bytes) (pos : Nat) (off w : Int) : Int :=
  if w = 0 then off else if w = 1 then (pos : Int) + off else (payload.length : Int) + off

theorem seek_spec (hR : Regular S payload G N) {fuel : Nat} {s : ZFile σ} {o : Nat} {cs : List Bytes}
    (hI : InvAt S payload G N s o cs) (hf : N + 2 ≤ fuel) (off w : Int) (hw : w = 0 ∨ w = 1 ∨ w = 2)
    (h0 : 0 ≤ specTarget payload s.pos off w) :
    ∃ s' o' cs', seek S fuel off w s =
        .ok (s', min (specTarget payload s.pos off w).toNat payload.length) ∧
      InvAt S payload G N s' o' cs' ∧ s'.pos = min (specTarget payload s.pos off w).toNat payload.length := by
  unfold seek
  rw [checkCanRead_ok hI]
  simp only
  rcases hw with hw | hw | hw
  · subst hw
    simp only [specTarget, if_true] at h0 ⊢
    exact seekAbs_spec hR hI hf off h0
  · subst hw
    simp only [specTarget, show ¬ ((1 : Int) = 0) by omega, if_false, if_true] at h0 ⊢
    exact seekAbs_spec hR hI hf _ h0
  · subst hw
    simp only [specTarget, show ¬ ((2 : Int) = 0) by omega, show ¬ ((2 : Int) = 1) by omega,
      if_false, if_true] at h0 ⊢
    by_cases hs : s.size < 0
    · simp only [hs, if_true]
      have := hI.len_le
      obtain ⟨s1, o1, h1, hI1, hm, hp⟩ := readAll_spec (fuel := fuel) hR hI (by omega)
      rw [h1]
      simp only
      have hsz : s1.size = (payload.length : Int) := (hI1.eof hm).2.2
      rw [hsz]
      obtain ⟨s', o', cs', g1, g2, g3⟩ := seekAbs_spec hR hI1 hf _ h0
      exact ⟨s', o', cs', g1, g2, g3⟩
    · simp only [hs, if_false]
      have hsz : s.size = (payload.length : Int) := by
        rcases hI.size with h | h
        · rw [h] at hs; omega
        · exact h
      rw [hsz]
      exact seekAbs_spec hR hI hf _ h0

/-- One operation: the file object answers what the reference stream answers, and the invariant
(hence the abstraction `(payload, pos)`) is kept. -/
theorem applyOp_refines (hR : Regular S payload G N) {fuel : Nat} {s : ZFile σ} {o : Nat} {cs : List Bytes}
    (hI : InvAt S payload G N s o cs) (hf : N + payload.length + 2 ≤ fuel)
    (op : Op) (pos' : Nat) (out : Out) (hspec : Spec.applyOp payload s.pos op = some (pos', out)) :
    ∃ s' o' cs', applyOp S fuel s op = (s', out) ∧ InvAt S payload G N s' o' cs' ∧ s'.pos = pos' := by
  have hcs := hI.len_le
  cases op with
  | read n =>
    obtain ⟨s', o', cs', h1, h2, _, h4⟩ := read_spec (fuel := fuel) hR hI (by omega) n
    simp only [applyOp, h1, outOf]
    simp only [Spec.applyOp] at hspec
    unfold specRead at h4 ⊢
    by_cases hn : n < 0
    · simp only [hn, if_true] at hspec h4 ⊢
      cases hspec
      exact ⟨s', o', cs', rfl, h2, h4⟩
    · simp only [hn, if_false] at hspec h4 ⊢
      cases hspec
      exact ⟨s', o', cs', rfl, h2, h4⟩
  | readinto n =>
    obtain ⟨s', o', cs', h1, h2, _, h4⟩ := read_spec (fuel := fuel) hR hI (by omega) (n : Int)
    simp only [applyOp, readinto, h1, outOf]
    simp only [Spec.applyOp] at hspec
    have : specRead payload s.pos (n : Int) = (payload.drop s.pos).take n := by
      unfold specRead
      have : ¬ ((n : Int) < 0) := by omega
      simp [this]
    rw [this] at h4 ⊢
    cases hspec
    exact ⟨s', o', cs', rfl, h2, h4⟩
  | readline =>
    obtain ⟨s', o', cs', h1, h2, _, h4⟩ := readlineLoop_spec hR fuel fuel s o cs [] hI (by omega) (by omega)
    simp only [applyOp, readline, h1, outOf]
    simp only [Spec.applyOp] at hspec
    cases hspec
    exact ⟨s', o', cs', by simp, h2, h4⟩
  | tell =>
    simp only [Spec.applyOp] at hspec
    cases hspec
    have : tell s = .ok s.pos := by
      unfold tell
      rcases hI.mode with h | h <;> rw [h]
    simp only [applyOp, this]
    exact ⟨s, o, cs, rfl, hI, rfl⟩
  | seek off w =>
    simp only [Spec.applyOp] at hspec
    by_cases hw : w = 0 ∨ w = 1 ∨ w = 2
    · simp only [hw, if_true] at hspec
      have ht : (if w = 0 then off else if w = 1 then (s.pos : Int) + off else (payload.length : Int) + off)
          = specTarget payload s.pos off w := rfl
      rw [ht] at hspec
      by_cases hneg : specTarget payload s.pos off w < 0
      · simp [hneg] at hspec
      · simp only [hneg, if_false] at hspec
        cases hspec
        obtain ⟨s', o', cs', h1, h2, h3⟩ := seek_spec (fuel := fuel) hR hI (by omega) off w hw (by omega)
        simp only [applyOp, h1, outOf]
        exact ⟨s', o', cs', rfl, h2, h3⟩
    · simp only [hw, if_false] at hspec
      cases hspec
      have : seek S fuel off w s = .error (.exc .valueError) := by
        unfold seek
        rw [checkCanRead_ok hI]
        have h0 : ¬ w = 0 := fun h => hw (Or.inl h)
        have h1 : ¬ w = 1 := fun h => hw (Or.inr (Or.inl h))
        have h2 : ¬ w = 2 := fun h => hw (Or.inr (Or.inr h))
        simp [h0, h1, h2]
      simp only [applyOp, this, outOf]
      exact ⟨s, o, cs, rfl, hI, rfl⟩
  | close => simp [Spec.applyOp] at hspec

theorem runOps_refines (hR : Regular S payload G N) {fuel : Nat} (hf : N + payload.length + 2 ≤ fuel) :
    ∀ (ops : List Op) (s : ZFile σ) (o : Nat) (cs : List Bytes) (pos' : Nat) (outs : List Out),
      InvAt S payload G N s o cs → Spec.run payload s.pos ops = some (pos', outs) →
      ∃ s' o' cs', runOps S fuel s ops = (s', outs) ∧ InvAt S payload G N s' o' cs' ∧ s'.pos = pos' := by
  intro ops
  induction ops with
  | nil =>
    intro s o cs pos' outs hI hs
    simp only [Spec.run] at hs
    cases hs
    exact ⟨s, o, cs, rfl, hI, rfl⟩
  | cons op ops ih =>
    intro s o cs pos' outs hI hs
    simp only [Spec.run] at hs
    cases h1 : Spec.applyOp payload s.pos op with
    | none => simp [h1] at hs
    | some r =>
      obtain ⟨p1, o1⟩ := r
      simp only [h1] at hs
      cases h2 : Spec.run payload p1 ops with
      | none => simp [h2] at hs
      | some r2 =>
        obtain ⟨p2, os⟩ := r2
        simp only [h2] at hs
        simp only [Option.some.injEq, Prod.mk.injEq] at hs
        obtain ⟨hs1, hs2⟩ := hs
        subst hs1 hs2
        obtain ⟨s1, oo1, cs1, g1, g2, g3⟩ := applyOp_refines hR hI hf op p1 o1 h1
        subst g3
        obtain ⟨s2, oo2, cs2, k1, k2, k3⟩ := ih s1 oo1 cs1 p2 os g2 h2
        exact ⟨s2, oo2, cs2, by simp [runOps, g1, k1], k2, k3⟩

end

/-! ### The chunk-list source (C13) -/

theorem chunk_yields (all : List Bytes) : ∀ rest : List Bytes, Yields chunkSource ⟨all, rest⟩ rest
  | [] => Yields.eof rfl
  | _ :: r => Yields.chunk (src' := ⟨all, r⟩) rfl (chunk_yields all r)

theorem chunk_regular (chunks : List Bytes) :
    Regular chunkSource chunks.flatten (fun c => c.all = chunks) chunks.length where
  rewind_yields := by
    intro src h
    refine ⟨h, chunks, ?_, rfl, Nat.le_refl _⟩
    have := chunk_yields chunks chunks
    simpa [chunkSource, h] using this
  step_good := by
    intro src b src' h hs
    simp only [chunkSource] at hs
    split at hs
    · cases hs
    · cases hs; exact h

theorem openChunks_inv (chunks : List Bytes) :
    InvAt chunkSource chunks.flatten (fun c => c.all = chunks) chunks.length (openChunks chunks) 0 chunks where
  mode := Or.inl rfl
  good := rfl
  off := rfl
  off_le := Nat.zero_le _
  yields := chunk_yields chunks chunks
  len_le := Nat.le_refl _
  pos_le := Nat.zero_le _
  rem := by simp [openChunks, openRead]
  eof := fun h => by simp [openChunks, openRead] at h
  size := Or.inl rfl

/-! ### Write side -/

theorem writeAll_spec {γ : Type} (C : Compressor γ) :
    ∀ (ds : List Bytes) (w : WFile γ), w.mode = .write →
      ∃ w2, WFile.writeAll C w ds = .ok w2 ∧ w2.mode = .write ∧ w2.handed = w.handed ++ ds ∧
        w2.flushes = w.flushes ∧ w2.pos = w.pos + ds.flatten.length ∧
        w2.fp ++ C.flush w2.comp = w.fp ++ C.stream w.comp ds := by
  intro ds
  induction ds with
  | nil => intro w hm; exact ⟨w, rfl, hm, by simp, rfl, by simp, by simp [Compressor.stream]⟩
  | cons d ds ih =>
    intro w hm
    simp only [WFile.writeAll, WFile.write, hm]
    obtain ⟨w2, h1, h2, h3, h4, h5, h6⟩ := ih
      { w with comp := (C.compress w.comp d).1, fp := w.fp ++ (C.compress w.comp d).2,
               pos := w.pos + d.length, handed := w.handed ++ [d] } hm
    simp only [hm] at h1
    refine ⟨w2, h1, h2, by simp [h3], h4, by simp [h5]; omega, ?_⟩
    rw [h6]; simp [Compressor.stream]

/-! ### The raw-block source (C14) -/

theorem rawStepOld_of_no_unused (c : Codec) (r : RawSrc) (hu : r.dec.unused = []) :
    rawStepOld c r =
      if (r.file.drop r.fpos).take BUFFER_SIZE = [] then .eof
      else
        match r.dec.decompress c ((r.file.drop r.fpos).take BUFFER_SIZE) with
        | none => .err .zlibError
        | some (d', out) =>
          .chunk out { r with fpos := r.fpos + ((r.file.drop r.fpos).take BUFFER_SIZE).length, dec := d' } := by
  simp [rawStepOld, fpRead, hu]
  rfl

theorem rawStepOld_of_unused (c : Codec) (r : RawSrc) (hu : r.dec.unused ≠ []) :
    rawStepOld c r =
      match r.dec.decompress c r.dec.unused with
      | none => .err .zlibError
      | some (d', out) => .chunk out { r with dec := d' } := by
  simp [rawStepOld, hu]
  rfl

/-- Whatever `decompress` returns, the new decompressor state is well formed. -/
theorem decompress_wf (c : Codec) (d d' : Decomp) (x out : Bytes)
    (h : d.decompress c x = some (d', out)) : d'.WF := by
  unfold Decomp.decompress at h
  intro he
  split at h
  · rename_i hd; cases h; simp_all
  · split at h
    · cases h
    · split at h <;> cases h <;> simp_all

theorem take_block_length (f : Bytes) (p : Nat) :
    ((f.drop p).take BUFFER_SIZE).length = min BUFFER_SIZE (f.length - p) := by
  simp [List.length_take, List.length_drop]

/-- One loop body of the REPAIRED `_fill_buffer` that delivers a chunk has consumed one raw block. -/
theorem rawStep_chunk_blocks (c : Codec) (r r' : RawSrc) (b : Bytes) (hwf : r.dec.WF)
    (h : rawStep c r = .chunk b r') : blocksLeft r' + 1 ≤ blocksLeft r ∧ r'.dec.WF := by
  unfold rawStep at h
  by_cases he : r.dec.eof = true
  · simp [he] at h
  · have he' : r.dec.eof = false := by simpa using he
    simp only [he', Bool.false_eq_true, if_false] at h
    rw [rawStepOld_of_no_unused c r (hwf he')] at h
    split at h
    · cases h
    · rename_i hne
      split at h
      · cases h
      · rename_i d' out hd
        cases h
        refine ⟨?_, decompress_wf c _ _ _ _ hd⟩
        have hl := take_block_length r.file r.fpos
        have hpos : 0 < ((r.file.drop r.fpos).take BUFFER_SIZE).length := List.length_pos_iff.mpr hne
        simp only [blocksLeft, BUFFER_SIZE] at *
        omega

/-- TERMINATION MEASURE of the repaired `_fill_buffer`: the number of raw blocks left in `_fp`. -/
theorem fillLoop_raw_terminates (c : Codec) :
    ∀ (fuel : Nat) (s : ZFile RawSrc), s.src.dec.WF → blocksLeft s.src + 1 ≤ fuel →
      fillLoop (rawSource c) fuel s ≠ .error .outOfFuel := by
  intro fuel
  induction fuel with
  | zero => intro s _ h; omega
  | succ fuel ih =>
    intro s hwf hf
    rw [fillLoop.eq_def]
    by_cases hoff : s.bufferOffset = (s.buffer.length : Int)
    · simp only [hoff, if_true]
      cases hs : (rawSource c).step s.src with
      | eof => simp
      | err e => simp
      | chunk b r' =>
        simp only
        obtain ⟨h1, h2⟩ := rawStep_chunk_blocks c s.src r' b hwf hs
        exact ih _ h2 (by simp only; omega)
    · simp [hoff]

/-- DIVERGENCE of the unchanged `_fill_buffer` (finding F7): once the decompressor has seen the end of the
stream and holds unused data, every loop body feeds `unused_data` back, gets `b''`, and is back in the same
situation (with `unused_data` doubled): no amount of fuel suffices. -/
theorem fillLoop_old_diverges (c : Codec) :
    ∀ (fuel : Nat) (s : ZFile RawSrc), s.bufferOffset = (s.buffer.length : Int) →
      s.src.dec.eof = true → s.src.dec.unused ≠ [] →
      fillLoop (rawSourceOld c) fuel s = .error .outOfFuel := by
  intro fuel
  induction fuel with
  | zero => intro s h _ _; rw [fillLoop.eq_def]; simp [h]
  | succ fuel ih =>
    intro s hoff he hu
    rw [fillLoop.eq_def]
    simp only [hoff, if_true]
    have hstep : (rawSourceOld c).step s.src =
        .chunk [] { s.src with dec := { s.src.dec with unused := s.src.dec.unused ++ s.src.dec.unused } } := by
      show rawStepOld c s.src = _
      rw [rawStepOld_of_unused c _ hu]
      simp [Decomp.decompress, he]
    rw [hstep]
    simp only
    exact ih _ (by simp) (by simpa using he) (by simpa using hu)

/-! ### A file whose prefixes the codec decodes monotonically is a byte stream (repaired code) -/

/-- The codec on the file `f` (explicit hypothesis, CPython's zlib is not verified): no prefix of `f` is
rejected; `out k` is everything decodable from the first `k` bytes, growing monotonically; `E` is the offset
just after the end-of-stream marker if `f` contains one, and nothing more comes out after it. -/
structure StreamLaw (c : Codec) (f : Bytes) (E : Option Nat) (out : Nat → Bytes) : Prop where
  inflate_eq : ∀ k, k ≤ f.length →
    c.inflate (f.take k) = some (out k, E.filter (fun e => decide (e ≤ k)))
  mono : ∀ k k', k ≤ k' → k' ≤ f.length → out k <+: out k'
  out_zero : out 0 = []
  stable : ∀ e k, E = some e → e ≤ k → k ≤ f.length → out k = out e
  eof_pos : ∀ e, E = some e → 0 < e ∧ e ≤ f.length

/-- Invariant of the raw source while reading `f`. -/
structure RawGood (f : Bytes) (E : Option Nat) (out : Nat → Bytes) (r : RawSrc) : Prop where
  file : r.file = f
  fpos_le : r.fpos ≤ f.length
  fed : r.dec.fed = f.take r.fpos
  outLen : r.dec.outLen = (out r.fpos).length
  noeof : r.dec.eof = false → r.dec.unused = [] ∧ ∀ e, E = some e → r.fpos < e
  ateof : r.dec.eof = true → ∃ e, E = some e ∧ e ≤ r.fpos

theorem take_length_take {α : Type} (l : List α) (n : Nat) : l.take (l.take n).length = l.take n := by
  have h : (l.take n).take (l.take n).length = l.take n := List.take_length
  rw [List.take_take] at h
  have : min (l.take n).length n = (l.take n).length := by
    rw [List.length_take]; omega
  rw [this] at h
  exact h

theorem rawStep_good {c : Codec} {f : Bytes} {E : Option Nat} {out : Nat → Bytes}
    (law : StreamLaw c f E out) (r : RawSrc) (hg : RawGood f E out r) :
    (rawStep c r = .eof ∧ out r.fpos = out f.length) ∨
    (∃ b r', rawStep c r = .chunk b r' ∧ RawGood f E out r' ∧ out r.fpos ++ b = out r'.fpos ∧
      blocksLeft r' + 1 ≤ blocksLeft r) := by
  cases he : r.dec.eof with
  | true =>
    left
    refine ⟨by simp [rawStep, he], ?_⟩
    obtain ⟨e, h1, h2⟩ := hg.ateof he
    rw [law.stable e r.fpos h1 h2 hg.fpos_le, law.stable e f.length h1 (law.eof_pos e h1).2 (Nat.le_refl _)]
  | false =>
    obtain ⟨hu, hE⟩ := hg.noeof he
    have hstep : rawStep c r = rawStepOld c r := by simp [rawStep, he]
    rw [hstep, rawStepOld_of_no_unused c r hu, hg.file]
    by_cases hB : (f.drop r.fpos).take BUFFER_SIZE = []
    · left
      refine ⟨by simp [hB], ?_⟩
      have := congrArg List.length hB
      rw [List.length_take, List.length_drop] at this
      have hfp := hg.fpos_le
      have : r.fpos = f.length := by simp [BUFFER_SIZE] at this; omega
      rw [this]
    · right
      simp only [hB, if_false]
      have hlen := take_block_length f r.fpos
      have hpos : 0 < ((f.drop r.fpos).take BUFFER_SIZE).length := List.length_pos_iff.mpr hB
      have hfp := hg.fpos_le
      have hfp' : r.fpos + ((f.drop r.fpos).take BUFFER_SIZE).length ≤ f.length := by
        rw [hlen]; omega
      have hfed : r.dec.fed ++ (f.drop r.fpos).take BUFFER_SIZE
          = f.take (r.fpos + ((f.drop r.fpos).take BUFFER_SIZE).length) := by
        rw [hg.fed, List.take_add, take_length_take]
      have hinf := law.inflate_eq _ hfp'
      have hpre := law.mono r.fpos _ (Nat.le_add_right _ _) hfp'
      have happ := List.prefix_iff_eq_append.mp hpre
      have hbl : blocksLeft { r with fpos := r.fpos + ((f.drop r.fpos).take BUFFER_SIZE).length } + 1
          ≤ blocksLeft r := by
        simp only [blocksLeft, hg.file, BUFFER_SIZE] at *
        omega
      unfold Decomp.decompress
      simp only [he, Bool.false_eq_true, if_false, hfed, hinf]
      cases hE' : E with
      | none =>
        simp only [Option.filter_none]
        refine ⟨_, _, rfl, ?_, ?_, by simpa [blocksLeft, hg.file] using hbl⟩
        · exact
            { file := rfl
              fpos_le := hfp'
              fed := rfl
              outLen := rfl
              noeof := fun _ => ⟨rfl, fun e h => by cases h⟩
              ateof := fun h => by simp at h }
        · simp only; rw [hg.outLen]; exact happ
      | some e =>
        by_cases hle : e ≤ r.fpos + ((f.drop r.fpos).take BUFFER_SIZE).length
        · simp only [Option.filter_some, hle, decide_true, if_true]
          refine ⟨_, _, rfl, ?_, ?_, by simpa [blocksLeft, hg.file] using hbl⟩
          · exact
              { file := rfl
                fpos_le := hfp'
                fed := rfl
                outLen := rfl
                noeof := fun h => by simp at h
                ateof := fun _ => ⟨e, rfl, hle⟩ }
          · simp only; rw [hg.outLen]; exact happ
        · simp only [Option.filter_some, hle, decide_false, Bool.false_eq_true, if_false]
          refine ⟨_, _, rfl, ?_, ?_, by simpa [blocksLeft, hg.file] using hbl⟩
          · exact
              { file := rfl
                fpos_le := hfp'
                fed := rfl
                outLen := rfl
                noeof := fun _ => ⟨rfl, fun e' h => by cases h; simp only; omega⟩
                ateof := fun h => by simp at h }
          · simp only; rw [hg.outLen]; exact happ

theorem raw_yields {c : Codec} {f : Bytes} {E : Option Nat} {out : Nat → Bytes}
    (law : StreamLaw c f E out) :
    ∀ (n : Nat) (r : RawSrc), RawGood f E out r → blocksLeft r ≤ n →
      ∃ cs, Yields (rawSource c) r cs ∧ out r.fpos ++ cs.flatten = out f.length ∧
        cs.length ≤ blocksLeft r := by
  intro n
  induction n with
  | zero =>
    intro r hg hn
    rcases rawStep_good law r hg with ⟨h1, h2⟩ | ⟨b, r', _, _, _, h4⟩
    · exact ⟨[], Yields.eof h1, by simpa using h2, by simp⟩
    · omega
  | succ n ih =>
    intro r hg hn
    rcases rawStep_good law r hg with ⟨h1, h2⟩ | ⟨b, r', h1, h2, h3, h4⟩
    · exact ⟨[], Yields.eof h1, by simpa using h2, by simp⟩
    · obtain ⟨cs, g1, g2, g3⟩ := ih r' h2 (by omega)
      refine ⟨b :: cs, Yields.chunk h1 g1, ?_, by simp; omega⟩
      rw [List.flatten_cons, ← List.append_assoc, h3, g2]

theorem rawGood_rewind {c : Codec} {f : Bytes} {E : Option Nat} {out : Nat → Bytes}
    (law : StreamLaw c f E out) (r : RawSrc) (hf : r.file = f) : RawGood f E out (rawRewind r) where
  file := hf
  fpos_le := Nat.zero_le _
  fed := by simp [rawRewind, Decomp.fresh]
  outLen := by simp [rawRewind, Decomp.fresh, law.out_zero]
  noeof := fun _ => ⟨rfl, fun e h => (law.eof_pos e h).1⟩
  ateof := fun h => by simp [rawRewind, Decomp.fresh] at h

/-- Chunks the file can be spread over: at most one per raw block. -/
def rawBound (f : Bytes) : Nat := f.length / BUFFER_SIZE + 1

theorem raw_regular {c : Codec} {f : Bytes} {E : Option Nat} {out : Nat → Bytes}
    (law : StreamLaw c f E out) :
    Regular (rawSource c) (out f.length) (RawGood f E out) (rawBound f) where
  rewind_yields := by
    intro src hg
    have hg' := rawGood_rewind law src hg.file
    refine ⟨hg', ?_⟩
    obtain ⟨cs, h1, h2, h3⟩ := raw_yields law _ _ hg' (Nat.le_refl _)
    refine ⟨cs, h1, ?_, ?_⟩
    · simpa [rawRewind, law.out_zero] using h2
    · have : blocksLeft (rawRewind src) ≤ rawBound f := by
        simp only [blocksLeft, rawRewind, rawBound, hg.file, BUFFER_SIZE]; omega
      omega
  step_good := by
    intro src b src' hg hs
    rcases rawStep_good law src hg with ⟨h1, _⟩ | ⟨b0, r0, h1, h2, _, _⟩
    · rw [show (rawSource c).step src = rawStep c src from rfl, h1] at hs; cases hs
    · rw [show (rawSource c).step src = rawStep c src from rfl, h1] at hs; cases hs; exact h2

theorem openRaw_inv {c : Codec} {f : Bytes} {E : Option Nat} {out : Nat → Bytes}
    (law : StreamLaw c f E out) :
    ∃ cs, InvAt (rawSource c) (out f.length) (RawGood f E out) (rawBound f) (openRaw f) 0 cs := by
  have hg : RawGood f E out ⟨f, 0, .fresh⟩ := rawGood_rewind law ⟨f, 0, .fresh⟩ rfl
  obtain ⟨_, cs, h1, h2, h3⟩ := (raw_regular law).rewind_yields _ hg
  exact ⟨cs,
    { mode := Or.inl rfl
      good := hg
      off := rfl
      off_le := Nat.zero_le _
      yields := h1
      len_le := h3
      pos_le := Nat.zero_le _
      rem := by simp [openRaw, openRead, h2]
      eof := fun h => by simp [openRaw, openRead] at h
      size := Or.inl rfl }⟩

/-- The codec law for a VALID file `raw` of payload `p` (explicit hypothesis): every strict prefix decodes
without error to `out k`, monotonically, without reporting end of stream; the whole file — also when followed
by arbitrary bytes `t` — decodes to `p` and reports the end of the stream at `|raw|`. -/
structure ValidFile (c : Codec) (raw p : Bytes) (out : Nat → Bytes) : Prop where
  prefix_ok : ∀ k, k < raw.length → c.inflate (raw.take k) = some (out k, none)
  whole : ∀ t, c.inflate (raw ++ t) = some (p, some raw.length)
  mono : ∀ k k', k ≤ k' → k' ≤ raw.length → out k <+: out k'
  out_zero : out 0 = []
  out_whole : out raw.length = p
  nonempty : 0 < raw.length

theorem trunc_law {c : Codec} {raw p : Bytes} {out : Nat → Bytes} (hv : ValidFile c raw p out)
    (k : Nat) (hk : k < raw.length) : StreamLaw c (raw.take k) none out where
  inflate_eq := by
    intro j hj
    have hl : (raw.take k).length = k := by rw [List.length_take]; omega
    rw [hl] at hj
    rw [List.take_take, Nat.min_eq_left hj, hv.prefix_ok j (by omega)]
    simp
  mono := by
    intro a b hab hb
    have hl : (raw.take k).length = k := by rw [List.length_take]; omega
    exact hv.mono a b hab (by omega)
  out_zero := hv.out_zero
  stable := by intro e k' h; cases h
  eof_pos := by intro e h; cases h

theorem trail_law {c : Codec} {raw p : Bytes} {out : Nat → Bytes} (hv : ValidFile c raw p out)
    (t : Bytes) :
    StreamLaw c (raw ++ t) (some raw.length) (fun j => if j < raw.length then out j else p) where
  inflate_eq := by
    intro j hj
    by_cases hlt : j < raw.length
    · have : (raw ++ t).take j = raw.take j := List.take_append_of_le_length (by omega)
      rw [this, hv.prefix_ok j hlt]
      have : ¬ raw.length ≤ j := by omega
      simp [hlt, Option.filter_some, this]
    · have : (raw ++ t).take j = raw ++ t.take (j - raw.length) := by
        rw [List.take_append, List.take_of_length_le (by omega)]
      rw [this, hv.whole]
      have : raw.length ≤ j := by omega
      simp [hlt, Option.filter_some, this]
  mono := by
    intro a b hab hb
    by_cases h1 : b < raw.length
    · have h2 : a < raw.length := by omega
      simp only [h1, h2, if_true]
      exact hv.mono a b hab (by omega)
    · by_cases h2 : a < raw.length
      · simp only [h1, h2, if_true, if_false]
        rw [← hv.out_whole]
        exact hv.mono a raw.length (by omega) (Nat.le_refl _)
      · simp only [h1, h2, if_false]
        exact List.prefix_refl _
  out_zero := by simp [hv.nonempty, hv.out_zero]
  stable := by
    intro e k he hk _
    cases he
    have : ¬ k < raw.length := by omega
    simp [this]
  eof_pos := by
    intro e he
    cases he
    exact ⟨hv.nonempty, by simp⟩

/-! ### `load` through `BufferedReader` on a file that is a byte stream -/

theorem IO_BUFFER_SIZE_eq : IO_BUFFER_SIZE = 1048576 := rfl

theorem loadZ_spec {σ : Type} {S : Source σ} {payload : Bytes} {G : σ → Prop} {N : Nat}
    (hR : Regular S payload G N) {fuel : Nat} (hf : N + 2 ≤ fuel) (need : Nat) :
    ∀ (rounds got : Nat) (s : ZFile σ) (o : Nat) (cs : List Bytes),
      InvAt S payload G N s o cs → got < need →
      (payload.length - s.pos + (IO_BUFFER_SIZE - 1)) / IO_BUFFER_SIZE + 1 ≤ rounds →
      loadZ S fuel need rounds got s =
        if need ≤ got + (payload.length - s.pos) then .returnsOriginal else .raises := by
  intro rounds
  induction rounds with
  | zero => intro got s o cs _ _ h; exact absurd h (Nat.not_succ_le_zero _)
  | succ rounds ih =>
    intro got s o cs hI hg hr
    have hcs := hI.len_le
    obtain ⟨s1, o1, cs1, h1, hI1, _, hp⟩ := read_spec (fuel := fuel) hR hI (by omega) (IO_BUFFER_SIZE : Int)
    have hsr : specRead payload s.pos (IO_BUFFER_SIZE : Int) = (payload.drop s.pos).take IO_BUFFER_SIZE := by
      unfold specRead
      have : ¬ ((IO_BUFFER_SIZE : Int) < 0) := by omega
      simp [this]
    rw [hsr] at h1 hp
    have hlen : ((payload.drop s.pos).take IO_BUFFER_SIZE).length
        = min IO_BUFFER_SIZE (payload.length - s.pos) := by
      rw [List.length_take, List.length_drop]
    rw [loadZ, readinto, h1]
    simp only
    have hpl := hI.pos_le
    by_cases hrem : payload.length - s.pos = 0
    · have : (payload.drop s.pos).take IO_BUFFER_SIZE = [] := by
        apply List.eq_nil_of_length_eq_zero; rw [hlen, hrem]; simp
      rw [this]
      have : ¬ need ≤ got + (payload.length - s.pos) := by omega
      simp [this]
    · have hne : ((payload.drop s.pos).take IO_BUFFER_SIZE).isEmpty = false := by
        rw [List.isEmpty_eq_false_iff]
        intro h
        have := congrArg List.length h
        rw [hlen, IO_BUFFER_SIZE_eq] at this
        simp at this; omega
      simp only [hne, Bool.false_eq_true, if_false]
      by_cases hge : got + ((payload.drop s.pos).take IO_BUFFER_SIZE).length ≥ need
      · have : need ≤ got + (payload.length - s.pos) := by rw [hlen] at hge; omega
        rw [if_pos hge, if_pos this]
      · simp only [hge, if_false]
        rw [ih _ s1 o1 cs1 hI1 (by omega) (by
          rw [hp, hlen, IO_BUFFER_SIZE_eq] at *
          omega)]
        have : got + ((payload.drop s.pos).take IO_BUFFER_SIZE).length + (payload.length - s1.pos)
            = got + (payload.length - s.pos) := by
          rw [hp, hlen]; omega
        rw [this]

/-! ### The unchanged code on a valid file followed by extra bytes (single raw block) -/

theorem old_readAll_diverges {c : Codec} {raw p : Bytes} {out : Nat → Bytes} (hv : ValidFile c raw p out)
    (t : Bytes) (ht : t ≠ []) (hlen : (raw ++ t).length ≤ BUFFER_SIZE) :
    ∀ fuel, readAll (rawSourceOld c) fuel (openRaw (raw ++ t)) = .error .outOfFuel := by
  intro fuel
  unfold readAll
  simp only [openRaw, openRead]
  rw [show pySliceFrom ([] : Bytes) 0 = [] from rfl]
  cases fuel with
  | zero => rfl
  | succ k =>
    rw [readAllLoop]
    -- the first `_fill_buffer` reads the whole file as one raw block
    have hblock : ((raw ++ t).drop 0).take BUFFER_SIZE = raw ++ t := by
      simp [List.take_of_length_le hlen]
    have hne : raw ++ t ≠ [] := by
      intro h; have := congrArg List.length h; simp at this; exact ht this.2
    have hstep : rawStepOld c ⟨raw ++ t, 0, .fresh⟩ =
        .chunk p ⟨raw ++ t, (raw ++ t).length, ⟨raw ++ t, p.length, true, t⟩⟩ := by
      rw [rawStepOld_of_no_unused c _ rfl]
      simp only [hblock, hne, if_false]
      simp [Decomp.decompress, Decomp.fresh, hv.whole t]
    have hfill1 : fillBuffer (rawSourceOld c) (k + 1)
        { mode := .read, pos := 0, size := -1, buffer := [], bufferOffset := 0,
          src := (⟨raw ++ t, 0, .fresh⟩ : RawSrc) } =
        fillLoop (rawSourceOld c) k
          { mode := .read, pos := 0, size := -1, buffer := p, bufferOffset := 0,
            src := (⟨raw ++ t, (raw ++ t).length, ⟨raw ++ t, p.length, true, t⟩⟩ : RawSrc) } := by
      unfold fillBuffer
      simp only [show ¬ (Mode.read = Mode.readEof) by decide, if_false]
      rw [fillLoop.eq_def]
      simp only [List.length_nil, Int.ofNat_zero, if_true]
      rw [show (rawSourceOld c).step ⟨raw ++ t, 0, .fresh⟩ = rawStepOld c ⟨raw ++ t, 0, .fresh⟩ from rfl,
        hstep]
    rw [hfill1]
    by_cases hp : p = []
    · subst hp
      rw [fillLoop_old_diverges c k _ (by simp) rfl (by simpa using ht)]
    · rw [fillLoop.eq_def]
      have : ¬ ((0 : Int) = (p.length : Int)) := by
        have : 0 < p.length := List.length_pos_iff.mpr hp
        omega
      simp only [this, if_false]
      cases k with
      | zero => rfl
      | succ k =>
        rw [readAllLoop]
        unfold fillBuffer
        simp only [show ¬ (Mode.read = Mode.readEof) by decide, if_false]
        rw [fillLoop_old_diverges c _ _ (by simp) rfl (by simpa using ht)]

/-! ### `_read_bytes` over a file object that is a byte stream -/

theorem readBytes_spec {σ : Type} {S : Source σ} {payload : Bytes} {G : σ → Prop} {N : Nat}
    (hR : Regular S payload G N) {fuel : Nat} (hf : N + 2 ≤ fuel) (size : Nat)
    {s : ZFile σ} {o : Nat} {cs : List Bytes} (hI : InvAt S payload G N s o cs) :
    (size ≤ payload.length - s.pos →
      ∃ s', readBytes S fuel size s = .ok (s', (payload.drop s.pos).take size) ∧ s'.pos = s.pos + size) ∧
    (payload.length - s.pos < size → readBytes S fuel size s = .error (.exc .valueError)) := by
  have hcs := hI.len_le
  have hpl := hI.pos_le
  obtain ⟨s1, o1, cs1, h1, hI1, hl1, hp1⟩ := read_spec (fuel := fuel) hR hI (by omega) (size : Int)
  have hsr : specRead payload s.pos (size : Int) = (payload.drop s.pos).take size := by
    unfold specRead
    have : ¬ ((size : Int) < 0) := by omega
    simp [this]
  rw [hsr] at h1 hp1
  have hlen : ((payload.drop s.pos).take size).length = min size (payload.length - s.pos) := by
    rw [List.length_take, List.length_drop]
  unfold readBytes
  rw [readBytesLoop]
  simp only [List.length_nil, Int.ofNat_zero, Int.sub_zero, h1, List.nil_append]
  constructor
  · intro hle
    have hfull : ((payload.drop s.pos).take size).length = size := by rw [hlen]; omega
    refine ⟨s1, ?_, by rw [hp1, hfull]⟩
    simp [hfull]
  · intro hlt
    have hshort : ((payload.drop s.pos).take size).length = payload.length - s.pos := by rw [hlen]; omega
    by_cases hz : payload.length - s.pos = 0
    · have : ¬ ((payload.drop s.pos).take size).length = size := by omega
      simp [hshort, hz]
      omega
    · -- some bytes came, but fewer than asked for: the next read is at end of stream and returns b''
      have hne1 : ¬ ((payload.drop s.pos).take size).length = 0 := by omega
      have hne2 : ¬ ((payload.drop s.pos).take size).length = size := by omega
      simp only [hne1, hne2, or_self, if_false]
      have hcs1 := hI1.len_le
      obtain ⟨s2, o2, cs2, h2, _, _, hp2⟩ := read_spec (fuel := fuel) hR hI1 (by omega)
        ((size : Int) - (((payload.drop s.pos).take size).length : Int))
      have hend : payload.drop s1.pos = [] := by
        rw [List.drop_eq_nil_iff, hp1, hshort]; omega
      have hsr2 : specRead payload s1.pos ((size : Int) - (((payload.drop s.pos).take size).length : Int)) = [] := by
        unfold specRead
        rw [hend]; simp
      rw [hsr2] at h2
      cases size with
      | zero => omega
      | succ n =>
        rw [readBytesLoop, h2]
        simp
        omega

end JoblibModel.ZlibFile
