import JoblibProofs.Lemmas.StoreInv
/-! Rely/guarantee program logic for `Prog` (C05, C11).

`Runs R p fs tr out fs'` — `p`, started in `fs`, interleaved with any number of environment steps `R` before each of its
system calls, ends with `out` in `fs'`; `tr` lists its own calls with the states they were made in.
`Sat R G P p Q E` — a derivation that from every state satisfying `P`, under environment `R`, every call of `p` is
allowed by `G`, and `p` returns `a` only in states satisfying `Q a`, raises `e` only in states satisfying `E e`. -/
namespace JoblibModel.Store

inductive Runs (R : FS → FS → Prop) {α : Type} : Prog α → FS → List (FS × Op) → Outcome α → FS → Prop
  | ret (a : α) (fs : FS) : Runs R (.ret a) fs [] (.ok a) fs
  | raise (e : Err) (fs : FS) : Runs R (.raise e) fs [] (.raised e) fs
  | env {o : Op} {k : Res → Prog α} {fs fs' fs'' : FS} {tr : List (FS × Op)} {out : Outcome α} :
      R fs fs' → Runs R (.op o k) fs' tr out fs'' → Runs R (.op o k) fs tr out fs''
  | step {o : Op} {k : Res → Prog α} {fs fs' : FS} {tr : List (FS × Op)} {out : Outcome α} :
      Runs R (k (apply o fs).1) (apply o fs).2 tr out fs' → Runs R (.op o k) fs ((fs, o) :: tr) out fs'

inductive Sat (R : FS → FS → Prop) (G : FS → Op → Prop) {α : Type} :
    (FS → Prop) → Prog α → (α → FS → Prop) → (Err → FS → Prop) → Prop
  | ret {P : FS → Prop} {a : α} {Q : α → FS → Prop} {E : Err → FS → Prop} :
      (∀ fs, P fs → Q a fs) → Sat R G P (.ret a) Q E
  | raise {P : FS → Prop} {e : Err} {Q : α → FS → Prop} {E : Err → FS → Prop} :
      (∀ fs, P fs → E e fs) → Sat R G P (.raise e) Q E
  | op {P : FS → Prop} {o : Op} {k : Res → Prog α} {Q : α → FS → Prop} {E : Err → FS → Prop}
      (M : Res → FS → Prop) :
      (∀ fs, P fs → G fs o ∧ M (apply o fs).1 (apply o fs).2) →
      (∀ r fs fs', M r fs → R fs fs' → M r fs') →
      (∀ r, Sat R G (M r) (k r) Q E) → Sat R G P (.op o k) Q E

def Stable (R : FS → FS → Prop) (P : FS → Prop) : Prop := ∀ fs fs', P fs → R fs fs' → P fs'

variable {R : FS → FS → Prop} {G : FS → Op → Prop}

theorem Sat.pre {α : Type} {P P' : FS → Prop} {p : Prog α} {Q : α → FS → Prop} {E : Err → FS → Prop}
    (h : Sat R G P p Q E) (hp : ∀ fs, P' fs → P fs) : Sat R G P' p Q E := by
  cases h with
  | ret hq => exact .ret fun fs h => hq fs (hp fs h)
  | raise he => exact .raise fun fs h => he fs (hp fs h)
  | op M h1 h2 h3 => exact .op M (fun fs h => h1 fs (hp fs h)) h2 h3

theorem Sat.post {α : Type} {P : FS → Prop} {p : Prog α} {Q Q' : α → FS → Prop} {E E' : Err → FS → Prop}
    (h : Sat R G P p Q E) (hq : ∀ a fs, Q a fs → Q' a fs) (he : ∀ e fs, E e fs → E' e fs) : Sat R G P p Q' E' := by
  induction h with
  | ret h => exact .ret fun fs hp => hq _ fs (h fs hp)
  | raise h => exact .raise fun fs hp => he _ fs (h fs hp)
  | op M h1 h2 _ ih => exact .op M h1 h2 fun r => ih r hq he

theorem Sat.bind {α β : Type} {P : FS → Prop} {p : Prog α} {f : α → Prog β} {Q' : α → FS → Prop}
    {Q : β → FS → Prop} {E : Err → FS → Prop}
    (hp : Sat R G P p Q' E) (hf : ∀ a, Sat R G (Q' a) (f a) Q E) : Sat R G P (p.bind f) Q E := by
  induction hp with
  | ret h => exact (hf _).pre h
  | raise h => exact .raise h
  | op M h1 h2 _ ih => exact .op M h1 h2 fun r => ih r hf

theorem Sat.tryCatch {α : Type} {P : FS → Prop} {p : Prog α} {hd : Err → Prog α} {Q : α → FS → Prop}
    {E1 E : Err → FS → Prop}
    (hp : Sat R G P p Q E1) (hh : ∀ e, Sat R G (E1 e) (hd e) Q E) : Sat R G P (p.tryCatch hd) Q E := by
  induction hp with
  | ret h => exact .ret h
  | raise h => exact (hh _).pre h
  | op M h1 h2 _ ih => exact .op M h1 h2 fun r => ih r hh

def OutSat {α : Type} (Q : α → FS → Prop) (E : Err → FS → Prop) : Outcome α → FS → Prop
  | .ok a, fs => Q a fs
  | .raised e, fs => E e fs

/-- Soundness: along every interleaved run, every own call is allowed and the outcome satisfies the postcondition. -/
theorem Sat.sound {α : Type} {P : FS → Prop} {p : Prog α} {Q : α → FS → Prop} {E : Err → FS → Prop}
    {fs fs' : FS} {tr : List (FS × Op)} {out : Outcome α}
    (hr : Runs R p fs tr out fs') (hs : Sat R G P p Q E) (hst : Stable R P) (h0 : P fs) :
    (∀ x ∈ tr, G x.1 x.2) ∧ OutSat Q E out fs' := by
  induction hr generalizing P with
  | ret a fs =>
    cases hs with
    | ret h => exact ⟨by simp, h fs h0⟩
  | raise e fs =>
    cases hs with
    | raise h => exact ⟨by simp, h fs h0⟩
  | env hR _ ih => exact ih hs hst (hst _ _ h0 hR)
  | step _ ih =>
    cases hs with
    | op M h1 h2 h3 =>
      obtain ⟨hg, hm⟩ := h1 _ h0
      obtain ⟨a, b⟩ := ih (h3 _) (h2 _) hm
      refine ⟨?_, b⟩
      intro x hx
      rcases List.mem_cons.mp hx with rfl | hx
      · exact hg
      · exact a x hx

/-- A solo run is a run under the empty environment. -/
theorem runs_solo {α : Type} (p : Prog α) (fs : FS) :
    ∃ tr, Runs (fun _ _ => False) p fs tr (run p fs).1 (run p fs).2 := by
  induction p generalizing fs with
  | ret a => exact ⟨[], .ret a fs⟩
  | raise e => exact ⟨[], .raise e fs⟩
  | op o k ih =>
    obtain ⟨tr, h⟩ := ih (apply o fs).1 (apply o fs).2
    exact ⟨(fs, o) :: tr, .step h⟩

/-- Crash states: an invariant kept by every allowed call — and by its torn variant — holds after a kill at any point. -/
theorem Sat.crash {α : Type} {I : FS → Prop} {P : FS → Prop} {p : Prog α} {Q : α → FS → Prop} {E : Err → FS → Prop}
    (hI : ∀ fs o, I fs → G fs o → I (apply o fs).2 ∧ ∀ n, I (apply (tear n o) fs).2)
    (k : Nat) (torn : Option Nat) {fs : FS}
    (hs : Sat (fun _ _ => False) G P p Q E) (h0 : P fs) (hi : I fs) : I (crash k torn p fs) := by
  induction k generalizing P p fs with
  | zero => cases p <;> exact hi
  | succ k ih =>
    cases hs with
    | ret _ => exact hi
    | raise _ => exact hi
    | op M h1 h2 h3 =>
      obtain ⟨hg, hm⟩ := h1 _ h0
      obtain ⟨ha, ht⟩ := hI _ _ hi hg
      cases k with
      | zero =>
        cases torn with
        | none => exact ih (h3 _) hm ha
        | some n => exact ht n
      | succ k' => exact ih (h3 _) hm ha

end JoblibModel.Store
