import JoblibModel.StoreLimitsOps
import JoblibProofs.Lemmas.StoreLimits
/-! Helper lemmas for the interruption / history part of C18 (`JoblibModel.StoreLimitsOps`). -/
namespace JoblibModel.StoreLimits
open JoblibModel.Lru

/-- The interrupted loop is the complete loop on the first `k` selected items; call `k` is started, not done. -/
theorem enforceLoopInt_eq (raises : Path → Bool) (k : Nat) (sel : List (Item Path)) (t : Dir) (calls : List Path) :
    enforceLoopInt raises k sel t calls =
      (clearAll (sel.take k) t, calls ++ (sel.take (k + 1)).map (·.id), decide (k < sel.length)) := by
  induction sel generalizing k t calls with
  | nil => cases k <;> simp [enforceLoopInt, clearAll]
  | cons it r ih =>
    cases k with
    | zero => simp [enforceLoopInt, clearAll]
    | succ k =>
      simp only [enforceLoopInt, clearLocation]
      cases raises it.id <;> simp [ih, clearAll]

/-- `filter_keeps_perm_survivors` for ANY split of the LRU order into what was cleared and the rest. -/
theorem filter_keeps_perm_split (items D R : List (Item Path)) (hsplit : D ++ R = sortByAccess items)
    (hsep : (items.map (·.id)).Pairwise (fun a b => ¬ a <+: b ∧ ¬ b <+: a)) :
    (items.filter (fun it => D.all (fun s => keeps s.id it.id))).Perm R := by
  have hperm := sortByAccess_perm items
  refine (hperm.symm.filter _).trans ?_
  rw [← hsplit, List.filter_append]
  have hpw : ((D ++ R).map (·.id)).Pairwise (fun a b => ¬ a <+: b ∧ ¬ b <+: a) := by
    rw [hsplit]
    exact (hperm.map _).symm.pairwise hsep (fun h => ⟨h.2, h.1⟩)
  rw [List.map_append, List.pairwise_append] at hpw
  obtain ⟨_, _, hcross⟩ := hpw
  have hD : D.filter (fun it => D.all (fun s => keeps s.id it.id)) = [] := by
    rw [List.filter_eq_nil_iff]
    intro it hit
    simp only [List.all_eq_true]
    intro h
    have := h it hit
    simp [keeps_eq_false.mpr (List.prefix_refl it.id)] at this
  have hR : R.filter (fun it => D.all (fun s => keeps s.id it.id)) = R := by
    rw [List.filter_eq_self]
    intro it hit
    simp only [List.all_eq_true]
    intro s hs
    rw [keeps_eq_true]
    exact (hcross s.id (List.mem_map_of_mem hs) it.id (List.mem_map_of_mem hit)).1
  rw [hD, hR]; simp

/-- Without an interruption `reduceSizeInt` is `reduceSize`. -/
theorem reduceSizeInt_none (hasBackend : Bool) (bytes : Option BytesArg) (items deadline : Option Int)
    (raises : Path → Bool) (t : Dir) :
    reduceSizeInt hasBackend bytes items deadline raises none t
      = .ofOutcome (reduceSize hasBackend bytes items deadline raises t) := by
  unfold reduceSizeInt reduceSize
  split
  · rfl
  · split
    · rfl
    · rfl

theorem ofOutcome_returned {o : Outcome} {t : Dir} {c : List Path} (h : OutcomeI.ofOutcome o = .returned t c) :
    o = .returned t c := by
  cases o with
  | returned t' c' => simp only [OutcomeI.ofOutcome] at h; injection h with h1 h2; rw [h1, h2]
  | raised e => simp [OutcomeI.ofOutcome] at h

end JoblibModel.StoreLimits
