import JoblibModel.MemoryCache
import JoblibProofs.Lemmas.HashDecode
import JoblibProofs.Lemmas.FilterArgs
import JoblibProofs.C07
import JoblibProofs.C08
/-! Helper lemmas and specification predicates for C02 / C06 (`JoblibModel.MemoryCache`): canonical
listings of Python values, the embedding of `filter_args` dicts, the bridge to C07 (`core_eq_bind`)
and C08 (`encode_inj`, `encode_perm_invariant`), and the store invariant. Core Lean only. -/
namespace JoblibModel.MemoryCache
open JoblibModel.FilterArgs JoblibModel.HashStream

/-! ## canonical listings -/

/-- The canonical listing of a Python value: every set / frozenset / dict part, at every depth, in
sorted order.  Two listings of one Python value (other insertion orders) have the same `canon`. -/
def canon (v : PyVal) : PyVal := canonF (depth v) v

/-- The two listings denote the same Python value. -/
def SameValue (v w : PyVal) : Prop := canon v = canon w

theorem depth_pos (v : PyVal) : 0 < depth v := by
  cases v <;> simp [depth]

theorem depth_le_depthList {x : PyVal} : ∀ {l : List PyVal}, x ∈ l → depth x ≤ depthList l
  | y :: ys, h => by
    simp only [depthList]
    rcases List.mem_cons.mp h with rfl | h
    · omega
    · have := depth_le_depthList h; omega

theorem depth_le_depthItems {kv : PyVal × PyVal} : ∀ {l : List (PyVal × PyVal)}, kv ∈ l →
    depth kv.1 ≤ depthItems l ∧ depth kv.2 ≤ depthItems l
  | (k, v) :: ys, h => by
    simp only [depthItems]
    rcases List.mem_cons.mp h with e | h
    · subst e; simp only; constructor <;> omega
    · have := depth_le_depthItems h; constructor <;> omega

theorem canonF_list_eq (f : Nat) (l : List PyVal) :
    canonF (f + 1) (.list l) = .list (l.map (canonF f)) := rfl
theorem canonF_tuple_eq (f : Nat) (l : List PyVal) :
    canonF (f + 1) (.tuple l) = .tuple (l.map (canonF f)) := rfl
theorem canonF_set_eq (f : Nat) (l : List PyVal) :
    canonF (f + 1) (.set l) = .set ((sortOn id l).map (canonF f)) := rfl
theorem canonF_frozenset_eq (f : Nat) (l : List PyVal) :
    canonF (f + 1) (.frozenset l) = .frozenset ((sortOn id l).map (canonF f)) := rfl
theorem canonF_dict_eq (f : Nat) (l : List (PyVal × PyVal)) :
    canonF (f + 1) (.dict l) =
      .dict ((sortOn Prod.fst l).map fun kv => (canonF f kv.1, canonF f kv.2)) := rfl

theorem canonF_succ : ∀ (f : Nat) (v : PyVal), depth v ≤ f → canonF (f + 1) v = canonF f v := by
  intro f
  induction f with
  | zero => intro v h; have := depth_pos v; omega
  | succ f ih =>
    intro v h
    cases v with
    | none => simp [canonF]
    | bool b => simp [canonF]
    | int i => simp [canonF]
    | float x => simp [canonF]
    | str s => simp [canonF]
    | bytes s => simp [canonF]
    | list l =>
      simp only [depth] at h
      rw [canonF_list_eq, canonF_list_eq, PyVal.list.injEq]
      exact List.map_congr_left fun x hx => ih x (by have := depth_le_depthList hx; omega)
    | tuple l =>
      simp only [depth] at h
      rw [canonF_tuple_eq, canonF_tuple_eq, PyVal.tuple.injEq]
      exact List.map_congr_left fun x hx => ih x (by have := depth_le_depthList hx; omega)
    | set l =>
      simp only [depth] at h
      rw [canonF_set_eq, canonF_set_eq, PyVal.set.injEq]
      exact List.map_congr_left fun x hx => ih x (by
        have := depth_le_depthList ((sortOn_perm id l).subset hx); omega)
    | frozenset l =>
      simp only [depth] at h
      rw [canonF_frozenset_eq, canonF_frozenset_eq, PyVal.frozenset.injEq]
      exact List.map_congr_left fun x hx => ih x (by
        have := depth_le_depthList ((sortOn_perm id l).subset hx); omega)
    | dict l =>
      simp only [depth] at h
      rw [canonF_dict_eq, canonF_dict_eq, PyVal.dict.injEq]
      refine List.map_congr_left fun x hx => ?_
      have := depth_le_depthItems ((sortOn_perm Prod.fst l).subset hx)
      rw [ih x.1 (by omega), ih x.2 (by omega)]

theorem canonF_add (v : PyVal) : ∀ n, canonF (depth v + n) v = canon v
  | 0 => rfl
  | n + 1 => by rw [← Nat.add_assoc, canonF_succ _ _ (by omega), canonF_add v n]

theorem canonF_of_le {f : Nat} {v : PyVal} (h : depth v ≤ f) : canonF f v = canon v := by
  obtain ⟨n, rfl⟩ := Nat.exists_eq_add_of_le h
  exact canonF_add v n

theorem canonF_str (f : Nat) (s : Bs) : canonF f (.str s) = .str s := by
  cases f <;> simp [canonF]

theorem canon_str (s : Bs) : canon (.str s) = .str s := canonF_str _ s

theorem canon_dict (items : List (PyVal × PyVal)) :
    canon (.dict items) = .dict ((sortOn Prod.fst items).map fun kv => (canon kv.1, canon kv.2)) := by
  unfold canon
  simp only [depth]; rw [canonF_dict_eq, PyVal.dict.injEq]
  refine List.map_congr_left fun x hx => ?_
  have := depth_le_depthItems ((sortOn_perm Prod.fst items).subset hx)
  rw [canonF_of_le this.1, canonF_of_le this.2]; rfl

theorem canon_list (l : List PyVal) : canon (.list l) = .list (l.map canon) := by
  unfold canon
  simp only [depth]; rw [canonF_list_eq, PyVal.list.injEq]
  exact List.map_congr_left fun x hx => canonF_of_le (depth_le_depthList hx)

/-! ## dicts with `str` keys -/

/-- Every key of the item list is a `str`. -/
def StrKeys (items : List (PyVal × PyVal)) : Prop := ∀ kv ∈ items, ∃ s, kv.1 = .str s

/-- In an association list with distinct keys a key has one value. -/
theorem value_unique {κ ν : Type} {k : κ} {v v' : ν} : ∀ {l : List (κ × ν)}, (l.map Prod.fst).Nodup →
    (k, v) ∈ l → (k, v') ∈ l → v = v'
  | x :: xs, hn, h, h' => by
    simp only [List.map_cons, List.nodup_cons] at hn
    rcases List.mem_cons.mp h with e | t
    · rcases List.mem_cons.mp h' with e' | t'
      · rw [← e] at e'; cases e'; rfl
      · subst e; exact absurd (List.mem_map.mpr ⟨(k, v'), t', rfl⟩ : k ∈ xs.map Prod.fst) hn.1
    · rcases List.mem_cons.mp h' with e' | t'
      · subst e'; exact absurd (List.mem_map.mpr ⟨(k, v), t, rfl⟩ : k ∈ xs.map Prod.fst) hn.1
      · exact value_unique hn.2 t t'

/-- From equal canonical listings of two dicts with `str` keys: the values under one key have equal
canonical listings. -/
theorem canon_dict_lookup {i₁ i₂ : List (PyVal × PyVal)} (h : canon (.dict i₁) = canon (.dict i₂))
    (hs₂ : StrKeys i₂) (hn₂ : (i₂.map Prod.fst).Nodup) {k : Bs} {v₁ v₂ : PyVal}
    (h₁ : (.str k, v₁) ∈ i₁) (h₂ : (.str k, v₂) ∈ i₂) : canon v₁ = canon v₂ := by
  rw [canon_dict, canon_dict, PyVal.dict.injEq] at h
  have m₁ : (PyVal.str k, canon v₁) ∈ (sortOn Prod.fst i₁).map fun kv => (canon kv.1, canon kv.2) :=
    List.mem_map.mpr ⟨_, (sortOn_perm Prod.fst i₁).symm.subset h₁, by simp [canon_str]⟩
  rw [h] at m₁
  obtain ⟨kv, hkv, e⟩ := List.mem_map.mp m₁
  have hkv' := (sortOn_perm Prod.fst i₂).subset hkv
  obtain ⟨s, hs⟩ := hs₂ kv hkv'
  obtain ⟨k', v'⟩ := kv
  simp only at hs
  subst hs
  simp only [canon_str, Prod.mk.injEq, PyVal.str.injEq] at e
  obtain ⟨e1, e2⟩ := e
  subst e1
  rw [← value_unique hn₂ hkv' h₂]
  exact e2.symm

theorem insertOn_map_snd (g : PyVal → PyVal) (x : PyVal × PyVal) : ∀ l : List (PyVal × PyVal),
    insertOn Prod.fst (x.1, g x.2) (l.map fun kv => (kv.1, g kv.2)) =
      (insertOn Prod.fst x l).map fun kv => (kv.1, g kv.2)
  | [] => rfl
  | y :: ys => by
    simp only [List.map_cons, insertOn]
    split
    · rfl
    · simp only [List.map_cons, insertOn_map_snd g x ys]

/-- Sorting by key commutes with rewriting the values. -/
theorem sortOn_map_snd (g : PyVal → PyVal) : ∀ l : List (PyVal × PyVal),
    sortOn Prod.fst (l.map fun kv => (kv.1, g kv.2)) = (sortOn Prod.fst l).map fun kv => (kv.1, g kv.2)
  | [] => rfl
  | x :: xs => by
    simp only [List.map_cons, sortOn, sortOn_map_snd g xs]
    exact insertOn_map_snd g x _

theorem strictOn_map_snd (g : PyVal → PyVal) {l : List (PyVal × PyVal)} (h : StrictOn Prod.fst l) :
    StrictOn Prod.fst (l.map fun kv => (kv.1, g kv.2)) := by
  unfold StrictOn at *
  rw [List.pairwise_map]
  exact h

/-- Two dicts with `str` keys whose items agree up to order once every value is replaced by its
canonical listing have the same canonical listing. -/
theorem canon_dict_congr {i₁ i₂ : List (PyVal × PyVal)} (hs₁ : StrKeys i₁) (hs₂ : StrKeys i₂)
    (hst : StrictOn Prod.fst i₁)
    (hp : (i₁.map fun kv => (kv.1, canon kv.2)).Perm (i₂.map fun kv => (kv.1, canon kv.2))) :
    canon (.dict i₁) = canon (.dict i₂) := by
  have key : ∀ {i : List (PyVal × PyVal)}, StrKeys i →
      ((sortOn Prod.fst i).map fun kv => (canon kv.1, canon kv.2)) =
        sortOn Prod.fst (i.map fun kv => (kv.1, canon kv.2)) := by
    intro i hs
    rw [sortOn_map_snd]
    refine List.map_congr_left fun kv hkv => ?_
    obtain ⟨s, e⟩ := hs kv ((sortOn_perm Prod.fst i).subset hkv)
    rw [e, canon_str]
  rw [canon_dict, canon_dict, key hs₁, key hs₂, sortOn_perm_eq Prod.fst hp (strictOn_map_snd canon hst)]

theorem cmpBs_refl : ∀ a : Bs, cmpBs a a = .eq
  | [] => rfl
  | x :: xs => by simp [cmpBs, cmpBs_refl xs]

theorem strictPair_str {a b : Bs} (h : a ≠ b) : StrictPair (.str a) (.str b) := by
  unfold StrictPair pyCmp
  simp only [toK, cmpK]
  cases hc : cmpBs a b with
  | lt => simp
  | gt => simp
  | eq => exact absurd (cmpBs_eq.mp hc) h

/-- Distinct `str` keys are strictly ordered. -/
theorem strictOn_of_strKeys {items : List (PyVal × PyVal)} (hs : StrKeys items)
    (hn : (items.map Prod.fst).Nodup) : StrictOn Prod.fst items := by
  unfold StrictOn
  induction items with
  | nil => exact List.Pairwise.nil
  | cons x xs ih =>
    simp only [List.map_cons, List.nodup_cons] at hn
    refine List.pairwise_cons.mpr ⟨fun y hy => ?_, ih (fun kv h => hs kv (List.mem_cons_of_mem _ h)) hn.2⟩
    obtain ⟨a, ea⟩ := hs x List.mem_cons_self
    obtain ⟨b, eb⟩ := hs y (List.mem_cons_of_mem _ hy)
    rw [ea, eb]
    refine strictPair_str fun e => hn.1 ?_
    rw [ea, e, ← eb]
    exact List.mem_map.mpr ⟨y, hy, rfl⟩

/-! ## the embedding of `filter_args` dicts -/

theorem nodup_map_of_inj {α β : Type} {f : α → β} (hf : ∀ a b, f a = f b → a = b) {l : List α}
    (h : l.Nodup) : (l.map f).Nodup :=
  List.Pairwise.map f (fun a b hne e => hne (hf a b e)) h

/-- The identifiers are interpreted injectively and none of them is `*` or `**`. -/
structure NamesOK (E : Env) : Prop where
  inj : ∀ m n, E.name m = E.name n → m = n
  star : ∀ n, E.name n ≠ [42]
  dstar : ∀ n, E.name n ≠ [42, 42]

def keyBs (E : Env) : Key → Bs
  | .name n => E.name n
  | .star => [42]
  | .dstar => [42, 42]

theorem keyVal_eq (E : Env) (k : Key) : keyVal E k = .str (keyBs E k) := by cases k <;> rfl

theorem keyBs_inj {E : Env} (hn : NamesOK E) {k k' : Key} (h : keyBs E k = keyBs E k') : k = k' := by
  cases k <;> cases k' <;> simp only [keyBs] at h
  · rw [hn.inj _ _ h]
  · exact absurd h (hn.star _)
  · exact absurd h (hn.dstar _)
  · exact absurd h.symm (hn.star _)
  · rfl
  · simp at h
  · exact absurd h.symm (hn.dstar _)
  · simp at h
  · rfl

/-- The items of `embed E d`. -/
def items (E : Env) (d : Dict) : List (PyVal × PyVal) := d.map fun e => (keyVal E e.1, embedVal E e.2)

theorem embed_eq (E : Env) (d : Dict) : embed E d = .dict (items E d) := rfl

theorem strKeys_items (E : Env) (d : Dict) : StrKeys (items E d) := by
  intro kv h
  obtain ⟨e, _, rfl⟩ := List.mem_map.mp h
  exact ⟨keyBs E e.1, keyVal_eq E e.1⟩

theorem nodup_items {E : Env} (hn : NamesOK E) {d : Dict} (hd : (d.map Prod.fst).Nodup) :
    ((items E d).map Prod.fst).Nodup := by
  have : (items E d).map Prod.fst = (d.map Prod.fst).map (keyVal E) := by
    simp [items, List.map_map, Function.comp_def]
  rw [this]
  refine nodup_map_of_inj (fun a b h => ?_) hd
  rw [keyVal_eq, keyVal_eq, PyVal.str.injEq] at h
  exact keyBs_inj hn h

theorem mem_items {E : Env} {d : Dict} {k : Key} {v : Val} (h : (k, v) ∈ d) :
    (PyVal.str (keyBs E k), embedVal E v) ∈ items E d := by
  rw [← keyVal_eq]
  exact List.mem_map.mpr ⟨(k, v), h, rfl⟩

/-- The items of an embedded keyword dict. -/
def kwItems (E : Env) (kv : List (Nat × Nat)) : List (PyVal × PyVal) :=
  kv.map fun e => (.str (E.name e.1), E.val e.2)

theorem strKeys_kwItems (E : Env) (kv : List (Nat × Nat)) : StrKeys (kwItems E kv) := by
  intro x h
  obtain ⟨e, _, rfl⟩ := List.mem_map.mp h
  exact ⟨_, rfl⟩

theorem nodup_kwItems {E : Env} (hn : NamesOK E) {kv : List (Nat × Nat)}
    (hd : (kv.map Prod.fst).Nodup) : ((kwItems E kv).map Prod.fst).Nodup := by
  have : (kwItems E kv).map Prod.fst = (kv.map Prod.fst).map fun n => PyVal.str (E.name n) := by
    simp [kwItems, List.map_map, Function.comp_def]
  rw [this]
  refine nodup_map_of_inj (fun a b h => ?_) hd
  rw [PyVal.str.injEq] at h
  exact hn.inj _ _ h

/-- Two keyword dicts with the same items in another order are the same Python value. -/
theorem sameValue_kw_perm {E : Env} (hn : NamesOK E) {a b : List (Nat × Nat)} (hp : a.Perm b)
    (hb : (b.map Prod.fst).Nodup) : SameValue (.dict (kwItems E a)) (.dict (kwItems E b)) := by
  have ha : (a.map Prod.fst).Nodup := (hp.map Prod.fst).nodup_iff.mpr hb
  refine canon_dict_congr (strKeys_kwItems E a) (strKeys_kwItems E b)
    (strictOn_of_strKeys (strKeys_kwItems E a) (nodup_kwItems hn ha)) ?_
  exact (hp.map _).map _

/-- `==` of two `filter_args` values ⇒ the same Python value. -/
theorem sameValue_of_valEq {E : Env} (hn : NamesOK E) {v w : Val} (h : ValEq v w)
    (hw : ∀ m, w = .map m → (m.map Prod.fst).Nodup) : SameValue (embedVal E v) (embedVal E w) := by
  cases v <;> cases w <;> simp only [ValEq] at h
  · subst h; rfl
  · subst h; rfl
  · exact sameValue_kw_perm hn h (hw _ rfl)

/-! ## `SameDict`, entry by entry -/

theorem EntriesEq_mem_right {a b : Dict} (h : EntriesEq a b) {k : Key} {w : Val} (hm : (k, w) ∈ b) :
    ∃ v, (k, v) ∈ a ∧ ValEq v w := by
  induction a generalizing b with
  | nil => cases b with
    | nil => simp at hm
    | cons _ _ => simp [EntriesEq] at h
  | cons x r ih => cases b with
    | nil => simp [EntriesEq] at h
    | cons y r' =>
      obtain ⟨h1, h2, h3⟩ := h
      rcases List.mem_cons.mp hm with e | t
      · subst e
        refine ⟨x.2, ?_, h2⟩
        have : x = (x.1, x.2) := rfl
        rw [this, h1]; exact List.mem_cons_self
      · obtain ⟨v, hv, he⟩ := ih h3 t
        exact ⟨v, List.mem_cons_of_mem _ hv, he⟩

theorem EntriesEq_mem_left {a b : Dict} (h : EntriesEq a b) {k : Key} {v : Val} (hm : (k, v) ∈ a) :
    ∃ w, (k, w) ∈ b ∧ ValEq v w := by
  induction a generalizing b with
  | nil => simp at hm
  | cons x r ih => cases b with
    | nil => simp [EntriesEq] at h
    | cons y r' =>
      obtain ⟨h1, h2, h3⟩ := h
      rcases List.mem_cons.mp hm with e | t
      · subst e
        refine ⟨y.2, ?_, h2⟩
        have : y = (y.1, y.2) := rfl
        rw [this, ← h1]; exact List.mem_cons_self
      · obtain ⟨w, hw, he⟩ := ih h3 t
        exact ⟨w, List.mem_cons_of_mem _ hw, he⟩

theorem SameDict_mem_right {d X : Dict} (h : SameDict d X) {k : Key} {w : Val} (hm : (k, w) ∈ X) :
    ∃ v, (k, v) ∈ d ∧ ValEq v w := by
  obtain ⟨d', hp, he⟩ := h
  obtain ⟨v, hv, e⟩ := EntriesEq_mem_right he hm
  exact ⟨v, hp.symm.subset hv, e⟩

theorem SameDict_mem_left {d X : Dict} (h : SameDict d X) {k : Key} {v : Val} (hm : (k, v) ∈ d) :
    ∃ w, (k, w) ∈ X ∧ ValEq v w := by
  obtain ⟨d', hp, he⟩ := h
  exact EntriesEq_mem_left he (hp.subset hm)

theorem SameDict_keys_perm {d X : Dict} (h : SameDict d X) : (d.map Prod.fst).Perm (X.map Prod.fst) := by
  obtain ⟨d', hp, he⟩ := h
  rw [← he.keys]; exact hp.map _

/-! ## bridge to C07 -/

/-- The callables whose signature `filter_args` inspects: plain (or `async def`) functions and
bound methods. -/
inductive FuncLike : Callable → Prop
  | func {s : Sig} : WF s → FuncLike (.func s)
  | method {p : Param} {v : Nat} {s : Sig} :
      WF (p :: s) → p.positional = true → p.default = none → FuncLike (.method p v s)

theorem funcLike_core {cal : Callable} (h : FuncLike cal) (c : Call) :
    ∃ w args, WalkOK w cal.sig ∧ WF cal.sig ∧
      (∀ ig, argDict cal ig c = core w ig args c.kwargs) ∧
      bindOf cal c = bindGo cal.sig args c.kwargs := by
  cases h with
  | func hs => exact ⟨_, c.args, walkOK_walk hs, hs, fun _ => rfl, rfl⟩
  | method hs hp hd => exact ⟨_, _, walkOK_method hs hp hd, hs, fun _ => rfl, rfl⟩

/-- What `filter_args` returns for a call Python accepts: Python's mapping (in `filter_args`'
format) minus the ignored keys — as a dict. -/
theorem argDict_spec {cal : Callable} (hf : FuncLike cal) {ig : List Key} {c : Call} {d : Dict}
    {b : List (Nat × Val)} (hc : CallWF c) (hd : argDict cal ig c = .ok d) (hb : bindOf cal c = .ok b) :
    SameDict d ((rename cal.sig b).filter fun e => decide (e.1 ∉ ig)) ∧ (d.map Prod.fst).Nodup := by
  obtain ⟨w, args, ok, hwf, ha, hbo⟩ := funcLike_core hf c
  rw [ha] at hd
  rw [hbo] at hb
  refine ⟨?_, core_nodup hd⟩
  obtain ⟨d₀, h₀, d', hp, he⟩ := core_eq_bind hwf ok hc hb
  rw [core_nil_ignore, h₀] at hd
  have := (ignoreLoop_ok_iff (core_nodup h₀) ig d).mp hd
  rw [this.2.2]
  exact ⟨d'.filter fun e => decide (e.1 ∉ ig), hp.filter _, he.filter fun k => decide (k ∉ ig)⟩

/-- The wrapper accepts what the function accepts (ignore list without repetition, naming
parameters of the function). -/
theorem argDict_ok {cal : Callable} (hf : FuncLike cal) {ig : List Key} {c : Call}
    {b : List (Nat × Val)} (hc : CallWF c) (hb : bindOf cal c = .ok b) (hig : ig.Nodup)
    (hkeys : ∀ k ∈ ig, k ∈ (rename cal.sig b).map Prod.fst) : ∃ d, argDict cal ig c = .ok d := by
  obtain ⟨w, args, ok, hwf, ha, hbo⟩ := funcLike_core hf c
  rw [hbo] at hb
  obtain ⟨d₀, h₀, d', hp, he⟩ := core_eq_bind hwf ok hc hb
  refine ⟨d₀.filter fun e => decide (e.1 ∉ ig), ?_⟩
  rw [ha, core_nil_ignore, h₀]
  refine (ignoreLoop_ok_iff (core_nodup h₀) ig _).mpr ⟨hig, fun k hk => ?_, rfl⟩
  have : k ∈ d'.map Prod.fst := by rw [he.keys]; exact hkeys k hk
  exact (hp.map Prod.fst).mem_iff.mpr this

/-- In Python's bound mapping the `**kwargs` dict has distinct keys. -/
theorem bindGo_map_nodup {ps : List Param} {as : List Nat} {kw : List (Nat × Nat)}
    {b : List (Nat × Val)} (hn : (kw.map Prod.fst).Nodup) (h : bindGo ps as kw = .ok b) :
    ∀ n m, (n, Val.map m) ∈ b → (m.map Prod.fst).Nodup := by
  induction ps generalizing as kw b with
  | nil => obtain ⟨_, _, rfl⟩ := bindGo_nil_ok h; intro n m hm; simp at hm
  | cons p ps ih =>
    obtain ⟨v, as', kw', r, hs, hr, rfl⟩ := bindGo_cons_ok h
    intro n m hm
    have hn' : (kw'.map Prod.fst).Nodup := by
      cases hs <;> first | exact hn | exact nodup_keys_dpop _ hn | simp
    rcases List.mem_cons.mp hm with e | t
    · cases hs <;> simp at e
      obtain ⟨_, rfl⟩ := e
      exact hn
    · exact ih hn' hr n m t

theorem bindOf_names {cal : Callable} (hf : FuncLike cal) {c : Call} {b : List (Nat × Val)}
    (hb : bindOf cal c = .ok b) : b.map Prod.fst = cal.sig.map (·.name) := by
  obtain ⟨w, args, _, _, _, hbo⟩ := funcLike_core hf c
  rw [hbo] at hb
  exact bindGo_names hb

theorem bindOf_map_nodup {cal : Callable} (hf : FuncLike cal) {c : Call} {b : List (Nat × Val)}
    (hc : CallWF c) (hb : bindOf cal c = .ok b) :
    ∀ n m, (n, Val.map m) ∈ b → (m.map Prod.fst).Nodup := by
  obtain ⟨w, args, _, _, _, hbo⟩ := funcLike_core hf c
  rw [hbo] at hb
  exact bindGo_map_nodup hc hb

/-! ## keys: soundness and completeness (bridge to C08) -/

/-- The bound arguments of two calls of one function agree outside the ignore list: the same
parameters, and under every parameter that is not ignored the same Python value (`SameValue`:
equal canonical listings — dict / set arguments may have been built in another order). -/
def AgreeOutside (E : Env) (s : Sig) (ig : List Key) (b₁ b₂ : List (Nat × Val)) : Prop :=
  b₁.map Prod.fst = b₂.map Prod.fst ∧
    ∀ n w₁ w₂, keyOf s n ∉ ig → (n, w₁) ∈ b₁ → (n, w₂) ∈ b₂ →
      SameValue (embedVal E w₁) (embedVal E w₂)

theorem AgreeOutside.symm {E : Env} {s : Sig} {ig : List Key} {b₁ b₂ : List (Nat × Val)}
    (h : AgreeOutside E s ig b₁ b₂) : AgreeOutside E s ig b₂ b₁ :=
  ⟨h.1.symm, fun n w₁ w₂ hk m₁ m₂ => (h.2 n w₂ w₁ hk m₂ m₁).symm⟩

/-- The real `Hasher` produces a stream for the value without ever taking the digest fallback
(`Plain`: at every dict / set node the keys sort directly; lengths fit their 4-byte fields) and
memoises fewer than 2^32 objects — the fragment on which C08 proves the stream injective. -/
def Hashable (H : Bs → Bs) (v : PyVal) : Prop := Plain (depth v) v ∧ memoCount H v ≤ 2 ^ 32

/-- `sorted` is well defined at every dict / set node of the value (C08's `KeysStrict`): the
hypothesis of C08's order-invariance theorem. -/
def Sortable (H : Bs → Bs) (v : PyVal) : Prop := KeysStrict H (depth v) v

/-- `H` has no collision among the given streams. -/
def NoCollisionOn (H : Bs → Bs) (S : List Bs) : Prop := ∀ x ∈ S, ∀ y ∈ S, H x = H y → x = y

theorem canon_eq_of_stream_eq {H : Bs → Bs} {v w : PyVal} (hv : Hashable H v) (hw : Hashable H w)
    (h : encode H v = encode H w) : canon v = canon w :=
  encode_inj H v w hv.1 hw.1 hv.2 hw.2 h

theorem stream_eq_of_canon_eq {H : Bs → Bs} {v w : PyVal} (hv : Sortable H v) (hw : Sortable H w)
    (h : canon v = canon w) : encode H v = encode H w := by
  rw [C08.encode_perm_invariant H v (canon v) (reorder_canonF _ v) hv,
    C08.encode_perm_invariant H w (canon w) (reorder_canonF _ w) hw, h]

theorem mem_rename {s : Sig} {b : List (Nat × Val)} {ig : List Key} {n : Nat} {w : Val}
    (hm : (n, w) ∈ b) (hk : keyOf s n ∉ ig) :
    (keyOf s n, w) ∈ (rename s b).filter fun e => decide (e.1 ∉ ig) :=
  List.mem_filter.mpr ⟨List.mem_map.mpr ⟨(n, w), hm, rfl⟩, by simpa using hk⟩

theorem of_mem_rename {s : Sig} {b : List (Nat × Val)} {ig : List Key} {k : Key} {w : Val}
    (hm : (k, w) ∈ (rename s b).filter fun e => decide (e.1 ∉ ig)) :
    ∃ n, (n, w) ∈ b ∧ k = keyOf s n ∧ keyOf s n ∉ ig := by
  obtain ⟨h1, h2⟩ := List.mem_filter.mp hm
  obtain ⟨e, he, heq⟩ := List.mem_map.mp h1
  obtain ⟨n, w'⟩ := e
  cases heq
  exact ⟨n, he, rfl, by simpa using h2⟩

/-- **Soundness of the key, stream level.**  Two calls Python accepts whose `filter_args` dicts are
hashed to the same stream bind the same values outside the ignore list. -/
theorem agree_of_stream_eq {E : Env} {H : Bs → Bs} {cal : Callable} {ig : List Key} {c₁ c₂ : Call}
    {d₁ d₂ : Dict} {b₁ b₂ : List (Nat × Val)} (hn : NamesOK E) (hf : FuncLike cal)
    (hc₁ : CallWF c₁) (hc₂ : CallWF c₂)
    (hd₁ : argDict cal ig c₁ = .ok d₁) (hd₂ : argDict cal ig c₂ = .ok d₂)
    (hb₁ : bindOf cal c₁ = .ok b₁) (hb₂ : bindOf cal c₂ = .ok b₂)
    (hh₁ : Hashable H (embed E d₁)) (hh₂ : Hashable H (embed E d₂))
    (hs : stream H E d₁ = stream H E d₂) : AgreeOutside E cal.sig ig b₁ b₂ := by
  refine ⟨by rw [bindOf_names hf hb₁, bindOf_names hf hb₂], fun n w₁ w₂ hk m₁ m₂ => ?_⟩
  obtain ⟨sd₁, nd₁⟩ := argDict_spec hf hc₁ hd₁ hb₁
  obtain ⟨sd₂, nd₂⟩ := argDict_spec hf hc₂ hd₂ hb₂
  obtain ⟨v₁, hv₁, e₁⟩ := SameDict_mem_right sd₁ (mem_rename m₁ hk)
  obtain ⟨v₂, hv₂, e₂⟩ := SameDict_mem_right sd₂ (mem_rename m₂ hk)
  have s₁ : SameValue (embedVal E v₁) (embedVal E w₁) :=
    sameValue_of_valEq hn e₁ fun m hm => bindOf_map_nodup hf hc₁ hb₁ n m (hm ▸ m₁)
  have s₂ : SameValue (embedVal E v₂) (embedVal E w₂) :=
    sameValue_of_valEq hn e₂ fun m hm => bindOf_map_nodup hf hc₂ hb₂ n m (hm ▸ m₂)
  have hcan : canon (embed E d₁) = canon (embed E d₂) := canon_eq_of_stream_eq hh₁ hh₂ hs
  have mid : canon (embedVal E v₁) = canon (embedVal E v₂) :=
    canon_dict_lookup hcan (strKeys_items E d₂) (nodup_items hn nd₂) (mem_items hv₁) (mem_items hv₂)
  exact s₁.symm.trans (mid.trans s₂)

theorem nodup_of_nodup_fst {κ ν : Type} {l : List (κ × ν)} (h : (l.map Prod.fst).Nodup) : l.Nodup := by
  have := List.pairwise_map.mp h
  exact this.imp fun hne e => hne (by rw [e])

/-- Half of completeness: every entry of the first dict has a counterpart in the second. -/
theorem items_sub {E : Env} {cal : Callable} {ig : List Key} {c₁ c₂ : Call}
    {d₁ d₂ : Dict} {b₁ b₂ : List (Nat × Val)} (hn : NamesOK E) (hf : FuncLike cal)
    (hc₁ : CallWF c₁) (hc₂ : CallWF c₂)
    (hd₁ : argDict cal ig c₁ = .ok d₁) (hd₂ : argDict cal ig c₂ = .ok d₂)
    (hb₁ : bindOf cal c₁ = .ok b₁) (hb₂ : bindOf cal c₂ = .ok b₂)
    (ha : AgreeOutside E cal.sig ig b₁ b₂) {k : Key} {v₁ : Val} (hm : (k, v₁) ∈ d₁) :
    ∃ v₂, (k, v₂) ∈ d₂ ∧ canon (embedVal E v₁) = canon (embedVal E v₂) := by
  obtain ⟨sd₁, _⟩ := argDict_spec hf hc₁ hd₁ hb₁
  obtain ⟨sd₂, _⟩ := argDict_spec hf hc₂ hd₂ hb₂
  obtain ⟨w₁, hw₁, e₁⟩ := SameDict_mem_left sd₁ hm
  obtain ⟨n, m₁, rfl, hk⟩ := of_mem_rename hw₁
  have : n ∈ b₂.map Prod.fst := by rw [← ha.1]; exact List.mem_map.mpr ⟨(n, w₁), m₁, rfl⟩
  obtain ⟨e, m₂, hn₂⟩ := List.mem_map.mp this
  obtain ⟨n', w₂⟩ := e
  simp only at hn₂
  subst hn₂
  obtain ⟨v₂, hv₂, e₂⟩ := SameDict_mem_right sd₂ (mem_rename m₂ hk)
  have s₁ : SameValue (embedVal E v₁) (embedVal E w₁) :=
    sameValue_of_valEq hn e₁ fun m hm => bindOf_map_nodup hf hc₁ hb₁ n' m (hm ▸ m₁)
  have s₂ : SameValue (embedVal E v₂) (embedVal E w₂) :=
    sameValue_of_valEq hn e₂ fun m hm => bindOf_map_nodup hf hc₂ hb₂ n' m (hm ▸ m₂)
  exact ⟨v₂, hv₂, s₁.trans ((ha.2 n' w₁ w₂ hk m₁ m₂).trans s₂.symm)⟩

/-- **Completeness of the key, stream level.**  Two calls Python accepts that bind the same values
outside the ignore list are hashed to the same stream. -/
theorem stream_eq_of_agree {E : Env} {H : Bs → Bs} {cal : Callable} {ig : List Key} {c₁ c₂ : Call}
    {d₁ d₂ : Dict} {b₁ b₂ : List (Nat × Val)} (hn : NamesOK E) (hf : FuncLike cal)
    (hc₁ : CallWF c₁) (hc₂ : CallWF c₂)
    (hd₁ : argDict cal ig c₁ = .ok d₁) (hd₂ : argDict cal ig c₂ = .ok d₂)
    (hb₁ : bindOf cal c₁ = .ok b₁) (hb₂ : bindOf cal c₂ = .ok b₂)
    (hk₁ : Sortable H (embed E d₁)) (hk₂ : Sortable H (embed E d₂))
    (ha : AgreeOutside E cal.sig ig b₁ b₂) : stream H E d₁ = stream H E d₂ := by
  obtain ⟨_, nd₁⟩ := argDict_spec hf hc₁ hd₁ hb₁
  obtain ⟨_, nd₂⟩ := argDict_spec hf hc₂ hd₂ hb₂
  refine stream_eq_of_canon_eq hk₁ hk₂ ?_
  rw [embed_eq, embed_eq]
  refine canon_dict_congr (strKeys_items E d₁) (strKeys_items E d₂)
    (strictOn_of_strKeys (strKeys_items E d₁) (nodup_items hn nd₁)) ?_
  have nodupC : ∀ {d : Dict}, (d.map Prod.fst).Nodup →
      ((items E d).map fun kv => (kv.1, canon kv.2)).Nodup := by
    intro d nd
    refine nodup_of_nodup_fst ?_
    rw [List.map_map]
    exact nodup_items hn nd
  refine (List.perm_ext_iff_of_nodup (nodupC nd₁) (nodupC nd₂)).mpr fun x => ?_
  have half : ∀ {c₁ c₂ : Call} {d₁ d₂ : Dict} {b₁ b₂ : List (Nat × Val)}, CallWF c₁ → CallWF c₂ →
      argDict cal ig c₁ = .ok d₁ → argDict cal ig c₂ = .ok d₂ → bindOf cal c₁ = .ok b₁ →
      bindOf cal c₂ = .ok b₂ → AgreeOutside E cal.sig ig b₁ b₂ →
      x ∈ ((items E d₁).map fun kv => (kv.1, canon kv.2)) →
      x ∈ ((items E d₂).map fun kv => (kv.1, canon kv.2)) := by
    intro c₁ c₂ d₁ d₂ b₁ b₂ hc₁ hc₂ hd₁ hd₂ hb₁ hb₂ ha hx
    obtain ⟨kv, hkv, rfl⟩ := List.mem_map.mp hx
    obtain ⟨e, he, rfl⟩ := List.mem_map.mp hkv
    obtain ⟨k, v₁⟩ := e
    obtain ⟨v₂, hv₂, hc⟩ := items_sub hn hf hc₁ hc₂ hd₁ hd₂ hb₁ hb₂ ha he
    refine List.mem_map.mpr ⟨(keyVal E k, embedVal E v₂), List.mem_map.mpr ⟨(k, v₂), hv₂, rfl⟩, ?_⟩
    simp only [hc]
  exact ⟨half hc₁ hc₂ hd₁ hd₂ hb₁ hb₂ ha, half hc₂ hc₁ hd₂ hd₁ hb₂ hb₁ ha.symm⟩

/-! ## non-function callables (`functools.partial`): the raw call is the key -/

/-- The positional tuples and the keyword dicts of two calls are the same Python values. -/
def RawAgree (E : Env) (c₁ c₂ : Call) : Prop :=
  SameValue (.list (c₁.args.map E.val)) (.list (c₂.args.map E.val)) ∧
    SameValue (.dict (kwItems E c₁.kwargs)) (.dict (kwItems E c₂.kwargs))

/-- The callables the model covers: those of `FuncLike`, and partials. -/
inductive CalOK : Callable → Prop
  | funcLike {cal : Callable} : FuncLike cal → CalOK cal
  | part {s : Sig} {pa : List Nat} {pk : List (Nat × Nat)} : CalOK (.part s pa pk)

/-- "The same arguments" for two calls of a cached callable: for a function or method, the bound
arguments agree outside the ignore list; for a partial (whose signature `filter_args` does not
look at, and whose ignore list is unused) the raw calls agree. -/
def SameArgs (E : Env) (cal : Callable) (ig : List Key) (c₁ c₂ : Call) (b₁ b₂ : List (Nat × Val)) : Prop :=
  match cal with
  | .part _ _ _ => RawAgree E c₁ c₂
  | _ => AgreeOutside E cal.sig ig b₁ b₂

variable {R : Type}

/-- The function is a pure function of its arguments, and ignores the ignored parameters: calls
with the same arguments (`SameArgs`) have the same result. -/
def Respects (E : Env) (fn : Fn R) : Prop :=
  ∀ c₁ c₂ b₁ b₂, bindOf fn.cal c₁ = .ok b₁ → bindOf fn.cal c₂ = .ok b₂ →
    SameArgs E fn.cal fn.ig c₁ c₂ b₁ b₂ → fn.body b₁ = fn.body b₂

theorem sameArgs_of_stream_eq {E : Env} {H : Bs → Bs} {cal : Callable} {ig : List Key} {c₁ c₂ : Call}
    {d₁ d₂ : Dict} {b₁ b₂ : List (Nat × Val)} (hn : NamesOK E) (hok : CalOK cal)
    (hc₁ : CallWF c₁) (hc₂ : CallWF c₂)
    (hd₁ : argDict cal ig c₁ = .ok d₁) (hd₂ : argDict cal ig c₂ = .ok d₂)
    (hb₁ : bindOf cal c₁ = .ok b₁) (hb₂ : bindOf cal c₂ = .ok b₂)
    (hh₁ : Hashable H (embed E d₁)) (hh₂ : Hashable H (embed E d₂))
    (hs : stream H E d₁ = stream H E d₂) : SameArgs E cal ig c₁ c₂ b₁ b₂ := by
  cases hok with
  | funcLike hf =>
    have := agree_of_stream_eq hn hf hc₁ hc₂ hd₁ hd₂ hb₁ hb₂ hh₁ hh₂ hs
    cases hf <;> exact this
  | part =>
    simp only [argDict, Except.ok.injEq] at hd₁ hd₂
    subst hd₁ hd₂
    have hcan := canon_eq_of_stream_eq hh₁ hh₂ hs
    have nd : ∀ c : Call, (([(Key.star, Val.seq c.args), (Key.dstar, Val.map c.kwargs)] : Dict).map
        Prod.fst).Nodup := fun c => by simp
    exact ⟨canon_dict_lookup hcan (strKeys_items E _) (nodup_items hn (nd c₂))
        (mem_items (k := .star) (v := .seq c₁.args) (by simp))
        (mem_items (k := .star) (v := .seq c₂.args) (by simp)),
      canon_dict_lookup hcan (strKeys_items E _) (nodup_items hn (nd c₂))
        (mem_items (k := .dstar) (v := .map c₁.kwargs) (by simp))
        (mem_items (k := .dstar) (v := .map c₂.kwargs) (by simp))⟩

/-! ## histories against one store -/

/-- The (function, call) an operation hashes. -/
def Op.callOf : Op R → Option (Fn R × Call)
  | .call fn c _ => some (fn, c)
  | .shelve fn c _ => some (fn, c)
  | .get fn c => some (fn, c)
  | .force fn c => some (fn, c)
  | .check fn c _ => some (fn, c)
  | _ => none

def callsOf (ops : List (Op R)) : List (Fn R × Call) := ops.filterMap Op.callOf

/-- The streams hashed in a universe of calls: finitely many. -/
def streamsOf (H : Bs → Bs) (E : Env) (U : List (Fn R × Call)) : List Bs :=
  U.filterMap fun p =>
    match argDict p.1.cal p.1.ig p.2 with
    | .ok d => some (stream H E d)
    | .error _ => none

theorem mem_streamsOf {H : Bs → Bs} {E : Env} {U : List (Fn R × Call)} {p : Fn R × Call} {d : Dict}
    (hp : p ∈ U) (hd : argDict p.1.cal p.1.ig p.2 = .ok d) : stream H E d ∈ streamsOf H E U :=
  List.mem_filterMap.mpr ⟨p, hp, by simp [hd]⟩

/-- The hypotheses on the finitely many calls of a history. -/
structure UnivOK (H : Bs → Bs) (E : Env) (U : List (Fn R × Call)) : Prop where
  names : NamesOK E
  cal : ∀ p ∈ U, CalOK p.1.cal
  respects : ∀ p ∈ U, Respects E p.1
  /-- one cached function per function identifier (C12 is about the other case) -/
  fids : ∀ p ∈ U, ∀ q ∈ U, p.1.fid = q.1.fid → p.1 = q.1
  calls : ∀ p ∈ U, CallWF p.2
  hashable : ∀ p ∈ U, ∀ d, argDict p.1.cal p.1.ig p.2 = .ok d → Hashable H (embed E d)
  /-- the digest has no collision AMONG THE KEYS OF THE HISTORY -/
  noCollision : NoCollisionOn H (streamsOf H E U)

/-- What C02 demands of one step: a value handed to the caller — by a call, a forced call, or
`.get()` on a shelved reference — is what the plain function returns for those arguments. -/
def Correct : Op R → Out R → Prop
  | .call fn c _, out => ∀ b v x, bindOf fn.cal c = .ok b → out = .value v x → v = fn.body b
  | .get fn c, out => ∀ b v x, bindOf fn.cal c = .ok b → out = .value v x → v = fn.body b
  | .force fn c, out => ∀ b v x, bindOf fn.cal c = .ok b → out = .value v x → v = fn.body b
  | _, _ => True

def AllCorrect (ver : Version) (H : Bs → Bs) (E : Env) : St R → List (Op R) → Prop
  | _, [] => True
  | st, op :: ops => Correct op (step ver H E st op).1 ∧ AllCorrect ver H E (step ver H E st op).2 ops

/-- The invariant: the store is a finite map, and every entry holds the value the plain function
returns for every call of the history that is filed under it. -/
def StoreOK (H : Bs → Bs) (E : Env) (U : List (Fn R × Call)) (st : Store R) : Prop :=
  (st.map Prod.fst).Nodup ∧
    ∀ id v, dget id st = some v → ∀ p ∈ U, p.1.fid = id.1 → ∀ d b,
      argDict p.1.cal p.1.ig p.2 = .ok d → H (stream H E d) = id.2 → bindOf p.1.cal p.2 = .ok b →
      v = p.1.body b

theorem storeOK_nil (H : Bs → Bs) (E : Env) (U : List (Fn R × Call)) : StoreOK H E U ([] : Store R) :=
  ⟨by simp, fun id v h => by simp [dget] at h⟩

theorem dget_filter_key {κ ν : Type} [DecidableEq κ] (p : κ → Bool) (k : κ) : ∀ d : List (κ × ν),
    dget k (d.filter fun e => p e.1) = if p k then dget k d else none
  | [] => by simp [dget]
  | (k', v) :: r => by
    have ih := dget_filter_key p k r
    cases hp : p k' with
    | true =>
      by_cases e : k' = k
      · subst e; simp [hp, dget]
      · simp [hp, dget, e, ih]
    | false =>
      by_cases e : k' = k
      · subst e; simp [hp, ih]
      · simp [hp, dget, e, ih]

theorem nodup_filter_keys {κ ν : Type} (p : κ × ν → Bool) {d : List (κ × ν)}
    (h : (d.map Prod.fst).Nodup) : ((d.filter p).map Prod.fst).Nodup :=
  List.Nodup.sublist ((List.filter_sublist).map Prod.fst) h

theorem storeOK_filter {H : Bs → Bs} {E : Env} {U : List (Fn R × Call)} {st : Store R}
    (h : StoreOK H E U st) (p : Nat × Bs → Bool) : StoreOK H E U (st.filter fun e => p e.1) := by
  refine ⟨nodup_filter_keys _ h.1, fun id v hv => ?_⟩
  rw [dget_filter_key] at hv
  split at hv
  · exact h.2 id v hv
  · cases hv

theorem storeOK_dpop {H : Bs → Bs} {E : Env} {U : List (Fn R × Call)} {st : Store R}
    (h : StoreOK H E U st) (id : Nat × Bs) : StoreOK H E U (dpop id st) := by
  rw [dpop_eq_filter h.1]
  exact storeOK_filter h fun k => decide (k ≠ id)

theorem storeOK_evictAll {H : Bs → Bs} {E : Env} {U : List (Fn R × Call)} :
    ∀ (ids : List (Nat × Bs)) {st : Store R}, StoreOK H E U st → StoreOK H E U (evictAll st ids)
  | [], _, h => h
  | id :: r, _, h => storeOK_evictAll r (storeOK_dpop h id)

/-- Storing the result of an executed call keeps the invariant: whatever other call of the history
is filed under the same key has the same arguments (no collision ⇒ same stream ⇒ `SameArgs`), so
the function returns the same value for it. -/
theorem storeOK_dset {H : Bs → Bs} {E : Env} {U : List (Fn R × Call)} (hu : UnivOK H E U)
    {st : Store R} (h : StoreOK H E U st) {fn : Fn R} {c : Call} (hp : (fn, c) ∈ U) {d : Dict}
    {b : List (Nat × Val)} (hd : argDict fn.cal fn.ig c = .ok d) (hb : bindOf fn.cal c = .ok b) :
    StoreOK H E U (dset (fn.fid, H (stream H E d)) (fn.body b) st) := by
  refine ⟨nodup_keys_dset _ _ h.1, fun id v hv q hq hfid d' b' hd' hk hb' => ?_⟩
  by_cases e : id = (fn.fid, H (stream H E d))
  · subst e
    rw [dget_dset_self] at hv
    cases hv
    have hfn : q.1 = fn := hu.fids q hq (fn, c) hp hfid
    obtain ⟨fn', c'⟩ := q
    simp only at hfn hd' hb' hk hfid
    subst hfn
    have hs : stream H E d' = stream H E d :=
      hu.noCollision _ (mem_streamsOf hq hd') _ (mem_streamsOf hp hd) hk
    have := sameArgs_of_stream_eq hu.names (hu.cal _ hp) (hu.calls _ hq) (hu.calls _ hp) hd' hd hb' hb
      (hu.hashable _ hq _ hd') (hu.hashable _ hp _ hd) hs
    exact (hu.respects _ hp c' c b' b hb' hb this).symm
  · rw [dget_dset_ne e] at hv
    exact h.2 id v hv q hq hfid d' b' hd' hk hb'

theorem argsId_ok {H : Bs → Bs} {E : Env} {cal : Callable} {ig : List Key} {c : Call} {k : Bs}
    (h : argsId H E cal ig c = .ok k) : ∃ d, argDict cal ig c = .ok d ∧ k = H (stream H E d) := by
  unfold argsId at h
  split at h
  · rename_i d hd; cases h; exact ⟨d, hd, rfl⟩
  · cases h

theorem checkCode_entries (st : St R) (fid : Nat) : (checkCode st fid).2.entries = st.entries := by
  unfold checkCode; split <;> rfl

theorem isInCacheAndValid_spec {H : Bs → Bs} {E : Env} {U : List (Fn R × Call)} {st : St R}
    (h : StoreOK H E U st.entries) (id : Nat × Bs) (cb : Bool) :
    StoreOK H E U (isInCacheAndValid st id cb).2.entries ∧
      ∀ v, (isInCacheAndValid st id cb).1 = some v → dget id st.entries = some v := by
  unfold isInCacheAndValid
  simp only
  split
  · rw [checkCode_entries]
    split
    · simp only [checkCode_entries]; exact ⟨h, fun v hv => by cases hv⟩
    · rename_i r hr
      split
      · simp only [checkCode_entries]; exact ⟨h, fun v hv => by rw [hr]; exact hv⟩
      · exact ⟨by simpa [checkCode_entries] using storeOK_dpop h id, fun v hv => by cases hv⟩
  · simp only [checkCode_entries]; exact ⟨h, fun v hv => by cases hv⟩

theorem compute_spec {H : Bs → Bs} {E : Env} {U : List (Fn R × Call)} (hu : UnivOK H E U)
    {st : St R} (h : StoreOK H E U st.entries) {fn : Fn R} {c : Call} (hp : (fn, c) ∈ U) {d : Dict}
    (hd : argDict fn.cal fn.ig c = .ok d) {v : R} {st' : St R}
    (hc : compute st fn (fn.fid, H (stream H E d)) c = .ok (v, st')) :
    StoreOK H E U st'.entries ∧ ∀ b, bindOf fn.cal c = .ok b → v = fn.body b := by
  unfold compute at hc
  split at hc
  · cases hc
  · rename_i b hb
    cases hc
    exact ⟨storeOK_dset hu h hp hd hb, fun b' hb' => by rw [hb] at hb'; cases hb'; rfl⟩

/-- `_cached_call`: the invariant is kept, and a value handed back is the plain function's. -/
theorem cachedCall_spec {H : Bs → Bs} {E : Env} {U : List (Fn R × Call)} (hu : UnivOK H E U)
    {st : St R} (h : StoreOK H E U st.entries) {fn : Fn R} {c : Call} (hp : (fn, c) ∈ U) (cb : Bool)
    {res : Except BindErr (R × Bool)} {st' : St R}
    (hc : cachedCall H E st fn c cb = .ok (res, st')) :
    StoreOK H E U st'.entries ∧
      ∀ v x b, res = .ok (v, x) → bindOf fn.cal c = .ok b → v = fn.body b := by
  unfold cachedCall at hc
  split at hc
  · cases hc
  · rename_i k hk
    obtain ⟨d, hd, rfl⟩ := argsId_ok hk
    obtain ⟨h1, h2⟩ := isInCacheAndValid_spec h (fn.fid, H (stream H E d)) cb
    simp only at hc
    split at hc
    · rename_i v hv
      cases hc
      refine ⟨h1, fun v' x b hres hb => ?_⟩
      cases hres
      exact h.2 _ v (h2 v hv) (fn, c) hp rfl d b hd rfl hb
    · split at hc
      · cases hc
        exact ⟨h1, fun v' x b hres => by cases hres⟩
      · rename_i v st'' hcomp
        cases hc
        obtain ⟨h3, h4⟩ := compute_spec hu h1 hp hd hcomp
        exact ⟨h3, fun v' x b hres hb => by cases hres; exact h4 b hb⟩

theorem beforeForce_entries (ver : Version) (st : St R) (fid : Nat) :
    (beforeForce ver st fid).entries = st.entries := by
  cases ver <;> simp [beforeForce, checkCode_entries]

/-- One step (of either version of the code) keeps the invariant and is `Correct`. -/
theorem step_spec {ver : Version} {H : Bs → Bs} {E : Env} {U : List (Fn R × Call)} (hu : UnivOK H E U)
    {st : St R} (h : StoreOK H E U st.entries) (op : Op R) (hop : ∀ p, op.callOf = some p → p ∈ U) :
    StoreOK H E U (step ver H E st op).2.entries ∧ Correct op (step ver H E st op).1 := by
  cases op with
  | call fn c cb =>
    have hp := hop (fn, c) rfl
    simp only [step, Correct]
    cases hc : cachedCall H E st fn c cb with
    | error e => exact ⟨h, fun b v x _ ho => by cases ho⟩
    | ok r =>
      obtain ⟨res, st'⟩ := r
      obtain ⟨h1, h2⟩ := cachedCall_spec hu h hp cb hc
      cases res with
      | error e => exact ⟨h1, fun b v x _ ho => by cases ho⟩
      | ok vx =>
        obtain ⟨v, x⟩ := vx
        exact ⟨h1, fun b v' x' hb ho => by cases ho; exact h2 v x b rfl hb⟩
  | shelve fn c cb =>
    have hp := hop (fn, c) rfl
    simp only [step, Correct]
    cases hc : cachedCall H E st fn c cb with
    | error e => exact ⟨h, trivial⟩
    | ok r =>
      obtain ⟨res, st'⟩ := r
      obtain ⟨h1, _⟩ := cachedCall_spec hu h hp cb hc
      cases res with
      | error e => exact ⟨h1, trivial⟩
      | ok vx => obtain ⟨v, x⟩ := vx; exact ⟨h1, trivial⟩
  | get fn c =>
    have hp := hop (fn, c) rfl
    simp only [step, Correct]
    cases hk : argsId H E fn.cal fn.ig c with
    | error e => exact ⟨h, fun b v x _ ho => by cases ho⟩
    | ok k =>
      obtain ⟨d, hd, rfl⟩ := argsId_ok hk
      simp only
      cases hg : dget (fn.fid, H (stream H E d)) st.entries with
      | none => exact ⟨h, fun b v x _ ho => by cases ho⟩
      | some v =>
        exact ⟨h, fun b v' x hb ho => by cases ho; exact h.2 _ v hg (fn, c) hp rfl d b hd rfl hb⟩
  | force fn c =>
    have hp := hop (fn, c) rfl
    simp only [step, Correct]
    cases hk : argsId H E fn.cal fn.ig c with
    | error e => exact ⟨h, fun b v x _ ho => by cases ho⟩
    | ok k =>
      obtain ⟨d, hd, rfl⟩ := argsId_ok hk
      simp only
      have hb : StoreOK H E U (beforeForce ver st fn.fid).entries := by rw [beforeForce_entries]; exact h
      cases hcomp : compute (beforeForce ver st fn.fid) fn (fn.fid, H (stream H E d)) c with
      | error e => exact ⟨hb, fun b v x _ ho => by cases ho⟩
      | ok r =>
        obtain ⟨v, st'⟩ := r
        obtain ⟨h3, h4⟩ := compute_spec hu hb hp hd hcomp
        exact ⟨h3, fun b v' x hb ho => by cases ho; exact h4 b hb⟩
  | check fn c cb =>
    simp only [step, Correct]
    cases hk : argsId H E fn.cal fn.ig c with
    | error e => exact ⟨h, trivial⟩
    | ok k => exact ⟨(isInCacheAndValid_spec h _ cb).1, trivial⟩
  | clearFn fn => exact ⟨storeOK_filter h fun k => decide (k.1 ≠ fn.fid), trivial⟩
  | clearAll => exact ⟨storeOK_nil H E U, trivial⟩
  | evict ids => exact ⟨storeOK_evictAll ids h, trivial⟩
  | fresh => exact ⟨h, trivial⟩

theorem allCorrect_of_storeOK {ver : Version} {H : Bs → Bs} {E : Env} {U : List (Fn R × Call)}
    (hu : UnivOK H E U) : ∀ (ops : List (Op R)) (st : St R), StoreOK H E U st.entries →
      (∀ p ∈ callsOf ops, p ∈ U) → AllCorrect ver H E st ops
  | [], _, _, _ => trivial
  | op :: ops, st, h, hsub => by
    have hop : ∀ p, op.callOf = some p → p ∈ U := fun p hp =>
      hsub p (List.mem_filterMap.mpr ⟨op, List.mem_cons_self, hp⟩)
    obtain ⟨h1, h2⟩ := step_spec (ver := ver) hu h op hop
    exact ⟨h2, allCorrect_of_storeOK hu ops _ h1 fun p hp => by
      obtain ⟨o, ho, e⟩ := List.mem_filterMap.mp hp
      exact hsub p (List.mem_filterMap.mpr ⟨o, List.mem_cons_of_mem _ ho, e⟩)⟩

/-! ## C06: hits -/

/-- The operation does not evict, clear or invalidate the entry `id`. -/
def Untouched (H : Bs → Bs) (E : Env) (id : Nat × Bs) : Op R → Prop
  | .call fn c cb => cb = true ∨ argsId H E fn.cal fn.ig c ≠ .ok id.2 ∨ fn.fid ≠ id.1
  | .shelve fn c cb => cb = true ∨ argsId H E fn.cal fn.ig c ≠ .ok id.2 ∨ fn.fid ≠ id.1
  | .check fn c cb => cb = true ∨ argsId H E fn.cal fn.ig c ≠ .ok id.2 ∨ fn.fid ≠ id.1
  | .get _ _ => True
  | .force _ _ => True
  | .fresh => True
  | .clearFn fn => fn.fid ≠ id.1
  | .clearAll => False
  | .evict ids => id ∉ ids

/-- The entry is in the cache directory, beside its function's `func_code.py`. -/
def Present (id : Nat × Bs) (st : St R) : Prop := id.1 ∈ st.coded ∧ (dget id st.entries).isSome

/-- Every entry lies in a directory that has its `func_code.py` (true of every state the repaired
code reaches: `entriesCoded_exec`). -/
def EntriesCoded (st : St R) : Prop := ∀ id ∈ st.entries.map Prod.fst, id.1 ∈ st.coded

theorem isSome_dset {κ ν : Type} [DecidableEq κ] {k k' : κ} {d : List (κ × ν)} (v : ν)
    (h : (dget k d).isSome) : (dget k (dset k' v d)).isSome := by
  by_cases e : k = k'
  · subst e; rw [dget_dset_self]; rfl
  · rw [dget_dset_ne e]; exact h

theorem checkCode_coded_mono (st : St R) (fid : Nat) {f : Nat} (h : f ∈ st.coded) :
    f ∈ (checkCode st fid).2.coded := by
  unfold checkCode; split
  · exact h
  · exact List.mem_cons_of_mem _ h

theorem checkCode_coded_self (st : St R) (fid : Nat) : fid ∈ (checkCode st fid).2.coded := by
  unfold checkCode; split
  · assumption
  · exact List.mem_cons_self

theorem present_iic {st : St R} {id id' : Nat × Bs} {cb : Bool} (h : Present id st)
    (hu : cb = true ∨ id' ≠ id) : Present id (isInCacheAndValid st id' cb).2 := by
  have hc : Present id (checkCode st id'.1).2 :=
    ⟨checkCode_coded_mono st _ h.1, by rw [checkCode_entries]; exact h.2⟩
  unfold isInCacheAndValid
  simp only
  split
  · split
    · exact hc
    · split
      · exact hc
      · rename_i hcb
        rcases hu with hu | hu
        · exact absurd hu hcb
        · refine ⟨hc.1, ?_⟩
          show (dget id (dpop id' _)).isSome
          rw [dget_dpop_ne (Ne.symm hu)]; exact hc.2
  · exact hc

theorem present_compute {st st' : St R} {id id' : Nat × Bs} {fn : Fn R} {c : Call} {v : R}
    (h : Present id st) (hc : compute st fn id' c = .ok (v, st')) : Present id st' := by
  unfold compute at hc
  split at hc
  · cases hc
  · cases hc; exact ⟨h.1, isSome_dset _ h.2⟩

theorem present_cachedCall {H : Bs → Bs} {E : Env} {st st' : St R} {id : Nat × Bs} {fn : Fn R}
    {c : Call} {cb : Bool} {res : Except BindErr (R × Bool)} (h : Present id st)
    (hu : cb = true ∨ argsId H E fn.cal fn.ig c ≠ .ok id.2 ∨ fn.fid ≠ id.1)
    (hc : cachedCall H E st fn c cb = .ok (res, st')) : Present id st' := by
  unfold cachedCall at hc
  split at hc
  · cases hc
  · rename_i k hk
    have hu' : cb = true ∨ (fn.fid, k) ≠ id := by
      rcases hu with hu | hu | hu
      · exact .inl hu
      · exact .inr fun e => hu (by rw [hk, ← e])
      · exact .inr fun e => hu (by rw [← e])
    have h1 := present_iic (id' := (fn.fid, k)) h hu'
    simp only at hc
    split at hc
    · cases hc; exact h1
    · split at hc
      · cases hc; exact h1
      · rename_i v st'' hcomp
        cases hc
        exact present_compute h1 hcomp

theorem present_evictAll : ∀ (ids : List (Nat × Bs)) {st : Store R} {id : Nat × Bs},
    (dget id st).isSome → id ∉ ids → (dget id (evictAll st ids)).isSome
  | [], _, _, h, _ => h
  | x :: r, st, id, h, hn => by
    have hx : id ≠ x := fun e => hn (e ▸ List.mem_cons_self)
    refine present_evictAll r ?_ fun hm => hn (List.mem_cons_of_mem _ hm)
    rw [dget_dpop_ne hx]; exact h

theorem present_beforeForce {ver : Version} {st : St R} {id : Nat × Bs} (fid : Nat)
    (h : Present id st) : Present id (beforeForce ver st fid) := by
  cases ver
  · exact h
  · exact ⟨checkCode_coded_mono st _ h.1, by simp [beforeForce, checkCode_entries]; exact h.2⟩

/-- An untouched entry stays in the cache directory. -/
theorem present_step {ver : Version} {H : Bs → Bs} {E : Env} {st : St R} {id : Nat × Bs}
    (h : Present id st) {op : Op R} (hu : Untouched H E id op) :
    Present id (step ver H E st op).2 := by
  cases op with
  | call fn c cb =>
    simp only [step]
    cases hc : cachedCall H E st fn c cb with
    | error e => exact h
    | ok r =>
      obtain ⟨res, st'⟩ := r
      have := present_cachedCall h hu hc
      cases res with
      | error e => exact this
      | ok vx => exact this
  | shelve fn c cb =>
    simp only [step]
    cases hc : cachedCall H E st fn c cb with
    | error e => exact h
    | ok r =>
      obtain ⟨res, st'⟩ := r
      have := present_cachedCall h hu hc
      cases res with
      | error e => exact this
      | ok vx => exact this
  | get fn c =>
    simp only [step]
    cases argsId H E fn.cal fn.ig c with
    | error e => exact h
    | ok k => simp only; cases dget (fn.fid, k) st.entries <;> exact h
  | force fn c =>
    simp only [step]
    cases argsId H E fn.cal fn.ig c with
    | error e => exact h
    | ok k =>
      simp only
      cases hcomp : compute (beforeForce ver st fn.fid) fn (fn.fid, k) c with
      | error e => exact present_beforeForce _ h
      | ok r => obtain ⟨v, st'⟩ := r; exact present_compute (present_beforeForce _ h) hcomp
  | check fn c cb =>
    simp only [step]
    cases hk : argsId H E fn.cal fn.ig c with
    | error e => exact h
    | ok k =>
      refine present_iic (id' := (fn.fid, k)) h ?_
      rcases hu with hu | hu | hu
      · exact .inl hu
      · exact .inr fun e => hu (by rw [hk, ← e])
      · exact .inr fun e => hu (by rw [← e])
  | clearFn fn =>
    simp only [step]
    have hne : id.1 ≠ fn.fid := fun e => hu e.symm
    refine ⟨by split; exact h.1; exact List.mem_cons_of_mem _ h.1, ?_⟩
    have := dget_filter_key (ν := R) (fun k : Nat × Bs => decide (k.1 ≠ fn.fid)) id st.entries
    simp only [hne, ne_eq, not_false_eq_true, decide_true, if_true] at this
    show (dget id (st.entries.filter fun e => decide (e.1.1 ≠ fn.fid))).isSome
    rw [this]; exact h.2
  | clearAll => exact absurd hu (by simp [Untouched])
  | evict ids => exact ⟨h.1, present_evictAll ids h.2 hu⟩
  | fresh => exact h

theorem present_exec {ver : Version} {H : Bs → Bs} {E : Env} {id : Nat × Bs} :
    ∀ (ops : List (Op R)) {st : St R}, Present id st → (∀ op ∈ ops, Untouched H E id op) →
      Present id (exec ver H E st ops)
  | [], _, h, _ => h
  | op :: ops, _, h, hu =>
    present_exec ops (present_step h (hu op List.mem_cons_self))
      fun o ho => hu o (List.mem_cons_of_mem _ ho)

theorem checkCode_of_mem {st : St R} {fid : Nat} (h : fid ∈ st.coded) : checkCode st fid = (true, st) := by
  simp [checkCode, h]

/-- A call whose entry is present (and is not invalidated by the validation callback) is served
from it: the function is not executed and the cache directory is unchanged. -/
theorem call_hit {ver : Version} {H : Bs → Bs} {E : Env} {st : St R} {fn : Fn R} {c : Call} {k : Bs}
    {v : R} (hk : argsId H E fn.cal fn.ig c = .ok k) (hc : fn.fid ∈ st.coded)
    (hv : dget (fn.fid, k) st.entries = some v) :
    step ver H E st (.call fn c true) = (.value v false, st) := by
  simp [step, cachedCall, hk, isInCacheAndValid, checkCode_of_mem hc, hv]

theorem iic_of_coded {st : St R} {id : Nat × Bs} (cb : Bool) (hc : id.1 ∈ st.coded) :
    isInCacheAndValid st id cb =
      match dget id st.entries with
      | none => (none, st)
      | some r => if cb then (some r, st) else (none, { st with entries := dpop id st.entries }) := by
  unfold isInCacheAndValid
  rw [checkCode_of_mem hc]
  cases hd : dget id st.entries <;> simp [hd]

theorem iic_of_not_coded {st : St R} {id : Nat × Bs} (cb : Bool) (hc : id.1 ∉ st.coded) :
    isInCacheAndValid st id cb = (none, { st with coded := id.1 :: st.coded }) := by
  simp [isInCacheAndValid, checkCode, hc]

theorem iic_some {st : St R} {id : Nat × Bs} {cb : Bool} {v : R}
    (h : (isInCacheAndValid st id cb).1 = some v) :
    (isInCacheAndValid st id cb).2 = st ∧ dget id st.entries = some v ∧ cb = true ∧ id.1 ∈ st.coded := by
  by_cases hc : id.1 ∈ st.coded
  · rw [iic_of_coded cb hc] at h ⊢
    cases hd : dget id st.entries with
    | none => simp [hd] at h
    | some r =>
      cases cb with
      | true => simp [hd] at h ⊢; exact ⟨h, hc⟩
      | false => simp [hd] at h
  · rw [iic_of_not_coded cb hc] at h; cases h

/-- After a completed call its entry is present. -/
theorem present_after_call {ver : Version} {H : Bs → Bs} {E : Env} {st : St R} {fn : Fn R} {c : Call}
    {cb : Bool} {k : Bs} {v : R} {x : Bool} (hk : argsId H E fn.cal fn.ig c = .ok k)
    (ho : (step ver H E st (.call fn c cb)).1 = .value v x) :
    Present (fn.fid, k) (step ver H E st (.call fn c cb)).2 := by
  simp only [step, cachedCall, hk] at ho ⊢
  cases hi : (isInCacheAndValid st (fn.fid, k) cb).1 with
  | some r =>
    simp only [hi] at ho ⊢
    obtain ⟨h1, h2, _, h4⟩ := iic_some hi
    rw [h1]
    exact ⟨h4, by rw [h2]; rfl⟩
  | none =>
    simp only [hi] at ho ⊢
    have hcoded : (fn.fid, k).1 ∈ (isInCacheAndValid st (fn.fid, k) cb).2.coded := by
      unfold isInCacheAndValid
      simp only
      split
      · split
        · exact checkCode_coded_self st _
        · split <;> exact checkCode_coded_self st _
      · exact checkCode_coded_self st _
    cases hcomp : compute (isInCacheAndValid st (fn.fid, k) cb).2 fn (fn.fid, k) c with
    | error e => simp [hcomp] at ho
    | ok r =>
      obtain ⟨v', st'⟩ := r
      simp only
      unfold compute at hcomp
      split at hcomp
      · cases hcomp
      · cases hcomp
        exact ⟨hcoded, by show (dget _ (dset _ _ _)).isSome; rw [dget_dset_self]; rfl⟩

/-- `check_call_in_cache` and the hit test of a call are the same predicate on the same state. -/
theorem check_spec {ver : Version} {H : Bs → Bs} {E : Env} (st : St R) (fn : Fn R) (c : Call) (cb : Bool)
    {k : Bs} (hk : argsId H E fn.cal fn.ig c = .ok k) :
    step ver H E st (.check fn c cb) =
      (.flag (isInCacheAndValid st (fn.fid, k) cb).1.isSome, (isInCacheAndValid st (fn.fid, k) cb).2) := by
  simp [step, hk]

theorem iic_none_again {st : St R} (hec : EntriesCoded st) {id : Nat × Bs} {cb : Bool}
    (h : (isInCacheAndValid st id cb).1 = none) :
    (isInCacheAndValid (isInCacheAndValid st id cb).2 id cb).1 = none := by
  by_cases hc : id.1 ∈ st.coded
  · -- the code was there: the second test sees the same directory, or one without the entry
    rw [iic_of_coded cb hc] at h ⊢
    cases hd : dget id st.entries with
    | none => simp only; rw [iic_of_coded cb hc, hd]
    | some r =>
      cases cb with
      | true => simp [hd] at h
      | false =>
        simp only [Bool.false_eq_true, if_false]
        have hc' : id.1 ∈ ({ st with entries := dpop id st.entries } : St R).coded := hc
        rw [iic_of_coded false hc']
        split <;> simp
  · -- the code was missing: by `EntriesCoded` the directory has no entry
    have hn : dget id st.entries = none := by
      cases hd : dget id st.entries with
      | none => rfl
      | some r =>
        exact absurd (hec id ((dget_isSome_iff id st.entries).mp (by rw [hd]; rfl))) hc
    rw [iic_of_not_coded cb hc]
    have hc' : id.1 ∈ ({ st with coded := id.1 :: st.coded } : St R).coded := List.mem_cons_self
    rw [iic_of_coded cb hc']
    simp only [hn]

/-- The output of a call is a cache hit (`.value _ false`) only if the hit test says so. -/
theorem call_not_hit {ver : Version} {H : Bs → Bs} {E : Env} {st : St R} {fn : Fn R} {c : Call}
    {cb : Bool} {k : Bs} (hk : argsId H E fn.cal fn.ig c = .ok k)
    (hn : (isInCacheAndValid st (fn.fid, k) cb).1 = none) (v : R) :
    (step ver H E st (.call fn c cb)).1 ≠ .value v false := by
  simp only [step, cachedCall, hk, hn]
  cases compute (isInCacheAndValid st (fn.fid, k) cb).2 fn (fn.fid, k) c with
  | error e => simp
  | ok r => obtain ⟨v', st'⟩ := r; simp

/-! ### every entry has its `func_code.py` (repaired code) -/

theorem entriesCoded_empty : EntriesCoded (St.empty : St R) := by
  intro id h; simp [St.empty] at h

theorem entriesCoded_checkCode {st : St R} (h : EntriesCoded st) (fid : Nat) :
    EntriesCoded (checkCode st fid).2 := by
  intro id hid
  rw [checkCode_entries] at hid
  exact checkCode_coded_mono st fid (h id hid)

theorem entriesCoded_sub {st : St R} (h : EntriesCoded st) {e : Store R}
    (hs : (e.map Prod.fst).Sublist (st.entries.map Prod.fst)) :
    EntriesCoded ({ st with entries := e } : St R) :=
  fun id hid => h id (hs.subset hid)

theorem entriesCoded_iic {st : St R} (h : EntriesCoded st) (id : Nat × Bs) (cb : Bool) :
    EntriesCoded (isInCacheAndValid st id cb).2 ∧ id.1 ∈ (isInCacheAndValid st id cb).2.coded := by
  have hc := entriesCoded_checkCode h id.1
  have hm := checkCode_coded_self st id.1
  unfold isInCacheAndValid
  simp only
  split
  · split
    · exact ⟨hc, hm⟩
    · split
      · exact ⟨hc, hm⟩
      · exact ⟨entriesCoded_sub hc ((dpop_sublist _ _).map _), hm⟩
  · exact ⟨hc, hm⟩

theorem entriesCoded_compute {st st' : St R} (h : EntriesCoded st) {fn : Fn R} {id : Nat × Bs} {c : Call}
    {v : R} (hid : id.1 ∈ st.coded) (hc : compute st fn id c = .ok (v, st')) : EntriesCoded st' := by
  unfold compute at hc
  split at hc
  · cases hc
  · cases hc
    intro i hi
    simp only [afterCall, keys_dset] at hi
    split at hi
    · exact h i hi
    · rcases List.mem_append.mp hi with hi | hi
      · exact h i hi
      · simp at hi; subst hi; exact hid

theorem evictAll_sublist : ∀ (ids : List (Nat × Bs)) (st : Store R), (evictAll st ids).Sublist st
  | [], _ => List.Sublist.refl _
  | id :: r, st => (evictAll_sublist r _).trans (dpop_sublist id st)

/-- A step of the REPAIRED code keeps `EntriesCoded`. -/
theorem entriesCoded_step {H : Bs → Bs} {E : Env} {st : St R} (h : EntriesCoded st) (op : Op R) :
    EntriesCoded (step .fixed H E st op).2 := by
  have cc : ∀ {fn : Fn R} {c : Call} {cb : Bool} {res : Except BindErr (R × Bool)} {st' : St R},
      cachedCall H E st fn c cb = .ok (res, st') → EntriesCoded st' := by
    intro fn c cb res st' hc
    unfold cachedCall at hc
    split at hc
    · cases hc
    · rename_i k hk
      obtain ⟨h1, h2⟩ := entriesCoded_iic h (fn.fid, k) cb
      simp only at hc
      split at hc
      · cases hc; exact h1
      · split at hc
        · cases hc; exact h1
        · rename_i v st'' hcomp
          cases hc
          exact entriesCoded_compute h1 h2 hcomp
  cases op with
  | call fn c cb =>
    simp only [step]
    cases hc : cachedCall H E st fn c cb with
    | error e => exact h
    | ok r =>
      obtain ⟨res, st'⟩ := r
      have := cc hc
      cases res with
      | error e => exact this
      | ok vx => exact this
  | shelve fn c cb =>
    simp only [step]
    cases hc : cachedCall H E st fn c cb with
    | error e => exact h
    | ok r =>
      obtain ⟨res, st'⟩ := r
      have := cc hc
      cases res with
      | error e => exact this
      | ok vx => exact this
  | get fn c =>
    simp only [step]
    cases argsId H E fn.cal fn.ig c with
    | error e => exact h
    | ok k => simp only; cases dget (fn.fid, k) st.entries <;> exact h
  | force fn c =>
    simp only [step]
    cases argsId H E fn.cal fn.ig c with
    | error e => exact h
    | ok k =>
      simp only [beforeForce]
      cases hcomp : compute (checkCode st fn.fid).2 fn (fn.fid, k) c with
      | error e => exact entriesCoded_checkCode h _
      | ok r =>
        obtain ⟨v, st'⟩ := r
        simp only
        exact entriesCoded_compute (id := (fn.fid, k)) (entriesCoded_checkCode h _)
          (checkCode_coded_self st _) hcomp
  | check fn c cb =>
    simp only [step]
    cases argsId H E fn.cal fn.ig c with
    | error e => exact h
    | ok k => exact (entriesCoded_iic h _ cb).1
  | clearFn fn =>
    intro id hid
    simp only [step] at hid ⊢
    have := h id ((List.filter_sublist.map _).subset hid)
    split
    · exact this
    · exact List.mem_cons_of_mem _ this
  | clearAll => intro id hid; simp [step] at hid
  | evict ids => exact entriesCoded_sub h ((evictAll_sublist ids _).map _)
  | fresh => exact h

theorem entriesCoded_exec {H : Bs → Bs} {E : Env} : ∀ (ops : List (Op R)) (st : St R),
    EntriesCoded st → EntriesCoded (exec .fixed H E st ops)
  | [], _, h => h
  | op :: ops, _, h => entriesCoded_exec ops _ (entriesCoded_step h op)

/-! ## a non-trivial instance of the hypotheses -/

/-- The body the harness' functions have: return the bound arguments that are not ignored (as
canonical Python values). -/
def canonBody (E : Env) (s : Sig) (ig : List Key) (b : List (Nat × Val)) : List (Nat × PyVal) :=
  b.filterMap fun e => if keyOf s e.1 ∈ ig then none else some (e.1, canon (embedVal E e.2))

theorem canonBody_agree {E : Env} {s : Sig} {ig : List Key} : ∀ {b₁ b₂ : List (Nat × Val)},
    AgreeOutside E s ig b₁ b₂ → canonBody E s ig b₁ = canonBody E s ig b₂
  | [], [], _ => rfl
  | [], _ :: _, h => by have := h.1; simp at this
  | _ :: _, [], h => by have := h.1; simp at this
  | x :: r₁, y :: r₂, h => by
    obtain ⟨hn, hv⟩ := h
    simp only [List.map_cons, List.cons.injEq] at hn
    have tail : AgreeOutside E s ig r₁ r₂ :=
      ⟨hn.2, fun n w₁ w₂ hk m₁ m₂ => hv n w₁ w₂ hk (List.mem_cons_of_mem _ m₁) (List.mem_cons_of_mem _ m₂)⟩
    have ih := canonBody_agree tail
    unfold canonBody at ih ⊢
    simp only [List.filterMap_cons, ← hn.1]
    by_cases hk : keyOf s x.1 ∈ ig
    · simp only [hk, if_true]; exact ih
    · have hh : canon (embedVal E x.2) = canon (embedVal E y.2) :=
        hv x.1 x.2 y.2 hk (by simp) (by rw [hn.1]; simp)
      simp only [hk, if_false, hh, ih]

/-- A plain function that returns its non-ignored bound arguments `Respects` its arguments. -/
theorem respects_canonBody (E : Env) (fid : Nat) (s : Sig) (ig : List Key) (eff : Call → Call) :
    Respects E ⟨fid, .func s, ig, canonBody E s ig, eff⟩ :=
  fun _ _ _ _ _ _ h => canonBody_agree h

/-- values: id `i` ↦ the int `i`, except 7 ↦ `{'x': 1, 'y': [2.0]}` and 8 ↦ the same dict built in
the other insertion order; identifiers: id `n` ↦ the letter `chr(97 + n)`. -/
def envEx : Env where
  val := fun i =>
    if i = 7 then .dict [(.str [120], .int 1), (.str [121], .list [.float 0x4000000000000000])]
    else if i = 8 then .dict [(.str [121], .list [.float 0x4000000000000000]), (.str [120], .int 1)]
    else .int i
  name := fun n => [97 + n]

/-- `def f(a, b=5, *args, **kw)` cached with `ignore=['b']`; it returns its bound arguments (as passed),
and it MUTATES a positional dict argument in place (`a['x'] = a.pop('x')`: value 7 becomes value 8, the
same items in the other insertion order). -/
def sigEx : Sig := [⟨0, .posKw, none⟩, ⟨1, .posKw, some 5⟩, ⟨2, .varPos, none⟩, ⟨3, .varKw, none⟩]
def fnEx : Fn (List (Nat × PyVal)) :=
  ⟨0, .func sigEx, [.name 1], canonBody envEx sigEx [.name 1],
    fun c => ⟨c.args.map fun v => if v = 7 then 8 else v, c.kwargs⟩⟩

/-- a digest function that is NOT injective (it keeps 30 bytes) but has no collision among the keys
of `histEx` -/
def hEx : Bs → Bs := fun s => (s.drop 40).take 30

/-- `f(7)`, `f(8, 2)` (a hit: same dict in another order, `b` ignored), `f(a=7, b=9)` shelved and
fetched, `f(1, 2, 3, z=4)` checked, an eviction, a clear, a call again, a fresh process. -/
def histEx : List (Op (List (Nat × PyVal))) :=
  [.call fnEx ⟨[7], []⟩ true, .call fnEx ⟨[8, 2], []⟩ true, .shelve fnEx ⟨[], [(0, 7), (1, 9)]⟩ true,
   .get fnEx ⟨[], [(0, 7), (1, 9)]⟩, .check fnEx ⟨[1, 2, 3], [(25, 4)]⟩ true,
   .call fnEx ⟨[1, 2, 3], [(25, 4)]⟩ false, .clearFn fnEx, .fresh, .call fnEx ⟨[7], []⟩ true, .clearAll]

theorem namesOK_envEx : NamesOK envEx :=
  ⟨fun m n h => by simp [envEx] at h; exact h, fun n h => by simp [envEx] at h; omega,
    fun n h => by simp [envEx] at h⟩

theorem calls_histEx : callsOf histEx =
    [(fnEx, ⟨[7], []⟩), (fnEx, ⟨[8, 2], []⟩), (fnEx, ⟨[], [(0, 7), (1, 9)]⟩), (fnEx, ⟨[], [(0, 7), (1, 9)]⟩),
     (fnEx, ⟨[1, 2, 3], [(25, 4)]⟩), (fnEx, ⟨[1, 2, 3], [(25, 4)]⟩), (fnEx, ⟨[7], []⟩)] := rfl

theorem fn_histEx : ∀ p ∈ callsOf histEx, p.1 = fnEx := by
  rw [calls_histEx]; intro p hp; simp at hp
  rcases hp with rfl | rfl | rfl | rfl | rfl <;> rfl

set_option maxRecDepth 8000 in
set_option exponentiation.threshold 1100 in
theorem hashable_histEx : ∀ p ∈ callsOf histEx, ∀ d, argDict p.1.cal p.1.ig p.2 = .ok d →
    Hashable hEx (embed envEx d) := by
  rw [calls_histEx]; intro p hp; simp at hp
  have d1 : argDict fnEx.cal fnEx.ig ⟨[7], []⟩ = .ok [(.name 0, .one 7), (.dstar, .map []), (.star, .seq [])] := by decide
  have d2 : argDict fnEx.cal fnEx.ig ⟨[8, 2], []⟩ = .ok [(.name 0, .one 8), (.dstar, .map []), (.star, .seq [])] := by decide
  have d3 : argDict fnEx.cal fnEx.ig ⟨[], [(0, 7), (1, 9)]⟩ = .ok [(.name 0, .one 7), (.dstar, .map []), (.star, .seq [])] := by decide
  have d4 : argDict fnEx.cal fnEx.ig ⟨[1, 2, 3], [(25, 4)]⟩ = .ok [(.name 0, .one 1), (.dstar, .map [(25, 4)]), (.star, .seq [3])] := by decide
  have hA : Hashable hEx (embed envEx [(.name 0, .one 7), (.dstar, .map []), (.star, .seq [])]) := by
    refine ⟨?_, by decide +kernel⟩
    simp [Plain, embed, keyVal, embedVal, envEx, depth, depthItems, depthList, orderable, allPairs, holdsFrozenset, or_imp, forall_and, and_imp]
    decide +kernel
  have hB : Hashable hEx (embed envEx [(.name 0, .one 8), (.dstar, .map []), (.star, .seq [])]) := by
    refine ⟨?_, by decide +kernel⟩
    simp [Plain, embed, keyVal, embedVal, envEx, depth, depthItems, depthList, orderable, allPairs, holdsFrozenset, or_imp, forall_and, and_imp]
    decide +kernel
  have hC : Hashable hEx (embed envEx [(.name 0, .one 1), (.dstar, .map [(25, 4)]), (.star, .seq [3])]) := by
    refine ⟨?_, by decide +kernel⟩
    simp [Plain, embed, keyVal, embedVal, envEx, depth, depthItems, depthList, orderable, allPairs, holdsFrozenset, or_imp, forall_and, and_imp]
    decide +kernel
  rcases hp with rfl | rfl | rfl | rfl | rfl <;> intro d hd
  · rw [d1] at hd; cases hd; exact hA
  · rw [d2] at hd; cases hd; exact hB
  · rw [d3] at hd; cases hd; exact hA
  · rw [d4] at hd; cases hd; exact hC
  · rw [d1] at hd; cases hd; exact hA

set_option maxRecDepth 8000 in
set_option exponentiation.threshold 1100 in
/-- The hypotheses of the history theorems hold for `histEx`. -/
theorem univOK_histEx : UnivOK hEx envEx (callsOf histEx) where
  names := namesOK_envEx
  cal := fun p hp => by rw [fn_histEx p hp]; exact .funcLike (.func (by decide))
  respects := fun p hp => by rw [fn_histEx p hp]; exact respects_canonBody envEx 0 sigEx [.name 1] _
  fids := fun p hp q hq _ => by rw [fn_histEx p hp, fn_histEx q hq]
  calls := fun p hp => by
    rw [calls_histEx] at hp; simp at hp
    rcases hp with rfl | rfl | rfl | rfl | rfl <;> decide
  hashable := hashable_histEx
  noCollision := by
    have : streamsOf hEx envEx (callsOf histEx) =
        [[128, 3, 125, 113, 0, 40, 88, 1, 0, 0, 0, 42, 93, 113, 1, 88, 2, 0, 0, 0, 42, 42, 125, 113, 2, 88, 1, 0, 0, 0, 97, 125,
          113, 3, 40, 88, 1, 0, 0, 0, 120, 75, 1, 88, 1, 0, 0, 0, 121, 93, 113, 4, 71, 64, 0, 0, 0, 0, 0, 0, 0, 97, 117, 117, 46],
         [128, 3, 125, 113, 0, 40, 88, 1, 0, 0, 0, 42, 93, 113, 1, 88, 2, 0, 0, 0, 42, 42, 125, 113, 2, 88, 1, 0, 0, 0, 97, 125,
          113, 3, 40, 88, 1, 0, 0, 0, 120, 75, 1, 88, 1, 0, 0, 0, 121, 93, 113, 4, 71, 64, 0, 0, 0, 0, 0, 0, 0, 97, 117, 117, 46],
         [128, 3, 125, 113, 0, 40, 88, 1, 0, 0, 0, 42, 93, 113, 1, 88, 2, 0, 0, 0, 42, 42, 125, 113, 2, 88, 1, 0, 0, 0, 97, 125,
          113, 3, 40, 88, 1, 0, 0, 0, 120, 75, 1, 88, 1, 0, 0, 0, 121, 93, 113, 4, 71, 64, 0, 0, 0, 0, 0, 0, 0, 97, 117, 117, 46],
         [128, 3, 125, 113, 0, 40, 88, 1, 0, 0, 0, 42, 93, 113, 1, 88, 2, 0, 0, 0, 42, 42, 125, 113, 2, 88, 1, 0, 0, 0, 97, 125,
          113, 3, 40, 88, 1, 0, 0, 0, 120, 75, 1, 88, 1, 0, 0, 0, 121, 93, 113, 4, 71, 64, 0, 0, 0, 0, 0, 0, 0, 97, 117, 117, 46],
         [128, 3, 125, 113, 0, 40, 88, 1, 0, 0, 0, 42, 93, 113, 1, 75, 3, 97, 88, 2, 0, 0, 0, 42, 42, 125, 113, 2, 88, 1, 0, 0,
          0, 122, 75, 4, 115, 88, 1, 0, 0, 0, 97, 75, 1, 117, 46],
         [128, 3, 125, 113, 0, 40, 88, 1, 0, 0, 0, 42, 93, 113, 1, 75, 3, 97, 88, 2, 0, 0, 0, 42, 42, 125, 113, 2, 88, 1, 0, 0,
          0, 122, 75, 4, 115, 88, 1, 0, 0, 0, 97, 75, 1, 117, 46],
         [128, 3, 125, 113, 0, 40, 88, 1, 0, 0, 0, 42, 93, 113, 1, 88, 2, 0, 0, 0, 42, 42, 125, 113, 2, 88, 1, 0, 0, 0, 97, 125,
          113, 3, 40, 88, 1, 0, 0, 0, 120, 75, 1, 88, 1, 0, 0, 0, 121, 93, 113, 4, 71, 64, 0, 0, 0, 0, 0, 0, 0, 97, 117, 117, 46]] := by
      decide +kernel
    rw [this]
    unfold NoCollisionOn hEx
    decide +kernel

/-- `hEx` is not injective. -/
theorem hEx_not_injective : hEx [1] = hEx [2] ∧ ([1] : Bs) ≠ [2] := by decide

/-! ## functions that mutate their arguments: the key is that of the arguments AS PASSED -/

/-- `id` is the key — function id, and args id computed from the arguments AS PASSED — of the call
the operation makes. -/
def KeyOfOp (H : Bs → Bs) (E : Env) (id : Nat × Bs) (op : Op R) : Prop :=
  ∃ fn c, op.callOf = some (fn, c) ∧ id.1 = fn.fid ∧ argsId H E fn.cal fn.ig c = .ok id.2

theorem mem_keys_iic {st : St R} {id id' : Nat × Bs} {cb : Bool}
    (h : id ∈ (isInCacheAndValid st id' cb).2.entries.map Prod.fst) : id ∈ st.entries.map Prod.fst := by
  by_cases hc : id'.1 ∈ st.coded
  · rw [iic_of_coded cb hc] at h
    cases hd : dget id' st.entries with
    | none => rw [hd] at h; exact h
    | some r =>
      rw [hd] at h
      cases cb with
      | true => exact h
      | false => exact ((dpop_sublist _ _).map Prod.fst).subset h
  · rw [iic_of_not_coded cb hc] at h; exact h

theorem mem_keys_compute {st st' : St R} {fn : Fn R} {id id' : Nat × Bs} {c : Call} {v : R}
    (hc : compute st fn id' c = .ok (v, st')) (h : id ∈ st'.entries.map Prod.fst) :
    id ∈ st.entries.map Prod.fst ∨ id = id' := by
  unfold compute at hc
  split at hc
  · cases hc
  · cases hc
    simp only [afterCall, keys_dset] at h
    split at h
    · exact .inl h
    · rcases List.mem_append.mp h with h | h
      · exact .inl h
      · exact .inr (by simpa using h)

theorem mem_keys_cachedCall {H : Bs → Bs} {E : Env} {st st' : St R} {fn : Fn R} {c : Call} {cb : Bool}
    {res : Except BindErr (R × Bool)} {id : Nat × Bs}
    (hc : cachedCall H E st fn c cb = .ok (res, st')) (h : id ∈ st'.entries.map Prod.fst) :
    id ∈ st.entries.map Prod.fst ∨ (id.1 = fn.fid ∧ argsId H E fn.cal fn.ig c = .ok id.2) := by
  unfold cachedCall at hc
  split at hc
  · cases hc
  · rename_i k hk
    simp only at hc
    split at hc
    · cases hc; exact .inl (mem_keys_iic h)
    · split at hc
      · cases hc; exact .inl (mem_keys_iic h)
      · rename_i v st'' hcomp
        cases hc
        rcases mem_keys_compute hcomp h with h | h
        · exact .inl (mem_keys_iic h)
        · subst h; exact .inr ⟨rfl, hk⟩

/-- One step of the code (either version): a key of the store afterwards was a key before, or is the
key of the ARGUMENTS AS PASSED of the call the operation makes — whatever the function does to its
arguments (`fn.effect` is arbitrary). -/
theorem mem_keys_step {ver : Version} {H : Bs → Bs} {E : Env} {st : St R} {id : Nat × Bs} (op : Op R)
    (h : id ∈ (step ver H E st op).2.entries.map Prod.fst) :
    id ∈ st.entries.map Prod.fst ∨ KeyOfOp H E id op := by
  cases op with
  | call fn c cb =>
    revert h
    simp only [step]
    cases hc : cachedCall H E st fn c cb with
    | error e => exact fun h => .inl h
    | ok r =>
      obtain ⟨res, st'⟩ := r
      have key := fun h => mem_keys_cachedCall (id := id) hc h
      cases res with
      | error e => exact fun h => (key h).imp (fun h => h) fun h => ⟨fn, c, rfl, h.1, h.2⟩
      | ok vx => exact fun h => (key h).imp (fun h => h) fun h => ⟨fn, c, rfl, h.1, h.2⟩
  | shelve fn c cb =>
    revert h
    simp only [step]
    cases hc : cachedCall H E st fn c cb with
    | error e => exact fun h => .inl h
    | ok r =>
      obtain ⟨res, st'⟩ := r
      have key := fun h => mem_keys_cachedCall (id := id) hc h
      cases res with
      | error e => exact fun h => (key h).imp (fun h => h) fun h => ⟨fn, c, rfl, h.1, h.2⟩
      | ok vx => exact fun h => (key h).imp (fun h => h) fun h => ⟨fn, c, rfl, h.1, h.2⟩
  | get fn c =>
    revert h
    simp only [step]
    cases argsId H E fn.cal fn.ig c with
    | error e => exact fun h => .inl h
    | ok k => simp only; cases dget (fn.fid, k) st.entries <;> exact fun h => .inl h
  | force fn c =>
    revert h
    simp only [step]
    cases hk : argsId H E fn.cal fn.ig c with
    | error e => exact fun h => .inl h
    | ok k =>
      simp only
      cases hcomp : compute (beforeForce ver st fn.fid) fn (fn.fid, k) c with
      | error e => exact fun h => .inl (by rwa [beforeForce_entries] at h)
      | ok r =>
        obtain ⟨v, st'⟩ := r
        intro h
        rcases mem_keys_compute hcomp h with h | h
        · exact .inl (by rwa [beforeForce_entries] at h)
        · subst h; exact .inr ⟨fn, c, rfl, rfl, hk⟩
  | check fn c cb =>
    revert h
    simp only [step]
    cases argsId H E fn.cal fn.ig c with
    | error e => exact fun h => .inl h
    | ok k => exact fun h => .inl (mem_keys_iic h)
  | clearFn fn => exact .inl ((List.filter_sublist.map _).subset h)
  | clearAll => simp [step] at h
  | evict ids => exact .inl (((evictAll_sublist ids _).map _).subset h)
  | fresh => exact .inl h

theorem mem_keys_exec {ver : Version} {H : Bs → Bs} {E : Env} {id : Nat × Bs} :
    ∀ (ops : List (Op R)) {st : St R}, id ∈ (exec ver H E st ops).entries.map Prod.fst →
      id ∈ st.entries.map Prod.fst ∨ ∃ op ∈ ops, KeyOfOp H E id op
  | [], _, h => .inl h
  | op :: ops, st, h => by
    rcases mem_keys_exec ops (st := (step ver H E st op).2) h with h | ⟨o, ho, hk⟩
    · rcases mem_keys_step op h with h | h
      · exact .inl h
      · exact .inr ⟨op, List.mem_cons_self, h⟩
    · exact .inr ⟨o, List.mem_cons_of_mem _ ho, hk⟩

/-- After a completed forced call (repaired code) its entry — filed under the key of the arguments
as passed — is present. -/
theorem present_after_force {H : Bs → Bs} {E : Env} {st : St R} {fn : Fn R} {c : Call} {k : Bs} {v : R}
    {x : Bool} (hk : argsId H E fn.cal fn.ig c = .ok k)
    (ho : (step .fixed H E st (.force fn c)).1 = .value v x) :
    Present (fn.fid, k) (step .fixed H E st (.force fn c)).2 := by
  simp only [step, hk, beforeForce] at ho ⊢
  cases hb : bindOf fn.cal c with
  | error e => simp [compute, hb] at ho
  | ok b =>
    simp only [compute, afterCall, hb] at ho ⊢
    exact ⟨checkCode_coded_self st fn.fid, by
      show (dget (fn.fid, k) (dset (fn.fid, k) _ _)).isSome
      rw [dget_dset_self]; rfl⟩

/-- `check_call_in_cache` on a present entry (callback content): `True`, nothing changes. -/
theorem check_hit {ver : Version} {H : Bs → Bs} {E : Env} {st : St R} {fn : Fn R} {c : Call} {k : Bs}
    {v : R} (hk : argsId H E fn.cal fn.ig c = .ok k) (hc : fn.fid ∈ st.coded)
    (hv : dget (fn.fid, k) st.entries = some v) :
    step ver H E st (.check fn c true) = (.flag true, st) := by
  simp [step, hk, isInCacheAndValid, checkCode_of_mem hc, hv]

/-- A present entry serves the call and the check. -/
theorem served_of_present {ver : Version} {H : Bs → Bs} {E : Env} {st : St R} {fn : Fn R} {c : Call}
    {k : Bs} (hk : argsId H E fn.cal fn.ig c = .ok k) (hp : Present (fn.fid, k) st) :
    ∃ v', step ver H E st (.call fn c true) = (.value v' false, st) ∧
      step ver H E st (.check fn c true) = (.flag true, st) := by
  cases hv : dget (fn.fid, k) st.entries with
  | none => have := hp.2; rw [hv] at this; cases this
  | some v' => exact ⟨v', call_hit hk hp.1 hv, check_hit hk hp.1 hv⟩

/-! ### what a function does to its arguments is invisible to the code as it is -/

/-- The same cached function with another effect on its arguments. -/
def Fn.withEffect (fn : Fn R) (e : Call → Call) : Fn R := { fn with effect := e }

/-- The same operation on the function with another effect on its arguments. -/
def Op.withEffects (e : Fn R → Call → Call) : Op R → Op R
  | .call fn c cb => .call (fn.withEffect (e fn)) c cb
  | .shelve fn c cb => .shelve (fn.withEffect (e fn)) c cb
  | .get fn c => .get (fn.withEffect (e fn)) c
  | .force fn c => .force (fn.withEffect (e fn)) c
  | .check fn c cb => .check (fn.withEffect (e fn)) c cb
  | .clearFn fn => .clearFn (fn.withEffect (e fn))
  | .clearAll => .clearAll
  | .evict ids => .evict ids
  | .fresh => .fresh

theorem step_withEffects (ver : Version) (H : Bs → Bs) (E : Env) (st : St R) (e : Fn R → Call → Call)
    (op : Op R) : step ver H E st (op.withEffects e) = step ver H E st op := by
  cases op <;> rfl

theorem run_exec_withEffects (ver : Version) (H : Bs → Bs) (E : Env) (e : Fn R → Call → Call) :
    ∀ (ops : List (Op R)) (st : St R),
      run ver H E st (ops.map (Op.withEffects e)) = run ver H E st ops ∧
        exec ver H E st (ops.map (Op.withEffects e)) = exec ver H E st ops
  | [], _ => ⟨rfl, rfl⟩
  | op :: ops, st => by
    simp only [List.map_cons, run, exec, step_withEffects]
    exact ⟨by rw [(run_exec_withEffects ver H E e ops _).1], (run_exec_withEffects ver H E e ops _).2⟩

/-! ### a function that sorts its list argument in place -/

/-- values: 0 ↦ `[3, 1, 2]`, 1 ↦ `[1, 2, 3]`, every other id `i` ↦ the int `i`; identifiers as `envEx`. -/
def envMut : Env where
  val := fun i =>
    if i = 0 then .list [.int 3, .int 1, .int 2] else if i = 1 then .list [.int 1, .int 2, .int 3] else .int i
  name := fun n => [97 + n]

/-- `def f(a): r = list(a); a.sort(); return r` — returns its argument AS PASSED and sorts it IN PLACE:
called with `[3, 1, 2]` (value 0) it leaves `[1, 2, 3]` (value 1) in the caller's list. -/
def fnSort : Fn (List (Nat × Val)) :=
  ⟨0, .func [⟨0, .posKw, none⟩], [], fun b => b,
    fun c => ⟨c.args.map fun v => if v = 0 then 1 else v, c.kwargs.map fun kv => (kv.1, if kv.2 = 0 then 1 else kv.2)⟩⟩

/-- an injective digest -/
def hId : Bs → Bs := fun s => s

/-- Dict arguments whose KEYS are only partially ordered (`(1, frozenset)` tuples: `<` on frozensets is set
inclusion): value 0 = `{(1, {1,2}): 'a', (1, {2,3}): 'b', (1, {3}): 'c'}`, value 1 = the SAME dict built in
the reverse insertion order (its frozensets listed in another iteration order as well), value 2 = a
different dict (two values swapped). -/
def envPO : Env where
  val := fun i =>
    if i = 0 then .dict [(.tuple [.int 1, .frozenset [.int 1, .int 2]], .str [97]),
        (.tuple [.int 1, .frozenset [.int 2, .int 3]], .str [98]), (.tuple [.int 1, .frozenset [.int 3]], .str [99])]
    else if i = 1 then .dict [(.tuple [.int 1, .frozenset [.int 3]], .str [99]),
        (.tuple [.int 1, .frozenset [.int 3, .int 2]], .str [98]), (.tuple [.int 1, .frozenset [.int 2, .int 1]], .str [97])]
    else if i = 2 then .dict [(.tuple [.int 1, .frozenset [.int 1, .int 2]], .str [98]),
        (.tuple [.int 1, .frozenset [.int 2, .int 3]], .str [97]), (.tuple [.int 1, .frozenset [.int 3]], .str [99])]
    else .int i
  name := fun n => [97 + n]

/-- one parameter, returns its bound arguments, leaves them alone -/
def fnOne : Fn (List (Nat × Val)) := ⟨0, .func [⟨0, .posKw, none⟩], [], fun b => b, fun c => c⟩

/-- `allPairs` as `List.Pairwise`. -/
theorem allPairs_pairwise {α : Type} (p : α → α → Bool) :
    ∀ l : List α, allPairs p l = true → l.Pairwise (fun a b => p a b = true)
  | [], _ => .nil
  | x :: xs, h => by
    simp only [allPairs, Bool.and_eq_true, List.all_eq_true] at h
    exact .cons h.1 (allPairs_pairwise p xs h.2)


end JoblibModel.MemoryCache
