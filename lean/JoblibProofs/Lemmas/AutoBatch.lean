import JoblibModel.AutoBatch
namespace JoblibModel.AutoBatch

theorem batchSize_ge_one (s : St) (h : 1 ≤ s.eff) : 1 ≤ batchSize s := by
  unfold batchSize
  split
  · exact Nat.le_max_right _ _
  · split
    · exact Nat.le_max_right _ _
    · exact h

theorem compute_ge_one (s : St) (h : 1 ≤ s.eff) : 1 ≤ (compute s).2 ∧ 1 ≤ (compute s).1.eff := by
  simp only [compute]
  exact ⟨batchSize_ge_one s h, batchSize_ge_one s h⟩

theorem compute_le_double (s : St) (h : 1 ≤ s.eff) : (compute s).2 ≤ 2 * s.eff := by
  simp only [compute]
  unfold batchSize
  split
  · simp only [Nat.max_le]; omega
  · split
    · rename_i h2
      simp only [Bool.and_eq_true, decide_eq_true_eq] at h2
      have hi : ideal s.eff s.dur ≤ s.eff := by
        unfold ideal
        have hlt := h2.1
        simp only [Q.lt, Nat.mul_one, decide_eq_true_eq] at hlt
        apply Nat.div_le_of_le_mul
        calc s.eff * s.dur.den ≤ s.eff * (5 * s.dur.num) := by
              apply Nat.mul_le_mul_left; omega
          _ = 5 * s.dur.num * s.eff := by rw [Nat.mul_comm]
      simp only [Nat.max_le]; omega
    · omega

theorem completed_eff (s : St) (b : Nat) (d : Q) : (completed s b d).eff = s.eff := by
  unfold completed; split <;> (try split) <;> rfl

theorem final_eff_ge_one (s : St) (ops : List Op) (h : 1 ≤ s.eff) : 1 ≤ (final s ops).eff := by
  induction ops generalizing s with
  | nil => simpa [final]
  | cons op r ih =>
    simp only [final]
    apply ih
    cases op with
    | compute => simpa [step] using (compute_ge_one s h).2
    | completed b d => simpa [step, completed_eff] using h
    | reset => simp [step, reset]
    | newCall _ _ _ => simpa [step] using h

theorem run_all_ge_one (s : St) (ops : List Op) (h : 1 ≤ s.eff) : ∀ b ∈ run s ops, 1 ≤ b := by
  induction ops generalizing s with
  | nil => simp [run]
  | cons op r ih =>
    cases op with
    | compute =>
      simp only [run, step]
      intro b hb
      rcases List.mem_cons.mp hb with rfl | hb
      · exact (compute_ge_one s h).1
      · exact ih _ (compute_ge_one s h).2 b hb
    | completed bb d =>
      simp only [run, step]
      exact ih _ (by simpa [completed_eff] using h)
    | reset =>
      simp only [run, step]
      exact ih _ (by simp [reset])
    | newCall _ _ _ =>
      simp only [run, step]
      exact ih _ h

theorem run_append (s : St) (a b : List Op) : run s (a ++ b) = run s a ++ run (final s a) b := by
  induction a generalizing s with
  | nil => simp [run, final]
  | cons op r ih =>
    simp only [List.cons_append, run, final]
    cases h : step s op with
    | mk s' o =>
      cases o with
      | none => simpa using ih s'
      | some v => simpa using ih s'

end JoblibModel.AutoBatch
