import JoblibModel.EvalExpr
import JoblibModel.ParallelProto
/-! Helper lemmas for the `eval_expr` / `pre_dispatch` part of C09 (model: `JoblibModel/EvalExpr.lean`). -/
namespace JoblibModel.EvalExpr

/-! ## `eval_` for every interpretation of the operator functions -/

theorem wrap_ok {α : Type} {r : Res α} {v : α} : wrap r = .ok v ↔ r = .ok v := by
  unfold wrap
  split <;> simp_all

theorem wrap_untracked {α : Type} {r : Res α} : wrap r = .untracked ↔ r = .untracked := by
  unfold wrap
  split <;> simp_all

/-- A value comes out of `eval_` only for an arithmetic AST. -/
theorem evalRaw_ok_isArith {α : Type} (ops : Ops α) :
    ∀ (e : Ast) (v : α), evalRaw ops e = .ok v → isArith e = true := by
  intro e
  induction e with
  | const c => intro v _; rfl
  | binOp op l r ihl ihr =>
    intro v h
    unfold evalRaw at h
    cases hf : binFn? op with
    | none => simp [hf] at h
    | some f =>
      simp only [hf] at h
      cases hl : evalRaw ops l with
      | ok a =>
        cases hr : evalRaw ops r with
        | ok b => simp [isArith, hf, ihl a hl, ihr b hr]
        | raise x => simp [hl, hr] at h
        | untracked => simp [hl, hr] at h
      | raise x => simp [hl] at h
      | untracked => simp [hl] at h
  | unaryOp op e ih =>
    intro v h
    cases op with
    | usub =>
      unfold evalRaw at h
      cases he : evalRaw ops e with
      | ok a => simp [isArith, ih a he]
      | raise x => simp [he] at h
      | untracked => simp [he] at h
    | uadd => simp [evalRaw] at h
    | not => simp [evalRaw] at h
    | invert => simp [evalRaw] at h
  | other k => intro v h; simp [evalRaw] at h

/-- `r` is the result of one call of an operator function (`operators[…](a, b)` or `op.neg(a)`). -/
def OpCall {α : Type} (ops : Ops α) (r : Res α) : Prop :=
  (∃ f a b, ops.apply f a b = r) ∨ (∃ a, ops.neg a = r)

/-- Where the outcome of `eval_` comes from: a value, the `TypeError` of an unknown node, the `KeyError` of an
unknown operator, or — unchanged — the result of a call of one of the eight operator functions. -/
theorem evalRaw_origin {α : Type} (ops : Ops α) :
    ∀ e : Ast, (∃ v, evalRaw ops e = .ok v) ∨ evalRaw ops e = .raise .TypeError ∨
      evalRaw ops e = .raise .KeyError ∨ OpCall ops (evalRaw ops e) := by
  intro e
  induction e with
  | const c => exact Or.inl ⟨_, rfl⟩
  | binOp op l r ihl ihr =>
    unfold evalRaw
    cases hf : binFn? op with
    | none => exact Or.inr (Or.inr (Or.inl rfl))
    | some f =>
      simp only []
      cases hl : evalRaw ops l with
      | ok a =>
        cases hr : evalRaw ops r with
        | ok b => exact Or.inr (Or.inr (Or.inr (Or.inl ⟨f, a, b, rfl⟩)))
        | raise x => rw [hr] at ihr; simpa using ihr
        | untracked => rw [hr] at ihr; simpa using ihr
      | raise x => rw [hl] at ihl; simpa using ihl
      | untracked => rw [hl] at ihl; simpa using ihl
  | unaryOp op e ih =>
    cases op with
    | usub =>
      unfold evalRaw
      cases he : evalRaw ops e with
      | ok a => exact Or.inr (Or.inr (Or.inr (Or.inr ⟨a, rfl⟩)))
      | raise x => rw [he] at ih; simpa using ih
      | untracked => rw [he] at ih; simpa using ih
    | uadd => exact Or.inr (Or.inr (Or.inl rfl))
    | not => exact Or.inr (Or.inr (Or.inl rfl))
    | invert => exact Or.inr (Or.inr (Or.inl rfl))
  | other k => exact Or.inr (Or.inl rfl)

/-! ## The exception classes of the Python operator functions (`pyOps`) -/

theorem intToFlt_raise {n : Int} {x : Exc} (h : intToFlt n = .raise x) : x = .OverflowError := by
  unfold intToFlt at h
  split at h <;> simp_all

theorem intToFlt_not_untracked {n : Int} : intToFlt n ≠ .untracked := by
  unfold intToFlt
  split <;> simp

theorem toFlt_raise {a : Num} {x : Exc} (h : a.toFlt = .raise x) : x = .OverflowError := by
  cases a with
  | i n => exact intToFlt_raise h
  | f y => simp [Num.toFlt] at h

/-- The exception classes the model's operator functions can raise. -/
def ArithExc (x : Exc) : Prop := x = .TypeError ∨ x = .ZeroDivisionError ∨ x = .OverflowError

theorem withFloats_raise {a b : Num} {k : Flt → Flt → Res Val} {x : Exc}
    (hk : ∀ u v, k u v = .raise x → ArithExc x) (h : withFloats a b k = .raise x) : ArithExc x := by
  unfold withFloats at h
  cases ha : a.toFlt with
  | ok u =>
    cases hb : b.toFlt with
    | ok v => simp [ha, hb] at h; exact hk u v h
    | raise e =>
      simp [ha, hb] at h
      subst h
      exact Or.inr (Or.inr (toFlt_raise hb))
    | untracked => simp [ha, hb] at h
  | raise e =>
    simp [ha] at h
    subst h
    exact Or.inr (Or.inr (toFlt_raise ha))
  | untracked => simp [ha] at h

theorem powGeneral_raise {neg : Bool} {mv ev mw ew : Int} {x : Exc}
    (h : powGeneral neg mv ev mw ew = .raise x) : x = .OverflowError := by
  unfold powGeneral at h
  repeat' first | split at h | (dsimp only at h; split at h)
  all_goals simp_all

theorem floatPow_raise {iv iw : Flt} {x : Exc} (h : floatPow iv iw = .raise x) :
    x = .ZeroDivisionError ∨ x = .OverflowError := by
  unfold floatPow at h
  repeat' first | split at h | (dsimp only at h; split at h)
  all_goals first | (exact Or.inr (powGeneral_raise h)) | simp_all

theorem fltRes_raise {r : Res Flt} {x : Exc} (h : fltRes r = .raise x) : r = .raise x := by
  cases r <;> simp_all [fltRes]

theorem applyNum_raise {f : Fn} {a b : Num} {x : Exc} (h : applyNum f a b = .raise x) : ArithExc x := by
  have hpow : ∀ u v, fltRes (floatPow u v) = .raise x → ArithExc x := fun u v hh => by
    rcases floatPow_raise (fltRes_raise hh) with h1 | h1
    · exact Or.inr (Or.inl h1)
    · exact Or.inr (Or.inr h1)
  have hz : ∀ (g : Flt → Flt → Flt) (u v : Flt),
      (if v.isZero = true then Res.raise Exc.ZeroDivisionError else Res.ok (Const.flt (g u v))) = Res.raise x →
      ArithExc x := fun g u v hh => by
    split at hh
    · exact Or.inr (Or.inl (by simpa using hh.symm))
    · simp at hh
  cases a with
  | i m =>
    cases b with
    | i n =>
      cases f <;> simp only [applyNum] at h
      · simp at h
      · simp at h
      · simp at h
      · split at h
        · exact Or.inr (Or.inl (by simpa using h.symm))
        · split at h
          · exact Or.inr (Or.inr (by simpa using h.symm))
          · exact Or.inr (Or.inr (by simpa using h.symm))
          · simp at h
      · split at h
        · exact Or.inr (Or.inl (by simpa using h.symm))
        · simp at h
      · split at h
        · exact Or.inr (Or.inl (by simpa using h.symm))
        · simp at h
      · split at h
        · split at h <;> simp at h
        · exact withFloats_raise hpow h
    | f y =>
      cases f <;> simp only [applyNum] at h
      · exact withFloats_raise (fun u v hh => by simp at hh) h
      · exact withFloats_raise (fun u v hh => by simp at hh) h
      · exact withFloats_raise (fun u v hh => by simp at hh) h
      · exact withFloats_raise (hz fdivNZ) h
      · exact withFloats_raise (hz floatFloorDiv) h
      · exact withFloats_raise (hz floatRem) h
      · exact withFloats_raise hpow h
  | f y =>
    cases f <;> simp only [applyNum] at h
    · exact withFloats_raise (fun u v hh => by simp at hh) h
    · exact withFloats_raise (fun u v hh => by simp at hh) h
    · exact withFloats_raise (fun u v hh => by simp at hh) h
    · exact withFloats_raise (hz fdivNZ) h
    · exact withFloats_raise (hz floatFloorDiv) h
    · exact withFloats_raise (hz floatRem) h
    · exact withFloats_raise hpow h

theorem negVal_raise {a : Val} {x : Exc} (h : negVal a = .raise x) : x = .TypeError := by
  cases a <;> simp_all [negVal]

theorem applyVal_raise {f : Fn} {a b : Val} {x : Exc} (h : applyVal f a b = .raise x) : ArithExc x := by
  unfold applyVal at h
  repeat' first | split at h | (dsimp only at h; split at h)
  all_goals first | exact applyNum_raise h | simp_all [ArithExc]

/-- Every exception of a call of one of the eight operator functions of the model is a `TypeError`, a
`ZeroDivisionError` or an `OverflowError`. -/
theorem pyOps_opCall_raise {r : Res Val} (h : OpCall pyOps r) {x : Exc} (hx : r = .raise x) : ArithExc x := by
  subst hx
  rcases h with ⟨f, a, b, h⟩ | ⟨a, h⟩
  · exact applyVal_raise h
  · exact Or.inl (negVal_raise h)

/-! ## Integers: CPython's algorithms compute the mathematical floor quotient / remainder / power -/

theorem tmod_eq_zero_iff_dvd (a b : Int) : Int.tmod a b = 0 ↔ b ∣ a := Int.dvd_iff_tmod_eq_zero.symm

theorem tmod_nonpos_of_nonpos {a : Int} (b : Int) (h : a ≤ 0) : Int.tmod a b ≤ 0 := by
  have h1 : 0 ≤ Int.tmod (-a) b := Int.tmod_nonneg b (by omega)
  rw [Int.neg_tmod] at h1
  omega

/-- `l_divmod` (truncate, then fix the signs) computes the floor quotient and the remainder with the sign of the
divisor. -/
theorem pyDivMod_eq (a b : Int) (hb : b ≠ 0) : pyDivMod a b = (Int.fdiv a b, Int.fmod a b) := by
  have hq : (pyDivMod a b).1 = Int.fdiv a b := by
    unfold pyDivMod
    rw [Int.fdiv_eq_tdiv]
    by_cases hd : b ∣ a
    · have h0 : Int.tmod a b = 0 := (tmod_eq_zero_iff_dvd a b).2 hd
      simp [h0, hd]
    · have hne : Int.tmod a b ≠ 0 := fun h0 => hd ((tmod_eq_zero_iff_dvd a b).1 h0)
      simp only [hd, if_false]
      by_cases ha : 0 ≤ a
      · have hr : 0 < Int.tmod a b := by
          have := Int.tmod_nonneg b ha
          omega
        by_cases hb0 : 0 ≤ b
        · have : ¬ (Int.tmod a b < 0) := by omega
          have : ¬ (b < 0) := by omega
          simp [*]
        · have : ¬ (Int.tmod a b < 0) := by omega
          have : b < 0 := by omega
          simp [*]
      · have hr : Int.tmod a b < 0 := by
          have := tmod_nonpos_of_nonpos b (show a ≤ 0 by omega)
          omega
        by_cases hb0 : 0 ≤ b
        · have hbp : 0 < b := by omega
          have : ¬ (b < 0) := by omega
          simp [Int.sign_eq_one_of_pos hbp, *]
        · have hbn : b < 0 := by omega
          simp [ha, hb0, hr, hbn, Int.sign_eq_neg_one_of_neg hbn]
  have hr : (pyDivMod a b).2 = Int.fmod a b := by
    rw [Int.fmod_def, ← hq]
    unfold pyDivMod
    have := Int.tmod_def a b
    dsimp only
    split
    · simp only []
      rw [Int.mul_sub]
      omega
    · simp only []
      omega
  exact Prod.ext hq hr

/-- The square-and-multiply loop of `long_pow`. -/
def powStep (a : Int) (z : Int) (b : Bool) : Int := if b then z * z * a else z * z

theorem pyPowNat_fold (a : Int) : ∀ (f n : Nat) (acc : List Bool), n < 2 ^ f →
    (bitsMsb f n acc).foldl (powStep a) 1 = acc.foldl (powStep a) (a ^ n) := by
  intro f
  induction f with
  | zero =>
    intro n acc h
    have : n = 0 := by simpa using h
    subst this
    simp [bitsMsb]
  | succ f ih =>
    intro n acc h
    unfold bitsMsb
    by_cases hn : n = 0
    · subst hn; simp
    · simp only [hn, if_false]
      rw [ih (n / 2) _ (by omega)]
      simp only [List.foldl_cons]
      congr 1
      have hdm : n = 2 * (n / 2) + n % 2 := by omega
      by_cases hodd : n % 2 = 1
      · have : (n % 2 == 1) = true := by simp [hodd]
        rw [this]
        simp only [powStep, if_true]
        conv => rhs; rw [hdm, hodd]
        rw [Int.pow_succ, Nat.two_mul, Int.pow_add]
      · have h0 : n % 2 = 0 := by omega
        have : (n % 2 == 1) = false := by simp [h0]
        rw [this]
        simp only [powStep]
        conv => rhs; rw [hdm, h0]
        rw [Nat.add_zero, Nat.two_mul, Int.pow_add]
        simp

theorem pyPowNat_eq (a : Int) (n : Nat) : pyPowNat a n = a ^ n := by
  unfold pyPowNat
  have h := pyPowNat_fold a (n.log2 + 1) n [] Nat.lt_log2_self
  simp only [List.foldl_nil] at h
  exact h

/-! ## The integer fragment against an independent denotation -/

/-- Mathematical value of an expression of the integer fragment: integer constants, `+ - *`, `//` and `%` with Lean's
floor division `Int.fdiv` / `Int.fmod` (non-zero divisor), `**` with a non-negative exponent, unary minus.
`none` = outside the fragment (or division by zero / negative exponent). -/
def intDenote : Ast → Option Int
  | .const (.int n) => some n
  | .const _ => none
  | .binOp op l r =>
    match intDenote l, intDenote r with
    | some a, some b =>
      match op with
      | .add => some (a + b)
      | .sub => some (a - b)
      | .mult => some (a * b)
      | .floorDiv => if b = 0 then none else some (Int.fdiv a b)
      | .mod => if b = 0 then none else some (Int.fmod a b)
      | .pow => if 0 ≤ b then some (a ^ b.toNat) else none
      | _ => none
    | _, _ => none
  | .unaryOp .usub e => (intDenote e).map (fun a => -a)
  | .unaryOp _ _ => none
  | .other _ => none

/-- Every integer power inside `e` stays within the size up to which the model computes powers
(`intPowBitBound` bits; beyond it the model abstains). -/
def powWithinBound : Ast → Bool
  | .binOp op l r =>
    powWithinBound l && powWithinBound r &&
      (match op, intDenote l, intDenote r with
       | .pow, some a, some b =>
         decide (a = 0 ∨ a = 1 ∨ a = -1 ∨ (a.natAbs.log2 + 1) * b.toNat ≤ intPowBitBound)
       | _, _, _ => true)
  | .unaryOp _ e => powWithinBound e
  | _ => true

theorem applyVal_int (f : Fn) (a b : Int) : applyVal f (.int a) (.int b) = applyNum f (.i a) (.i b) := by
  simp [applyVal, isCplx, num?]

theorem evalRaw_binOp_int {op : BinOp} {f : Fn} {l r : Ast} {a b : Int} (hf : binFn? op = some f)
    (hl : evalRaw pyOps l = .ok (.int a)) (hr : evalRaw pyOps r = .ok (.int b)) :
    evalRaw pyOps (.binOp op l r) = applyNum f (.i a) (.i b) := by
  rw [evalRaw, hf]
  simp only [hl, hr]
  exact applyVal_int f a b

theorem evalRaw_binOp_untracked {op : BinOp} {f : Fn} {l r : Ast} {a b : Int} (hf : binFn? op = some f)
    (hl : evalRaw pyOps l = .ok (.int a) ∨ evalRaw pyOps l = .untracked)
    (hr : evalRaw pyOps r = .ok (.int b) ∨ evalRaw pyOps r = .untracked) :
    evalRaw pyOps (.binOp op l r) = applyNum f (.i a) (.i b) ∨ evalRaw pyOps (.binOp op l r) = .untracked := by
  rcases hl with hl | hl
  · rcases hr with hr | hr
    · exact Or.inl (evalRaw_binOp_int hf hl hr)
    · right; rw [evalRaw, hf]; simp only [hl, hr]
  · right; rw [evalRaw, hf]; simp only [hl]

/-- On the integer fragment the model returns the mathematical value — or abstains, and it abstains only when some
power exceeds `intPowBitBound` bits. -/
theorem evalRaw_int_sound : ∀ (e : Ast) (n : Int), intDenote e = some n →
    (powWithinBound e = true → evalRaw pyOps e = .ok (.int n)) ∧
    (evalRaw pyOps e = .ok (.int n) ∨ evalRaw pyOps e = .untracked) := by
  intro e
  induction e with
  | const c =>
    intro n h
    cases c <;> simp_all [intDenote, evalRaw, pyOps]
  | binOp op l r ihl ihr =>
    intro n h
    unfold intDenote at h
    cases hl : intDenote l with
    | none => simp [hl] at h
    | some a =>
      cases hr : intDenote r with
      | none => simp [hl, hr] at h
      | some b =>
        simp only [hl, hr] at h
        obtain ⟨il1, il2⟩ := ihl a hl
        obtain ⟨ir1, ir2⟩ := ihr b hr
        have key : ∀ (f : Fn), binFn? op = some f →
            (powWithinBound (.binOp op l r) = true → applyNum f (.i a) (.i b) = .ok (.int n)) →
            (applyNum f (.i a) (.i b) = .ok (.int n) ∨ applyNum f (.i a) (.i b) = .untracked) →
            (powWithinBound (.binOp op l r) = true → evalRaw pyOps (.binOp op l r) = .ok (.int n)) ∧
            (evalRaw pyOps (.binOp op l r) = .ok (.int n) ∨ evalRaw pyOps (.binOp op l r) = .untracked) := by
          intro f hf h1 h2
          constructor
          · intro hp
            have hp' := hp
            simp only [powWithinBound, Bool.and_eq_true] at hp'
            rw [evalRaw_binOp_int hf (il1 hp'.1.1) (ir1 hp'.1.2)]
            exact h1 hp
          · rcases evalRaw_binOp_untracked hf il2 ir2 with e1 | e1
            · rw [e1]; exact h2
            · exact Or.inr e1
        cases op with
        | add =>
          have : n = a + b := by simpa using h.symm
          subst this
          exact key .add rfl (fun _ => rfl) (Or.inl rfl)
        | sub =>
          have : n = a - b := by simpa using h.symm
          subst this
          exact key .sub rfl (fun _ => rfl) (Or.inl rfl)
        | mult =>
          have : n = a * b := by simpa using h.symm
          subst this
          exact key .mul rfl (fun _ => rfl) (Or.inl rfl)
        | floorDiv =>
          by_cases hb : b = 0
          · simp [hb] at h
          · have : n = Int.fdiv a b := by simpa [hb] using h.symm
            subst this
            have e1 : applyNum .floordiv (.i a) (.i b) = .ok (.int (Int.fdiv a b)) := by
              simp [applyNum, hb, pyDivMod_eq a b hb]
            exact key .floordiv rfl (fun _ => e1) (Or.inl e1)
        | mod =>
          by_cases hb : b = 0
          · simp [hb] at h
          · have : n = Int.fmod a b := by simpa [hb] using h.symm
            subst this
            have e1 : applyNum .mod (.i a) (.i b) = .ok (.int (Int.fmod a b)) := by
              simp [applyNum, hb, pyDivMod_eq a b hb]
            exact key .mod rfl (fun _ => e1) (Or.inl e1)
        | pow =>
          by_cases hb : 0 ≤ b
          · have : n = a ^ b.toNat := by simpa [hb] using h.symm
            subst this
            refine key .pow rfl (fun hp => ?_) ?_
            · simp only [powWithinBound, hl, hr, Bool.and_eq_true, decide_eq_true_eq] at hp
              simp [applyNum, hb, hp.2, pyPowNat_eq]
            · by_cases hc : a = 0 ∨ a = 1 ∨ a = -1 ∨ (a.natAbs.log2 + 1) * b.toNat ≤ intPowBitBound
              · left; simp [applyNum, hb, hc, pyPowNat_eq]
              · right; simp [applyNum, hb, hc]
          · simp [hb] at h
        | div => simp at h
        | matMult => simp at h
        | lShift => simp at h
        | rShift => simp at h
        | bitOr => simp at h
        | bitXor => simp at h
        | bitAnd => simp at h
  | unaryOp op e ih =>
    intro n h
    cases op with
    | usub =>
      unfold intDenote at h
      cases he : intDenote e with
      | none => simp [he] at h
      | some a =>
        have : n = -a := by simpa [he] using h.symm
        subst this
        obtain ⟨i1, i2⟩ := ih a he
        constructor
        · intro hp
          have := i1 (by simpa [powWithinBound] using hp)
          rw [evalRaw, this]
          rfl
        · rcases i2 with e1 | e1
          · left; rw [evalRaw, e1]; rfl
          · right; rw [evalRaw, e1]
    | uadd => simp [intDenote] at h
    | not => simp [intDenote] at h
    | invert => simp [intDenote] at h
  | other k => intro n h; simp [intDenote] at h

/-! ## `int()` and `islice` -/

theorem isliceStop_neg {n : Int} (h : n < 0) : isliceStop n = .raise .ValueError := by
  simp [isliceStop, h]

theorem isliceStop_big {n : Int} (h : (maxsize : Int) < n) : isliceStop n = .raise .ValueError := by
  simp [isliceStop, h]

theorem isliceStop_ok {n : Int} (h0 : 0 ≤ n) (h1 : n ≤ (maxsize : Int)) : isliceStop n = .amount n.toNat := by
  have : ¬ (n < 0 ∨ (maxsize : Int) < n) := by omega
  simp [isliceStop, this]

theorem isliceStop_amount {n : Int} {k : Nat} (h : isliceStop n = .amount k) : n = (k : Int) ∧ k ≤ maxsize := by
  unfold isliceStop at h
  split at h
  · simp at h
  · have hk : n.toNat = k := by simpa using h
    omega

/-- `eval_expr` of the model lets three exception classes out: `ValueError` (its own re-labelling of `TypeError` /
`KeyError`), `ZeroDivisionError`, `OverflowError`. -/
theorem evalExpr_raise_class {e : Ast} {x : Exc} (h : evalExpr e = .raise x) :
    x = .ValueError ∨ x = .ZeroDivisionError ∨ x = .OverflowError := by
  unfold evalExpr evalExprWith at h
  rcases evalRaw_origin pyOps e with ⟨v, hv⟩ | h1 | h1 | h1
  · rw [hv] at h; simp [wrap] at h
  · rw [h1] at h; simp [wrap] at h; exact Or.inl h.symm
  · rw [h1] at h; simp [wrap] at h; exact Or.inl h.symm
  · cases hr : evalRaw pyOps e with
    | ok v => rw [hr] at h; simp [wrap] at h
    | untracked => rw [hr] at h; simp [wrap] at h
    | raise y =>
      rw [hr] at h
      rcases pyOps_opCall_raise h1 hr with hy | hy | hy <;> subst hy <;> simp [wrap] at h
      · exact Or.inl h.symm
      · exact Or.inr (Or.inl h.symm)
      · exact Or.inr (Or.inr h.symm)

/-- Lean's `Int.fdiv` / `Int.fmod` are Python's `//` and `%`: `a = b·q + r` with `0 ≤ r < b` or `b < r ≤ 0`. -/
theorem fdiv_fmod_floor (a b : Int) (hb : b ≠ 0) :
    a = b * Int.fdiv a b + Int.fmod a b ∧ (0 < b → 0 ≤ Int.fmod a b ∧ Int.fmod a b < b) ∧
    (b < 0 → b < Int.fmod a b ∧ Int.fmod a b ≤ 0) := by
  refine ⟨(Int.mul_fdiv_add_fmod a b).symm, fun h => ⟨Int.fmod_nonneg_of_pos a h, Int.fmod_lt_of_pos a h⟩, fun h => ?_⟩
  rw [Int.fmod_eq_emod]
  have hnn : ¬ (0 ≤ b) := by omega
  by_cases hd : b ∣ a
  · have : a % b = 0 := Int.emod_eq_zero_of_dvd hd
    simp [hd, this]
    omega
  · have h1 := Int.emod_nonneg a hb
    have h2 := Int.emod_lt a hb
    have h3 : a % b ≠ 0 := fun h0 => hd (Int.dvd_of_emod_eq_zero h0)
    simp only [hnn, hd, or_self, if_false]
    omega

theorem tdiv_eq_zero_iff (a : Int) {d : Nat} (hd : 0 < d) : Int.tdiv a d = 0 ↔ a.natAbs < d := by
  have h : (Int.tdiv a d).natAbs = a.natAbs / d := by
    have := Int.natAbs_tdiv a d
    rw [this]
    rfl
  constructor
  · intro h0
    rw [h0] at h
    have h' : a.natAbs / d = 0 := by simpa using h.symm
    rcases Nat.div_eq_zero_iff.1 h' with h1 | h1
    · omega
    · exact h1
  · intro hlt
    have h' : a.natAbs / d = 0 := Nat.div_eq_zero_iff.2 (Or.inr hlt)
    rw [h'] at h
    omega

theorem finRat_den_pos (m e : Int) : 0 < (finRat m e).2 := by
  unfold finRat
  split
  · simp
  · exact Nat.pow_pos (by decide)

/-! ## `str(n_jobs)` rendered, substituted, lexed and parsed back: the common texts for every `n_jobs` -/

theorem digitChar_facts : ∀ d, d < 10 → isDigit (digitChar d) = true ∧ hexVal? (digitChar d) = some d ∧
    (digitChar d == '_') = false ∧ (digitChar d).toNat ≤ 126 ∧ 32 ≤ (digitChar d).toNat ∧
    (digitChar d == ' ') = false ∧ (digitChar d == '\t') = false ∧ (digitChar d == '#') = false ∧
    isAlpha (digitChar d) = false ∧ (d ≠ 0 → (digitChar d == '0') = false) := by decide

/-- The decimal digits `digitsFuel` produces, as numbers. -/
def digs : Nat → Nat → List Nat → List Nat
  | 0, _, acc => acc
  | f + 1, n, acc => if n / 10 = 0 then n % 10 :: acc else digs f (n / 10) (n % 10 :: acc)

theorem digitsFuel_eq_digs : ∀ (f n : Nat) (acc : List Nat),
    digitsFuel f n (acc.map digitChar) = (digs f n acc).map digitChar := by
  intro f
  induction f with
  | zero => intro n acc; rfl
  | succ f ih =>
    intro n acc
    unfold digitsFuel digs
    by_cases h : n / 10 = 0
    · simp [h]
    · simp only [h, if_false]
      exact ih (n / 10) (n % 10 :: acc)

def decVal (l : List Nat) : Nat := l.foldl (fun v d => v * 10 + d) 0

theorem decVal_snoc (l : List Nat) (d : Nat) : decVal (l ++ [d]) = decVal l * 10 + d := by
  simp [decVal, List.foldl_append]

/-- `digs` prepends the decimal digits of `n`: non-empty, all below 10, value `n`, no leading zero for `n > 0`. -/
theorem digs_spec : ∀ (f n : Nat) (acc : List Nat), n < 10 ^ (f + 1) →
    ∃ ds, digs (f + 1) n acc = ds ++ acc ∧ decVal ds = n ∧ (∀ d ∈ ds, d < 10) ∧ ds ≠ [] ∧
      (0 < n → ds.head? ≠ some 0) ∧ ds.length ≤ f + 1 := by
  intro f
  induction f with
  | zero =>
    intro n acc h
    have h10 : n < 10 := by simpa using h
    have h0 : n / 10 = 0 := by omega
    refine ⟨[n % 10], by simp [digs, h0], ?_, ?_, by simp, ?_, by simp⟩
    · simp [decVal]; omega
    · intro d hd; simp at hd; omega
    · intro hp; simp; omega
  | succ f ih =>
    intro n acc h
    unfold digs
    by_cases h0 : n / 10 = 0
    · refine ⟨[n % 10], by simp [h0], ?_, ?_, by simp, ?_, by simp⟩
      · simp [decVal]; omega
      · intro d hd; simp at hd; omega
      · intro hp; simp; omega
    · simp only [h0, if_false]
      have hlt : n / 10 < 10 ^ (f + 1) := by
        rw [Nat.pow_succ] at h
        omega
      obtain ⟨ds, e1, e2, e3, e4, e5, e6⟩ := ih (n / 10) (n % 10 :: acc) hlt
      refine ⟨ds ++ [n % 10], by rw [e1]; simp, ?_, ?_, by simp, ?_, by simp; omega⟩
      · rw [decVal_snoc, e2]; omega
      · intro d hd
        rcases List.mem_append.1 hd with hd | hd
        · exact e3 d hd
        · simp at hd; omega
      · intro _
        have : 0 < n / 10 := by omega
        have := e5 this
        cases ds with
        | nil => exact absurd rfl e4
        | cons x xs => simpa using this


/-- Reading back a run of decimal digits that ends the text. -/
theorem digitsTail_digits : ∀ (ds : List Nat) (v k : Nat) (need : Bool), (∀ d ∈ ds, d < 10) → ds ≠ [] →
    digitsTail 10 (ds.map digitChar) v k need =
      some (ds.foldl (fun v d => v * 10 + d) v, k + ds.length, []) := by
  intro ds
  induction ds with
  | nil => intro v k need _ h; exact absurd rfl h
  | cons d ds ih =>
    intro v k need hall _
    have hd : d < 10 := hall d (by simp)
    obtain ⟨_, f2, f3, _⟩ := digitChar_facts d hd
    simp only [List.map_cons, digitsTail, f3, f2]
    simp only [Bool.false_eq_true, if_false, hd, if_true]
    cases ds with
    | nil => simp [digitsTail]
    | cons d' ds' =>
      rw [ih (v * 10 + d) (k + 1) false (fun x hx => hall x (by simp [hx])) (by simp)]
      simp [Nat.add_assoc, Nat.add_comm]

/-- `str(n)` for a natural number: its decimal digits. -/
theorem strInt_nat (n : Nat) : ∃ ds : List Nat, strInt (n : Int) = ds.map digitChar ∧ decVal ds = n ∧
    (∀ d ∈ ds, d < 10) ∧ ds ≠ [] ∧ (0 < n → ds.head? ≠ some 0) ∧ ds.length ≤ n.log2 + 2 := by
  have hlt : n < 10 ^ (n.log2 + 1 + 1) := by
    have h1 : n < 2 ^ (n.log2 + 1) := Nat.lt_log2_self
    have h2 : 2 ^ (n.log2 + 1) ≤ 10 ^ (n.log2 + 1) := Nat.pow_le_pow_left (by decide) _
    have h3 : 10 ^ (n.log2 + 1) ≤ 10 ^ (n.log2 + 1 + 1) := Nat.pow_le_pow_right (by decide) (by omega)
    omega
  obtain ⟨ds, e1, e2, e3, e4, e5, e6⟩ := digs_spec (n.log2 + 1) n [] hlt
  refine ⟨ds, ?_, e2, e3, e4, e5, by omega⟩
  unfold strInt
  have hn : ¬ ((n : Int) < 0) := by omega
  simp only [hn, if_false, Int.natAbs_natCast]
  have := digitsFuel_eq_digs (n.log2 + 2) n []
  simp only [List.map_nil] at this
  rw [this, e1]
  simp

/-- Lexing the rendered number at the end of a text gives back the integer. -/
theorem lexNumber_digits (ds : List Nat) (hall : ∀ d ∈ ds, d < 10) (hne : ds ≠ []) (hnz : ds.head? ≠ some 0) :
    ∀ c cs, ds.map digitChar = c :: cs → lexNumber c cs = .ok (.num (.int (decVal ds)), []) := by
  intro c cs hcs
  cases ds with
  | nil => exact absurd rfl hne
  | cons d ds' =>
    have hd : d < 10 := hall d (by simp)
    have hd0 : d ≠ 0 := fun h => hnz (by simp [h])
    obtain ⟨_, _, _, _, _, _, _, _, _, f10⟩ := digitChar_facts d hd
    simp only [List.map_cons, List.cons.injEq] at hcs
    obtain ⟨hc, hcs'⟩ := hcs
    unfold lexNumber
    rw [← hc, f10 hd0]
    simp only [Bool.false_eq_true, if_false]
    have := digitsTail_digits (d :: ds') 0 0 true hall hne
    simp only [List.map_cons] at this
    rw [← hcs', this]
    simp [lexAfterInt, endOfNumber, decVal]


theorem lexFuel_digits (ds : List Nat) (hall : ∀ d ∈ ds, d < 10) (hne : ds ≠ []) (hnz : ds.head? ≠ some 0)
    (f : Nat) (acc : List Tok) :
    lexFuel (f + 2) (ds.map digitChar) acc = .ok ((Tok.num (.int (decVal ds)) :: acc).reverse) := by
  cases hds : ds.map digitChar with
  | nil => simp at hds; exact absurd hds hne
  | cons c cs =>
    have hln := lexNumber_digits ds hall hne hnz c cs hds
    cases ds with
    | nil => exact absurd rfl hne
    | cons d ds' =>
      have hd : d < 10 := hall d (by simp)
      obtain ⟨f1, _, _, _, _, f6, f7, f8, _, _⟩ := digitChar_facts d hd
      simp only [List.map_cons, List.cons.injEq] at hds
      obtain ⟨hc, _⟩ := hds
      subst hc
      simp only [lexFuel, f6, f7, f8, f1, Bool.or_self, Bool.false_eq_true, if_false, if_true, hln]

theorem lex_digits (ds : List Nat) (hall : ∀ d ∈ ds, d < 10) (hne : ds ≠ []) (hnz : ds.head? ≠ some 0) :
    lex (ds.map digitChar) = .ok [.num (.int (decVal ds))] := by
  obtain ⟨k, hk⟩ : ∃ k, ds.length = k + 1 := by
    cases ds with
    | nil => exact absurd rfl hne
    | cons d ds' => exact ⟨ds'.length, rfl⟩
  unfold lex
  rw [List.length_map, hk]
  exact lexFuel_digits ds hall hne hnz k []

theorem lexFuel_star (f : Nat) (c : Char) (cs : Text) (acc : List Tok) (hc : c ≠ '*') :
    lexFuel (f + 1) ('*' :: c :: cs) acc = lexFuel f (c :: cs) (.bin .mult :: acc) := by
  rw [lexFuel]
  have h1 : ('*' == ' ' || '*' == '\t') = false := by decide
  have h2 : ('*' == '#') = false := by decide
  have h3 : isDigit '*' = false := by decide
  have h4 : isAlpha '*' = false := by decide
  simp only [h1, h2, h3, h4, Bool.false_eq_true, if_false]
  all_goals simp_all

theorem lexFuel_space (f : Nat) (cs : Text) (acc : List Tok) :
    lexFuel (f + 1) (' ' :: cs) acc = lexFuel f cs acc := by
  rw [lexFuel]
  simp
  all_goals (intros; simp_all)

theorem lexNumber_two (c : Char) (rest : Text) (hc : c = '*' ∨ c = ' ') :
    lexNumber '2' (c :: rest) = .ok (.num (.int 2), c :: rest) := by
  rcases hc with hc | hc <;> subst hc <;>
    simp [lexNumber, digitsTail, hexVal?, isDigit, lexAfterInt, endOfNumber, isIdent, isAlpha]

theorem lexFuel_two (f : Nat) (c : Char) (rest : Text) (acc : List Tok) (hc : c = '*' ∨ c = ' ') :
    lexFuel (f + 1) ('2' :: c :: rest) acc = lexFuel f (c :: rest) (.num (.int 2) :: acc) := by
  rw [lexFuel]
  have h1 : ('2' == ' ' || '2' == '\t') = false := by decide
  have h2 : ('2' == '#') = false := by decide
  have h3 : isDigit '2' = true := by decide
  simp only [h1, h2, h3, Bool.false_eq_true, if_false, if_true, lexNumber_two c rest hc]
  all_goals (intros; simp_all)

theorem digitChar_ne_star : ∀ d, d < 10 → digitChar d ≠ '*' := by decide

theorem lex_two_times (ds : List Nat) (hall : ∀ d ∈ ds, d < 10) (hne : ds ≠ []) (hnz : ds.head? ≠ some 0) :
    lex ('2' :: '*' :: ds.map digitChar) = .ok [.num (.int 2), .bin .mult, .num (.int (decVal ds))] := by
  have h := fun k => lexFuel_digits ds hall hne hnz k [.bin .mult, .num (.int 2)]
  cases ds with
  | nil => exact absurd rfl hne
  | cons d ds' =>
    have hstar := digitChar_ne_star d (hall d (by simp))
    unfold lex
    simp only [List.length_cons, List.length_map, List.map_cons] at h ⊢
    rw [lexFuel_two _ _ _ _ (Or.inl rfl), lexFuel_star _ _ _ _ hstar, h ds'.length]
    rfl

theorem lex_two_times_spaced (ds : List Nat) (hall : ∀ d ∈ ds, d < 10) (hne : ds ≠ []) (hnz : ds.head? ≠ some 0) :
    lex ('2' :: ' ' :: '*' :: ' ' :: ds.map digitChar) =
      .ok [.num (.int 2), .bin .mult, .num (.int (decVal ds))] := by
  have h := fun k => lexFuel_digits ds hall hne hnz k [.bin .mult, .num (.int 2)]
  cases ds with
  | nil => exact absurd rfl hne
  | cons d ds' =>
    unfold lex
    simp only [List.length_cons, List.length_map, List.map_cons] at h ⊢
    rw [lexFuel_two _ _ _ _ (Or.inr rfl), lexFuel_space, lexFuel_star _ _ _ _ (by decide), lexFuel_space,
      h ds'.length]
    rfl


theorem digitChar_plain : ∀ d, d < 10 → digitChar d ≠ ' ' ∧ digitChar d ≠ '\t' ∧
    (126 < (digitChar d).toNat || ((digitChar d).toNat < 32 && digitChar d != '\t')) = false := by decide

/-- `parse` on a text that the lexer and the token parser accept. -/
theorem parse_of_lex {s : Text} {toks : List Tok} {e : Ast} (hlen : s.length ≤ maxTextLen)
    (hplain : s.any (fun c => (126 < c.toNat) || (c.toNat < 32 && c != '\t')) = false)
    (hfirst : ∀ c cs, s = c :: cs → c ≠ ' ' ∧ c ≠ '\t') (hlex : lex s = .ok toks)
    (hp : parseLevel (16 * (toks.length + 2)) 0 toks = .ok (e, [])) : parse s = .ok e := by
  unfold parse
  have h1 : ¬ (maxTextLen < s.length) := by omega
  simp only [h1, if_false, hplain, Bool.false_eq_true]
  split
  · rename_i r; exact absurd rfl (hfirst ' ' r rfl).1
  · rename_i r; exact absurd rfl (hfirst '\t' r rfl).2
  · simp only [hlex, hp]

theorem digits_plain (ds : List Nat) (hall : ∀ d ∈ ds, d < 10) :
    (ds.map digitChar).any (fun c => (126 < c.toNat) || (c.toNat < 32 && c != '\t')) = false := by
  rw [List.any_eq_false]
  intro c hc
  obtain ⟨d, hd, rfl⟩ := List.mem_map.1 hc
  simp [(digitChar_plain d (hall d hd)).2.2]

theorem log2_le_of_le_maxsize {n : Nat} (h : n ≤ maxsize) : n.log2 ≤ 62 := by
  by_cases h0 : n = 0
  · subst h0; decide
  · have : n.log2 < 63 := (Nat.log2_lt h0).2 (by unfold maxsize at h; omega)
    omega

/-- `'n_jobs'`, `'2*n_jobs'` and the default `'2 * n_jobs'` mean what they say, for EVERY `n_jobs ≥ 1` (up to
`sys.maxsize`): the text is substituted, lexed, parsed and evaluated to `n_jobs`, resp. `2·n_jobs`. -/
theorem resolve_common_texts (n : Nat) (h1 : 1 ≤ n) :
    (n ≤ maxsize → resolvePreDispatch (.str "n_jobs".toList) n = .amount n) ∧
    (2 * n ≤ maxsize → resolvePreDispatch (.str "2*n_jobs".toList) n = .amount (2 * n)) ∧
    (2 * n ≤ maxsize → resolvePreDispatch (.str "2 * n_jobs".toList) n = .amount (2 * n)) := by
  obtain ⟨ds, e1, e2, e3, e4, e5, e6⟩ := strInt_nat n
  have e5' : ds.head? ≠ some 0 := e5 (by omega)
  have hval : ∀ k : Nat, k ≤ maxsize → isliceStop (k : Int) = .amount k := fun k hk => by
    rw [isliceStop_ok (by omega) (by omega)]; simp
  have hds : ∀ cs : Text, ds.map digitChar ≠ ' ' :: cs ∧ ds.map digitChar ≠ '\t' :: cs := by
    intro cs
    cases ds with
    | nil => exact absurd rfl e4
    | cons d ds' =>
      have := digitChar_plain d (e3 d (by simp))
      constructor <;> intro h <;> simp at h
      · exact this.1 h.1
      · exact this.2.1 h.1
  refine ⟨fun hm => ?_, fun hm => ?_, fun hm => ?_⟩
  · have hlen : n.log2 ≤ 62 := log2_le_of_le_maxsize hm
    have hsub : substitute "n_jobs".toList (n : Int) = ds.map digitChar := by
      simp [substitute, replaceGo, nJobsPat, List.isPrefixOf, e1]
    have hparse : parse (ds.map digitChar) = .ok (.const (.int (decVal ds))) := by
      refine parse_of_lex (by simp [maxTextLen]; omega) (digits_plain ds e3) ?_ (lex_digits ds e3 e4 e5') rfl
      intro c cs h
      exact ⟨fun hc => (hds cs).1 (hc ▸ h), fun hc => (hds cs).2 (hc ▸ h)⟩
    have hne : "n_jobs".toList ≠ allText := by decide
    simp only [resolvePreDispatch, hne, if_false, hsub, hparse]
    rw [e2]
    exact hval n hm
  · have hlen : n.log2 ≤ 62 := log2_le_of_le_maxsize (by omega)
    have hsub : substitute "2*n_jobs".toList (n : Int) = '2' :: '*' :: ds.map digitChar := by
      simp [substitute, replaceGo, nJobsPat, List.isPrefixOf, e1]
    have hparse : parse ('2' :: '*' :: ds.map digitChar) =
        .ok (.binOp .mult (.const (.int 2)) (.const (.int (decVal ds)))) := by
      refine parse_of_lex (by simp [maxTextLen]; omega) ?_ ?_ (lex_two_times ds e3 e4 e5') rfl
      · simp [List.any_cons, digits_plain ds e3]
      · intro c cs h
        simp at h
        rw [← h.1]
        decide
    have hne : "2*n_jobs".toList ≠ allText := by decide
    simp only [resolvePreDispatch, hne, if_false, hsub, hparse]
    rw [e2]
    have := hval (2 * n) hm
    simpa [resolveAst, evalExpr, evalExprWith, evalRaw, binFn?, pyOps, applyVal, isCplx, num?, applyNum, wrap,
      resolveVal, resolveInt, intOf] using this
  · have hlen : n.log2 ≤ 62 := log2_le_of_le_maxsize (by omega)
    have hsub : substitute "2 * n_jobs".toList (n : Int) = '2' :: ' ' :: '*' :: ' ' :: ds.map digitChar := by
      simp [substitute, replaceGo, nJobsPat, List.isPrefixOf, e1]
    have hparse : parse ('2' :: ' ' :: '*' :: ' ' :: ds.map digitChar) =
        .ok (.binOp .mult (.const (.int 2)) (.const (.int (decVal ds)))) := by
      refine parse_of_lex (by simp [maxTextLen]; omega) ?_ ?_ (lex_two_times_spaced ds e3 e4 e5') rfl
      · simp [List.any_cons, digits_plain ds e3]
      · intro c cs h
        simp at h
        rw [← h.1]
        decide
    have hne : "2 * n_jobs".toList ≠ allText := by decide
    simp only [resolvePreDispatch, hne, if_false, hsub, hparse]
    rw [e2]
    have := hval (2 * n) hm
    simpa [resolveAst, evalExpr, evalExprWith, evalRaw, binFn?, pyOps, applyVal, isCplx, num?, applyNum, wrap,
      resolveVal, resolveInt, intOf] using this


/-! ## The configuration `Parallel.__call__` sets up from the user's arguments -/

/-- The M1 configuration `c` (`JoblibModel.ParallelProto.Cfg`: `nj`, `pdMode`, `pd`) is the one `Parallel.__call__`
derives from the user's `pre_dispatch` and the effective `n_jobs`: `'all'` ⇒ mode 1, otherwise `pd` is the amount
handed to `islice`; a resolution that raises (or on which the model abstains) corresponds to no configuration. -/
def UserCfg (c : JoblibModel.ParallelProto.Cfg) (pre_dispatch : PreDispatch) (n_jobs : Nat) : Prop :=
  c.nj = n_jobs ∧
    match resolvePreDispatch pre_dispatch n_jobs with
    | .all => c.pdMode = 1
    | .amount a => c.pdMode ≠ 1 ∧ c.pd = a
    | _ => False

end JoblibModel.EvalExpr
