import JoblibProofs.Lemmas.ParallelLockSeq.Old
/-!
M1L-Seq proofs, part 4 — the invariant `SeqInv` of the multi-call model: the VIEW of the running call (`view` = `clean` of
the M1L state of the running call) is a reachable state of the single-call model M1L under the configuration of that
call; every finished call ended in a reachable final state of M1L; lock discipline and call ids of the threads of
earlier calls; and what holds between two calls (`Between`).
-/
set_option linter.unusedSimpArgs false
namespace JoblibModel.ParallelLockSeq
open JoblibModel.ParallelLock

/-- The running call as a state of the single-call model. -/
def view (ss : SSt) : St := clean ss.cur

/-- A callback thread that will never touch the Parallel object again, whatever the call id. -/
def quietPc : CbPc → Bool
  | .idle | .relC | .done _ => true
  | _ => false

/-- The caller is parked before the critical section of `_reset_run_tracking` of the running call. -/
structure Between (ss : SSt) : Prop where
  eq : clean ss.cur = init
  quiet : ss.cur.aborting = true ∨ ∀ o ∈ ss.old, o.t.callId = ss.callBase → quietPc o.t.pc = true

structure SeqInv (sc : SCfg) (ss : SSt) : Prop where
  reach : MReach (curCfg sc ss) (view ss)
  outs : ∀ k o, ss.outs[k]? = some (some o) →
    ∃ b s, MReach (sc.callCfg k b) s ∧ s.pc = .done ∧ s.outcome = some o
  klen : ss.outs.length = if ss.cur.pc = .done then ss.k + 1 else ss.k
  oldLock : ∀ i, i < ss.old.length → (getOld ss i).t.pc.holding = true → ss.oldOwner = some i
  owner : ∀ i, ss.oldOwner = some i → ss.cur.pc = .resetAcq ∧ (getOld ss i).t.callId = ss.callBase
  oldIds : ∀ o ∈ ss.old, o.t.callId ≤ ss.callBase
  between : ss.cur.pc = .resetAcq → Between ss

theorem seqInv_init (sc : SCfg) : SeqInv sc sinit := by
  refine ⟨?_, ?_, ?_, ?_, ?_, ?_, ?_⟩
  · exact ⟨[], by simp [view, sinit, clean, init, run]⟩
  · intro k o h; simp [sinit] at h
  · simp [sinit, init]
  · intro i hi; simp [sinit] at hi
  · intro i h; simp [sinit] at h
  · intro o h; simp [sinit] at h
  · intro _; exact ⟨by simp [sinit, clean, init], Or.inr (by intro o h; simp [sinit] at h)⟩

/-- The call id of the object while the running call is in progress. -/
theorem SeqInv.callId {sc : SCfg} {ss : SSt} (h : SeqInv sc ss) (hok : SCfgOK sc) :
    ss.cur.callId = if ss.cur.pc = .resetAcq then 0 else 1 := by
  obtain ⟨hc, hpd⟩ := callCfg_ok hok ss.k ss.bsBase
  have hE := (h.reach.invs hc hpd).2.2.2
  have := hE.callId
  obtain ⟨f1, _, _, f4, _⟩ := clean_frame ss.cur
  have e1 : (view ss).pc = ss.cur.pc := f1
  have e4 : (view ss).callId = ss.cur.callId := f4
  by_cases hp : ss.cur.pc = .resetAcq
  · rw [if_pos (by rw [e1]; exact hp), e4] at this
    rw [if_pos hp]; exact this
  · rw [if_neg (by rw [e1]; exact hp), e4] at this
    rw [if_neg hp]; exact this

/-- A thread of an earlier call whose call id differs from the object's does not own the lock. -/
theorem SeqInv.stale_not_holding {sc : SCfg} {ss : SSt} (h : SeqInv sc ss) (hok : SCfgOK sc) {i : Nat}
    (hi : i < ss.old.length) (hst : ss.callBase + ss.cur.callId ≠ (getOld ss i).t.callId) :
    (getOld ss i).t.pc.holding = false := by
  cases hh : (getOld ss i).t.pc.holding with
  | false => rfl
  | true =>
    exfalso
    obtain ⟨hp, hc⟩ := h.owner i (h.oldLock i hi hh)
    have := h.callId hok
    rw [if_pos hp] at this
    rw [this, hc] at hst
    exact hst rfl

/-- A thread of an earlier call whose call id still is the object's: the caller has not yet drawn a new one. -/
theorem SeqInv.fresh_between {sc : SCfg} {ss : SSt} (h : SeqInv sc ss) (hok : SCfgOK sc) {i : Nat}
    (hi : i < ss.old.length) (hst : ss.callBase + ss.cur.callId = (getOld ss i).t.callId) :
    ss.cur.pc = .resetAcq ∧ (getOld ss i).t.callId = ss.callBase := by
  have hle := h.oldIds _ (getOld_mem ss i hi)
  have hc := h.callId hok
  by_cases hp : ss.cur.pc = .resetAcq
  · rw [if_pos hp] at hc
    exact ⟨hp, by rw [← hst, hc]; rfl⟩
  · rw [if_neg hp] at hc
    omega

/-- The generic step of a thread of an earlier call: one tracker of `old` changes (same call id), with the matching
transfer of the lock. -/
theorem SeqInv.oldStep {sc : SCfg} {ss ss' : SSt} (h : SeqInv sc ss) {i : Nat} (hi : i < ss.old.length) {t' : Tracker}
    (hold : ss'.old = ss.old.set i { getOld ss i with t := t' })
    (hcid : t'.callId = (getOld ss i).t.callId)
    (hk : ss'.k = ss.k) (houts : ss'.outs = ss.outs) (hcb : ss'.callBase = ss.callBase)
    (hpc : ss'.cur.pc = ss.cur.pc)
    (hreach : MReach (curCfg sc ss') (view ss'))
    (hown : ss'.oldOwner = if t'.pc.holding then some i else if (getOld ss i).t.pc.holding then none else ss.oldOwner)
    (hfree : t'.pc.holding = true → (getOld ss i).t.pc.holding = false → ss.oldOwner = none)
    (hfresh : t'.pc.holding = true → ss.cur.pc = .resetAcq ∧ t'.callId = ss.callBase)
    (hbtw : ss.cur.pc = .resetAcq → Between ss') : SeqInv sc ss' := by
  have hlen : ss'.old.length = ss.old.length := by rw [hold]; simp
  have hget : ∀ j, getOld ss' j = if j = i then { getOld ss i with t := t' } else getOld ss j := by
    intro j
    have := getOld_setOld ss i j t'
    simp only [getOld, setOld] at this
    simp only [getOld, hold]
    rw [this]
    simp [hi]
  refine ⟨hreach, ?_, ?_, ?_, ?_, ?_, ?_⟩
  · rw [houts]; exact h.outs
  · rw [houts, hk, hpc]; exact h.klen
  · intro j hj hh
    rw [hget] at hh
    by_cases hji : j = i
    · subst hji
      simp only [if_true] at hh
      rw [hown, hh]; rfl
    · simp only [hji, if_false] at hh
      rw [hlen] at hj
      have hoj := h.oldLock j hj hh
      rw [hown]
      cases ht' : t'.pc.holding with
      | true =>
        exfalso
        cases hoi : (getOld ss i).t.pc.holding with
        | true =>
          have := h.oldLock i hi hoi
          rw [hoj] at this
          exact hji (Option.some.inj this)
        | false =>
          have := hfree ht' hoi
          rw [hoj] at this; cases this
      | false =>
        cases hoi : (getOld ss i).t.pc.holding with
        | true =>
          exfalso
          have := h.oldLock i hi hoi
          rw [hoj] at this
          exact hji (Option.some.inj this)
        | false => simpa using hoj
  · intro j hj
    rw [hown] at hj
    rw [hpc, hcb, hget]
    cases ht' : t'.pc.holding with
    | true =>
      simp only [ht', if_true] at hj
      have hji : j = i := (Option.some.inj hj).symm
      subst hji
      simp only [if_true]
      exact hfresh ht'
    | false =>
      simp only [ht', Bool.false_eq_true, if_false] at hj
      cases hoi : (getOld ss i).t.pc.holding with
      | true => simp [hoi] at hj
      | false =>
        simp only [hoi, Bool.false_eq_true, if_false] at hj
        obtain ⟨k1, k2⟩ := h.owner j hj
        refine ⟨k1, ?_⟩
        by_cases hji : j = i
        · subst hji; simp only [if_true]; rw [hcid]; exact k2
        · simp only [hji, if_false]; exact k2
  · intro o ho
    rw [hold] at ho
    rw [hcb]
    rcases List.mem_or_eq_of_mem_set ho with ho | ho
    · exact h.oldIds o ho
    · subst ho
      simp only
      rw [hcid]
      exact h.oldIds _ (getOld_mem ss i hi)
  · intro hp; rw [hpc] at hp; exact hbtw hp

end JoblibModel.ParallelLockSeq
