import JoblibProofs.Lemmas.ParallelLockSeq.EndInv
import JoblibModel.ParallelLockSeq
/-!
M1L-Seq proofs, part 2 — the VIEW of the running call as a state of the single-call model M1L.  A call of a sequence
starts from an object that still carries what the earlier calls left in `n_dispatched_tasks`, `n_completed_tasks`,
`_exception`, `_aborting`, `_aborted`, `_ready_batches`, `_original_iterator`, the pre-dispatch islice and `_iterating`;
`clean` replaces, at each program point of the set-up of `__call__`, exactly the fields that the set-up has not yet
rewritten by their values in a fresh object.  `clean` commutes with the caller's steps (each such field is overwritten
before it is read) and is the identity after the set-up.
-/
set_option linter.unusedSimpArgs false
namespace JoblibModel.ParallelLockSeq
open JoblibModel.ParallelLock

/-- The fields not yet rewritten by the set-up of `__call__` at the caller's program point, as in a fresh object. -/
def clean (s : St) : St :=
  match s.pc with
  | .resetAcq | .resetRel | .wNDisp =>
    { s with nDispTasks := 0, nCompleted := 0, exception := false, aborting := false, aborted := false, ready := [],
             origAlive := false, preLeft := none, iterating := false }
  | .wNComp =>
    { s with nCompleted := 0, exception := false, aborting := false, aborted := false, ready := [],
             origAlive := false, preLeft := none, iterating := false }
  | .wExc0 =>
    { s with exception := false, aborting := false, aborted := false, ready := [], origAlive := false, preLeft := none,
             iterating := false }
  | .wAbort0 =>
    { s with aborting := false, aborted := false, ready := [], origAlive := false, preLeft := none, iterating := false }
  | .readyAcq => { s with ready := [], origAlive := false, preLeft := none, iterating := false }
  | .readyRel | .wOrig => { s with origAlive := false, preLeft := none, iterating := false }
  | .wIter0 => { s with iterating := false }
  | _ => s

theorem clean_of_not_pre {s : St} (h : s.pc.preDispatch = false) : clean s = s := by
  unfold clean
  cases hpc : s.pc <;> simp_all [Pc.preDispatch]

theorem clean_frame (s : St) :
    (clean s).pc = s.pc ∧ (clean s).lockOwner = s.lockOwner ∧ (clean s).trk = s.trk ∧ (clean s).callId = s.callId ∧
    (clean s).outcome = s.outcome ∧ (clean s).jobs = s.jobs ∧ (clean s).running = s.running ∧ (clean s).log = s.log ∧
    (clean s).out = s.out ∧ (clean s).bsI = s.bsI ∧ (clean s).srcPos = s.srcPos ∧ (clean s).srcDead = s.srcDead ∧
    (clean s).srcRaised = s.srcRaised ∧ (clean s).nPop = s.nPop := by
  unfold clean
  split <;> simp

theorem afterDispatch_not_pre (c : Cfg) (k : DK) (r : Bool) : (afterDispatch c k r).preDispatch = false := by
  cases k <;> cases r <;> simp only [afterDispatch] <;> (try split) <;> rfl

theorem tailNext_not_pre (c : Cfg) (s : St) (rem : List Nat) : (tailNext c s rem).pc.preDispatch = false := by
  cases rem <;> simp [tailNext, finishRet, Pc.preDispatch]

/-- The caller never goes back into the set-up. -/
theorem stepCaller_pre (c : Cfg) (s : St) (h : (stepCaller c s).pc.preDispatch = true) : s.pc.preDispatch = true := by
  cases hpc : s.pc with
  | dPre k =>
    exfalso; revert h; unfold stepCaller; simp only [hpc]
    split
    · simp [afterDispatch_not_pre]
    · split <;> simp [Pc.preDispatch]
  | dRel k r => exfalso; revert h; unfold stepCaller; simp [hpc, afterDispatch_not_pre]
  | refRel e => cases e <;> (exfalso; revert h; unfold stepCaller; simp [hpc, Pc.preDispatch])
  | finJobsW e rem =>
    exfalso; revert h; unfold stepCaller; simp only [hpc]
    cases e with
    | none => intro h; rw [tailNext_not_pre] at h; cases h
    | some e => simp [finishRaise, ev, Pc.preDispatch]
  | tailStatus i rem =>
    exfalso; revert h; unfold stepCaller; simp only [hpc]
    split
    · simp [finishRaise, ev, Pc.preDispatch]
    · intro h; rw [tailNext_not_pre] at h; cases h
  | _ =>
    simp [Pc.preDispatch] <;>
    (revert h; unfold stepCaller; simp only [hpc]; (repeat' split) <;>
      simp [Pc.preDispatch, finishRaise, ev, doSubmit, setCb, setTrk, deliverVals, dropParked])

/-- Every field the set-up rewrites is rewritten before it is read: `clean` commutes with the caller's steps. -/
theorem clean_stepCaller (c : Cfg) (s : St) (h0 : s.pc ≠ .resetAcq) :
    clean (stepCaller c s) = stepCaller c (clean s) := by
  by_cases hp : s.pc.preDispatch = true
  · cases hpc : s.pc with
    | wOrig =>
      unfold stepCaller clean; simp only [hpc]
      by_cases hm : (c.pdMode == 1) = true <;> simp [hm]
    | _ => simp [hpc, Pc.preDispatch] at hp h0 <;> (unfold stepCaller clean; simp [hpc])
  · have hp' : s.pc.preDispatch = false := by simpa using hp
    rw [clean_of_not_pre hp']
    apply clean_of_not_pre
    cases hq : (stepCaller c s).pc.preDispatch with
    | false => rfl
    | true => rw [stepCaller_pre c s hq] at hp'; cases hp'

end JoblibModel.ParallelLockSeq
