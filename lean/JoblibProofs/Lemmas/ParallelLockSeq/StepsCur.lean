import JoblibProofs.Lemmas.ParallelLockSeq.StepsOld
/-!
M1L-Seq proofs, part 6 — steps of the RUNNING call: callback threads and completions of its batches (they are the M1L
steps on `cur`), and the caller's step including the call switch.  Each preserves `SeqInv`; in particular the view of
the running call moves by the corresponding M1L step (`view_caller_step`).
-/
set_option linter.unusedSimpArgs false
namespace JoblibModel.ParallelLockSeq
open JoblibModel.ParallelLock

theorem stepCaller_pc_ne_resetAcq (c : Cfg) (s : St) : (stepCaller c s).pc ≠ .resetAcq := by
  intro h
  have hpre : (stepCaller c s).pc.preDispatch = true := by rw [h]; rfl
  have hp := stepCaller_pre c s hpre
  revert h
  cases hpc : s.pc <;> simp [hpc, Pc.preDispatch] at hp <;>
    (unfold stepCaller; simp only [hpc]; (repeat' split) <;> simp [finishRaise, ev])

/-- `clean` commutes with the first step of a call as well, when `_running` is False. -/
theorem clean_stepCaller_reset (c : Cfg) (s : St) (h0 : s.pc = .resetAcq) (hr : s.running = false) :
    clean (stepCaller c s) = stepCaller c (clean s) := by
  unfold stepCaller clean
  simp [h0, hr]

theorem callerEnabled_clean (s : St) : callerEnabled (clean s) = callerEnabled s := by
  obtain ⟨f1, f2, _⟩ := clean_frame s
  unfold callerEnabled
  rw [f1, f2]

/-- In the set-up of a call there are no trackers of that call yet. -/
theorem SeqInv.pre_no_trk {sc : SCfg} {ss : SSt} (h : SeqInv sc ss) (hok : SCfgOK sc)
    (hp : ss.cur.pc.preDispatch = true) : ss.cur.trk = [] := by
  obtain ⟨hc, hpd⟩ := callCfg_ok hok ss.k ss.bsBase
  have hI := (h.reach.invs hc hpd).1
  obtain ⟨f1, _, f3, _⟩ := clean_frame ss.cur
  have := (hI.P (by show (clean ss.cur).pc.preDispatch = true; rw [f1]; exact hp)).trk
  rw [← f3]; exact this

/-- A step of a callback thread / a completion of the running call: an M1L step on `cur` that keeps the caller's pc. -/
theorem SeqInv.curStep {sc : SCfg} {ss : SSt} (h : SeqInv sc ss) {a : Act} {cur' : St}
    (hnp : ss.cur.pc.preDispatch = false) (hst : cur' = step (curCfg sc ss) ss.cur a) (hpc : cur'.pc = ss.cur.pc) :
    SeqInv sc { ss with cur := cur' } := by
  have hne : ss.cur.pc ≠ .resetAcq := by intro e; rw [e] at hnp; cases hnp
  refine ⟨?_, h.outs, ?_, h.oldLock, ?_, h.oldIds, ?_⟩
  · have hv : view ss = ss.cur := clean_of_not_pre hnp
    have : view { ss with cur := cur' } = cur' := clean_of_not_pre (by rw [hpc]; exact hnp)
    rw [this, hst]
    have hr := h.reach
    rw [hv] at hr
    exact hr.step a
  · show ss.outs.length = if cur'.pc = .done then ss.k + 1 else ss.k
    rw [hpc]; exact h.klen
  · intro i hi
    obtain ⟨k1, k2⟩ := h.owner i hi
    exact ⟨by show cur'.pc = .resetAcq; rw [hpc]; exact k1, k2⟩
  · intro hp
    exfalso; apply hne
    rw [← hpc]; exact hp

theorem stepCur_inv {sc : SCfg} {ss : SSt} {j : Nat} (h : SeqInv sc ss) (hok : SCfgOK sc)
    (he : cbEnabledS ss j = true) : SeqInv sc { ss with cur := stepCb (curCfg sc ss) j ss.cur } := by
  have he' : cbEnabled ss.cur j = true := by
    unfold cbEnabledS at he
    simp only [Bool.and_eq_true] at he
    exact he.1
  have hnp : ss.cur.pc.preDispatch = false := by
    cases hp : ss.cur.pc.preDispatch with
    | false => rfl
    | true =>
      have := cbEnabled_lt he'
      rw [h.pre_no_trk hok hp] at this
      simp at this
  apply h.curStep (a := .thread (j + 1)) hnp
  · simp [step, he']
  · exact (stepCb_frame _ j ss.cur).1

/-- Position of a parked batch of the running call among the parked batches of that call. -/
theorem parkedIdsS_cur {ss : SSt} {k g : Nat} (hk : (parkedIdsS ss)[k]? = some g) (hg : ¬ g < ss.old.length) :
    (parkedIds ss.cur)[k - ((List.range ss.old.length).filter
      (fun i => (getOld ss i).t.pc == .parked)).length]? = some (g - ss.old.length) := by
  have hA : ∀ x ∈ (List.range ss.old.length).filter (fun i => (getOld ss i).t.pc == .parked), x < ss.old.length := by
    intro x hx
    simp only [List.mem_filter, List.mem_range] at hx
    exact hx.1
  unfold parkedIdsS at hk
  by_cases hlt : k < ((List.range ss.old.length).filter (fun i => (getOld ss i).t.pc == .parked)).length
  · rw [List.getElem?_append_left hlt] at hk
    exact absurd (hA g (List.mem_of_getElem? hk)) hg
  · rw [List.getElem?_append_right (Nat.le_of_not_lt hlt), List.getElem?_map] at hk
    cases hq : (parkedIds ss.cur)[k - ((List.range ss.old.length).filter
        (fun i => (getOld ss i).t.pc == .parked)).length]? with
    | none => rw [hq] at hk; cases hk
    | some x =>
      rw [hq] at hk
      simp only [Option.map_some, Option.some.injEq] at hk
      rw [← hk]; simp

theorem complete_not_pre {sc : SCfg} {ss : SSt} {k' i : Nat} (h : SeqInv sc ss) (hok : SCfgOK sc)
    (hk' : (parkedIds ss.cur)[k']? = some i) : ss.cur.pc.preDispatch = false := by
  cases hp : ss.cur.pc.preDispatch with
  | false => rfl
  | true =>
    have hm := List.mem_of_getElem? hk'
    simp only [parkedIds, h.pre_no_trk hok hp, List.length_nil, List.range_zero, List.filter_nil, List.not_mem_nil] at hm

theorem completeCur_inv {sc : SCfg} {ss : SSt} {k g : Nat} (h : SeqInv sc ss) (hok : SCfgOK sc)
    (hk : (parkedIdsS ss)[k]? = some g) (hg : ¬ g < ss.old.length) :
    SeqInv sc { ss with cur := complete (curCfg sc ss) (g - ss.old.length) ss.cur } := by
  have hk' := parkedIdsS_cur hk hg
  have hnp := complete_not_pre h hok hk'
  apply h.curStep (a := .complete (k - ((List.range ss.old.length).filter
      (fun i => (getOld ss i).t.pc == .parked)).length)) hnp
  · simp [step, hk']
  · simp [complete, setTrk, ev]

/-- `abort_everything` dropping the parked batches of earlier calls (the caller is not in the set-up of a call). -/
theorem dropOld_inv {sc : SCfg} {ss : SSt} (h : SeqInv sc ss) (hne : ss.cur.pc ≠ .resetAcq) : SeqInv sc (dropOld ss) := by
  have hget : ∀ i, i < ss.old.length → (getOld (dropOld ss) i).t.callId = (getOld ss i).t.callId ∧
      (getOld (dropOld ss) i).t.pc.holding = (getOld ss i).t.pc.holding := by
    intro i hi
    simp only [getOld, dropOld, List.getD_eq_getElem?_getD, List.getElem?_map, List.getElem?_eq_getElem hi,
      Option.map_some, Option.getD_some]
    split
    · rename_i hpk
      simp only [beq_iff_eq] at hpk
      exact ⟨rfl, by rw [hpk]; rfl⟩
    · exact ⟨rfl, rfl⟩
  have hlen : (dropOld ss).old.length = ss.old.length := by simp [dropOld]
  refine ⟨h.reach, h.outs, h.klen, ?_, ?_, ?_, ?_⟩
  · intro i hi hh
    rw [hlen] at hi
    rw [(hget i hi).2] at hh
    exact h.oldLock i hi hh
  · intro i hi
    exact absurd (h.owner i hi).1 hne
  · intro o ho
    simp only [dropOld, List.mem_map] at ho
    obtain ⟨o0, hm, rfl⟩ := ho
    have := h.oldIds o0 hm
    split <;> exact this
  · intro hp; exact absurd hp hne

/-- The caller's step as seen by the single-call model: the view moves by the M1L step of thread 0. -/
theorem view_caller_step {sc : SCfg} {ss : SSt} (h : SeqInv sc ss) (he : callerEnabled ss.cur = true) :
    clean (stepCaller (curCfg sc ss) ss.cur) = step (curCfg sc ss) (view ss) (.thread 0) := by
  have he' : callerEnabled (view ss) = true := by unfold view; rw [callerEnabled_clean]; exact he
  simp only [step, he', if_true]
  by_cases hp : ss.cur.pc = .resetAcq
  · have hb := h.between hp
    have hr : ss.cur.running = false := by
      have := congrArg St.running hb.eq
      rw [(clean_frame ss.cur).2.2.2.2.2.2.1] at this
      exact this
    exact clean_stepCaller_reset _ _ hp hr
  · exact clean_stepCaller _ _ hp

theorem getD_append_map_right {α β : Type} (l : List β) (m : List α) (f : α → β) (d : β) (j : Nat) (hj : j < m.length) :
    (l ++ m.map f).getD (l.length + j) d = f (m[j]) := by
  simp [List.getD_eq_getElem?_getD, List.getElem?_append_right, hj]

theorem shiftPc_holding (off : Nat) (p : CbPc) : (shiftPc off p).holding = p.holding := by
  cases p <;> rfl

theorem shiftPc_quiet (off : Nat) (p : CbPc) : quietPc (shiftPc off p) = quietPc p := by
  cases p <;> rfl

theorem stepCallerS_inv {sc : SCfg} {ss : SSt} (h : SeqInv sc ss) (hok : SCfgOK sc)
    (he : callerEnabledS ss = true) : SeqInv sc (stepCallerS sc ss) := by
  have hecur : callerEnabled ss.cur = true := by
    unfold callerEnabledS at he; simp only [Bool.and_eq_true] at he; exact he.1
  have hnd : ss.cur.pc ≠ .done := by
    intro e; simp [callerEnabled, e] at hecur
  have honone : ss.oldOwner = none := by
    cases ho : ss.oldOwner with
    | none => rfl
    | some i =>
      have hp := (h.owner i ho).1
      unfold callerEnabledS at he
      simp [hp, Pc.isAcq, ho] at he
  -- `abort_everything` first
  have key : ∀ ssd : SSt, SeqInv sc ssd → ssd.cur = ss.cur → ssd.k = ss.k → ssd.bsBase = ss.bsBase →
      ssd.oldOwner = none → SeqInv sc (switchCall sc { ssd with cur := stepCaller (curCfg sc ss) ssd.cur }) := by
    intro ssd hd e1 e2 e3 e4
    have ecfg : curCfg sc ssd = curCfg sc ss := by simp [curCfg, e2, e3]
    have hR : MReach (curCfg sc ss) (clean (stepCaller (curCfg sc ss) ssd.cur)) := by
      rw [e1, view_caller_step h hecur]
      exact h.reach.step _
    obtain ⟨hc, hpd⟩ := callCfg_ok hok ss.k ss.bsBase
    have hne1 : (stepCaller (curCfg sc ss) ssd.cur).pc ≠ .resetAcq := stepCaller_pc_ne_resetAcq _ _
    generalize hs1 : stepCaller (curCfg sc ss) ssd.cur = s1 at hR hne1
    have hklen : ssd.outs.length = ssd.k := by
      have := hd.klen
      rw [e1, if_neg hnd] at this
      exact this
    unfold switchCall
    simp only
    by_cases hdone : s1.pc = .done
    · -- the call has finished
      have hnp1 : s1.pc.preDispatch = false := by rw [hdone]; rfl
      rw [clean_of_not_pre hnp1] at hR
      obtain ⟨hI, hI2, hI3, hE⟩ := hR.invs hc hpd
      obtain ⟨hjobs, hrun, hq⟩ := hE.fin (by rw [hdone]; rfl)
      have hcid1 : s1.callId = 1 := by
        have := hE.callId
        rw [if_neg (by rw [hdone]; intro e; cases e)] at this
        exact this
      have houts : ∀ k o, (ssd.outs ++ [s1.outcome])[k]? = some (some o) →
          ∃ b s, MReach (sc.callCfg k b) s ∧ s.pc = .done ∧ s.outcome = some o := by
        intro k o hk
        by_cases hlt : k < ssd.outs.length
        · rw [List.getElem?_append_left hlt] at hk
          exact hd.outs k o hk
        · have hge := Nat.le_of_not_lt hlt
          rw [List.getElem?_append_right hge] at hk
          have hk0 : k - ssd.outs.length = 0 := by
            cases hz : k - ssd.outs.length with
            | zero => rfl
            | succ m => rw [hz] at hk; simp at hk
          rw [hk0] at hk
          simp only [List.getElem?_cons_zero, Option.some.injEq] at hk
          have hkk : k = ss.k := by omega
          refine ⟨ss.bsBase, s1, ?_, hdone, hk⟩
          rw [hkk]; exact hR
      simp only [hdone, bne_self_eq_false, Bool.false_eq_true, if_false]
      split
      · -- another call follows
        refine ⟨?_, houts, ?_, ?_, ?_, ?_, ?_⟩
        · apply reach_of_clean_init
          simp [clean, init, hjobs, hrun]
        · simp [init, hklen]
        · -- lock discipline of the moved trackers
          intro i hi hh
          simp only [List.length_append, List.length_map] at hi
          by_cases hio : i < ssd.old.length
          · exfalso
            have hg : getOld { ssd with old := ssd.old ++ s1.trk.map (fun t =>
                ({ t := { t with callId := ssd.callBase + t.callId, pc := shiftPc ssd.old.length t.pc },
                   call := ssd.k } : OldTrk)) } i = getOld ssd i := by
              simp [getOld, List.getD_eq_getElem?_getD, List.getElem?_append_left hio]
            simp only [getOld] at hh hg
            rw [hg] at hh
            have := hd.oldLock i hio hh
            rw [e4] at this; cases this
          · have hj : i - ssd.old.length < s1.trk.length := by omega
            have hi' : i = ssd.old.length + (i - ssd.old.length) := by omega
            simp only [getOld] at hh
            rw [hi', getD_append_map_right _ _ _ _ _ hj] at hh
            simp only [shiftPc_holding] at hh
            have hget : getTrk s1 (i - ssd.old.length) = s1.trk[i - ssd.old.length] := by
              simp [getT, List.getD_eq_getElem?_getD, List.getElem?_eq_getElem hj]
            have := hI.L.cb (i - ssd.old.length) hj (by rw [hget]; exact hh)
            rw [this]
            simp only
            rw [← hi']
        · -- the owner
          intro i hi
          simp only at hi
          refine ⟨rfl, ?_⟩
          cases hlo : s1.lockOwner with
          | none => rw [hlo] at hi; simp only at hi; rw [e4] at hi; cases hi
          | some t =>
            cases t with
            | zero => rw [hlo] at hi; simp only at hi; rw [e4] at hi; cases hi
            | succ j =>
              rw [hlo] at hi
              simp only [Option.some.injEq] at hi
              obtain ⟨hj, _⟩ := hI.L.ownCb j hlo
              subst hi
              simp only [getOld]
              rw [getD_append_map_right _ _ _ _ _ hj]
              simp only
              rw [hI3.callId _ (List.getElem_mem hj)]
        · intro o ho
          simp only [List.mem_append, List.mem_map] at ho
          rcases ho with ho | ⟨t, ht, rfl⟩
          · have := hd.oldIds o ho
            simp only; omega
          · simp only
            rw [hI3.callId t ht]
            exact Nat.le_refl _
        · intro _
          refine ⟨by simp [clean, init, hjobs, hrun], ?_⟩
          rcases hq with ha | hq
          · exact Or.inl ha
          · right
            intro o ho hc
            simp only [List.mem_append, List.mem_map] at ho
            rcases ho with ho | ⟨t, ht, rfl⟩
            · exfalso
              have := hd.oldIds o ho
              simp only at hc
              omega
            · simp only [shiftPc_quiet]
              by_cases hne : t.items = []
              · rcases (hI.T t ht).shape with h1 | h1
                · exact absurd hne h1.1
                · rw [h1.2.2.1]; rfl
              · rcases hq t ht hne with h1 | h1 <;> rw [h1] <;> rfl
      · -- the last call: the caller thread is finished
        refine ⟨?_, houts, ?_, hd.oldLock, ?_, hd.oldIds, ?_⟩
        · show MReach (curCfg sc ssd) (clean s1)
          rw [ecfg, clean_of_not_pre hnp1]; exact hR
        · simp [hdone, hklen]
        · intro i hi; simp only at hi; rw [e4] at hi; cases hi
        · intro hp; simp only at hp; exact absurd hp hne1
    · -- the call goes on
      have hb : (s1.pc != .done) = true := by simpa using hdone
      simp only [hb, if_true]
      refine ⟨?_, hd.outs, ?_, hd.oldLock, ?_, hd.oldIds, ?_⟩
      · show MReach (curCfg sc ssd) (clean s1)
        rw [ecfg]; exact hR
      · simp [hdone, hklen]
      · intro i hi; simp only at hi; rw [e4] at hi; cases hi
      · intro hp; simp only at hp; exact absurd hp hne1
  unfold stepCallerS stepCallerCore
  simp only
  split
  · rename_i hdr
    have hne : ss.cur.pc ≠ .resetAcq := by
      intro e; rw [e] at hdr; cases hdr
    by_cases hdrp : (curCfg sc ss).abortDrops = true
    · simp only [hdrp, if_true]
      exact key (dropOld ss) (dropOld_inv h hne) rfl rfl rfl honone
    · simp only [hdrp, if_false]
      exact key ss h rfl rfl rfl honone
  · simp only [Bool.false_eq_true, if_false]
    exact key ss h rfl rfl rfl honone

end JoblibModel.ParallelLockSeq
