import JoblibProofs.Lemmas.ParallelLockSeq.View
/-!
M1L-Seq proofs, part 3 — the table of trackers of earlier calls (`getOld` / `setOld` / `setOldPc`), the configuration of a
call, reachability in the single-call model.
-/
set_option linter.unusedSimpArgs false
namespace JoblibModel.ParallelLockSeq
open JoblibModel.ParallelLock

/-- `s` is a reachable state of the single-call model M1L under configuration `c` (the same as `M1L.Reachable`). -/
def MReach (c : Cfg) (s : St) : Prop := ∃ sched : List Act, s = run c init sched

theorem MReach.start (c : Cfg) : MReach c init := ⟨[], rfl⟩

theorem run_append (c : Cfg) (a : Act) : ∀ (l : List Act) (s0 : St), run c s0 (l ++ [a]) = step c (run c s0 l) a := by
  intro l
  induction l with
  | nil => intro s0; rfl
  | cons b r ih => intro s0; exact ih (step c s0 b)

theorem MReach.step {c : Cfg} {s : St} (h : MReach c s) (a : Act) : MReach c (step c s a) := by
  obtain ⟨sched, rfl⟩ := h
  exact ⟨sched ++ [a], (run_append c a sched init).symm⟩

/-- Configurations of the model's domain (every call): `n_jobs ≥ 1`, batch sizes `≥ 1`, `pre_dispatch` `'all'` or `≥ 1`. -/
structure SCfgOK (sc : SCfg) : Prop where
  nj : 1 ≤ sc.nj
  bs : ∀ b ∈ sc.bs, 1 ≤ b
  pd : sc.pdMode = 1 ∨ 1 ≤ sc.pd

theorem callCfg_ok {sc : SCfg} (h : SCfgOK sc) (k b : Nat) : CfgOK (sc.callCfg k b) ∧ PdOK (sc.callCfg k b) := by
  refine ⟨⟨h.nj, ?_⟩, h.pd⟩
  intro x hx
  exact h.bs x (List.mem_of_mem_drop hx)

/-- All the single-call invariants of a reachable M1L state. -/
theorem MReach.invs {c : Cfg} {s : St} (h : MReach c s) (hc : CfgOK c) (hpd : PdOK c) :
    Inv c s ∧ Inv2 c s ∧ Inv3 s ∧ EndInv s := by
  obtain ⟨sched, rfl⟩ := h
  have h12 := run_inv2 hc hpd sched (inv_init c) (inv2_init c)
  exact ⟨h12.1, h12.2, run_inv3 hc hpd sched (inv_init c) (inv2_init c) inv3_init,
    run_endInv hc hpd sched (inv_init c) (inv2_init c) endInv_init⟩

/-! ### the table of earlier calls' trackers -/

@[simp] theorem setOld_length (ss : SSt) (i : Nat) (t : Tracker) : (setOld ss i t).old.length = ss.old.length := by
  simp [setOld]

theorem getOld_setOld (ss : SSt) (i j : Nat) (t : Tracker) :
    getOld (setOld ss i t) j = if j = i ∧ i < ss.old.length then { getOld ss i with t := t } else getOld ss j := by
  simp only [getOld, setOld, List.getD_eq_getElem?_getD, List.getElem?_set]
  by_cases h : i = j
  · subst h
    by_cases h2 : i < ss.old.length <;> simp [h2]
  · have : ¬ (j = i) := fun e => h e.symm
    simp [h, this]

theorem getOld_mem (ss : SSt) (i : Nat) (h : i < ss.old.length) : getOld ss i ∈ ss.old := by
  simp [getOld, List.getD_eq_getElem?_getD, List.getElem?_eq_getElem h]

theorem mem_old_iff (ss : SSt) (o : OldTrk) : o ∈ ss.old ↔ ∃ i, i < ss.old.length ∧ getOld ss i = o := by
  constructor
  · intro h
    obtain ⟨i, hi, e⟩ := List.getElem_of_mem h
    exact ⟨i, hi, by simp [getOld, List.getD_eq_getElem?_getD, List.getElem?_eq_getElem hi, e]⟩
  · rintro ⟨i, hi, rfl⟩; exact getOld_mem ss i hi

theorem mem_setOld {ss : SSt} {i : Nat} {t : Tracker} {o : OldTrk} (h : o ∈ (setOld ss i t).old) :
    o ∈ ss.old ∨ (i < ss.old.length ∧ o = { getOld ss i with t := t }) := by
  simp only [setOld] at h
  by_cases hi : i < ss.old.length
  · rcases List.mem_or_eq_of_mem_set h with h | h
    · exact Or.inl h
    · exact Or.inr ⟨hi, h⟩
  · left
    rw [List.set_eq_of_length_le (Nat.le_of_not_lt hi)] at h
    exact h

@[simp] theorem setOld_cur (ss : SSt) (i : Nat) (t : Tracker) : (setOld ss i t).cur = ss.cur := rfl
@[simp] theorem setOld_k (ss : SSt) (i : Nat) (t : Tracker) : (setOld ss i t).k = ss.k := rfl
@[simp] theorem setOld_outs (ss : SSt) (i : Nat) (t : Tracker) : (setOld ss i t).outs = ss.outs := rfl
@[simp] theorem setOld_bsBase (ss : SSt) (i : Nat) (t : Tracker) : (setOld ss i t).bsBase = ss.bsBase := rfl
@[simp] theorem setOld_callBase (ss : SSt) (i : Nat) (t : Tracker) : (setOld ss i t).callBase = ss.callBase := rfl
@[simp] theorem setOld_oldOwner (ss : SSt) (i : Nat) (t : Tracker) : (setOld ss i t).oldOwner = ss.oldOwner := rfl
@[simp] theorem setOld_hist (ss : SSt) (i : Nat) (t : Tracker) : (setOld ss i t).hist = ss.hist := rfl

theorem oldEnabled_lt {ss : SSt} {i : Nat} (he : oldEnabled ss i = true) : i < ss.old.length := by
  by_cases hi : i < ss.old.length
  · exact hi
  · exfalso
    have : getOld ss i = default := by
      simp [getOld, List.getD_eq_getElem?_getD, List.getElem?_eq_none (Nat.le_of_not_lt hi)]
    unfold oldEnabled at he
    rw [this] at he
    have hd : (default : OldTrk).t.pc = CbPc.idle := rfl
    rw [hd] at he
    cases he

end JoblibModel.ParallelLockSeq
