import JoblibProofs.Lemmas.ParallelLockSeq.StepsCur
/-!
M1L-Seq proofs, part 7 — `SeqInv` is preserved by every action of the multi-call model (guarded variant) and holds in every
reachable state (`runS_inv`).
-/
namespace JoblibModel.ParallelLockSeq
open JoblibModel.ParallelLock

theorem stepS_inv {sc : SCfg} {ss : SSt} (hok : SCfgOK sc) (hg : sc.dispatchNewGuard = true) (h : SeqInv sc ss)
    (a : Act) : SeqInv sc (stepS sc ss a) := by
  cases a with
  | thread t =>
    cases t with
    | zero =>
      simp only [stepS]
      split
      · rename_i he; exact stepCallerS_inv h hok he
      · exact h
    | succ g =>
      simp only [stepS]
      split
      · split
        · rename_i he; exact stepOld_inv h hok hg he
        · exact h
      · split
        · rename_i he; exact stepCur_inv h hok he
        · exact h
  | complete k =>
    simp only [stepS]
    split
    · rename_i g hk
      split
      · rename_i hlt
        have hm : g ∈ parkedIdsS ss := List.mem_of_getElem? hk
        unfold parkedIdsS at hm
        simp only [List.mem_append, List.mem_filter, List.mem_range, beq_iff_eq, List.mem_map] at hm
        rcases hm with hm | ⟨x, _, hx⟩
        · exact completeOld_inv h hlt hm.2
        · omega
      · rename_i hge; exact completeCur_inv h hok hk hge
    · exact h

theorem runS_inv {sc : SCfg} (hok : SCfgOK sc) (hg : sc.dispatchNewGuard = true) (sched : List Act) :
    ∀ {ss : SSt}, SeqInv sc ss → SeqInv sc (runS sc ss sched) := by
  induction sched with
  | nil => intro ss h; exact h
  | cons a r ih => intro ss h; exact ih (stepS_inv hok hg h a)

end JoblibModel.ParallelLockSeq
