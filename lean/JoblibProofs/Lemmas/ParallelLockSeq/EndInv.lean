import JoblibProofs.Lemmas.ParallelLock
/-!
M1L-Seq proofs, part 1 — one more invariant of the SINGLE-call model M1L (`JoblibModel.ParallelLock`), about the state a
call leaves behind: when the caller is on the raising path `_aborting` is set; once `self._jobs` has been rebound in the
`finally` block (`tailStatus`, `done`) `_jobs` stays empty and `_running` is False, because either `_aborting` is set or
every batch is counted and its callback is past `dispatch_next` (nobody dispatches any more); and `_call_id` has been drawn
exactly once.  Frame lemmas for the steps of callback threads.
-/
set_option linter.unusedSimpArgs false
namespace JoblibModel.ParallelLockSeq
open JoblibModel.ParallelLock

/-- The caller is going to re-raise (past `self._aborting = True` of `_abort`). -/
def raisingPc : Pc → Bool
  | .abortCall _ | .finExc (some _) | .finJobsR (some _) | .finJobsW (some _) _ => true
  | _ => false

/-- `self._jobs` has been rebound by the `finally` block. -/
def afterFin : Pc → Bool
  | .tailStatus _ _ | .done => true
  | _ => false

structure EndInv (s : St) : Prop where
  raising : raisingPc s.pc = true → s.aborting = true
  fin : afterFin s.pc = true → s.jobs = [] ∧ s.running = false ∧ (s.aborting = true ∨ Quiet s)
  callId : s.callId = if s.pc = .resetAcq then 0 else 1

theorem endInv_init : EndInv init := by
  refine ⟨?_, ?_, ?_⟩ <;> simp [init, raisingPc, afterFin]

/-! ### frame facts -/

theorem pull_frame (c : Cfg) (t : Tid) (fo : Bool) (k : Nat) (s : St) :
    (pull c t fo k s).1.pc = s.pc ∧ (pull c t fo k s).1.running = s.running ∧ (pull c t fo k s).1.callId = s.callId ∧
    (pull c t fo k s).1.jobs = s.jobs ∧ (pull c t fo k s).1.trk = s.trk ∧ (pull c t fo k s).1.aborting = s.aborting ∧
    (pull c t fo k s).1.lockOwner = s.lockOwner ∧ (pull c t fo k s).1.out = s.out ∧
    (pull c t fo k s).1.outcome = s.outcome := by
  unfold pull
  simp only
  split <;> simp

theorem dispatchTasks_frame (s : St) (tasks : List Nat) :
    (dispatchTasks s tasks).1.pc = s.pc ∧ (dispatchTasks s tasks).1.running = s.running ∧
    (dispatchTasks s tasks).1.callId = s.callId ∧ (dispatchTasks s tasks).1.lockOwner = s.lockOwner ∧
    (dispatchTasks s tasks).1.aborting = s.aborting ∧ (dispatchTasks s tasks).1.out = s.out ∧
    (dispatchTasks s tasks).1.outcome = s.outcome := by
  unfold dispatchTasks
  split
  · simp
  · split <;> simp

theorem dispatchLocked_aborting (c : Cfg) (t : Tid) (fo : Bool) (bs : Nat) (s : St) (ha : s.aborting = true) :
    dispatchLocked c t fo bs s = (s, .ret false) := by
  unfold dispatchLocked; simp [ha]

theorem dispatchLocked_frame (c : Cfg) (t : Tid) (fo : Bool) (bs : Nat) (s : St) :
    (dispatchLocked c t fo bs s).1.pc = s.pc ∧ (dispatchLocked c t fo bs s).1.running = s.running ∧
    (dispatchLocked c t fo bs s).1.callId = s.callId ∧ (dispatchLocked c t fo bs s).1.lockOwner = s.lockOwner ∧
    (s.aborting = true → (dispatchLocked c t fo bs s).1.aborting = true) ∧
    (dispatchLocked c t fo bs s).1.out = s.out ∧ (dispatchLocked c t fo bs s).1.outcome = s.outcome := by
  unfold dispatchLocked
  split
  · simp_all
  · split
    · have := dispatchTasks_frame { s with ready := ‹List (List Nat)› } ‹List Nat›
      simp_all
    · have hp := pull_frame c t fo (bs * c.nj) s
      simp only
      split
      · simp_all [registerIterError]
      · split
        · simp_all
        · split
          · simp_all
          · have := dispatchTasks_frame { (pull c t fo (bs * c.nj) s).1 with ready := ‹List (List Nat)› } ‹List Nat›
            simp_all

theorem cbDispatchResult_frame (i : Nat) (p : St × DRes) :
    (cbDispatchResult i p).pc = p.1.pc ∧ (cbDispatchResult i p).running = p.1.running ∧
    (cbDispatchResult i p).callId = p.1.callId ∧ (cbDispatchResult i p).aborting = p.1.aborting ∧
    (cbDispatchResult i p).out = p.1.out ∧ (cbDispatchResult i p).outcome = p.1.outcome ∧
    (cbDispatchResult i p).jobs = p.1.jobs := by
  obtain ⟨s, r⟩ := p
  cases r with
  | submit j => simp [cbDispatchResult, setCb, setTrk]
  | ret b => cases b <;> simp [cbDispatchResult, cbAfterDispatch, setCb, setTrk]

theorem cbDispatch_frame (c : Cfg) (i : Nat) (bs : Nat) (s0 : St) :
    (cbDispatchResult i (dispatchLocked c (i + 1) true bs s0)).pc = s0.pc ∧
    (cbDispatchResult i (dispatchLocked c (i + 1) true bs s0)).running = s0.running ∧
    (cbDispatchResult i (dispatchLocked c (i + 1) true bs s0)).callId = s0.callId ∧
    (s0.aborting = true → (cbDispatchResult i (dispatchLocked c (i + 1) true bs s0)).aborting = true) ∧
    (cbDispatchResult i (dispatchLocked c (i + 1) true bs s0)).out = s0.out ∧
    (cbDispatchResult i (dispatchLocked c (i + 1) true bs s0)).outcome = s0.outcome := by
  obtain ⟨b1, b2, b3, _, b5, b6, b7⟩ := dispatchLocked_frame c (i + 1) true bs s0
  obtain ⟨a1, a2, a3, a4, a5, a6, _⟩ := cbDispatchResult_frame i (dispatchLocked c (i + 1) true bs s0)
  exact ⟨by rw [a1, b1], by rw [a2, b2], by rw [a3, b3], fun h => by rw [a4]; exact b5 h, by rw [a5, b6], by rw [a6, b7]⟩

theorem stepCb_frame (c : Cfg) (i : Nat) (s : St) :
    (stepCb c i s).pc = s.pc ∧ (stepCb c i s).running = s.running ∧ (stepCb c i s).callId = s.callId ∧
    (s.aborting = true → (stepCb c i s).aborting = true) ∧ (stepCb c i s).out = s.out ∧
    (stepCb c i s).outcome = s.outcome := by
  unfold stepCb
  simp only
  split
  · split
    · simp [setCb, setTrk]
    · split <;> simp [setCb, setTrk]
  · split
    · simp [setCb, setTrk]
    · split <;> simp [setCb, setTrk]
  · simp [setCb, setTrk]
  · simp [setCb, setTrk]
  · split
    · split
      · simp [cbAfterDispatch, setCb, setTrk]
      · split
        · simp [setCb, setTrk]
        · have := cbDispatch_frame c i
            (scriptedBs c (setCb { s with lockOwner := some (i + 1), nCompleted := s.nCompleted + (getTrk s i).bsize } i .bsC))
            (setCb { s with lockOwner := some (i + 1), nCompleted := s.nCompleted + (getTrk s i).bsize } i .bsC)
          simpa [setCb, setTrk] using this
    · simp [setCb, setTrk]
  · have := cbDispatch_frame c i (scriptedBs c s) { s with bsI := s.bsI + 1 }
    simpa using this
  · simp [cbAfterDispatch, doSubmit, ev, setCb, setTrk]
  · simp [setCb, setTrk]
  · simp

/-- While `_aborting` is set a callback step neither touches `_jobs` nor clears the flag. -/
theorem stepCb_aborting (c : Cfg) (i : Nat) (s : St) (ha : s.aborting = true) :
    (stepCb c i s).jobs = s.jobs ∧ (stepCb c i s).aborting = true := by
  unfold stepCb
  simp only
  split
  · split
    · simp [setCb, setTrk, ha]
    · simp [setCb, setTrk, ha]
  · split
    · simp [setCb, setTrk, ha]
    · split <;> simp [setCb, setTrk, ha]
  · simp [setCb, setTrk, ha]
  · simp [setCb, setTrk, ha]
  · split
    · simp [cbAfterDispatch, setCb, setTrk, ha]
    · simp [setCb, setTrk, ha]
  · rw [dispatchLocked_aborting _ _ _ _ _ (by simpa using ha)]
    simp [cbDispatchResult, cbAfterDispatch, setCb, setTrk, ha]
  · simp [cbAfterDispatch, doSubmit, ev, setCb, setTrk, ha]
  · simp [setCb, setTrk, ha]
  · simp [ha]

theorem quiet_set_done {s : St} {i : Nat} (hq : Quiet s) :
    Quiet (setCb s i (.done true)) := by
  intro t ht hne
  simp only [setCb, setTrk] at ht
  rcases List.mem_or_eq_of_mem_set ht with h | h
  · exact hq t h hne
  · subst h; exact Or.inr rfl

/-- Once every batch is counted and past `dispatch_next`, the only step a callback thread can still take is its last
release. -/
theorem stepCb_quiet {c : Cfg} {s : St} {i : Nat} (h : Inv c s) (he : cbEnabled s i = true) (hq : Quiet s) :
    stepCb c i s = setCb s i (.done true) := by
  have hi := cbEnabled_lt he
  have hm := getT_mem s.trk i hi
  have h0 := h.T _ hm
  have hpc : (getT s.trk i).pc = .relC := by
    have hact : (getT s.trk i).pc ≠ .idle := by
      intro e; unfold cbEnabled at he; rw [getTrk_def, e] at he; cases he
    rcases hq _ hm (trk_normal h0 hact).1 with e | e
    · exact e
    · unfold cbEnabled at he; rw [getTrk_def, e] at he; cases he
  unfold stepCb
  simp only [getTrk_def, hpc]

theorem stepCb_endInv {c : Cfg} {s : St} {i : Nat} (h : Inv c s) (he : cbEnabled s i = true) (hE : EndInv s) :
    EndInv (stepCb c i s) := by
  obtain ⟨f1, f2, f3, f4, _, _⟩ := stepCb_frame c i s
  refine ⟨?_, ?_, ?_⟩
  · intro hr; rw [f1] at hr; exact f4 (hE.raising hr)
  · intro hf; rw [f1] at hf
    obtain ⟨j1, j2, j3⟩ := hE.fin hf
    rcases j3 with ha | hq
    · obtain ⟨k1, k2⟩ := stepCb_aborting c i s ha
      exact ⟨by rw [k1]; exact j1, by rw [f2]; exact j2, Or.inl k2⟩
    · rw [stepCb_quiet h he hq]
      exact ⟨by simpa [setCb, setTrk] using j1, by simpa [setCb, setTrk] using j2, Or.inr (quiet_set_done hq)⟩
  · rw [f1, f3]; exact hE.callId

theorem complete_endInv {c : Cfg} {s : St} {i : Nat} (h : Inv c s) (hi : i < s.trk.length)
    (hpc : (getTrk s i).pc = .parked) (hE : EndInv s) : EndInv (complete c i s) := by
  have hm := getT_mem s.trk i hi
  have h0 := h.T _ hm
  rw [getTrk_def] at hpc
  refine ⟨?_, ?_, ?_⟩
  · intro hr; exact hE.raising (by simpa [complete, setTrk, ev] using hr)
  · intro hf
    obtain ⟨j1, j2, j3⟩ := hE.fin (by simpa [complete, setTrk, ev] using hf)
    refine ⟨by simpa [complete, setTrk, ev] using j1, by simpa [complete, setTrk, ev] using j2, ?_⟩
    rcases j3 with ha | hq
    · exact Or.inl (by simpa [complete, setTrk, ev] using ha)
    · exfalso
      rcases hq _ hm (trk_normal h0 (by rw [hpc]; simp)).1 with e | e <;> rw [hpc] at e <;> cases e
  · simpa [complete, setTrk, ev] using hE.callId

/-- A step of the caller to a point that is neither on the raising path nor after the `finally` block. -/
theorem EndInv.move {s s' : St} (hE : EndInv s) (hpc0 : s.pc ≠ .resetAcq)
    (hr : raisingPc s'.pc = true → s'.aborting = true) (hf : afterFin s'.pc = false) (hn : s'.pc ≠ .resetAcq)
    (hc : s'.callId = s.callId) : EndInv s' := by
  refine ⟨hr, fun h => (by rw [hf] at h; cases h), ?_⟩
  have := hE.callId
  rw [if_neg hpc0] at this
  rw [if_neg hn, hc]; exact this

theorem returnOrRaise_frame (s : St) (i : Nat) :
    (returnOrRaise s i).1.pc = s.pc ∧ (returnOrRaise s i).1.callId = s.callId ∧
    (returnOrRaise s i).1.aborting = s.aborting ∧ (returnOrRaise s i).1.jobs = s.jobs ∧
    (returnOrRaise s i).1.running = s.running ∧ (Quiet s → Quiet (returnOrRaise s i).1) := by
  have hq : Quiet s → Quiet (setTrk s i { getTrk s i with result := .none }) := by
    intro hq t ht hne
    simp only [setTrk] at ht
    rcases List.mem_or_eq_of_mem_set ht with h | h
    · exact hq t h hne
    · subst h
      by_cases hi : i < s.trk.length
      · have := hq _ (getT_mem _ _ hi) (by simpa using hne)
        simpa using this
      · exfalso; apply hne
        simp [getT_of_ge _ _ (Nat.le_of_not_lt hi)]
        rfl
  unfold returnOrRaise
  simp only
  split
  · exact ⟨rfl, rfl, rfl, rfl, rfl, id⟩
  · split <;> exact ⟨rfl, rfl, rfl, rfl, rfl, hq⟩
  · split <;> exact ⟨rfl, rfl, rfl, rfl, rfl, hq⟩

macro "emv" hE:ident hpc:ident : tactic =>
  `(tactic| (apply EndInv.move $hE <;> simp [$hpc:ident, raisingPc, afterFin, afterDispatch] <;> (try split) <;> simp))

theorem stepCaller_endInv {c : Cfg} {s : St} (h2 : Inv2 c s) (hE : EndInv s)
    (he : callerEnabled s = true) : EndInv (stepCaller c s) := by
  have hL := h2.L
  cases hpc : s.pc with
  | resetAcq =>
    have hrun : s.running = false := by unfold LocOK at hL; rw [hpc] at hL; exact hL
    have hcid := hE.callId
    rw [hpc] at hcid; simp at hcid
    unfold stepCaller; simp only [hpc, hrun]
    refine ⟨?_, ?_, ?_⟩ <;> simp [raisingPc, afterFin, hcid]
  | resetRel => unfold stepCaller; simp only [hpc]; emv hE hpc
  | wNDisp => unfold stepCaller; simp only [hpc]; emv hE hpc
  | wNComp => unfold stepCaller; simp only [hpc]; emv hE hpc
  | wExc0 => unfold stepCaller; simp only [hpc]; emv hE hpc
  | wAbort0 => unfold stepCaller; simp only [hpc]; emv hE hpc
  | readyAcq => unfold stepCaller; simp only [hpc]; emv hE hpc
  | readyRel => unfold stepCaller; simp only [hpc]; emv hE hpc
  | wOrig => unfold stepCaller; simp only [hpc]; split <;> emv hE hpc
  | wIter0 => unfold stepCaller; simp only [hpc]; emv hE hpc
  | dPre k =>
    unfold stepCaller; simp only [hpc]
    split
    · cases k <;> simp only [afterDispatch] <;> (try split) <;> emv hE hpc
    · split <;> emv hE hpc
  | dBs k => unfold stepCaller; simp only [hpc]; emv hE hpc
  | dAcq k bs =>
    unfold stepCaller; simp only [hpc]
    have hf := dispatchLocked_frame c 0 false bs { s with lockOwner := some 0, pc := .dIn k }
    split
    · rename_i s1 j heq
      rw [heq] at hf
      apply EndInv.move hE <;> simp [hpc, raisingPc, afterFin]
      exact hf.2.2.1
    · rename_i s1 r heq
      rw [heq] at hf
      apply EndInv.move hE <;> simp [hpc, raisingPc, afterFin]
      exact hf.2.2.1
  | dIn k => unfold stepCaller; simp only [hpc]; exact hE
  | dSubmit k j => unfold stepCaller; simp only [hpc]; apply EndInv.move hE <;> simp [hpc, raisingPc, afterFin, doSubmit, setCb, setTrk, ev]
  | dRel k r =>
    unfold stepCaller; simp only [hpc]
    cases k <;> cases r <;> simp only [afterDispatch] <;> (try split) <;> emv hE hpc
  | itAcq => unfold stepCaller; simp only [hpc]; emv hE hpc
  | itRel => unfold stepCaller; simp only [hpc]; emv hE hpc
  | wIterAll => unfold stepCaller; simp only [hpc]; emv hE hpc
  | wtAbort => unfold stepCaller; simp only [hpc]; split <;> emv hE hpc
  | wtIter => unfold stepCaller; simp only [hpc]; split <;> emv hE hpc
  | wtNComp => unfold stepCaller; simp only [hpc]; emv hE hpc
  | wtNDisp nc => unfold stepCaller; simp only [hpc]; split <;> (try split) <;> emv hE hpc
  | wtAbort2 => unfold stepCaller; simp only [hpc]; split <;> emv hE hpc
  | rtAbort => unfold stepCaller; simp only [hpc]; split <;> emv hE hpc
  | rtLen => unfold stepCaller; simp only [hpc]; split <;> emv hE hpc
  | rtHead => unfold stepCaller; simp only [hpc]; split <;> emv hE hpc
  | rtStatus i => unfold stepCaller; simp only [hpc]; split <;> emv hE hpc
  | sleep => unfold stepCaller; simp only [hpc]; emv hE hpc
  | popAcq => unfold stepCaller; simp only [hpc]; split <;> emv hE hpc
  | popRel i => unfold stepCaller; simp only [hpc]; emv hE hpc
  | resStatus i =>
    unfold stepCaller; simp only [hpc]
    have hf := returnOrRaise_frame s i
    split
    · rename_i s1 e heq; rw [heq] at hf
      apply EndInv.move hE <;> simp [hpc, raisingPc, afterFin]
      exact hf.2.1
    · rename_i s1 l heq; rw [heq] at hf
      apply EndInv.move hE <;> simp [hpc, raisingPc, afterFin, deliverVals]
      split <;> exact hf.2.1
  | refAcq => unfold stepCaller; simp only [hpc]; emv hE hpc
  | refRel e => cases e <;> (unfold stepCaller; simp only [hpc]; emv hE hpc)
  | refStatus i =>
    unfold stepCaller; simp only [hpc]
    have hf := returnOrRaise_frame s i
    split
    · rename_i s1 e heq; rw [heq] at hf
      apply EndInv.move hE <;> simp [hpc, raisingPc, afterFin]
      exact hf.2.1
    · rename_i s1 l heq; rw [heq] at hf
      apply EndInv.move hE <;> simp [hpc, raisingPc, afterFin]
      exact hf.2.1
  | excW e => unfold stepCaller; simp only [hpc]; emv hE hpc
  | abortW e => unfold stepCaller; simp only [hpc]; split <;> emv hE hpc
  | abortCall e =>
    have ha := hE.raising (by rw [hpc]; rfl)
    unfold stepCaller; simp only [hpc]
    apply EndInv.move hE <;> simp [hpc, raisingPc, afterFin]
    · split <;> simp [dropParked, ev, ha]
    · split <;> simp [dropParked, ev]
  | finExc e =>
    unfold stepCaller; simp only [hpc]
    split
    · apply EndInv.move hE <;> simp [hpc, raisingPc, afterFin]
      cases e with
      | none => simp
      | some e => simpa using hE.raising (by rw [hpc]; rfl)
    · apply EndInv.move hE <;> simp [hpc, raisingPc, afterFin]
      cases e with
      | none => simp
      | some e => simpa using hE.raising (by rw [hpc]; rfl)
  | finJobsR e =>
    unfold stepCaller; simp only [hpc]
    apply EndInv.move hE <;> simp [hpc, raisingPc, afterFin]
    cases e with
    | none => simp
    | some e => simpa using hE.raising (by rw [hpc]; rfl)
  | finJobsW e rem =>
    have hcid := hE.callId
    rw [hpc] at hcid; simp at hcid
    unfold stepCaller; simp only [hpc]
    cases e with
    | some e =>
      have ha := hE.raising (by rw [hpc]; rfl)
      simp only [finishRaise, ev]
      refine ⟨?_, ?_, ?_⟩ <;> simp [raisingPc, afterFin, ha, hcid]
    | none =>
      have hq : Quiet s := by unfold LocOK at hL; rw [hpc] at hL; exact hL.1.1
      simp only
      cases rem with
      | nil =>
        simp only [tailNext, finishRet]
        refine ⟨?_, ?_, ?_⟩
        · simp [raisingPc]
        · intro _
          refine ⟨?_, ?_, Or.inr ?_⟩
          · split <;> simp [ev]
          · split <;> simp [ev]
          · split <;> exact hq
        · split <;> simp [ev, hcid]
      | cons i rest =>
        simp only [tailNext]
        refine ⟨?_, ?_, ?_⟩
        · simp [raisingPc]
        · intro _; exact ⟨rfl, rfl, Or.inr hq⟩
        · simp [hcid]
  | tailStatus i rem =>
    have hcid := hE.callId
    rw [hpc] at hcid; simp at hcid
    obtain ⟨j1, j2, j3⟩ := hE.fin (by rw [hpc]; rfl)
    have hq : Quiet s := by unfold LocOK at hL; rw [hpc] at hL; exact hL.1.1
    obtain ⟨f1, f2, f3, f4, f5, f6⟩ := returnOrRaise_frame s i
    unfold stepCaller; simp only [hpc]
    split
    · rename_i s1 e heq; rw [heq] at f1 f2 f3 f4 f5 f6
      simp only at f1 f2 f3 f4 f5 f6
      simp only [finishRaise, ev]
      refine ⟨?_, ?_, ?_⟩
      · simp [raisingPc]
      · intro _; exact ⟨by rw [f4]; exact j1, by rw [f5]; exact j2, Or.inr (f6 hq)⟩
      · simp [f2, hcid]
    · rename_i s1 l heq; rw [heq] at f1 f2 f3 f4 f5 f6
      simp only at f1 f2 f3 f4 f5 f6
      have hq1 := f6 hq
      have key : ∀ s2 : St, s2.jobs = s1.jobs → s2.running = s1.running → s2.callId = s1.callId → s2.trk = s1.trk →
          EndInv (tailNext c s2 rem) := by
        intro s2 e1 e2 e3 e4
        have hq2 : Quiet s2 := by intro t ht; rw [e4] at ht; exact hq1 t ht
        cases rem with
        | nil =>
          simp only [tailNext, finishRet]
          refine ⟨?_, ?_, ?_⟩
          · simp [raisingPc]
          · intro _
            refine ⟨?_, ?_, Or.inr ?_⟩
            · split <;> simp [ev, e1, f4, j1]
            · split <;> simp [ev, e2, f5, j2]
            · split <;> exact hq2
          · split <;> simp [ev, e3, f2, hcid]
        | cons i' rest =>
          simp only [tailNext]
          refine ⟨?_, ?_, ?_⟩
          · simp [raisingPc]
          · intro _; exact ⟨by rw [e1, f4]; exact j1, by rw [e2, f5]; exact j2, Or.inr hq2⟩
          · simp [e3, f2, hcid]
      apply key
      · simp [deliverVals]; split <;> rfl
      · simp [deliverVals]; split <;> rfl
      · simp [deliverVals]; split <;> rfl
      · simp [deliverVals]; split <;> rfl
  | done => simp [callerEnabled, hpc] at he

theorem step_endInv {c : Cfg} {s : St} (h : Inv c s) (h2 : Inv2 c s) (hE : EndInv s) (a : Act) :
    EndInv (step c s a) := by
  cases a with
  | thread t =>
    cases t with
    | zero =>
      simp only [step]
      split
      · rename_i he; exact stepCaller_endInv h2 hE he
      · exact hE
    | succ i =>
      simp only [step]
      split
      · rename_i he; exact stepCb_endInv h he hE
      · exact hE
  | complete k =>
    simp only [step]
    split
    · rename_i i hk
      have hmem : i ∈ parkedIds s := List.mem_of_getElem? hk
      simp only [parkedIds, List.mem_filter, List.mem_range, beq_iff_eq] at hmem
      exact complete_endInv h hmem.1 hmem.2 hE
    · exact hE

theorem run_endInv {c : Cfg} (hc : CfgOK c) (hpd : PdOK c) (sched : List Act) :
    ∀ {s : St}, Inv c s → Inv2 c s → EndInv s → EndInv (run c s sched) := by
  induction sched with
  | nil => intro s _ _ hE; exact hE
  | cons a r ih =>
    intro s h h2 hE
    exact ih (step_inv h a) (step_inv2 hc hpd h h2 a) (step_endInv h h2 hE a)

end JoblibModel.ParallelLockSeq
