import JoblibProofs.Lemmas.ParallelLockSeq.Run
/-!
M1L-Seq proofs, part 8 — the refinement as a statement about STEPS: every action of the multi-call model is, on the view
of the running call, a stutter (threads and batches of earlier calls, disabled actions), the same step of the single-call
model M1L, or the end of the call (the view of the next call is M1L's `init`).
-/
set_option linter.unusedSimpArgs false
namespace JoblibModel.ParallelLockSeq
open JoblibModel.ParallelLock

theorem stepCallerCore_cur (sc : SCfg) (ss : SSt) :
    (stepCallerCore sc ss).cur = stepCaller (curCfg sc ss) ss.cur ∧ (stepCallerCore sc ss).k = ss.k ∧
    (stepCallerCore sc ss).outs = ss.outs := by
  unfold stepCallerCore
  simp only
  split
  · split <;> exact ⟨rfl, rfl, rfl⟩
  · simp

/-- What one action does to the view of the running call. -/
inductive ViewStep (sc : SCfg) (ss ss' : SSt) : Prop
  /-- nothing (steps of threads / completions of batches of earlier calls; actions that are not enabled) -/
  | stutter : view ss' = view ss → ViewStep sc ss ss'
  /-- the same step of the single-call model, under the configuration of the running call -/
  | m1l (a : Act) : view ss' = step (curCfg sc ss) (view ss) a → ss'.k = ss.k → ViewStep sc ss ss'
  /-- the caller's M1L step finishes the call; the next call starts from M1L's initial state -/
  | next : (step (curCfg sc ss) (view ss) (.thread 0)).pc = .done → view ss' = init → ss'.k = ss.k + 1 →
      ss'.outs = ss.outs ++ [(step (curCfg sc ss) (view ss) (.thread 0)).outcome] → ViewStep sc ss ss'

theorem stepS_viewStep {sc : SCfg} {ss : SSt} (hok : SCfgOK sc) (hg : sc.dispatchNewGuard = true) (h : SeqInv sc ss)
    (a : Act) : ViewStep sc ss (stepS sc ss a) := by
  have h' := stepS_inv hok hg h a
  cases a with
  | thread t =>
    cases t with
    | zero =>
      simp only [stepS] at h' ⊢
      split
      · rename_i he
        simp only [he, if_true] at h'
        have hecur : callerEnabled ss.cur = true := by
          unfold callerEnabledS at he; simp only [Bool.and_eq_true] at he; exact he.1
        obtain ⟨e1, e2, e3⟩ := stepCallerCore_cur sc ss
        have hv := view_caller_step h hecur
        unfold stepCallerS at h' ⊢
        generalize stepCallerCore sc ss = mid at e1 e2 e3 h' ⊢
        unfold switchCall at h' ⊢
        simp only at h' ⊢
        by_cases hd : mid.cur.pc = .done
        · have hnp : mid.cur.pc.preDispatch = false := by rw [hd]; rfl
          have hs1 : step (curCfg sc ss) (view ss) (.thread 0) = mid.cur := by
            rw [← hv, ← e1]; exact clean_of_not_pre hnp
          simp only [hd, bne_self_eq_false, Bool.false_eq_true, if_false] at h' ⊢
          split
          · rename_i hmore
            simp only [hmore, if_true] at h'
            refine .next (by rw [hs1]; exact hd) ?_ (by simp [e2]) ?_
            · exact (h'.between rfl).eq
            · simp only [hs1, e3]
          · refine .m1l (.thread 0) ?_ e2
            show clean mid.cur = _
            rw [e1]; exact hv
        · have hb : (mid.cur.pc != .done) = true := by simpa using hd
          simp only [hb, if_true]
          refine .m1l (.thread 0) ?_ e2
          show clean mid.cur = _
          rw [e1]; exact hv
      · exact .stutter rfl
    | succ g =>
      simp only [stepS] at h' ⊢
      split
      · rename_i hlt
        split
        · rename_i he
          simp only [hlt, he, if_true] at h'
          have hpc := stepOld_pc sc g ss
          refine .stutter ?_
          by_cases hst : ss.callBase + ss.cur.callId = (getOld ss g).t.callId
          · obtain ⟨hp, _⟩ := h.fresh_between hok hlt hst
            show clean (stepOld sc g ss).cur = clean ss.cur
            rw [(h'.between (hpc.trans hp)).eq, (h.between hp).eq]
          · rw [stepOld_stale hg hst (h.stale_not_holding hok hlt hst) he]; rfl
        · exact .stutter rfl
      · split
        · rename_i he
          have he' : cbEnabled ss.cur (g - ss.old.length) = true := by
            unfold cbEnabledS at he; simp only [Bool.and_eq_true] at he; exact he.1
          have hnp : ss.cur.pc.preDispatch = false := by
            cases hp : ss.cur.pc.preDispatch with
            | false => rfl
            | true =>
              have := cbEnabled_lt he'
              rw [h.pre_no_trk hok hp] at this
              simp at this
          refine .m1l (.thread (g - ss.old.length + 1)) ?_ rfl
          have hv : view ss = ss.cur := clean_of_not_pre hnp
          rw [hv]
          show clean (stepCb _ _ _) = _
          rw [clean_of_not_pre (by rw [(stepCb_frame _ _ _).1]; exact hnp)]
          simp [step, he']
        · exact .stutter rfl
  | complete k =>
    simp only [stepS]
    split
    · rename_i g hk
      split
      · exact .stutter rfl
      · rename_i hge
        have hk' := parkedIdsS_cur hk hge
        have hnp := complete_not_pre h hok hk'
        refine .m1l (.complete (k - ((List.range ss.old.length).filter
          (fun i => (getOld ss i).t.pc == .parked)).length)) ?_ rfl
        have hv : view ss = ss.cur := clean_of_not_pre hnp
        rw [hv]
        show clean (complete _ _ _) = _
        rw [clean_of_not_pre (by simpa [complete, setTrk, ev] using hnp)]
        simp [step, hk']
    · exact .stutter rfl

end JoblibModel.ParallelLockSeq
