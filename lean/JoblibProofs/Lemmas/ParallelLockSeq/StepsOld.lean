import JoblibProofs.Lemmas.ParallelLockSeq.SeqInv
/-!
M1L-Seq proofs, part 5 — steps of the threads of EARLIER calls (`stepOld`, `completeOld`) in the guarded variant: a
thread whose call id differs from the object's only moves its own program counter (`stepOld_stale`); a thread whose call
id still is the object's runs only while the caller is parked before `_reset_run_tracking` and touches only fields that
the set-up of the next call rewrites.  Both preserve `SeqInv`.
-/
set_option linter.unusedSimpArgs false
namespace JoblibModel.ParallelLockSeq
open JoblibModel.ParallelLock

/-- Where a stale callback thread goes next (guarded variant): it only takes and releases the lock. -/
def staleNext : CbPc → CbPc
  | .acqA => .relA false
  | .relA ok => if ok then .stats else .done false
  | .stats => .acqC
  | .acqC => .relA false
  | .relC => .done true
  | p => p

theorem staleNext_not_holding (p : CbPc) (h : p.holding = false) : (staleNext p).holding = false := by
  cases p with
  | relA ok => cases ok <;> rfl
  | _ => simp_all [staleNext, CbPc.holding]

/-- STALE STEPS (guarded variant): the step of a thread of an earlier call whose call id differs from the object's
changes nothing but that thread's program counter. -/
theorem stepOld_stale {sc : SCfg} {ss : SSt} {i : Nat} (hg : sc.dispatchNewGuard = true)
    (hst : ss.callBase + ss.cur.callId ≠ (getOld ss i).t.callId) (hnh : (getOld ss i).t.pc.holding = false)
    (he : oldEnabled ss i = true) : stepOld sc i ss = setOldPc ss i (staleNext (getOld ss i).t.pc) := by
  have hst' : (ss.callBase + ss.cur.callId != (getOld ss i).t.callId) = true := by simpa using hst
  unfold stepOld
  simp only
  cases hpc : (getOld ss i).t.pc <;> simp_all [staleNext, CbPc.holding, oldEnabled]

theorem curCfg_setOld (sc : SCfg) (ss : SSt) (i : Nat) (t : Tracker) : curCfg sc (setOld ss i t) = curCfg sc ss := rfl

theorem view_setOld (ss : SSt) (i : Nat) (t : Tracker) : view (setOld ss i t) = view ss := rfl

theorem stepOld_stale_inv {sc : SCfg} {ss : SSt} {i : Nat} (h : SeqInv sc ss) (hok : SCfgOK sc)
    (hg : sc.dispatchNewGuard = true) (he : oldEnabled ss i = true)
    (hst : ss.callBase + ss.cur.callId ≠ (getOld ss i).t.callId) : SeqInv sc (stepOld sc i ss) := by
  have hi := oldEnabled_lt he
  have hnh := h.stale_not_holding hok hi hst
  rw [stepOld_stale hg hst hnh he]
  have hn := staleNext_not_holding _ hnh
  apply h.oldStep (ss' := setOldPc ss i (staleNext (getOld ss i).t.pc)) hi
    (t' := { (getOld ss i).t with pc := staleNext (getOld ss i).t.pc }) rfl rfl rfl rfl rfl rfl h.reach
  · simp [setOldPc, hn, hnh]
  · intro hh; simp [hn] at hh
  · intro hh; simp [hn] at hh
  · intro hp
    have hb := h.between hp
    refine ⟨hb.eq, ?_⟩
    rcases hb.quiet with ha | hq
    · exact Or.inl ha
    · right
      intro o ho hc
      rcases mem_setOld ho with ho | ⟨_, ho⟩
      · exact hq o ho hc
      · exfalso
        subst ho
        simp only at hc
        have hcid := h.callId hok
        rw [if_pos hp] at hcid
        rw [hcid, hc] at hst
        exact hst rfl

theorem getD_set_self {α : Type} (l : List α) (i : Nat) (a d : α) (h : i < l.length) : (l.set i a).getD i d = a := by
  simp [List.getD_eq_getElem?_getD, h]

theorem setCb_nil {s : St} (h : s.trk = []) (j : Nat) (p : CbPc) : setCb s j p = s := by
  cases s
  simp_all [setCb, setTrk]

theorem reach_of_clean_init (sc : SCfg) {ss' : SSt} (h : clean ss'.cur = init) : MReach (curCfg sc ss') (view ss') := by
  unfold view; rw [h]; exact MReach.start _

/-- Fields that the set-up of the next call rewrites may change freely while the caller is parked before it. -/
theorem clean_junk {s s' : St} (hp : s.pc = .resetAcq)
    (h : s' = { s with nDispTasks := s'.nDispTasks, nCompleted := s'.nCompleted, exception := s'.exception,
                       aborting := s'.aborting, aborted := s'.aborted, ready := s'.ready, origAlive := s'.origAlive,
                       preLeft := s'.preLeft, iterating := s'.iterating }) : clean s' = clean s := by
  have hp' : s'.pc = .resetAcq := by rw [h]; exact hp
  unfold clean
  rw [hp, hp']
  simp only
  rw [h]

/-- A step of a thread of the finished call while the caller is parked before `_reset_run_tracking` and `_aborting` is
set: its own tracker, the lock, and fields that the set-up of the next call rewrites. -/
theorem SeqInv.oldJunk {sc : SCfg} {ss ss' : SSt} (h : SeqInv sc ss) {i : Nat} (hi : i < ss.old.length)
    (_hp : ss.cur.pc = .resetAcq) (hb : Between ss) {t' : Tracker}
    (hold : ss'.old = ss.old.set i { getOld ss i with t := t' })
    (hcid : t'.callId = (getOld ss i).t.callId)
    (hk : ss'.k = ss.k) (houts : ss'.outs = ss.outs) (hcb : ss'.callBase = ss.callBase)
    (hcl : clean ss'.cur = clean ss.cur) (hpc : ss'.cur.pc = ss.cur.pc) (hab : ss'.cur.aborting = true)
    (hnh : t'.pc.holding = false)
    (hown : ss'.oldOwner = if (getOld ss i).t.pc.holding then none else ss.oldOwner) : SeqInv sc ss' := by
  apply h.oldStep hi hold hcid hk houts hcb hpc (reach_of_clean_init sc (by rw [hcl]; exact hb.eq))
  · rw [hown]; simp [hnh]
  · intro hh; rw [hnh] at hh; cases hh
  · intro hh; rw [hnh] at hh; cases hh
  · intro _; exact ⟨by rw [hcl]; exact hb.eq, Or.inl hab⟩

theorem stepOld_fresh_inv {sc : SCfg} {ss : SSt} {i : Nat} (h : SeqInv sc ss) (hok : SCfgOK sc) (he : oldEnabled ss i = true)
    (hst : ss.callBase + ss.cur.callId = (getOld ss i).t.callId) : SeqInv sc (stepOld sc i ss) := by
  have hi := oldEnabled_lt he
  obtain ⟨hp, hcid⟩ := h.fresh_between hok hi hst
  have hb := h.between hp
  have hns : (ss.callBase + ss.cur.callId != (getOld ss i).t.callId) = false := by simpa using hst
  by_cases ha : ss.cur.aborting = true
  · have hlk : (getOld ss i).t.pc.holding = true → ss.oldOwner = some i := h.oldLock i hi
    have hfreeL : ((getOld ss i).t.pc = .acqA ∨ (getOld ss i).t.pc = .acqC) → ss.oldOwner = none := by
      intro hh
      unfold oldEnabled lockFree at he
      rcases hh with hh | hh <;> rw [hh] at he <;> simp at he <;> exact he.2
    cases hpc : (getOld ss i).t.pc with
    | idle => unfold oldEnabled at he; rw [hpc] at he; cases he
    | parked => unfold oldEnabled at he; rw [hpc] at he; cases he
    | dropped => unfold oldEnabled at he; rw [hpc] at he; cases he
    | done b => unfold oldEnabled at he; rw [hpc] at he; cases he
    | acqA =>
      unfold stepOld; simp only [hpc, hns, ha, Bool.false_eq_true, if_false, if_true]
      apply h.oldJunk hi hp hb (t' := { (getOld ss i).t with pc := .relA false }) <;>
        first | rfl | exact ha | simp [setOldPc, hpc, CbPc.holding]
    | relA ok =>
      unfold stepOld; simp only [hpc]
      apply h.oldJunk hi hp hb (t' := { (getOld ss i).t with pc := if ok then .stats else .done false }) <;>
        first | rfl | exact ha | (cases ok <;> rfl) | simp [setOldPc, hpc, CbPc.holding]
    | stats =>
      unfold stepOld; simp only [hpc]
      apply h.oldJunk hi hp hb (t' := { (getOld ss i).t with pc := .acqC }) <;>
        first | rfl | exact ha | simp [setOldPc, hpc, CbPc.holding]
    | relC =>
      unfold stepOld; simp only [hpc]
      apply h.oldJunk hi hp hb (t' := { (getOld ss i).t with pc := .done true }) <;>
        first | rfl | exact ha | simp [setOldPc, hpc, CbPc.holding]
    | retr =>
      have hown := hlk (by rw [hpc]; rfl)
      unfold stepOld; simp only [hpc]
      split
      · apply h.oldJunk hi hp hb (t' := { (getOld ss i).t with pc := .relA ((getOld ss i).t.failed == none) }) <;>
          first | rfl | exact ha | simp [setOldPc, hpc, CbPc.holding]
      · split
        · rename_i id hf
          apply h.oldJunk hi hp hb (t' := { (getOld ss i).t with status := .error, result := .exc (.task id), pc := .relA false }) <;>
            first | rfl | (unfold clean; simp [hp]) | simp [setOldPc, hpc, CbPc.holding]
        · apply h.oldJunk hi hp hb (t' := { (getOld ss i).t with status := .done, result := .vals (getOld ss i).t.items, pc := .relA true }) <;>
            first | rfl | exact ha | simp [setOldPc, hpc, CbPc.holding]
    | acqC =>
      have hfree := hfreeL (Or.inr hpc)
      unfold stepOld; simp only [hpc, hns, Bool.and_false, Bool.false_eq_true, if_false]
      by_cases ho : ss.cur.origAlive = true
      · simp only [ho, ha, if_true, oldAfterDispatch, Bool.false_eq_true, if_false]
        apply h.oldJunk hi hp hb (t' := { (getOld ss i).t with pc := .relC }) <;>
          first | rfl | exact ha | (unfold clean; simp [setOldPc, hp]; done) |
            (simp [setOldPc, hpc, CbPc.holding, hfree]; done) |
            (simp [setOldPc, setOld, getOld, hpc, CbPc.holding, hi, getD_set_self]; done)
      · simp only [ho, Bool.false_eq_true, if_false]
        apply h.oldJunk hi hp hb (t' := { (getOld ss i).t with pc := .relC }) <;>
          first | rfl | exact ha | (unfold clean; simp [setOldPc, hp]; done) |
            (simp [setOldPc, hpc, CbPc.holding, hfree]; done) |
            (simp [setOldPc, setOld, getOld, hpc, CbPc.holding, hi, getD_set_self]; done)
    | bsC =>
      have hown := hlk (by rw [hpc]; rfl)
      have hd : ∀ c bs, dispatchLocked c (i + 1) true bs ss.cur = (ss.cur, .ret false) :=
        fun c bs => dispatchLocked_aborting c (i + 1) true bs ss.cur ha
      unfold stepOld; simp only [hpc]
      unfold oldDispatch
      simp only [hd, oldAfterDispatch, Nat.sub_self, List.take_zero, List.map_nil, List.nil_append, Bool.false_eq_true,
        if_false]
      apply h.oldJunk hi hp hb (t' := { (getOld ss i).t with pc := .relC }) <;>
        first | rfl | exact ha | (unfold clean; simp [setOldPc, hp]; done) |
          (simp [setOldPc, hpc, CbPc.holding, hown]; done) |
          (simp [setOldPc, setOld, getOld, hpc, CbPc.holding, hi, getD_set_self]; done)
    | submitC j =>
      have hown := hlk (by rw [hpc]; rfl)
      have htrk : ss.cur.trk = [] := by
        have := congrArg St.trk hb.eq
        rw [(clean_frame ss.cur).2.2.1] at this
        exact this
      unfold stepOld; simp only [hpc, oldAfterDispatch, if_true]
      unfold oldSubmit
      by_cases hj : j < ss.old.length
      · simp only [hj, if_true]
        by_cases hji : j = i
        · subst hji
          apply h.oldJunk hi hp hb (t' := { (getOld ss j).t with pc := .relC }) <;>
            first | rfl | exact ha | (unfold clean; simp [setOldPc, hp]; done) |
              (simp [setOldPc, hpc, CbPc.holding, hown]; done) |
              (simp [setOldPc, setOld, getOld, hpc, CbPc.holding, hi, getD_set_self]; done)
        · have hnj : (getOld ss j).t.pc.holding = false := by
            cases hh : (getOld ss j).t.pc.holding with
            | false => rfl
            | true =>
              have := h.oldLock j hj hh
              rw [hown] at this
              exact absurd (Option.some.inj this).symm hji
          have h1 : SeqInv sc (setOldPc { ss with hist := Ev.submit (i + 1) ((getOld ss j).t.items.map
              (· + sc.base (getOld ss j).call)) :: ss.hist } j .parked) := by
            apply h.oldJunk hj hp hb (t' := { (getOld ss j).t with pc := .parked }) <;>
              first | rfl | exact ha | (rw [hnj]; rfl)
          have hg1 : getOld (setOldPc { ss with hist := Ev.submit (i + 1) ((getOld ss j).t.items.map
              (· + sc.base (getOld ss j).call)) :: ss.hist } j .parked) i = getOld ss i := by
            simp [setOldPc, setOld, getOld, List.getD_eq_getElem?_getD, List.getElem?_set, hji]
          have e1 : (setOldPc { ss with hist := Ev.submit (i + 1) ((getOld ss j).t.items.map
              (· + sc.base (getOld ss j).call)) :: ss.hist } j .parked).cur = ss.cur := rfl
          have e2 : (setOldPc { ss with hist := Ev.submit (i + 1) ((getOld ss j).t.items.map
              (· + sc.base (getOld ss j).call)) :: ss.hist } j .parked).old.length = ss.old.length := by
            simp [setOldPc]
          generalize setOldPc { ss with hist := Ev.submit (i + 1) ((getOld ss j).t.items.map
              (· + sc.base (getOld ss j).call)) :: ss.hist } j .parked = ss1 at h1 hg1 e1 e2 ⊢
          have hp1 : ss1.cur.pc = .resetAcq := by rw [e1]; exact hp
          apply h1.oldJunk (i := i) (by rw [e2]; exact hi) hp1 (h1.between hp1)
            (t' := { (getOld ss1 i).t with pc := .relC }) <;>
            first | rfl | (rw [e1]; exact ha) | (rw [hg1, hpc]; rfl)
      · simp only [hj, if_false]
        rw [setCb_nil htrk]
        apply h.oldJunk hi hp hb (t' := { (getOld ss i).t with pc := .relC }) <;>
          first | rfl | exact ha | (unfold clean; simp [setOldPc, hp]; done) |
            (simp [setOldPc, hpc, CbPc.holding, hown]; done) |
            (simp [setOldPc, setOld, getOld, hpc, CbPc.holding, hi, getD_set_self]; done)
  · -- nobody is aborting: every thread of the finished call is past `dispatch_next`
    have hq : quietPc (getOld ss i).t.pc = true := by
      rcases hb.quiet with h1 | h1
      · exact absurd h1 ha
      · exact h1 _ (getOld_mem ss i hi) hcid
    have hpc : (getOld ss i).t.pc = .relC := by
      unfold oldEnabled at he
      cases hpc : (getOld ss i).t.pc <;> simp_all [quietPc]
    have hstep : stepOld sc i ss = setOldPc ss i (.done true) := by
      unfold stepOld; simp only [hpc]
    rw [hstep]
    apply h.oldStep (ss' := setOldPc ss i (.done true)) hi (t' := { (getOld ss i).t with pc := .done true })
      rfl rfl rfl rfl rfl rfl h.reach
    · simp [setOldPc, hpc, CbPc.holding]
    · intro hh; simp [CbPc.holding] at hh
    · intro hh; simp [CbPc.holding] at hh
    · intro _
      refine ⟨hb.eq, ?_⟩
      rcases hb.quiet with h1 | h1
      · exact Or.inl h1
      · right
        intro o ho hc
        rcases mem_setOld ho with ho | ⟨_, ho⟩
        · exact h1 o ho hc
        · subst ho; rfl

theorem oldAfterDispatch_pc (i : Nat) (ss : SSt) (r : Bool) : (oldAfterDispatch i ss r).cur.pc = ss.cur.pc := by
  unfold oldAfterDispatch
  cases r <;> simp [setOldPc]

theorem oldDispatch_pc (sc : SCfg) (i : Nat) (ss : SSt) (bs : Nat) : (oldDispatch sc i ss bs).cur.pc = ss.cur.pc := by
  have hf := (dispatchLocked_frame (curCfg sc ss) (i + 1) true bs ss.cur).1
  unfold oldDispatch
  simp only
  split <;> simp [setOldPc, oldAfterDispatch_pc, hf]

theorem oldSubmit_pc (sc : SCfg) (i j : Nat) (ss : SSt) : (oldSubmit sc i j ss).cur.pc = ss.cur.pc := by
  unfold oldSubmit
  split <;> simp [setOldPc, setCb, setTrk]

/-- A thread of an earlier call never moves the caller (any variant). -/
theorem stepOld_pc (sc : SCfg) (i : Nat) (ss : SSt) : (stepOld sc i ss).cur.pc = ss.cur.pc := by
  unfold stepOld
  simp only
  split
  · split
    · simp [setOldPc]
    · split <;> simp [setOldPc]
  · split
    · simp [setOldPc]
    · split <;> simp [setOldPc]
  · simp [setOldPc]
  · simp [setOldPc]
  · split
    · simp [setOldPc]
    · split
      · split
        · simp [oldAfterDispatch_pc, setOldPc]
        · split
          · simp [setOldPc]
          · simp [oldDispatch_pc, setOldPc]
      · simp [setOldPc]
  · simp [oldDispatch_pc]
  · simp [oldAfterDispatch_pc, oldSubmit_pc]
  · simp [setOldPc]
  · rfl

/-- Every step of a thread of an earlier call preserves the invariant (guarded variant). -/
theorem stepOld_inv {sc : SCfg} {ss : SSt} {i : Nat} (h : SeqInv sc ss) (hok : SCfgOK sc)
    (hg : sc.dispatchNewGuard = true) (he : oldEnabled ss i = true) : SeqInv sc (stepOld sc i ss) := by
  by_cases hst : ss.callBase + ss.cur.callId = (getOld ss i).t.callId
  · exact stepOld_fresh_inv h hok he hst
  · exact stepOld_stale_inv h hok hg he hst

/-- The backend finishes a parked batch of an earlier call. -/
theorem completeOld_inv {sc : SCfg} {ss : SSt} {i : Nat} (h : SeqInv sc ss) (hi : i < ss.old.length)
    (hpc : (getOld ss i).t.pc = .parked) : SeqInv sc (completeOld sc i ss) := by
  unfold completeOld
  simp only
  apply h.oldStep hi (t' := { (getOld ss i).t with pc := .acqA, failed := ((getOld ss i).t.items.find? (fun id =>
      ((sc.calls.getD (getOld ss i).call default).fails).contains id)) }) <;>
    first | rfl | exact h.reach | skip
  · simp [hpc, CbPc.holding]
  · intro hh; simp [CbPc.holding] at hh
  · intro hh; simp [CbPc.holding] at hh
  · intro hp
    have hb := h.between hp
    refine ⟨hb.eq, ?_⟩
    rcases hb.quiet with h1 | h1
    · exact Or.inl h1
    · right
      intro o ho hc
      rcases mem_setOld ho with ho | ⟨_, ho⟩
      · exact h1 o ho hc
      · exfalso
        subst ho
        have := h1 _ (getOld_mem ss i hi) hc
        rw [hpc] at this
        cases this

end JoblibModel.ParallelLockSeq
