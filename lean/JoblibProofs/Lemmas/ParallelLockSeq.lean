import JoblibProofs.Lemmas.ParallelLockSeq.Run
import JoblibProofs.Lemmas.ParallelLockSeq.Trace
/-! Umbrella import for the M1L-Seq (`ParallelLockSeq`) lemma files. -/
