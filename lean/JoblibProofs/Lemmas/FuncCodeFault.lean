import JoblibModel.FuncCodeFault
import JoblibProofs.Lemmas.FuncCode
/-! Helper lemmas for the write-fault extension of C12 (`JoblibModel.FuncCodeFault`). Core Lean only.

Plan: with the code as it is (`swallow = false`) a faulted operation either RAISES — and then leaves the
wrapper's cell as `⟨missing or empty file, no entry, no writer⟩`, which has `CellInv` — or the fault did not
fire and the operation is the plain one. So `Inv` of `Lemmas.FuncCode` is kept by every faulted step. -/
namespace JoblibModel.FuncCode
open JoblibModel.FilterArgs (dget dset dget_dset_self dget_dset_ne)

variable {R : Type}

/-- What the property demands of one step of a history with faults: a faulted operation may raise (the
injected `OSError`), a plain one may not; a value that IS returned is the value the current code computes. -/
def CorrectF (sem : Src → Nat → R) (st : State R) (fop : FOp) : FOut R → Prop
  | .raised => ∃ f op, fop = .faulty f op
  | .out o => Correct sem st fop.op o

def AllCorrectF (cfg : Cfg) (swallow : Bool) (sem : Src → Nat → R) : State R → List FOp → Prop
  | _, [] => True
  | st, op :: ops =>
    CorrectF sem st op (stepF cfg swallow sem st op).1 ∧ AllCorrectF cfg swallow sem (stepF cfg swallow sem st op).2 ops

instance [DecidableEq R] (sem : Src → Nat → R) (st : State R) (fop : FOp) (out : FOut R) :
    Decidable (CorrectF sem st fop out) := by
  cases out with
  | raised =>
    cases fop with
    | plain op => exact isFalse (by rintro ⟨f, o, h⟩; cases h)
    | faulty f op => exact isTrue ⟨f, op, rfl⟩
  | out o => simp only [CorrectF]; exact inferInstance

instance instDecidableAllCorrectF [DecidableEq R] (cfg : Cfg) (swallow : Bool) (sem : Src → Nat → R) :
    ∀ (st : State R) (ops : List FOp), Decidable (AllCorrectF cfg swallow sem st ops)
  | _, [] => isTrue trivial
  | st, op :: ops =>
    have := instDecidableAllCorrectF cfg swallow sem (stepF cfg swallow sem st op).2 ops
    show Decidable (_ ∧ _) from inferInstance

/-! ## the failing write -/

theorem cell_writeFails {cfg : Cfg} (st : State R) {t : Target} (hk : wkey cfg t.key t.dir = t.dir)
    (f : WriteFault) :
    cell (writeFails cfg st t f) t.dir =
      ⟨leftBy (dirAt st t.dir).code f, (dirAt st t.dir).entries, none⟩ := by
  simp [cell, writeFails, dirAt, hk, dget_dset_self, dget_ddel_self]

theorem cell_writeFails_ne {cfg : Cfg} (st : State R) {t : Target} (hk : wkey cfg t.key t.dir = t.dir)
    (f : WriteFault) {d : Loc} (h : d ≠ t.dir) : cell (writeFails cfg st t f) d = cell st d := by
  simp [cell, writeFails, dirAt, hk, dget_dset_ne h, dget_ddel_ne h]

theorem cellInv_left (sem : Src → Nat → R) (f : WriteFault) :
    CellInv sem (⟨leftBy .missing f, [], none⟩ : Cell R) := by
  cases f with
  | onOpen => exact cellInv_empty sem
  | onWrite =>
    exact ⟨fun h => (by simp [leftBy] at h), fun s h => (by simp [leftBy] at h), fun o k h => (by cases h),
      fun s o k h => (by simp [leftBy] at h)⟩

/-- A write that fails in a function directory without `func_code.py` and without entries keeps the invariant. -/
theorem inv_writeFails {cfg : Cfg} {sem : Src → Nat → R} {st : State R} {t : Target} (f : WriteFault)
    (hd : ∀ d, d ≠ t.dir → CellInv sem (cell st d))
    (hw : ∀ w W, dget w st.wraps = some W → InfoOK W.ic ∧ wkey cfg W.key W.dir = W.dir)
    (hk : wkey cfg t.key t.dir = t.dir) (he : (dirAt st t.dir).entries = [])
    (hc : (dirAt st t.dir).code = .missing) :
    Inv cfg sem (writeFails cfg st t f) := by
  refine ⟨fun d => ?_, hw⟩
  by_cases e : d = t.dir
  · subst e
    rw [cell_writeFails st hk f, he, hc]
    exact cellInv_left sem f
  · rw [cell_writeFails_ne st hk f e]; exact hd d e

/-- … also after `clear_path`. -/
theorem inv_clearPath_writeFails {cfg : Cfg} {sem : Src → Nat → R} {st : State R} {t : Target} (f : WriteFault)
    (hd : ∀ d, d ≠ t.dir → CellInv sem (cell st d))
    (hw : ∀ w W, dget w st.wraps = some W → InfoOK W.ic ∧ wkey cfg W.key W.dir = W.dir)
    (hk : wkey cfg t.key t.dir = t.dir) :
    Inv cfg sem (writeFails cfg (clearPath st t) t f) := by
  refine inv_writeFails f (fun d e => ?_) hw hk (by simp [clearPath, dirAt, dget_dset_self])
    (by simp [clearPath, dirAt, dget_dset_self])
  have : cell (clearPath st t) d = cell st d := by
    simp [cell, clearPath, dirAt, dget_dset_ne e]
  rw [this]; exact hd d e

/-- With the code as it is, the faulted check either raises or IS the plain check (the fault did not fire). -/
theorem checkPreviousF_raised_or_plain (cfg : Cfg) (st : State R) (t : Target) (f : WriteFault) :
    (checkPreviousF cfg false st t f).1 = none ∨
      checkPreviousF cfg false st t f = (some (checkPrevious cfg st t).1, (checkPrevious cfg st t).2) := by
  unfold checkPreviousF checkPrevious
  split
  · exact .inr rfl
  · cases (dirAt st t.dir).code with
    | missing => exact .inl rfl
    | unreadable => exact .inl rfl
    | other => exact .inl rfl
    | ok old =>
      simp only
      split
      · exact .inr rfl
      · exact .inl rfl

/-- … and keeps the invariant either way. -/
theorem inv_checkPreviousF {cfg : Cfg} (hg : Good cfg) {sem : Src → Nat → R} {st : State R}
    (hi : Inv cfg sem st) {t : Target} (ht : TOK cfg t) (f : WriteFault) :
    Inv cfg sem (checkPreviousF cfg false st t f).2 := by
  obtain ⟨hic, hk⟩ := ht
  obtain ⟨_, f2⟩ := funcCodeInfo_fixed hg.iu (cur := t.cur) hic
  have hw' := wraps_dset hi.wraps t.w (W := t.wrapper (funcCodeInfo cfg t.cur t.ic).2) ⟨f2, hk⟩
  have hc := hi.dirs t.dir
  unfold checkPreviousF
  split
  · exact hi
  · cases hcode : (dirAt st t.dir).code with
    | missing =>
      exact inv_writeFails (sem := sem)
        (st := { st with wraps := dset t.w (t.wrapper (funcCodeInfo cfg t.cur t.ic).2) st.wraps })
        f (fun d _ => hi.dirs d) hw' hk (hc.missing hcode).1 hcode
    | unreadable =>
      exact inv_clearPath_writeFails (sem := sem)
        (st := { st with wraps := dset t.w (t.wrapper (funcCodeInfo cfg t.cur t.ic).2) st.wraps })
        f (fun d _ => hi.dirs d) hw' hk
    | other =>
      exact inv_clearPath_writeFails (sem := sem)
        (st := { st with wraps := dset t.w (t.wrapper (funcCodeInfo cfg t.cur t.ic).2) st.wraps })
        f (fun d _ => hi.dirs d) hw' hk
    | ok old =>
      simp only
      split
      · exact ⟨hi.dirs, hw'⟩
      · exact inv_clearPath_writeFails (sem := sem)
          (st := { st with wraps := dset t.w (t.wrapper (funcCodeInfo cfg t.cur t.ic).2) st.wraps })
          f (fun d _ => hi.dirs d) hw' hk

/-! ## one step with a fault -/

/-- With the code as it is, a faulted operation either raises or is the plain operation. -/
theorem stepF_raised_or_plain (cfg : Cfg) (sem : Src → Nat → R) (st : State R) (f : WriteFault) (op : Op) :
    (stepF cfg false sem st (.faulty f op)).1 = .raised ∨
      stepF cfg false sem st (.faulty f op) = (.out (step cfg sem st op).1, (step cfg sem st op).2) := by
  cases op with
  | call w a =>
    simp only [stepF, step]
    cases hl : lookup st w with
    | none => exact .inr rfl
    | some t =>
      rcases checkPreviousF_raised_or_plain cfg st t f with h | h
      · left; simp only [h]
      · right; simp only [h, isInCache]
        split <;> simp_all
  | check w a =>
    simp only [stepF, step]
    cases hl : lookup st w with
    | none => exact .inr rfl
    | some t =>
      rcases checkPreviousF_raised_or_plain cfg st t f with h | h
      · left; simp only [h]
      · right; simp only [h, isInCache]
        split <;> simp_all
  | clearFn w =>
    simp only [stepF, step]
    cases hl : lookup st w with
    | none => exact .inr rfl
    | some t => left; simp [failWrite]
  | define o k named loc => exact .inr rfl
  | wrap w o key dir => exact .inr rfl
  | swap o c => exact .inr rfl
  | clearAll d => exact .inr rfl
  | damage d dm => exact .inr rfl
  | fresh => exact .inr rfl

/-- One step of the code as it is — plain, or with a failing write of `func_code.py` — keeps the invariant
and is `CorrectF`. -/
theorem stepF_spec {cfg : Cfg} (hg : Good cfg) {sem : Src → Nat → R} {st : State R} (hi : Inv cfg sem st)
    (fop : FOp) (hnd : NoDelete fop.op) (hk : KeyOK cfg fop.op) :
    Inv cfg sem (stepF cfg false sem st fop).2 ∧ CorrectF sem st fop (stepF cfg false sem st fop).1 := by
  cases fop with
  | plain op => exact step_spec hg hi op hnd hk
  | faulty f op =>
    rcases stepF_raised_or_plain cfg sem st f op with h | h
    · refine ⟨?_, by rw [h]; exact ⟨f, op, rfl⟩⟩
      -- the raising cases: call / check / clearFn through a live wrapper
      cases op with
      | call w a =>
        simp only [stepF] at h ⊢
        cases hl : lookup st w with
        | none => simp [hl] at h
        | some t =>
          simp only [hl] at h ⊢
          have hinv := inv_checkPreviousF hg hi (lookup_tok hi hl) f
          cases hr : (checkPreviousF cfg false st t f).1 with
          | none => simp only; exact hinv
          | some b =>
            simp only [hr] at h
            split at h <;> cases h
      | check w a =>
        simp only [stepF] at h ⊢
        cases hl : lookup st w with
        | none => simp [hl] at h
        | some t =>
          simp only [hl] at h ⊢
          have hinv := inv_checkPreviousF hg hi (lookup_tok hi hl) f
          cases hr : (checkPreviousF cfg false st t f).1 with
          | none => simp only; exact hinv
          | some b => simp [hr] at h
      | clearFn w =>
        simp only [stepF] at h ⊢
        cases hl : lookup st w with
        | none => simp [hl] at h
        | some t =>
          obtain ⟨hic, hkk⟩ := lookup_tok hi hl
          obtain ⟨_, f2⟩ := funcCodeInfo_fixed hg.iu (cur := t.cur) hic
          simp only [failWrite]
          exact inv_clearPath_writeFails (sem := sem)
            (st := { st with wraps := dset w (t.wrapper (funcCodeInfo cfg t.cur t.ic).2) st.wraps })
            f (fun d _ => hi.dirs d)
            (wraps_dset hi.wraps w (W := t.wrapper (funcCodeInfo cfg t.cur t.ic).2) ⟨f2, hkk⟩) hkk
      | define o k named loc => simp [stepF] at h
      | wrap w o key dir => simp [stepF] at h
      | swap o c => simp [stepF] at h
      | clearAll d => simp [stepF] at h
      | damage d dm => simp [stepF] at h
      | fresh => simp [stepF] at h
    · rw [h]
      exact step_spec hg hi op hnd hk

theorem allCorrectF_of_inv {cfg : Cfg} (hg : Good cfg) {sem : Src → Nat → R} :
    ∀ (ops : List FOp) (st : State R), Inv cfg sem st →
    (∀ op ∈ ops, NoDelete op.op) → (∀ op ∈ ops, KeyOK cfg op.op) → AllCorrectF cfg false sem st ops
  | [], _, _, _, _ => trivial
  | op :: ops, _, hi, hnd, hk =>
    ⟨(stepF_spec hg hi op (hnd op List.mem_cons_self) (hk op List.mem_cons_self)).2,
      allCorrectF_of_inv hg ops _ (stepF_spec hg hi op (hnd op List.mem_cons_self) (hk op List.mem_cons_self)).1
        (fun o ho => hnd o (List.mem_cons_of_mem _ ho)) (fun o ho => hk o (List.mem_cons_of_mem _ ho))⟩

theorem inv_execF {cfg : Cfg} (hg : Good cfg) {sem : Src → Nat → R} :
    ∀ (ops : List FOp) (st : State R), Inv cfg sem st →
    (∀ op ∈ ops, NoDelete op.op) → (∀ op ∈ ops, KeyOK cfg op.op) → Inv cfg sem (execF cfg false sem st ops)
  | [], _, hi, _, _ => hi
  | op :: ops, _, hi, hnd, hk =>
    inv_execF hg ops _ (stepF_spec hg hi op (hnd op List.mem_cons_self) (hk op List.mem_cons_self)).1
      (fun o ho => hnd o (List.mem_cons_of_mem _ ho)) (fun o ho => hk o (List.mem_cons_of_mem _ ho))

end JoblibModel.FuncCode
