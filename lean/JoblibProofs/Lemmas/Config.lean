import JoblibModel.Config
/-! Helper lemmas for C17 (kept apart from the property theorems). Core Lean only. -/
namespace JoblibModel.Config

deriving instance DecidableEq for Except

theorem update_get (old a : Config) (k : Key) :
    (update old a).get k = (a.get k).orElse fun _ => old.get k := by
  cases k <;> rfl

theorem set_get_ne (c : Config) (k k' : Key) (v : Slot) (h : k' ≠ k) :
    (c.set k v).get k' = c.get k' := by
  cases k <;> cases k' <;> first | rfl | exact absurd rfl h

theorem set_get_same (c : Config) (k : Key) (v : Slot) : (c.set k v).get k = v := by
  cases k <;> rfl

theorem unset_get (k : Key) : Config.unset.get k = none := by cases k <;> rfl

/-- The configuration inside blocks = innermost block that sets the key. -/
theorem stackCfg_get (stack : List Config) (k : Key) :
    (stackCfg stack).get k = stack.findSome? (·.get k) := by
  induction stack with
  | nil => simp [stackCfg, unset_get]
  | cons a st ih =>
    simp only [stackCfg, update_get, List.findSome?_cons, ih]
    cases a.get k <;> rfl

theorem parallelConfigInit_ok {cur args : Config} {cm : Ctx} {c' : Config}
    (h : parallelConfigInit cur args = .ok (cm, c')) :
    cm.old_parallel_config = cur ∧ cm.parallel_config = c' ∧
      ∃ nc, newConfig cur args = .ok nc ∧ c' = update cur nc := by
  unfold parallelConfigInit at h
  cases hn : newConfig cur args with
  | error e => simp [hn, bind, Except.bind] at h
  | ok nc =>
    simp [hn, bind, Except.bind, pure, Except.pure] at h
    obtain ⟨h1, h2⟩ := h
    subst h1
    exact ⟨rfl, h2, nc, rfl, h2.symm⟩

theorem newConfig_get {old args nc : Config} (h : newConfig old args = .ok nc) (k : Key)
    (hk : k ≠ .backend) : nc.get k = args.get k := by
  unfold newConfig at h
  cases hb : checkBackend old args.backend with
  | error e => simp [hb, bind, Except.bind] at h
  | ok b =>
    simp [hb, bind, Except.bind, pure, Except.pure] at h
    subst h
    cases k <;> first | rfl | exact absurd rfl hk

theorem runThreadV_append (v : Variant) (env : Env) (s : TState) (a b : List Op) :
    runThreadV v env s (a ++ b) =
      ((runThreadV v env (runThreadV v env s a).1 b).1,
        (runThreadV v env s a).2 ++ (runThreadV v env (runThreadV v env s a).1 b).2) := by
  induction a generalizing s with
  | nil => simp [runThreadV]
  | cons op ops ih =>
    simp only [List.cons_append, runThreadV]
    rw [ih]

theorem runThread_append (env : Env) (s : TState) (a b : List Op) :
    runThread env s (a ++ b) =
      ((runThread env (runThread env s a).1 b).1,
        (runThread env s a).2 ++ (runThread env (runThread env s a).1 b).2) :=
  runThreadV_append Variant.code env s a b

theorem runThreadV_cons (v : Variant) (env : Env) (s : TState) (op : Op) (ops : List Op) :
    (runThreadV v env s (op :: ops)).1 = (runThreadV v env (stepV v env s op).1 ops).1 := by
  simp [runThreadV]

theorem runThread_cons (env : Env) (s : TState) (op : Op) (ops : List Op) :
    (runThread env s (op :: ops)).1 = (runThread env (step env s op).1 ops).1 :=
  runThreadV_cons Variant.code env s op ops

theorem runThread_nil (env : Env) (s : TState) : (runThread env s []).1 = s := rfl

/-- Everything `createObj` does when the constructor returns. -/
theorem createObj_ok {s : TState} {args : Config} {o : Obj} {s' : TState}
    (h : createObj s args = .ok (o, s')) :
    parallelConfigInit s.cfg args = .ok (o.cm, s'.cfg) ∧ o.id = s.objs.length ∧
      o.oldOwner = s.cur ∧ s'.stack = s.stack ∧ s'.objs = s.objs ++ [o] ∧ s'.cur = some o.id := by
  unfold createObj at h
  split at h
  · rename_i cm cfg hp
    cases h
    exact ⟨hp, rfl, rfl, rfl, rfl, rfl⟩
  · cases h

theorem createObj_error {s : TState} {args : Config} {e : Err}
    (h : parallelConfigInit s.cfg args = .error e) : createObj s args = .error e := by
  unfold createObj; rw [h]

theorem createObj_of_ok {s : TState} {args : Config} {cm : Ctx} {cfg : Config}
    (h : parallelConfigInit s.cfg args = .ok (cm, cfg)) :
    createObj s args = .ok (⟨s.objs.length, cm, s.cur⟩,
      { s with cfg := cfg, objs := s.objs ++ [⟨s.objs.length, cm, s.cur⟩],
               cur := some s.objs.length }) := by
  unfold createObj; rw [h]

/-- `unregister()` of joblib as it is: the saved configuration, unconditionally. -/
theorem unregisterV_code (s : TState) (o : Obj) :
    unregisterV Variant.code s o = { s with cfg := o.cm.old_parallel_config, cur := o.oldOwner } := by
  simp [unregisterV, Variant.code, unregister]

theorem step_enter_ok (env : Env) {s : TState} {args : Config} {cm : Ctx} {cfg : Config}
    (h : parallelConfigInit s.cfg args = .ok (cm, cfg)) :
    (step env s (.enter args)).1 =
      ⟨cfg, ⟨s.objs.length, cm, s.cur⟩ :: s.stack, s.objs ++ [⟨s.objs.length, cm, s.cur⟩],
        some s.objs.length⟩ := by
  simp only [step, stepV, createObj_of_ok h]

theorem step_exit_cons (env : Env) {s : TState} {o : Obj} {rest : List Obj}
    (h : s.stack = o :: rest) :
    (step env s .exit).1 =
      { s with stack := rest, cfg := o.cm.old_parallel_config, cur := o.oldOwner } := by
  simp only [step, stepV, exitStep, h, unregisterV_code]

theorem exitStep_cons {s : TState} {o : Obj} {rest : List Obj} (h : s.stack = o :: rest) :
    (exitStep Variant.code s).1 =
      { s with stack := rest, cfg := o.cm.old_parallel_config, cur := o.oldOwner } := by
  simp only [exitStep, h, unregisterV_code]

theorem unregisterV_objs (v : Variant) (s : TState) (o : Obj) : (unregisterV v s o).objs = s.objs := by
  unfold unregisterV; split <;> rfl

theorem unregisterV_stack (v : Variant) (s : TState) (o : Obj) :
    (unregisterV v s o).stack = s.stack := by
  unfold unregisterV; split <;> rfl

theorem unregStep_stack (v : Variant) (s : TState) (k : Nat) : (unregStep v s k).1.stack = s.stack := by
  unfold unregStep; split
  · exact unregisterV_stack v s _
  · rfl

theorem getElem?_append_some {α : Type} (l l' : List α) (k : Nat) (o : α) (h : l[k]? = some o) :
    (l ++ l')[k]? = some o := by
  induction l generalizing k with
  | nil => simp at h
  | cons a t ih =>
    cases k with
    | zero => simpa using h
    | succ k => simp only [List.cons_append, List.getElem?_cons_succ] at h ⊢; exact ih k h

/-- A thread never forgets an object: the k-th object stays the k-th object, whatever it does. -/
theorem stepV_objs_get (v : Variant) (env : Env) (s : TState) (op : Op) (k : Nat) (o : Obj)
    (h : s.objs[k]? = some o) : (stepV v env s op).1.objs[k]? = some o := by
  cases op with
  | enter a =>
    simp only [stepV]
    cases hc : createObj s a with
    | error e => exact h
    | ok r =>
      obtain ⟨o', s'⟩ := r
      obtain ⟨_, _, _, _, ho, _⟩ := createObj_ok hc
      simp only [ho]
      exact getElem?_append_some _ _ _ _ h
  | create a =>
    simp only [stepV]
    cases hc : createObj s a with
    | error e => exact h
    | ok r =>
      obtain ⟨o', s'⟩ := r
      obtain ⟨_, _, _, _, ho, _⟩ := createObj_ok hc
      simp only [ho]
      exact getElem?_append_some _ _ _ _ h
  | exit =>
    simp only [stepV, exitStep]
    split
    · rw [unregisterV_objs]; exact h
    · exact h
  | unreg j =>
    simp only [stepV, unregStep]
    split
    · rw [unregisterV_objs]; exact h
    · exact h
  | par e => exact h
  | gab p r w => exact h
  | spawn c kd => exact h

theorem runThreadV_objs_get (v : Variant) (env : Env) (ops : List Op) (s : TState) (k : Nat) (o : Obj)
    (h : s.objs[k]? = some o) : (runThreadV v env s ops).1.objs[k]? = some o := by
  induction ops generalizing s with
  | nil => exact h
  | cons op ops ih =>
    rw [runThreadV_cons]
    exact ih _ (stepV_objs_get v env s op k o h)

/-- `with` blocks are lexically nested: a program leaves the stack of enclosing blocks as it
found it, whatever else it does. -/
theorem xrun_stack (p : XProg) (s : TState) : (xrun p s).state.stack = s.stack := by
  induction p generalizing s with
  | done => rfl
  | par e k ih => exact ih s
  | gab p q v k ih => exact ih s
  | block args body k ihb ihk =>
    simp only [xrun]
    cases h : createObj s args with
    | error e => rfl
    | ok r =>
      obtain ⟨o, s'⟩ := r
      obtain ⟨_, _, _, hstk, _, _⟩ := createObj_ok h
      have hb := ihb { s' with stack := o :: s'.stack }
      have he := exitStep_cons hb
      simp only []
      split
      · dsimp only; rw [he]; exact hstk
      · dsimp only; rw [ihk, he]; exact hstk
  | create args k ih =>
    simp only [xrun]
    cases h : createObj s args with
    | error e => rfl
    | ok r =>
      obtain ⟨o, s'⟩ := r
      obtain ⟨_, _, _, hstk, _, _⟩ := createObj_ok h
      simp only []
      rw [ih]; exact hstk
  | unreg i k ih =>
    simp only [xrun]
    rw [ih]; exact unregStep_stack _ s i
  | raise => rfl
  | try_ body k ihb ihk =>
    simp only [xrun]
    rw [ihk, ihb]

/-- A step of thread `u` leaves thread `t ≠ u` alone unless it starts `t`. -/
theorem gstepV_other (v : Variant) (env : Env) (g : Global) {u t : Nat} {op : Op}
    (hu : u ≠ t) (hs : ∀ k, op ≠ .spawn t k) : (gstepV v env g u op).1 t = g t := by
  cases op with
  | spawn c k =>
    simp only [gstepV]
    by_cases hc : t = c
    · subst hc; exact absurd rfl (hs k)
    · rw [if_neg hc]
  | enter a => simp only [gstepV]; rw [if_neg (Ne.symm hu)]
  | exit => simp only [gstepV]; rw [if_neg (Ne.symm hu)]
  | par e => simp only [gstepV]; rw [if_neg (Ne.symm hu)]
  | gab p r w => simp only [gstepV]; rw [if_neg (Ne.symm hu)]
  | create a => simp only [gstepV]; rw [if_neg (Ne.symm hu)]
  | unreg k => simp only [gstepV]; rw [if_neg (Ne.symm hu)]

/-- A step of thread `t` (other than starting itself) is `stepV` on its own state. -/
theorem gstepV_self (v : Variant) (env : Env) (g : Global) {t : Nat} {op : Op}
    (hs : ∀ k, op ≠ .spawn t k) :
    ((gstepV v env g t op).1 t, (gstepV v env g t op).2) = stepV v env (g t) op := by
  cases op with
  | spawn c k =>
    simp only [gstepV, stepV]
    by_cases hc : t = c
    · subst hc; exact absurd rfl (hs k)
    · rw [if_neg hc]
  | enter a => simp only [gstepV, if_true]
  | exit => simp only [gstepV, if_true]
  | par e => simp only [gstepV, if_true]
  | gab p r w => simp only [gstepV, if_true]
  | create a => simp only [gstepV, if_true]
  | unreg k => simp only [gstepV, if_true]

/-- Everything `_get_active_backend` does when it returns. -/
theorem getActive_ok {rep : Bool} {env : Env} {cfg : Config} {p r v : Slot} {a : Active}
    (h : getActiveBackendCore rep env cfg p r v = .ok a) :
    validHint (getConfigParam env.d p cfg .prefer) = true ∧
    validConstraint (getConfigParam env.d r cfg .require) = true ∧
    ¬ (getConfigParam env.d p cfg .prefer = .str "processes" ∧
        getConfigParam env.d r cfg .require = .str "sharedmem") ∧
    ∃ explicit b, contextBackend env cfg = .ok (explicit, b) ∧
      (if forceThreads explicit b.cls (getConfigParam env.d p cfg .prefer)
            (getConfigParam env.d r cfg .require) = true then
        a.backend = ⟨defaultThreadBackend, b.level⟩ ∧
        a.config = (if (rep && !explicit) = true then cfg else cfg.set .n_jobs (some (.int 1))) ∧
        fallbackMsg (getConfigParam env.d v cfg .verbose) explicit = .ok a.msg
      else if forceProcesses explicit b.cls (getConfigParam env.d p cfg .prefer) = true then
        a = ⟨⟨defaultProcessBackend, b.level⟩, cfg, false⟩
      else a = ⟨b, cfg, false⟩) := by
  unfold getActiveBackendCore at h
  simp only [] at h
  split at h
  · cases h
  · rename_i h1
    split at h
    · cases h
    · rename_i h2
      split at h
      · cases h
      · rename_i h3
        refine ⟨by simpa using h1, by simpa using h2, by simpa using h3, ?_⟩
        split at h
        · cases h
        · rename_i explicit b hcb
          refine ⟨explicit, b, hcb, ?_⟩
          split at h
          · rename_i hft
            rw [if_pos hft]
            split at h
            · cases h
            · rename_i msg hm
              cases h
              exact ⟨rfl, rfl, hm⟩
          · rename_i hft
            rw [if_neg hft]
            split at h
            · rename_i hfp
              rw [if_pos hfp]
              cases h; rfl
            · rename_i hfp
              rw [if_neg hfp]
              cases h; rfl

/-- `_get_active_backend` hands back the thread's configuration, changed at most at `n_jobs`. -/
theorem active_config_get {rep : Bool} {env : Env} {cfg : Config} {p r v : Slot} {a : Active}
    (h : getActiveBackendCore rep env cfg p r v = .ok a) (k : Key) (hk : k ≠ .n_jobs) :
    a.config.get k = cfg.get k := by
  obtain ⟨_, _, _, explicit, b, _, h4⟩ := getActive_ok h
  split at h4
  · obtain ⟨_, hc, _⟩ := h4
    rw [hc]
    split
    · rfl
    · exact set_get_ne _ _ _ _ hk
  · split at h4 <;> (subst h4; rfl)

theorem getConfigParam_congr (d : Defaults) (param : Slot) (c c' : Config) (k : Key)
    (h : c.get k = c'.get k) : getConfigParam d param c k = getConfigParam d param c' k := by
  unfold getConfigParam
  rw [h]

/-- Everything `Parallel.__init__` does when it returns. -/
theorem parallelInit_ok {r21 r22 : Bool} {env : Env} {cfg e : Config} {r : ParObs}
    (h : parallelInitCore r21 r22 env cfg e = .ok r) :
    ∃ a, getActiveBackendCore r22 env cfg e.prefer e.require e.verbose = .ok a ∧
      r.verbose = getConfigParam env.d e.verbose a.config .verbose ∧
      postMaxNbytes (getConfigParam env.d e.max_nbytes a.config .max_nbytes) = .ok r.max_nbytes ∧
      r.temp_folder = getConfigParam env.d e.temp_folder a.config .temp_folder ∧
      r.mmap_mode = getConfigParam env.d e.mmap_mode a.config .mmap_mode ∧
      r.prefer = getConfigParam env.d e.prefer a.config .prefer ∧
      r.require = getConfigParam env.d e.require a.config .require ∧
      kwVerbose r.verbose = .ok r.kw_verbose ∧
      chooseBackend a.backend e.backend = .ok r.backend ∧
      resolveNJobs env.d e.n_jobs a.config r.backend.cls = .ok r.n_jobs ∧
      r.msg = a.msg ∧
      ¬ (testedConstraint r21 r.require e.require = .str "sharedmem" ∧
          r.backend.cls.supportsSharedmem = false) := by
  unfold parallelInitCore at h
  simp only [bind, Except.bind, pure, Except.pure, throw, throwThe, MonadExceptOf.throw] at h
  split at h
  · cases h
  · rename_i a ha
    split at h
    · cases h
    · rename_i mx hmx
      split at h
      · cases h
      · rename_i kv hkv
        split at h
        · cases h
        · rename_i b hb
          split at h
          · cases h
          · rename_i n hn
            split at h
            · cases h
            · rename_i hc
              cases h
              refine ⟨a, ha, rfl, hmx, rfl, rfl, rfl, rfl, hkv, hb, hn, rfl, ?_⟩
              simpa using hc

/-! ### Which blocks a thread is inside (ghost state for `precedence`) -/

/-- Steps of a program that uses `with` blocks only (no object made by a plain call, no
`unregister()` by hand): for these "the blocks the thread is inside" is defined. -/
def Op.scoped : Op → Bool
  | .create _ => false
  | .unreg _ => false
  | _ => true

/-- The effective arguments (`new_config`) of the blocks the thread is inside, innermost first,
tracked along the steps. -/
def enclosingStep (st : List Config) : Op → List Config
  | .enter a => match newConfig (stackCfg st) a with
    | .ok nc => nc :: st
    | .error _ => st
  | .exit => st.tail
  | _ => st

def enclosing : List Config → List Op → List Config
  | st, [] => st
  | st, op :: ops => enclosing (enclosingStep st op) ops

def StackRel : List Config → List Obj → Prop
  | [], [] => True
  | _ :: st, o :: stk => o.cm.old_parallel_config = stackCfg st ∧ StackRel st stk
  | _, _ => False

theorem step_inv (env : Env) (st : List Config) (s : TState) (op : Op) (hop : op.scoped = true)
    (hc : s.cfg = stackCfg st) (hs : StackRel st s.stack) :
    (step env s op).1.cfg = stackCfg (enclosingStep st op) ∧
      StackRel (enclosingStep st op) (step env s op).1.stack := by
  cases op with
  | enter a =>
    simp only [step, stepV, enclosingStep]
    cases hn : newConfig s.cfg a with
    | error e =>
      have : parallelConfigInit s.cfg a = .error e := by
        simp [parallelConfigInit, hn, bind, Except.bind]
      rw [createObj_error this, ← hc, hn]; exact ⟨hc, hs⟩
    | ok nc =>
      have : parallelConfigInit s.cfg a = .ok (⟨s.cfg, update s.cfg nc⟩, update s.cfg nc) := by
        simp [parallelConfigInit, hn, bind, Except.bind, pure, Except.pure]
      rw [createObj_of_ok this, ← hc, hn]
      refine ⟨?_, ?_⟩
      · simp [stackCfg, hc]
      · exact ⟨hc, hs⟩
  | exit =>
    simp only [step, stepV, exitStep, enclosingStep]
    cases hstk : s.stack with
    | nil =>
      rw [hstk] at hs
      cases st with
      | nil => exact ⟨hc, by rw [hstk]; trivial⟩
      | cons a st' => simp [StackRel] at hs
    | cons cm rest =>
      rw [hstk] at hs
      cases st with
      | nil => simp [StackRel] at hs
      | cons a st' =>
        obtain ⟨h1, h2⟩ := hs
        simp only [unregisterV_code, List.tail_cons]
        exact ⟨h1, h2⟩
  | par e => exact ⟨hc, hs⟩
  | gab p r v => exact ⟨hc, hs⟩
  | create a => cases hop
  | unreg k => cases hop
  | spawn c k => exact ⟨hc, hs⟩

theorem runThread_inv (env : Env) (ops : List Op) (hops : ∀ op ∈ ops, op.scoped = true)
    (st : List Config) (s : TState)
    (hc : s.cfg = stackCfg st) (hs : StackRel st s.stack) :
    (runThread env s ops).1.cfg = stackCfg (enclosing st ops) := by
  induction ops generalizing st s with
  | nil => simpa [runThread, runThreadV, enclosing] using hc
  | cons op ops ih =>
    obtain ⟨h1, h2⟩ := step_inv env st s op (hops op (by simp)) hc hs
    rw [runThread_cons]
    exact ih (fun o ho => hops o (by simp [ho])) _ _ h1 h2

end JoblibModel.Config
