import JoblibProofs.Lemmas.StoreWalk
/-! Sequential `shutil.rmtree(<function directory>, ignore_errors=True)` really removes every result file
(needed by C05: after the source of a cached function changed, no result of the old source survives the clearing). -/
namespace JoblibModel.Store

/-- programs that only observe and remove, and never raise -/
inductive RmProg {α : Type} : Prog α → Prop
  | ret (a : α) : RmProg (.ret a)
  | obs (o : Op) (k : Res → Prog α) : IsObs o → (∀ r, RmProg (k r)) → RmProg (.op o k)
  | lstat (p : Path) (g : Option Nat) (k : Res → Prog α) : (∀ r, RmProg (k r)) → RmProg (.op (.lstat p g) k)
  | unlink (p : Path) (g : Option Nat) (k : Res → Prog α) : (∀ r, RmProg (k r)) → RmProg (.op (.unlink p g) k)
  | rmdir (p : Path) (g : Option Nat) (k : Res → Prog α) : (∀ r, RmProg (k r)) → RmProg (.op (.rmdir p g) k)

theorem RmProg.bind {α β : Type} {p : Prog α} {f : α → Prog β} (hp : RmProg p) (hf : ∀ a, RmProg (f a)) :
    RmProg (p.bind f) := by
  induction hp with
  | ret a => exact hf a
  | obs o k ho _ ih => exact .obs o _ ho ih
  | lstat p g k _ ih => exact .lstat p g _ ih
  | unlink p g k _ ih => exact .unlink p g _ ih
  | rmdir p g k _ ih => exact .rmdir p g _ ih

/-- the node kinds a removal cannot produce -/
def NotDir (fs : FS) (q : Path) : Prop := ∀ j, fs.get q ≠ some (.dir j)

theorem rm_op_keeps {fs : FS} {o : Op} (ho : IsObs o ∨ (∃ p g, o = .unlink p g) ∨ (∃ p g, o = .rmdir p g)) (q : Path) :
    (fs.get q = none → (apply o fs).2.get q = none) ∧ (NotDir fs q → NotDir (apply o fs).2 q) := by
  rcases ho with ho | ⟨p, g, rfl⟩ | ⟨p, g, rfl⟩
  · rw [observer_noop o fs ho]; exact ⟨id, id⟩
  · rcases unlink_spec p _ fs with ⟨e, _⟩ | ⟨_, _, _, _, _, _, _, hg⟩
    · rw [e]; exact ⟨id, id⟩
    · refine ⟨fun h => ?_, fun h j hj => ?_⟩
      · rw [hg]; unfold getUpd
        by_cases h0 : q = []
        · subst h0; simp at h
        · rw [if_neg h0]; split
          · rfl
          · exact h
      · rw [hg] at hj
        rcases getUpd_dir hj with rfl | ⟨_, e⟩ | ⟨_, hj⟩
        · exact h 0 (by simp)
        · cases e
        · exact h j hj
  · rcases rmdir_spec p _ fs with ⟨e, _⟩ | ⟨_, _, _, _, _, _, _, hg⟩
    · rw [e]; exact ⟨id, id⟩
    · refine ⟨fun h => ?_, fun h j hj => ?_⟩
      · rw [hg]; unfold getUpd
        by_cases h0 : q = []
        · subst h0; simp at h
        · rw [if_neg h0]; split
          · rfl
          · exact h
      · rw [hg] at hj
        rcases getUpd_dir hj with rfl | ⟨_, e⟩ | ⟨_, hj⟩
        · exact h 0 (by simp)
        · cases e
        · exact h j hj

theorem rmProg_keeps {α : Type} {p : Prog α} (hp : RmProg p) (q : Path) :
    ∀ fs, (fs.get q = none → (run p fs).2.get q = none) ∧ (NotDir fs q → NotDir (run p fs).2 q) := by
  induction hp with
  | ret a => intro fs; exact ⟨id, id⟩
  | obs o k ho _ ih =>
    intro fs
    have h1 := rm_op_keeps (fs := fs) (Or.inl ho) q
    have h2 := ih (apply o fs).1 (apply o fs).2
    exact ⟨fun h => h2.1 (h1.1 h), fun h => h2.2 (h1.2 h)⟩
  | lstat p g k _ ih =>
    intro fs
    have e : run (Prog.op (.lstat p g) k) fs = run (k (apply (.lstat p g) fs).1) fs := by
      show run (k (apply (.lstat p g) fs).1) (apply (.lstat p g) fs).2 = _
      rw [lstat_noop]
    rw [e]
    exact ih _ _
  | unlink p g k _ ih =>
    intro fs
    have h1 := rm_op_keeps (fs := fs) (o := .unlink p g) (Or.inr (Or.inl ⟨p, g, rfl⟩)) q
    have h2 := ih (apply (.unlink p g) fs).1 (apply (.unlink p g) fs).2
    exact ⟨fun h => h2.1 (h1.1 h), fun h => h2.2 (h1.2 h)⟩
  | rmdir p g k _ ih =>
    intro fs
    have h1 := rm_op_keeps (fs := fs) (o := .rmdir p g) (Or.inr (Or.inr ⟨p, g, rfl⟩)) q
    have h2 := ih (apply (.rmdir p g) fs).1 (apply (.rmdir p g) fs).2
    exact ⟨fun h => h2.1 (h1.1 h), fun h => h2.2 (h1.2 h)⟩

theorem rmProg_ok {α : Type} {p : Prog α} (hp : RmProg p) : ∀ fs, ∃ a, (run p fs).1 = .ok a := by
  induction hp with
  | ret a => intro fs; exact ⟨a, rfl⟩
  | obs o k _ _ ih => intro fs; exact ih _ _
  | lstat p g k _ ih => intro fs; exact ih _ _
  | unlink p g k _ ih => intro fs; exact ih _ _
  | rmdir p g k _ ih => intro fs; exact ih _ _

theorem run_bind {α β : Type} (p : Prog α) (f : α → Prog β) :
    ∀ fs, run (p.bind f) fs =
      match (run p fs).1 with
      | .ok a => run (f a) (run p fs).2
      | .raised e => (.raised e, (run p fs).2) := by
  induction p with
  | ret a => intro fs; rfl
  | raise e => intro fs; rfl
  | op o k ih => intro fs; exact ih _ _

theorem rmLoop_rmProg (recur : Path → Nat → Prog Unit) (hrec : ∀ q j, RmProg (recur q j)) (p : Path) (di : Nat) :
    ∀ l, RmProg (rmLoop false recur p di l) := by
  intro l
  induction l with
  | nil => exact .ret _
  | cons x rest ih =>
    obtain ⟨n, d⟩ := x
    cases d with
    | true =>
      unfold rmLoop
      refine .lstat _ _ _ fun r0 => ?_
      by_cases hr : (r0 == Res.no) = true
      · simp only [hr, if_true, Bool.false_eq_true, if_false]; exact ih
      · simp only [hr, Bool.false_eq_true, if_false]
        refine .obs _ _ (Or.inr (Or.inr (Or.inr (Or.inl ⟨_, _, rfl⟩)))) fun r => ?_
        cases r with
        | fd j =>
          simp only
          by_cases hs : (r0 == Res.fd j) = true
          · rw [if_pos hs]
            refine (hrec _ j).bind fun _ => .rmdir _ _ _ fun r => ?_
            simpa using ih
          · rw [if_neg hs]; simpa using ih
        | _ => simpa using ih
    | false =>
      unfold rmLoop
      refine .unlink _ _ _ fun r => ?_
      simpa using ih

theorem rmSafeFd_rmProg (rank : Name → Nat) : ∀ (fuel : Nat) (p : Path) (i : Nat), RmProg (rmSafeFd rank false fuel p i) := by
  intro fuel
  induction fuel with
  | zero => intro p i; exact .ret _
  | succ fuel ih =>
    intro p i
    unfold rmSafeFd scandir
    refine .obs _ _ (Or.inr (Or.inr (Or.inr (Or.inr ⟨_, _, rfl⟩)))) fun r => ?_
    cases r <;> exact rmLoop_rmProg _ (fun q j => ih q j) _ _ _

theorem rmtree_rmProg (rank : Name → Nat) (p : Path) : RmProg (rmtree rank false p) := by
  unfold rmtree
  refine .lstat _ _ _ fun r0 => ?_
  by_cases hr : (r0 == Res.no) = true
  · simp only [hr, if_true, Bool.false_eq_true, if_false]; exact .ret _
  · simp only [hr, Bool.false_eq_true, if_false]
    refine .obs _ _ (Or.inr (Or.inr (Or.inr (Or.inl ⟨_, _, rfl⟩)))) fun r => ?_
    cases r with
    | fd i =>
      simp only
      by_cases hs : (r0 == Res.fd i) = true
      · rw [if_pos hs]
        exact (rmSafeFd_rmProg rank 5 p i).bind fun _ => .rmdir _ _ _ fun r => by simpa using RmProg.ret ()
      · rw [if_neg hs]; simpa using RmProg.ret ()
    | _ => simpa using RmProg.ret ()

/-! ### Removal is monotone: every name is either gone or exactly as before -/

def Mono (fs fs1 : FS) : Prop := ∀ q, fs1.get q = none ∨ fs1.get q = fs.get q

theorem Mono.refl (fs : FS) : Mono fs fs := fun _ => Or.inr rfl

theorem Mono.trans {a b c : FS} (h1 : Mono a b) (h2 : Mono b c) : Mono a c := by
  intro q
  rcases h2 q with h | h
  · exact Or.inl h
  · rcases h1 q with h' | h'
    · exact Or.inl (by rw [h, h'])
    · exact Or.inr (by rw [h, h'])

theorem rm_op_mono {fs : FS} {o : Op} (ho : IsObs o ∨ (∃ p g, o = .unlink p g) ∨ (∃ p g, o = .rmdir p g)) :
    Mono fs (apply o fs).2 := by
  intro q
  rcases ho with ho | ⟨p, g, rfl⟩ | ⟨p, g, rfl⟩
  · rw [observer_noop o fs ho]; exact Or.inr rfl
  · rcases unlink_spec p _ fs with ⟨e, _⟩ | ⟨_, _, _, _, _, _, _, hg⟩
    · rw [e]; exact Or.inr rfl
    · rw [hg]; unfold getUpd
      by_cases h0 : q = []
      · subst h0; simp
      · rw [if_neg h0]; split
        · exact Or.inl rfl
        · exact Or.inr rfl
  · rcases rmdir_spec p _ fs with ⟨e, _⟩ | ⟨_, _, _, _, _, _, _, hg⟩
    · rw [e]; exact Or.inr rfl
    · rw [hg]; unfold getUpd
      by_cases h0 : q = []
      · subst h0; simp
      · rw [if_neg h0]; split
        · exact Or.inl rfl
        · exact Or.inr rfl

theorem rmProg_mono {α : Type} {p : Prog α} (hp : RmProg p) : ∀ fs, Mono fs (run p fs).2 := by
  induction hp with
  | ret a => intro fs; exact Mono.refl fs
  | obs o k ho _ ih => intro fs; exact (rm_op_mono (Or.inl ho)).trans (ih _ _)
  | lstat p g k _ ih =>
    intro fs
    have e : run (Prog.op (.lstat p g) k) fs = run (k (apply (.lstat p g) fs).1) fs := by
      show run (k (apply (.lstat p g) fs).1) (apply (.lstat p g) fs).2 = _
      rw [lstat_noop]
    rw [e]
    exact ih _ _
  | unlink p g k _ ih => intro fs; exact (rm_op_mono (Or.inr (Or.inl ⟨p, g, rfl⟩))).trans (ih _ _)
  | rmdir p g k _ ih => intro fs; exact (rm_op_mono (Or.inr (Or.inr ⟨p, g, rfl⟩))).trans (ih _ _)

/-- the tree shape (`Inv.up`) survives removals -/
def Up (fs : FS) : Prop := ∀ p, p ≠ [] → (fs.get p).isSome = true → ∃ j, fs.get (parent p) = some (.dir j)

theorem rm_op_up {fs : FS} {o : Op} (ho : IsObs o ∨ (∃ p g, o = .unlink p g) ∨ (∃ p g, o = .rmdir p g)) (h : Up fs) :
    Up (apply o fs).2 := by
  rcases ho with ho | ⟨p, g, rfl⟩ | ⟨p, g, rfl⟩
  · rw [observer_noop o fs ho]; exact h
  · rcases unlink_spec p _ fs with ⟨e, _⟩ | ⟨_, _, hp, _, _, _, _, hg⟩
    · rw [e]; exact h
    · exact up_remove h hg (file_no_child h hp)
  · rcases rmdir_spec p _ fs with ⟨e, _⟩ | ⟨_, _, _, hc, _, _, _, hg⟩
    · rw [e]; exact h
    · exact up_remove h hg (fun q hq hpq => children_empty hc hq hpq)

theorem rmProg_up {α : Type} {p : Prog α} (hp : RmProg p) : ∀ fs, Up fs → Up (run p fs).2 := by
  induction hp with
  | ret a => intro fs h; exact h
  | obs o k ho _ ih => intro fs h; exact ih _ _ (rm_op_up (Or.inl ho) h)
  | lstat p g k _ ih =>
    intro fs h
    have e : run (Prog.op (.lstat p g) k) fs = run (k (apply (.lstat p g) fs).1) fs := by
      show run (k (apply (.lstat p g) fs).1) (apply (.lstat p g) fs).2 = _
      rw [lstat_noop]
    rw [e]
    exact ih _ _ h
  | unlink p g k _ ih => intro fs h; exact ih _ _ (rm_op_up (Or.inr (Or.inl ⟨p, g, rfl⟩)) h)
  | rmdir p g k _ ih => intro fs h; exact ih _ _ (rm_op_up (Or.inr (Or.inr ⟨p, g, rfl⟩)) h)

/-! ### Directory listings are complete -/

def flagOf : Node → Bool
  | .dir _ => true
  | .file _ _ => false

theorem childrenOf_complete {p : Path} {n : Name} {nd : Node} {l : List (Path × Node)}
    (h : lookup (p ++ [n]) l = some nd) : (n, flagOf nd) ∈ childrenOf p l := by
  induction l with
  | nil => cases h
  | cons x r ih =>
    obtain ⟨q', nd'⟩ := x
    unfold lookup at h
    unfold childrenOf
    by_cases hq : q' = p ++ [n]
    · subst hq
      simp only [if_true] at h
      cases h
      simp [flagOf]
      cases nd <;> simp
    · rw [if_neg hq] at h
      have := ih h
      split
      · split
        · exact List.mem_cons_of_mem _ this
        · exact this
      · exact this

theorem children_complete {fs : FS} {p : Path} {n : Name} {nd : Node} (h : fs.get (p ++ [n]) = some nd) :
    (n, flagOf nd) ∈ fs.children p := by
  unfold FS.get at h
  rw [if_neg (by simp)] at h
  exact childrenOf_complete h

theorem mem_insertRank {rank : Name → Nat} {x y : Name × Bool} {l : List (Name × Bool)} :
    y ∈ insertRank rank x l ↔ y = x ∨ y ∈ l := by
  induction l with
  | nil => simp [insertRank]
  | cons z r ih =>
    unfold insertRank
    split
    · simp
    · simp [ih]; constructor
      · rintro (h | h | h)
        · exact Or.inr (Or.inl h)
        · exact Or.inl h
        · exact Or.inr (Or.inr h)
      · rintro (h | h | h)
        · exact Or.inr (Or.inl h)
        · exact Or.inl h
        · exact Or.inr (Or.inr h)

theorem mem_sortRank {rank : Name → Nat} {y : Name × Bool} {l : List (Name × Bool)} :
    y ∈ sortRank rank l ↔ y ∈ l := by
  induction l with
  | nil => simp [sortRank]
  | cons z r ih => simp [sortRank, mem_insertRank, ih]


/-! ### The loop of `_rmtree_safe_fd` -/

theorem run_op {α : Type} (o : Op) (k : Res → Prog α) (fs : FS) :
    run (.op o k) fs = run (k (apply o fs).1) (apply o fs).2 := rfl

theorem rmLoop_dir (strict : Bool) (recur : Path → Nat → Prog Unit) (p : Path) (di : Nat) (n : Name)
    (rest : List (Name × Bool)) :
    rmLoop strict recur p di ((n, true) :: rest) =
      Prog.op (.lstat (p ++ [n]) (some di)) fun r0 =>
        if r0 == .no then (if strict then Prog.raise .fileNotFound else rmLoop strict recur p di rest)
        else Prog.op (.opendir (p ++ [n]) (some di)) fun r =>
          match r with
          | .fd j =>
            if r0 == .fd j then
              (recur (p ++ [n]) j).bind fun _ =>
              Prog.op (.rmdir (p ++ [n]) (some di)) fun r =>
                if strict && r != .ok then Prog.raise .osError else rmLoop strict recur p di rest
            else (if strict then Prog.raise .osError else rmLoop strict recur p di rest)
          | _ => if strict then Prog.raise .fileNotFound else rmLoop strict recur p di rest := by
  rw [rmLoop]; rfl

theorem rmLoop_file (strict : Bool) (recur : Path → Nat → Prog Unit) (p : Path) (di : Nat) (n : Name)
    (rest : List (Name × Bool)) :
    rmLoop strict recur p di ((n, false) :: rest) =
      Prog.op (.unlink (p ++ [n]) (some di)) fun r =>
        if strict && r != .ok then Prog.raise .fileNotFound else rmLoop strict recur p di rest := by
  rw [rmLoop]

/-- one iteration of the loop: some monotone change of the state, then the rest of the loop -/
theorem rmLoop_cons (recur : Path → Nat → Prog Unit) (hrec : ∀ q j, RmProg (recur q j)) (p : Path) (di : Nat)
    (x : Name × Bool) (rest : List (Name × Bool)) (fs : FS) :
    ∃ fs1, Mono fs fs1 ∧ (Up fs → Up fs1) ∧
      run (rmLoop false recur p di (x :: rest)) fs = run (rmLoop false recur p di rest) fs1 := by
  obtain ⟨n, d⟩ := x
  cases d with
  | true =>
    rw [rmLoop_dir, run_op]
    have hst : (apply (.lstat (p ++ [n]) (some di)) fs).2 = fs := lstat_noop _ _ fs
    rw [hst]
    generalize (apply (.lstat (p ++ [n]) (some di)) fs).1 = r0
    by_cases hr : (r0 == Res.no) = true
    · simp only [hr, if_true, Bool.false_eq_true, if_false]
      exact ⟨fs, Mono.refl fs, id, rfl⟩
    · simp only [hr, Bool.false_eq_true, if_false]
      rw [run_op]
      have hod : (apply (.opendir (p ++ [n]) (some di)) fs).2 = fs := opendir_noop _ _ fs
      rw [hod]
      cases (apply (.opendir (p ++ [n]) (some di)) fs).1 with
      | fd j =>
        simp only
        by_cases hs : (r0 == Res.fd j) = true
        · rw [if_pos hs, run_bind]
          obtain ⟨a, ha⟩ := rmProg_ok (hrec (p ++ [n]) j) fs
          rw [ha]
          simp only
          rw [run_op]
          refine ⟨(apply (.rmdir (p ++ [n]) (some di)) (run (recur (p ++ [n]) j) fs).2).2,
            (rmProg_mono (hrec _ j) fs).trans (rm_op_mono (Or.inr (Or.inr ⟨_, _, rfl⟩))),
            fun hu => rm_op_up (Or.inr (Or.inr ⟨_, _, rfl⟩)) (rmProg_up (hrec _ j) fs hu), ?_⟩
          simp
        · rw [if_neg hs]; exact ⟨fs, Mono.refl fs, id, by simp⟩
      | _ => exact ⟨fs, Mono.refl fs, id, by simp⟩
  | false =>
    rw [rmLoop_file, run_op]
    exact ⟨(apply (.unlink (p ++ [n]) (some di)) fs).2, rm_op_mono (Or.inr (Or.inl ⟨_, _, rfl⟩)),
      fun hu => rm_op_up (Or.inr (Or.inl ⟨_, _, rfl⟩)) hu, by simp⟩

theorem mono_none {fs fs1 : FS} {q : Path} (h : Mono fs fs1) (hq : fs.get q = none) : fs1.get q = none := by
  rcases h q with h | h
  · exact h
  · rw [h, hq]

/-- the directory the loop works in (`dir_fd`) is still the one it opened, or is gone -/
def DirOrGone (fs : FS) (p : Path) (di : Nat) : Prop := fs.get p = none ∨ fs.get p = some (.dir di)

theorem dirOrGone_mono {fs fs1 : FS} {p : Path} {di : Nat} (h : Mono fs fs1) (hd : DirOrGone fs p di) :
    DirOrGone fs1 p di := by
  rcases h p with e | e
  · exact Or.inl e
  · rw [DirOrGone, e]; exact hd

theorem child_of_gone {fs : FS} {p : Path} {n : Name} (hu : Up fs) (h : fs.get p = none) : fs.get (p ++ [n]) = none := by
  cases hg : fs.get (p ++ [n]) with
  | none => rfl
  | some nd =>
    obtain ⟨j, hj⟩ := hu (p ++ [n]) (by simp) (by rw [hg]; rfl)
    have : parent (p ++ [n]) = p := by simp [parent]
    rw [this, h] at hj; cases hj

theorem guard_pass {fs : FS} {p : Path} {n : Name} {di : Nat} (h : fs.get p = some (.dir di)) :
    guardOK fs (p ++ [n]) (some di) = true := by
  have : parent (p ++ [n]) = p := by simp [parent]
  simp [guardOK, this, h]

/-- a listed name that is not a directory is gone after the loop -/
theorem rmLoop_removes_file (recur : Path → Nat → Prog Unit) (hrec : ∀ q j, RmProg (recur q j)) (p : Path) (di : Nat)
    (n : Name) :
    ∀ (l : List (Name × Bool)) (fs : FS), (n, false) ∈ l → NotDir fs (p ++ [n]) → Up fs → DirOrGone fs p di →
      (run (rmLoop false recur p di l) fs).2.get (p ++ [n]) = none := by
  intro l
  induction l with
  | nil => intro fs h; cases h
  | cons x rest ih =>
    intro fs hmem hnd hu hd
    by_cases hx : x = (n, false)
    · subst hx
      rw [rmLoop_file, run_op]
      have hgone : (apply (.unlink (p ++ [n]) (some di)) fs).2.get (p ++ [n]) = none := by
        rcases hd with hd | hd
        · exact mono_none (rm_op_mono (Or.inr (Or.inl ⟨_, _, rfl⟩))) (child_of_gone hu hd)
        · rcases unlink_spec (p ++ [n]) (some di) fs with ⟨e, hne⟩ | ⟨_, _, _, _, _, _, _, hg⟩
          · rw [e]
            cases hg : fs.get (p ++ [n]) with
            | none => rfl
            | some nd =>
              cases nd with
              | dir j => exact absurd hg (hnd j)
              | file i c => simp [apply, hg, guard_pass hd] at hne
          · rw [hg]; unfold getUpd; simp
      have hk : RmProg ((fun r : Res => if (false && r != Res.ok) = true then (Prog.raise .fileNotFound : Prog Unit)
          else rmLoop false recur p di rest) (apply (.unlink (p ++ [n]) (some di)) fs).1) := by
        simpa using rmLoop_rmProg recur hrec p di rest
      exact mono_none (rmProg_mono hk _) hgone
    · obtain ⟨fs1, hm, hup, he⟩ := rmLoop_cons recur hrec p di x rest fs
      rw [he]
      have hmem' : (n, false) ∈ rest := by
        rcases List.mem_cons.mp hmem with h | h
        · exact absurd h.symm hx
        · exact h
      refine ih fs1 hmem' (fun j hj => ?_) (hup hu) (dirOrGone_mono hm hd)
      rcases hm (p ++ [n]) with h | h
      · rw [h] at hj; cases hj
      · rw [h] at hj; exact hnd j hj

/-- the recursive step on a directory `d` removes every file directly inside it -/
theorem rmSafeFd_removes_file (rank : Name → Nat) (fuel : Nat) (d : Path) (j : Nat) (m : Name) (fs : FS)
    (hu : Up fs) (hd : fs.get d = some (.dir j)) (hnd : NotDir fs (d ++ [m])) :
    (run (rmSafeFd rank false (fuel + 1) d j) fs).2.get (d ++ [m]) = none := by
  unfold rmSafeFd scandir
  rw [run_op]
  have hst : (apply (.readdir d j) fs).2 = fs := rfl
  rw [hst]
  have hres : (apply (.readdir d j) fs).1 = .names (fs.children d) := by
    simp [apply, hd]
  rw [hres]
  simp only
  cases hc : fs.get (d ++ [m]) with
  | none =>
    exact mono_none (rmProg_mono (rmLoop_rmProg _ (fun q i => rmSafeFd_rmProg rank fuel q i) d j _) fs) hc
  | some nd =>
    cases nd with
    | dir i => exact absurd hc (hnd i)
    | file i c =>
      have hmem : (m, false) ∈ sortRank rank (fs.children d) := mem_sortRank.mpr (children_complete hc)
      exact rmLoop_removes_file _ (fun q i => rmSafeFd_rmProg rank fuel q i) d j m _ fs hmem hnd hu (Or.inr hd)

/-- a listed directory `p/n`: after the loop no file `p/n/m` is left -/
theorem rmLoop_removes_grandchild (rank : Name → Nat) (fuel : Nat) (p : Path) (di : Nat) (n m : Name) :
    ∀ (l : List (Name × Bool)) (fs : FS), Up fs → DirOrGone fs p di → NotDir fs (p ++ [n] ++ [m]) →
      ((fs.get (p ++ [n])).isSome = true → (n, true) ∈ l ∧ ∃ j, fs.get (p ++ [n]) = some (.dir j)) →
      (run (rmLoop false (rmSafeFd rank false (fuel + 1)) p di l) fs).2.get (p ++ [n] ++ [m]) = none := by
  have hrec : ∀ q j, RmProg (rmSafeFd rank false (fuel + 1) q j) := fun q j => rmSafeFd_rmProg rank _ q j
  have absent : ∀ fs : FS, Up fs → fs.get (p ++ [n]) = none → fs.get (p ++ [n] ++ [m]) = none :=
    fun fs hu hn => child_of_gone hu hn
  intro l
  induction l with
  | nil =>
    intro fs hu _ _ hl
    cases hg : fs.get (p ++ [n]) with
    | none => exact absent fs hu hg
    | some nd => have := (hl (by rw [hg]; rfl)).1; cases this
  | cons x rest ih =>
    intro fs hu hd hnd hl
    by_cases hx : x = (n, true)
    · subst hx
      cases hg : fs.get (p ++ [n]) with
      | none =>
        exact mono_none (rmProg_mono (rmLoop_rmProg _ hrec p di _) fs) (absent fs hu hg)
      | some nd =>
        obtain ⟨_, j, hj⟩ := hl (by rw [hg]; rfl)
        have hpd : fs.get p = some (.dir di) := by
          rcases hd with hd | hd
          · rw [child_of_gone hu hd] at hj; cases hj
          · exact hd
        rw [rmLoop_dir, run_op]
        have hstat : (apply (.lstat (p ++ [n]) (some di)) fs) = (.fd j, fs) := by simp [apply, hj, guard_pass hpd]
        rw [hstat]
        have hne : (Res.fd j == Res.no) = false := by simp
        simp only [hne, Bool.false_eq_true, if_false]
        rw [run_op]
        have hod : (apply (.opendir (p ++ [n]) (some di)) fs) = (.fd j, fs) := by simp [apply, hj, guard_pass hpd]
        rw [hod]
        simp only [beq_self_eq_true, if_true]
        rw [run_bind]
        obtain ⟨a, ha⟩ := rmProg_ok (hrec (p ++ [n]) j) fs
        rw [ha]
        simp only
        have hgone := rmSafeFd_removes_file rank fuel (p ++ [n]) j m fs hu hj hnd
        have hk : RmProg (Prog.op (.rmdir (p ++ [n]) (some di)) fun r =>
            if (false && r != Res.ok) = true then (Prog.raise .osError : Prog Unit)
            else rmLoop false (rmSafeFd rank false (fuel + 1)) p di rest) :=
          .rmdir _ _ _ fun r => by simpa using rmLoop_rmProg _ hrec p di rest
        exact mono_none (rmProg_mono hk _) hgone
    · obtain ⟨fs1, hm, hup, he⟩ := rmLoop_cons _ hrec p di x rest fs
      rw [he]
      refine ih fs1 (hup hu) (dirOrGone_mono hm hd) (fun j hj => ?_) (fun hs => ?_)
      · rcases hm (p ++ [n] ++ [m]) with h | h
        · rw [h] at hj; cases hj
        · rw [h] at hj; exact hnd j hj
      · rcases hm (p ++ [n]) with h | h
        · rw [h] at hs; cases hs
        · rw [h] at hs ⊢
          obtain ⟨hmem, hj⟩ := hl hs
          refine ⟨?_, hj⟩
          rcases List.mem_cons.mp hmem with e | e
          · exact absurd e.symm hx
          · exact e

/-! ### `rmtree(<function directory>)` leaves no result file -/

def NoOut (fs : FS) : Prop := ∀ a, fs.get (pOut a) = none

theorem pOut_eq (a : Nat) : pOut a = pFunc ++ [.entry a] ++ [.output] := rfl
theorem pEntry_eq (a : Nat) : pEntry a = pFunc ++ [.entry a] := rfl

theorem rmtree_func_noOut {π : Par} {s : Bool} (rank : Name → Nat) (fs : FS) (hi : Inv π s fs) :
    NoOut (run (rmtree rank false pFunc) fs).2 := by
  intro a
  have hnd : NotDir fs (pOut a) := fun j hj => hi.typD _ _ hj (out_file a)
  have absentEntry : fs.get (pEntry a) = none → fs.get (pOut a) = none := by
    intro hn
    cases hg : fs.get (pOut a) with
    | none => rfl
    | some nd =>
      obtain ⟨j, hj⟩ := hi.up (pOut a) (by simp [pOut]) (by rw [hg]; rfl)
      have : parent (pOut a) = pEntry a := by simp [parent, pOut, pEntry]
      rw [this, hn] at hj; cases hj
  have keep := rmProg_mono (rmtree_rmProg rank pFunc) fs
  cases hf : fs.get pFunc with
  | none =>
    -- no function directory: no entry, no result
    have : fs.get (pEntry a) = none := by
      cases hg : fs.get (pEntry a) with
      | none => rfl
      | some nd =>
        obtain ⟨j, hj⟩ := hi.up (pEntry a) (by simp [pEntry]) (by rw [hg]; rfl)
        have : parent (pEntry a) = pFunc := by simp [parent, pFunc, pEntry]
        rw [this, hf] at hj; cases hj
    exact mono_none keep (absentEntry this)
  | some nd =>
    cases nd with
    | file i c => exact absurd (Or.inr (Or.inr (Or.inr (Or.inl rfl)))) (hi.typF _ _ _ hf)
    | dir j =>
      unfold rmtree
      rw [run_op]
      have hstat : apply (.lstat pFunc) fs = (.fd j, fs) := by simp [apply, hf, guardOK]
      rw [hstat]
      have hne : (Res.fd j == Res.no) = false := by simp
      simp only [hne, Bool.false_eq_true, if_false]
      rw [run_op]
      have hod : apply (.opendir pFunc) fs = (.fd j, fs) := by simp [apply, hf, guardOK]
      rw [hod]
      simp only [beq_self_eq_true, if_true]
      rw [run_bind]
      obtain ⟨u, hu⟩ := rmProg_ok (rmSafeFd_rmProg rank 5 pFunc j) fs
      rw [hu]
      simp only
      have hk : RmProg (Prog.op (.rmdir pFunc) fun r =>
          if (false && r != Res.ok) = true then (Prog.raise .osError : Prog Unit) else Prog.ret ()) :=
        .rmdir _ _ _ fun r => by simpa using RmProg.ret ()
      refine mono_none (rmProg_mono hk _) ?_
      -- the listing of the function directory contains the entry directory (if it exists); its listing contains the
      -- result file (if it exists)
      show (run (rmSafeFd rank false (4 + 1) pFunc j) fs).2.get (pOut a) = none
      unfold rmSafeFd scandir
      rw [run_op]
      have hrd : apply (.readdir pFunc j) fs = (.names (fs.children pFunc), fs) := by simp [apply, hf]
      rw [hrd]
      simp only
      rw [pOut_eq]
      refine rmLoop_removes_grandchild rank 3 pFunc j (.entry a) .output _ fs hi.up (Or.inr hf)
        (by rw [← pOut_eq]; exact hnd) ?_
      intro hs
      rw [← pEntry_eq] at hs ⊢
      cases hg : fs.get (pEntry a) with
      | none => rw [hg] at hs; cases hs
      | some nd =>
        cases nd with
        | file i c => exact absurd (Or.inr (Or.inr (Or.inr (Or.inr ⟨a, rfl⟩)))) (hi.typF _ _ _ hg)
        | dir j' =>
          refine ⟨mem_sortRank.mpr ?_, j', rfl⟩
          have := children_complete (p := pFunc) (n := .entry a) (by rw [← pEntry_eq]; exact hg)
          simpa [flagOf] using this

/-- without result files, the weak invariant is the strict one -/
theorem inv_true_of_noOut {π : Par} {s : Bool} {fs : FS} (hi : Inv π s fs) (hn : NoOut fs) : Inv π true fs := by
  refine ⟨hi.wf, hi.typD, hi.typF, ?_, hi.metaOk, hi.up⟩
  intro a i d hg
  rw [hn a] at hg
  cases hg

/-! ### Strengthening a postcondition by a fact about the solo run (no environment) -/

theorem Sat.solo_post_aux {α : Type} {R : FS → FS → Prop} {G : FS → Op → Prop} {P : FS → Prop} {p : Prog α}
    {Q : α → FS → Prop} {E : Err → FS → Prop} (F : Outcome α → FS → Prop)
    (hR : ∀ fs fs', ¬ R fs fs') (h : Sat R G P p Q E) :
    ∀ (P' : FS → Prop), (∀ fs, P' fs → P fs) → (∀ fs, P' fs → F (run p fs).1 (run p fs).2) →
      Sat R G P' p (fun a fs => Q a fs ∧ F (.ok a) fs) (fun e fs => E e fs ∧ F (.raised e) fs) := by
  induction h with
  | ret hq => intro P' hsub hF; exact .ret fun fs hp => ⟨hq fs (hsub fs hp), hF fs hp⟩
  | raise he => intro P' hsub hF; exact .raise fun fs hp => ⟨he fs (hsub fs hp), hF fs hp⟩
  | @op P o k Q E M h1 h2 _ ih =>
    intro P' hsub hF
    refine .op (fun r fs' => M r fs' ∧ ∃ fs, P' fs ∧ r = (apply o fs).1 ∧ fs' = (apply o fs).2)
      (fun fs hp => ⟨(h1 fs (hsub fs hp)).1, (h1 fs (hsub fs hp)).2, fs, hp, rfl, rfl⟩)
      (fun r fs fs' _ hr => absurd hr (hR _ _)) (fun r => ?_)
    refine ih r _ (fun fs h => h.1) ?_
    rintro fs' ⟨_, fs, hp, rfl, rfl⟩
    exact hF fs hp

theorem Sat.solo_post {α : Type} {R : FS → FS → Prop} {G : FS → Op → Prop} {P : FS → Prop} {p : Prog α}
    {Q : α → FS → Prop} {E : Err → FS → Prop} (F : Outcome α → FS → Prop)
    (hR : ∀ fs fs', ¬ R fs fs') (h : Sat R G P p Q E) (hF : ∀ fs, P fs → F (run p fs).1 (run p fs).2) :
    Sat R G P p (fun a fs => Q a fs ∧ F (.ok a) fs) (fun e fs => E e fs ∧ F (.raised e) fs) :=
  Sat.solo_post_aux F hR h P (fun _ h => h) hF

end JoblibModel.Store
