import JoblibProofs.Lemmas.StoreWalk
/-! Sequential `shutil.rmtree(<function directory>, ignore_errors=True)` really removes every result file
(needed by C05: after the source of a cached function changed, no result of the old source survives the clearing). -/
namespace JoblibModel.Store

/-- programs that only observe and remove, and never raise -/
inductive RmProg {α : Type} : Prog α → Prop
  | ret (a : α) : RmProg (.ret a)
  | obs (o : Op) (k : Res → Prog α) : IsObs o → (∀ r, RmProg (k r)) → RmProg (.op o k)
  | unlink (p : Path) (k : Res → Prog α) : (∀ r, RmProg (k r)) → RmProg (.op (.unlink p) k)
  | rmdir (p : Path) (k : Res → Prog α) : (∀ r, RmProg (k r)) → RmProg (.op (.rmdir p) k)

theorem RmProg.bind {α β : Type} {p : Prog α} {f : α → Prog β} (hp : RmProg p) (hf : ∀ a, RmProg (f a)) :
    RmProg (p.bind f) := by
  induction hp with
  | ret a => exact hf a
  | obs o k ho _ ih => exact .obs o _ ho ih
  | unlink p k _ ih => exact .unlink p _ ih
  | rmdir p k _ ih => exact .rmdir p _ ih

/-- the node kinds a removal cannot produce -/
def NotDir (fs : FS) (q : Path) : Prop := ∀ j, fs.get q ≠ some (.dir j)

theorem rm_op_keeps {fs : FS} {o : Op} (ho : IsObs o ∨ (∃ p, o = .unlink p) ∨ (∃ p, o = .rmdir p)) (q : Path) :
    (fs.get q = none → (apply o fs).2.get q = none) ∧ (NotDir fs q → NotDir (apply o fs).2 q) := by
  rcases ho with ho | ⟨p, rfl⟩ | ⟨p, rfl⟩
  · rw [observer_noop o fs ho]; exact ⟨id, id⟩
  · rcases unlink_spec p fs with ⟨e, _⟩ | ⟨_, _, _, _, _, _, hg⟩
    · rw [e]; exact ⟨id, id⟩
    · refine ⟨fun h => ?_, fun h j hj => ?_⟩
      · rw [hg]; unfold getUpd
        by_cases h0 : q = []
        · subst h0; simp at h
        · rw [if_neg h0]; split
          · rfl
          · exact h
      · rw [hg] at hj
        rcases getUpd_dir hj with rfl | ⟨_, e⟩ | ⟨_, hj⟩
        · exact h 0 (by simp)
        · cases e
        · exact h j hj
  · rcases rmdir_spec p fs with ⟨e, _⟩ | ⟨_, _, _, _, _, _, _, hg⟩
    · rw [e]; exact ⟨id, id⟩
    · refine ⟨fun h => ?_, fun h j hj => ?_⟩
      · rw [hg]; unfold getUpd
        by_cases h0 : q = []
        · subst h0; simp at h
        · rw [if_neg h0]; split
          · rfl
          · exact h
      · rw [hg] at hj
        rcases getUpd_dir hj with rfl | ⟨_, e⟩ | ⟨_, hj⟩
        · exact h 0 (by simp)
        · cases e
        · exact h j hj

theorem rmProg_keeps {α : Type} {p : Prog α} (hp : RmProg p) (q : Path) :
    ∀ fs, (fs.get q = none → (run p fs).2.get q = none) ∧ (NotDir fs q → NotDir (run p fs).2 q) := by
  induction hp with
  | ret a => intro fs; exact ⟨id, id⟩
  | obs o k ho _ ih =>
    intro fs
    have h1 := rm_op_keeps (fs := fs) (Or.inl ho) q
    have h2 := ih (apply o fs).1 (apply o fs).2
    exact ⟨fun h => h2.1 (h1.1 h), fun h => h2.2 (h1.2 h)⟩
  | unlink p k _ ih =>
    intro fs
    have h1 := rm_op_keeps (fs := fs) (o := .unlink p) (Or.inr (Or.inl ⟨p, rfl⟩)) q
    have h2 := ih (apply (.unlink p) fs).1 (apply (.unlink p) fs).2
    exact ⟨fun h => h2.1 (h1.1 h), fun h => h2.2 (h1.2 h)⟩
  | rmdir p k _ ih =>
    intro fs
    have h1 := rm_op_keeps (fs := fs) (o := .rmdir p) (Or.inr (Or.inr ⟨p, rfl⟩)) q
    have h2 := ih (apply (.rmdir p) fs).1 (apply (.rmdir p) fs).2
    exact ⟨fun h => h2.1 (h1.1 h), fun h => h2.2 (h1.2 h)⟩

theorem rmProg_ok {α : Type} {p : Prog α} (hp : RmProg p) : ∀ fs, ∃ a, (run p fs).1 = .ok a := by
  induction hp with
  | ret a => intro fs; exact ⟨a, rfl⟩
  | obs o k _ _ ih => intro fs; exact ih _ _
  | unlink p k _ ih => intro fs; exact ih _ _
  | rmdir p k _ ih => intro fs; exact ih _ _

theorem run_bind {α β : Type} (p : Prog α) (f : α → Prog β) :
    ∀ fs, run (p.bind f) fs =
      match (run p fs).1 with
      | .ok a => run (f a) (run p fs).2
      | .raised e => (.raised e, (run p fs).2) := by
  induction p with
  | ret a => intro fs; rfl
  | raise e => intro fs; rfl
  | op o k ih => intro fs; exact ih _ _

theorem rmLoop_rmProg (recur : Path → Nat → Prog Unit) (hrec : ∀ q j, RmProg (recur q j)) (p : Path) :
    ∀ l, RmProg (rmLoop false recur p l) := by
  intro l
  induction l with
  | nil => exact .ret _
  | cons x rest ih =>
    obtain ⟨n, d⟩ := x
    cases d with
    | true =>
      unfold rmLoop
      refine .obs _ _ (Or.inl ⟨_, rfl⟩) fun r => ?_
      by_cases hr : (r != Res.yes) = true
      · simp only [hr, if_true, Bool.false_eq_true, if_false]; exact ih
      · simp only [hr, if_false]
        refine .obs _ _ (Or.inr (Or.inr (Or.inr (Or.inl ⟨_, rfl⟩)))) fun r => ?_
        cases r with
        | fd j =>
          refine (hrec _ j).bind fun _ => .rmdir _ _ fun r => ?_
          simpa using ih
        | _ => simpa using ih
    | false =>
      unfold rmLoop
      refine .unlink _ _ fun r => ?_
      simpa using ih

theorem rmSafeFd_rmProg (rank : Name → Nat) : ∀ (fuel : Nat) (p : Path) (i : Nat), RmProg (rmSafeFd rank false fuel p i) := by
  intro fuel
  induction fuel with
  | zero => intro p i; exact .ret _
  | succ fuel ih =>
    intro p i
    unfold rmSafeFd scandir
    refine .obs _ _ (Or.inr (Or.inr (Or.inr (Or.inr ⟨_, _, rfl⟩)))) fun r => ?_
    cases r <;> exact rmLoop_rmProg _ (fun q j => ih q j) _ _

theorem rmtree_rmProg (rank : Name → Nat) (p : Path) : RmProg (rmtree rank false p) := by
  unfold rmtree
  refine .obs _ _ (Or.inl ⟨_, rfl⟩) fun r => ?_
  by_cases hr : (r != Res.yes) = true
  · simp only [hr, if_true, Bool.false_eq_true, if_false]; exact .ret _
  · simp only [hr, if_false]
    refine .obs _ _ (Or.inr (Or.inr (Or.inr (Or.inl ⟨_, rfl⟩)))) fun r => ?_
    cases r with
    | fd i => exact (rmSafeFd_rmProg rank 5 p i).bind fun _ => .rmdir _ _ fun r => by simpa using RmProg.ret ()
    | _ => simpa using RmProg.ret ()


/-! ### Removal is monotone: every name is either gone or exactly as before -/

def Mono (fs fs1 : FS) : Prop := ∀ q, fs1.get q = none ∨ fs1.get q = fs.get q

theorem Mono.refl (fs : FS) : Mono fs fs := fun _ => Or.inr rfl

theorem Mono.trans {a b c : FS} (h1 : Mono a b) (h2 : Mono b c) : Mono a c := by
  intro q
  rcases h2 q with h | h
  · exact Or.inl h
  · rcases h1 q with h' | h'
    · exact Or.inl (by rw [h, h'])
    · exact Or.inr (by rw [h, h'])

theorem rm_op_mono {fs : FS} {o : Op} (ho : IsObs o ∨ (∃ p, o = .unlink p) ∨ (∃ p, o = .rmdir p)) :
    Mono fs (apply o fs).2 := by
  intro q
  rcases ho with ho | ⟨p, rfl⟩ | ⟨p, rfl⟩
  · rw [observer_noop o fs ho]; exact Or.inr rfl
  · rcases unlink_spec p fs with ⟨e, _⟩ | ⟨_, _, _, _, _, _, hg⟩
    · rw [e]; exact Or.inr rfl
    · rw [hg]; unfold getUpd
      by_cases h0 : q = []
      · subst h0; simp
      · rw [if_neg h0]; split
        · exact Or.inl rfl
        · exact Or.inr rfl
  · rcases rmdir_spec p fs with ⟨e, _⟩ | ⟨_, _, _, _, _, _, _, hg⟩
    · rw [e]; exact Or.inr rfl
    · rw [hg]; unfold getUpd
      by_cases h0 : q = []
      · subst h0; simp
      · rw [if_neg h0]; split
        · exact Or.inl rfl
        · exact Or.inr rfl

theorem rmProg_mono {α : Type} {p : Prog α} (hp : RmProg p) : ∀ fs, Mono fs (run p fs).2 := by
  induction hp with
  | ret a => intro fs; exact Mono.refl fs
  | obs o k ho _ ih => intro fs; exact (rm_op_mono (Or.inl ho)).trans (ih _ _)
  | unlink p k _ ih => intro fs; exact (rm_op_mono (Or.inr (Or.inl ⟨p, rfl⟩))).trans (ih _ _)
  | rmdir p k _ ih => intro fs; exact (rm_op_mono (Or.inr (Or.inr ⟨p, rfl⟩))).trans (ih _ _)

/-- the tree shape (`Inv.up`) survives removals -/
def Up (fs : FS) : Prop := ∀ p, p ≠ [] → (fs.get p).isSome = true → ∃ j, fs.get (parent p) = some (.dir j)

theorem rm_op_up {fs : FS} {o : Op} (ho : IsObs o ∨ (∃ p, o = .unlink p) ∨ (∃ p, o = .rmdir p)) (h : Up fs) :
    Up (apply o fs).2 := by
  rcases ho with ho | ⟨p, rfl⟩ | ⟨p, rfl⟩
  · rw [observer_noop o fs ho]; exact h
  · rcases unlink_spec p fs with ⟨e, _⟩ | ⟨_, _, hp, _, _, _, hg⟩
    · rw [e]; exact h
    · exact up_remove h hg (file_no_child h hp)
  · rcases rmdir_spec p fs with ⟨e, _⟩ | ⟨_, _, _, hc, _, _, _, hg⟩
    · rw [e]; exact h
    · exact up_remove h hg (fun q hq hpq => children_empty hc hq hpq)

theorem rmProg_up {α : Type} {p : Prog α} (hp : RmProg p) : ∀ fs, Up fs → Up (run p fs).2 := by
  induction hp with
  | ret a => intro fs h; exact h
  | obs o k ho _ ih => intro fs h; exact ih _ _ (rm_op_up (Or.inl ho) h)
  | unlink p k _ ih => intro fs h; exact ih _ _ (rm_op_up (Or.inr (Or.inl ⟨p, rfl⟩)) h)
  | rmdir p k _ ih => intro fs h; exact ih _ _ (rm_op_up (Or.inr (Or.inr ⟨p, rfl⟩)) h)

/-! ### Directory listings are complete -/

def flagOf : Node → Bool
  | .dir _ => true
  | .file _ _ => false

theorem childrenOf_complete {p : Path} {n : Name} {nd : Node} {l : List (Path × Node)}
    (h : lookup (p ++ [n]) l = some nd) : (n, flagOf nd) ∈ childrenOf p l := by
  induction l with
  | nil => cases h
  | cons x r ih =>
    obtain ⟨q', nd'⟩ := x
    unfold lookup at h
    unfold childrenOf
    by_cases hq : q' = p ++ [n]
    · subst hq
      simp only [if_true] at h
      cases h
      simp [flagOf]
      cases nd <;> simp
    · rw [if_neg hq] at h
      have := ih h
      split
      · split
        · exact List.mem_cons_of_mem _ this
        · exact this
      · exact this

theorem children_complete {fs : FS} {p : Path} {n : Name} {nd : Node} (h : fs.get (p ++ [n]) = some nd) :
    (n, flagOf nd) ∈ fs.children p := by
  unfold FS.get at h
  rw [if_neg (by simp)] at h
  exact childrenOf_complete h

theorem mem_insertRank {rank : Name → Nat} {x y : Name × Bool} {l : List (Name × Bool)} :
    y ∈ insertRank rank x l ↔ y = x ∨ y ∈ l := by
  induction l with
  | nil => simp [insertRank]
  | cons z r ih =>
    unfold insertRank
    split
    · simp
    · simp [ih]; constructor
      · rintro (h | h | h)
        · exact Or.inr (Or.inl h)
        · exact Or.inl h
        · exact Or.inr (Or.inr h)
      · rintro (h | h | h)
        · exact Or.inr (Or.inl h)
        · exact Or.inl h
        · exact Or.inr (Or.inr h)

theorem mem_sortRank {rank : Name → Nat} {y : Name × Bool} {l : List (Name × Bool)} :
    y ∈ sortRank rank l ↔ y ∈ l := by
  induction l with
  | nil => simp [sortRank]
  | cons z r ih => simp [sortRank, mem_insertRank, ih]

end JoblibModel.Store
