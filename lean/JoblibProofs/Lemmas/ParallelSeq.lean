import JoblibModel.ParallelSeq
import JoblibProofs.Lemmas.ParallelProto
/-!
Lemmas for the sequential path (`n_jobs == 1`, `JoblibModel.ParallelSeq`): the invariant of the suspended
`_get_sequential_output` generator and what `seqStart` / `seqNext` / `seqClose` / `seqDrain` / `seqCallList` do.
-/
namespace JoblibModel.ParallelSeq
open JoblibModel.ParallelProto

/-- What no step of the sequential path touches. -/
structure SKeep (s s' : St) : Prop where
  trk : s'.trk = s.trk
  parked : s'.parked = s.parked
  jobs : s'.jobs = s.jobs
  jobsSet : s'.jobsSet = s.jobsSet
  callId : s'.callId = s.callId
  callCtr : s'.callCtr = s.callCtr
  sched : s'.sched = s.sched
  failIds : s'.failIds = s.failIds
  base : s'.base = s.base
  spec : s'.spec = s.spec
  hung : s'.hung = s.hung
  managed : s'.managed = s.managed
  calling : s'.calling = s.calling
  now : s'.now = s.now

theorem SKeep.refl (s : St) : SKeep s s := ⟨rfl, rfl, rfl, rfl, rfl, rfl, rfl, rfl, rfl, rfl, rfl, rfl, rfl, rfl⟩

theorem SKeep.trans {a b d : St} (h1 : SKeep a b) (h2 : SKeep b d) : SKeep a d :=
  ⟨h2.trk.trans h1.trk, h2.parked.trans h1.parked, h2.jobs.trans h1.jobs, h2.jobsSet.trans h1.jobsSet,
   h2.callId.trans h1.callId, h2.callCtr.trans h1.callCtr, h2.sched.trans h1.sched, h2.failIds.trans h1.failIds,
   h2.base.trans h1.base, h2.spec.trans h1.spec, h2.hung.trans h1.hung, h2.managed.trans h1.managed,
   h2.calling.trans h1.calling, h2.now.trans h1.now⟩

/-- The invariant of a live sequential generator: the pending items are the ids pulled but not yet executed, the
executed ones are `base … base + nCompleted − 1` and none of them failed. -/
structure SInv (s : St) (g : SGen) : Prop where
  live : g.live = true
  running : s.running = true
  na : s.aborting = false
  ne : s.exception = false
  pend : g.pending = List.range' (s.base + s.nCompleted) g.pending.length
  pos : s.nCompleted + g.pending.length = s.srcPos
  le_n : s.srcPos ≤ s.spec.n
  iter : 0 ≤ s.spec.iterfail → (s.srcPos : Int) ≤ s.spec.iterfail
  dead : s.srcDead = true → s.srcPos = s.spec.n ∧ (s.srcPos : Int) ≠ s.spec.iterfail
  plen : g.pending.length ≤ max g.bs 1
  disp : s.nDispTasks = s.nCompleted
  ok : ∀ id, s.base ≤ id → id < s.base + s.nCompleted → id ∉ s.failIds

/-- Outcome of one `next()` on a live sequential generator. -/
def SNPost (s : St) (g : SGen) : St × SGen × Out → Prop
  | (s', g', .value v) => v = s.base + s.nCompleted ∧ v ∉ s.failIds ∧ SInv s' g' ∧
      s'.nCompleted = s.nCompleted + 1 ∧ g'.bs = g.bs ∧ SKeep s s'
  | (s', g', .stop) => g'.live = false ∧ s'.running = false ∧ s'.exception = false ∧ s'.aborting = false ∧
      s'.nCompleted = s.nCompleted ∧ s.nCompleted = s.spec.n ∧ g.pending = [] ∧
      ¬ (0 ≤ s.spec.iterfail ∧ s.spec.iterfail ≤ s.spec.n) ∧ s'.srcPos = s.spec.n ∧ SKeep s s'
  | (s', g', .raise e) => g'.live = false ∧ s'.running = false ∧ s'.exception = true ∧ s'.aborting = true ∧
      s'.nCompleted = s.nCompleted ∧ SKeep s s' ∧
      ((e = .task (s.base + s.nCompleted) ∧ s.base + s.nCompleted ∈ s.failIds ∧
          s'.nDispTasks = s.nCompleted + 1) ∨
       (∃ pos, e = .iter pos ∧ 0 ≤ s.spec.iterfail ∧ (pos : Int) = (s.base : Int) + s.spec.iterfail ∧
          g.pending = []))
  | (_, _, .hang) => False

/-- Executing the head of the pending tuple. -/
theorem seqNext_cons {s : St} {g : SGen} (fuel : Nat) (h : SInv s g) {id : Nat} {rest : List Nat}
    (hp : g.pending = id :: rest) : SNPost s g (seqNext (fuel + 1) s g) := by
  have hid : id = s.base + s.nCompleted := by
    have := h.pend
    rw [hp] at this
    simp only [List.length_cons, List.range'_succ, List.cons.injEq] at this
    exact this.1
  have hrest : rest = List.range' (s.base + (s.nCompleted + 1)) rest.length := by
    have := h.pend
    rw [hp] at this
    simp only [List.length_cons, List.range'_succ, List.cons.injEq] at this
    rw [show s.base + (s.nCompleted + 1) = s.base + s.nCompleted + 1 by omega]
    exact this.2
  have hpl : g.pending.length = rest.length + 1 := by rw [hp]; simp
  unfold seqNext
  rw [if_neg (by simp [h.live])]
  rw [hp]
  simp only
  by_cases hf : (ev { s with nDispBatches := s.nDispBatches + 1, nDispTasks := s.nDispTasks + 1 } ("exec " ++ toString id)).failIds.contains id = true
  · rw [if_pos hf]
    have hf' : id ∈ s.failIds := by simpa [ev] using hf
    refine ⟨rfl, rfl, rfl, rfl, rfl, ⟨rfl, rfl, rfl, rfl, rfl, rfl, rfl, rfl, rfl, rfl, rfl, rfl, rfl, rfl⟩,
      Or.inl ⟨by rw [hid], by rw [← hid]; exact hf', ?_⟩⟩
    show s.nDispTasks + 1 = _
    rw [h.disp]
  · rw [if_neg hf]
    have hf' : id ∉ s.failIds := by simpa [ev] using hf
    refine ⟨hid, hf', ?_, rfl, rfl,
      ⟨rfl, rfl, rfl, rfl, rfl, rfl, rfl, rfl, rfl, rfl, rfl, rfl, rfl, rfl⟩⟩
    refine ⟨h.live, h.running, h.na, h.ne, hrest, ?_, h.le_n, h.iter, h.dead, ?_, ?_, ?_⟩
    · show s.nCompleted + 1 + rest.length = s.srcPos
      have := h.pos; rw [hpl] at this; omega
    · show rest.length ≤ max g.bs 1
      have := h.plen; rw [hpl] at this; omega
    · show s.nDispTasks + 1 = s.nCompleted + 1
      rw [h.disp]
    · intro j h0 h1
      show j ∉ s.failIds
      by_cases hj : j < s.base + s.nCompleted
      · exact h.ok j h0 hj
      · have : j = id := by
          have : j < s.base + (s.nCompleted + 1) := h1
          omega
        rw [this]; exact hf'

theorem seqNext_spec {s : St} {g : SGen} (fuel : Nat) (h : SInv s g) : SNPost s g (seqNext (fuel + 2) s g) := by
  cases hp : g.pending with
  | cons id rest => exact seqNext_cons (fuel + 1) h hp
  | nil =>
    have hpos : s.nCompleted = s.srcPos := by have := h.pos; rw [hp] at this; simpa using this
    unfold seqNext
    rw [if_neg (by simp [h.live])]
    rw [hp]
    simp only
    obtain ⟨lg, m, d, pl, r, he, hs⟩ := pullUpTo_spec true (max g.bs 1) s
    rw [he]
    simp only
    have hmn := hs.le_n h.le_n
    cases r with
    | true =>
      simp only [if_true]
      obtain ⟨_, hr2⟩ := hs.raised rfl
      have hge : 0 ≤ s.spec.iterfail := by rw [← hr2]; omega
      refine ⟨rfl, rfl, rfl, rfl, rfl, ⟨rfl, rfl, rfl, rfl, rfl, rfl, rfl, rfl, rfl, rfl, rfl, rfl, rfl, rfl⟩,
        Or.inr ⟨_, rfl, hge, ?_, hp⟩⟩
      show ((s.base + (s.srcPos + m) : Nat) : Int) = _
      rw [← hr2]; omega
    | false =>
      simp only [Bool.false_eq_true, if_false, List.length_range']
      by_cases hm : m = 0
      · rw [if_pos hm]
        subst hm
        have hk : 0 < max g.bs 1 := by omega
        have hd : d = true := by
          rcases hs.short rfl hk with x | x
          · exact x
          · exact absurd x.1 (by simp)
        have hend : s.srcPos = s.spec.n ∧ (s.srcPos : Int) ≠ s.spec.iterfail := by
          cases hsd : s.srcDead with
          | true => exact h.dead hsd
          | false =>
            have := hs.dead_new rfl hd hsd
            simp only [Nat.add_zero] at this
            exact ⟨by have := h.le_n; omega, this.2⟩
        refine ⟨rfl, rfl, h.ne, h.na, rfl, by rw [hpos]; exact hend.1, hp, ?_, hend.1,
          ⟨rfl, rfl, rfl, rfl, rfl, rfl, rfl, rfl, rfl, rfl, rfl, rfl, rfl, rfl⟩⟩
        intro ⟨x, y⟩
        have := h.iter x
        omega
      · rw [if_neg hm]
        -- the slice is not empty: execute its first item
        have hnd : s.srcDead = false := by
          cases hsd : s.srcDead with
          | true => have := (hs.dead_mono hsd).2.1; omega
          | false => rfl
        have hI : SInv { s with log := lg, srcPos := s.srcPos + m, srcDead := d, preLeft := pl }
            { g with pending := List.range' (s.base + s.srcPos) m } := by
          refine ⟨h.live, h.running, h.na, h.ne, ?_, ?_, hmn, fun hi => hs.le_iter (h.iter hi), ?_, ?_, h.disp, h.ok⟩
          · show List.range' (s.base + s.srcPos) m = List.range' (s.base + s.nCompleted) (List.range' _ m).length
            rw [hpos]; simp
          · show s.nCompleted + (List.range' _ m).length = s.srcPos + m
            rw [hpos]; simp
          · intro hd
            have := hs.dead_new rfl hd hnd
            show s.srcPos + m = s.spec.n ∧ ((s.srcPos + m : Nat) : Int) ≠ s.spec.iterfail
            exact ⟨by omega, this.2⟩
          · show (List.range' _ m).length ≤ max g.bs 1
            simp only [List.length_range']; exact hs.m_le
        obtain ⟨id, rest, hir⟩ : ∃ id rest, List.range' (s.base + s.srcPos) m = id :: rest := by
          cases m with
          | zero => exact absurd rfl hm
          | succ k => exact ⟨_, _, List.range'_succ⟩
        have hnext := seqNext_cons (g := { g with pending := List.range' (s.base + s.srcPos) m }) fuel hI
          (id := id) (rest := rest) hir
        generalize seqNext (fuel + 1) { s with log := lg, srcPos := s.srcPos + m, srcDead := d, preLeft := pl }
          { g with pending := List.range' (s.base + s.srcPos) m } = res at hnext
        obtain ⟨s', g', o⟩ := res
        cases o with
        | value v =>
          obtain ⟨a1, a2, a3, a4, a5, a6⟩ := hnext
          exact ⟨a1, a2, a3, a4, a5, ⟨a6.trk, a6.parked, a6.jobs, a6.jobsSet, a6.callId, a6.callCtr, a6.sched,
            a6.failIds, a6.base, a6.spec, a6.hung, a6.managed, a6.calling, a6.now⟩⟩
        | stop =>
          obtain ⟨_, _, _, _, _, _, a7, _⟩ := hnext
          rw [hir] at a7; cases a7
        | raise e =>
          obtain ⟨a1, a2, a3, a4, a5, a6, a7⟩ := hnext
          refine ⟨a1, a2, a3, a4, a5, ⟨a6.trk, a6.parked, a6.jobs, a6.jobsSet, a6.callId, a6.callCtr, a6.sched,
            a6.failIds, a6.base, a6.spec, a6.hung, a6.managed, a6.calling, a6.now⟩, ?_⟩
          rcases a7 with ⟨b1, b2, b3⟩ | ⟨pos, b1, b2, b3, b4⟩
          · exact Or.inl ⟨b1, b2, b3⟩
          · rw [hir] at b4; cases b4
        | hang => exact hnext

end JoblibModel.ParallelSeq
