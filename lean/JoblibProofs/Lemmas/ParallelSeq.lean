import JoblibModel.ParallelSeq
import JoblibProofs.Lemmas.ParallelProto
/-!
Lemmas for the sequential path (`n_jobs == 1`, `JoblibModel.ParallelSeq`): the invariant of the suspended
`_get_sequential_output` generator and what `seqStart` / `seqNext` / `seqClose` / `seqDrain` / `seqCallList` do.
-/
namespace JoblibModel.ParallelSeq
open JoblibModel.ParallelProto

/-- What no step of the sequential path touches. -/
structure SKeep (s s' : St) : Prop where
  trk : s'.trk = s.trk
  parked : s'.parked = s.parked
  jobs : s'.jobs = s.jobs
  jobsSet : s'.jobsSet = s.jobsSet
  callId : s'.callId = s.callId
  callCtr : s'.callCtr = s.callCtr
  sched : s'.sched = s.sched
  failIds : s'.failIds = s.failIds
  base : s'.base = s.base
  spec : s'.spec = s.spec
  hung : s'.hung = s.hung
  managed : s'.managed = s.managed
  calling : s'.calling = s.calling
  now : s'.now = s.now

theorem SKeep.refl (s : St) : SKeep s s := ⟨rfl, rfl, rfl, rfl, rfl, rfl, rfl, rfl, rfl, rfl, rfl, rfl, rfl, rfl⟩

theorem SKeep.trans {a b d : St} (h1 : SKeep a b) (h2 : SKeep b d) : SKeep a d :=
  ⟨h2.trk.trans h1.trk, h2.parked.trans h1.parked, h2.jobs.trans h1.jobs, h2.jobsSet.trans h1.jobsSet,
   h2.callId.trans h1.callId, h2.callCtr.trans h1.callCtr, h2.sched.trans h1.sched, h2.failIds.trans h1.failIds,
   h2.base.trans h1.base, h2.spec.trans h1.spec, h2.hung.trans h1.hung, h2.managed.trans h1.managed,
   h2.calling.trans h1.calling, h2.now.trans h1.now⟩

/-- The invariant of a live sequential generator: the pending items are the ids pulled but not yet executed, the
executed ones are `base … base + nCompleted − 1` and none of them failed. -/
structure SInv (s : St) (g : SGen) : Prop where
  live : g.live = true
  running : s.running = true
  na : s.aborting = false
  ne : s.exception = false
  pend : g.pending = List.range' (s.base + s.nCompleted) g.pending.length
  pos : s.nCompleted + g.pending.length = s.srcPos
  le_n : s.srcPos ≤ s.spec.n
  iter : 0 ≤ s.spec.iterfail → (s.srcPos : Int) ≤ s.spec.iterfail
  dead : s.srcDead = true → s.srcPos = s.spec.n ∧ (s.srcPos : Int) ≠ s.spec.iterfail
  plen : g.pending.length ≤ max g.bs 1
  disp : s.nDispTasks = s.nCompleted
  ok : ∀ id, s.base ≤ id → id < s.base + s.nCompleted → id ∉ s.failIds

/-- Outcome of one `next()` on a live sequential generator. -/
def SNPost (s : St) (g : SGen) : St × SGen × Out → Prop
  | (s', g', .value v) => v = s.base + s.nCompleted ∧ v ∉ s.failIds ∧ SInv s' g' ∧
      s'.nCompleted = s.nCompleted + 1 ∧ g'.bs = g.bs ∧ SKeep s s'
  | (s', g', .stop) => g'.live = false ∧ s'.running = false ∧ s'.exception = false ∧ s'.aborting = false ∧
      s'.nCompleted = s.nCompleted ∧ s.nCompleted = s.spec.n ∧ g.pending = [] ∧
      ¬ (0 ≤ s.spec.iterfail ∧ s.spec.iterfail ≤ s.spec.n) ∧ s'.srcPos = s.spec.n ∧ SKeep s s'
  | (s', g', .raise e) => g'.live = false ∧ s'.running = false ∧ s'.exception = true ∧ s'.aborting = true ∧
      s'.nCompleted = s.nCompleted ∧ SKeep s s' ∧
      ((e = .task (s.base + s.nCompleted) ∧ s.base + s.nCompleted ∈ s.failIds ∧
          s'.nDispTasks = s.nCompleted + 1 ∧ s.nCompleted < s.spec.n) ∨
       (∃ pos, e = .iter pos ∧ 0 ≤ s.spec.iterfail ∧ (pos : Int) = (s.base : Int) + s.spec.iterfail ∧
          g.pending = []))
  | (_, _, .hang) => False

/-- Executing the head of the pending tuple. -/
theorem seqNext_cons {s : St} {g : SGen} (fuel : Nat) (h : SInv s g) {id : Nat} {rest : List Nat}
    (hp : g.pending = id :: rest) : SNPost s g (seqNext (fuel + 1) s g) := by
  have hid : id = s.base + s.nCompleted := by
    have := h.pend
    rw [hp] at this
    simp only [List.length_cons, List.range'_succ, List.cons.injEq] at this
    exact this.1
  have hrest : rest = List.range' (s.base + (s.nCompleted + 1)) rest.length := by
    have := h.pend
    rw [hp] at this
    simp only [List.length_cons, List.range'_succ, List.cons.injEq] at this
    rw [show s.base + (s.nCompleted + 1) = s.base + s.nCompleted + 1 by omega]
    exact this.2
  have hpl : g.pending.length = rest.length + 1 := by rw [hp]; simp
  unfold seqNext
  rw [if_neg (by simp [h.live])]
  rw [hp]
  simp only
  by_cases hf : (ev { s with nDispBatches := s.nDispBatches + 1, nDispTasks := s.nDispTasks + 1 } ("exec " ++ toString id)).failIds.contains id = true
  · rw [if_pos hf]
    have hf' : id ∈ s.failIds := by simpa [ev] using hf
    refine ⟨rfl, rfl, rfl, rfl, rfl, ⟨rfl, rfl, rfl, rfl, rfl, rfl, rfl, rfl, rfl, rfl, rfl, rfl, rfl, rfl⟩,
      Or.inl ⟨by rw [hid], by rw [← hid]; exact hf', ?_, ?_⟩⟩
    · show s.nDispTasks + 1 = _
      rw [h.disp]
    · have := h.pos; have := h.le_n; rw [hpl] at *; omega
  · rw [if_neg hf]
    have hf' : id ∉ s.failIds := by simpa [ev] using hf
    refine ⟨hid, hf', ?_, rfl, rfl,
      ⟨rfl, rfl, rfl, rfl, rfl, rfl, rfl, rfl, rfl, rfl, rfl, rfl, rfl, rfl⟩⟩
    refine ⟨h.live, h.running, h.na, h.ne, hrest, ?_, h.le_n, h.iter, h.dead, ?_, ?_, ?_⟩
    · show s.nCompleted + 1 + rest.length = s.srcPos
      have := h.pos; rw [hpl] at this; omega
    · show rest.length ≤ max g.bs 1
      have := h.plen; rw [hpl] at this; omega
    · show s.nDispTasks + 1 = s.nCompleted + 1
      rw [h.disp]
    · intro j h0 h1
      show j ∉ s.failIds
      by_cases hj : j < s.base + s.nCompleted
      · exact h.ok j h0 hj
      · have : j = id := by
          have : j < s.base + (s.nCompleted + 1) := h1
          omega
        rw [this]; exact hf'

theorem seqNext_spec {s : St} {g : SGen} (fuel : Nat) (h : SInv s g) : SNPost s g (seqNext (fuel + 2) s g) := by
  cases hp : g.pending with
  | cons id rest => exact seqNext_cons (fuel + 1) h hp
  | nil =>
    have hpos : s.nCompleted = s.srcPos := by have := h.pos; rw [hp] at this; simpa using this
    unfold seqNext
    rw [if_neg (by simp [h.live])]
    rw [hp]
    simp only
    obtain ⟨lg, m, d, pl, r, he, hs⟩ := pullUpTo_spec true (max g.bs 1) s
    rw [he]
    simp only
    have hmn := hs.le_n h.le_n
    cases r with
    | true =>
      simp only [if_true]
      obtain ⟨_, hr2⟩ := hs.raised rfl
      have hge : 0 ≤ s.spec.iterfail := by rw [← hr2]; omega
      refine ⟨rfl, rfl, rfl, rfl, rfl, ⟨rfl, rfl, rfl, rfl, rfl, rfl, rfl, rfl, rfl, rfl, rfl, rfl, rfl, rfl⟩,
        Or.inr ⟨_, rfl, hge, ?_, hp⟩⟩
      show ((s.base + (s.srcPos + m) : Nat) : Int) = _
      rw [← hr2]; omega
    | false =>
      simp only [Bool.false_eq_true, if_false, List.length_range']
      by_cases hm : m = 0
      · rw [if_pos hm]
        subst hm
        have hk : 0 < max g.bs 1 := by omega
        have hd : d = true := by
          rcases hs.short rfl hk with x | x
          · exact x
          · exact absurd x.1 (by simp)
        have hend : s.srcPos = s.spec.n ∧ (s.srcPos : Int) ≠ s.spec.iterfail := by
          cases hsd : s.srcDead with
          | true => exact h.dead hsd
          | false =>
            have := hs.dead_new rfl hd hsd
            simp only [Nat.add_zero] at this
            exact ⟨by have := h.le_n; omega, this.2⟩
        refine ⟨rfl, rfl, h.ne, h.na, rfl, by rw [hpos]; exact hend.1, hp, ?_, hend.1,
          ⟨rfl, rfl, rfl, rfl, rfl, rfl, rfl, rfl, rfl, rfl, rfl, rfl, rfl, rfl⟩⟩
        intro ⟨x, y⟩
        have := h.iter x
        omega
      · rw [if_neg hm]
        -- the slice is not empty: execute its first item
        have hnd : s.srcDead = false := by
          cases hsd : s.srcDead with
          | true => have := (hs.dead_mono hsd).2.1; omega
          | false => rfl
        have hI : SInv { s with log := lg, srcPos := s.srcPos + m, srcDead := d, preLeft := pl }
            { g with pending := List.range' (s.base + s.srcPos) m } := by
          refine ⟨h.live, h.running, h.na, h.ne, ?_, ?_, hmn, fun hi => hs.le_iter (h.iter hi), ?_, ?_, h.disp, h.ok⟩
          · show List.range' (s.base + s.srcPos) m = List.range' (s.base + s.nCompleted) (List.range' _ m).length
            rw [hpos]; simp
          · show s.nCompleted + (List.range' _ m).length = s.srcPos + m
            rw [hpos]; simp
          · intro hd
            have := hs.dead_new rfl hd hnd
            show s.srcPos + m = s.spec.n ∧ ((s.srcPos + m : Nat) : Int) ≠ s.spec.iterfail
            exact ⟨by omega, this.2⟩
          · show (List.range' _ m).length ≤ max g.bs 1
            simp only [List.length_range']; exact hs.m_le
        obtain ⟨id, rest, hir⟩ : ∃ id rest, List.range' (s.base + s.srcPos) m = id :: rest := by
          cases m with
          | zero => exact absurd rfl hm
          | succ k => exact ⟨_, _, List.range'_succ⟩
        have hnext := seqNext_cons (g := { g with pending := List.range' (s.base + s.srcPos) m }) fuel hI
          (id := id) (rest := rest) hir
        generalize seqNext (fuel + 1) { s with log := lg, srcPos := s.srcPos + m, srcDead := d, preLeft := pl }
          { g with pending := List.range' (s.base + s.srcPos) m } = res at hnext
        obtain ⟨s', g', o⟩ := res
        cases o with
        | value v =>
          obtain ⟨a1, a2, a3, a4, a5, a6⟩ := hnext
          exact ⟨a1, a2, a3, a4, a5, ⟨a6.trk, a6.parked, a6.jobs, a6.jobsSet, a6.callId, a6.callCtr, a6.sched,
            a6.failIds, a6.base, a6.spec, a6.hung, a6.managed, a6.calling, a6.now⟩⟩
        | stop =>
          obtain ⟨_, _, _, _, _, _, a7, _⟩ := hnext
          rw [hir] at a7; cases a7
        | raise e =>
          obtain ⟨a1, a2, a3, a4, a5, a6, a7⟩ := hnext
          refine ⟨a1, a2, a3, a4, a5, ⟨a6.trk, a6.parked, a6.jobs, a6.jobsSet, a6.callId, a6.callCtr, a6.sched,
            a6.failIds, a6.base, a6.spec, a6.hung, a6.managed, a6.calling, a6.now⟩, ?_⟩
          rcases a7 with ⟨b1, b2, b3, b4⟩ | ⟨pos, b1, b2, b3, b4⟩
          · exact Or.inl ⟨b1, b2, b3, b4⟩
          · rw [hir] at b4; cases b4
        | hang => exact hnext

/-! ### `seqStart` -/

theorem seqStart_running (c : Cfg) (base : Nat) (spec : CallSpec) (s : St) (h : s.running = true) :
    seqStart c base spec s = (s, { live := false }, some .runtime) := by
  unfold seqStart; rw [if_pos h]

theorem seqStart_eq (c : Cfg) (base : Nat) (spec : CallSpec) (s : St) :
    seqStart c base spec s =
      if s.running then (s, { live := false }, some .runtime)
      else
        ((if c.bsAuto then hook c false { ({ configured c (resetState s) with iterating := true, origAlive := true, base := base, spec := spec, srcPos := 0, srcDead := false } : St) with bsI := (configured c (resetState s)).bsI + 1 }
          else { configured c (resetState s) with iterating := true, origAlive := true, base := base, spec := spec, srcPos := 0, srcDead := false }),
         { bs := scriptedBs c { configured c (resetState s) with iterating := true, origAlive := true, base := base, spec := spec, srcPos := 0, srcDead := false } }, none) := rfl

/-- What `seqStart` leaves of the state it started from. -/
structure SStarted (base : Nat) (spec : CallSpec) (s s1 : St) : Prop where
  trk : s1.trk = s.trk
  parked : s1.parked.Sublist s.parked
  jobs : s1.jobs = s.jobs
  jobsSet : s1.jobsSet = s.jobsSet
  callId : s1.callId = s.callCtr + 1
  callCtr : s1.callCtr = s.callCtr + 1
  failIds : s1.failIds = s.failIds
  base : s1.base = base
  spec : s1.spec = spec
  hung : s1.hung = s.hung
  sched : s1.sched.length ≤ s.sched.length
  zero : s1.nCompleted = 0 ∧ s1.srcPos = 0
  managed : s1.managed = s.managed
  calling : s1.calling = s.calling
  stale : AllStale s1

theorem seqStart_spec (c : Cfg) (base : Nat) (spec : CallSpec) {s : St} (hi : Idle s) :
    ∃ s1 bs, seqStart c base spec s = (s1, { bs := bs }, none) ∧ SInv s1 { bs := bs } ∧ SStarted base spec s s1 := by
  rw [seqStart_eq, if_neg (by simp [hi.running])]
  have hstale : AllStale (resetState s) := by
    intro i _
    have := hi.callId_le i
    show (getTrk s i).callId ≠ s.callCtr + 1
    omega
  obtain ⟨lg, pk, sc, ib, eC, hpk, hsc⟩ := configured_stale c hstale
  rw [eC]
  have hstD : AllStale ({ ({ resetState s with log := lg, parked := pk, sched := sc, inCb := ib } : St) with iterating := true, origAlive := true, base := base, spec := spec, srcPos := 0, srcDead := false }) := by
    intro i hi'
    exact hstale i (hpk.subset hi')
  by_cases hau : c.bsAuto = true
  · rw [if_pos hau]
    have hst2 : AllStale ({ ({ ({ resetState s with log := lg, parked := pk, sched := sc, inCb := ib } : St) with iterating := true, origAlive := true, base := base, spec := spec, srcPos := 0, srcDead := false } : St) with bsI := ({ resetState s with log := lg, parked := pk, sched := sc, inCb := ib } : St).bsI + 1 }) := hstD
    obtain ⟨lg2, pk2, sc2, ib2, e2, hpk2, hsc2⟩ := hook_nosleep_stale c hst2
    rw [e2]
    refine ⟨_, _, rfl, ?_, ?_⟩
    · refine ⟨rfl, rfl, rfl, rfl, rfl, rfl, Nat.zero_le _, (fun hh => by simpa using hh), (fun h => by cases h), Nat.zero_le _, rfl, ?_⟩
      intro id h0 h1
      have h1' : id < base + 0 := h1
      have h0' : base ≤ id := h0
      omega
    · exact ⟨rfl, hpk2.trans hpk, rfl, rfl, rfl, rfl, rfl, rfl, rfl, rfl, Nat.le_trans hsc2 hsc, ⟨rfl, rfl⟩, rfl, rfl,
        fun i hi' => hstale i (hpk.subset (hpk2.subset hi'))⟩
  · rw [if_neg hau]
    refine ⟨_, _, rfl, ?_, ?_⟩
    · refine ⟨rfl, rfl, rfl, rfl, rfl, rfl, Nat.zero_le _, (fun hh => by simpa using hh), (fun h => by cases h), Nat.zero_le _, rfl, ?_⟩
      intro id h0 h1
      have h1' : id < base + 0 := h1
      have h0' : base ≤ id := h0
      omega
    · exact ⟨rfl, hpk, rfl, rfl, rfl, rfl, rfl, rfl, rfl, rfl, hsc, ⟨rfl, rfl⟩, rfl, rfl, hstD⟩

/-! ### `seqDrain`, `seqCallList` -/

/-- How draining a live sequential generator ends. -/
def SDPost (s : St) (acc : List Nat) : St × SGen × List Nat × Out → Prop
  | (s', _, acc', .stop) => acc' = acc ++ List.range' (s.base + s.nCompleted) (s.spec.n - s.nCompleted) ∧
      s'.nCompleted = s.spec.n ∧ s'.running = false ∧ s'.exception = false ∧ s'.aborting = false ∧
      ¬ (0 ≤ s.spec.iterfail ∧ s.spec.iterfail ≤ s.spec.n) ∧ SKeep s s' ∧
      (∀ id, s.base ≤ id → id < s.base + s.spec.n → id ∉ s.failIds)
  | (s', _, acc', .raise e) =>
      acc' = acc ++ List.range' (s.base + s.nCompleted) (s'.nCompleted - s.nCompleted) ∧
      s.nCompleted ≤ s'.nCompleted ∧ s'.running = false ∧ s'.exception = true ∧ s'.aborting = true ∧ SKeep s s' ∧
      (∀ id, s.base ≤ id → id < s.base + s'.nCompleted → id ∉ s.failIds) ∧
      ((e = .task (s.base + s'.nCompleted) ∧ s.base + s'.nCompleted ∈ s.failIds ∧ s'.nCompleted < s.spec.n ∧
          s'.nDispTasks = s'.nCompleted + 1) ∨
       (∃ pos, e = .iter pos ∧ 0 ≤ s.spec.iterfail ∧ (pos : Int) = (s.base : Int) + s.spec.iterfail))
  | (_, _, _, .value _) => False
  | (_, _, _, .hang) => False

theorem seqDrain_spec (fuel : Nat) : ∀ (n : Nat) (s : St) (g : SGen) (acc : List Nat), SInv s g →
    s.spec.n - s.nCompleted + 1 ≤ n → SDPost s acc (seqDrain n (fuel + 2) s g acc) := by
  intro n
  induction n with
  | zero => intro s g acc _ hn; omega
  | succ n ih =>
    intro s g acc h hn
    unfold seqDrain
    have hp := seqNext_spec fuel h
    generalize seqNext (fuel + 2) s g = res at hp
    obtain ⟨s1, g1, o⟩ := res
    have hlt : s.nCompleted ≤ s.spec.n := by have := h.pos; have := h.le_n; omega
    cases o with
    | value v =>
      simp only
      obtain ⟨a1, a2, a3, a4, a5, a6⟩ := hp
      have hlt1 : s1.nCompleted ≤ s1.spec.n := by have := a3.pos; have := a3.le_n; omega
      have := ih s1 g1 (acc ++ [v]) a3 (by rw [a6.spec, a4]; rw [a6.spec, a4] at hlt1; omega)
      generalize seqDrain n (fuel + 2) s1 g1 (acc ++ [v]) = res at this
      obtain ⟨s', g', acc', o'⟩ := res
      have hrange : ∀ k, s.nCompleted + 1 ≤ s.nCompleted + 1 + k →
          acc ++ [v] ++ List.range' (s.base + (s.nCompleted + 1)) k =
          acc ++ List.range' (s.base + s.nCompleted) (k + 1) := by
        intro k _
        rw [List.range'_succ, a1]
        simp [Nat.add_assoc]
      cases o' with
      | stop =>
        obtain ⟨b1, b2, b3, b4, b5, b6, b7, b8⟩ := this
        rw [a6.base, a6.spec, a4] at b1
        rw [a6.spec] at b2 b6
        rw [a6.base, a6.spec, a6.failIds] at b8
        refine ⟨?_, b2, b3, b4, b5, b6, a6.trans b7, b8⟩
        rw [b1, hrange _ (by omega)]
        rw [a6.spec, a4] at hlt1
        congr 2; omega
      | raise e =>
        obtain ⟨b1, b2, b3, b4, b5, b6, b7, b8⟩ := this
        rw [a6.base, a4] at b1
        rw [a4] at b2
        rw [a6.base, a6.failIds] at b7
        rw [a6.base, a6.spec, a6.failIds] at b8
        refine ⟨?_, by omega, b3, b4, b5, a6.trans b6, b7, b8⟩
        rw [b1, hrange _ (by omega)]
        congr 2; omega
      | value _ => exact this
      | hang => exact this
    | stop =>
      simp only
      obtain ⟨_, a2, a3, a4, a5, a6, _, a8, _, a10⟩ := hp
      refine ⟨by rw [a6]; simp, by rw [a5, a6], a2, a3, a4, a8, a10, ?_⟩
      intro id h0 h1
      exact h.ok id h0 (by rw [a6]; exact h1)
    | raise e =>
      simp only
      obtain ⟨_, a2, a3, a4, a5, a6, a7⟩ := hp
      refine ⟨by rw [a5]; simp, by rw [a5]; exact Nat.le_refl _, a2, a3, a4, a6, by rw [a5]; exact h.ok, ?_⟩
      rw [a5]
      rcases a7 with ⟨b1, b2, b3, b4⟩ | ⟨pos, b1, b2, b3, _⟩
      · exact Or.inl ⟨b1, b2, b4, b3⟩
      · exact Or.inr ⟨pos, b1, b2, b3⟩
    | hang => exact hp.elim

/-- The object is idle again after a sequential call has ended. -/
theorem idle_after {base : Nat} {spec : CallSpec} {s₀ s1 s' : St} (hi : Idle s₀) (hS : SStarted base spec s₀ s1)
    (hk : SKeep s1 s') (hr : s'.running = false) : Idle s' := by
  have hg : ∀ j, getTrk s' j = getTrk s₀ j := fun j => by
    rw [getTrk_same hk.trk, getTrk_same hS.trk]
  refine ⟨hr, by rw [hk.jobs, hS.jobs]; exact hi.jobs, by rw [hk.jobsSet, hS.jobsSet]; exact hi.jobsSet, ?_, ?_, ?_, ?_⟩
  · intro j; rw [hg, hk.callCtr, hS.callCtr]; have := hi.callId_le j; omega
  · intro j hj; rw [hk.parked] at hj; rw [hk.trk, hS.trk]; exact hi.parked_lt j (hS.parked.subset hj)
  · rw [hk.parked]; exact hi.parked_nodup.sublist hS.parked
  · refine Or.inr ?_
    intro j hj
    rw [hk.parked] at hj
    have := hS.stale j hj
    rw [getTrk_same hk.trk, hk.callId]; exact this

/-- How a sequential list-mode call on an idle object ends. -/
def SCPost (base : Nat) (spec : CallSpec) (s₀ : St) : St × CallOutcome → Prop
  | (s', .ret v) => v = List.range' base spec.n ∧ Idle s' ∧ s'.nCompleted = spec.n ∧ s'.exception = false ∧
      s'.hung = s₀.hung ∧ s'.failIds = s₀.failIds ∧ s'.calling = s₀.calling ∧
      (∀ id, base ≤ id → id < base + spec.n → id ∉ s₀.failIds) ∧ ¬ (0 ≤ spec.iterfail ∧ spec.iterfail ≤ spec.n)
  | (s', .raised e) => Idle s' ∧ s'.exception = true ∧ s'.hung = s₀.hung ∧ s'.failIds = s₀.failIds ∧
      s'.calling = s₀.calling ∧
      (∀ id, base ≤ id → id < base + s'.nCompleted → id ∉ s₀.failIds) ∧
      ((e = .task (base + s'.nCompleted) ∧ base + s'.nCompleted ∈ s₀.failIds ∧ s'.nCompleted < spec.n ∧
          s'.nDispTasks = s'.nCompleted + 1) ∨
       (∃ pos, e = .iter pos ∧ 0 ≤ spec.iterfail ∧ (pos : Int) = (base : Int) + spec.iterfail))
  | (_, .hung) => False

theorem seqCallList_spec (c : Cfg) {fuel base : Nat} {spec : CallSpec} {s₀ : St} (hi : Idle s₀)
    (hfuel : spec.n + 2 ≤ fuel) : SCPost base spec s₀ (seqCallList c fuel base spec s₀) := by
  obtain ⟨s1, bs, he, hI, hS⟩ := seqStart_spec c base spec hi
  unfold seqCallList
  rw [he]
  simp only
  obtain ⟨f, hf⟩ : ∃ f, fuel = f + 2 := ⟨fuel - 2, by omega⟩
  subst hf
  have hd := seqDrain_spec f (f + 2) s1 { bs := bs } [] hI (by rw [hS.spec, hS.zero.1]; omega)
  generalize seqDrain (f + 2) (f + 2) s1 { bs := bs } [] = res at hd
  obtain ⟨s', g', acc, o⟩ := res
  cases o with
  | stop =>
    obtain ⟨b1, b2, b3, b4, b5, b6, b7, b8⟩ := hd
    rw [hS.base, hS.spec, hS.zero.1] at b1
    rw [hS.spec] at b2 b6
    rw [hS.base, hS.spec, hS.failIds] at b8
    exact ⟨by simpa using b1, idle_after hi hS b7 b3, b2, b4, b7.hung.trans hS.hung, b7.failIds.trans hS.failIds,
      b7.calling.trans hS.calling, b8, b6⟩
  | raise e =>
    obtain ⟨b1, b2, b3, b4, b5, b6, b7, b8⟩ := hd
    rw [hS.base, hS.failIds] at b7
    rw [hS.base, hS.spec, hS.failIds] at b8
    exact ⟨idle_after hi hS b6 b3, b4, b6.hung.trans hS.hung, b6.failIds.trans hS.failIds,
      b6.calling.trans hS.calling, b7, b8⟩
  | value _ => exact hd.elim
  | hang => exact hd.elim

/-! ### `seqClose`, laziness -/

theorem seqClose_live (s : St) {g : SGen} (h : g.live = true) : seqClose s g = (failed s, { g with live := false }) := by
  unfold seqClose; rw [if_pos h]

theorem seqNext_dead (fuel : Nat) (s : St) {g : SGen} (h : g.live = false) :
    seqNext (fuel + 1) s g = (s, g, .stop) := by
  unfold seqNext; rw [if_pos (by simp [h])]

/-- LAZINESS. While the sequential generator is suspended, the items taken from the input exceed the tasks executed
by exactly the number of pending items of the current re-batched tuple, which is at most `max batch_size 1`. -/
theorem seq_lookahead {s : St} {g : SGen} (h : SInv s g) :
    s.srcPos - s.nCompleted = g.pending.length ∧ g.pending.length ≤ max g.bs 1 := by
  have := h.pos
  exact ⟨by omega, h.plen⟩

end JoblibModel.ParallelSeq
