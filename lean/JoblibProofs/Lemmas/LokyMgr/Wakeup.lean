import JoblibProofs.Lemmas.LokyMgr
/-! Lemmas for the fine-grained layer of `JoblibModel.LokyMgr` (wait set, wake-up pipe, shutdown lock). -/
namespace JoblibModel.LokyMgr

/-! ### The coarse steps are the fine ones run without interruption -/

theorem register_eq (s : State) (arg : Nat) : register s arg = writeWakeup (registerItem s arg) := rfl
theorem shutdown_eq (s : State) (kw : Bool) : shutdown s kw = writeWakeup (flagShutdown s kw) := rfl

theorem deadWaited_all (ps : List Worker) : deadWaited (pidsOf ps) ps = deadPids ps := by
  unfold deadWaited
  rw [List.filter_eq_self]
  intro p hp
  obtain ⟨w, hw, rfl, _⟩ := mem_deadPids.mp hp
  simp only [List.contains_eq_mem, decide_eq_true_eq, pidsOf]
  exact List.mem_map.mpr ⟨w, hw, rfl⟩

/-- With the sentinels of ALL current processes in the wait set, `add_call_item_to_queue` + the fine wait step IS
`managerStep` (one iteration of the coarse model). -/
theorem waitStep_all (s : State) (hr : s.mgr = .running) (hc : (addCallItems s).mgr ≠ .crashed) :
    waitStep (addCallItems s) (pidsOf (addCallItems s).processes) = managerStep s := by
  unfold managerStep waitStep
  simp only [hr, ne_eq, not_true_eq_false, if_false, hc, deadWaited_all]

/-! ### What the wait step keeps -/

theorem mem_deadWaited {ws : List Nat} {ps : List Worker} {p : Nat} :
    p ∈ deadWaited ws ps ↔ p ∈ deadPids ps ∧ p ∈ ws := by
  simp [deadWaited]

/-- A dead process whose sentinel IS in the wait set: the wait returns and the iteration does not end asleep. -/
theorem waitStep_dead_waited (s : State) (ws : List Nat) (p : Nat) (hd : DeadIn s p) (hp : p ∈ ws) :
    waitReady s ws = true ∧ (waitStep s ws).2 ≠ .blockedInWait := by
  have hm : p ∈ deadWaited ws s.processes := mem_deadWaited.mpr ⟨mem_deadPids.mpr hd, hp⟩
  have hne : (deadWaited ws s.processes).isEmpty = false := by
    cases hx : deadWaited ws s.processes with
    | nil => rw [hx] at hm; cases hm
    | cons a l => rfl
  constructor
  · simp [waitReady, hne]
  · unfold waitStep
    split
    · split
      · simp
      · simp
      · exact finishIteration_ne_blockedInWait _
    · split <;> simp
    · split
      · exact finishIteration_ne_blockedInWait _
      · simp [hne]

/-- When `wait` returns, the iteration does not end asleep. -/
theorem waitStep_ready_not_blocked (s : State) (ws : List Nat) (h : waitReady s ws = true) :
    (waitStep s ws).2 ≠ .blockedInWait := by
  unfold waitStep
  split
  · split
    · simp
    · simp
    · exact finishIteration_ne_blockedInWait _
  · split <;> simp
  · rename_i hp hq
    split
    · exact finishIteration_ne_blockedInWait _
    · rename_i hw
      split
      · rename_i he
        exfalso
        simp [waitReady, hp, hq, he] at h
        omega
      · simp

theorem finishIteration_frame (s : State) :
    (finishIteration s).1.max_workers = s.max_workers ∧
    (finishIteration s).1.result_pipe = s.result_pipe ∧
    (((finishIteration s).1.mgr = .exited ∧ (finishIteration s).1.processes = []) ∨
     ((finishIteration s).1.processes = s.processes ∧ (finishIteration s).1.mgr = s.mgr)) := by
  unfold finishIteration
  split
  · simp
  · split
    · unfold flagExecutorShuttingDown
      simp only []
      split
      · split
        · simp [joinExecutorInternals, killWorkers, failPending]
        · simp [killWorkers, failPending] at *
      · split
        · simp [joinExecutorInternals]
        · simp
    · simp

/-- What one wait step (the rest of an iteration of the manager's loop) does to the processes, when no clean-exit
announcement is in the pipe: it ends the thread with `processes` emptied, or it leaves `processes` alone. -/
theorem waitStep_frame (s : State) (ws : List Nat) (hnp : ∀ q, Msg.pid q ∉ s.result_pipe) :
    (waitStep s ws).1.max_workers = s.max_workers ∧
    (∀ m ∈ (waitStep s ws).1.result_pipe, m ∈ s.result_pipe) ∧
    (((waitStep s ws).1.mgr = .exited ∧ (waitStep s ws).1.processes = []) ∨
     ((waitStep s ws).1.processes = s.processes ∧
       ((waitStep s ws).1.mgr = s.mgr ∨ (waitStep s ws).1.mgr = .crashed))) := by
  have hpipe' : ∀ m rest, s.result_pipe = m :: rest → ∀ x ∈ rest, x ∈ s.result_pipe :=
    fun m rest h x hx => by rw [h]; exact List.mem_cons_of_mem _ hx
  have hhead : ∀ m rest, s.result_pipe = m :: rest → ∀ q, m ≠ .pid q := by
    intro m rest h q e
    apply hnp q
    rw [h, e]; exact List.mem_cons_self
  unfold waitStep
  cases hpipe : s.result_pipe with
  | cons m rest =>
    have hsub := hpipe' m rest hpipe
    have hm' := hhead m rest hpipe
    simp only []
    cases m with
    | pid q => exact absurd rfl (hm' q)
    | remoteTb =>
      exact ⟨rfl, by simpa [terminateBroken, joinExecutorInternals, killWorkers, failPending, flagAsBroken, received, hpipe] using hsub,
        Or.inl ⟨rfl, rfl⟩⟩
    | unpicklable =>
      exact ⟨rfl, by simpa [terminateBroken, joinExecutorInternals, killWorkers, failPending, flagAsBroken, received, hpipe] using hsub,
        Or.inl ⟨rfl, rfl⟩⟩
    | result wid v =>
      simp only []
      obtain ⟨f1, f2, f3⟩ := finishIteration_frame (processResultItem (received s rest) (.result wid v))
      obtain ⟨p1, p2, _, _, p5⟩ := processResultItem_same (received s rest) (.result wid v) hm'
      have pmax : (processResultItem (received s rest) (.result wid v)).max_workers = s.max_workers := by
        simp only [processResultItem]; (repeat' split) <;> simp [complete, received]
      refine ⟨by rw [f1, pmax], ?_, ?_⟩
      · rw [f2, p2]; simpa [received, hpipe] using hsub
      · rcases f3 with f3 | ⟨f3, f4⟩
        · exact Or.inl f3
        · right
          refine ⟨by rw [f3, p1]; rfl, ?_⟩
          rw [f4]
          rcases p5 with p5 | p5
          · left; rw [p5]; rfl
          · right; exact p5
    | taskExc wid =>
      simp only []
      obtain ⟨f1, f2, f3⟩ := finishIteration_frame (processResultItem (received s rest) (.taskExc wid))
      obtain ⟨p1, p2, _, _, p5⟩ := processResultItem_same (received s rest) (.taskExc wid) hm'
      have pmax : (processResultItem (received s rest) (.taskExc wid)).max_workers = s.max_workers := by
        simp only [processResultItem]; (repeat' split) <;> simp [complete, received]
      refine ⟨by rw [f1, pmax], ?_, ?_⟩
      · rw [f2, p2]; simpa [received, hpipe] using hsub
      · rcases f3 with f3 | ⟨f3, f4⟩
        · exact Or.inl f3
        · right
          refine ⟨by rw [f3, p1]; rfl, ?_⟩
          rw [f4]
          rcases p5 with p5 | p5
          · left; rw [p5]; rfl
          · right; exact p5
  | nil =>
    cases hpm : s.partialMsg with
    | some w =>
      simp only []
      split <;> exact ⟨rfl, by simp [hpipe], Or.inr ⟨rfl, Or.inl rfl⟩⟩
    | none =>
      simp only []
      split
      · obtain ⟨f1, f2, f3⟩ := finishIteration_frame (received s [])
        refine ⟨by rw [f1]; rfl, ?_, ?_⟩
        · rw [f2]; simp [received]
        · rcases f3 with f3 | ⟨f3, f4⟩
          · exact Or.inl f3
          · exact Or.inr ⟨by rw [f3]; rfl, Or.inl (by rw [f4]; rfl)⟩
      · split
        · exact ⟨rfl, by simp [hpipe], Or.inr ⟨rfl, Or.inl rfl⟩⟩
        · exact ⟨rfl, by simp [terminateBroken, joinExecutorInternals, killWorkers, failPending, flagAsBroken, hpipe],
            Or.inl ⟨rfl, rfl⟩⟩

/-- The only errors a wait step stores in the flags are the two worker-termination errors. -/
theorem waitStep_broken_kind (s : State) (ws : List Nat) :
    (waitStep s ws).1.flags.broken = s.flags.broken ∨
    (waitStep s ws).1.flags.broken = some .terminatedWorker ∨ (waitStep s ws).1.flags.broken = some .brokenPool := by
  unfold waitStep
  split
  · split
    · exact Or.inr (Or.inr rfl)
    · exact Or.inr (Or.inr rfl)
    · left; rw [finishIteration_broken, processResultItem_flags]; rfl
  · split <;> exact Or.inl rfl
  · split
    · left; rw [finishIteration_broken]; rfl
    · split
      · exact Or.inl rfl
      · exact Or.inr (Or.inl rfl)

theorem addCallItemsLoop_mgr (ids : List Nat) (s : State) :
    (addCallItemsLoop ids s).mgr = s.mgr ∨ (addCallItemsLoop ids s).mgr = .crashed := by
  induction ids generalizing s with
  | nil => simp [addCallItemsLoop]
  | cons wid rest ih =>
    unfold addCallItemsLoop
    split
    · simp
    · split
      · split
        · rename_i r _
          simpa [enqueue] using ih (enqueue s wid rest r)
        · simp [crash]
      · simp [crash]

theorem addCallItems_mgr (s : State) : (addCallItems s).mgr = s.mgr ∨ (addCallItems s).mgr = .crashed :=
  addCallItemsLoop_mgr _ s

/-! ### Events of the workers and of the OS keep the set of processes -/

theorem pidsOf_updWorker (ps : List Worker) (pid : Nat) (f : Worker → Worker) (hf : ∀ w, (f w).pid = w.pid) :
    pidsOf (updWorker ps pid f) = pidsOf ps := by
  unfold pidsOf updWorker
  rw [List.map_map]
  apply List.map_congr_left
  intro w _
  simp only [Function.comp]
  split
  · exact hf w
  · rfl

/-- Every event of a worker or of the OS other than a clean-exit announcement: same pids, same manager state,
no `pid` message added. -/
theorem envStep_frame (fn : Nat → Nat) (s : State) (e : EnvEv) (hne : ∀ p, e ≠ .announceExit p) :
    pidsOf (step fn s e.toEvent).processes = pidsOf s.processes ∧
    (step fn s e.toEvent).mgr = s.mgr ∧
    (step fn s e.toEvent).max_workers = s.max_workers ∧
    (∀ q, Msg.pid q ∈ (step fn s e.toEvent).result_pipe → Msg.pid q ∈ s.result_pipe) := by
  cases e with
  | announceExit p => exact absurd rfl (hne p)
  | take pid =>
    simp only [EnvEv.toEvent, step]
    (repeat' split) <;> simp [pidsOf_updWorker]
  | unpickleFail pid =>
    simp only [EnvEv.toEvent, step]
    (repeat' split) <;> simp [pidsOf_updWorker]
  | sendResult pid =>
    simp only [EnvEv.toEvent, step]
    (repeat' split) <;> simp [pidsOf_updWorker]
  | sendTaskExc pid =>
    simp only [EnvEv.toEvent, step]
    (repeat' split) <;> simp [pidsOf_updWorker]
  | beginSend pid =>
    simp only [EnvEv.toEvent, step]
    (repeat' split) <;> simp [pidsOf_updWorker]
  | endSend pid =>
    simp only [EnvEv.toEvent, step]
    (repeat' split) <;> simp [pidsOf_updWorker]
  | kill pid =>
    simp only [EnvEv.toEvent, step]
    simp [pidsOf_updWorker]

theorem length_of_pidsOf {ps qs : List Worker} (h : pidsOf ps = pidsOf qs) : ps.length = qs.length := by
  have := congrArg List.length h
  simpa [pidsOf] using this

theorem mem_of_pidsOf {ps qs : List Worker} (h : pidsOf ps = pidsOf qs) {w : Worker} (hw : w ∈ ps) :
    ∃ w' ∈ qs, w'.pid = w.pid := by
  have : w.pid ∈ pidsOf qs := by rw [← h]; exact List.mem_map.mpr ⟨w, hw, rfl⟩
  obtain ⟨w', h1, h2⟩ := List.mem_map.mp this
  exact ⟨w', h1, h2⟩

/-! ### The lock invariant -/

/-- The statements of the caller thread that run with `_shutdown_lock` held. -/
def holdsLock : CPc → Bool
  | .subTest | .subWrite | .subEns1 | .subEns2 | .shutTest | .shutWrite => true
  | .idle | .shutAcquire => false

structure LockInv (s : WState) : Prop where
  held : s.lock = holdsLock s.cpc
  writing : s.cpc = .subWrite ∨ s.cpc = .shutWrite → s.closed = false
  noerr : s.oserror = false

theorem lockInv_init (mw qs fp : Nat) : LockInv (WState.init mw qs fp) :=
  ⟨rfl, by simp [WState.init], rfl⟩

/-- What the manager thread's statement leaves alone; the pipe is closed only with the lock free (or without
asking for it: `closeUnlocked`). -/
theorem managerMicro_frame (cfg : Cfg) (s : WState) :
    (managerMicro cfg s).cpc = s.cpc ∧ (managerMicro cfg s).lock = s.lock ∧
    (managerMicro cfg s).oserror = s.oserror ∧
    ((managerMicro cfg s).closed = s.closed ∨ s.lock = false ∨ cfg.closeUnlocked = true) := by
  unfold managerMicro
  split
  · simp only []
    split <;> simp
  · simp only []
    split
    · simp
    · split
      · simp
      · split <;> simp
  · split
    · simp
    · rename_i h
      simp only [Bool.and_eq_true, Bool.not_eq_true', not_and, Bool.not_eq_false] at h
      refine ⟨rfl, rfl, rfl, ?_⟩
      cases hl : s.lock with
      | false => exact Or.inr (Or.inl rfl)
      | true => exact Or.inr (Or.inr (h hl))
  · simp

theorem lockInv_step (cfg : Cfg) (hcfg : cfg.closeUnlocked = false) (fn : Nat → Nat) (s : WState)
    (h : LockInv s) (ev : WEvent) : LockInv (wstep cfg fn s ev) := by
  obtain ⟨h1, h2, h3⟩ := h
  cases ev with
  | callSubmit arg =>
    simp only [wstep]
    split
    · exact ⟨h1, h2, h3⟩
    · split
      · exact ⟨h1, h2, h3⟩
      · refine ⟨?_, ?_, h3⟩
        · show true = holdsLock (if cfg.wakeupBeforeRespawn = true then CPc.subTest else CPc.subEns1)
          split <;> rfl
        · show (if cfg.wakeupBeforeRespawn = true then CPc.subTest else CPc.subEns1) = .subWrite ∨ _ → _
          split <;> simp
  | callShutdown kw =>
    simp only [wstep]
    split
    · exact ⟨h1, h2, h3⟩
    · rename_i hg
      simp only [ne_eq, Bool.or_eq_true, decide_eq_true_eq, not_or, Decidable.not_not, Bool.not_eq_true] at hg
      exact ⟨by simp [holdsLock, hg.2], by simp, h3⟩
  | caller =>
    simp only [wstep, callerStep]
    cases hc : s.cpc with
    | idle => simp only []; exact ⟨h1, h2, h3⟩
    | subTest =>
      simp only []
      split
      · split
        · exact ⟨by simp [h1, hc, holdsLock], by simp, h3⟩
        · exact ⟨by simp [submitReturns, holdsLock], by simp [submitReturns], h3⟩
      · rename_i hcl
        exact ⟨by simp [h1, hc, holdsLock], by simpa using hcl, h3⟩
    | subWrite =>
      have : s.closed = false := h2 (Or.inl hc)
      simp only [this]
      simp only [Bool.false_eq_true, if_false]
      split
      · exact ⟨by simp [h1, hc, holdsLock], by simp, h3⟩
      · exact ⟨by simp [submitReturns, holdsLock], by simp [submitReturns], h3⟩
    | subEns1 =>
      simp only []
      (repeat' split) <;> exact ⟨by simp [h1, hc, holdsLock], by simp, h3⟩
    | subEns2 =>
      simp only []
      (repeat' split) <;>
        first
        | exact ⟨by simp [h1, hc, holdsLock], by simp, h3⟩
        | exact ⟨by simp [submitReturns, holdsLock], by simp [submitReturns], h3⟩
    | shutAcquire =>
      simp only []
      split
      · exact ⟨h1, h2, h3⟩
      · exact ⟨by simp [holdsLock], by simp, h3⟩
    | shutTest =>
      simp only []
      split
      · exact ⟨by simp [holdsLock], by simp, h3⟩
      · rename_i hcl
        exact ⟨by simp [h1, hc, holdsLock], by simpa using hcl, h3⟩
    | shutWrite =>
      have : s.closed = false := h2 (Or.inr hc)
      simp only [this]
      exact ⟨by simp [holdsLock], by simp, h3⟩
  | manager =>
    simp only [wstep]
    obtain ⟨f1, f2, f3, f4⟩ := managerMicro_frame cfg s
    refine ⟨by rw [f1, f2]; exact h1, ?_, by rw [f3]; exact h3⟩
    intro hw
    rw [f1] at hw
    rcases f4 with f4 | f4 | f4
    · rw [f4]; exact h2 hw
    · exfalso
      rw [h1] at f4
      rcases hw with hw | hw <;> (rw [hw] at f4; simp [holdsLock] at f4)
    · rw [hcfg] at f4; cases f4
  | env e => exact ⟨h1, h2, h3⟩

theorem lockInv_run (cfg : Cfg) (hcfg : cfg.closeUnlocked = false) (fn : Nat → Nat) (s : WState)
    (h : LockInv s) (evs : List WEvent) : LockInv (wrun cfg fn s evs) := by
  induction evs generalizing s with
  | nil => exact h
  | cons e es ih => exact ih _ (lockInv_step cfg hcfg fn s h e)

/-! ### The wait set covers the processes (the code's start order, no clean exit) -/

structure CoverInv (s : WState) : Prop where
  nopid : ∀ q, Msg.pid q ∉ s.base.result_pipe
  le : s.base.processes.length ≤ s.base.max_workers
  full : s.base.mgr = .running → s.base.processes.length = s.base.max_workers
  ens2 : s.cpc = .subEns2 → s.base.mgr = .notStarted → s.base.max_workers ≤ s.base.processes.length
  fresh : s.base.mgr = .notStarted → s.mph = .top
  cover : ∀ ws, s.base.mgr = .running → s.mph = .waiting ws → ∀ w ∈ s.base.processes, w.pid ∈ ws

theorem coverInv_init (mw qs fp : Nat) : CoverInv (WState.init mw qs fp) := by
  refine ⟨by simp [WState.init, State.init], by simp [WState.init, State.init], ?_, by simp [WState.init], fun _ => rfl, ?_⟩
  · intro h; simp [WState.init, State.init] at h
  · intro ws h; simp [WState.init, State.init] at h

theorem coverInv_of_base_same {s s' : WState} (h : CoverInv s)
    (h1 : s'.base.result_pipe = s.base.result_pipe) (h2 : s'.base.processes = s.base.processes)
    (h3 : s'.base.max_workers = s.base.max_workers) (h4 : s'.base.mgr = s.base.mgr)
    (h5 : s'.mph = s.mph) (h6 : s'.cpc = .subEns2 → s.cpc = .subEns2) : CoverInv s' := by
  refine ⟨by rw [h1]; exact h.nopid, by rw [h2, h3]; exact h.le, by rw [h2, h3, h4]; exact h.full, ?_,
    by rw [h4, h5]; exact h.fresh, by rw [h2, h4, h5]; exact h.cover⟩
  intro a b
  rw [h2, h3]
  exact h.ens2 (h6 a) (by rw [← h4]; exact b)

theorem coverInv_caller (cfg : Cfg) (hcfg : cfg.managerFirst = false) (s : WState) (h : CoverInv s) :
    CoverInv (callerStep cfg s) := by
  unfold callerStep
  cases hc : s.cpc with
  | idle => exact h
  | subTest =>
    simp only []
    (repeat' split) <;> exact coverInv_of_base_same h rfl rfl rfl rfl rfl (by simp [submitReturns])
  | subWrite =>
    simp only []
    (repeat' split) <;> exact coverInv_of_base_same h rfl rfl rfl rfl rfl (by simp [submitReturns])
  | subEns1 =>
    simp only [hcfg]
    simp only [Bool.false_eq_true, if_false]
    split
    · rename_i hlt
      have hnr : s.base.mgr ≠ .running := fun hr => by have := h.full hr; omega
      refine ⟨h.nopid, ?_, fun hr => absurd hr hnr, by simp, h.fresh, fun ws hr => absurd hr hnr⟩
      show (spawn 1 s.base).processes.length ≤ _
      simp [spawn]; omega
    · rename_i hge
      refine ⟨h.nopid, h.le, h.full, fun _ _ => by simpa using hge, h.fresh, h.cover⟩
  | subEns2 =>
    simp only [hcfg]
    simp only [Bool.false_eq_true, if_false]
    have key : ∀ (c : CPc) (l : Bool), c ≠ .subEns2 →
        CoverInv { s with base := startManager s.base, cpc := c, lock := l } := by
      intro c l hcne
      refine ⟨h.nopid, h.le, ?_, fun hx => absurd hx hcne, ?_, ?_⟩
      · intro hr
        show s.base.processes.length = s.base.max_workers
        by_cases hn : s.base.mgr = .notStarted
        · have := h.ens2 hc hn; have := h.le; omega
        · apply h.full
          simpa [startManager, hn] using hr
      · intro hn
        exfalso
        simp only [startManager] at hn
        split at hn <;> simp_all
      · intro ws hr hw w hmem
        by_cases hn : s.base.mgr = .notStarted
        · have := h.fresh hn
          simp only [] at hw
          rw [this] at hw; cases hw
        · exact h.cover ws (by simpa [startManager, hn] using hr) hw w hmem
    split
    · exact key .idle false (by simp)
    · exact key .subTest s.lock (by simp)
  | shutAcquire =>
    simp only []
    split
    · exact h
    · exact coverInv_of_base_same h rfl rfl rfl rfl rfl (by simp)
  | shutTest =>
    simp only []
    split <;> exact coverInv_of_base_same h rfl rfl rfl rfl rfl (by simp)
  | shutWrite =>
    simp only []
    split <;> exact coverInv_of_base_same h rfl rfl rfl rfl rfl (by simp)

theorem coverInv_manager (cfg : Cfg) (s : WState) (h : CoverInv s) : CoverInv (managerMicro cfg s) := by
  unfold managerMicro
  split
  · -- running, top
    rename_i hr _
    obtain ⟨a1, a2, _, _, _, _, a7, _⟩ := addCallItems_same s.base
    simp only []
    split
    · rename_i hcr
      refine ⟨by simp only [a2]; exact h.nopid, by simp only [a1, a7]; exact h.le, ?_, ?_, ?_, ?_⟩
      · intro hx; simp only [hcr] at hx; cases hx
      · intro _ hx; simp only [hcr] at hx; cases hx
      · intro hx; simp only [hcr] at hx; cases hx
      · intro ws hx; simp only [hcr] at hx; cases hx
    · rename_i hcr
      have hm : (addCallItems s.base).mgr = .running := by
        rcases addCallItems_mgr s.base with e | e
        · rw [e, hr]
        · exact absurd e hcr
      refine ⟨by simp only [a2]; exact h.nopid, by simp only [a1, a7]; exact h.le, ?_, ?_, ?_, ?_⟩
      · intro _; simp only [a1, a7]; exact h.full hr
      · intro _ hx; simp only [hm] at hx; cases hx
      · intro hx; simp only [hm] at hx; cases hx
      · intro ws _ hw w hmem
        simp only [MPh.waiting.injEq] at hw
        subst hw
        exact List.mem_map.mpr ⟨w, hmem, rfl⟩
  · -- running, waiting ws
    rename_i ws hr hph
    simp only []
    split
    · exact h
    · split
      · exact h
      · obtain ⟨w1, w2, w3⟩ := waitStep_frame s.base ws h.nopid
        have key : ∀ (mph' : MPh), (mph' = s.mph ∨ ∀ ws', mph' ≠ .waiting ws') →
            CoverInv { s with base := (waitStep s.base ws).1, mph := mph' } := by
          intro mph' hmph
          refine ⟨fun q hq => h.nopid q (w2 _ hq), ?_, ?_, ?_, ?_, ?_⟩
          · rcases w3 with ⟨_, e⟩ | ⟨e, _⟩
            · simp only [e]; simp
            · simp only [e, w1]; exact h.le
          · intro hx
            rcases w3 with ⟨e, _⟩ | ⟨e, e2⟩
            · simp only [e] at hx; cases hx
            · simp only [e, w1]; exact h.full hr
          · intro _ hx
            rcases w3 with ⟨e, _⟩ | ⟨_, e2 | e2⟩
            · simp only [e] at hx; cases hx
            · simp only [e2, hr] at hx; cases hx
            · simp only [e2] at hx; cases hx
          · intro hx
            rcases w3 with ⟨e, _⟩ | ⟨_, e2 | e2⟩
            · simp only [e] at hx; cases hx
            · simp only [e2, hr] at hx; cases hx
            · simp only [e2] at hx; cases hx
          · intro ws' hx hw w hmem
            rcases w3 with ⟨e, _⟩ | ⟨e, _⟩
            · simp only [e] at hx; cases hx
            · simp only [e] at hmem
              rcases hmph with e3 | e3
              · simp only [e3] at hw
                exact h.cover ws' hr hw w hmem
              · exact absurd hw (e3 ws')
        split
        · exact key .top (Or.inr (by intro _ e; cases e))
        · exact key .closing (Or.inr (by intro _ e; cases e))
        · exact key s.mph (Or.inl rfl)
        · exact h
  · -- exited, closing
    split
    · exact h
    · rename_i he _ _
      refine ⟨h.nopid, h.le, h.full, h.ens2, ?_, ?_⟩
      · intro hx; simp only [he] at hx; cases hx
      · intro ws hx; simp only [he] at hx; cases hx
  · exact h

/-- A history without clean-exit announcements. -/
def NoCleanExit (evs : List WEvent) : Prop := ∀ p, WEvent.env (.announceExit p) ∉ evs

theorem coverInv_step (cfg : Cfg) (hcfg : cfg.managerFirst = false) (fn : Nat → Nat) (s : WState)
    (h : CoverInv s) (ev : WEvent) (hev : ∀ p, ev ≠ .env (.announceExit p)) : CoverInv (wstep cfg fn s ev) := by
  cases ev with
  | callSubmit arg =>
    simp only [wstep]
    split
    · exact h
    · split
      · exact h
      · refine coverInv_of_base_same h rfl rfl rfl rfl rfl ?_
        show (if cfg.wakeupBeforeRespawn = true then CPc.subTest else CPc.subEns1) = .subEns2 → _
        split <;> simp
  | callShutdown kw =>
    simp only [wstep]
    split
    · exact h
    · exact coverInv_of_base_same h rfl rfl rfl rfl rfl (by simp)
  | caller => exact coverInv_caller cfg hcfg s h
  | manager => exact coverInv_manager cfg s h
  | env e =>
    simp only [wstep]
    obtain ⟨e1, e2, e3, e4⟩ := envStep_frame fn s.base e (fun p hp => hev p (by rw [hp]))
    have hl := length_of_pidsOf e1
    refine ⟨fun q hq => h.nopid q (e4 q hq), by simp only [hl, e3]; exact h.le, ?_, ?_, ?_, ?_⟩
    · intro hr; simp only [hl, e3]; exact h.full (by rw [← e2]; exact hr)
    · intro hc hn; simp only [hl, e3]; exact h.ens2 hc (by rw [← e2]; exact hn)
    · intro hn; exact h.fresh (by rw [← e2]; exact hn)
    · intro ws hr hw w hmem
      obtain ⟨w', hw', hp⟩ := mem_of_pidsOf e1 hmem
      rw [← hp]
      exact h.cover ws (by rw [← e2]; exact hr) hw w' hw'

theorem coverInv_run (cfg : Cfg) (hcfg : cfg.managerFirst = false) (fn : Nat → Nat) (s : WState)
    (h : CoverInv s) (evs : List WEvent) (hev : NoCleanExit evs) : CoverInv (wrun cfg fn s evs) := by
  induction evs generalizing s with
  | nil => exact h
  | cons e es ih =>
    refine ih _ (coverInv_step cfg hcfg fn s h e ?_) ?_
    · intro p hp; exact hev p (by rw [hp]; exact List.mem_cons_self)
    · intro p hp; exact hev p (List.mem_cons_of_mem _ hp)

/-! ### A manager waiting on an empty sentinel list with nothing pending stays asleep -/

/-- The manager thread sleeps in `wait` on NO sentinel; no wake-up, no message, no call item is pending; the caller is
outside `submit`/`shutdown`; every process is dead, or alive with no task in its hands. -/
structure Stranded (s : WState) : Prop where
  run : s.base.mgr = .running
  ph : s.mph = .waiting []
  wk : s.base.wakeups = 0
  pipe : s.base.result_pipe = []
  part : s.base.partialMsg = none
  cq : s.base.call_queue = []
  idle : s.cpc = .idle
  procs : ∀ w ∈ s.base.processes, w.alive = false ∨ (w.current = none ∧ w.sending = false)

/-- Everything but the caller entering `submit`/`shutdown` and a clean exit (idle time-out) of a worker. -/
def Quiet : WEvent → Prop
  | .manager => True
  | .caller => True
  | .env (.announceExit _) => False
  | .env _ => True
  | .callSubmit _ => False
  | .callShutdown _ => False

theorem stranded_asleep {s : WState} (h : Stranded s) : s.asleep = true := by
  simp [WState.asleep, h.run, h.ph, waitReady, h.pipe, h.part, h.wk, deadWaited]

theorem wstep_env_same (cfg : Cfg) (fn : Nat → Nat) (s : WState) (e : EnvEv) (h : step fn s.base e.toEvent = s.base) :
    wstep cfg fn s (.env e) = s := by
  simp only [wstep, h]

theorem stranded_step (cfg : Cfg) (fn : Nat → Nat) (s : WState) (h : Stranded s) (ev : WEvent) (hq : Quiet ev) :
    Stranded (wstep cfg fn s ev) ∧ (wstep cfg fn s ev).base.futures = s.base.futures := by
  have keep : ∀ (b : State), b.mgr = s.base.mgr → b.wakeups = s.base.wakeups → b.result_pipe = s.base.result_pipe →
      b.partialMsg = s.base.partialMsg → b.call_queue = s.base.call_queue →
      (∀ w ∈ b.processes, w.alive = false ∨ (w.current = none ∧ w.sending = false)) →
      Stranded { s with base := b } := fun b h1 h2 h3 h4 h5 h6 =>
    ⟨by rw [h1]; exact h.run, h.ph, by rw [h2]; exact h.wk, by rw [h3]; exact h.pipe, by rw [h4]; exact h.part,
      by rw [h5]; exact h.cq, h.idle, h6⟩
  have same : Stranded s ∧ s.base.futures = s.base.futures := ⟨h, rfl⟩
  cases ev with
  | callSubmit a => exact absurd hq (by simp [Quiet])
  | callShutdown kw => exact absurd hq (by simp [Quiet])
  | caller =>
    have : wstep cfg fn s .caller = s := by simp [wstep, callerStep, h.idle]
    rw [this]; exact same
  | manager =>
    have : wstep cfg fn s .manager = s := by
      simp [wstep, managerMicro, h.run, h.ph, waitReady, h.pipe, h.part, h.wk, deadWaited]
    rw [this]; exact same
  | env e =>
    cases e with
    | announceExit p => exact absurd hq (by simp [Quiet])
    | take pid =>
      have : step fn s.base (.take pid) = s.base := by
        simp only [step]
        split
        · rename_i heq; rw [h.cq] at heq; cases heq
        · rfl
      rw [wstep_env_same cfg fn s (.take pid) this]; exact same
    | unpickleFail pid =>
      have : step fn s.base (.unpickleFail pid) = s.base := by
        simp only [step]
        split
        · rename_i heq; rw [h.cq] at heq; cases heq
        · rfl
      rw [wstep_env_same cfg fn s (.unpickleFail pid) this]; exact same
    | sendResult pid =>
      have : step fn s.base (.sendResult pid) = s.base := by
        simp only [step]
        split
        · rename_i w hg
          split
          · rename_i it hc
            rcases h.procs w (getWorker_mem hg).1 with ha | ⟨hn, _⟩
            · simp [ha]
            · rw [hn] at hc; cases hc
          · rfl
        · rfl
      rw [wstep_env_same cfg fn s (.sendResult pid) this]; exact same
    | sendTaskExc pid =>
      have : step fn s.base (.sendTaskExc pid) = s.base := by
        simp only [step]
        split
        · rename_i w hg
          split
          · rename_i it hc
            rcases h.procs w (getWorker_mem hg).1 with ha | ⟨hn, _⟩
            · simp [ha]
            · rw [hn] at hc; cases hc
          · rfl
        · rfl
      rw [wstep_env_same cfg fn s (.sendTaskExc pid) this]; exact same
    | beginSend pid =>
      have : step fn s.base (.beginSend pid) = s.base := by
        simp only [step]
        split
        · rename_i w hg
          rcases h.procs w (getWorker_mem hg).1 with ha | ⟨hn, _⟩
          · simp [ha]
          · simp [hn]
        · rfl
      rw [wstep_env_same cfg fn s (.beginSend pid) this]; exact same
    | endSend pid =>
      have : step fn s.base (.endSend pid) = s.base := by
        simp only [step]
        split
        · rename_i w hg
          split
          · rename_i it hc
            rcases h.procs w (getWorker_mem hg).1 with ha | ⟨hn, _⟩
            · simp [ha]
            · rw [hn] at hc; cases hc
          · rfl
        · rfl
      rw [wstep_env_same cfg fn s (.endSend pid) this]; exact same
    | kill pid =>
      simp only [wstep, EnvEv.toEvent, step]
      refine ⟨keep _ rfl rfl rfl rfl rfl ?_, trivial⟩
      intro w' hw'
      obtain ⟨w, hw, rfl⟩ := mem_updWorker hw'
      split
      · exact Or.inl rfl
      · exact h.procs w hw

theorem stranded_run (cfg : Cfg) (fn : Nat → Nat) (s : WState) (h : Stranded s) (evs : List WEvent)
    (hq : ∀ e ∈ evs, Quiet e) :
    Stranded (wrun cfg fn s evs) ∧ (wrun cfg fn s evs).base.futures = s.base.futures := by
  induction evs generalizing s with
  | nil => exact ⟨h, rfl⟩
  | cons e es ih =>
    obtain ⟨h1, h2⟩ := stranded_step cfg fn s h e (hq e List.mem_cons_self)
    obtain ⟨h3, h4⟩ := ih _ h1 (fun e' he' => hq e' (List.mem_cons_of_mem _ he'))
    exact ⟨h3, by rw [← h2]; exact h4⟩

/-! ### The repaired order of `submit` (F53): whatever is spawned is followed by a wake-up -/

/-- The caller is inside `submit`, before the write of its wake-up (in the repaired order `wakeup()` is the last
statement of `submit`). -/
def preWrite : CPc → Bool
  | .subEns1 | .subEns2 | .subTest | .subWrite => true
  | .idle | .shutAcquire | .shutTest | .shutWrite => false

structure WakeInv (s : WState) : Prop where
  closedExited : s.closed = true → s.base.mgr = .exited
  fresh : s.base.mgr = .notStarted → s.mph = .top
  cover : ∀ ws, s.base.mgr = .running → s.mph = .waiting ws →
    (∀ w ∈ s.base.processes, w.pid ∈ ws) ∨ s.base.wakeups > 0 ∨ preWrite s.cpc = true

theorem wakeInv_init (mw qs fp : Nat) : WakeInv (WState.init mw qs fp) := by
  refine ⟨by simp [WState.init], fun _ => rfl, ?_⟩
  intro ws h; simp [WState.init, State.init] at h

theorem finishIteration_mgr (s : State) :
    ((finishIteration s).2 = .exited → (finishIteration s).1.mgr = .exited) ∧
    ((finishIteration s).2 = .crashed → (finishIteration s).1.mgr = .crashed) := by
  unfold finishIteration
  split
  · rename_i h; simp [h]
  · split
    · simp only []
      split <;> simp [joinExecutorInternals]
    · simp

/-- How a wait step ends tells the state of the thread. -/
theorem waitStep_mgr (s : State) (ws : List Nat) :
    ((waitStep s ws).2 = .exited → (waitStep s ws).1.mgr = .exited) ∧
    ((waitStep s ws).2 = .crashed → (waitStep s ws).1.mgr = .crashed) := by
  unfold waitStep
  split
  · split
    · simp [terminateBroken, joinExecutorInternals]
    · simp [terminateBroken, joinExecutorInternals]
    · exact finishIteration_mgr _
  · split <;> simp
  · split
    · exact finishIteration_mgr _
    · split
      · simp
      · simp [terminateBroken, joinExecutorInternals]

/-- EVERY event of a worker or of the OS (clean exits included) keeps the pids, the wake-ups and the thread's state. -/
theorem envStep_frame_all (fn : Nat → Nat) (s : State) (e : EnvEv) :
    pidsOf (step fn s e.toEvent).processes = pidsOf s.processes ∧
    (step fn s e.toEvent).mgr = s.mgr ∧ (step fn s e.toEvent).wakeups = s.wakeups := by
  cases e <;> simp only [EnvEv.toEvent, step] <;> (repeat' split) <;> simp [pidsOf_updWorker]

theorem startManager_mgr (s : State) :
    (startManager s).mgr ≠ .notStarted ∧ (s.mgr = .exited → (startManager s).mgr = .exited) ∧
    (startManager s).processes = s.processes ∧ (startManager s).wakeups = s.wakeups := by
  refine ⟨?_, ?_, rfl, rfl⟩
  · simp only [startManager]; split <;> simp_all
  · intro h; simp [startManager, h]

theorem wakeInv_step (cfg : Cfg) (hcfg : cfg.wakeupBeforeRespawn = false) (fn : Nat → Nat) (s : WState)
    (h : WakeInv s) (ev : WEvent) : WakeInv (wstep cfg fn s ev) := by
  -- the three ways a step keeps the invariant
  have same : ∀ s' : WState, s'.base.processes = s.base.processes → s.base.wakeups ≤ s'.base.wakeups →
      s'.base.mgr = s.base.mgr → s'.mph = s.mph → s'.closed = s.closed →
      (preWrite s.cpc = true → preWrite s'.cpc = true) → WakeInv s' := by
    intro s' e1 e2 e3 e4 e5 e6
    refine ⟨by rw [e5, e3]; exact h.closedExited, by rw [e3, e4]; exact h.fresh, ?_⟩
    intro ws hr hw
    rcases h.cover ws (by rw [← e3]; exact hr) (by rw [← e4]; exact hw) with c | c | c
    · exact Or.inl (by rw [e1]; exact c)
    · exact Or.inr (Or.inl (by omega))
    · exact Or.inr (Or.inr (e6 c))
  have inSubmit : ∀ s' : WState, preWrite s'.cpc = true → s'.mph = s.mph → s'.closed = s.closed →
      (s'.base.mgr = s.base.mgr ∨ s'.base = startManager s.base) → WakeInv s' := by
    intro s' e1 e4 e5 e3
    refine ⟨?_, ?_, fun ws _ _ => Or.inr (Or.inr e1)⟩
    · intro hc
      rw [e5] at hc
      rcases e3 with e3 | e3
      · rw [e3]; exact h.closedExited hc
      · rw [e3]; exact (startManager_mgr s.base).2.1 (h.closedExited hc)
    · intro hn
      rcases e3 with e3 | e3
      · rw [e4]; exact h.fresh (by rw [← e3]; exact hn)
      · rw [e3] at hn; exact absurd hn (startManager_mgr s.base).1
  have dead : ∀ s' : WState, s'.base.mgr = s.base.mgr → s'.mph = s.mph → s'.closed = s.closed → s.closed = true →
      WakeInv s' := by
    intro s' e3 e4 e5 hc
    have hx := h.closedExited hc
    refine ⟨fun _ => by rw [e3]; exact hx, by rw [e3, e4]; exact h.fresh, ?_⟩
    intro ws hr; rw [e3, hx] at hr; cases hr
  cases ev with
  | callSubmit arg =>
    simp only [wstep]
    split
    · exact h
    · split
      · exact h
      · exact inSubmit _ (by simp [hcfg, preWrite]) rfl rfl (Or.inl rfl)
  | callShutdown kw =>
    simp only [wstep]
    split
    · exact h
    · rename_i hg
      simp only [ne_eq, Bool.or_eq_true, decide_eq_true_eq, not_or, Decidable.not_not, Bool.not_eq_true] at hg
      exact same _ rfl (Nat.le_refl _) rfl rfl rfl (by simp [hg.1, preWrite])
  | caller =>
    simp only [wstep, callerStep, hcfg]
    cases hc : s.cpc with
    | idle => simp only []; exact h
    | subTest =>
      simp only [Bool.false_eq_true, if_false]
      split
      · rename_i hcl; exact dead _ rfl rfl rfl hcl
      · exact inSubmit _ (by simp [preWrite]) rfl rfl (Or.inl rfl)
    | subWrite =>
      simp only [Bool.false_eq_true, if_false]
      split
      · rename_i hcl; exact dead _ rfl rfl rfl hcl
      · refine ⟨h.closedExited, h.fresh, ?_⟩
        intro ws _ _
        exact Or.inr (Or.inl (by simp [submitReturns, writeWakeup]))
    | subEns1 =>
      simp only []
      split
      · exact inSubmit _ (by simp [preWrite]) rfl rfl (Or.inr rfl)
      · split
        · exact inSubmit _ (by simp [preWrite]) rfl rfl (Or.inl (by simp [spawn]))
        · exact inSubmit _ (by simp [preWrite]) rfl rfl (Or.inl rfl)
    | subEns2 =>
      simp only [Bool.false_eq_true, if_false]
      split
      · split
        · exact inSubmit _ (by simp [preWrite]) rfl rfl (Or.inl (by simp [spawn]))
        · exact inSubmit _ (by simp [preWrite]) rfl rfl (Or.inl rfl)
      · exact inSubmit _ (by simp [preWrite]) rfl rfl (Or.inr rfl)
    | shutAcquire =>
      simp only []
      split
      · exact h
      · exact same _ rfl (Nat.le_refl _) rfl rfl rfl (by simp [hc, preWrite])
    | shutTest =>
      simp only []
      split <;> exact same _ rfl (Nat.le_refl _) rfl rfl rfl (by simp [hc, preWrite])
    | shutWrite =>
      simp only []
      split
      · exact same _ rfl (Nat.le_refl _) rfl rfl rfl (by simp [hc, preWrite])
      · exact same _ rfl (by simp [writeWakeup]) rfl rfl rfl (by simp [hc, preWrite])
  | manager =>
    simp only [wstep]
    unfold managerMicro
    split
    · rename_i hr _
      have hncl : s.closed = true → False := fun hc => by have := h.closedExited hc; rw [hr] at this; cases this
      simp only []
      split
      · rename_i hcr
        refine ⟨fun hc => absurd hc (by simpa using hncl), ?_, ?_⟩
        · intro hx; simp only [hcr] at hx; cases hx
        · intro ws hx; simp only [hcr] at hx; cases hx
      · rename_i hcr
        have hm : (addCallItems s.base).mgr = .running := by
          rcases addCallItems_mgr s.base with e | e
          · rw [e, hr]
          · exact absurd e hcr
        refine ⟨fun hc => absurd hc (by simpa using hncl), ?_, ?_⟩
        · intro hx; simp only [hm] at hx; cases hx
        · intro ws _ hw
          simp only [MPh.waiting.injEq] at hw
          subst hw
          exact Or.inl (fun w hmem => List.mem_map.mpr ⟨w, hmem, rfl⟩)
    · rename_i ws hr hph
      have hncl : s.closed = true → False := fun hc => by have := h.closedExited hc; rw [hr] at this; cases this
      simp only []
      split
      · exact h
      · split
        · exact h
        · obtain ⟨m1, m2⟩ := waitStep_mgr s.base ws
          split
          · -- progressed: the thread is back at the top of its loop
            refine ⟨fun hc => absurd hc (by simpa using hncl), fun _ => rfl, ?_⟩
            intro ws' _ hw; cases hw
          · rename_i hres
            have := m1 hres
            refine ⟨fun _ => this, ?_, ?_⟩
            · intro hx; simp only [this] at hx; cases hx
            · intro ws' hx; simp only [this] at hx; cases hx
          · rename_i hres
            have := m2 hres
            refine ⟨fun hc => absurd hc (by simpa using hncl), ?_, ?_⟩
            · intro hx; simp only [this] at hx; cases hx
            · intro ws' hx; simp only [this] at hx; cases hx
          · exact h
    · split
      · exact h
      · rename_i he _ _
        refine ⟨fun _ => he, ?_, ?_⟩
        · intro hx; simp only [he] at hx; cases hx
        · intro ws hx; simp only [he] at hx; cases hx
    · exact h
  | env e =>
    simp only [wstep]
    obtain ⟨e1, e2, e3⟩ := envStep_frame_all fn s.base e
    refine ⟨by simp only [e2]; exact h.closedExited, by simp only [e2]; exact h.fresh, ?_⟩
    intro ws hr hw
    rcases h.cover ws (by rw [← e2]; exact hr) hw with c | c | c
    · left
      intro w hmem
      obtain ⟨w', hw', hp⟩ := mem_of_pidsOf e1 hmem
      rw [← hp]; exact c w' hw'
    · exact Or.inr (Or.inl (by simp only [e3]; exact c))
    · exact Or.inr (Or.inr c)

theorem wakeInv_run (cfg : Cfg) (hcfg : cfg.wakeupBeforeRespawn = false) (fn : Nat → Nat) (s : WState)
    (h : WakeInv s) (evs : List WEvent) : WakeInv (wrun cfg fn s evs) := by
  induction evs generalizing s with
  | nil => exact h
  | cons e es ih => exact ih _ (wakeInv_step cfg hcfg fn s h e)

end JoblibModel.LokyMgr
