import JoblibModel.NJobs
import JoblibProofs.Lemmas.Config
/-! Helper material for C15 (kept apart from the property theorems). Core Lean only.
The C15 theorems are short case analyses over the model; the only shared piece is the
decidable equality of `Except` results (from `Lemmas.Config`) used by the concrete examples. -/
namespace JoblibModel.NJobs

theorem effectiveNJobs_sequential (level : Option Nat) (env : EffEnv) (n : Option Int) :
    effectiveNJobs .sequential level env n = if n = some 0 then .error .valueError else .ok 1 := rfl

end JoblibModel.NJobs
