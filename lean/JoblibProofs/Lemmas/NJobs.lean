import JoblibModel.NJobs
import JoblibProofs.Lemmas.Config
/-! Helper material for C15 (kept apart from the property theorems). Core Lean only.
The C15 theorems are short case analyses over the model; the only shared piece is the
decidable equality of `Except` results (from `Lemmas.Config`) used by the concrete examples. -/
namespace JoblibModel.NJobs

theorem effectiveNJobs_sequential (level : Option Nat) (env : EffEnv) (n : Option Int) :
    effectiveNJobs .sequential level env n = if n = some 0 then .error .valueError else .ok 1 := rfl

/-! ### The `ThreadPool` of one `ThreadingBackend` instance -/

/-- Between two dispatches of a call that resolved `n` jobs: `_n_jobs = n` and the pool is either
not built yet or has exactly `n` threads. -/
def TGood (n : Nat) (b : TBackend) : Prop := b.nJobs = n ∧ (b.pool = none ∨ b.pool = some n)

theorem tSubmits_asIs (n t : Nat) (b : TBackend) (h : TGood n b) :
    (∀ k ∈ (tSubmits .asIs b t).2, k = n) ∧ TGood n (tSubmits .asIs b t).1 ∧
    (tSubmits .asIs b t).2.length = t := by
  induction t generalizing b with
  | zero => simp [tSubmits, h]
  | succ t ih =>
    obtain ⟨hn, hp⟩ := h
    have hstep : (tGetPool .asIs b).2 = n ∧ TGood n (tGetPool .asIs b).1 := by
      rcases hp with hp | hp <;> simp [tGetPool, hp, TGood, hn]
    obtain ⟨h1, h2, h3⟩ := ih (tGetPool .asIs b).1 hstep.2
    refine ⟨?_, h2, by simp [tSubmits, h3]⟩
    intro k hk
    simp only [tSubmits, List.mem_cons] at hk
    rcases hk with hk | hk
    · rw [hk]; exact hstep.1
    · exact h1 k hk

theorem tPlain_asIs (n t : Nat) (b : TBackend) (h : b.pool = none) :
    (∀ k ∈ (tPlain .asIs b n t).2, k = n) ∧ (tPlain .asIs b n t).1.pool = none ∧
    (n ≠ 1 → (tPlain .asIs b n t).2.length = t) := by
  unfold tPlain
  by_cases hn : n = 1
  · simp [hn, h]
  · have hg : TGood n (tConfigure b n) := by simp [tConfigure, hn, TGood, h]
    obtain ⟨h1, _, h3⟩ := tSubmits_asIs n t _ hg
    simp only [hn, if_false]
    exact ⟨h1, by simp [tTerminate], fun _ => h3⟩

def ownOnly (body : List TItem) : Bool :=
  body.all (fun i => match i with | .own _ => true | .foreign _ _ => false)

theorem tBody_asIs (n : Nat) (body : List TItem) (hc : ownOnly body = true) (b : TBackend)
    (h : if n = 1 then b.pool = none else TGood n b) :
    (∀ o ∈ (tBody .asIs n b body).2, o.n = n ∧ ∀ k ∈ o.sizes, k = n) ∧
    (if n = 1 then (tBody .asIs n b body).1.pool = none else TGood n (tBody .asIs n b body).1) := by
  induction body generalizing b with
  | nil => simp [tBody, h]
  | cons i rest ih =>
    cases i with
    | foreign m t => simp [ownOnly] at hc
    | own t =>
      have hrest : ownOnly rest = true := by
        simp [ownOnly] at hc ⊢; exact hc
      by_cases hn : n = 1
      · subst hn
        simp only [if_true] at h ih ⊢
        obtain ⟨h1, h2⟩ := ih hrest b h
        simp only [tBody, if_true]
        refine ⟨?_, h2⟩
        intro o ho
        simp only [List.mem_cons] at ho
        rcases ho with ho | ho
        · subst ho; simp
        · exact h1 o ho
      · simp only [hn, if_false] at h ih ⊢
        obtain ⟨s1, s2, _⟩ := tSubmits_asIs n t b h
        obtain ⟨h1, h2⟩ := ih hrest _ s2
        simp only [tBody, hn, if_false]
        refine ⟨?_, h2⟩
        intro o ho
        simp only [List.mem_cons] at ho
        rcases ho with ho | ho
        · subst ho; exact ⟨rfl, s1⟩
        · exact h1 o ho

theorem tManaged_asIs (n : Nat) (body : List TItem) (hc : ownOnly body = true) (b : TBackend)
    (h : b.pool = none) :
    (∀ o ∈ (tManaged .asIs b n body).2, o.n = n ∧ ∀ k ∈ o.sizes, k = n) ∧
    (tManaged .asIs b n body).1.pool = none := by
  have hg : if n = 1 then (tConfigure b n).pool = none else TGood n (tConfigure b n) := by
    by_cases hn : n = 1 <;> simp [tConfigure, hn, TGood, h]
  obtain ⟨h1, h2⟩ := tBody_asIs n body hc _ hg
  unfold tManaged
  refine ⟨h1, ?_⟩
  by_cases hn : n = 1
  · simp only [hn, if_true] at h2 ⊢; exact h2
  · simp [hn, tTerminate]

end JoblibModel.NJobs
