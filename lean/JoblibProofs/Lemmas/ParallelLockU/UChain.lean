import JoblibProofs.Lemmas.ParallelLockU.Nodup
/-!
M1LU proofs — UNORDERED mode (`Cfg.ra = 2`) with a timeout: once the caller has registered a TimeoutError for its
control job (ghost `toWait ≠ none`) the call can only end by raising: the caller finishes the registration (flags,
`_jobs.append`), sleeps, `_wait_retrieval` sees `_aborting`, `_retrieve` sees `_aborting`, `_raise_error_fast` finds an
error job in `_jobs` (the control job, or a job whose failure was registered before it) that holds an exception, and
`get_result` raises it.
-/
namespace JoblibModel.ParallelLockU
open JoblibModel.ParallelLock (Tid Status CbPc DK DRes Act chunks)

/-- Program points that only exist in the ordered modes. -/
def Pc.orderedOnly : Pc → Bool
  | .rtHead | .gsStatus _ .head | .toAcq _ .head | .toRel _ .head _ | .toStatus _ .head | .toExcW _ .head
  | .toAbortW _ .head | .toAcq2 _ .head | .toRel2 _ .head | .gsRet _ .head => true
  | _ => false

/-- An error tracker holds an exception. -/
def resOK (l : List Tracker) (j : Nat) : Prop := stErr l j → ∃ e, (getT l j).result = .exc e

def uchainOK (s : St) : Prop :=
  match s.pc with
  | .toRel i .ctl true => stErr s.trk i
  | .toStatus _ .ctl | .toExcW _ .ctl | .toAbortW _ .ctl => True
  | .toAcq2 _ .ctl | .toRel2 _ .ctl | .gsRet _ .ctl | .sleep | .wtAbort | .rtAbort | .refAcq => s.aborting = true
  | .refRel (some j) | .refStatus j => stErr s.trk j ∧ ∃ e, (getT s.trk j).result = .exc e
  | .excW _ | .abortW _ | .abortCall _ | .finExc (some _) | .finJobsR (some _) | .finJobsW (some _) _
  | .finSetW (some _) _ => True
  | .done => ∃ e, s.outcome = some (.raised e)
  | _ => False

/-- After `_raise_error_fast` has taken its decision / on the way out the queue is not looked at any more. -/
def Pc.decided : Pc → Bool
  | .refRel _ | .refStatus _ | .excW _ | .abortW _ | .abortCall _ | .finExc _ | .finJobsR _ | .finJobsW _ _
  | .finSetW _ _ | .tailStatus _ _ | .done => true
  | _ => false

structure UInv (s : St) : Prop where
  ord : s.pc.orderedOnly = false
  res : s.pc.decided = false → ∀ j ∈ s.jobs, resOK s.trk j
  reg : ∀ i k, (s.pc = .toStatus i k ∨ s.pc = .toExcW i k ∨ s.pc = .toAbortW i k ∨ s.pc = .toAcq2 i k) →
    stErr s.trk i ∧ (getT s.trk i).result = .exc .timeout
  regs : ∀ i k, s.pc = .toRel i k true → stErr s.trk i
  chain : s.toWait ≠ none → uchainOK s

theorem uInv_init : UInv init := by
  refine ⟨rfl, ?_, ?_, ?_, ?_⟩ <;> simp [init]

/-- A step of another thread as seen by `UInv`: error trackers are frozen, what is appended to `_jobs` is coherent,
`_aborting` only goes up. -/
structure UFrame (s s' : St) : Prop where
  frozen : ∀ j, stErr s.trk j → stErr s'.trk j ∧ (getT s'.trk j).result = (getT s.trk j).result
  jobs : ∃ x, s'.jobs = s.jobs ++ x ∧ ∀ j ∈ x, resOK s'.trk j ∧ j < s'.trk.length
  keep : ∀ j, ¬ stErr s.trk j → j < s.trk.length → stErr s'.trk j → j ∈ s'.jobs ∧ resOK s'.trk j
  ab : s.aborting = true → s'.aborting = true
  wait : s'.toWait = s.toWait
  outcome : s'.outcome = s.outcome
  len : s.trk.length ≤ s'.trk.length

theorem UFrame.refl (s : St) : UFrame s s :=
  ⟨fun _ h => ⟨h, rfl⟩, ⟨[], by simp, by simp⟩, fun _ h1 _ h2 => absurd h2 h1, id, rfl, rfl, Nat.le_refl _⟩

theorem resOK_frozen {l l' : List Tracker} {j : Nat}
    (hf : ∀ j, stErr l j → stErr l' j ∧ (getT l' j).result = (getT l j).result) (he : stErr l j) (h : resOK l j) :
    resOK l' j := by
  intro _
  obtain ⟨e, he'⟩ := h he
  exact ⟨e, by rw [(hf j he).2]; exact he'⟩

theorem UFrame.trans {a b c : St} (h1 : UFrame a b) (h2 : UFrame b c) : UFrame a c := by
  obtain ⟨x, hx, px⟩ := h1.jobs
  obtain ⟨y, hy, py⟩ := h2.jobs
  refine ⟨?_, ⟨x ++ y, by rw [hy, hx]; simp, ?_⟩, ?_, fun e => h2.ab (h1.ab e), h2.wait.trans h1.wait,
    h2.outcome.trans h1.outcome, Nat.le_trans h1.len h2.len⟩
  · intro j hj
    obtain ⟨e1, r1⟩ := h1.frozen j hj
    obtain ⟨e2, r2⟩ := h2.frozen j e1
    exact ⟨e2, r2.trans r1⟩
  · intro j hj
    simp only [List.mem_append] at hj
    rcases hj with hj | hj
    · refine ⟨?_, Nat.lt_of_lt_of_le (px j hj).2 h2.len⟩
      by_cases he : stErr b.trk j
      · exact resOK_frozen h2.frozen he (px j hj).1
      · intro he'
        exact (h2.keep j he (px j hj).2 he').2 he'
    · exact py j hj
  · intro j hne hl he
    by_cases hb : stErr b.trk j
    · obtain ⟨m1, r1⟩ := h1.keep j hne hl hb
      refine ⟨by rw [hy]; exact List.mem_append_left _ m1, resOK_frozen h2.frozen hb r1⟩
    · exact h2.keep j hb (Nat.lt_of_lt_of_le hl h1.len) he

theorem UInv.frame {s s' : St} (h : UInv s) (hb : BInv s) (f : UFrame s s') (hp : s'.pc = s.pc) : UInv s' := by
  obtain ⟨x, hx, px⟩ := f.jobs
  refine ⟨hp ▸ h.ord, ?_, ?_, ?_, ?_⟩
  · intro hdec j hj
    rw [hp] at hdec
    have hres := h.res hdec
    rw [hx] at hj
    simp only [List.mem_append] at hj
    rcases hj with hj | hj
    · by_cases he : stErr s.trk j
      · exact resOK_frozen f.frozen he (hres j hj)
      · intro he'
        exact (f.keep j he (hb.jobs j hj) he').2 he'
    · exact (px j hj).1
  · intro i k hi
    rw [hp] at hi
    obtain ⟨a, b⟩ := h.reg i k hi
    exact ⟨(f.frozen i a).1, by rw [(f.frozen i a).2]; exact b⟩
  · intro i k hi
    rw [hp] at hi
    exact (f.frozen i (h.regs i k hi)).1
  · intro hw
    have hc := h.chain (f.wait ▸ hw)
    unfold uchainOK at hc ⊢
    rw [hp]
    cases hpc : s.pc <;> rw [hpc] at hc <;> simp only [] at hc ⊢ <;> try exact hc
    case toRel i k reg =>
      cases k <;> cases reg <;> simp only [] at hc ⊢ <;> first | exact hc | exact (f.frozen i hc).1
    case toStatus i k => cases k <;> simp only [] at hc ⊢ <;> exact hc
    case toExcW i k => cases k <;> simp only [] at hc ⊢ <;> exact hc
    case toAbortW i k => cases k <;> simp only [] at hc ⊢ <;> exact hc
    case toAcq2 i k => cases k <;> simp only [] at hc ⊢ <;> first | exact hc | exact f.ab hc
    case toRel2 i k => cases k <;> simp only [] at hc ⊢ <;> first | exact hc | exact f.ab hc
    case gsRet i k => cases k <;> simp only [] at hc ⊢ <;> first | exact hc | exact f.ab hc
    case sleep => exact f.ab hc
    case wtAbort => exact f.ab hc
    case rtAbort => exact f.ab hc
    case refAcq => exact f.ab hc
    case refRel e =>
      cases e with
      | none => simp only [] at hc
      | some j =>
        simp only [] at hc ⊢
        obtain ⟨a, e', b⟩ := hc
        exact ⟨(f.frozen _ a).1, e', by rw [(f.frozen _ a).2]; exact b⟩
    case refStatus j =>
      obtain ⟨a, e', b⟩ := hc
      exact ⟨(f.frozen _ a).1, e', by rw [(f.frozen _ a).2]; exact b⟩
    case finExc e => cases e <;> simp only [] at hc ⊢ <;> exact hc
    case finJobsR e => cases e <;> simp only [] at hc ⊢ <;> exact hc
    case finJobsW e rem => cases e <;> simp only [] at hc ⊢ <;> exact hc
    case finSetW e rem => cases e <;> simp only [] at hc ⊢ <;> exact hc
    case done => rw [f.outcome]; exact hc

/-! ### frames of the building blocks -/

theorem uframe_of_same {s s0 : St} (h1 : s0.trk = s.trk) (h2 : s0.jobs = s.jobs) (h3 : s.aborting = true → s0.aborting = true)
    (h4 : s0.toWait = s.toWait) (h5 : s0.outcome = s.outcome) : UFrame s s0 :=
  ⟨fun j hj => ⟨h1 ▸ hj, by rw [h1]⟩, ⟨[], by simp [h2], by simp⟩, fun j hn _ he => absurd (h1 ▸ he) hn, h3, h4, h5,
   by rw [h1]; exact Nat.le_refl _⟩

/-- Rewriting tracker `i` without touching an error tracker's status / result and without making it an error. -/
theorem uframe_setTrk (s : St) (i : Nat) (t : Tracker)
    (hs : stErr s.trk i → t.status = .error ∧ t.result = (getT s.trk i).result)
    (hn : ¬ stErr s.trk i → t.status ≠ .error) : UFrame s (setTrk s i t) := by
  refine ⟨?_, ⟨[], by simp [setTrk], by simp⟩, ?_, id, rfl, rfl, by simp [setTrk]⟩
  · intro j hj
    simp only [setTrk]; unfold stErr at *
    rw [getT_set]; split
    · rename_i hh; rw [hh.1] at hj ⊢; exact hs hj
    · exact ⟨hj, rfl⟩
  · intro j hne _ he
    exfalso
    simp only [setTrk] at he; unfold stErr at *
    rw [getT_set] at he; split at he
    · rename_i hh; rw [hh.1] at hne; exact hn hne he
    · exact hne he

theorem setCb_uframe (s : St) (i : Nat) (p : CbPc) : UFrame s (setCb s i p) :=
  uframe_setTrk s i _ (fun h => ⟨h, rfl⟩) (fun h => h)

theorem setCb_uframe' {s : St} (s0 : St) (i : Nat) (p : CbPc) (h1 : s0.trk = s.trk) (h2 : s0.jobs = s.jobs)
    (h3 : s.aborting = true → s0.aborting = true) (h4 : s0.toWait = s.toWait) (h5 : s0.outcome = s.outcome) :
    UFrame s (setCb s0 i p) :=
  (uframe_of_same h1 h2 h3 h4 h5).trans (setCb_uframe s0 i p)

theorem cbAfterDispatch_uframe (i : Nat) (s : St) (r : Bool) : UFrame s (cbAfterDispatch i s r) := by
  unfold cbAfterDispatch
  split
  · exact setCb_uframe' _ i .relC rfl rfl id rfl rfl
  · exact setCb_uframe' _ i .relC rfl rfl id rfl rfl

theorem SameBut.uview {s s1 : St} (h : SameBut s s1) :
    s1.trk = s.trk ∧ s1.jobs = s.jobs ∧ s1.aborting = s.aborting ∧ s1.toWait = s.toWait ∧ s1.outcome = s.outcome := by
  unfold SameBut at h
  refine ⟨?_, ?_, ?_, ?_, ?_⟩ <;> rw [h]

theorem uframe_append (s s' : St) (t : Tracker) (ht : s'.trk = s.trk ++ [t]) (x : List Nat)
    (hj : s'.jobs = s.jobs ++ x) (hx : ∀ j ∈ x, j = s.trk.length)
    (hres : t.status = .error → ∃ e, t.result = .exc e)
    (hab : s.aborting = true → s'.aborting = true) (hw : s'.toWait = s.toWait) (ho : s'.outcome = s.outcome) :
    UFrame s s' := by
  refine ⟨?_, ⟨x, hj, ?_⟩, ?_, hab, hw, ho, by simp [ht]⟩
  · intro j h
    have hlt := stErr_lt h
    unfold stErr at *; rw [ht, getT_append_left _ _ _ hlt]; exact ⟨h, rfl⟩
  · intro j hjx
    have := hx j hjx
    subst this
    refine ⟨?_, by simp [ht]⟩
    intro he
    unfold stErr at he
    rw [ht, getT_append_length] at he ⊢
    exact hres he
  · intro j hne hl he
    exfalso
    unfold stErr at *
    rw [ht, getT_append_left _ _ _ hl] at he
    exact hne he

theorem DLCase.uframe {c : Cfg} {bs : Nat} {s : St} {r : St × DRes} (h : DLCase c bs s r) (hra : (c.ra == 2) = true) :
    UFrame s r.1 := by
  cases h with
  | ret s1 r h =>
    obtain ⟨a, b, d, e, f⟩ := h.uview
    exact uframe_of_same a b (fun hh => d ▸ hh) e f
  | submit s1 tasks h hab =>
    obtain ⟨a, b, d, e, f⟩ := h.uview
    refine uframe_append s _ (newTracker s tasks) ?_ [] ?_ (by simp)
      (by simp [newTracker]) ?_ ?_ ?_ <;> simp [registerNewJob, hra, a, b, d, e, f]
  | iterr s1 h hab =>
    obtain ⟨a, b, d, e, f⟩ := h.uview
    refine uframe_append s _ (errTracker s1 bs) ?_ [s.trk.length] ?_ (by simp)
      (by simp [errTracker]) ?_ ?_ ?_ <;>
      simp [registerIterError, registerNewJob, appendOutcome, hra, a, b, d, e, f, errTracker]

theorem cbDispatchResult_uframe {c : Cfg} {bs : Nat} {s : St} (i : Nat) {r : St × DRes} (hd : DLCase c bs s r)
    (hra : (c.ra == 2) = true) : UFrame s (cbDispatchResult i r) := by
  have h1 : UFrame s r.1 := hd.uframe hra
  obtain ⟨s', x⟩ := r
  cases x with
  | submit j => exact h1.trans (setCb_uframe s' i _)
  | ret b => exact h1.trans (cbAfterDispatch_uframe i s' b)

/-- `_register_outcome` by the callback of the pending tracker `i` (unordered): status, result, `_jobs.append`. -/
theorem register_uframe (c : Cfg) (hra : (c.ra == 2) = true) (i : Nat) (s : St) (t : Tracker) (hlt : i < s.trk.length)
    (hp : ¬ stErr s.trk i) (ht : t.status = .error → ∃ e, t.result = .exc e) :
    UFrame s (appendOutcome c i (setTrk s i t)) := by
  simp only [appendOutcome, hra, if_true, setTrk]
  refine ⟨?_, ⟨[i], rfl, ?_⟩, ?_, id, rfl, rfl, by simp⟩
  · intro j hj
    unfold stErr at *
    rw [getT_set]; split
    · rename_i hh; rw [hh.1] at hj; exact absurd hj hp
    · exact ⟨hj, rfl⟩
  · intro j hj
    simp only [List.mem_singleton] at hj
    subst hj
    refine ⟨?_, by simp [hlt]⟩
    intro he
    unfold stErr at he
    rw [getT_set, if_pos ⟨rfl, hlt⟩] at he ⊢
    exact ht he
  · intro j hne hl he
    unfold stErr at *
    rw [getT_set] at he
    split at he
    · rename_i hh
      rw [hh.1]
      refine ⟨by simp, ?_⟩
      intro _
      rw [getT_set, if_pos ⟨rfl, hlt⟩]
      exact ht he
    · exact absurd he hne

theorem stepCb_uframe (c : Cfg) (hra : (c.ra == 2) = true) (i : Nat) (s : St) : UFrame s (stepCb c i s) := by
  cases hpc : (getT s.trk i).pc
  case acqA =>
    simp only [stepCb, getTrk_def, hpc]
    exact ite_prop (P := UFrame s) (fun _ => setCb_uframe s i _)
      (fun _ => ite_prop (P := UFrame s) (fun _ => setCb_uframe s i _)
        (fun _ => setCb_uframe' _ i _ rfl rfl id rfl rfl))
  case retr =>
    have hlt : i < s.trk.length := lt_of_pc_ne_idle _ _ (by rw [hpc]; simp)
    simp only [stepCb, getTrk_def, hpc]
    refine ite_prop (P := UFrame s) (fun _ => setCb_uframe' _ i _ rfl rfl id rfl rfl) (fun hpend => ?_)
    have hnot : ¬ stErr s.trk i := by
      intro he
      apply hpend
      unfold stErr at he
      rw [he]; rfl
    cases (getT s.trk i).failed with
    | some id =>
      simp only []
      have a : UFrame s ({ s with lockOwner := none, exception := true, aborting := true } : St) :=
        uframe_of_same rfl rfl (fun _ => rfl) rfl rfl
      exact a.trans (register_uframe c hra i _ _ hlt hnot (fun _ => ⟨_, rfl⟩))
    | none =>
      simp only []
      have a : UFrame s ({ s with lockOwner := none } : St) := uframe_of_same rfl rfl id rfl rfl
      exact a.trans (register_uframe c hra i _ _ hlt hnot (fun he => by cases he))
  case acqC =>
    simp only [stepCb, getTrk_def, hpc]
    refine ite_prop (P := UFrame s) (fun _ => ?_) (fun _ => setCb_uframe' _ i _ rfl rfl id rfl rfl)
    have h0 : UFrame s (setCb { s with lockOwner := some (i + 1), nCompleted := s.nCompleted + (getT s.trk i).bsize } i .bsC) :=
      setCb_uframe' _ i .bsC rfl rfl id rfl rfl
    refine ite_prop (P := UFrame s) (fun _ => ?_) (fun _ => ite_prop (P := UFrame s) (fun _ => h0) (fun _ => ?_))
    · exact h0.trans (cbAfterDispatch_uframe i _ false)
    · exact h0.trans (cbDispatchResult_uframe i (dispatchLocked_cases c (i + 1) true _ _) hra)
  case bsC =>
    simp only [stepCb, getTrk_def, hpc]
    exact UFrame.trans (b := { s with bsI := s.bsI + 1 }) (uframe_of_same rfl rfl id rfl rfl)
      (cbDispatchResult_uframe i (dispatchLocked_cases c (i + 1) true _ _) hra)
  case submitC j =>
    simp only [stepCb, getTrk_def, hpc]
    refine UFrame.trans (b := doSubmit (i + 1) j (setCb s i .bsC)) ?_ (cbAfterDispatch_uframe i _ true)
    exact (setCb_uframe s i .bsC).trans (setCb_uframe' (ev (setCb s i .bsC) _) j .parked rfl rfl id rfl rfl)
  all_goals
    simp only [stepCb, getTrk_def, hpc]
    first | exact UFrame.refl s | exact setCb_uframe s i _

/-! ### the caller -/

theorem UInv.step {s s' : St} (h : UInv s)
    (hord : s'.pc.orderedOnly = false)
    (hres : s'.pc.decided = false → ∀ j ∈ s'.jobs, resOK s'.trk j)
    (hreg : ∀ i k, (s'.pc = .toStatus i k ∨ s'.pc = .toExcW i k ∨ s'.pc = .toAbortW i k ∨ s'.pc = .toAcq2 i k) →
      stErr s'.trk i ∧ (getT s'.trk i).result = .exc .timeout)
    (hregs : ∀ i k, s'.pc = .toRel i k true → stErr s'.trk i)
    (hw : s'.toWait = s.toWait)
    (hch : uchainOK s → uchainOK s') : UInv s' :=
  ⟨hord, hres, hreg, hregs, fun hw' => hch (h.chain (hw ▸ hw'))⟩

theorem UInv.res_frame {s s' : St} (h : UInv s) (hb : BInv s) (f : UFrame s s') (hd : s.pc.decided = false) :
    ∀ j ∈ s'.jobs, resOK s'.trk j := by
  obtain ⟨x, hx, px⟩ := f.jobs
  have hres := h.res hd
  intro j hj
  rw [hx] at hj
  simp only [List.mem_append] at hj
  rcases hj with hj | hj
  · by_cases he : stErr s.trk j
    · exact resOK_frozen f.frozen he (hres j hj)
    · intro he'
      exact (f.keep j he (hb.jobs j hj) he').2 he'
  · exact (px j hj).1

theorem afterDispatch_ufacts (c : Cfg) (k : DK) (r : Bool) :
    (afterDispatch c k r).orderedOnly = false ∧ (afterDispatch c k r).decided = false ∧
    (∀ i k', afterDispatch c k r ≠ .toStatus i k' ∧ afterDispatch c k r ≠ .toExcW i k' ∧
      afterDispatch c k r ≠ .toAbortW i k' ∧ afterDispatch c k r ≠ .toAcq2 i k' ∧
      afterDispatch c k r ≠ .toRel i k' true) := by
  cases k <;> cases r <;> simp only [afterDispatch] <;> (try split) <;> simp [Pc.orderedOnly, Pc.decided]

theorem getStatusEntry_ufacts (c : Cfg) (i : Nat) :
    (getStatusEntry c i .ctl).orderedOnly = false ∧ (getStatusEntry c i .ctl).decided = false ∧
    (∀ i' k', getStatusEntry c i .ctl ≠ .toStatus i' k' ∧ getStatusEntry c i .ctl ≠ .toExcW i' k' ∧
      getStatusEntry c i .ctl ≠ .toAbortW i' k' ∧ getStatusEntry c i .ctl ≠ .toAcq2 i' k' ∧
      getStatusEntry c i .ctl ≠ .toRel i' k' true) := by
  unfold getStatusEntry; split <;> simp [Pc.orderedOnly, Pc.decided]

theorem returnOrRaise_ufacts (s : St) (i : Nat) :
    (returnOrRaise s i).1.jobs = s.jobs ∧ (returnOrRaise s i).1.toWait = s.toWait ∧
    (returnOrRaise s i).1.outcome = s.outcome ∧ (returnOrRaise s i).1.aborting = s.aborting ∧
    (∀ e, stErr s.trk i → (getT s.trk i).result = .exc e → (returnOrRaise s i).2 = .error e) ∧
    (∀ l, (returnOrRaise s i).2 = .ok l → ∀ j, resOK s.trk j → resOK (returnOrRaise s i).1.trk j) := by
  have hset : ¬ stErr s.trk i → ∀ j, resOK s.trk j → resOK (setTrk s i { getTrk s i with result := .none }).trk j := by
    intro hne j hj he
    simp only [setTrk] at he ⊢
    unfold stErr at *
    rw [getT_set] at he ⊢
    split
    · rename_i hh
      rw [if_pos hh] at he
      exact absurd he hne
    · rename_i hh
      rw [if_neg hh] at he
      exact hj he
  unfold returnOrRaise
  simp only []
  cases hr : (getTrk s i).result with
  | none =>
    refine ⟨rfl, rfl, rfl, rfl, ?_, fun l h => by cases h⟩
    intro e _ he
    have : (getTrk s i).result = .exc e := he
    rw [hr] at this; cases this
  | vals l0 =>
    simp only []
    split
    · refine ⟨rfl, rfl, rfl, rfl, ?_, fun l h => by cases h⟩
      intro e _ he
      have : (getTrk s i).result = .exc e := he
      rw [hr] at this; cases this
    · rename_i hs
      refine ⟨rfl, rfl, rfl, rfl, ?_, fun l _ => hset ?_⟩
      · intro e _ he
        have : (getTrk s i).result = .exc e := he
        rw [hr] at this; cases this
      · intro he
        apply hs
        have : (getTrk s i).status = .error := he
        rw [this]; rfl
  | exc e0 =>
    simp only []
    split
    · refine ⟨rfl, rfl, rfl, rfl, ?_, fun l h => by cases h⟩
      intro e _ he
      have : (getTrk s i).result = .exc e := he
      rw [hr] at this
      simp only [Res.exc.injEq] at this
      rw [this]
    · rename_i hs
      refine ⟨rfl, rfl, rfl, rfl, ?_, fun l h => by cases h⟩
      intro e hse _
      exfalso; apply hs
      have : (getTrk s i).status = .error := hse
      rw [this]; rfl

theorem resOK_set_same (l : List Tracker) (i j : Nat) (t : Tracker) (hs : t.status = (getT l i).status)
    (hr : t.result = (getT l i).result) (h : resOK l j) : resOK (l.set i t) j := by
  unfold resOK stErr at *
  rw [getT_set]; split
  · rename_i hh; rw [hh.1] at h; rw [hs, hr]; exact h
  · exact h

theorem tailNext_ufacts (c : Cfg) (s : St) (rem : List Nat) :
    (tailNext c s rem).pc.orderedOnly = false ∧ (tailNext c s rem).pc.decided = true ∧
    (tailNext c s rem).toWait = s.toWait ∧
    (∀ i k, (tailNext c s rem).pc ≠ .toStatus i k ∧ (tailNext c s rem).pc ≠ .toExcW i k ∧
      (tailNext c s rem).pc ≠ .toAbortW i k ∧ (tailNext c s rem).pc ≠ .toAcq2 i k ∧
      (tailNext c s rem).pc ≠ .toRel i k true) := by
  cases rem with
  | nil =>
    unfold tailNext finishRet ev
    refine ⟨rfl, rfl, ?_, fun _ _ => by simp⟩
    simp only; split <;> rfl
  | cons i r => exact ⟨rfl, rfl, rfl, fun _ _ => by simp [tailNext]⟩

theorem stepCaller_uinv (c : Cfg) (hra : (c.ra == 2) = true) (s : St) (hb : BInv s) (he : EInv s) (ho : OrdInv s)
    (hn : NInv s) (h : UInv s) : UInv (stepCaller c s) := by
  have hne : (c.ra != 2) = false := by simp [bne, hra]
  cases hpc : s.pc
  case rtHead => have := h.ord; rw [hpc] at this; cases this
  case dAcq k bs =>
    unfold stepCaller
    simp only [hpc]
    have hd := (dispatchLocked_cases c 0 false bs { s with lockOwner := some 0, pc := .dIn k }).uframe hra
    generalize dispatchLocked c 0 false bs { s with lockOwner := some 0, pc := .dIn k } = r at hd
    obtain ⟨s', x⟩ := r
    have hd' : UFrame s s' :=
      (uframe_of_same (s := s) (s0 := { s with lockOwner := some 0, pc := .dIn k }) rfl rfl id rfl rfl).trans hd
    have hr := h.res_frame hb hd' (by rw [hpc]; rfl)
    cases x <;>
    · refine h.step (by simp [Pc.orderedOnly]) (fun _ => hr) (by simp) (by simp) hd'.wait ?_
      intro hc; unfold uchainOK at hc; simp only [hpc] at hc
  case dSubmit k j =>
    unfold stepCaller
    simp only [hpc]
    have f : UFrame s (doSubmit 0 j { s with pc := .dIn k }) :=
      (uframe_of_same (s := s) (s0 := ev ({ s with pc := .dIn k } : St) _) rfl rfl id rfl rfl).trans (setCb_uframe _ j .parked)
    have f2 : UFrame s ({ doSubmit 0 j { s with pc := .dIn k } with lockOwner := none, pc := .dRel k true } : St) :=
      f.trans (uframe_of_same rfl rfl id rfl rfl)
    refine h.step (by simp [Pc.orderedOnly]) (fun _ => h.res_frame hb f2 (by rw [hpc]; rfl)) (by simp) (by simp) rfl ?_
    intro hc; unfold uchainOK at hc; simp only [hpc] at hc
  case rtLen =>
    have hr := h.res (by rw [hpc]; rfl)
    unfold stepCaller
    simp only [hpc, hne, Bool.false_eq_true, if_false]
    split
    · split
      · refine h.step (by simp [Pc.orderedOnly]) (fun _ => hr) (by simp) (by simp) rfl ?_
        intro hc; unfold uchainOK at hc; simp only [hpc] at hc
      · obtain ⟨f1, f2, f3⟩ := getStatusEntry_ufacts c ‹Nat›
        refine h.step f1 (fun _ => hr) (fun i k hi => ?_) (fun i k hi => absurd hi (f3 i k).2.2.2.2) rfl ?_
        · rcases hi with e | e | e | e
          · exact absurd e (f3 i k).1
          · exact absurd e (f3 i k).2.1
          · exact absurd e (f3 i k).2.2.1
          · exact absurd e (f3 i k).2.2.2.1
        · intro hc; unfold uchainOK at hc; simp only [hpc] at hc
    · split
      · refine h.step (by simp [Pc.orderedOnly]) (fun _ => hr) (by simp) (by simp) rfl ?_
        intro hc; unfold uchainOK at hc; simp only [hpc] at hc
      · refine h.step (by simp [Pc.orderedOnly]) ?_ (by simp) (by simp) rfl ?_
        · intro _ j hj
          simp only [setTrk] at hj ⊢
          exact resOK_set_same _ _ _ _ rfl rfl (hr j hj)
        · intro hc; unfold uchainOK at hc; simp only [hpc] at hc
  case ctlAcq =>
    have hr := h.res (by rw [hpc]; rfl)
    unfold stepCaller
    simp only [hpc]
    refine h.step (by simp [Pc.orderedOnly]) (fun _ => hr) (by simp) (by simp) rfl ?_
    intro hc; unfold uchainOK at hc; simp only [hpc] at hc
  case ctlRel =>
    have hr := h.res (by rw [hpc]; rfl)
    unfold stepCaller
    simp only [hpc]
    split
    · refine h.step (by simp [Pc.orderedOnly]) (fun _ => hr) (by simp) (by simp) rfl ?_
      intro hc; unfold uchainOK at hc; simp only [hpc] at hc
    · obtain ⟨f1, f2, f3⟩ := getStatusEntry_ufacts c ‹Nat›
      refine h.step f1 (fun _ => hr) (fun i k hi => ?_) (fun i k hi => absurd hi (f3 i k).2.2.2.2) rfl ?_
      · rcases hi with e | e | e | e
        · exact absurd e (f3 i k).1
        · exact absurd e (f3 i k).2.1
        · exact absurd e (f3 i k).2.2.1
        · exact absurd e (f3 i k).2.2.2.1
      · intro hc; unfold uchainOK at hc; simp only [hpc] at hc
  case gsStatus i k =>
    have hk : k = .ctl := by
      cases k
      · have := h.ord; rw [hpc] at this; cases this
      · rfl
    subst hk
    have hr := h.res (by rw [hpc]; rfl)
    unfold stepCaller
    simp only [hpc]
    split
    · refine h.step (by simp [Pc.orderedOnly]) (fun _ => hr) (by simp) (by simp) rfl ?_
      intro hc; unfold uchainOK at hc; simp only [hpc] at hc
    · split <;>
      · refine h.step (by simp [Pc.orderedOnly]) ?_ (by simp) (by simp) rfl ?_
        · intro _ j hj
          simp only [setTrk] at hj ⊢
          exact resOK_set_same _ _ _ _ rfl rfl (hr j hj)
        · intro hc; unfold uchainOK at hc; simp only [hpc] at hc
  case toAcq i k =>
    have hk : k = .ctl := by
      cases k
      · have := h.ord; rw [hpc] at this; cases this
      · rfl
    subst hk
    have hr := h.res (by rw [hpc]; rfl)
    have hlt := hb.pc i (by rw [hpc]; rfl)
    unfold stepCaller
    simp only [hpc]
    split
    · refine h.step (by simp [Pc.orderedOnly]) (fun _ => hr) (by simp) (by simp) rfl ?_
      intro hc; unfold uchainOK at hc; simp only [hpc] at hc
    · rename_i hpend
      have hp : isPend s.trk i := by
        unfold isPend
        cases hs : (getTrk s i).status
        · exact hs
        · exfalso; apply hpend; rw [hs]; rfl
        · exfalso; apply hpend; rw [hs]; rfl
      have hnj : i ∉ s.jobs := by
        intro hm
        have hoo := ho
        unfold OrdInv at hoo
        rw [hpc] at hoo
        simp only [Pc.cls, ordOK] at hoo
        exact hn.np i (by rw [← hoo]; simp [hm]) hp
      have hst : stErr (s.trk.set i { getTrk s i with status := .error }) i := by
        unfold stErr; rw [getT_set, if_pos ⟨rfl, hlt⟩]
      refine ⟨by simp [Pc.orderedOnly], ?_, by simp, ?_, ?_⟩
      · intro _ j hj
        simp only [setTrk] at hj ⊢
        have hji : j ≠ i := fun e => hnj (e ▸ hj)
        unfold resOK stErr
        rw [getT_set, if_neg (fun hh => hji hh.1)]
        exact hr j hj
      · intro i' k' hi'
        simp only [Pc.toRel.injEq, and_true] at hi'
        rw [← hi'.1]
        exact hst
      · intro _
        unfold uchainOK
        exact hst
  case toRel i k reg =>
    have hk : k = .ctl := by
      cases k
      · have := h.ord; rw [hpc] at this; cases this
      · rfl
    subst hk
    have hr := h.res (by rw [hpc]; rfl)
    unfold stepCaller
    simp only [hpc]
    cases reg with
    | false =>
      simp only [Bool.false_eq_true, if_false]
      refine h.step (by simp [Pc.orderedOnly]) (fun _ => hr) (by simp) (by simp) rfl ?_
      intro hc; unfold uchainOK at hc; simp only [hpc] at hc
    | true =>
      simp only [if_true]
      have hse := h.regs i .ctl hpc
      have hlt := stErr_lt hse
      refine h.step (by simp [Pc.orderedOnly]) ?_ ?_ (by simp) rfl ?_
      · intro _ j hj
        simp only [setTrk] at hj ⊢
        unfold resOK stErr
        rw [getT_set]; split
        · intro _; exact ⟨_, rfl⟩
        · exact hr j hj
      · intro i' k' hi'
        simp only [Pc.toStatus.injEq, reduceCtorEq, or_false] at hi'
        rw [← hi'.1]
        simp only [setTrk]
        unfold stErr at *
        rw [getT_set, if_pos ⟨rfl, hlt⟩]
        exact ⟨hse, rfl⟩
      · intro _; unfold uchainOK; trivial
  case toStatus i k =>
    have hk : k = .ctl := by
      cases k
      · have := h.ord; rw [hpc] at this; cases this
      · rfl
    subst hk
    have hr := h.res (by rw [hpc]; rfl)
    have hg := h.reg i .ctl (Or.inl hpc)
    unfold stepCaller
    simp only [hpc]
    split
    · refine h.step (by simp [Pc.orderedOnly]) (fun _ => hr) ?_ (by simp) rfl ?_
      · intro i' k' hi'
        simp only [reduceCtorEq, Pc.toExcW.injEq, false_or, or_false] at hi'
        rw [← hi'.1]; exact hg
      · intro _; unfold uchainOK; trivial
    · rename_i hs
      exfalso; apply hs
      have : (getTrk s i).status = .error := hg.1
      rw [this]; rfl
  case toExcW i k =>
    have hk : k = .ctl := by
      cases k
      · have := h.ord; rw [hpc] at this; cases this
      · rfl
    subst hk
    have hr := h.res (by rw [hpc]; rfl)
    have hg := h.reg i .ctl (Or.inr (Or.inl hpc))
    unfold stepCaller
    simp only [hpc]
    refine h.step (by simp [Pc.orderedOnly]) (fun _ => hr) ?_ (by simp) rfl ?_
    · intro i' k' hi'
      simp only [reduceCtorEq, Pc.toAbortW.injEq, false_or, or_false] at hi'
      rw [← hi'.1]; exact hg
    · intro _; unfold uchainOK; trivial
  case toAbortW i k =>
    have hk : k = .ctl := by
      cases k
      · have := h.ord; rw [hpc] at this; cases this
      · rfl
    subst hk
    have hr := h.res (by rw [hpc]; rfl)
    have hg := h.reg i .ctl (Or.inr (Or.inr (Or.inl hpc)))
    unfold stepCaller
    simp only [hpc, hne, Bool.false_eq_true, if_false]
    refine h.step (by simp [Pc.orderedOnly]) (fun _ => hr) ?_ (by simp) rfl ?_
    · intro i' k' hi'
      simp only [reduceCtorEq, Pc.toAcq2.injEq, false_or] at hi'
      rw [← hi'.1]; exact hg
    · intro _; unfold uchainOK; rfl
  case toAcq2 i k =>
    have hk : k = .ctl := by
      cases k
      · have := h.ord; rw [hpc] at this; cases this
      · rfl
    subst hk
    have hr := h.res (by rw [hpc]; rfl)
    have hg := h.reg i .ctl (Or.inr (Or.inr (Or.inr hpc)))
    unfold stepCaller
    simp only [hpc, appendOutcome, hra, if_true]
    refine h.step (by simp [Pc.orderedOnly]) ?_ (by simp) (by simp) rfl ?_
    · intro _ j hj
      simp only [List.mem_append, List.mem_singleton] at hj
      rcases hj with hj | hj
      · exact hr j hj
      · subst hj; intro _; exact ⟨_, hg.2⟩
    · intro hc; unfold uchainOK at hc ⊢; simp only [hpc] at hc; exact hc
  case toRel2 i k =>
    have hk : k = .ctl := by
      cases k
      · have := h.ord; rw [hpc] at this; cases this
      · rfl
    subst hk
    have hr := h.res (by rw [hpc]; rfl)
    unfold stepCaller
    simp only [hpc]
    refine h.step (by simp [Pc.orderedOnly]) (fun _ => hr) (by simp) (by simp) rfl ?_
    intro hc; unfold uchainOK at hc ⊢; simp only [hpc] at hc; exact hc
  case gsRet i k =>
    have hk : k = .ctl := by
      cases k
      · have := h.ord; rw [hpc] at this; cases this
      · rfl
    subst hk
    have hr := h.res (by rw [hpc]; rfl)
    unfold stepCaller
    simp only [hpc]
    refine h.step (by simp [Pc.orderedOnly]) (fun _ => hr) (by simp) (by simp) rfl ?_
    intro hc; unfold uchainOK at hc ⊢; simp only [hpc] at hc; exact hc
  case sleep =>
    have hr := h.res (by rw [hpc]; rfl)
    unfold stepCaller
    simp only [hpc]
    refine h.step (by simp [Pc.orderedOnly]) (fun _ => hr) (by simp) (by simp) rfl ?_
    intro hc; unfold uchainOK at hc ⊢; simp only [hpc] at hc; exact hc
  case wtAbort =>
    have hr := h.res (by rw [hpc]; rfl)
    unfold stepCaller
    simp only [hpc]
    split
    · rename_i ha
      refine h.step (by simp [Pc.orderedOnly]) (fun _ => hr) (by simp) (by simp) rfl ?_
      intro _; unfold uchainOK; exact ha
    · rename_i ha
      refine h.step (by simp [Pc.orderedOnly]) (fun _ => hr) (by simp) (by simp) rfl ?_
      intro hc; unfold uchainOK at hc; simp only [hpc] at hc; exact absurd hc ha
  case rtAbort =>
    have hr := h.res (by rw [hpc]; rfl)
    unfold stepCaller
    simp only [hpc]
    split
    · rename_i ha
      refine h.step (by simp [Pc.orderedOnly]) (fun _ => hr) (by simp) (by simp) rfl ?_
      intro _; unfold uchainOK; exact ha
    · rename_i ha
      refine h.step (by simp [Pc.orderedOnly]) (fun _ => hr) (by simp) (by simp) rfl ?_
      intro hc; unfold uchainOK at hc; simp only [hpc] at hc; exact absurd hc ha
  case refAcq =>
    have hr := h.res (by rw [hpc]; rfl)
    have hm := he.main
    rw [hpc] at hm
    unfold stepCaller
    simp only [hpc]
    refine h.step (by simp [Pc.orderedOnly]) (fun hd => by simp [Pc.decided] at hd) (by simp) (by simp) rfl ?_
    intro hc; unfold uchainOK at hc ⊢; simp only [hpc] at hc
    obtain ⟨j, e1, e2, e3⟩ := firstErrorJob_of_errIn s s.jobs (hm hc)
    simp only [e1]
    exact ⟨e3, hr j e2 e3⟩
  case refRel e =>
    unfold stepCaller
    cases e with
    | none =>
      simp only [hpc]
      refine h.step (by simp [Pc.orderedOnly]) (fun hd => by simp [Pc.decided] at hd) (by simp) (by simp) rfl ?_
      intro hc; unfold uchainOK at hc; simp only [hpc] at hc
    | some j =>
      simp only [hpc]
      refine h.step (by simp [Pc.orderedOnly]) (fun hd => by simp [Pc.decided] at hd) (by simp) (by simp) rfl ?_
      intro hc; unfold uchainOK at hc ⊢; simp only [hpc] at hc; exact hc
  case refStatus j =>
    unfold stepCaller
    simp only [hpc]
    have hv := returnOrRaise_ufacts s j
    generalize returnOrRaise s j = r at hv
    obtain ⟨s', x⟩ := r
    obtain ⟨h1, h2, h3, h4, h5, h6⟩ := hv
    cases x with
    | error e =>
      refine h.step (by simp [Pc.orderedOnly]) (fun hd => by simp [Pc.decided] at hd) (by simp) (by simp) h2 ?_
      intro _; unfold uchainOK; trivial
    | ok l =>
      refine h.step (by simp [Pc.orderedOnly]) (fun hd => by simp [Pc.decided] at hd) (by simp) (by simp) h2 ?_
      intro hc; unfold uchainOK at hc; simp only [hpc] at hc
      obtain ⟨a, e, b⟩ := hc
      have := h5 e a b
      cases this
  case resStatus i =>
    have hr := h.res (by rw [hpc]; rfl)
    unfold stepCaller
    simp only [hpc]
    have hv := returnOrRaise_ufacts s i
    generalize returnOrRaise s i = r at hv
    obtain ⟨s', x⟩ := r
    obtain ⟨h1, h2, h3, h4, h5, h6⟩ := hv
    cases x with
    | error e =>
      refine h.step (by simp [Pc.orderedOnly]) (fun hd => by simp [Pc.decided] at hd) (by simp) (by simp) h2 ?_
      intro hc; unfold uchainOK at hc; simp only [hpc] at hc
    | ok l =>
      obtain ⟨f1, _, _, _, _, f6⟩ := deliverVals_frame c s' i l
      have fw : (deliverVals c s' i l).toWait = s'.toWait := by unfold deliverVals; simp only; split <;> rfl
      refine h.step (s' := { deliverVals c s' i l with pc := .wtAbort }) (by simp [Pc.orderedOnly]) ?_ (by simp) (by simp)
        (fw.trans h2) ?_
      · intro _ j hj
        simp only at hj ⊢
        rw [f6]; rw [f1, h1] at hj
        exact h6 l rfl j (hr j hj)
      · intro hc; unfold uchainOK at hc; simp only [hpc] at hc
  case tailStatus i rem =>
    unfold stepCaller
    simp only [hpc]
    have hv := returnOrRaise_ufacts s i
    generalize returnOrRaise s i = r at hv
    obtain ⟨s', x⟩ := r
    obtain ⟨h1, h2, h3, h4, h5, h6⟩ := hv
    cases x with
    | error e =>
      refine h.step (s' := finishRaise s' e) (by simp [finishRaise, Pc.orderedOnly])
        (fun hd => by simp [finishRaise, Pc.decided] at hd) (by simp [finishRaise]) (by simp [finishRaise]) h2 ?_
      intro hc; unfold uchainOK at hc; simp only [hpc] at hc
    | ok l =>
      have fw : (deliverVals c s' i l).toWait = s'.toWait := by unfold deliverVals; simp only; split <;> rfl
      obtain ⟨g1, g2, g3, g4⟩ := tailNext_ufacts c (deliverVals c s' i l) rem
      refine h.step (s' := tailNext c (deliverVals c s' i l) rem) g1 (fun hd => by rw [g2] at hd; cases hd)
        (fun i' k' hi' => ?_) (fun i' k' hi' => absurd hi' (g4 i' k').2.2.2.2) (g3.trans (fw.trans h2)) ?_
      · rcases hi' with e | e | e | e
        · exact absurd e (g4 i' k').1
        · exact absurd e (g4 i' k').2.1
        · exact absurd e (g4 i' k').2.2.1
        · exact absurd e (g4 i' k').2.2.2.1
      · intro hc; unfold uchainOK at hc; simp only [hpc] at hc
  case popAcq =>
    have hr := h.res (by rw [hpc]; rfl)
    unfold stepCaller
    simp only [hpc]
    split
    · refine h.step (by simp [Pc.orderedOnly]) (fun hd => by simp [Pc.decided] at hd) (by simp) (by simp) rfl ?_
      intro hc; unfold uchainOK at hc; simp only [hpc] at hc
    · rename_i i rest hj
      have hrr : ∀ j ∈ rest, resOK s.trk j := fun j hjm => hr j (by rw [hj]; simp [hjm])
      simp only [hne, Bool.false_eq_true, if_false]
      split
      · refine h.step (by simp [Pc.orderedOnly]) (fun _ => hrr) (by simp) (by simp) rfl ?_
        intro hc; unfold uchainOK at hc; simp only [hpc] at hc
      · refine h.step (by simp [Pc.orderedOnly]) (fun hd => by simp [Pc.decided] at hd) (by simp) (by simp) rfl ?_
        intro hc; unfold uchainOK at hc; simp only [hpc] at hc
  case finSetW e rem =>
    unfold stepCaller
    simp only [hpc]
    cases e with
    | some e =>
      refine h.step (s' := finishRaise _ e) (by simp [finishRaise, Pc.orderedOnly])
        (fun hd => by simp [finishRaise, Pc.decided] at hd) (by simp [finishRaise]) (by simp [finishRaise]) rfl ?_
      intro _; unfold uchainOK; simp only [finishRaise, ev]; exact ⟨e, rfl⟩
    | none =>
      obtain ⟨g1, g2, g3, g4⟩ := tailNext_ufacts c { s with pc := Pc.finSetW none rem, jobsSet := [], running := false } rem
      refine h.step g1 (fun hd => by rw [g2] at hd; cases hd)
        (fun i' k' hi' => ?_) (fun i' k' hi' => absurd hi' (g4 i' k').2.2.2.2) g3 ?_
      · rcases hi' with e | e | e | e
        · exact absurd e (g4 i' k').1
        · exact absurd e (g4 i' k').2.1
        · exact absurd e (g4 i' k').2.2.1
        · exact absurd e (g4 i' k').2.2.2.1
      · intro hc; unfold uchainOK at hc; simp only [hpc] at hc
  case excW e =>
    unfold stepCaller
    simp only [hpc]
    refine h.step (by simp [Pc.orderedOnly]) (fun hd => by simp [Pc.decided] at hd) (by simp) (by simp) rfl ?_
    intro _; unfold uchainOK; trivial
  case abortW e =>
    unfold stepCaller
    simp only [hpc]
    split <;>
    · refine h.step (by simp [Pc.orderedOnly]) (fun hd => by simp [Pc.decided] at hd) (by simp) (by simp) rfl ?_
      intro _; unfold uchainOK; trivial
  case abortCall e =>
    unfold stepCaller
    simp only [hpc, ev, dropParked]
    refine h.step (by simp [Pc.orderedOnly]) (fun hd => by simp [Pc.decided] at hd) (by simp) (by simp)
      (by simp only; split <;> rfl) ?_
    intro _; unfold uchainOK; trivial
  case finExc e =>
    unfold stepCaller
    simp only [hpc]
    cases e with
    | none =>
      split <;>
      · refine h.step (by simp [Pc.orderedOnly]) (fun hd => by simp [Pc.decided] at hd) (by simp) (by simp) rfl ?_
        intro hc; unfold uchainOK at hc; simp only [hpc] at hc
    | some e =>
      split <;>
      · refine h.step (by simp [Pc.orderedOnly]) (fun hd => by simp [Pc.decided] at hd) (by simp) (by simp) rfl ?_
        intro _; unfold uchainOK; trivial
  case finJobsR e =>
    unfold stepCaller
    simp only [hpc]
    cases e with
    | none =>
      refine h.step (by simp [Pc.orderedOnly]) (fun hd => by simp [Pc.decided] at hd) (by simp) (by simp) rfl ?_
      intro hc; unfold uchainOK at hc; simp only [hpc] at hc
    | some e =>
      refine h.step (by simp [Pc.orderedOnly]) (fun hd => by simp [Pc.decided] at hd) (by simp) (by simp) rfl ?_
      intro _; unfold uchainOK; trivial
  case finJobsW e rem =>
    unfold stepCaller
    simp only [hpc]
    cases e with
    | none =>
      refine h.step (by simp [Pc.orderedOnly]) (fun hd => by simp [Pc.decided] at hd) (by simp) (by simp) rfl ?_
      intro hc; unfold uchainOK at hc; simp only [hpc] at hc
    | some e =>
      refine h.step (by simp [Pc.orderedOnly]) (fun hd => by simp [Pc.decided] at hd) (by simp) (by simp) rfl ?_
      intro _; unfold uchainOK; trivial
  case done => unfold stepCaller; simp only [hpc]; exact h
  case dIn k => unfold stepCaller; simp only [hpc]; exact h
  case resetAcq =>
    have hr := h.res (by rw [hpc]; rfl)
    unfold stepCaller
    simp only [hpc]
    split
    · refine h.step (s' := finishRaise s .runtime) (by simp [finishRaise, Pc.orderedOnly])
        (fun hd => by simp [finishRaise, Pc.decided] at hd) (by simp [finishRaise]) (by simp [finishRaise]) rfl ?_
      intro hc; unfold uchainOK at hc; simp only [hpc] at hc
    · refine h.step (by simp [Pc.orderedOnly]) (fun _ => hr) (by simp) (by simp) rfl ?_
      intro hc; unfold uchainOK at hc; simp only [hpc] at hc
  case popRel i =>
    have hr := h.res (by rw [hpc]; rfl)
    unfold stepCaller
    simp only [hpc]
    refine h.step (by simp [Pc.orderedOnly]) (fun _ => hr) (by simp) (by simp) rfl ?_
    intro hc; unfold uchainOK at hc; simp only [hpc] at hc
  all_goals
    have hr := h.res (by rw [hpc]; rfl)
    unfold stepCaller
    simp only [hpc]
  all_goals repeat' split
  all_goals
    refine h.step ?_ (fun _ => hr) ?_ ?_ rfl ?_
  all_goals first
    | (simp [Pc.orderedOnly]; done)
    | exact (afterDispatch_ufacts _ _ _).1
    | (intro i' k' hi'; rcases hi' with e | e | e | e
       · exact absurd e ((afterDispatch_ufacts _ _ _).2.2 i' k').1
       · exact absurd e ((afterDispatch_ufacts _ _ _).2.2 i' k').2.1
       · exact absurd e ((afterDispatch_ufacts _ _ _).2.2 i' k').2.2.1
       · exact absurd e ((afterDispatch_ufacts _ _ _).2.2 i' k').2.2.2.1)
    | (intro i' k' hi'; exact absurd hi' ((afterDispatch_ufacts _ _ _).2.2 i' k').2.2.2.2)
    | (intro hc; unfold uchainOK at hc; simp only [hpc] at hc)

/-- All the invariants the unordered timeout path needs, together. -/
structure UAll (c : Cfg) (s : St) : Prop where
  b : BInv s
  e : EInv s
  o : OrdInv s
  n : NInv s
  u : UInv s

theorem step_uall (c : Cfg) (hra : c.ra = 2) (s : St) (h : UAll c s) (a : Act) : UAll c (step c s a) := by
  have hra' : (c.ra == 2) = true := by simp [hra]
  refine ⟨step_binv c s h.b a, step_einv c hra s h.e a, step_ord c hra s h.o a, step_ninv c s h.b h.n a, ?_⟩
  cases a with
  | thread t =>
    cases t with
    | zero =>
      simp only [step]
      split
      · exact stepCaller_uinv c hra' s h.b h.e h.o h.n h.u
      · exact h.u
    | succ i =>
      simp only [step]
      split
      · exact h.u.frame h.b (stepCb_uframe c hra' i s) (stepCb_pc c i s)
      · exact h.u
  | complete k =>
    simp only [step]
    split
    · rename_i f _
      refine h.u.frame h.b (s' := complete c f s) ?_ rfl
      simp only [complete]
      have a : UFrame s (ev s (.complete f (getTrk s f).items)) := uframe_of_same rfl rfl id rfl rfl
      exact a.trans (uframe_setTrk _ f _ (fun hh => ⟨hh, rfl⟩) (fun hh => hh))
    · exact h.u

theorem run_uall (c : Cfg) (hra : c.ra = 2) (sched : List Act) : ∀ s, UAll c s → UAll c (run c s sched) := by
  induction sched with
  | nil => intro s h; exact h
  | cons a r ih => intro s h; exact ih _ (step_uall c hra s h a)

theorem uall_init (c : Cfg) : UAll c init := ⟨bInv_init, eInv_init, ordInv_init, nInv_init, uInv_init⟩

end JoblibModel.ParallelLockU
