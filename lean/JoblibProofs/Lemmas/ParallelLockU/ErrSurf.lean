import JoblibProofs.Lemmas.ParallelLockU.Timeout
/-!
M1LU proofs — ERRORS SURFACE in `generator_unordered` mode (`Cfg.ra = 2`): whenever `_aborting` is set while the caller
is in the retrieval loop, a tracker with status TASK_ERROR is in `_jobs` (or has just been popped by the caller, or is
the tracker the caller itself is registering a TimeoutError for and about to append) — so when `_retrieve` has observed
`_aborting` and runs `_raise_error_fast`, the scan of `_jobs` under the lock finds a failed job.  This is what the
callback's lock scope gives: status, flags and `_jobs.append` are one atomic step of the callback thread.
-/
namespace JoblibModel.ParallelLockU
open JoblibModel.ParallelLock (Tid Status CbPc DK DRes Act chunks)

def stErr (l : List Tracker) (j : Nat) : Prop := (getT l j).status = .error

def errIn (l : List Tracker) (jobs : List Nat) : Prop := ∃ j ∈ jobs, stErr l j

inductive ECls where
  | need                 -- in the loop: an error job must be in `_jobs`
  | popped (i : Nat)     -- … or be the tracker `i` the caller has in its hands
  | free                 -- before the reset of the flags / after `_raise_error_fast` took its decision / on the way out
deriving DecidableEq

def Pc.ecls : Pc → ECls
  | .popRel i | .resStatus i | .toAcq2 i _ => .popped i
  | .resetAcq | .resetRel | .wNDisp | .wNComp | .wExc0 | .wAbort0 => .free
  | .refRel _ | .refStatus _ | .excW _ | .abortW _ | .abortCall _ | .finExc _ | .finJobsR _ | .finJobsW _ _
  | .finSetW _ _ | .tailStatus _ _ | .done => .free
  | _ => .need

def eOK (cl : ECls) (l : List Tracker) (jobs : List Nat) (ab : Bool) : Prop :=
  match cl with
  | .free => True
  | .need => ab = true → errIn l jobs
  | .popped i => ab = true → errIn l jobs ∨ stErr l i

structure EInv (s : St) : Prop where
  main : eOK s.pc.ecls s.trk s.jobs s.aborting
  ref : s.pc = .refAcq → s.aborting = true
  reg : ∀ i k, (s.pc = .toExcW i k ∨ s.pc = .toAbortW i k) → stErr s.trk i

theorem eInv_init : EInv init := by
  refine ⟨?_, ?_, ?_⟩ <;> simp [init, Pc.ecls, eOK]

/-- TASK_ERROR is final. -/
def SMono (l l' : List Tracker) : Prop := ∀ j, stErr l j → stErr l' j

theorem SMono.refl (l : List Tracker) : SMono l l := fun _ h => h

theorem SMono.trans {a b c : List Tracker} (h1 : SMono a b) (h2 : SMono b c) : SMono a c := fun j h => h2 j (h1 j h)

theorem smono_set (l : List Tracker) (i : Nat) (t : Tracker) (h : stErr l i → t.status = .error) :
    SMono l (l.set i t) := by
  intro j hj
  unfold stErr at *
  rw [getT_set]; split
  · rename_i hh; rw [hh.1] at hj; exact h hj
  · exact hj

theorem smono_append (l : List Tracker) (t : Tracker) : SMono l (l ++ [t]) := by
  intro j hj
  unfold stErr at *
  have hlt : j < l.length := by
    apply Classical.byContradiction; intro hn
    rw [getT_of_ge l j (by omega)] at hj; cases hj
  rw [getT_append_left _ _ _ hlt]; exact hj

theorem smono_dropParked (l : List Tracker) :
    SMono l (l.map (fun t => if t.pc == .parked then { t with pc := .dropped } else t)) := by
  intro j hj
  unfold stErr at *
  have hlt : j < l.length := by
    apply Classical.byContradiction; intro hn
    rw [getT_of_ge l j (by omega)] at hj; cases hj
  rw [getT_map _ _ _ hlt]; split <;> exact hj

theorem errIn_mono {l l' : List Tracker} {jobs : List Nat} (hm : SMono l l') (x : List Nat) (h : errIn l jobs) :
    errIn l' (jobs ++ x) := by
  obtain ⟨j, hj, he⟩ := h
  exact ⟨j, List.mem_append_left _ hj, hm j he⟩

theorem eOK_mono {cl : ECls} {l l' : List Tracker} {jobs : List Nat} {ab : Bool} (hm : SMono l l') (x : List Nat)
    (h : eOK cl l jobs ab) : eOK cl l' (jobs ++ x) ab := by
  cases cl with
  | free => trivial
  | need => intro ha; exact errIn_mono hm x (h ha)
  | popped i =>
    intro ha
    rcases h ha with h1 | h1
    · exact Or.inl (errIn_mono hm x h1)
    · exact Or.inr (hm i h1)

/-- Weakening of the class. -/
theorem eOK_weaken {cl cl' : ECls} {l : List Tracker} {jobs : List Nat} {ab : Bool} (h : eOK cl l jobs ab)
    (hc : cl' = cl ∨ cl' = .free ∨ (cl = .need ∧ ∃ i, cl' = .popped i)) : eOK cl' l jobs ab := by
  rcases hc with rfl | rfl | ⟨rfl, i, rfl⟩
  · exact h
  · trivial
  · intro ha; exact Or.inl (h ha)

/-- A move of the caller that keeps `_jobs`, `_aborting` and does not strengthen the class. -/
theorem EInv.move {s s' : St} (h : EInv s) (hm : SMono s.trk s'.trk) (hj : s'.jobs = s.jobs)
    (ha : s'.aborting = s.aborting)
    (hcl : s'.pc.ecls = s.pc.ecls ∨ s'.pc.ecls = .free ∨ (s.pc.ecls = .need ∧ ∃ i, s'.pc.ecls = .popped i))
    (href : s'.pc ≠ .refAcq) (hreg : ∀ i k, s'.pc ≠ .toExcW i k ∧ s'.pc ≠ .toAbortW i k) : EInv s' := by
  refine ⟨?_, fun e => absurd e href, fun i k e => ?_⟩
  · rw [hj, ha]
    have := eOK_mono hm [] h.main
    simp only [List.append_nil] at this
    exact eOK_weaken this hcl
  · rcases e with e | e
    · exact absurd e (hreg i k).1
    · exact absurd e (hreg i k).2

/-- A move into a program point of class `free`. -/
theorem EInv.toFree {s' : St} (hcl : s'.pc.ecls = .free) : EInv s' := by
  refine ⟨by rw [hcl]; trivial, ?_, ?_⟩
  · intro e; rw [e] at hcl; cases hcl
  · intro i k e; rcases e with e | e <;> rw [e] at hcl <;> cases hcl

theorem afterDispatch_efacts (c : Cfg) (k : DK) (r : Bool) :
    (afterDispatch c k r).ecls = .need ∧ afterDispatch c k r ≠ .refAcq ∧
    ∀ i k', afterDispatch c k r ≠ .toExcW i k' ∧ afterDispatch c k r ≠ .toAbortW i k' := by
  cases k <;> cases r <;> simp only [afterDispatch] <;> (try split) <;> simp [Pc.ecls]

theorem getStatusEntry_efacts (c : Cfg) (i : Nat) (k : GK) :
    (getStatusEntry c i k).ecls = .need ∧ getStatusEntry c i k ≠ .refAcq ∧
    ∀ i' k', getStatusEntry c i k ≠ .toExcW i' k' ∧ getStatusEntry c i k ≠ .toAbortW i' k' := by
  unfold getStatusEntry; split <;> simp [Pc.ecls]

theorem returnOrRaise_efacts (s : St) (i : Nat) :
    SMono s.trk (returnOrRaise s i).1.trk ∧ (returnOrRaise s i).1.jobs = s.jobs ∧
    (returnOrRaise s i).1.aborting = s.aborting ∧
    (∀ l, (returnOrRaise s i).2 = .ok l → ¬ stErr s.trk i) := by
  have hset : SMono s.trk (setTrk s i { getTrk s i with result := .none }).trk := by
    simp only [setTrk]; exact smono_set _ _ _ (fun h => h)
  unfold returnOrRaise
  simp only []
  cases hr : (getTrk s i).result with
  | none => exact ⟨SMono.refl _, rfl, rfl, fun l h => by cases h⟩
  | vals l0 =>
    simp only []
    split
    · exact ⟨hset, rfl, rfl, fun l h => by cases h⟩
    · rename_i hs
      refine ⟨hset, rfl, rfl, fun l _ he => ?_⟩
      unfold stErr at he
      apply hs
      have : (getTrk s i).status = .error := he
      rw [this]; rfl
  | exc e =>
    simp only []
    split <;> exact ⟨hset, rfl, rfl, fun l h => by cases h⟩

theorem SameBut.eview {s s1 : St} (h : SameBut s s1) :
    s1.trk = s.trk ∧ s1.jobs = s.jobs ∧ s1.aborting = s.aborting := by
  unfold SameBut at h
  refine ⟨?_, ?_, ?_⟩ <;> rw [h]

/-- Effect of the locked region of `dispatch_one_batch` on what `EInv` reads (unordered mode): nothing, or an error
tracker is registered, appended to `_jobs`, and `_aborting` is set. -/
theorem DLCase.eview {c : Cfg} {bs : Nat} {s : St} {r : St × DRes} (h : DLCase c bs s r) (hra : c.ra = 2) :
    SMono s.trk r.1.trk ∧ ∃ x, r.1.jobs = s.jobs ++ x ∧
      ((r.1.aborting = s.aborting) ∨ errIn r.1.trk r.1.jobs) := by
  cases h with
  | ret s1 r h =>
    obtain ⟨a, b, d⟩ := h.eview
    exact ⟨a ▸ SMono.refl _, [], by simp [b], Or.inl d⟩
  | submit s1 tasks h hab =>
    obtain ⟨a, b, d⟩ := h.eview
    refine ⟨?_, [], ?_, Or.inl ?_⟩
    · simp only [registerNewJob, hra, beq_self_eq_true, if_true, a]; exact smono_append _ _
    · simp [registerNewJob, hra, b]
    · simp [registerNewJob, hra, d]
  | iterr s1 h hab =>
    obtain ⟨a, b, d⟩ := h.eview
    refine ⟨?_, [s.trk.length], ?_, Or.inr ?_⟩
    · simp only [registerIterError, registerNewJob, appendOutcome, hra, beq_self_eq_true, if_true, a]
      exact smono_append _ _
    · simp [registerIterError, registerNewJob, appendOutcome, hra, b, a]
    · refine ⟨s.trk.length, ?_, ?_⟩
      · simp [registerIterError, registerNewJob, appendOutcome, hra, b, a]
      · simp only [registerIterError, registerNewJob, appendOutcome, hra, beq_self_eq_true, if_true, a, stErr]
        rw [getT_append_length]

theorem stepCaller_einv (c : Cfg) (hra : c.ra = 2) (s : St) (h : EInv s) : EInv (stepCaller c s) := by
  cases hpc : s.pc
  case dAcq k bs =>
    unfold stepCaller
    simp only [hpc]
    have hd := (dispatchLocked_cases c 0 false bs { s with lockOwner := some 0, pc := .dIn k }).eview hra
    generalize dispatchLocked c 0 false bs { s with lockOwner := some 0, pc := .dIn k } = r at hd
    obtain ⟨s', x⟩ := r
    obtain ⟨h1, y, h2, h3⟩ := hd
    have hm := h.main
    rw [hpc] at hm
    simp only [Pc.ecls] at hm
    cases x <;>
    · refine ⟨?_, by simp, by simp⟩
      simp only [Pc.ecls, eOK]
      intro ha
      rcases h3 with h3 | h3
      · rw [h2]; exact errIn_mono h1 y (hm (h3 ▸ ha))
      · exact h3
  case popAcq =>
    have hm := h.main
    rw [hpc] at hm
    simp only [Pc.ecls, eOK] at hm
    unfold stepCaller
    simp only [hpc]
    split
    · exact EInv.toFree rfl
    · rename_i i rest hj
      simp only [hra]
      have key : s.aborting = true → errIn s.trk rest ∨ stErr s.trk i := by
        intro ha
        obtain ⟨j, hjm, he⟩ := hm ha
        rw [hj] at hjm
        simp only [List.mem_cons] at hjm
        rcases hjm with rfl | hjm
        · exact Or.inr he
        · exact Or.inl ⟨j, hjm, he⟩
      split
      · exact ⟨key, by simp, by simp⟩
      · split
        · exact ⟨key, by simp, by simp⟩
        · exact EInv.toFree rfl
  case resStatus i =>
    have hm := h.main
    rw [hpc] at hm
    simp only [Pc.ecls, eOK] at hm
    unfold stepCaller
    simp only [hpc]
    have hv := returnOrRaise_efacts s i
    generalize returnOrRaise s i = r at hv
    obtain ⟨s', x⟩ := r
    obtain ⟨h1, h2, h3, h4⟩ := hv
    cases x with
    | error e => exact EInv.toFree rfl
    | ok l =>
      obtain ⟨f1, _, _, _, _, f6⟩ := deliverVals_frame c s' i l
      have fa : (deliverVals c s' i l).aborting = s'.aborting := by
        unfold deliverVals; simp only; split <;> rfl
      refine ⟨?_, by simp, by simp⟩
      simp only [Pc.ecls, eOK]
      rw [f1, f6, fa, h2, h3]
      intro ha
      rcases hm ha with hh | hh
      · have := errIn_mono h1 [] hh
        simpa using this
      · exact absurd hh (h4 l rfl)
  case refStatus i =>
    unfold stepCaller
    simp only [hpc]
    generalize returnOrRaise s i = r
    obtain ⟨s', x⟩ := r
    cases x <;> exact EInv.toFree rfl
  case tailStatus i rem =>
    unfold stepCaller
    simp only [hpc]
    generalize returnOrRaise s i = r
    obtain ⟨s', x⟩ := r
    cases x with
    | error e => exact EInv.toFree rfl
    | ok l => cases rem <;> exact EInv.toFree rfl
  case finSetW e rem =>
    unfold stepCaller
    simp only [hpc]
    cases e with
    | some e => exact EInv.toFree rfl
    | none => cases rem <;> exact EInv.toFree rfl
  case refRel e =>
    unfold stepCaller
    cases e <;> simp only [hpc] <;> exact EInv.toFree rfl
  case wAbort0 =>
    unfold stepCaller
    simp only [hpc]
    exact ⟨by simp [Pc.ecls, eOK], by simp, by simp⟩
  case rtAbort =>
    have hm := h.main
    rw [hpc] at hm
    unfold stepCaller
    simp only [hpc]
    split
    · rename_i ha
      exact ⟨hm, fun _ => ha, by simp⟩
    · exact h.move (SMono.refl _) rfl rfl (Or.inl (by rw [hpc]; rfl)) (by simp) (by simp)
  case toStatus i k =>
    have hm := h.main
    rw [hpc] at hm
    unfold stepCaller
    simp only [hpc]
    split
    · rename_i hs
      refine ⟨hm, by simp, ?_⟩
      intro i' k' e
      simp only [Pc.toExcW.injEq, reduceCtorEq, or_false] at e
      rw [← e.1]
      simpa [stErr] using hs
    · simp only [hra]
      exact h.move (SMono.refl _) rfl rfl (Or.inr (Or.inr ⟨by rw [hpc]; rfl, i, rfl⟩)) (by simp) (by simp)
  case toExcW i k =>
    have hm := h.main
    have hr := h.reg i k (Or.inl hpc)
    rw [hpc] at hm
    unfold stepCaller
    simp only [hpc]
    refine ⟨hm, by simp, ?_⟩
    intro i' k' e
    simp only [reduceCtorEq, Pc.toAbortW.injEq, false_or] at e
    rw [← e.1]; exact hr
  case toAbortW i k =>
    have hr := h.reg i k (Or.inr hpc)
    unfold stepCaller
    simp only [hpc, hra]
    exact ⟨fun _ => Or.inr hr, by simp, by simp⟩
  case toAcq2 i k =>
    have hm := h.main
    rw [hpc] at hm
    simp only [Pc.ecls, eOK] at hm
    unfold stepCaller
    simp only [hpc, appendOutcome, hra]
    refine ⟨?_, by simp, by simp⟩
    simp only [Pc.ecls, eOK]
    intro ha
    rcases hm ha with hh | hh
    · exact errIn_mono (SMono.refl _) [i] hh
    · exact ⟨i, by simp, hh⟩
  case dIn k => unfold stepCaller; simp only [hpc]; exact h
  case done => unfold stepCaller; simp only [hpc]; exact h
  case resetAcq =>
    unfold stepCaller; simp only [hpc]
    split <;> exact EInv.toFree rfl
  all_goals
    unfold stepCaller
    simp only [hpc]
  all_goals repeat' split
  all_goals first
    | exact EInv.toFree rfl
    | (refine h.move ?_ rfl rfl ?_ ?_ ?_ <;> first
        | exact SMono.refl _
        | (simp only [setTrk]; exact smono_set _ _ _ (fun hh => hh))
        | (simp only [setTrk]; exact smono_set _ _ _ (fun _ => rfl))
        | (simp only [doSubmit, setCb, setTrk, ev]; exact smono_set _ _ _ (fun hh => hh))
        | (simp only [ev, dropParked]; split <;> first | exact smono_dropParked _ | exact SMono.refl _)
        | (rw [hpc]; simp [Pc.ecls]; done)
        | (rw [hpc, (afterDispatch_efacts _ _ _).1]; simp [Pc.ecls]; done)
        | (rw [hpc, (getStatusEntry_efacts _ _ _).1]; simp [Pc.ecls]; done)
        | exact (afterDispatch_efacts _ _ _).2.1
        | exact (afterDispatch_efacts _ _ _).2.2
        | exact (getStatusEntry_efacts _ _ _).2.1
        | exact (getStatusEntry_efacts _ _ _).2.2
        | (simp; done))

/-! ### the other threads -/

/-- A step of another thread as seen by `EInv`. -/
structure EFrame (s s' : St) : Prop where
  mono : SMono s.trk s'.trk
  jobs : ∃ x, s'.jobs = s.jobs ++ x
  ab : s'.aborting = s.aborting ∨ errIn s'.trk s'.jobs
  up : s.aborting = true → s'.aborting = true

theorem EFrame.refl (s : St) : EFrame s s := ⟨SMono.refl _, ⟨[], by simp⟩, Or.inl rfl, id⟩

theorem EFrame.trans {a b c : St} (h1 : EFrame a b) (h2 : EFrame b c) : EFrame a c := by
  obtain ⟨x, hx⟩ := h1.jobs
  obtain ⟨y, hy⟩ := h2.jobs
  refine ⟨h1.mono.trans h2.mono, ⟨x ++ y, by rw [hy, hx]; simp⟩, ?_, fun e => h2.up (h1.up e)⟩
  rcases h2.ab with e2 | e2
  · rcases h1.ab with e1 | e1
    · exact Or.inl (e2.trans e1)
    · right; rw [hy]; exact errIn_mono h2.mono y e1
  · exact Or.inr e2

/-- A state that differs from `s` in fields `EInv` does not read. -/
theorem eframe_of_same {s s0 : St} (h1 : s0.trk = s.trk) (h2 : s0.jobs = s.jobs) (h3 : s0.aborting = s.aborting) :
    EFrame s s0 :=
  ⟨h1 ▸ SMono.refl _, ⟨[], by simp [h2]⟩, Or.inl h3, fun e => h3 ▸ e⟩

theorem EInv.frame {s s' : St} (h : EInv s) (f : EFrame s s') (hp : s'.pc = s.pc) : EInv s' := by
  obtain ⟨x, hx⟩ := f.jobs
  refine ⟨?_, ?_, ?_⟩
  · rw [hp]
    rcases f.ab with e | e
    · rw [hx, e]; exact eOK_mono f.mono x h.main
    · cases hc : s.pc.ecls with
      | free => trivial
      | need => intro _; exact e
      | popped i => intro _; exact Or.inl e
  · intro e; exact f.up (h.ref (hp ▸ e))
  · intro i k e; exact f.mono i (h.reg i k (hp ▸ e))

theorem eframe_setTrk (s : St) (i : Nat) (t : Tracker) (hs : stErr s.trk i → t.status = .error) :
    EFrame s (setTrk s i t) :=
  ⟨smono_set _ _ _ hs, ⟨[], by simp [setTrk]⟩, Or.inl rfl, id⟩

theorem setCb_eframe (s : St) (i : Nat) (p : CbPc) : EFrame s (setCb s i p) := eframe_setTrk s i _ (fun h => h)

theorem setCb_eframe' {s : St} (s0 : St) (i : Nat) (p : CbPc) (h1 : s0.trk = s.trk) (h2 : s0.jobs = s.jobs)
    (h3 : s0.aborting = s.aborting) : EFrame s (setCb s0 i p) :=
  (eframe_of_same h1 h2 h3).trans (setCb_eframe s0 i p)

theorem cbAfterDispatch_eframe (i : Nat) (s : St) (r : Bool) : EFrame s (cbAfterDispatch i s r) := by
  unfold cbAfterDispatch
  split
  · exact setCb_eframe' _ i .relC rfl rfl rfl
  · exact setCb_eframe' _ i .relC rfl rfl rfl

theorem DLCase.eframe {c : Cfg} {bs : Nat} {s : St} {r : St × DRes} (h : DLCase c bs s r) (hra : c.ra = 2) :
    EFrame s r.1 := by
  obtain ⟨h1, x, h2, h3⟩ := h.eview hra
  refine ⟨h1, ⟨x, h2⟩, h3, ?_⟩
  cases h with
  | ret s1 r h => intro e; rw [h.eview.2.2]; exact e
  | submit s1 tasks h hab => intro e; rw [hab] at e; cases e
  | iterr s1 h hab => intro e; rw [hab] at e; cases e

theorem cbDispatchResult_eframe {c : Cfg} {bs : Nat} {s : St} (i : Nat) {r : St × DRes} (hd : DLCase c bs s r)
    (hra : c.ra = 2) : EFrame s (cbDispatchResult i r) := by
  have h1 : EFrame s r.1 := hd.eframe hra
  obtain ⟨s', x⟩ := r
  cases x with
  | submit j => exact h1.trans (setCb_eframe s' i _)
  | ret b => exact h1.trans (cbAfterDispatch_eframe i s' b)

theorem stepCb_eframe (c : Cfg) (hra : c.ra = 2) (i : Nat) (s : St) : EFrame s (stepCb c i s) := by
  cases hpc : (getT s.trk i).pc
  case acqA =>
    simp only [stepCb, getTrk_def, hpc]
    exact ite_prop (P := EFrame s) (fun _ => setCb_eframe s i _)
      (fun _ => ite_prop (P := EFrame s) (fun _ => setCb_eframe s i _)
        (fun _ => setCb_eframe' _ i _ rfl rfl rfl))
  case retr =>
    have hlt : i < s.trk.length := lt_of_pc_ne_idle _ _ (by rw [hpc]; simp)
    simp only [stepCb, getTrk_def, hpc]
    refine ite_prop (P := EFrame s) (fun _ => setCb_eframe' _ i _ rfl rfl rfl) (fun hpend => ?_)
    have hnot : ¬ stErr s.trk i := by
      intro he
      apply hpend
      unfold stErr at he
      rw [he]; rfl
    cases (getT s.trk i).failed with
    | some id =>
      simp only [appendOutcome, hra, beq_self_eq_true, if_true, setTrk]
      refine ⟨smono_set _ _ _ (fun _ => rfl), ⟨[i], rfl⟩, Or.inr ?_, fun _ => rfl⟩
      refine ⟨i, by simp, ?_⟩
      unfold stErr
      rw [getT_set, if_pos ⟨rfl, hlt⟩]
    | none =>
      simp only [appendOutcome, hra, beq_self_eq_true, if_true, setTrk]
      exact ⟨smono_set _ _ _ (fun he => absurd he hnot), ⟨[i], rfl⟩, Or.inl rfl, id⟩
  case acqC =>
    simp only [stepCb, getTrk_def, hpc]
    refine ite_prop (P := EFrame s) (fun _ => ?_) (fun _ => setCb_eframe' _ i _ rfl rfl rfl)
    have h0 : EFrame s (setCb { s with lockOwner := some (i + 1), nCompleted := s.nCompleted + (getT s.trk i).bsize } i .bsC) :=
      setCb_eframe' _ i .bsC rfl rfl rfl
    refine ite_prop (P := EFrame s) (fun _ => ?_) (fun _ => ite_prop (P := EFrame s) (fun _ => h0) (fun _ => ?_))
    · exact h0.trans (cbAfterDispatch_eframe i _ false)
    · exact h0.trans (cbDispatchResult_eframe i (dispatchLocked_cases c (i + 1) true _ _) hra)
  case bsC =>
    simp only [stepCb, getTrk_def, hpc]
    exact EFrame.trans (b := { s with bsI := s.bsI + 1 }) (eframe_of_same rfl rfl rfl)
      (cbDispatchResult_eframe i (dispatchLocked_cases c (i + 1) true _ _) hra)
  case submitC j =>
    simp only [stepCb, getTrk_def, hpc]
    refine EFrame.trans (b := doSubmit (i + 1) j (setCb s i .bsC)) ?_ (cbAfterDispatch_eframe i _ true)
    exact (setCb_eframe s i .bsC).trans (setCb_eframe' (ev (setCb s i .bsC) _) j .parked rfl rfl rfl)
  all_goals
    simp only [stepCb, getTrk_def, hpc]
    first | exact EFrame.refl s | exact setCb_eframe s i _

theorem step_einv (c : Cfg) (hra : c.ra = 2) (s : St) (h : EInv s) (a : Act) : EInv (step c s a) := by
  cases a with
  | thread t =>
    cases t with
    | zero =>
      simp only [step]
      split
      · exact stepCaller_einv c hra s h
      · exact h
    | succ i =>
      simp only [step]
      split
      · exact h.frame (stepCb_eframe c hra i s) (stepCb_pc c i s)
      · exact h
  | complete k =>
    simp only [step]
    split
    · refine h.frame (s' := complete c _ s) ?_ rfl
      simp only [complete]
      exact (eframe_of_same (s := s) (s0 := ev s _) rfl rfl rfl).trans (eframe_setTrk (ev s _) _ _ (fun hh => hh))
    · exact h

theorem run_einv (c : Cfg) (hra : c.ra = 2) (sched : List Act) : ∀ s, EInv s → EInv (run c s sched) := by
  induction sched with
  | nil => intro s h; exact h
  | cons a r ih => intro s h; exact ih _ (step_einv c hra s h a)

/-- The scan of `_raise_error_fast` finds the first job with status TASK_ERROR whenever there is one. -/
theorem firstErrorJob_of_errIn (s : St) : ∀ jobs, errIn s.trk jobs →
    ∃ j, firstErrorJob s jobs = some j ∧ j ∈ jobs ∧ stErr s.trk j := by
  intro jobs
  induction jobs with
  | nil => rintro ⟨j, hj, _⟩; cases hj
  | cons a r ih =>
    rintro ⟨j, hj, he⟩
    simp only [firstErrorJob, getTrk_def]
    by_cases ha : (getT s.trk a).status = .error
    · refine ⟨a, ?_, by simp, ha⟩
      simp [ha]
    · simp only [List.mem_cons] at hj
      rcases hj with rfl | hj
      · exact absurd he ha
      · obtain ⟨j', e1, e2, e3⟩ := ih ⟨j, hj, he⟩
        refine ⟨j', ?_, by simp [e2], e3⟩
        have : ((getT s.trk a).status == Status.error) = false := by simpa using ha
        simp [this, e1]

end JoblibModel.ParallelLockU
