import JoblibProofs.Lemmas.ParallelLockU.LockSteps
/-!
M1LU proofs — the ORDER invariant of `return_as='generator_unordered'` (`Cfg.ra = 2`): the trackers whose values were
handed to the consumer (`delivered`), then the tracker just popped, then the queue `_jobs` are — in this order — the
sequence of `_jobs.append` calls of `_register_outcome` (`appended`, the registration order of completions); on the
error path and after the `finally` block re-bound `_jobs` only the prefix property remains (`delivered ++ what is still
to be yielded` is a prefix of `appended`).
-/
namespace JoblibModel.ParallelLockU
open JoblibModel.ParallelLock (Tid Status CbPc DK DRes Act chunks)

/-- Class of a program point of the caller with respect to the order invariant. -/
inductive Cls where
  | A (infl : List Nat)      -- in the loop; `infl` = the tracker popped but not yet delivered
  | B (needExc : Bool)       -- on the way out through `except BaseException`
  | C (rest : List Nat)      -- `_remaining_outputs` fixed: what is still to be yielded
deriving DecidableEq

def Pc.cls : Pc → Cls
  | .popRel i | .resStatus i => .A [i]
  | .excW _ => .B false
  | .abortW _ | .abortCall _ | .finExc (some _) => .B true
  | .finJobsW _ rem | .finSetW _ rem => .C rem
  | .tailStatus i rem => .C (i :: rem)
  | .done => .C []
  | _ => .A []

def ordOK (cl : Cls) (jobs appended delivered : List Nat) (exc : Bool) : Prop :=
  match cl with
  | .A infl => delivered ++ infl ++ jobs = appended
  | .B ne => delivered <+: appended ∧ (ne = true → exc = true)
  | .C rest => (delivered ++ rest) <+: appended

def OrdInv (s : St) : Prop := ordOK s.pc.cls s.jobs s.appended s.delivered s.exception

theorem ordInv_init : OrdInv init := by
  simp [OrdInv, init, Pc.cls, ordOK]

/-- Another thread appends `x` to `_jobs` (and to the ghost `appended`); flags only go up. -/
theorem ordOK_append {cl : Cls} {jobs app del : List Nat} {exc exc' : Bool} (h : ordOK cl jobs app del exc)
    (x : List Nat) (he : exc = true → exc' = true) : ordOK cl (jobs ++ x) (app ++ x) del exc' := by
  cases cl with
  | A infl => simp only [ordOK] at h ⊢; rw [← h]; simp
  | B ne => exact ⟨List.IsPrefix.trans h.1 (List.prefix_append _ _), fun hn => he (h.2 hn)⟩
  | C rest => exact List.IsPrefix.trans h (List.prefix_append _ _)

theorem ordOK_exc {cl : Cls} {jobs app del : List Nat} {exc exc' : Bool} (h : ordOK cl jobs app del exc)
    (he : exc = true → exc' = true) : ordOK cl jobs app del exc' := by
  have := ordOK_append h [] he
  simpa using this

/-- From the loop to the error path / to the end: only the prefix is kept. -/
theorem ordOK_A_prefix {infl jobs app del : List Nat} {exc : Bool} (h : ordOK (.A infl) jobs app del exc) :
    del <+: app := ⟨infl ++ jobs, by simpa [ordOK] using h⟩

theorem afterDispatch_cls (c : Cfg) (k : DK) (r : Bool) : (afterDispatch c k r).cls = .A [] := by
  cases k <;> cases r <;> simp only [afterDispatch] <;> (try split) <;> rfl

theorem getStatusEntry_cls (c : Cfg) (i : Nat) (k : GK) : (getStatusEntry c i k).cls = .A [] := by
  unfold getStatusEntry; split <;> rfl

/-- What the order invariant reads. -/
structure OView (s s' : St) : Prop where
  jobs : s'.jobs = s.jobs
  app : s'.appended = s.appended
  del : s'.delivered = s.delivered
  exc : s'.exception = s.exception

theorem OView.refl (s : St) : OView s s := ⟨rfl, rfl, rfl, rfl⟩

theorem returnOrRaise_oview (s : St) (i : Nat) : OView s (returnOrRaise s i).1 := by
  unfold returnOrRaise
  simp only
  split
  · exact OView.refl s
  · split <;> exact ⟨rfl, rfl, rfl, rfl⟩
  · split <;> exact ⟨rfl, rfl, rfl, rfl⟩

theorem SameBut.oview {s s1 : St} (h : SameBut s s1) : OView s s1 := by
  unfold SameBut at h
  refine ⟨?_, ?_, ?_, ?_⟩ <;> rw [h]

/-- Effect of the locked region of `dispatch_one_batch` on what the order invariant reads (unordered mode). -/
theorem DLCase.ord {c : Cfg} {bs : Nat} {s : St} {r : St × DRes} (h : DLCase c bs s r) (hra : c.ra = 2) :
    ∃ x, r.1.jobs = s.jobs ++ x ∧ r.1.appended = s.appended ++ x ∧ r.1.delivered = s.delivered ∧
      (s.exception = true → r.1.exception = true) := by
  cases h with
  | ret s1 r h =>
    have v := h.oview
    exact ⟨[], by simp [v.jobs], by simp [v.app], v.del, fun e => by rw [v.exc]; exact e⟩
  | submit s1 tasks h hab =>
    have v := h.oview
    refine ⟨[], ?_, ?_, ?_, ?_⟩ <;> simp [registerNewJob, hra, v.jobs, v.app, v.del, v.exc]
  | iterr s1 h hab =>
    have v := h.oview
    have e : s1.trk = s.trk := by unfold SameBut at h; rw [h]
    refine ⟨[s.trk.length], ?_, ?_, ?_, ?_⟩ <;>
      simp [registerIterError, registerNewJob, appendOutcome, hra, v.jobs, v.app, v.del, e]

theorem tailNext_cls (c : Cfg) (s : St) (rem : List Nat) :
    (tailNext c s rem).pc.cls = .C rem ∧ OView s (tailNext c s rem) := by
  cases rem with
  | nil =>
    unfold tailNext finishRet ev
    refine ⟨rfl, ?_, ?_, ?_, ?_⟩ <;> (simp only; split <;> rfl)
  | cons i r => exact ⟨rfl, rfl, rfl, rfl, rfl⟩

theorem deliverVals_frame (c : Cfg) (s : St) (i : Nat) (l : List Nat) :
    (deliverVals c s i l).jobs = s.jobs ∧ (deliverVals c s i l).appended = s.appended ∧
    (deliverVals c s i l).delivered = s.delivered ++ [i] ∧ (deliverVals c s i l).exception = s.exception ∧
    (deliverVals c s i l).out = s.out ++ l ∧ (deliverVals c s i l).trk = s.trk := by
  unfold deliverVals
  refine ⟨?_, ?_, ?_, ?_, ?_, ?_⟩ <;> (simp only; split <;> rfl)

theorem stepCaller_ord (c : Cfg) (hra : c.ra = 2) (s : St) (h : OrdInv s) : OrdInv (stepCaller c s) := by
  unfold OrdInv at h ⊢
  cases hpc : s.pc <;> rw [hpc] at h <;> simp only [Pc.cls] at h
  case dAcq k bs =>
    unfold stepCaller
    simp only [hpc]
    have hd := (dispatchLocked_cases c 0 false bs { s with lockOwner := some 0, pc := .dIn k }).ord hra
    generalize dispatchLocked c 0 false bs { s with lockOwner := some 0, pc := .dIn k } = r at hd
    obtain ⟨s', x⟩ := r
    obtain ⟨y, h1, h2, h3, h4⟩ := hd
    simp only at h1 h2 h3 h4
    cases x with
    | submit j =>
      simp only [Pc.cls]
      rw [h1, h2, h3]
      exact ordOK_append h y h4
    | ret r =>
      simp only [Pc.cls]
      rw [h1, h2, h3]
      exact ordOK_append h y h4
  case resStatus i =>
    unfold stepCaller
    simp only [hpc]
    have v := returnOrRaise_oview s i
    generalize returnOrRaise s i = r at v
    obtain ⟨s', x⟩ := r
    cases x with
    | error e =>
      simp only [Pc.cls, ordOK]
      rw [v.app, v.del]
      exact ⟨ordOK_A_prefix h, by simp⟩
    | ok l =>
      obtain ⟨f1, f2, f3, f4, _, _⟩ := deliverVals_frame c s' i l
      simp only [Pc.cls, ordOK]
      rw [f1, f2, f3, v.jobs, v.app, v.del]
      simpa [ordOK] using h
  case refStatus i =>
    unfold stepCaller
    simp only [hpc]
    have v := returnOrRaise_oview s i
    generalize returnOrRaise s i = r at v
    obtain ⟨s', x⟩ := r
    cases x with
    | error e =>
      simp only [Pc.cls, ordOK]
      rw [v.app, v.del]
      exact ⟨ordOK_A_prefix h, by simp⟩
    | ok l =>
      simp only [Pc.cls, ordOK]
      rw [v.jobs, v.app, v.del]
      simpa [ordOK] using h
  case tailStatus i rem =>
    unfold stepCaller
    simp only [hpc]
    have v := returnOrRaise_oview s i
    generalize returnOrRaise s i = r at v
    obtain ⟨s', x⟩ := r
    simp only [ordOK] at h
    cases x with
    | error e =>
      simp only [finishRaise, ev, Pc.cls, ordOK]
      rw [v.app, v.del]
      have : s.delivered <+: s.appended := (List.prefix_append _ _).trans h
      simpa using this
    | ok l =>
      obtain ⟨f1, f2, f3, f4, _, _⟩ := deliverVals_frame c s' i l
      obtain ⟨g1, g2⟩ := tailNext_cls c (deliverVals c s' i l) rem
      simp only
      rw [g1, g2.app, g2.del, f2, f3, v.app, v.del]
      simpa [ordOK] using h
  case finSetW e rem =>
    unfold stepCaller
    simp only [hpc]
    simp only [ordOK] at h
    cases e with
    | some e =>
      simp only [finishRaise, ev, Pc.cls, ordOK]
      have : s.delivered <+: s.appended := (List.prefix_append _ _).trans h
      simpa using this
    | none =>
      cases rem with
      | nil =>
        simp only [tailNext, finishRet, ev]
        split <;> simpa [Pc.cls, ordOK] using h
      | cons i r => simpa [tailNext, Pc.cls, ordOK] using h
  case refRel e =>
    unfold stepCaller
    cases e <;> simp only [hpc] <;> simpa [Pc.cls] using h
  case finExc e =>
    unfold stepCaller
    simp only [hpc]
    cases e with
    | none =>
      split
      · simp only [Pc.cls, ordOK]; simpa using ordOK_A_prefix h
      · simpa [Pc.cls] using h
    | some e =>
      have hex : s.exception = true := h.2 rfl
      simp only [hex, if_true, Pc.cls, ordOK]
      simpa using h.1
  all_goals
    unfold stepCaller
    simp only [hpc]
  all_goals repeat' split
  all_goals try simp only [afterDispatch_cls, getStatusEntry_cls]
  all_goals first
    | (simpa [Pc.cls] using h)
    | (simp only [Pc.cls, setTrk, appendOutcome, hra, finishRaise, ev, ordOK,
         doSubmit, setCb, dropParked] at h ⊢; first | exact h | exact ⟨_, h⟩ | (rw [← h]; simp; done) | simp_all)

/-- Another thread's step as seen by the order invariant: something is appended to `_jobs` and to the ghost sequence,
`_exception` only goes up. -/
def AStep (s s' : St) : Prop :=
  ∃ x, s'.jobs = s.jobs ++ x ∧ s'.appended = s.appended ++ x ∧ s'.delivered = s.delivered ∧
    (s.exception = true → s'.exception = true)

theorem AStep.refl (s : St) : AStep s s := ⟨[], by simp, by simp, rfl, id⟩

theorem AStep.trans {a b c : St} (h1 : AStep a b) (h2 : AStep b c) : AStep a c := by
  obtain ⟨x, a1, a2, a3, a4⟩ := h1
  obtain ⟨y, b1, b2, b3, b4⟩ := h2
  exact ⟨x ++ y, by rw [b1, a1]; simp, by rw [b2, a2]; simp, by rw [b3, a3], fun e => b4 (a4 e)⟩

theorem AStep.of_oview {s s' : St} (v : OView s s') : AStep s s' :=
  ⟨[], by simp [v.jobs], by simp [v.app], v.del, fun e => by rw [v.exc]; exact e⟩

theorem AStep.ord {s s' : St} (h : AStep s s') (hp : s'.pc = s.pc) (hi : OrdInv s) : OrdInv s' := by
  obtain ⟨x, a1, a2, a3, a4⟩ := h
  unfold OrdInv at hi ⊢
  rw [hp, a1, a2, a3]
  exact ordOK_append hi x a4

theorem cbAfterDispatch_astep (i : Nat) (s : St) (r : Bool) : AStep s (cbAfterDispatch i s r) := by
  unfold cbAfterDispatch
  simp only [setCb, setTrk]
  split <;> exact AStep.of_oview ⟨rfl, rfl, rfl, rfl⟩

theorem cbDispatchResult_astep {c : Cfg} {bs : Nat} {s : St} (i : Nat) {r : St × DRes} (hd : DLCase c bs s r)
    (hra : c.ra = 2) : AStep s (cbDispatchResult i r) := by
  have h1 : AStep s r.1 := hd.ord hra
  obtain ⟨s', x⟩ := r
  cases x with
  | submit j => exact h1.trans (AStep.of_oview ⟨rfl, rfl, rfl, rfl⟩)
  | ret b => exact h1.trans (cbAfterDispatch_astep i s' b)

theorem appendOutcome_astep (c : Cfg) (hra : c.ra = 2) (i : Nat) (s : St) : AStep s (appendOutcome c i s) := by
  refine ⟨[i], ?_, ?_, ?_, ?_⟩ <;> simp [appendOutcome, hra]

theorem stepCb_astep (c : Cfg) (hra : c.ra = 2) (i : Nat) (s : St) : AStep s (stepCb c i s) := by
  cases hpc : (getT s.trk i).pc
  case acqA =>
    simp only [stepCb, getTrk_def, hpc]
    exact ite_prop (P := AStep s) (fun _ => AStep.of_oview ⟨rfl, rfl, rfl, rfl⟩)
      (fun _ => ite_prop (P := AStep s) (fun _ => AStep.of_oview ⟨rfl, rfl, rfl, rfl⟩)
        (fun _ => AStep.of_oview ⟨rfl, rfl, rfl, rfl⟩))
  case retr =>
    simp only [stepCb, getTrk_def, hpc]
    refine ite_prop (P := AStep s) (fun _ => AStep.of_oview ⟨rfl, rfl, rfl, rfl⟩) (fun _ => ?_)
    cases (getT s.trk i).failed with
    | some id =>
      simp only []
      refine AStep.trans (b := setTrk { s with lockOwner := none, exception := true, aborting := true } i _)
        ⟨[], by simp [setTrk], by simp [setTrk], rfl, fun _ => rfl⟩ (appendOutcome_astep c hra i _)
    | none =>
      simp only []
      exact AStep.trans (b := setTrk { s with lockOwner := none } i _) (AStep.of_oview ⟨rfl, rfl, rfl, rfl⟩)
        (appendOutcome_astep c hra i _)
  case acqC =>
    simp only [stepCb, getTrk_def, hpc]
    refine ite_prop (P := AStep s) (fun _ => ?_) (fun _ => AStep.of_oview ⟨rfl, rfl, rfl, rfl⟩)
    have h0 : AStep s (setCb { s with lockOwner := some (i + 1), nCompleted := s.nCompleted + (getT s.trk i).bsize } i .bsC) :=
      AStep.of_oview ⟨rfl, rfl, rfl, rfl⟩
    refine ite_prop (P := AStep s) (fun _ => ?_) (fun _ => ite_prop (P := AStep s) (fun _ => h0) (fun _ => ?_))
    · exact h0.trans (cbAfterDispatch_astep i _ false)
    · exact h0.trans (cbDispatchResult_astep i (dispatchLocked_cases c (i + 1) true _ _) hra)
  case bsC =>
    simp only [stepCb, getTrk_def, hpc]
    exact AStep.trans (b := { s with bsI := s.bsI + 1 }) (AStep.of_oview ⟨rfl, rfl, rfl, rfl⟩)
      (cbDispatchResult_astep i (dispatchLocked_cases c (i + 1) true _ _) hra)
  case submitC j =>
    simp only [stepCb, getTrk_def, hpc]
    exact AStep.trans (b := doSubmit (i + 1) j (setCb s i .bsC)) (AStep.of_oview ⟨rfl, rfl, rfl, rfl⟩)
      (cbAfterDispatch_astep i _ true)
  all_goals
    simp only [stepCb, getTrk_def, hpc]
    first | exact AStep.refl s | exact AStep.of_oview ⟨rfl, rfl, rfl, rfl⟩

theorem step_ord (c : Cfg) (hra : c.ra = 2) (s : St) (h : OrdInv s) (a : Act) : OrdInv (step c s a) := by
  cases a with
  | thread t =>
    cases t with
    | zero =>
      simp only [step]
      split
      · exact stepCaller_ord c hra s h
      · exact h
    | succ i =>
      simp only [step]
      split
      · exact (stepCb_astep c hra i s).ord (stepCb_pc c i s) h
      · exact h
  | complete k =>
    simp only [step]
    split
    · exact (AStep.of_oview (s' := complete c _ s) ⟨rfl, rfl, rfl, rfl⟩).ord rfl h
    · exact h

theorem run_ord (c : Cfg) (hra : c.ra = 2) (sched : List Act) : ∀ s, OrdInv s → OrdInv (run c s sched) := by
  induction sched with
  | nil => intro s h; exact h
  | cons a r ih => intro s h; exact ih _ (step_ord c hra s h a)

end JoblibModel.ParallelLockU
