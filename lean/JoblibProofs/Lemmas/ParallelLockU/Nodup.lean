import JoblibProofs.Lemmas.ParallelLockU.Bound
/-!
M1LU proofs — a tracker registers its outcome ONCE: the ghost `appended` (the sequence of `_jobs.append` calls of
`_register_outcome`) has no duplicates, and every tracker in it has left TASK_PENDING.
-/
namespace JoblibModel.ParallelLockU
open JoblibModel.ParallelLock (Tid Status CbPc DK DRes Act chunks)

def isPend (l : List Tracker) (i : Nat) : Prop := (getT l i).status = .pending

/-- The tracker for which the caller is in the middle of `_register_outcome(TimeoutError)`. -/
def Pc.regChain : Pc → Option Nat
  | .toRel i _ true | .toStatus i _ | .toExcW i _ | .toAbortW i _ | .toAcq2 i _ => some i
  | _ => none

structure NInv (s : St) : Prop where
  nodup : s.appended.Nodup
  np : ∀ i ∈ s.appended, ¬ isPend s.trk i
  reg : ∀ i, s.pc.regChain = some i → i ∉ s.appended ∧ ¬ isPend s.trk i

theorem nInv_init : NInv init := by
  refine ⟨?_, ?_, ?_⟩ <;> simp [init, Pc.regChain]

/-- A step as seen by `NInv`: trackers only leave TASK_PENDING; what is appended was pending before and is not after. -/
structure NFrame (s s' : St) : Prop where
  mono : ∀ i, ¬ isPend s.trk i → ¬ isPend s'.trk i
  app : ∃ x, s'.appended = s.appended ++ x ∧ x.Nodup ∧ ∀ i ∈ x, isPend s.trk i ∧ ¬ isPend s'.trk i

theorem NFrame.refl (s : St) : NFrame s s := ⟨fun _ h => h, ⟨[], by simp, by simp, by simp⟩⟩

theorem NFrame.trans {a b c : St} (h1 : NFrame a b) (h2 : NFrame b c) : NFrame a c := by
  obtain ⟨x, hx, nx, px⟩ := h1.app
  obtain ⟨y, hy, ny, py⟩ := h2.app
  refine ⟨fun i h => h2.mono i (h1.mono i h), ⟨x ++ y, by rw [hy, hx]; simp, ?_, ?_⟩⟩
  · rw [List.nodup_append]
    refine ⟨nx, ny, ?_⟩
    intro u hu v hv e
    subst e
    exact (px u hu).2 (py u hv).1
  · intro i hi
    simp only [List.mem_append] at hi
    rcases hi with hi | hi
    · exact ⟨(px i hi).1, h2.mono i (px i hi).2⟩
    · refine ⟨?_, (py i hi).2⟩
      apply Classical.byContradiction
      intro hn
      exact h1.mono i hn (py i hi).1

theorem NInv.frame {s s' : St} (h : NInv s) (f : NFrame s s') (hp : s'.pc = s.pc) : NInv s' := by
  obtain ⟨x, hx, nx, px⟩ := f.app
  refine ⟨?_, ?_, ?_⟩
  · rw [hx, List.nodup_append]
    refine ⟨h.nodup, nx, ?_⟩
    intro u hu v hv e
    subst e
    exact h.np u hu (px u hv).1
  · intro i hi
    rw [hx] at hi
    simp only [List.mem_append] at hi
    rcases hi with hi | hi
    · exact f.mono i (h.np i hi)
    · exact (px i hi).2
  · intro i hi
    rw [hp] at hi
    obtain ⟨r1, r2⟩ := h.reg i hi
    refine ⟨?_, f.mono i r2⟩
    rw [hx]
    simp only [List.mem_append, not_or]
    exact ⟨r1, fun hm => r2 (px i hm).1⟩

theorem nframe_of_same {s s0 : St} (h1 : s0.trk = s.trk) (h2 : s0.appended = s.appended) : NFrame s s0 :=
  ⟨fun _ h => h1 ▸ h, ⟨[], by simp [h2], by simp, by simp⟩⟩

theorem isPend_lt_or (l : List Tracker) (i : Nat) : ¬ isPend l i → i < l.length := by
  intro h
  apply Classical.byContradiction; intro hn
  apply h
  unfold isPend
  rw [getT_of_ge l i (by omega)]; rfl

/-- Rewriting tracker `i` so that it does not go back to TASK_PENDING. -/
theorem nframe_setTrk (s : St) (i : Nat) (t : Tracker) (hs : ¬ isPend s.trk i → t.status ≠ .pending) :
    NFrame s (setTrk s i t) := by
  refine ⟨?_, ⟨[], by simp [setTrk], by simp, by simp⟩⟩
  intro j hj
  simp only [setTrk]; unfold isPend at *
  rw [getT_set]; split
  · rename_i hh; rw [hh.1] at hj; exact hs hj
  · exact hj

theorem setCb_nframe (s : St) (i : Nat) (p : CbPc) : NFrame s (setCb s i p) :=
  nframe_setTrk s i _ (fun h => h)

theorem setCb_nframe' {s : St} (s0 : St) (i : Nat) (p : CbPc) (h1 : s0.trk = s.trk) (h2 : s0.appended = s.appended) :
    NFrame s (setCb s0 i p) :=
  (nframe_of_same h1 h2).trans (setCb_nframe s0 i p)

theorem cbAfterDispatch_nframe (i : Nat) (s : St) (r : Bool) : NFrame s (cbAfterDispatch i s r) := by
  unfold cbAfterDispatch
  split
  · exact setCb_nframe' _ i .relC rfl rfl
  · exact setCb_nframe' _ i .relC rfl rfl

theorem isPend_append_left (l : List Tracker) (t : Tracker) (i : Nat) (h : ¬ isPend l i) : ¬ isPend (l ++ [t]) i := by
  have hlt := isPend_lt_or l i h
  unfold isPend at *
  rw [getT_append_left _ _ _ hlt]; exact h

theorem DLCase.nframe {c : Cfg} {bs : Nat} {s : St} {r : St × DRes} (h : DLCase c bs s r) : NFrame s r.1 := by
  cases h with
  | ret s1 r h =>
    obtain ⟨a, _, _, _, f⟩ := h.bview
    exact nframe_of_same a f
  | submit s1 tasks h hab =>
    obtain ⟨a, _, _, _, f⟩ := h.bview
    unfold registerNewJob
    have : NFrame s ({ s1 with nDispTasks := s1.nDispTasks + tasks.length, trk := s1.trk ++ [newTracker s tasks] } : St) :=
      ⟨fun i hi => by simp only [a]; exact isPend_append_left _ _ _ hi, ⟨[], by simp [f], by simp, by simp⟩⟩
    split
    · exact this.trans (nframe_of_same rfl rfl)
    · exact this.trans (nframe_of_same rfl rfl)
  | iterr s1 h hab =>
    obtain ⟨a, _, _, _, f⟩ := h.bview
    unfold registerIterError appendOutcome registerNewJob
    have hm : ∀ i, ¬ isPend s.trk i → ¬ isPend (s1.trk ++ [errTracker s1 bs]) i := by
      intro i hi; rw [a]; exact isPend_append_left _ _ _ hi
    have hnew : isPend s.trk s.trk.length ∧ ¬ isPend (s1.trk ++ [errTracker s1 bs]) s.trk.length := by
      constructor
      · unfold isPend; rw [getT_of_ge _ _ (Nat.le_refl _)]; rfl
      · unfold isPend; rw [a, getT_append_length]; simp [errTracker]
    by_cases hra : (c.ra == 2) = true
    · simp only [hra, if_true]
      refine ⟨hm, ⟨[s.trk.length], by simp [f, a], by simp, ?_⟩⟩
      intro i hi
      simp only [List.mem_singleton] at hi
      subst hi; exact hnew
    · have hra' : (c.ra == 2) = false := by simpa using hra
      simp only [hra', Bool.false_eq_true, if_false]
      exact ⟨hm, ⟨[], by simp [f], by simp, by simp⟩⟩

theorem cbDispatchResult_nframe {c : Cfg} {bs : Nat} {s : St} (i : Nat) {r : St × DRes} (hd : DLCase c bs s r) :
    NFrame s (cbDispatchResult i r) := by
  have h1 : NFrame s r.1 := hd.nframe
  obtain ⟨s', x⟩ := r
  cases x with
  | submit j => exact h1.trans (setCb_nframe s' i _)
  | ret b => exact h1.trans (cbAfterDispatch_nframe i s' b)

/-- `_register_outcome` by the callback of tracker `i` (status was pending): status set, unordered: appended. -/
theorem register_nframe (c : Cfg) (i : Nat) (s : St) (t : Tracker) (hlt : i < s.trk.length) (hp : isPend s.trk i)
    (ht : t.status ≠ .pending) : NFrame s (appendOutcome c i (setTrk s i t)) := by
  have hnp : ¬ isPend (s.trk.set i t) i := by
    unfold isPend; rw [getT_set, if_pos ⟨rfl, hlt⟩]; exact ht
  have hm : ∀ j, ¬ isPend s.trk j → ¬ isPend (s.trk.set i t) j := by
    intro j hj
    unfold isPend at *
    rw [getT_set]; split
    · exact ht
    · exact hj
  unfold appendOutcome
  split
  · exact ⟨hm, ⟨[i], rfl, by simp, fun j hj => by simp only [List.mem_singleton] at hj; subst hj; exact ⟨hp, hnp⟩⟩⟩
  · exact ⟨hm, ⟨[], by simp [setTrk], by simp, by simp⟩⟩

theorem stepCb_nframe (c : Cfg) (i : Nat) (s : St) : NFrame s (stepCb c i s) := by
  cases hpc : (getT s.trk i).pc
  case acqA =>
    simp only [stepCb, getTrk_def, hpc]
    exact ite_prop (P := NFrame s) (fun _ => setCb_nframe s i _)
      (fun _ => ite_prop (P := NFrame s) (fun _ => setCb_nframe s i _)
        (fun _ => setCb_nframe' _ i _ rfl rfl))
  case retr =>
    have hlt : i < s.trk.length := lt_of_pc_ne_idle _ _ (by rw [hpc]; simp)
    simp only [stepCb, getTrk_def, hpc]
    refine ite_prop (P := NFrame s) (fun _ => setCb_nframe' _ i _ rfl rfl) (fun hpend => ?_)
    have hp : isPend s.trk i := by
      unfold isPend
      cases hs : (getT s.trk i).status
      · rfl
      · exfalso; apply hpend; rw [hs]; rfl
      · exfalso; apply hpend; rw [hs]; rfl
    cases (getT s.trk i).failed with
    | some id =>
      simp only []
      have a : NFrame s ({ s with lockOwner := none, exception := true, aborting := true } : St) :=
        nframe_of_same rfl rfl
      exact a.trans (register_nframe c i _ _ hlt hp (by simp))
    | none =>
      simp only []
      have a : NFrame s ({ s with lockOwner := none } : St) := nframe_of_same rfl rfl
      exact a.trans (register_nframe c i _ _ hlt hp (by simp))
  case acqC =>
    simp only [stepCb, getTrk_def, hpc]
    refine ite_prop (P := NFrame s) (fun _ => ?_) (fun _ => setCb_nframe' _ i _ rfl rfl)
    have h0 : NFrame s (setCb { s with lockOwner := some (i + 1), nCompleted := s.nCompleted + (getT s.trk i).bsize } i .bsC) :=
      setCb_nframe' _ i .bsC rfl rfl
    refine ite_prop (P := NFrame s) (fun _ => ?_) (fun _ => ite_prop (P := NFrame s) (fun _ => h0) (fun _ => ?_))
    · exact h0.trans (cbAfterDispatch_nframe i _ false)
    · exact h0.trans (cbDispatchResult_nframe i (dispatchLocked_cases c (i + 1) true _ _))
  case bsC =>
    simp only [stepCb, getTrk_def, hpc]
    exact NFrame.trans (b := { s with bsI := s.bsI + 1 }) (nframe_of_same rfl rfl)
      (cbDispatchResult_nframe i (dispatchLocked_cases c (i + 1) true _ _))
  case submitC j =>
    simp only [stepCb, getTrk_def, hpc]
    refine NFrame.trans (b := doSubmit (i + 1) j (setCb s i .bsC)) ?_ (cbAfterDispatch_nframe i _ true)
    exact (setCb_nframe s i .bsC).trans (setCb_nframe' (ev (setCb s i .bsC) _) j .parked rfl rfl)
  all_goals
    simp only [stepCb, getTrk_def, hpc]
    first | exact NFrame.refl s | exact setCb_nframe s i _

theorem afterDispatch_regChain (c : Cfg) (k : DK) (r : Bool) : (afterDispatch c k r).regChain = none := by
  cases k <;> cases r <;> simp only [afterDispatch] <;> (try split) <;> rfl

theorem getStatusEntry_regChain (c : Cfg) (i : Nat) (k : GK) : (getStatusEntry c i k).regChain = none := by
  unfold getStatusEntry; split <;> rfl

theorem returnOrRaise_nframe (s : St) (i : Nat) : NFrame s (returnOrRaise s i).1 := by
  have hset : NFrame s (setTrk s i { getTrk s i with result := .none }) := nframe_setTrk s i _ (fun h => h)
  unfold returnOrRaise
  simp only []
  split
  · exact NFrame.refl s
  · split <;> exact hset
  · split <;> exact hset

theorem deliverVals_nframe (c : Cfg) (s : St) (i : Nat) (l : List Nat) : NFrame s (deliverVals c s i l) := by
  unfold deliverVals
  simp only
  split <;> exact nframe_of_same rfl rfl

theorem tailNext_nfacts (c : Cfg) (s : St) (rem : List Nat) :
    (tailNext c s rem).pc.regChain = none ∧ NFrame s (tailNext c s rem) := by
  cases rem with
  | nil =>
    unfold tailNext finishRet ev
    refine ⟨rfl, ?_⟩
    simp only; split <;> exact nframe_of_same rfl rfl
  | cons i r => exact ⟨rfl, nframe_of_same rfl rfl⟩

/-- A step of the caller that ends outside `_register_outcome(TimeoutError)`. -/
theorem NInv.out {s s' : St} (h : NInv s) (f : NFrame s s') (hp : s'.pc.regChain = none) : NInv s' := by
  obtain ⟨x, hx, nx, px⟩ := f.app
  refine ⟨?_, ?_, fun i hi => by rw [hp] at hi; cases hi⟩
  · rw [hx, List.nodup_append]
    refine ⟨h.nodup, nx, ?_⟩
    intro u hu v hv e
    subst e
    exact h.np u hu (px u hv).1
  · intro i hi
    rw [hx] at hi
    simp only [List.mem_append] at hi
    rcases hi with hi | hi
    · exact f.mono i (h.np i hi)
    · exact (px i hi).2

/-- A step of the caller inside `_register_outcome(TimeoutError)` that keeps the tracker and appends nothing. -/
theorem NInv.stay {s s' : St} (h : NInv s) (f : NFrame s s') (ha : s'.appended = s.appended) (i : Nat)
    (hs : s.pc.regChain = some i) (hp : s'.pc.regChain = some i) : NInv s' := by
  obtain ⟨r1, r2⟩ := h.reg i hs
  refine ⟨ha ▸ h.nodup, fun j hj => f.mono j (h.np j (ha ▸ hj)), ?_⟩
  intro j hj
  rw [hp] at hj
  simp only [Option.some.injEq] at hj
  subst hj
  exact ⟨ha ▸ r1, f.mono _ r2⟩

theorem stepCaller_ninv (c : Cfg) (s : St) (hb : BInv s) (h : NInv s) : NInv (stepCaller c s) := by
  cases hpc : s.pc
  case dAcq k bs =>
    unfold stepCaller
    simp only [hpc]
    have hd := (dispatchLocked_cases c 0 false bs { s with lockOwner := some 0, pc := .dIn k }).nframe
    generalize dispatchLocked c 0 false bs { s with lockOwner := some 0, pc := .dIn k } = r at hd
    obtain ⟨s', x⟩ := r
    have hd' : NFrame s s' := (nframe_of_same (s := s) (s0 := { s with lockOwner := some 0, pc := .dIn k }) rfl rfl).trans hd
    cases x with
    | submit j => exact h.out (hd'.trans (nframe_of_same rfl rfl)) rfl
    | ret r => exact h.out (hd'.trans (nframe_of_same rfl rfl)) rfl
  case dSubmit k j =>
    unfold stepCaller
    simp only [hpc]
    refine h.out ?_ rfl
    have a : NFrame s (ev ({ s with pc := .dIn k } : St) (.submit 0 (getTrk { s with pc := .dIn k } j).items)) :=
      nframe_of_same rfl rfl
    exact (a.trans (setCb_nframe _ j .parked)).trans (nframe_of_same rfl rfl)
  case toAcq i k =>
    have hlt := hb.pc i (by rw [hpc]; rfl)
    unfold stepCaller
    simp only [hpc]
    split
    · exact h.out (nframe_of_same rfl rfl) rfl
    · rename_i hpend
      have hp : isPend s.trk i := by
        unfold isPend
        cases hs : (getTrk s i).status
        · exact hs
        · exfalso; apply hpend; rw [hs]; rfl
        · exfalso; apply hpend; rw [hs]; rfl
      have hni : i ∉ s.appended := fun hm => h.np i hm hp
      have f : NFrame s (setTrk s i { getTrk s i with status := .error }) := nframe_setTrk s i _ (fun _ => by simp)
      refine ⟨h.nodup, fun j hj => f.mono j (h.np j hj), ?_⟩
      intro j hj
      simp only [Pc.regChain, Option.some.injEq] at hj
      subst hj
      refine ⟨hni, ?_⟩
      simp only [setTrk]
      unfold isPend
      rw [getT_set, if_pos ⟨rfl, hlt⟩]
      simp
  case toRel i k reg =>
    unfold stepCaller
    simp only [hpc]
    cases reg with
    | false => simp only [Bool.false_eq_true, if_false]; exact h.out (nframe_of_same rfl rfl) rfl
    | true =>
      simp only [if_true]
      exact h.stay (NFrame.trans (b := setTrk s i { getTrk s i with result := .exc .timeout })
        (nframe_setTrk s i _ (fun hh => hh)) (nframe_of_same rfl rfl)) rfl i (by rw [hpc]; rfl) rfl
  case toStatus i k =>
    unfold stepCaller
    simp only [hpc]
    split
    · exact h.stay (nframe_of_same rfl rfl) rfl i (by rw [hpc]; rfl) rfl
    · split
      · exact h.out (nframe_of_same rfl rfl) rfl
      · exact h.stay (nframe_of_same rfl rfl) rfl i (by rw [hpc]; rfl) rfl
  case toExcW i k =>
    unfold stepCaller
    simp only [hpc]
    exact h.stay (nframe_of_same rfl rfl) rfl i (by rw [hpc]; rfl) rfl
  case toAbortW i k =>
    unfold stepCaller
    simp only [hpc]
    split
    · exact h.out (nframe_of_same rfl rfl) rfl
    · exact h.stay (nframe_of_same rfl rfl) rfl i (by rw [hpc]; rfl) rfl
  case toAcq2 i k =>
    obtain ⟨r1, r2⟩ := h.reg i (by rw [hpc]; rfl)
    unfold stepCaller
    simp only [hpc, appendOutcome]
    split
    · refine ⟨?_, ?_, fun j hj => by simp [Pc.regChain] at hj⟩
      · simp only
        rw [List.nodup_append]
        exact ⟨h.nodup, by simp, fun u hu v hv e => by simp only [List.mem_singleton] at hv; subst hv; subst e; exact r1 hu⟩
      · intro j hj
        simp only [List.mem_append, List.mem_singleton] at hj
        rcases hj with hj | hj
        · exact h.np j hj
        · subst hj; exact r2
    · exact h.out (nframe_of_same rfl rfl) rfl
  case resStatus i =>
    unfold stepCaller
    simp only [hpc]
    have hv := returnOrRaise_nframe s i
    generalize returnOrRaise s i = r at hv
    obtain ⟨s', x⟩ := r
    cases x with
    | error e => exact h.out (hv.trans (nframe_of_same rfl rfl)) rfl
    | ok l => exact h.out ((hv.trans (deliverVals_nframe c s' i l)).trans (nframe_of_same rfl rfl)) rfl
  case refStatus i =>
    unfold stepCaller
    simp only [hpc]
    have hv := returnOrRaise_nframe s i
    generalize returnOrRaise s i = r at hv
    obtain ⟨s', x⟩ := r
    cases x <;> exact h.out (hv.trans (nframe_of_same rfl rfl)) rfl
  case tailStatus i rem =>
    unfold stepCaller
    simp only [hpc]
    have hv := returnOrRaise_nframe s i
    generalize returnOrRaise s i = r at hv
    obtain ⟨s', x⟩ := r
    cases x with
    | error e => exact h.out (s' := finishRaise s' e) (hv.trans (nframe_of_same rfl rfl)) rfl
    | ok l =>
      obtain ⟨g0, g1⟩ := tailNext_nfacts c (deliverVals c s' i l) rem
      exact h.out ((hv.trans (deliverVals_nframe c s' i l)).trans g1) g0
  case finSetW e rem =>
    unfold stepCaller
    simp only [hpc]
    cases e with
    | some e => exact h.out (s' := finishRaise _ e) (nframe_of_same rfl rfl) rfl
    | none =>
      obtain ⟨g0, g1⟩ := tailNext_nfacts c { s with pc := Pc.finSetW none rem, jobsSet := [], running := false } rem
      exact h.out (NFrame.trans (b := { s with pc := Pc.finSetW none rem, jobsSet := [], running := false })
        (nframe_of_same rfl rfl) g1) g0
  case refRel e =>
    unfold stepCaller
    cases e <;> simp only [hpc] <;> exact h.out (nframe_of_same rfl rfl) rfl
  case abortCall e =>
    unfold stepCaller
    simp only [hpc, ev, dropParked]
    refine h.out ⟨?_, ⟨[], ?_, by simp, by simp⟩⟩ rfl
    · intro j hj
      simp only
      split
      · by_cases hl : j < s.trk.length
        · unfold isPend at *; rw [getT_map _ _ _ hl]; split <;> exact hj
        · exact absurd (isPend_lt_or _ _ hj) hl
      · exact hj
    · simp only; split <;> simp
  case dIn k => unfold stepCaller; simp only [hpc]; exact h
  case done => unfold stepCaller; simp only [hpc]; exact h
  case resetAcq =>
    unfold stepCaller
    simp only [hpc]
    split
    · exact h.out (s' := finishRaise s .runtime) (nframe_of_same rfl rfl) rfl
    · exact h.out (nframe_of_same rfl rfl) rfl
  case rtLen =>
    unfold stepCaller
    simp only [hpc]
    split
    · split <;> exact h.out (nframe_of_same rfl rfl) rfl
    · split
      · split
        · exact h.out (nframe_of_same rfl rfl) rfl
        · exact h.out (nframe_of_same rfl rfl) (getStatusEntry_regChain _ _ _)
      · split
        · exact h.out (nframe_of_same rfl rfl) rfl
        · rename_i j _
          exact h.out (NFrame.trans (b := setTrk s j { getTrk s j with tcnt := none })
            (nframe_setTrk s j _ (fun hh => hh)) (nframe_of_same rfl rfl)) rfl
  case gsStatus i k =>
    unfold stepCaller
    simp only [hpc]
    split
    · exact h.out (nframe_of_same rfl rfl) rfl
    · split <;>
        exact h.out (NFrame.trans (b := setTrk s i { getTrk s i with tcnt := some ((getTrk s i).tcnt.getD s.clock) })
          (nframe_setTrk s i _ (fun hh => hh)) (nframe_of_same rfl rfl)) rfl
  all_goals
    unfold stepCaller
    simp only [hpc]
  all_goals repeat' split
  all_goals
    refine h.out ?_ ?_
  all_goals first
    | rfl
    | exact afterDispatch_regChain _ _ _
    | exact getStatusEntry_regChain _ _ _
    | exact nframe_of_same rfl rfl

theorem step_ninv (c : Cfg) (s : St) (hb : BInv s) (h : NInv s) (a : Act) : NInv (step c s a) := by
  cases a with
  | thread t =>
    cases t with
    | zero =>
      simp only [step]
      split
      · exact stepCaller_ninv c s hb h
      · exact h
    | succ i =>
      simp only [step]
      split
      · exact h.frame (stepCb_nframe c i s) (stepCb_pc c i s)
      · exact h
  | complete k =>
    simp only [step]
    split
    · rename_i f _
      refine h.frame (s' := complete c f s) ?_ rfl
      simp only [complete]
      have a : NFrame s (ev s (.complete f (getTrk s f).items)) := nframe_of_same rfl rfl
      exact a.trans (nframe_setTrk _ f _ (fun hh => hh))
    · exact h

theorem run_bninv (c : Cfg) (sched : List Act) : ∀ s, BInv s → NInv s → BInv (run c s sched) ∧ NInv (run c s sched) := by
  induction sched with
  | nil => intro s hb h; exact ⟨hb, h⟩
  | cons a r ih => intro s hb h; exact ih _ (step_binv c s hb a) (step_ninv c s hb h a)

end JoblibModel.ParallelLockU
