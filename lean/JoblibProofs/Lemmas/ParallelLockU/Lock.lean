import JoblibProofs.Lemmas.ParallelLockU.Basic
/-!
M1LU proofs — the lock invariant `LockInv`: the lock is owned exactly by the thread that is inside a lock-protected
segment, the caller never parks at the marker `dIn`, every `pull` in the log was made by the lock owner.
Preserved by every action (`step_lockInv`).
-/
namespace JoblibModel.ParallelLockU
open JoblibModel.ParallelLock (Tid Status CbPc DK DRes Act chunks)

/-- The callback thread is inside a lock-protected segment (parked at a backend call while owning the lock). -/
def cbHolding : CbPc → Bool
  | .retr | .bsC | .submitC _ => true
  | _ => false

/-- The caller is inside a lock-protected segment. -/
def Pc.holding : Pc → Bool
  | .dSubmit _ _ | .dIn _ => true
  | _ => false

structure LockInv (s : St) : Prop where
  caller : s.pc.holding = true → s.lockOwner = some 0
  cb : ∀ i, cbHolding (getT s.trk i).pc = true → s.lockOwner = some (i + 1)
  own0 : s.lockOwner = some 0 → s.pc.holding = true
  ownCb : ∀ i, s.lockOwner = some (i + 1) → cbHolding (getT s.trk i).pc = true
  noIn : ∀ k, s.pc ≠ .dIn k
  logLocked : ∀ t id l, Ev.pull t id l ∈ s.log → l = true

theorem lockInv_init : LockInv init := by
  refine ⟨?_, ?_, ?_, ?_, ?_, ?_⟩ <;> simp [init, Pc.holding, getT, cbHolding] <;> rfl

/-- The part of the state the first four clauses talk about. -/
structure LView (s s' : St) : Prop where
  lock : s'.lockOwner = s.lockOwner
  pc : s'.pc.holding = s.pc.holding
  cb : ∀ j, cbHolding (getT s'.trk j).pc = cbHolding (getT s.trk j).pc

theorem LView.refl (s : St) : LView s s := ⟨rfl, rfl, fun _ => rfl⟩

theorem LView.trans {a b c : St} (h1 : LView a b) (h2 : LView b c) : LView a c :=
  ⟨h2.lock.trans h1.lock, h2.pc.trans h1.pc, fun j => (h2.cb j).trans (h1.cb j)⟩

/-- The first four clauses only. -/
structure LockCore (s : St) : Prop where
  caller : s.pc.holding = true → s.lockOwner = some 0
  cb : ∀ i, cbHolding (getT s.trk i).pc = true → s.lockOwner = some (i + 1)
  own0 : s.lockOwner = some 0 → s.pc.holding = true
  ownCb : ∀ i, s.lockOwner = some (i + 1) → cbHolding (getT s.trk i).pc = true

theorem LockInv.core {s : St} (h : LockInv s) : LockCore s := ⟨h.caller, h.cb, h.own0, h.ownCb⟩

theorem LockCore.view {s s' : St} (h : LockCore s) (v : LView s s') : LockCore s' := by
  refine ⟨?_, ?_, ?_, ?_⟩
  · intro hp; rw [v.lock]; exact h.caller (v.pc ▸ hp)
  · intro i hi; rw [v.lock]; exact h.cb i (v.cb i ▸ hi)
  · intro ho; rw [v.pc]; exact h.own0 (v.lock ▸ ho)
  · intro i ho; rw [v.cb]; exact h.ownCb i (v.lock ▸ ho)

/-- With a free lock nobody is inside a segment. -/
theorem LockCore.free {s : St} (h : LockCore s) (hf : s.lockOwner = none) :
    s.pc.holding = false ∧ ∀ i, cbHolding (getT s.trk i).pc = false := by
  constructor
  · cases hp : s.pc.holding
    · rfl
    · have := h.caller hp; rw [hf] at this; cases this
  · intro i
    cases hp : cbHolding (getT s.trk i).pc
    · rfl
    · have := h.cb i hp; rw [hf] at this; cases this

/-- The caller takes the free lock and parks inside the segment. -/
theorem LockCore.callerAcquire {s s' : St} (h : LockCore s) (hf : s.lockOwner = none)
    (hl : s'.lockOwner = some 0) (hp : s'.pc.holding = true)
    (hc : ∀ j, cbHolding (getT s'.trk j).pc = cbHolding (getT s.trk j).pc) : LockCore s' := by
  have ⟨_, f2⟩ := h.free hf
  refine ⟨fun _ => hl, ?_, fun _ => hp, ?_⟩
  · intro i hi; rw [hc, f2] at hi; cases hi
  · intro i ho; rw [hl] at ho; cases ho

/-- The lock is free again and nobody is inside a segment. -/
theorem LockCore.released {s' : St} (hl : s'.lockOwner = none) (hp : s'.pc.holding = false)
    (hc : ∀ j, cbHolding (getT s'.trk j).pc = false) : LockCore s' := by
  refine ⟨?_, ?_, ?_, ?_⟩
  · intro h; rw [hp] at h; cases h
  · intro i h; rw [hc] at h; cases h
  · intro h; rw [hl] at h; cases h
  · intro i h; rw [hl] at h; cases h

/-- Callback `i` owns the lock: nobody else is inside a segment. -/
theorem LockCore.others {s : St} (h : LockCore s) {i : Nat} (ho : s.lockOwner = some (i + 1)) :
    s.pc.holding = false ∧ ∀ j, j ≠ i → cbHolding (getT s.trk j).pc = false := by
  constructor
  · cases hp : s.pc.holding
    · rfl
    · have := h.caller hp; rw [ho] at this; cases this
  · intro j hj
    cases hp : cbHolding (getT s.trk j).pc
    · rfl
    · have := h.cb j hp; rw [ho] at this
      simp only [Option.some.injEq, Nat.add_right_cancel_iff] at this
      exact absurd this.symm hj

/-- The caller owns the lock: no callback is inside a segment. -/
theorem LockCore.others0 {s : St} (h : LockCore s) (ho : s.lockOwner = some 0) :
    ∀ j, cbHolding (getT s.trk j).pc = false := by
  intro j
  cases hp : cbHolding (getT s.trk j).pc
  · rfl
  · have := h.cb j hp; rw [ho] at this; cases this

/-- Callback `i` is the owner and parks inside the segment. -/
theorem LockCore.cbOwner {s' : St} {i : Nat} (hl : s'.lockOwner = some (i + 1)) (hp : s'.pc.holding = false)
    (hi : cbHolding (getT s'.trk i).pc = true) (hc : ∀ j, j ≠ i → cbHolding (getT s'.trk j).pc = false) :
    LockCore s' := by
  refine ⟨?_, ?_, ?_, ?_⟩
  · intro h; rw [hp] at h; cases h
  · intro j h
    by_cases e : j = i
    · subst e; exact hl
    · rw [hc j e] at h; cases h
  · intro h; rw [hl] at h; cases h
  · intro j h
    rw [hl] at h
    simp only [Option.some.injEq, Nat.add_right_cancel_iff] at h
    subst h; exact hi

/-! ### effect of the building blocks on the tracker pcs -/

theorem pc_set_same (l : List Tracker) (i j : Nat) (t : Tracker) (h : t.pc = (getT l i).pc) :
    (getT (l.set i t) j).pc = (getT l j).pc := by
  rw [getT_set]
  split
  · rename_i hh; rw [hh.1]; exact h
  · rfl

theorem pc_append (l : List Tracker) (t : Tracker) (j : Nat) (h : t.pc = .idle) :
    (getT (l ++ [t]) j).pc = (getT l j).pc := by
  rw [getT_append]
  split
  · rfl
  · rename_i h1
    rw [getT_of_ge l j (by omega)]
    split
    · exact h
    · rfl

theorem hold_set (l : List Tracker) (i j : Nat) (t : Tracker) :
    cbHolding (getT (l.set i t) j).pc =
      if j = i ∧ i < l.length then cbHolding t.pc else cbHolding (getT l j).pc := by
  rw [getT_set]; split <;> rfl

theorem hold_set_ne (l : List Tracker) (i j : Nat) (t : Tracker) (h : j ≠ i) :
    cbHolding (getT (l.set i t) j).pc = cbHolding (getT l j).pc := by
  rw [hold_set]; simp [h]

/-- Replacing the pc of tracker `i` by a pc of the same kind (inside / outside a segment). -/
theorem hold_set_same (l : List Tracker) (i j : Nat) (t : Tracker) (h : cbHolding t.pc = cbHolding (getT l i).pc) :
    cbHolding (getT (l.set i t) j).pc = cbHolding (getT l j).pc := by
  rw [hold_set]
  split
  · rename_i hh; rw [hh.1]; exact h
  · rfl

theorem hold_dropParked (l : List Tracker) (j : Nat) :
    cbHolding (getT (l.map (fun t => if t.pc == .parked then { t with pc := .dropped } else t)) j).pc
      = cbHolding (getT l j).pc := by
  by_cases h : j < l.length
  · rw [getT_map _ _ _ h]
    split
    · rename_i hp
      have : (getT l j).pc = .parked := by simpa using hp
      rw [this]; rfl
    · rfl
  · rw [getT_of_ge _ _ (by simpa using h), getT_of_ge _ _ (by omega)]

theorem SameBut.lview {s s1 : St} (h : SameBut s s1) : LView s s1 := by
  unfold SameBut at h
  refine ⟨?_, ?_, ?_⟩ <;> (intros; rw [h])

theorem DLCase.lview {c : Cfg} {bs : Nat} {s : St} {r : St × DRes} (h : DLCase c bs s r) : LView s r.1 := by
  cases h with
  | ret s1 r h => exact h.lview
  | submit s1 tasks h hab =>
    have v := h.lview
    have e : s1.trk = s.trk := by rw [h]
    unfold registerNewJob
    refine ⟨?_, ?_, ?_⟩
    · split <;> exact v.lock
    · split <;> exact v.pc
    · intro j
      have : cbHolding (getT (s1.trk ++ [newTracker s tasks]) j).pc = cbHolding (getT s.trk j).pc := by
        rw [pc_append _ _ _ rfl, e]
      split <;> exact this
  | iterr s1 h hab =>
    have v := h.lview
    have e : s1.trk = s.trk := by rw [h]
    unfold registerIterError appendOutcome registerNewJob
    refine ⟨?_, ?_, ?_⟩
    · simp only; split <;> exact v.lock
    · simp only; split <;> exact v.pc
    · intro j
      have : cbHolding (getT (s1.trk ++ [errTracker s1 bs]) j).pc = cbHolding (getT s.trk j).pc := by
        rw [pc_append _ _ _ rfl, e]
      simp only; split <;> exact this

/-- The log of a `DLCase` result, in terms of the intermediate log. -/
theorem DLCase.pc_eq {c : Cfg} {bs : Nat} {s : St} {r : St × DRes} (h : DLCase c bs s r) : r.1.pc = s.pc := by
  cases h with
  | ret s1 r h => unfold SameBut at h; rw [h]
  | submit s1 tasks h hab => unfold SameBut at h; unfold registerNewJob; split <;> (simp only; rw [h])
  | iterr s1 h hab =>
    unfold SameBut at h; unfold registerIterError appendOutcome registerNewJob
    simp only; split <;> (simp only; rw [h])

theorem returnOrRaise_lview (s : St) (i : Nat) : LView s (returnOrRaise s i).1 := by
  unfold returnOrRaise
  simp only
  have hv : LView s (setTrk s i { getTrk s i with result := .none }) :=
    ⟨rfl, rfl, fun j => by simp only [setTrk, getTrk_def]; exact congrArg cbHolding (pc_set_same _ _ _ _ rfl)⟩
  split
  · exact LView.refl s
  · split <;> exact hv
  · split <;> exact hv

theorem returnOrRaise_log (s : St) (i : Nat) : (returnOrRaise s i).1.log = s.log := by
  unfold returnOrRaise
  simp only
  split
  · rfl
  · split <;> rfl
  · split <;> rfl

theorem returnOrRaise_pc (s : St) (i : Nat) : (returnOrRaise s i).1.pc = s.pc := by
  unfold returnOrRaise
  simp only
  split
  · rfl
  · split <;> rfl
  · split <;> rfl

end JoblibModel.ParallelLockU
