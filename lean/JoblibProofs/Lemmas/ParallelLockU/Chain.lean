import JoblibProofs.Lemmas.ParallelLockU.ErrSurf
/-!
M1LU proofs — ORDERED modes (`Cfg.ra ≠ 2`) with a timeout: once the caller has registered a TimeoutError (ghost
`toWait ≠ none`) it is on a one-way path — `status == TASK_ERROR`, flags, `return self.status`, `popleft` of that very
tracker (it is the head of `_jobs`), `get_result` raises the TimeoutError, `except BaseException`, `finally` — that
ends with `raise TimeoutError`; no step of another thread can take it off that path (TASK_ERROR is final, a registered
result is not overwritten, `_jobs` only grows at the tail).
-/
namespace JoblibModel.ParallelLockU
open JoblibModel.ParallelLock (Tid Status CbPc DK DRes Act chunks)

/-- Program points that only exist in the unordered mode. -/
def Pc.unorderedOnly : Pc → Bool
  | .ctlAcq | .ctlRel | .gsStatus _ .ctl | .toAcq _ .ctl | .toRel _ .ctl _ | .toStatus _ .ctl | .toExcW _ .ctl
  | .toAbortW _ .ctl | .toAcq2 _ _ | .toRel2 _ _ | .gsRet _ .ctl => true
  | _ => false

/-- Tracker `i` carries the registered TimeoutError. -/
def toFacts (l : List Tracker) (i : Nat) : Prop := stErr l i ∧ (getT l i).result = .exc .timeout

/-- Where the caller may be after it has registered a TimeoutError, and what holds there. -/
def chainOK (s : St) : Prop :=
  match s.pc with
  | .toRel i .head true => stErr s.trk i ∧ s.jobs.head? = some i
  | .toStatus i .head | .toExcW i .head | .toAbortW i .head | .gsRet i .head => toFacts s.trk i ∧ s.jobs.head? = some i
  | .popAcq => ∃ i, s.jobs.head? = some i ∧ toFacts s.trk i
  | .popRel i | .resStatus i => toFacts s.trk i
  | .excW e | .abortW e | .abortCall e | .finExc (some e) | .finJobsR (some e) | .finJobsW (some e) _
  | .finSetW (some e) _ => e = .timeout
  | .done => s.outcome = some (.raised .timeout)
  | _ => False

structure CInv (s : St) : Prop where
  ord : s.pc.unorderedOnly = false
  jb : ∀ j ∈ s.jobs, j < s.trk.length
  hd : ∀ i, (s.pc = .gsStatus i .head ∨ s.pc = .toAcq i .head) → s.jobs.head? = some i
  chain : s.toWait ≠ none → chainOK s

theorem cInv_init : CInv init := by
  refine ⟨rfl, ?_, ?_, ?_⟩ <;> simp [init]

/-- What `CInv` reads, for a step of another thread (or a step of the caller that changes none of it). -/
structure CFrame (s s' : St) : Prop where
  err : ∀ i, stErr s.trk i → stErr s'.trk i
  facts : ∀ i, toFacts s.trk i → toFacts s'.trk i
  len : s.trk.length ≤ s'.trk.length
  jobs : ∃ x, s'.jobs = s.jobs ++ x ∧ ∀ j ∈ x, j < s'.trk.length
  wait : s'.toWait = s.toWait
  outcome : s'.outcome = s.outcome

theorem CFrame.refl (s : St) : CFrame s s :=
  ⟨fun _ h => h, fun _ h => h, Nat.le_refl _, ⟨[], by simp, by simp⟩, rfl, rfl⟩

theorem CFrame.trans {a b c : St} (h1 : CFrame a b) (h2 : CFrame b c) : CFrame a c := by
  obtain ⟨x, hx, hx'⟩ := h1.jobs
  obtain ⟨y, hy, hy'⟩ := h2.jobs
  refine ⟨fun i h => h2.err i (h1.err i h), fun i h => h2.facts i (h1.facts i h), Nat.le_trans h1.len h2.len,
    ⟨x ++ y, by rw [hy, hx]; simp, ?_⟩, h2.wait.trans h1.wait, h2.outcome.trans h1.outcome⟩
  intro j hj
  simp only [List.mem_append] at hj
  rcases hj with hj | hj
  · exact Nat.lt_of_lt_of_le (hx' j hj) h2.len
  · exact hy' j hj

theorem head_append {l : List Nat} {i : Nat} (h : l.head? = some i) (x : List Nat) : (l ++ x).head? = some i := by
  cases l with
  | nil => cases h
  | cons a r => simpa using h

theorem chainOK_frame {s s' : St} (f : CFrame s s') (hp : s'.pc = s.pc) (h : chainOK s) : chainOK s' := by
  obtain ⟨x, hx, _⟩ := f.jobs
  unfold chainOK at h ⊢
  rw [hp]
  cases hpc : s.pc <;> rw [hpc] at h <;> simp only [] at h ⊢ <;> try exact h
  case toRel i k reg =>
    cases k <;> cases reg <;> simp only [] at h ⊢ <;> try exact h
    exact ⟨f.err i h.1, by rw [hx]; exact head_append h.2 x⟩
  case toStatus i k => cases k <;> simp only [] at h ⊢ <;> first | exact h | exact ⟨f.facts i h.1, by rw [hx]; exact head_append h.2 x⟩
  case toExcW i k => cases k <;> simp only [] at h ⊢ <;> first | exact h | exact ⟨f.facts i h.1, by rw [hx]; exact head_append h.2 x⟩
  case toAbortW i k => cases k <;> simp only [] at h ⊢ <;> first | exact h | exact ⟨f.facts i h.1, by rw [hx]; exact head_append h.2 x⟩
  case gsRet i k => cases k <;> simp only [] at h ⊢ <;> first | exact h | exact ⟨f.facts i h.1, by rw [hx]; exact head_append h.2 x⟩
  case popAcq =>
    obtain ⟨i, h1, h2⟩ := h
    exact ⟨i, by rw [hx]; exact head_append h1 x, f.facts i h2⟩
  case popRel i => exact f.facts i h
  case resStatus i => exact f.facts i h
  case finExc e => cases e <;> simp only [] at h ⊢ <;> exact h
  case finJobsR e => cases e <;> simp only [] at h ⊢ <;> exact h
  case finJobsW e rem => cases e <;> simp only [] at h ⊢ <;> exact h
  case finSetW e rem => cases e <;> simp only [] at h ⊢ <;> exact h
  case done => rw [f.outcome]; exact h

theorem CInv.frame {s s' : St} (h : CInv s) (f : CFrame s s') (hp : s'.pc = s.pc) : CInv s' := by
  obtain ⟨x, hx, hx'⟩ := f.jobs
  refine ⟨hp ▸ h.ord, ?_, ?_, ?_⟩
  · intro j hj
    rw [hx] at hj
    simp only [List.mem_append] at hj
    rcases hj with hj | hj
    · exact Nat.lt_of_lt_of_le (h.jb j hj) f.len
    · exact hx' j hj
  · intro i hi
    rw [hx]; exact head_append (h.hd i (hp ▸ hi)) x
  · intro hw
    exact chainOK_frame f hp (h.chain (f.wait ▸ hw))

theorem stErr_lt {l : List Tracker} {i : Nat} (h : stErr l i) : i < l.length := by
  apply Classical.byContradiction; intro hn
  unfold stErr at h
  rw [getT_of_ge l i (by omega)] at h; cases h

/-- A state that differs from `s` in fields `CInv` does not read. -/
theorem cframe_of_same {s s0 : St} (h1 : s0.trk = s.trk) (h2 : s0.jobs = s.jobs) (h3 : s0.toWait = s.toWait)
    (h4 : s0.outcome = s.outcome) : CFrame s s0 :=
  ⟨fun _ h => h1 ▸ h, fun _ h => h1 ▸ h, by rw [h1]; exact Nat.le_refl _, ⟨[], by simp [h2], by simp⟩, h3, h4⟩

theorem cframe_setTrk (s : St) (i : Nat) (t : Tracker) (he : stErr s.trk i → t.status = .error)
    (hf : toFacts s.trk i → t.result = .exc .timeout) : CFrame s (setTrk s i t) := by
  refine ⟨?_, ?_, by simp [setTrk], ⟨[], by simp [setTrk], by simp⟩, rfl, rfl⟩
  · intro j hj
    simp only [setTrk]; unfold stErr at *
    rw [getT_set]; split
    · rename_i hh; rw [hh.1] at hj; exact he hj
    · exact hj
  · intro j hj
    simp only [setTrk]; unfold toFacts stErr at *
    rw [getT_set]; split
    · rename_i hh; rw [hh.1] at hj; exact ⟨he hj.1, hf hj⟩
    · exact hj

theorem cframe_append (s s' : St) (t : Tracker) (ht : s'.trk = s.trk ++ [t]) (hj : s'.jobs = s.jobs ++ [s.trk.length])
    (hw : s'.toWait = s.toWait) (ho : s'.outcome = s.outcome) : CFrame s s' := by
  refine ⟨?_, ?_, by simp [ht], ⟨[s.trk.length], hj, by simp [ht]⟩, hw, ho⟩
  · intro j h
    have hlt := stErr_lt h
    unfold stErr at *; rw [ht, getT_append_left _ _ _ hlt]; exact h
  · intro j h
    have hlt := stErr_lt h.1
    unfold toFacts stErr at *; rw [ht, getT_append_left _ _ _ hlt]; exact h

theorem setCb_cframe (s : St) (i : Nat) (p : CbPc) : CFrame s (setCb s i p) :=
  cframe_setTrk s i _ (fun h => h) (fun h => h.2)

theorem setCb_cframe' {s : St} (s0 : St) (i : Nat) (p : CbPc) (h1 : s0.trk = s.trk) (h2 : s0.jobs = s.jobs)
    (h3 : s0.toWait = s.toWait) (h4 : s0.outcome = s.outcome) : CFrame s (setCb s0 i p) :=
  (cframe_of_same h1 h2 h3 h4).trans (setCb_cframe s0 i p)

theorem cbAfterDispatch_cframe (i : Nat) (s : St) (r : Bool) : CFrame s (cbAfterDispatch i s r) := by
  unfold cbAfterDispatch
  split
  · exact setCb_cframe' _ i .relC rfl rfl rfl rfl
  · exact setCb_cframe' _ i .relC rfl rfl rfl rfl

theorem SameBut.cview {s s1 : St} (h : SameBut s s1) :
    s1.trk = s.trk ∧ s1.jobs = s.jobs ∧ s1.toWait = s.toWait ∧ s1.outcome = s.outcome := by
  unfold SameBut at h
  refine ⟨?_, ?_, ?_, ?_⟩ <;> rw [h]

theorem DLCase.cframe {c : Cfg} {bs : Nat} {s : St} {r : St × DRes} (h : DLCase c bs s r) (hra : (c.ra == 2) = false) :
    CFrame s r.1 := by
  cases h with
  | ret s1 r h =>
    obtain ⟨a, b, d, e⟩ := h.cview
    exact cframe_of_same a b d e
  | submit s1 tasks h hab =>
    obtain ⟨a, b, d, e⟩ := h.cview
    refine cframe_append s _ (newTracker s tasks) ?_ ?_ ?_ ?_ <;>
      simp [registerNewJob, hra, a, b, d, e]
  | iterr s1 h hab =>
    obtain ⟨a, b, d, e⟩ := h.cview
    refine cframe_append s _ (errTracker s1 bs) ?_ ?_ ?_ ?_ <;>
      simp [registerIterError, registerNewJob, appendOutcome, hra, a, b, d, e, errTracker]

theorem cbDispatchResult_cframe {c : Cfg} {bs : Nat} {s : St} (i : Nat) {r : St × DRes} (hd : DLCase c bs s r)
    (hra : (c.ra == 2) = false) : CFrame s (cbDispatchResult i r) := by
  have h1 : CFrame s r.1 := hd.cframe hra
  obtain ⟨s', x⟩ := r
  cases x with
  | submit j => exact h1.trans (setCb_cframe s' i _)
  | ret b => exact h1.trans (cbAfterDispatch_cframe i s' b)

theorem stepCb_cframe (c : Cfg) (hra : (c.ra == 2) = false) (i : Nat) (s : St) : CFrame s (stepCb c i s) := by
  cases hpc : (getT s.trk i).pc
  case acqA =>
    simp only [stepCb, getTrk_def, hpc]
    exact ite_prop (P := CFrame s) (fun _ => setCb_cframe s i _)
      (fun _ => ite_prop (P := CFrame s) (fun _ => setCb_cframe s i _)
        (fun _ => setCb_cframe' _ i _ rfl rfl rfl rfl))
  case retr =>
    simp only [stepCb, getTrk_def, hpc]
    refine ite_prop (P := CFrame s) (fun _ => setCb_cframe' _ i _ rfl rfl rfl rfl) (fun hpend => ?_)
    have hnot : ¬ stErr s.trk i := by
      intro he
      apply hpend
      unfold stErr at he
      rw [he]; rfl
    cases (getT s.trk i).failed with
    | some id =>
      simp only [appendOutcome, hra, Bool.false_eq_true, if_false]
      have a : CFrame s ({ s with lockOwner := none, exception := true, aborting := true } : St) :=
        cframe_of_same rfl rfl rfl rfl
      exact a.trans (cframe_setTrk _ i _ (fun he => absurd he hnot) (fun hf => absurd hf.1 hnot))
    | none =>
      simp only [appendOutcome, hra, Bool.false_eq_true, if_false]
      have a : CFrame s ({ s with lockOwner := none } : St) := cframe_of_same rfl rfl rfl rfl
      exact a.trans (cframe_setTrk _ i _ (fun he => absurd he hnot) (fun hf => absurd hf.1 hnot))
  case acqC =>
    simp only [stepCb, getTrk_def, hpc]
    refine ite_prop (P := CFrame s) (fun _ => ?_) (fun _ => setCb_cframe' _ i _ rfl rfl rfl rfl)
    have h0 : CFrame s (setCb { s with lockOwner := some (i + 1), nCompleted := s.nCompleted + (getT s.trk i).bsize } i .bsC) :=
      setCb_cframe' _ i .bsC rfl rfl rfl rfl
    refine ite_prop (P := CFrame s) (fun _ => ?_) (fun _ => ite_prop (P := CFrame s) (fun _ => h0) (fun _ => ?_))
    · exact h0.trans (cbAfterDispatch_cframe i _ false)
    · exact h0.trans (cbDispatchResult_cframe i (dispatchLocked_cases c (i + 1) true _ _) hra)
  case bsC =>
    simp only [stepCb, getTrk_def, hpc]
    exact CFrame.trans (b := { s with bsI := s.bsI + 1 }) (cframe_of_same rfl rfl rfl rfl)
      (cbDispatchResult_cframe i (dispatchLocked_cases c (i + 1) true _ _) hra)
  case submitC j =>
    simp only [stepCb, getTrk_def, hpc]
    refine CFrame.trans (b := doSubmit (i + 1) j (setCb s i .bsC)) ?_ (cbAfterDispatch_cframe i _ true)
    exact (setCb_cframe s i .bsC).trans (setCb_cframe' (ev (setCb s i .bsC) _) j .parked rfl rfl rfl rfl)
  all_goals
    simp only [stepCb, getTrk_def, hpc]
    first | exact CFrame.refl s | exact setCb_cframe s i _

theorem afterDispatch_cfacts (c : Cfg) (k : DK) (r : Bool) :
    (afterDispatch c k r).unorderedOnly = false ∧
    (∀ i, afterDispatch c k r ≠ .gsStatus i .head ∧ afterDispatch c k r ≠ .toAcq i .head) := by
  cases k <;> cases r <;> simp only [afterDispatch] <;> (try split) <;> simp [Pc.unorderedOnly]

theorem getStatusEntry_cfacts (c : Cfg) (i : Nat) :
    (getStatusEntry c i .head).unorderedOnly = false ∧
    (∀ i', (getStatusEntry c i .head = .gsStatus i' .head ∨ getStatusEntry c i .head = .toAcq i' .head) → i' = i) := by
  unfold getStatusEntry; split <;> simp [Pc.unorderedOnly]

/-- The caller is not on the TimeoutError path: the ghost record is still empty. -/
theorem CInv.noWait {s : St} (h : CInv s) (hc : ¬ chainOK s) : s.toWait = none := by
  apply Classical.byContradiction
  intro hw
  exact hc (h.chain hw)

/-- A move of the caller off the TimeoutError path that keeps `_jobs` (up to appends of existing trackers) and the ghost
record. -/
theorem CInv.move {s s' : St} (h : CInv s) (hc : ¬ chainOK s)
    (hlen : s.trk.length ≤ s'.trk.length)
    (hj : ∃ x, s'.jobs = s.jobs ++ x ∧ ∀ j ∈ x, j < s'.trk.length)
    (hw : s'.toWait = s.toWait)
    (hord : s'.pc.unorderedOnly = false)
    (hhd : ∀ i, (s'.pc = .gsStatus i .head ∨ s'.pc = .toAcq i .head) → s'.jobs.head? = some i) : CInv s' := by
  obtain ⟨x, hx, hx'⟩ := hj
  refine ⟨hord, ?_, hhd, ?_⟩
  · intro j hj
    rw [hx] at hj
    simp only [List.mem_append] at hj
    rcases hj with hj | hj
    · exact Nat.lt_of_lt_of_le (h.jb j hj) hlen
    · exact hx' j hj
  · intro hw'
    rw [hw, h.noWait hc] at hw'
    exact absurd rfl hw'

/-- … in particular a move that changes nothing `CInv` reads but the pc. -/
theorem CInv.moveSame {s s' : St} (h : CInv s) (hc : ¬ chainOK s) (ht : s'.trk.length = s.trk.length)
    (hj : s'.jobs = s.jobs) (hw : s'.toWait = s.toWait) (hord : s'.pc.unorderedOnly = false)
    (hhd : ∀ i, s'.pc ≠ .gsStatus i .head ∧ s'.pc ≠ .toAcq i .head) : CInv s' :=
  h.move hc (by rw [ht]; exact Nat.le_refl _) ⟨[], by simp [hj], by simp⟩ hw hord
    (fun i hi => by rcases hi with hi | hi; exact absurd hi (hhd i).1; exact absurd hi (hhd i).2)

theorem returnOrRaise_cfacts (s : St) (i : Nat) :
    (returnOrRaise s i).1.trk.length = s.trk.length ∧ (returnOrRaise s i).1.jobs = s.jobs ∧
    (returnOrRaise s i).1.toWait = s.toWait ∧ (returnOrRaise s i).1.outcome = s.outcome ∧
    (toFacts s.trk i → (returnOrRaise s i).2 = .error .timeout) := by
  unfold returnOrRaise
  simp only []
  cases hr : (getTrk s i).result with
  | none =>
    refine ⟨rfl, rfl, rfl, rfl, fun hf => ?_⟩
    have : (getTrk s i).result = .exc .timeout := hf.2
    rw [hr] at this; cases this
  | vals l0 =>
    simp only []
    split <;>
    · refine ⟨by simp [setTrk], rfl, rfl, rfl, fun hf => ?_⟩
      have : (getTrk s i).result = .exc .timeout := hf.2
      rw [hr] at this; cases this
  | exc e =>
    simp only []
    split
    · refine ⟨by simp [setTrk], rfl, rfl, rfl, fun hf => ?_⟩
      have : (getTrk s i).result = .exc .timeout := hf.2
      rw [hr] at this
      simp only [Res.exc.injEq] at this
      rw [this]
    · rename_i hs
      refine ⟨by simp [setTrk], rfl, rfl, rfl, fun hf => ?_⟩
      exfalso; apply hs
      have : (getTrk s i).status = .error := hf.1
      rw [this]; rfl

/-- One step of the caller that does not register a TimeoutError. -/
theorem CInv.step {s s' : St} (h : CInv s)
    (hjb : ∀ j ∈ s'.jobs, j < s'.trk.length)
    (hw : s'.toWait = s.toWait)
    (hord : s'.pc.unorderedOnly = false)
    (hhd : ∀ i, (s'.pc = .gsStatus i .head ∨ s'.pc = .toAcq i .head) → s'.jobs.head? = some i)
    (hch : chainOK s → chainOK s') : CInv s' :=
  ⟨hord, hjb, hhd, fun hw' => hch (h.chain (hw ▸ hw'))⟩

theorem tailNext_cfacts (c : Cfg) (s : St) (rem : List Nat) :
    (tailNext c s rem).pc.unorderedOnly = false ∧
    (∀ i, (tailNext c s rem).pc ≠ .gsStatus i .head ∧ (tailNext c s rem).pc ≠ .toAcq i .head) ∧
    (tailNext c s rem).trk = s.trk ∧ (tailNext c s rem).jobs = s.jobs ∧ (tailNext c s rem).toWait = s.toWait := by
  cases rem with
  | nil =>
    unfold tailNext finishRet ev
    refine ⟨rfl, (fun _ => ⟨by simp, by simp⟩), ?_, ?_, ?_⟩ <;> (simp only; split <;> rfl)
  | cons i r => exact ⟨rfl, (fun _ => ⟨by simp [tailNext], by simp [tailNext]⟩), rfl, rfl, rfl⟩

theorem deliverVals_cfacts (c : Cfg) (s : St) (i : Nat) (l : List Nat) :
    (deliverVals c s i l).trk = s.trk ∧ (deliverVals c s i l).jobs = s.jobs ∧
    (deliverVals c s i l).toWait = s.toWait := by
  unfold deliverVals
  refine ⟨?_, ?_, ?_⟩ <;> (simp only; split <;> rfl)

theorem stepCaller_cinv (c : Cfg) (hra : (c.ra == 2) = false) (s : St) (h : CInv s) : CInv (stepCaller c s) := by
  have hne : (c.ra != 2) = true := by simp [bne, hra]
  cases hpc : s.pc
  case dAcq k bs =>
    unfold stepCaller
    simp only [hpc]
    have hd := (dispatchLocked_cases c 0 false bs { s with lockOwner := some 0, pc := .dIn k }).cframe hra
    generalize dispatchLocked c 0 false bs { s with lockOwner := some 0, pc := .dIn k } = r at hd
    obtain ⟨s', x⟩ := r
    obtain ⟨y, hy, hy'⟩ := hd.jobs
    have hjb : ∀ j ∈ s'.jobs, j < s'.trk.length := by
      intro j hj
      rw [hy] at hj
      simp only [List.mem_append] at hj
      rcases hj with hj | hj
      · exact Nat.lt_of_lt_of_le (h.jb j hj) hd.len
      · exact hy' j hj
    cases x <;>
    · refine h.step hjb hd.wait (by simp [Pc.unorderedOnly]) (by simp) ?_
      intro hc; unfold chainOK at hc; simp only [hpc] at hc
  case dSubmit k j =>
    unfold stepCaller
    simp only [hpc]
    refine h.step ?_ rfl (by simp [Pc.unorderedOnly]) (by simp) ?_
    · intro j' hj'
      simp only [doSubmit, setCb, setTrk, ev, List.length_set] at hj' ⊢
      exact h.jb j' hj'
    · intro hc; unfold chainOK at hc; simp only [hpc] at hc
  case rtHead =>
    unfold stepCaller
    simp only [hpc]
    split
    · refine h.step h.jb rfl (by simp [Pc.unorderedOnly]) (by simp) ?_
      intro hc; unfold chainOK at hc; simp only [hpc] at hc
    · rename_i i rest hj
      obtain ⟨f1, f2⟩ := getStatusEntry_cfacts c i
      refine h.step h.jb rfl f1 ?_ ?_
      · intro i' hi'
        have := f2 i' hi'
        subst this
        simp only; rw [hj]; rfl
      · intro hc; unfold chainOK at hc; simp only [hpc] at hc
  case gsStatus i k =>
    have hk : k = .head := by
      cases k
      · rfl
      · have := h.ord; rw [hpc] at this; cases this
    subst hk
    have hh := h.hd i (Or.inl hpc)
    unfold stepCaller
    simp only [hpc]
    split
    · refine h.step h.jb rfl (by simp [Pc.unorderedOnly]) (by simp) ?_
      intro hc; unfold chainOK at hc; simp only [hpc] at hc
    · split
      · refine h.step ?_ rfl (by simp [Pc.unorderedOnly]) ?_ ?_
        · intro j hj; simp only [setTrk, List.length_set] at hj ⊢; exact h.jb j hj
        · intro i' hi'
          simp only [reduceCtorEq, Pc.toAcq.injEq, and_true, false_or] at hi'
          subst hi'; exact hh
        · intro hc; unfold chainOK at hc; simp only [hpc] at hc
      · refine h.step ?_ rfl (by simp [Pc.unorderedOnly]) (by simp) ?_
        · intro j hj; simp only [setTrk, List.length_set] at hj ⊢; exact h.jb j hj
        · intro hc; unfold chainOK at hc; simp only [hpc] at hc
  case toAcq i k =>
    have hk : k = .head := by
      cases k
      · rfl
      · have := h.ord; rw [hpc] at this; cases this
    subst hk
    have hh := h.hd i (Or.inr hpc)
    have hlt : i < s.trk.length := by
      apply h.jb
      cases hj : s.jobs with
      | nil => rw [hj] at hh; cases hh
      | cons a r => rw [hj] at hh; simp only [List.head?_cons, Option.some.injEq] at hh; subst hh; simp
    unfold stepCaller
    simp only [hpc]
    split
    · refine h.step h.jb rfl (by simp [Pc.unorderedOnly]) (by simp) ?_
      intro hc; unfold chainOK at hc; simp only [hpc] at hc
    · refine ⟨by simp [Pc.unorderedOnly], ?_, by simp, ?_⟩
      · intro j hj; simp only [setTrk, List.length_set] at hj ⊢; exact h.jb j hj
      · intro _
        unfold chainOK
        simp only [setTrk]
        refine ⟨?_, hh⟩
        unfold stErr
        rw [getT_set, if_pos ⟨rfl, hlt⟩]
  case toRel i k reg =>
    have hk : k = .head := by
      cases k
      · rfl
      · have := h.ord; rw [hpc] at this; cases this
    subst hk
    unfold stepCaller
    simp only [hpc]
    cases reg with
    | false =>
      simp only [Bool.false_eq_true, if_false]
      refine h.step h.jb rfl (by simp [Pc.unorderedOnly]) (by simp) ?_
      intro hc; unfold chainOK at hc; simp only [hpc] at hc
    | true =>
      simp only [if_true]
      refine h.step ?_ rfl (by simp [Pc.unorderedOnly]) (by simp) ?_
      · intro j hj; simp only [setTrk, List.length_set] at hj ⊢; exact h.jb j hj
      · intro hc
        unfold chainOK at hc ⊢
        simp only [hpc] at hc
        simp only [setTrk]
        have hlt := stErr_lt hc.1
        refine ⟨⟨?_, ?_⟩, hc.2⟩
        · unfold stErr at *; rw [getT_set, if_pos ⟨rfl, hlt⟩]; exact hc.1
        · rw [getT_set, if_pos ⟨rfl, hlt⟩]
  case toStatus i k =>
    have hk : k = .head := by
      cases k
      · rfl
      · have := h.ord; rw [hpc] at this; cases this
    subst hk
    unfold stepCaller
    simp only [hpc, hne, if_true]
    split <;>
    · refine h.step h.jb rfl (by simp [Pc.unorderedOnly]) (by simp) ?_
      intro hc; unfold chainOK at hc ⊢; simp only [hpc] at hc; exact hc
  case toExcW i k =>
    have hk : k = .head := by
      cases k
      · rfl
      · have := h.ord; rw [hpc] at this; cases this
    subst hk
    unfold stepCaller
    simp only [hpc]
    refine h.step h.jb rfl (by simp [Pc.unorderedOnly]) (by simp) ?_
    intro hc; unfold chainOK at hc ⊢; simp only [hpc] at hc; exact hc
  case toAbortW i k =>
    have hk : k = .head := by
      cases k
      · rfl
      · have := h.ord; rw [hpc] at this; cases this
    subst hk
    unfold stepCaller
    simp only [hpc, hne, if_true]
    refine h.step h.jb rfl (by simp [Pc.unorderedOnly]) (by simp) ?_
    intro hc; unfold chainOK at hc ⊢; simp only [hpc] at hc; exact hc
  case gsRet i k =>
    have hk : k = .head := by
      cases k
      · rfl
      · have := h.ord; rw [hpc] at this; cases this
    subst hk
    unfold stepCaller
    simp only [hpc]
    split
    · rename_i hp
      refine h.step h.jb rfl (by simp [Pc.unorderedOnly]) (by simp) ?_
      intro hc; unfold chainOK at hc; simp only [hpc] at hc
      exfalso
      have : (getTrk s i).status = .error := hc.1.1
      rw [this] at hp; cases hp
    · refine h.step h.jb rfl (by simp [Pc.unorderedOnly]) (by simp) ?_
      intro hc; unfold chainOK at hc ⊢; simp only [hpc] at hc
      exact ⟨i, hc.2, hc.1⟩
  case popAcq =>
    unfold stepCaller
    simp only [hpc]
    split
    · rename_i hj
      refine h.step h.jb rfl (by simp [Pc.unorderedOnly]) (by simp) ?_
      intro hc; unfold chainOK at hc; simp only [hpc] at hc
      obtain ⟨i, hi, _⟩ := hc
      rw [hj] at hi; cases hi
    · rename_i i rest hj
      simp only [hne, if_true]
      refine h.step ?_ rfl (by simp [Pc.unorderedOnly]) (by simp) ?_
      · intro j hjm; exact h.jb j (by rw [hj]; simp [hjm])
      · intro hc; unfold chainOK at hc ⊢; simp only [hpc] at hc
        obtain ⟨i', hi, hf⟩ := hc
        rw [hj] at hi
        simp only [List.head?_cons, Option.some.injEq] at hi
        subst hi; exact hf
  case popRel i =>
    unfold stepCaller
    simp only [hpc]
    refine h.step h.jb rfl (by simp [Pc.unorderedOnly]) (by simp) ?_
    intro hc; unfold chainOK at hc ⊢; simp only [hpc] at hc; exact hc
  case resStatus i =>
    unfold stepCaller
    simp only [hpc]
    have hv := returnOrRaise_cfacts s i
    generalize returnOrRaise s i = r at hv
    obtain ⟨s', x⟩ := r
    obtain ⟨h1, h2, h3, h4, h5⟩ := hv
    have hjb : ∀ j ∈ s'.jobs, j < s'.trk.length := by
      intro j hj; rw [h1]; exact h.jb j (h2 ▸ hj)
    cases x with
    | error e =>
      refine h.step hjb h3 (by simp [Pc.unorderedOnly]) (by simp) ?_
      intro hc; unfold chainOK at hc ⊢; simp only [hpc] at hc
      have := h5 hc
      simp only [Except.error.injEq] at this
      exact this
    | ok l =>
      obtain ⟨f1, f2, f3⟩ := deliverVals_cfacts c s' i l
      refine h.step (s' := { deliverVals c s' i l with pc := .wtAbort }) ?_ (f3.trans h3) (by simp [Pc.unorderedOnly])
        (by simp) ?_
      · intro j hj; simp only at hj ⊢; rw [f1]; rw [f2] at hj; exact hjb j hj
      · intro hc; unfold chainOK at hc; simp only [hpc] at hc
        have := h5 hc
        cases this
  case refStatus i =>
    unfold stepCaller
    simp only [hpc]
    have hv := returnOrRaise_cfacts s i
    generalize returnOrRaise s i = r at hv
    obtain ⟨s', x⟩ := r
    obtain ⟨h1, h2, h3, h4, h5⟩ := hv
    have hjb : ∀ j ∈ s'.jobs, j < s'.trk.length := by
      intro j hj; rw [h1]; exact h.jb j (h2 ▸ hj)
    cases x <;>
    · refine h.step hjb h3 (by simp [Pc.unorderedOnly]) (by simp) ?_
      intro hc; unfold chainOK at hc; simp only [hpc] at hc
  case tailStatus i rem =>
    unfold stepCaller
    simp only [hpc]
    have hv := returnOrRaise_cfacts s i
    generalize returnOrRaise s i = r at hv
    obtain ⟨s', x⟩ := r
    obtain ⟨h1, h2, h3, h4, h5⟩ := hv
    have hjb : ∀ j ∈ s'.jobs, j < s'.trk.length := by
      intro j hj; rw [h1]; exact h.jb j (h2 ▸ hj)
    cases x with
    | error e =>
      refine h.step (s' := finishRaise s' e) hjb h3 (by simp [finishRaise, Pc.unorderedOnly]) (by simp [finishRaise]) ?_
      intro hc; unfold chainOK at hc; simp only [hpc] at hc
    | ok l =>
      obtain ⟨f1, f2, f3⟩ := deliverVals_cfacts c s' i l
      obtain ⟨g1, g2, g3, g4, g5⟩ := tailNext_cfacts c (deliverVals c s' i l) rem
      refine h.step (s' := tailNext c (deliverVals c s' i l) rem) ?_ (g5.trans (f3.trans h3)) g1
        (fun i' hi' => by rcases hi' with e | e; exact absurd e (g2 i').1; exact absurd e (g2 i').2) ?_
      · intro j hj; rw [g3, f1]; rw [g4, f2] at hj; exact hjb j hj
      · intro hc; unfold chainOK at hc; simp only [hpc] at hc
  case finSetW e rem =>
    unfold stepCaller
    simp only [hpc]
    cases e with
    | some e =>
      refine h.step (s' := finishRaise _ e) h.jb rfl (by simp [finishRaise, Pc.unorderedOnly]) (by simp [finishRaise]) ?_
      intro hc; unfold chainOK at hc ⊢; simp only [hpc] at hc
      simp only [finishRaise, ev]; rw [hc]
    | none =>
      obtain ⟨g1, g2, g3, g4, g5⟩ := tailNext_cfacts c { s with pc := Pc.finSetW none rem, jobsSet := [], running := false } rem
      refine h.step ?_ g5 g1
        (fun i' hi' => by rcases hi' with e | e; exact absurd e (g2 i').1; exact absurd e (g2 i').2) ?_
      · intro j hj; rw [g3]; rw [g4] at hj; exact h.jb j hj
      · intro hc; unfold chainOK at hc; simp only [hpc] at hc
  case refRel e =>
    unfold stepCaller
    cases e <;> simp only [hpc] <;>
    · refine h.step h.jb rfl (by simp [Pc.unorderedOnly]) (by simp) ?_
      intro hc; unfold chainOK at hc; simp only [hpc] at hc
  case excW e =>
    unfold stepCaller
    simp only [hpc]
    refine h.step h.jb rfl (by simp [Pc.unorderedOnly]) (by simp) ?_
    intro hc; unfold chainOK at hc ⊢; simp only [hpc] at hc; exact hc
  case abortW e =>
    unfold stepCaller
    simp only [hpc]
    split <;>
    · refine h.step h.jb rfl (by simp [Pc.unorderedOnly]) (by simp) ?_
      intro hc; unfold chainOK at hc ⊢; simp only [hpc] at hc; exact hc
  case abortCall e =>
    unfold stepCaller
    simp only [hpc, ev, dropParked]
    refine h.step ?_ (by simp only; split <;> rfl) (by simp [Pc.unorderedOnly]) (by simp) ?_
    · intro j hj
      simp only at hj ⊢
      split at hj <;> split <;> simp_all [List.length_map] <;> exact h.jb j hj
    · intro hc; unfold chainOK at hc ⊢; simp only [hpc] at hc; exact hc
  case finExc e =>
    unfold stepCaller
    simp only [hpc]
    cases e with
    | none =>
      split <;>
      · refine h.step h.jb rfl (by simp [Pc.unorderedOnly]) (by simp) ?_
        intro hc; unfold chainOK at hc; simp only [hpc] at hc
    | some e =>
      split <;>
      · refine h.step h.jb rfl (by simp [Pc.unorderedOnly]) (by simp) ?_
        intro hc; unfold chainOK at hc ⊢; simp only [hpc] at hc; exact hc
  case finJobsR e =>
    unfold stepCaller
    simp only [hpc]
    cases e with
    | none =>
      refine h.step h.jb rfl (by simp [Pc.unorderedOnly]) (by simp) ?_
      intro hc; unfold chainOK at hc; simp only [hpc] at hc
    | some e =>
      refine h.step h.jb rfl (by simp [Pc.unorderedOnly]) (by simp) ?_
      intro hc; unfold chainOK at hc ⊢; simp only [hpc] at hc; exact hc
  case finJobsW e rem =>
    unfold stepCaller
    simp only [hpc]
    cases e with
    | none =>
      refine h.step (by simp) rfl (by simp [Pc.unorderedOnly]) (by simp) ?_
      intro hc; unfold chainOK at hc; simp only [hpc] at hc
    | some e =>
      refine h.step (by simp) rfl (by simp [Pc.unorderedOnly]) (by simp) ?_
      intro hc; unfold chainOK at hc ⊢; simp only [hpc] at hc; exact hc
  case done => unfold stepCaller; simp only [hpc]; exact h
  case dIn k => unfold stepCaller; simp only [hpc]; exact h
  case resetAcq =>
    unfold stepCaller
    simp only [hpc]
    split
    · refine h.step (s' := finishRaise s .runtime) h.jb rfl (by simp [finishRaise, Pc.unorderedOnly]) (by simp [finishRaise]) ?_
      intro hc; unfold chainOK at hc; simp only [hpc] at hc
    · refine h.step h.jb rfl (by simp [Pc.unorderedOnly]) (by simp) ?_
      intro hc; unfold chainOK at hc; simp only [hpc] at hc
  case rtLen =>
    unfold stepCaller
    simp only [hpc, hne, if_true]
    split <;>
    · refine h.step h.jb rfl (by simp [Pc.unorderedOnly]) (by simp) ?_
      intro hc; unfold chainOK at hc; simp only [hpc] at hc
  case ctlAcq => have := h.ord; rw [hpc] at this; cases this
  case ctlRel => have := h.ord; rw [hpc] at this; cases this
  case toAcq2 i k => have := h.ord; rw [hpc] at this; cases this
  case toRel2 i k => have := h.ord; rw [hpc] at this; cases this
  all_goals
    unfold stepCaller
    simp only [hpc]
  all_goals repeat' split
  all_goals
    refine h.step h.jb rfl ?_ ?_ ?_
  all_goals first
    | (simp [Pc.unorderedOnly]; done)
    | exact (afterDispatch_cfacts _ _ _).1
    | (intro i' hi'; rcases hi' with e | e; exact absurd e ((afterDispatch_cfacts _ _ _).2 i').1; exact absurd e ((afterDispatch_cfacts _ _ _).2 i').2)
    | (intro hc; unfold chainOK at hc; simp only [hpc] at hc)

theorem step_cinv (c : Cfg) (hra : (c.ra == 2) = false) (s : St) (h : CInv s) (a : Act) : CInv (step c s a) := by
  cases a with
  | thread t =>
    cases t with
    | zero =>
      simp only [step]
      split
      · exact stepCaller_cinv c hra s h
      · exact h
    | succ i =>
      simp only [step]
      split
      · exact h.frame (stepCb_cframe c hra i s) (stepCb_pc c i s)
      · exact h
  | complete k =>
    simp only [step]
    split
    · refine h.frame (s' := complete c _ s) ?_ rfl
      simp only [complete]
      rename_i f _
      have a : CFrame s (ev s (.complete f (getTrk s f).items)) := cframe_of_same rfl rfl rfl rfl
      exact a.trans (cframe_setTrk (ev s (.complete f (getTrk s f).items)) f _ (fun hh => hh) (fun hh => hh.2))
    · exact h

theorem run_cinv (c : Cfg) (hra : (c.ra == 2) = false) (sched : List Act) : ∀ s, CInv s → CInv (run c s sched) := by
  induction sched with
  | nil => intro s h; exact h
  | cons a r ih => intro s h; exact ih _ (step_cinv c hra s h a)

end JoblibModel.ParallelLockU
