import JoblibProofs.Lemmas.ParallelLockU.Lock
/-!
M1LU proofs — `LockInv` is preserved by every step of the caller, of a callback thread and by `complete`.
-/
namespace JoblibModel.ParallelLockU
open JoblibModel.ParallelLock (Tid Status CbPc DK DRes Act chunks)

theorem afterDispatch_holding (c : Cfg) (k : DK) (r : Bool) : (afterDispatch c k r).holding = false := by
  cases k <;> cases r <;> simp only [afterDispatch] <;> (try split) <;> rfl

theorem getStatusEntry_holding (c : Cfg) (i : Nat) (k : GK) : (getStatusEntry c i k).holding = false := by
  unfold getStatusEntry; split <;> rfl

theorem afterDispatch_ne_dIn (c : Cfg) (k : DK) (r : Bool) (k' : DK) : afterDispatch c k r ≠ .dIn k' := by
  cases k <;> cases r <;> simp [afterDispatch] <;> split <;> simp

theorem getStatusEntry_ne_dIn (c : Cfg) (i : Nat) (k : GK) (k' : DK) : getStatusEntry c i k ≠ .dIn k' := by
  unfold getStatusEntry; split <;> simp

theorem tailNext_lview (c : Cfg) (s : St) (rem : List Nat) (hp : s.pc.holding = false) :
    LView s (tailNext c s rem) := by
  cases rem with
  | nil =>
    unfold tailNext finishRet
    refine ⟨?_, ?_, ?_⟩
    · simp only; split <;> rfl
    · rw [hp]; rfl
    · intro j; simp only; split <;> rfl
  | cons i r => exact ⟨rfl, by rw [hp]; rfl, fun _ => rfl⟩

theorem deliverVals_lview (c : Cfg) (s : St) (i : Nat) (l : List Nat) : LView s (deliverVals c s i l) := by
  unfold deliverVals
  refine ⟨?_, ?_, ?_⟩
  · simp only; split <;> rfl
  · simp only; split <;> rfl
  · intro j; simp only; split <;> rfl

/-- Moving the caller's pc to a point outside a segment. -/
theorem LView.setPc {s s' : St} (v : LView s s') (hs : s.pc.holding = false) (p : Pc) (hp : p.holding = false) :
    LView s { s' with pc := p } :=
  ⟨v.lock, by rw [hs]; exact hp, v.cb⟩

theorem stepCaller_core (c : Cfg) (s : St) (h : LockCore s) (hn : ∀ k, s.pc ≠ .dIn k)
    (he : callerEnabled s = true) : LockCore (stepCaller c s) := by
  cases hpc : s.pc
  case dIn k => exact absurd hpc (hn k)
  case dAcq k bs =>
    have hf : s.lockOwner = none := by
      simpa [callerEnabled, hpc, Pc.isAcq] using he
    unfold stepCaller
    simp only [hpc]
    have hd := dispatchLocked_cases c 0 false bs { s with lockOwner := some 0, pc := .dIn k }
    have v := hd.lview
    generalize dispatchLocked c 0 false bs { s with lockOwner := some 0, pc := .dIn k } = r at hd v
    obtain ⟨s', x⟩ := r
    cases x with
    | submit j =>
      exact h.callerAcquire hf v.lock rfl v.cb
    | ret r =>
      have ⟨_, f2⟩ := h.free hf
      exact LockCore.released rfl rfl (fun j => by rw [v.cb]; exact f2 j)
  case dSubmit k j =>
    have ho : s.lockOwner = some 0 := h.caller (by rw [hpc]; rfl)
    have f := h.others0 ho
    unfold stepCaller
    simp only [hpc]
    refine LockCore.released rfl rfl ?_
    intro i
    simp only [doSubmit, setCb, setTrk, ev, getTrk_def]
    rw [hold_set]
    split
    · rfl
    · exact f i
  case resStatus i =>
    have hh : s.pc.holding = false := by rw [hpc]; rfl
    unfold stepCaller
    simp only [hpc]
    have v := returnOrRaise_lview s i
    generalize returnOrRaise s i = r at v
    obtain ⟨s', x⟩ := r
    cases x with
    | error e => dsimp only; exact h.view (v.setPc hh _ rfl)
    | ok l => dsimp only; exact h.view ((v.trans (deliverVals_lview c s' i l)).setPc hh _ rfl)
  case refStatus i =>
    have hh : s.pc.holding = false := by rw [hpc]; rfl
    unfold stepCaller
    simp only [hpc]
    have v := returnOrRaise_lview s i
    generalize returnOrRaise s i = r at v
    obtain ⟨s', x⟩ := r
    cases x with
    | error e => dsimp only; exact h.view (v.setPc hh _ rfl)
    | ok l => dsimp only; exact h.view (v.setPc hh _ rfl)
  case tailStatus i rem =>
    have hh : s.pc.holding = false := by rw [hpc]; rfl
    unfold stepCaller
    simp only [hpc]
    have v := returnOrRaise_lview s i
    generalize returnOrRaise s i = r at v
    obtain ⟨s', x⟩ := r
    cases x with
    | error e =>
      dsimp only
      exact h.view ⟨v.lock, by rw [hh]; rfl, v.cb⟩
    | ok l =>
      dsimp only
      have v2 := v.trans (deliverVals_lview c s' i l)
      have hh2 : (deliverVals c s' i l).pc.holding = false := by rw [v2.pc]; exact hh
      exact h.view (v2.trans (tailNext_lview c _ rem hh2))
  case finSetW e rem =>
    have hh : s.pc.holding = false := by rw [hpc]; rfl
    unfold stepCaller
    simp only [hpc]
    cases e with
    | some e => dsimp only; exact h.view ⟨rfl, by rw [hh]; rfl, fun _ => rfl⟩
    | none =>
      dsimp only
      refine h.view (LView.trans (b := _) ?_ (tailNext_lview c _ rem ?_))
      · exact ⟨rfl, by rw [hh]; rfl, fun _ => rfl⟩
      · rfl
  case abortCall e =>
    have hh : s.pc.holding = false := by rw [hpc]; rfl
    unfold stepCaller
    simp only [hpc]
    refine h.view ⟨?_, by rw [hh]; rfl, ?_⟩
    · simp only [ev, dropParked]; split <;> rfl
    · intro j
      simp only [ev, dropParked]
      split
      · exact hold_dropParked s.trk j
      · rfl
  case refRel e =>
    have hh : s.pc.holding = false := by rw [hpc]; rfl
    unfold stepCaller
    cases e <;> simp only [hpc] <;> exact h.view ⟨rfl, by rw [hh]; rfl, fun _ => rfl⟩
  all_goals
    have hh : s.pc.holding = false := by rw [hpc]; rfl
    unfold stepCaller
    simp only [hpc]
    refine h.view ⟨?_, ?_, ?_⟩
  all_goals try (first | rfl | (rw [hh]; rfl) | (intro j; rfl))
  all_goals repeat' split
  all_goals first
    | rfl
    | (rw [hh]; first | rfl | exact afterDispatch_holding _ _ _ | exact getStatusEntry_holding _ _ _)
    | (intro j; first | rfl | (simp only [setTrk, appendOutcome, getTrk_def, finishRaise, ev]; first | rfl | exact hold_set_same _ _ _ _ rfl | (split <;> rfl)))
    | (simp only [setTrk, appendOutcome, finishRaise, ev]; first | rfl | (split <;> rfl))

theorem stepCaller_noIn (c : Cfg) (s : St) (hn : ∀ k, s.pc ≠ .dIn k) : ∀ k, (stepCaller c s).pc ≠ .dIn k := by
  intro k'
  cases hpc : s.pc
  case dIn k => exact absurd hpc (hn k)
  case dAcq k bs =>
    unfold stepCaller
    simp only [hpc]
    split <;> simp
  case resStatus i =>
    unfold stepCaller
    simp only [hpc]
    split <;> simp
  case refStatus i =>
    unfold stepCaller
    simp only [hpc]
    split <;> simp
  case tailStatus i rem =>
    unfold stepCaller
    simp only [hpc]
    split
    · simp [finishRaise]
    · cases rem <;> simp [tailNext, finishRet]
  case finSetW e rem =>
    unfold stepCaller
    simp only [hpc]
    cases e with
    | some e => simp [finishRaise]
    | none => cases rem <;> simp [tailNext, finishRet]
  case refRel e =>
    unfold stepCaller
    cases e <;> simp only [hpc] <;> simp
  all_goals
    unfold stepCaller
    simp only [hpc]
  all_goals repeat' split
  all_goals first
    | (simp [finishRaise]; done)
    | exact afterDispatch_ne_dIn _ _ _ _
    | exact getStatusEntry_ne_dIn _ _ _ _
    | (rw [hpc]; simp)

end JoblibModel.ParallelLockU

namespace JoblibModel.ParallelLockU
open JoblibModel.ParallelLock (Tid Status CbPc DK DRes Act chunks)

/-! ### the log: every `pull` was made by the lock owner -/

theorem tailNext_log_pull (c : Cfg) (s : St) (rem : List Nat) (e : Ev) (hp : ∀ v, e ≠ .yield v)
    (h1 : e ≠ .stop) (h2 : ∀ l, e ≠ .ret l) : e ∈ (tailNext c s rem).log → e ∈ s.log := by
  cases rem with
  | nil =>
    unfold tailNext finishRet ev
    simp only
    split
    · intro hm; simp only [List.mem_cons] at hm; rcases hm with hm | hm
      · exact absurd hm h1
      · exact hm
    · intro hm; simp only [List.mem_cons] at hm; rcases hm with hm | hm
      · exact absurd hm (h2 _)
      · exact hm
  | cons i r => exact id

theorem deliverVals_log_pull (c : Cfg) (s : St) (i : Nat) (l : List Nat) (e : Ev) (hp : ∀ v, e ≠ .yield v) :
    e ∈ (deliverVals c s i l).log → e ∈ s.log := by
  unfold deliverVals
  simp only
  split
  · intro hm
    simp only [List.mem_append, List.mem_reverse, List.mem_map] at hm
    rcases hm with ⟨v, _, hv⟩ | hm
    · exact absurd hv.symm (hp v)
    · exact hm
  · exact id

theorem stepCaller_pulls (c : Cfg) (s : St) (t : Tid) (id : Nat) (l : Bool) :
    Ev.pull t id l ∈ (stepCaller c s).log → Ev.pull t id l ∈ s.log ∨ l = true := by
  cases hpc : s.pc
  case dAcq k bs =>
    unfold stepCaller
    simp only [hpc]
    have hl := dispatchLocked_log c 0 false bs { s with lockOwner := some 0, pc := .dIn k }
    generalize dispatchLocked c 0 false bs { s with lockOwner := some 0, pc := .dIn k } = r at hl
    obtain ⟨s', x⟩ := r
    intro hm
    have hm' : Ev.pull t id l ∈ s'.log := by cases x <;> exact hm
    rcases hl _ hm' with h1 | ⟨id', h2⟩ | h3
    · exact Or.inl h1
    · simp only [Ev.pull.injEq] at h2
      right; rw [h2.2.2]; rfl
    · cases h3
  case resStatus i =>
    unfold stepCaller
    simp only [hpc]
    have v := returnOrRaise_log s i
    generalize returnOrRaise s i = r at v
    obtain ⟨s', x⟩ := r
    cases x with
    | error e => dsimp only; intro hm; exact Or.inl (v ▸ hm)
    | ok l' =>
      dsimp only; intro hm
      exact Or.inl (v ▸ deliverVals_log_pull c s' i l' _ (by simp) hm)
  case refStatus i =>
    unfold stepCaller
    simp only [hpc]
    have v := returnOrRaise_log s i
    generalize returnOrRaise s i = r at v
    obtain ⟨s', x⟩ := r
    cases x <;> (dsimp only; intro hm; exact Or.inl (v ▸ hm))
  case tailStatus i rem =>
    unfold stepCaller
    simp only [hpc]
    have v := returnOrRaise_log s i
    generalize returnOrRaise s i = r at v
    obtain ⟨s', x⟩ := r
    cases x with
    | error e =>
      dsimp only; intro hm
      simp only [finishRaise, ev, List.mem_cons] at hm
      rcases hm with hm | hm
      · cases hm
      · exact Or.inl (v ▸ hm)
    | ok l' =>
      dsimp only; intro hm
      have := tailNext_log_pull c _ rem _ (by simp) (by simp) (by simp) hm
      exact Or.inl (v ▸ deliverVals_log_pull c s' i l' _ (by simp) this)
  case finSetW e rem =>
    unfold stepCaller
    simp only [hpc]
    cases e with
    | some e =>
      dsimp only; intro hm
      simp only [finishRaise, ev, List.mem_cons] at hm
      rcases hm with hm | hm
      · cases hm
      · exact Or.inl hm
    | none =>
      dsimp only; intro hm
      have := tailNext_log_pull c _ rem _ (by simp) (by simp) (by simp) hm
      exact Or.inl this
  case refRel e =>
    unfold stepCaller
    cases e <;> simp only [hpc] <;> exact Or.inl
  all_goals
    unfold stepCaller
    simp only [hpc]
  all_goals repeat' split
  all_goals first
    | exact Or.inl
    | (intro hm; simp [finishRaise, ev, doSubmit, setCb, setTrk, dropParked, appendOutcome] at hm; exact Or.inl hm)
    | (intro hm; simp only [appendOutcome] at hm; split at hm <;> exact Or.inl hm)

theorem stepCaller_lockInv (c : Cfg) (s : St) (h : LockInv s) (he : callerEnabled s = true) :
    LockInv (stepCaller c s) := by
  have hc := stepCaller_core c s h.core h.noIn he
  refine ⟨hc.caller, hc.cb, hc.own0, hc.ownCb, stepCaller_noIn c s h.noIn, ?_⟩
  intro t id l hm
  rcases stepCaller_pulls c s t id l hm with h1 | h1
  · exact h.logLocked t id l h1
  · exact h1

end JoblibModel.ParallelLockU

namespace JoblibModel.ParallelLockU
open JoblibModel.ParallelLock (Tid Status CbPc DK DRes Act chunks)

/-! ### callback threads -/

theorem hold_setCb_self (l : List Tracker) (i : Nat) (t : Tracker) (h : cbHolding t.pc = false) :
    cbHolding (getT (l.set i t) i).pc = false := by
  rw [hold_set]
  split
  · exact h
  · rename_i hh
    have : l.length ≤ i := by
      apply Classical.byContradiction; intro hn; exact hh ⟨rfl, by omega⟩
    rw [getT_of_ge l i this]; rfl

/-- Callback `i`, the owner, releases the lock and parks outside the segment. -/
theorem LockCore.cbRelease {s s' : St} {i : Nat} (h : LockCore s) (ho : s.lockOwner = some (i + 1))
    (hl : s'.lockOwner = none) (hp : s'.pc.holding = s.pc.holding)
    (hi : cbHolding (getT s'.trk i).pc = false)
    (hc : ∀ j, j ≠ i → cbHolding (getT s'.trk j).pc = cbHolding (getT s.trk j).pc) : LockCore s' := by
  have ⟨f1, f2⟩ := h.others ho
  refine LockCore.released hl (by rw [hp]; exact f1) ?_
  intro j
  by_cases e : j = i
  · subst e; exact hi
  · rw [hc j e]; exact f2 j e

/-- Callback `i` takes the free lock and parks inside the segment. -/
theorem LockCore.cbAcquire {s s' : St} {i : Nat} (h : LockCore s) (hf : s.lockOwner = none)
    (hl : s'.lockOwner = some (i + 1)) (hp : s'.pc.holding = s.pc.holding)
    (hi : cbHolding (getT s'.trk i).pc = true)
    (hc : ∀ j, j ≠ i → cbHolding (getT s'.trk j).pc = cbHolding (getT s.trk j).pc) : LockCore s' := by
  have ⟨f1, f2⟩ := h.free hf
  refine LockCore.cbOwner hl (by rw [hp]; exact f1) hi ?_
  intro j e
  rw [hc j e]; exact f2 j

theorem cbAfterDispatch_core {s : St} {i : Nat} (h : LockCore s) (ho : s.lockOwner = some (i + 1)) (r : Bool) :
    LockCore (cbAfterDispatch i s r) := by
  unfold cbAfterDispatch setCb setTrk
  refine h.cbRelease ho ?_ ?_ ?_ ?_
  · rfl
  · simp only; split <;> rfl
  · simp only [getTrk_def]
    split <;> exact hold_setCb_self _ _ _ rfl
  · intro j e
    simp only [getTrk_def]
    split <;> exact hold_set_ne _ _ _ _ e

/-- `setCb` to a pc of the same kind. -/
theorem setCb_lview (s : St) (i : Nat) (p : CbPc) (h : cbHolding p = cbHolding (getT s.trk i).pc) :
    LView s (setCb s i p) :=
  ⟨rfl, rfl, fun j => by simp only [setCb, setTrk, getTrk_def]; exact hold_set_same _ _ _ _ h⟩

theorem cbDispatchResult_core {c : Cfg} {bs : Nat} {s : St} {i : Nat} (h : LockCore s)
    (ho : s.lockOwner = some (i + 1)) (hi : cbHolding (getT s.trk i).pc = true) {r : St × DRes}
    (hd : DLCase c bs s r) : LockCore (cbDispatchResult i r) := by
  have v := hd.lview
  obtain ⟨s', x⟩ := r
  have h' : LockCore s' := h.view v
  cases x with
  | submit j =>
    exact h'.view (setCb_lview s' i _ (by rw [v.cb, hi]; rfl))
  | ret r => exact cbAfterDispatch_core h' (v.lock.trans ho) r

theorem acqC_enter {s : St} {i : Nat} (h : LockCore s) (hf : s.lockOwner = none) (hlt : i < s.trk.length) (n : Nat) :
    LockCore (setCb { s with lockOwner := some (i + 1), nCompleted := n } i .bsC) ∧
    (setCb { s with lockOwner := some (i + 1), nCompleted := n } i .bsC).lockOwner = some (i + 1) ∧
    cbHolding (getT (setCb { s with lockOwner := some (i + 1), nCompleted := n } i .bsC).trk i).pc = true := by
  refine ⟨?_, rfl, ?_⟩
  · refine h.cbAcquire hf rfl rfl ?_ ?_
    · simp only [setCb, setTrk, getTrk_def]
      rw [hold_set]; simp [hlt, cbHolding]
    · intro j e
      simp only [setCb, setTrk, getTrk_def]
      exact hold_set_ne _ _ _ _ e
  · simp only [setCb, setTrk, getTrk_def]
    rw [hold_set]; simp [hlt, cbHolding]

theorem ite_prop {P : St → Prop} {p : Prop} [Decidable p] {a b : St} (ha : p → P a) (hb : ¬p → P b) :
    P (if p then a else b) := by
  split
  · exact ha ‹_›
  · exact hb ‹_›

theorem stepCb_core (c : Cfg) (i : Nat) (s : St) (h : LockCore s) (he : cbEnabled s i = true) :
    LockCore (stepCb c i s) := by
  have hen := he
  unfold cbEnabled at hen
  simp only [getTrk_def] at hen
  cases hpc : (getT s.trk i).pc
  case idle => rw [hpc] at hen; cases hen
  case parked => rw [hpc] at hen; cases hen
  case dropped => rw [hpc] at hen; cases hen
  case done b => rw [hpc] at hen; cases hen
  case acqA =>
    rw [hpc] at hen
    have hf : s.lockOwner = none := by simpa using hen
    have hlt : i < s.trk.length := lt_of_pc_ne_idle _ _ (by rw [hpc]; simp)
    simp only [stepCb, getTrk_def, hpc]
    refine ite_prop (P := LockCore) (fun _ => ?_) (fun _ => ite_prop (P := LockCore) (fun _ => ?_) (fun _ => ?_))
    · exact h.view (setCb_lview s i _ (by rw [hpc]; rfl))
    · exact h.view (setCb_lview s i _ (by rw [hpc]; rfl))
    · refine h.cbAcquire hf rfl rfl ?_ ?_
      · simp only [setCb, setTrk, getTrk_def]
        rw [hold_set]; simp [hlt, cbHolding]
      · intro j e
        simp only [setCb, setTrk, getTrk_def]
        exact hold_set_ne _ _ _ _ e
  case retr =>
    have ho : s.lockOwner = some (i + 1) := h.cb i (by rw [hpc]; rfl)
    simp only [stepCb, getTrk_def, hpc]
    refine ite_prop (P := LockCore) (fun _ => ?_) (fun _ => ?_)
    · refine h.cbRelease ho rfl rfl ?_ ?_
      · simp only [setCb, setTrk, getTrk_def]; exact hold_setCb_self _ _ _ rfl
      · intro j e; simp only [setCb, setTrk, getTrk_def]; exact hold_set_ne _ _ _ _ e
    · cases (getT s.trk i).failed with
      | some id =>
        refine h.cbRelease ho ?_ ?_ ?_ ?_
        · simp only [appendOutcome]; split <;> rfl
        · simp only [appendOutcome]; split <;> rfl
        · simp only [appendOutcome, setTrk]; split <;> exact hold_setCb_self _ _ _ rfl
        · intro j e; simp only [appendOutcome, setTrk]; split <;> exact hold_set_ne _ _ _ _ e
      | none =>
        refine h.cbRelease ho ?_ ?_ ?_ ?_
        · simp only [appendOutcome]; split <;> rfl
        · simp only [appendOutcome]; split <;> rfl
        · simp only [appendOutcome, setTrk]; split <;> exact hold_setCb_self _ _ _ rfl
        · intro j e; simp only [appendOutcome, setTrk]; split <;> exact hold_set_ne _ _ _ _ e
  case relA ok =>
    simp only [stepCb, getTrk_def, hpc]
    refine h.view (setCb_lview s i _ ?_)
    rw [hpc]; cases ok <;> rfl
  case stats =>
    simp only [stepCb, getTrk_def, hpc]
    exact h.view (setCb_lview s i _ (by rw [hpc]; rfl))
  case acqC =>
    rw [hpc] at hen
    have hf : s.lockOwner = none := by simpa using hen
    have hlt : i < s.trk.length := lt_of_pc_ne_idle _ _ (by rw [hpc]; simp)
    simp only [stepCb, getTrk_def, hpc]
    refine ite_prop (P := LockCore) (fun _ => ?_) (fun _ => ?_)
    · obtain ⟨h1, ho1, hi1⟩ := acqC_enter h hf hlt (s.nCompleted + (getT s.trk i).bsize)
      refine ite_prop (P := LockCore) (fun _ => ?_) (fun _ => ite_prop (P := LockCore) (fun _ => ?_) (fun _ => ?_))
      · exact cbAfterDispatch_core h1 ho1 false
      · exact h1
      · exact cbDispatchResult_core h1 ho1 hi1 (dispatchLocked_cases c (i + 1) true _ _)
    · exact LockCore.view (s := s) h ⟨rfl, rfl, fun j => by
        simp only [setCb, setTrk, getTrk_def]; exact hold_set_same _ _ _ _ (by rw [hpc]; rfl)⟩
  case bsC =>
    have hi : cbHolding (getT s.trk i).pc = true := by rw [hpc]; rfl
    have ho : s.lockOwner = some (i + 1) := h.cb i hi
    simp only [stepCb, getTrk_def, hpc]
    have h' : LockCore { s with bsI := s.bsI + 1 } := h.view ⟨rfl, rfl, fun _ => rfl⟩
    exact cbDispatchResult_core h' ho hi (dispatchLocked_cases c (i + 1) true _ _)
  case submitC j =>
    have hi : cbHolding (getT s.trk i).pc = true := by rw [hpc]; rfl
    have ho : s.lockOwner = some (i + 1) := h.cb i hi
    simp only [stepCb, getTrk_def, hpc]
    have ⟨f1, f2⟩ := h.others (i := i) ho
    refine LockCore.released rfl f1 ?_
    intro j'
    by_cases e : j' = i
    · subst e
      simp only [cbAfterDispatch, setCb, setTrk, getTrk_def]
      exact hold_setCb_self _ _ _ rfl
    · simp only [cbAfterDispatch, setCb, setTrk, getTrk_def, doSubmit, ev, if_true]
      rw [hold_set_ne _ _ _ _ e, hold_set]
      split
      · rfl
      · rw [hold_set_ne _ _ _ _ e]; exact f2 j' e
  case relC =>
    simp only [stepCb, getTrk_def, hpc]
    exact h.view (setCb_lview s i _ (by rw [hpc]; rfl))

end JoblibModel.ParallelLockU

namespace JoblibModel.ParallelLockU
open JoblibModel.ParallelLock (Tid Status CbPc DK DRes Act chunks)

theorem cbAfterDispatch_log (i : Nat) (s : St) (r : Bool) : (cbAfterDispatch i s r).log = s.log := by
  unfold cbAfterDispatch; simp only [setCb, setTrk]; split <;> rfl

theorem cbDispatchResult_log (i : Nat) (r : St × DRes) : (cbDispatchResult i r).log = r.1.log := by
  obtain ⟨s', x⟩ := r
  cases x with
  | submit j => rfl
  | ret b => exact cbAfterDispatch_log i s' b

theorem appendOutcome_log (c : Cfg) (i : Nat) (s : St) : (appendOutcome c i s).log = s.log := by
  unfold appendOutcome; split <;> rfl

theorem dispatch_pulls_owner (c : Cfg) (tid : Tid) (bs : Nat) (s : St) (ho : s.lockOwner = some tid)
    (t : Tid) (id : Nat) (l : Bool) :
    Ev.pull t id l ∈ (dispatchLocked c tid true bs s).1.log → Ev.pull t id l ∈ s.log ∨ l = true := by
  intro hm
  rcases dispatchLocked_log c tid true bs s _ hm with h1 | ⟨id', h2⟩ | h3
  · exact Or.inl h1
  · simp only [Ev.pull.injEq] at h2
    right; rw [h2.2.2, ho]; simp
  · cases h3

theorem stepCb_pulls (c : Cfg) (i : Nat) (s : St) (h : LockCore s) (t : Tid) (id : Nat) (l : Bool) :
    Ev.pull t id l ∈ (stepCb c i s).log → Ev.pull t id l ∈ s.log ∨ l = true := by
  cases hpc : (getT s.trk i).pc
  case acqA =>
    simp only [stepCb, getTrk_def, hpc]
    exact ite_prop (P := fun x => Ev.pull t id l ∈ x.log → Ev.pull t id l ∈ s.log ∨ l = true) (fun _ => Or.inl)
      (fun _ => ite_prop (P := fun x => Ev.pull t id l ∈ x.log → Ev.pull t id l ∈ s.log ∨ l = true)
        (fun _ => Or.inl) (fun _ => Or.inl))
  case retr =>
    simp only [stepCb, getTrk_def, hpc]
    refine ite_prop (P := fun x => Ev.pull t id l ∈ x.log → Ev.pull t id l ∈ s.log ∨ l = true) (fun _ => Or.inl)
      (fun _ => ?_)
    cases (getT s.trk i).failed <;> (intro hm; simp only [] at hm; rw [appendOutcome_log] at hm; exact Or.inl hm)
  case acqC =>
    simp only [stepCb, getTrk_def, hpc]
    refine ite_prop (P := fun x => Ev.pull t id l ∈ x.log → Ev.pull t id l ∈ s.log ∨ l = true) (fun _ => ?_)
      (fun _ => Or.inl)
    refine ite_prop (P := fun x => Ev.pull t id l ∈ x.log → Ev.pull t id l ∈ s.log ∨ l = true) (fun _ => ?_)
      (fun _ => ite_prop (P := fun x => Ev.pull t id l ∈ x.log → Ev.pull t id l ∈ s.log ∨ l = true)
        (fun _ => Or.inl) (fun _ => ?_))
    · intro hm; rw [cbAfterDispatch_log] at hm; exact Or.inl hm
    · intro hm
      rw [cbDispatchResult_log] at hm
      have := dispatch_pulls_owner c (i + 1) _ _ rfl t id l hm
      exact this
  case bsC =>
    have ho : s.lockOwner = some (i + 1) := h.cb i (by rw [hpc]; rfl)
    simp only [stepCb, getTrk_def, hpc]
    intro hm
    rw [cbDispatchResult_log] at hm
    exact dispatch_pulls_owner c (i + 1) _ { s with bsI := s.bsI + 1 } ho t id l hm
  case submitC j =>
    simp only [stepCb, getTrk_def, hpc]
    intro hm
    rw [cbAfterDispatch_log] at hm
    simp only [doSubmit, setCb, setTrk, ev, List.mem_cons] at hm
    rcases hm with hm | hm
    · cases hm
    · exact Or.inl hm
  all_goals
    simp only [stepCb, getTrk_def, hpc]
    exact Or.inl

theorem cbAfterDispatch_pc (i : Nat) (s : St) (r : Bool) : (cbAfterDispatch i s r).pc = s.pc := by
  unfold cbAfterDispatch; simp only [setCb, setTrk]; split <;> rfl

theorem cbDispatchResult_pc (i : Nat) (r : St × DRes) : (cbDispatchResult i r).pc = r.1.pc := by
  obtain ⟨s', x⟩ := r
  cases x with
  | submit j => rfl
  | ret b => exact cbAfterDispatch_pc i s' b

theorem appendOutcome_pc (c : Cfg) (i : Nat) (s : St) : (appendOutcome c i s).pc = s.pc := by
  unfold appendOutcome; split <;> rfl

/-- A callback never moves the caller's pc. -/
theorem stepCb_pc (c : Cfg) (i : Nat) (s : St) : (stepCb c i s).pc = s.pc := by
  cases hpc : (getT s.trk i).pc
  case acqA =>
    simp only [stepCb, getTrk_def, hpc]
    exact ite_prop (P := fun x => x.pc = s.pc) (fun _ => rfl)
      (fun _ => ite_prop (P := fun x => x.pc = s.pc) (fun _ => rfl) (fun _ => rfl))
  case retr =>
    simp only [stepCb, getTrk_def, hpc]
    refine ite_prop (P := fun x => x.pc = s.pc) (fun _ => rfl) (fun _ => ?_)
    cases (getT s.trk i).failed <;> (simp only []; rw [appendOutcome_pc]; rfl)
  case acqC =>
    simp only [stepCb, getTrk_def, hpc]
    refine ite_prop (P := fun x => x.pc = s.pc) (fun _ => ?_) (fun _ => rfl)
    refine ite_prop (P := fun x => x.pc = s.pc) (fun _ => ?_)
      (fun _ => ite_prop (P := fun x => x.pc = s.pc) (fun _ => rfl) (fun _ => ?_))
    · rw [cbAfterDispatch_pc]; rfl
    · rw [cbDispatchResult_pc, (dispatchLocked_cases c (i + 1) true _ _).pc_eq]; rfl
  case bsC =>
    simp only [stepCb, getTrk_def, hpc]
    rw [cbDispatchResult_pc, (dispatchLocked_cases c (i + 1) true _ _).pc_eq]
  case submitC j =>
    simp only [stepCb, getTrk_def, hpc]
    rw [cbAfterDispatch_pc]; rfl
  all_goals
    simp only [stepCb, getTrk_def, hpc]
    try (first | rfl | (split <;> rfl))

theorem stepCb_lockInv (c : Cfg) (i : Nat) (s : St) (h : LockInv s) (he : cbEnabled s i = true) :
    LockInv (stepCb c i s) := by
  have hc := stepCb_core c i s h.core he
  refine ⟨hc.caller, hc.cb, hc.own0, hc.ownCb, ?_, ?_⟩
  · intro k hk
    exact h.noIn k (stepCb_pc c i s ▸ hk)
  · intro t id l hm
    rcases stepCb_pulls c i s h.core t id l hm with h1 | h1
    · exact h.logLocked t id l h1
    · exact h1

theorem complete_lockInv (c : Cfg) (i : Nat) (s : St) (h : LockInv s) (hp : (getT s.trk i).pc = .parked) :
    LockInv (complete c i s) := by
  have v : LView s (complete c i s) :=
    ⟨rfl, rfl, fun j => by
      simp only [complete, setTrk, ev, getTrk_def]
      exact hold_set_same _ _ _ _ (by rw [hp]; rfl)⟩
  have hc := h.core.view v
  refine ⟨hc.caller, hc.cb, hc.own0, hc.ownCb, h.noIn, ?_⟩
  intro t id l hm
  simp only [complete, setTrk, ev, List.mem_cons] at hm
  rcases hm with hm | hm
  · cases hm
  · exact h.logLocked t id l hm

theorem parkedIds_pc (s : St) (k i : Nat) (h : (parkedIds s)[k]? = some i) : (getT s.trk i).pc = .parked := by
  have hm : i ∈ parkedIds s := List.mem_of_getElem? h
  simp only [parkedIds, List.mem_filter, getTrk_def] at hm
  simpa using hm.2

theorem step_lockInv (c : Cfg) (s : St) (h : LockInv s) (a : Act) : LockInv (step c s a) := by
  cases a with
  | thread t =>
    cases t with
    | zero =>
      simp only [step]
      split
      · exact stepCaller_lockInv c s h ‹_›
      · exact h
    | succ i =>
      simp only [step]
      split
      · exact stepCb_lockInv c i s h ‹_›
      · exact h
  | complete k =>
    simp only [step]
    split
    · exact complete_lockInv c _ s h (parkedIds_pc s k _ ‹_›)
    · exact h

theorem run_lockInv (c : Cfg) (sched : List Act) : ∀ s, LockInv s → LockInv (run c s sched) := by
  induction sched with
  | nil => intro s h; exact h
  | cons a r ih => intro s h; exact ih _ (step_lockInv c s h a)

end JoblibModel.ParallelLockU
