import JoblibModel.ParallelLockU
/-!
M1LU proofs — basic facts: the tracker table (`getTrk`/`setTrk`/`setCb`), and ONE characterisation of the locked region
of `dispatch_one_batch` (`dispatchLocked_cases`): which fields it may change and the three shapes of its result.
-/
namespace JoblibModel.ParallelLockU
open JoblibModel.ParallelLock (Tid Status CbPc DK DRes Act chunks)

/-- `getTrk` as a function of the table only (the simp-normal form of the proofs). -/
def getT (l : List Tracker) (i : Nat) : Tracker := l.getD i default

@[simp] theorem getTrk_def (s : St) (i : Nat) : getTrk s i = getT s.trk i := rfl

theorem getT_set (l : List Tracker) (i j : Nat) (t : Tracker) :
    getT (l.set i t) j = if j = i ∧ i < l.length then t else getT l j := by
  simp only [getT, List.getD_eq_getElem?_getD, List.getElem?_set]
  by_cases h : i = j
  · subst h
    by_cases h2 : i < l.length
    · simp [h2]
    · simp [h2]
  · have : ¬ (j = i) := fun e => h e.symm
    simp [h, this]

theorem getT_append_left (l l' : List Tracker) (i : Nat) (h : i < l.length) : getT (l ++ l') i = getT l i := by
  simp [getT, List.getD_eq_getElem?_getD, List.getElem?_append_left h]

@[simp] theorem getT_append_length (l : List Tracker) (t : Tracker) : getT (l ++ [t]) l.length = t := by
  simp [getT, List.getD_eq_getElem?_getD]

theorem getT_of_ge (l : List Tracker) (i : Nat) (h : l.length ≤ i) : getT l i = default := by
  simp [getT, List.getD_eq_getElem?_getD, List.getElem?_eq_none h]

theorem getT_append (l : List Tracker) (t : Tracker) (i : Nat) :
    getT (l ++ [t]) i = if i < l.length then getT l i else if i = l.length then t else default := by
  by_cases h : i < l.length
  · simp [h, getT_append_left]
  · by_cases h2 : i = l.length
    · subst h2; simp
    · simp only [h, h2, if_false]
      apply getT_of_ge
      simp only [List.length_append, List.length_singleton]; omega

theorem getT_map (l : List Tracker) (f : Tracker → Tracker) (i : Nat) (h : i < l.length) :
    getT (l.map f) i = f (getT l i) := by
  simp [getT, List.getD_eq_getElem?_getD, List.getElem?_eq_getElem h]

/-- A tracker whose callback pc is not `idle` exists. -/
theorem lt_of_pc_ne_idle (l : List Tracker) (i : Nat) (h : (getT l i).pc ≠ .idle) : i < l.length := by
  apply Classical.byContradiction
  intro hn
  rw [getT_of_ge l i (by omega)] at h
  exact h rfl

/-! ### the locked region of `dispatch_one_batch` -/

/-- `s1` is `s` up to the fields of the input iterator, the look-ahead queue and the log. -/
def SameBut (s s1 : St) : Prop :=
  s1 = { s with srcPos := s1.srcPos, srcDead := s1.srcDead, srcRaised := s1.srcRaised, preLeft := s1.preLeft,
                log := s1.log, ready := s1.ready }

theorem SameBut.refl (s : St) : SameBut s s := rfl

theorem pull_sameBut (c : Cfg) (t : Tid) (f : Bool) (k : Nat) (s : St) : SameBut s (pull c t f k s).1 := by
  unfold pull
  simp only
  split
  · rfl
  · rfl

/-- Every new log entry of `pull` is a `pull` by `t` stamped with "does `t` own the lock", or a `pullraise`. -/
theorem pull_log (c : Cfg) (t : Tid) (f : Bool) (k : Nat) (s : St) :
    ∀ e ∈ (pull c t f k s).1.log, e ∈ s.log ∨ (∃ id, e = Ev.pull t id (s.lockOwner == some t)) ∨ e = Ev.pullraise t := by
  unfold pull
  simp only
  split
  · intro e he; exact Or.inl he
  · intro e he
    simp only [List.mem_append] at he
    rcases he with he | he
    · split at he
      · simp only [List.mem_cons, List.mem_reverse, List.mem_map] at he
        rcases he with he | ⟨id, _, rfl⟩
        · exact Or.inr (Or.inr he)
        · exact Or.inr (Or.inl ⟨id, rfl⟩)
      · simp only [List.mem_reverse, List.mem_map] at he
        obtain ⟨id, _, rfl⟩ := he
        exact Or.inr (Or.inl ⟨id, rfl⟩)
    · exact Or.inl he

/-- The tracker `_dispatch` creates for `tasks`. -/
def newTracker (s : St) (tasks : List Nat) : Tracker :=
  { items := tasks, bsize := tasks.length, callId := s.callId }

/-- The tracker registered for an error of the input iterable. -/
def errTracker (s : St) (bs : Nat) : Tracker :=
  { items := [], bsize := bs, callId := s.callId, status := .error, result := .exc (.iter s.srcPos) }

/-- The three shapes of the result of the locked region of `dispatch_one_batch`. -/
inductive DLCase (c : Cfg) (bs : Nat) (s : St) : St × DRes → Prop where
  | ret (s1 : St) (r : Bool) (h : SameBut s s1) : DLCase c bs s (s1, .ret r)
  | submit (s1 : St) (tasks : List Nat) (h : SameBut s s1) (hab : s.aborting = false) :
      DLCase c bs s (registerNewJob c s.trk.length
        { s1 with nDispTasks := s1.nDispTasks + tasks.length, trk := s1.trk ++ [newTracker s tasks] }, .submit s.trk.length)
  | iterr (s1 : St) (h : SameBut s s1) (hab : s.aborting = false) :
      DLCase c bs s (registerIterError c bs s1, .ret true)

theorem dispatchTasks_case (c : Cfg) (bs : Nat) (s s1 : St) (h : SameBut s s1) (tasks : List Nat) :
    DLCase c bs s (dispatchTasks c s1 tasks) := by
  unfold dispatchTasks
  split
  · exact .ret s1 false h
  · split
    · exact .ret s1 true h
    · rename_i hab
      have e1 : s1.trk = s.trk := by rw [h]
      have e2 : s1.callId = s.callId := by rw [h]
      have e3 : s1.aborting = s.aborting := by rw [h]
      have := DLCase.submit (c := c) (bs := bs) s1 tasks h (by rw [← e3]; simpa using hab)
      simpa [newTracker, e1, e2] using this

theorem SameBut.setReady {s s1 : St} (h : SameBut s s1) (r : List (List Nat)) : SameBut s { s1 with ready := r } := by
  unfold SameBut at h ⊢
  rw [h]

theorem dispatchLocked_cases (c : Cfg) (t : Tid) (f : Bool) (bs : Nat) (s : St) :
    DLCase c bs s (dispatchLocked c t f bs s) := by
  unfold dispatchLocked
  split
  · exact .ret s false rfl
  · rename_i hab
    split
    · rename_i tasks rest hr
      exact dispatchTasks_case c bs s _ ((SameBut.refl s).setReady rest) tasks
    · rename_i hr
      have hp := pull_sameBut c t f (bs * c.nj) s
      simp only
      split
      · exact .iterr _ hp (by simpa using hab)
      · split
        · exact .ret _ false hp
        · split
          · exact .ret _ false hp
          · exact dispatchTasks_case c bs s _ (hp.setReady _) _

/-- Every new log entry of the locked region is a `pull` by `t` stamped with "does `t` own the lock", or `pullraise`. -/
theorem dispatchLocked_log (c : Cfg) (t : Tid) (f : Bool) (bs : Nat) (s : St) :
    ∀ e ∈ (dispatchLocked c t f bs s).1.log,
      e ∈ s.log ∨ (∃ id, e = Ev.pull t id (s.lockOwner == some t)) ∨ e = Ev.pullraise t := by
  have hdt : ∀ (s1 : St) (tasks : List Nat), (dispatchTasks c s1 tasks).1.log = s1.log := by
    intro s1 tasks
    unfold dispatchTasks registerNewJob
    split
    · rfl
    · split
      · rfl
      · simp only; split <;> rfl
  unfold dispatchLocked
  split
  · intro e he; exact Or.inl he
  · split
    · intro e he; rw [hdt] at he; exact Or.inl he
    · have hp := pull_log c t f (bs * c.nj) s
      simp only
      split
      · intro e he
        apply hp
        simpa [registerIterError, registerNewJob, appendOutcome, apply_ite St.log] using he
      · split
        · exact hp
        · split
          · exact hp
          · intro e he; rw [hdt] at he; exact hp e he

end JoblibModel.ParallelLockU
