import JoblibProofs.Lemmas.ParallelLockU.Chain
/-!
M1LU proofs — the BOUND invariant: every tracker index held in `_jobs`, `_jobs_set`, the local `timeout_control_job`,
the caller's `get_status` program points and the ghost `appended` refers to an existing tracker.
-/
namespace JoblibModel.ParallelLockU
open JoblibModel.ParallelLock (Tid Status CbPc DK DRes Act chunks)

/-- The tracker the caller's `get_status` / `_register_outcome` program point is about. -/
def Pc.carries : Pc → Option Nat
  | .gsStatus i _ | .toAcq i _ | .toRel i _ _ | .toStatus i _ | .toExcW i _ | .toAbortW i _ | .toAcq2 i _
  | .toRel2 i _ | .gsRet i _ => some i
  | _ => none

structure BInv (s : St) : Prop where
  jobs : ∀ j ∈ s.jobs, j < s.trk.length
  set : ∀ j ∈ s.jobsSet, j < s.trk.length
  ctl : ∀ j, s.ctlJob = some j → j < s.trk.length
  pc : ∀ i, s.pc.carries = some i → i < s.trk.length
  app : ∀ j ∈ s.appended, j < s.trk.length

theorem bInv_init : BInv init := by
  refine ⟨?_, ?_, ?_, ?_, ?_⟩ <;> simp [init, Pc.carries]

theorem BInv.step {s s' : St} (h : BInv s) (hlen : s.trk.length ≤ s'.trk.length)
    (hj : ∀ j ∈ s'.jobs, j ∈ s.jobs ∨ j < s'.trk.length)
    (hs : ∀ j ∈ s'.jobsSet, j ∈ s.jobsSet ∨ j < s'.trk.length)
    (hc : ∀ j, s'.ctlJob = some j → s.ctlJob = some j ∨ j < s'.trk.length)
    (hp : ∀ i, s'.pc.carries = some i → s.pc.carries = some i ∨ i < s'.trk.length)
    (ha : ∀ j ∈ s'.appended, j ∈ s.appended ∨ j < s'.trk.length) : BInv s' := by
  refine ⟨?_, ?_, ?_, ?_, ?_⟩
  · intro j hjm; rcases hj j hjm with e | e
    · exact Nat.lt_of_lt_of_le (h.jobs j e) hlen
    · exact e
  · intro j hjm; rcases hs j hjm with e | e
    · exact Nat.lt_of_lt_of_le (h.set j e) hlen
    · exact e
  · intro j hjm; rcases hc j hjm with e | e
    · exact Nat.lt_of_lt_of_le (h.ctl j e) hlen
    · exact e
  · intro j hjm; rcases hp j hjm with e | e
    · exact Nat.lt_of_lt_of_le (h.pc j e) hlen
    · exact e
  · intro j hjm; rcases ha j hjm with e | e
    · exact Nat.lt_of_lt_of_le (h.app j e) hlen
    · exact e

/-- What `BInv` reads besides the pc: a step that only appends existing trackers. -/
structure BFrame (s s' : St) : Prop where
  len : s.trk.length ≤ s'.trk.length
  jobs : ∀ j ∈ s'.jobs, j ∈ s.jobs ∨ j < s'.trk.length
  set : ∀ j ∈ s'.jobsSet, j ∈ s.jobsSet ∨ j < s'.trk.length
  ctl : s'.ctlJob = s.ctlJob
  app : ∀ j ∈ s'.appended, j ∈ s.appended ∨ j < s'.trk.length

theorem BFrame.refl (s : St) : BFrame s s :=
  ⟨Nat.le_refl _, fun _ h => Or.inl h, fun _ h => Or.inl h, rfl, fun _ h => Or.inl h⟩

theorem BFrame.trans {a b c : St} (h1 : BFrame a b) (h2 : BFrame b c) : BFrame a c := by
  refine ⟨Nat.le_trans h1.len h2.len, ?_, ?_, h2.ctl.trans h1.ctl, ?_⟩
  · intro j hj; rcases h2.jobs j hj with e | e
    · rcases h1.jobs j e with e' | e'
      · exact Or.inl e'
      · exact Or.inr (Nat.lt_of_lt_of_le e' h2.len)
    · exact Or.inr e
  · intro j hj; rcases h2.set j hj with e | e
    · rcases h1.set j e with e' | e'
      · exact Or.inl e'
      · exact Or.inr (Nat.lt_of_lt_of_le e' h2.len)
    · exact Or.inr e
  · intro j hj; rcases h2.app j hj with e | e
    · rcases h1.app j e with e' | e'
      · exact Or.inl e'
      · exact Or.inr (Nat.lt_of_lt_of_le e' h2.len)
    · exact Or.inr e

theorem BInv.frame {s s' : St} (h : BInv s) (f : BFrame s s') (hp : s'.pc = s.pc) : BInv s' :=
  h.step f.len f.jobs f.set (fun j hj => Or.inl (f.ctl ▸ hj)) (fun i hi => Or.inl (hp ▸ hi)) f.app

theorem bframe_of_same {s s0 : St} (h1 : s0.trk = s.trk) (h2 : s0.jobs = s.jobs) (h3 : s0.jobsSet = s.jobsSet)
    (h4 : s0.ctlJob = s.ctlJob) (h5 : s0.appended = s.appended) : BFrame s s0 :=
  ⟨by rw [h1]; exact Nat.le_refl _, fun _ h => Or.inl (h2 ▸ h), fun _ h => Or.inl (h3 ▸ h), h4, fun _ h => Or.inl (h5 ▸ h)⟩

theorem bframe_setTrk (s : St) (i : Nat) (t : Tracker) : BFrame s (setTrk s i t) :=
  ⟨by simp [setTrk], fun _ h => Or.inl h, fun _ h => Or.inl h, rfl, fun _ h => Or.inl h⟩

theorem setCb_bframe (s : St) (i : Nat) (p : CbPc) : BFrame s (setCb s i p) := bframe_setTrk s i _

theorem setCb_bframe' {s : St} (s0 : St) (i : Nat) (p : CbPc) (h1 : s0.trk = s.trk) (h2 : s0.jobs = s.jobs)
    (h3 : s0.jobsSet = s.jobsSet) (h4 : s0.ctlJob = s.ctlJob) (h5 : s0.appended = s.appended) :
    BFrame s (setCb s0 i p) :=
  (bframe_of_same h1 h2 h3 h4 h5).trans (setCb_bframe s0 i p)

theorem cbAfterDispatch_bframe (i : Nat) (s : St) (r : Bool) : BFrame s (cbAfterDispatch i s r) := by
  unfold cbAfterDispatch
  split
  · exact setCb_bframe' _ i .relC rfl rfl rfl rfl rfl
  · exact setCb_bframe' _ i .relC rfl rfl rfl rfl rfl

theorem SameBut.bview {s s1 : St} (h : SameBut s s1) :
    s1.trk = s.trk ∧ s1.jobs = s.jobs ∧ s1.jobsSet = s.jobsSet ∧ s1.ctlJob = s.ctlJob ∧ s1.appended = s.appended := by
  unfold SameBut at h
  refine ⟨?_, ?_, ?_, ?_, ?_⟩ <;> rw [h]

theorem mem_append_len {l : List Nat} {n j : Nat} (h : j ∈ l ++ [n]) : j ∈ l ∨ j < n + 1 := by
  simp only [List.mem_append, List.mem_singleton] at h
  rcases h with h | h
  · exact Or.inl h
  · right; omega

theorem DLCase.bframe {c : Cfg} {bs : Nat} {s : St} {r : St × DRes} (h : DLCase c bs s r) : BFrame s r.1 := by
  cases h with
  | ret s1 r h =>
    obtain ⟨a, b, d, e, f⟩ := h.bview
    exact bframe_of_same a b d e f
  | submit s1 tasks h hab =>
    obtain ⟨a, b, d, e, f⟩ := h.bview
    unfold registerNewJob
    split
    · refine ⟨by simp [a], fun j hj => Or.inl (b ▸ hj), ?_, e, fun j hj => Or.inl (f ▸ hj)⟩
      intro j hj
      simp only [a, d, List.length_append, List.length_singleton] at hj ⊢
      exact mem_append_len hj
    · refine ⟨by simp [a], ?_, fun j hj => Or.inl (d ▸ hj), e, fun j hj => Or.inl (f ▸ hj)⟩
      intro j hj
      simp only [a, b, List.length_append, List.length_singleton] at hj ⊢
      exact mem_append_len hj
  | iterr s1 h hab =>
    obtain ⟨a, b, d, e, f⟩ := h.bview
    unfold registerIterError appendOutcome registerNewJob
    by_cases hra : (c.ra == 2) = true
    · simp only [hra, if_true]
      refine ⟨by simp [a], ?_, ?_, e, ?_⟩ <;>
      · intro j hj
        simp only [a, b, d, f, List.length_append, List.length_singleton] at hj ⊢
        exact mem_append_len hj
    · have hra' : (c.ra == 2) = false := by simpa using hra
      simp only [hra', Bool.false_eq_true, if_false]
      refine ⟨by simp [a], ?_, fun j hj => Or.inl (d ▸ hj), e, fun j hj => Or.inl (f ▸ hj)⟩
      intro j hj
      simp only [a, b, List.length_append, List.length_singleton] at hj ⊢
      exact mem_append_len hj

theorem cbDispatchResult_bframe {c : Cfg} {bs : Nat} {s : St} (i : Nat) {r : St × DRes} (hd : DLCase c bs s r) :
    BFrame s (cbDispatchResult i r) := by
  have h1 : BFrame s r.1 := hd.bframe
  obtain ⟨s', x⟩ := r
  cases x with
  | submit j => exact h1.trans (setCb_bframe s' i _)
  | ret b => exact h1.trans (cbAfterDispatch_bframe i s' b)

theorem appendOutcome_bframe (c : Cfg) (i : Nat) (s : St) (hi : i < s.trk.length) : BFrame s (appendOutcome c i s) := by
  unfold appendOutcome
  split
  · refine ⟨Nat.le_refl _, ?_, fun _ h => Or.inl h, rfl, ?_⟩ <;>
    · intro j hj
      simp only [List.mem_append, List.mem_singleton] at hj
      rcases hj with hj | hj
      · exact Or.inl hj
      · right; rw [hj]; exact hi
  · exact BFrame.refl s

theorem stepCb_bframe (c : Cfg) (i : Nat) (s : St) : BFrame s (stepCb c i s) := by
  cases hpc : (getT s.trk i).pc
  case acqA =>
    simp only [stepCb, getTrk_def, hpc]
    exact ite_prop (P := BFrame s) (fun _ => setCb_bframe s i _)
      (fun _ => ite_prop (P := BFrame s) (fun _ => setCb_bframe s i _)
        (fun _ => setCb_bframe' _ i _ rfl rfl rfl rfl rfl))
  case retr =>
    have hlt : i < s.trk.length := lt_of_pc_ne_idle _ _ (by rw [hpc]; simp)
    simp only [stepCb, getTrk_def, hpc]
    refine ite_prop (P := BFrame s) (fun _ => setCb_bframe' _ i _ rfl rfl rfl rfl rfl) (fun _ => ?_)
    cases (getT s.trk i).failed with
    | some id =>
      simp only []
      have a : BFrame s ({ s with lockOwner := none, exception := true, aborting := true } : St) :=
        bframe_of_same rfl rfl rfl rfl rfl
      exact (a.trans (bframe_setTrk _ i _)).trans (appendOutcome_bframe c i _ (by simp [setTrk, hlt]))
    | none =>
      simp only []
      have a : BFrame s ({ s with lockOwner := none } : St) := bframe_of_same rfl rfl rfl rfl rfl
      exact (a.trans (bframe_setTrk _ i _)).trans (appendOutcome_bframe c i _ (by simp [setTrk, hlt]))
  case acqC =>
    simp only [stepCb, getTrk_def, hpc]
    refine ite_prop (P := BFrame s) (fun _ => ?_) (fun _ => setCb_bframe' _ i _ rfl rfl rfl rfl rfl)
    have h0 : BFrame s (setCb { s with lockOwner := some (i + 1), nCompleted := s.nCompleted + (getT s.trk i).bsize } i .bsC) :=
      setCb_bframe' _ i .bsC rfl rfl rfl rfl rfl
    refine ite_prop (P := BFrame s) (fun _ => ?_) (fun _ => ite_prop (P := BFrame s) (fun _ => h0) (fun _ => ?_))
    · exact h0.trans (cbAfterDispatch_bframe i _ false)
    · exact h0.trans (cbDispatchResult_bframe i (dispatchLocked_cases c (i + 1) true _ _))
  case bsC =>
    simp only [stepCb, getTrk_def, hpc]
    exact BFrame.trans (b := { s with bsI := s.bsI + 1 }) (bframe_of_same rfl rfl rfl rfl rfl)
      (cbDispatchResult_bframe i (dispatchLocked_cases c (i + 1) true _ _))
  case submitC j =>
    simp only [stepCb, getTrk_def, hpc]
    refine BFrame.trans (b := doSubmit (i + 1) j (setCb s i .bsC)) ?_ (cbAfterDispatch_bframe i _ true)
    exact (setCb_bframe s i .bsC).trans (setCb_bframe' (ev (setCb s i .bsC) _) j .parked rfl rfl rfl rfl rfl)
  all_goals
    simp only [stepCb, getTrk_def, hpc]
    first | exact BFrame.refl s | exact setCb_bframe s i _

theorem afterDispatch_carries (c : Cfg) (k : DK) (r : Bool) : (afterDispatch c k r).carries = none := by
  cases k <;> cases r <;> simp only [afterDispatch] <;> (try split) <;> rfl

theorem getStatusEntry_carries (c : Cfg) (i : Nat) (k : GK) : (getStatusEntry c i k).carries = some i := by
  unfold getStatusEntry; split <;> rfl

theorem pickCtl_mem (c : Cfg) (s : St) (j : Nat) (h : pickCtl c s = some j) : j ∈ s.jobsSet := by
  unfold pickCtl at h
  split at h
  · cases h
  · exact List.mem_of_getElem? h

theorem returnOrRaise_bfacts (s : St) (i : Nat) :
    (returnOrRaise s i).1.trk.length = s.trk.length ∧ (returnOrRaise s i).1.jobs = s.jobs ∧
    (returnOrRaise s i).1.jobsSet = s.jobsSet ∧ (returnOrRaise s i).1.ctlJob = s.ctlJob ∧
    (returnOrRaise s i).1.appended = s.appended := by
  unfold returnOrRaise
  simp only []
  split
  · exact ⟨rfl, rfl, rfl, rfl, rfl⟩
  · split <;> exact ⟨by simp [setTrk], rfl, rfl, rfl, rfl⟩
  · split <;> exact ⟨by simp [setTrk], rfl, rfl, rfl, rfl⟩

theorem deliverVals_bfacts (c : Cfg) (s : St) (i : Nat) (l : List Nat) :
    (deliverVals c s i l).trk = s.trk ∧ (deliverVals c s i l).jobs = s.jobs ∧
    (deliverVals c s i l).jobsSet = s.jobsSet ∧ (deliverVals c s i l).ctlJob = s.ctlJob ∧
    (deliverVals c s i l).appended = s.appended := by
  unfold deliverVals
  refine ⟨?_, ?_, ?_, ?_, ?_⟩ <;> (simp only; split <;> rfl)

theorem tailNext_bfacts (c : Cfg) (s : St) (rem : List Nat) :
    (tailNext c s rem).pc.carries = none ∧ (tailNext c s rem).trk = s.trk ∧ (tailNext c s rem).jobs = s.jobs ∧
    (tailNext c s rem).jobsSet = s.jobsSet ∧ (tailNext c s rem).ctlJob = s.ctlJob ∧
    (tailNext c s rem).appended = s.appended := by
  cases rem with
  | nil =>
    unfold tailNext finishRet ev
    refine ⟨rfl, ?_, ?_, ?_, ?_, ?_⟩ <;> (simp only; split <;> rfl)
  | cons i r => exact ⟨rfl, rfl, rfl, rfl, rfl, rfl⟩

/-- A move of the caller that keeps the table size and the lists, to a pc that carries nothing or the same tracker. -/
theorem BInv.move {s s' : St} (h : BInv s) (ht : s'.trk.length = s.trk.length) (hj : s'.jobs = s.jobs)
    (hs : s'.jobsSet = s.jobsSet) (hc : s'.ctlJob = s.ctlJob) (ha : s'.appended = s.appended)
    (hp : ∀ i, s'.pc.carries = some i → i < s.trk.length) : BInv s' :=
  ⟨fun j hjm => ht ▸ h.jobs j (hj ▸ hjm), fun j hjm => ht ▸ h.set j (hs ▸ hjm), fun j hjm => ht ▸ h.ctl j (hc ▸ hjm),
   fun i hi => ht ▸ hp i hi, fun j hjm => ht ▸ h.app j (ha ▸ hjm)⟩

theorem stepCaller_binv (c : Cfg) (s : St) (h : BInv s) : BInv (stepCaller c s) := by
  cases hpc : s.pc
  case dAcq k bs =>
    unfold stepCaller
    simp only [hpc]
    have hd := (dispatchLocked_cases c 0 false bs { s with lockOwner := some 0, pc := .dIn k }).bframe
    generalize dispatchLocked c 0 false bs { s with lockOwner := some 0, pc := .dIn k } = r at hd
    obtain ⟨s', x⟩ := r
    cases x <;>
    · exact h.step hd.len hd.jobs hd.set (fun j hj => Or.inl (hd.ctl ▸ hj)) (fun i hi => by simp [Pc.carries] at hi) hd.app
  case dSubmit k j =>
    unfold stepCaller
    simp only [hpc]
    exact h.move (by simp [doSubmit, setCb, setTrk, ev]) rfl rfl rfl rfl (fun i hi => by simp [Pc.carries] at hi)
  case rtLen =>
    unfold stepCaller
    simp only [hpc]
    split
    · split <;> exact h.move rfl rfl rfl rfl rfl (fun i hi => by simp [Pc.carries] at hi)
    · split
      · split
        · exact h.move rfl rfl rfl rfl rfl (fun i hi => by simp [Pc.carries] at hi)
        · rename_i j hj
          refine h.move rfl rfl rfl rfl rfl (fun i hi => ?_)
          rw [getStatusEntry_carries] at hi
          simp only [Option.some.injEq] at hi
          subst hi; exact h.ctl _ hj
      · split
        · exact h.move rfl rfl rfl rfl rfl (fun i hi => by simp [Pc.carries] at hi)
        · refine ⟨?_, ?_, ?_, ?_, ?_⟩
          · intro j hj; simp only [setTrk, List.length_set] at hj ⊢; exact h.jobs j hj
          · intro j hj; simp only [setTrk, List.length_set] at hj ⊢; exact h.set j hj
          · intro j hj; simp at hj
          · intro i hi; simp [Pc.carries] at hi
          · intro j hj; simp only [setTrk, List.length_set] at hj ⊢; exact h.app j hj
  case rtHead =>
    unfold stepCaller
    simp only [hpc]
    split
    · exact h.move rfl rfl rfl rfl rfl (fun i hi => by simp [Pc.carries] at hi)
    · rename_i i rest hj
      refine h.move rfl rfl rfl rfl rfl (fun i' hi => ?_)
      rw [getStatusEntry_carries] at hi
      simp only [Option.some.injEq] at hi
      subst hi; exact h.jobs _ (by rw [hj]; simp)
  case ctlAcq =>
    unfold stepCaller
    simp only [hpc]
    refine ⟨h.jobs, h.set, ?_, fun i hi => by simp [Pc.carries] at hi, h.app⟩
    intro j hj
    exact h.set j (pickCtl_mem c s j hj)
  case ctlRel =>
    unfold stepCaller
    simp only [hpc]
    split
    · exact h.move rfl rfl rfl rfl rfl (fun i hi => by simp [Pc.carries] at hi)
    · rename_i j hj
      refine h.move rfl rfl rfl rfl rfl (fun i hi => ?_)
      rw [getStatusEntry_carries] at hi
      simp only [Option.some.injEq] at hi
      subst hi; exact h.ctl _ hj
  case toAcq2 i k =>
    have hi := h.pc i (by rw [hpc]; rfl)
    unfold stepCaller
    simp only [hpc]
    have f := appendOutcome_bframe c i s hi
    exact h.step f.len f.jobs f.set (fun j hj => Or.inl (f.ctl ▸ hj)) (fun i' hi' => by
      simp only [Pc.carries, Option.some.injEq] at hi'; subst hi'; right
      exact Nat.lt_of_lt_of_le hi f.len) f.app
  case popAcq =>
    unfold stepCaller
    simp only [hpc]
    split
    · exact h.move rfl rfl rfl rfl rfl (fun i hi => by simp [Pc.carries] at hi)
    · rename_i i rest hj
      have hjr : ∀ j ∈ rest, j < s.trk.length := fun j hjm => h.jobs j (by rw [hj]; simp [hjm])
      split
      · exact ⟨hjr, h.set, h.ctl, fun i hi => by simp [Pc.carries] at hi, h.app⟩
      · split
        · exact ⟨hjr, fun j hjm => h.set j (List.mem_of_mem_erase hjm), h.ctl, fun i hi => by simp [Pc.carries] at hi, h.app⟩
        · exact ⟨hjr, h.set, h.ctl, fun i hi => by simp [Pc.carries] at hi, h.app⟩
  case resStatus i =>
    unfold stepCaller
    simp only [hpc]
    have hv := returnOrRaise_bfacts s i
    generalize returnOrRaise s i = r at hv
    obtain ⟨s', x⟩ := r
    obtain ⟨h1, h2, h3, h4, h5⟩ := hv
    cases x with
    | error e => exact h.move h1 h2 h3 h4 h5 (fun i hi => by simp [Pc.carries] at hi)
    | ok l =>
      obtain ⟨f1, f2, f3, f4, f5⟩ := deliverVals_bfacts c s' i l
      exact h.move (s' := { deliverVals c s' i l with pc := .wtAbort }) (by simp only; rw [f1, h1]) (f2.trans h2)
        (f3.trans h3) (f4.trans h4) (f5.trans h5) (fun i hi => by simp [Pc.carries] at hi)
  case refStatus i =>
    unfold stepCaller
    simp only [hpc]
    have hv := returnOrRaise_bfacts s i
    generalize returnOrRaise s i = r at hv
    obtain ⟨s', x⟩ := r
    obtain ⟨h1, h2, h3, h4, h5⟩ := hv
    cases x <;> exact h.move h1 h2 h3 h4 h5 (fun i hi => by simp [Pc.carries] at hi)
  case tailStatus i rem =>
    unfold stepCaller
    simp only [hpc]
    have hv := returnOrRaise_bfacts s i
    generalize returnOrRaise s i = r at hv
    obtain ⟨s', x⟩ := r
    obtain ⟨h1, h2, h3, h4, h5⟩ := hv
    cases x with
    | error e => exact h.move (s' := finishRaise s' e) h1 h2 h3 h4 h5 (fun i hi => by simp [finishRaise, Pc.carries] at hi)
    | ok l =>
      obtain ⟨f1, f2, f3, f4, f5⟩ := deliverVals_bfacts c s' i l
      obtain ⟨g0, g1, g2, g3, g4, g5⟩ := tailNext_bfacts c (deliverVals c s' i l) rem
      exact h.move (s' := tailNext c (deliverVals c s' i l) rem) (by rw [g1, f1, h1]) (g2.trans (f2.trans h2))
        (g3.trans (f3.trans h3)) (g4.trans (f4.trans h4)) (g5.trans (f5.trans h5))
        (fun i hi => by rw [g0] at hi; cases hi)
  case finSetW e rem =>
    unfold stepCaller
    simp only [hpc]
    cases e with
    | some e =>
      exact ⟨h.jobs, by simp [finishRaise, ev], h.ctl, fun i hi => by simp [finishRaise, Pc.carries] at hi, h.app⟩
    | none =>
      obtain ⟨g0, g1, g2, g3, g4, g5⟩ := tailNext_bfacts c { s with pc := Pc.finSetW none rem, jobsSet := [], running := false } rem
      refine ⟨?_, ?_, ?_, ?_, ?_⟩
      · intro j hj; rw [g1]; rw [g2] at hj; exact h.jobs j hj
      · intro j hj; rw [g3] at hj; cases hj
      · intro j hj; rw [g1]; rw [g4] at hj; exact h.ctl j hj
      · intro i hi; rw [g0] at hi; cases hi
      · intro j hj; rw [g1]; rw [g5] at hj; exact h.app j hj
  case finJobsW e rem =>
    unfold stepCaller
    simp only [hpc]
    exact ⟨by simp, h.set, h.ctl, fun i hi => by simp [Pc.carries] at hi, h.app⟩
  case refRel e =>
    unfold stepCaller
    cases e <;> simp only [hpc] <;> exact h.move rfl rfl rfl rfl rfl (fun i hi => by simp [Pc.carries] at hi)
  case abortCall e =>
    unfold stepCaller
    simp only [hpc, ev, dropParked]
    refine h.move ?_ ?_ ?_ ?_ ?_ (fun i hi => by simp [Pc.carries] at hi) <;> (simp only; split <;> simp)
  case dIn k => unfold stepCaller; simp only [hpc]; exact h
  case done => unfold stepCaller; simp only [hpc]; exact h
  case resetAcq =>
    unfold stepCaller
    simp only [hpc]
    split
    · exact h.move (s' := finishRaise s .runtime) rfl rfl rfl rfl rfl (fun i hi => by simp [finishRaise, Pc.carries] at hi)
    · exact h.move rfl rfl rfl rfl rfl (fun i hi => by simp [Pc.carries] at hi)
  all_goals
    have hcar := h.pc
    rw [hpc] at hcar
    unfold stepCaller
    simp only [hpc]
  all_goals repeat' split
  all_goals
    refine h.move ?_ rfl rfl rfl rfl ?_
  all_goals first
    | rfl
    | (simp [setTrk]; done)
    | (intro i hi; simp [Pc.carries] at hi; done)
    | (intro i hi; rw [afterDispatch_carries] at hi; cases hi)
    | (intro i hi; exact hcar i hi)
    | (intro i hi; simp only [Pc.carries, Option.some.injEq] at hi; subst hi; exact hcar _ rfl)

theorem step_binv (c : Cfg) (s : St) (h : BInv s) (a : Act) : BInv (step c s a) := by
  cases a with
  | thread t =>
    cases t with
    | zero =>
      simp only [step]
      split
      · exact stepCaller_binv c s h
      · exact h
    | succ i =>
      simp only [step]
      split
      · exact h.frame (stepCb_bframe c i s) (stepCb_pc c i s)
      · exact h
  | complete k =>
    simp only [step]
    split
    · rename_i f _
      refine h.frame (s' := complete c f s) ?_ rfl
      simp only [complete]
      have a : BFrame s (ev s (.complete f (getTrk s f).items)) := bframe_of_same rfl rfl rfl rfl rfl
      exact a.trans (bframe_setTrk _ f _)
    · exact h

theorem run_binv (c : Cfg) (sched : List Act) : ∀ s, BInv s → BInv (run c s sched) := by
  induction sched with
  | nil => intro s h; exact h
  | cons a r ih => intro s h; exact ih _ (step_binv c s h a)

end JoblibModel.ParallelLockU
